(* C12 -- LevyCopulaModel.inverse_tail_integral (py2coq-generated: Gen.GenC12Inverse) inverts the marginal tail integral.

   The root finder scipy.optimize.toms748 is NOT modelled; it is a section variable `solver` with the specification of a
   bracketing root search in the orientation the code uses it (the tail integral is non-increasing on each side of 0, so
   f = U - y satisfies f(a) >= 0 >= f(b)):
        solver_ok tol :  the returned point r lies in an enclosure [l, h] of [a, b] of width <= tol with f(l) >= 0 >= f(h).
   (tol = 0: r is an exact root.)  The spec is only assumed for the functions the code passes (u |-> U u - y).
   From the spec, monotonicity of U on the bracket and STRICT monotonicity on a sub-interval (s1, s2) (the support of the
   margin on that side) the round trips follow: the bracketed sign change is unique there.  The theorems also exercise the
   two early returns of the code: they must not fire on the range of U, and they clamp levels beyond it. *)
From Coq Require Import List Arith Bool Reals QArith Qreals Lra.
From RV Require Import Base.RB Base.ExtNum Gen.GenC12Inverse.
Open Scope R_scope.

Definition brackets (tol : R) (f : R -> R) (a b r : R) : Prop :=
  exists l h, a <= l /\ l <= r /\ r <= h /\ h <= b /\ h - l <= tol /\ 0 <= f l /\ f h <= 0.
Definition dec_on (U : R -> R) (a b : R) : Prop := forall u v, a <= u -> u <= v -> v <= b -> U v <= U u.
Definition sdec_on (U : R -> R) (s1 s2 : R) : Prop := forall u v, s1 <= u -> u < v -> v <= s2 -> U v < U u.

(* uniqueness of the bracketed sign change: any enclosure of a sign change of U - U x contains x *)
Lemma bracket_unique (U : R -> R) a b s1 s2 tol x r :
  dec_on U a b -> sdec_on U s1 s2 -> a <= s1 -> s2 <= b -> s1 < x < s2 ->
  brackets tol (fun u => U u - U x) a b r -> Rabs (r - x) <= tol.
Proof.
  intros D S A B [X1 X2] [l [h [Hal [Hlr [Hrh [Hhb [Hw [Fl Fh]]]]]]]].
  assert (Lx : l <= x).
  { destruct (Rle_dec l x) as [|N]; [assumption|]. exfalso. apply Rnot_le_lt in N.
    assert (M : x < Rmin l s2) by (apply Rmin_glb_lt; lra).
    pose proof (S x (Rmin l s2) ltac:(lra) M (Rmin_r _ _)) as K1.
    pose proof (D (Rmin l s2) l ltac:(lra) (Rmin_l _ _) ltac:(lra)) as K2. lra. }
  assert (Xh : x <= h).
  { destruct (Rle_dec x h) as [|N]; [assumption|]. exfalso. apply Rnot_le_lt in N.
    assert (M : Rmax h s1 < x) by (apply Rmax_lub_lt; lra).
    pose proof (S (Rmax h s1) x (Rmax_r _ _) M ltac:(lra)) as K1.
    pose proof (D h (Rmax h s1) ltac:(lra) (Rmax_l _ _) ltac:(lra)) as K2. lra. }
  apply Rabs_le. lra.
Qed.

Section Hand.
  Variable U : R -> R.                                   (* u |-> marginal_tail_integral(i, u) on finite arguments *)
  Variable solver : (R -> R) -> R -> R -> R -> R.        (* toms748(f, a, b, xtol) *)
  Variables ap bp an bn xtol : R.                        (* the four bracket literals and xtol of the code *)
  Definition froot (y u : R) : R := U u - y.
  Definition inv_hand (y : R) : R :=
    if Rltb 0 y then (if Rltb (froot y ap) 0 then ap else solver (froot y) ap bp xtol)
    else (if Rltb 0 (froot y bn) then bn else solver (froot y) an bn xtol).
  Definition solver_ok (tol : R) : Prop :=
    forall y a b, a <= b -> froot y b <= 0 -> 0 <= froot y a -> brackets tol (froot y) a b (solver (froot y) a b xtol).

  Hypothesis Hp : ap <= bp.
  Hypothesis Hn : an <= bn.

  (* U^-1(U(x)) = x up to the enclosure width, positive side (levels y = U x > 0) and negative side (levels y = U x <= 0) *)
  Theorem left_inverse_pos tol s1 s2 x : solver_ok tol -> dec_on U ap bp -> sdec_on U s1 s2 -> ap <= s1 -> s2 <= bp ->
    s1 < x < s2 -> 0 < U x -> Rabs (inv_hand (U x) - x) <= tol.
  Proof.
    intros Sok D S A B X Y. unfold inv_hand. rewrite (proj2 (Rltb_true 0 (U x)) Y).
    assert (Fa : 0 <= froot (U x) ap) by (unfold froot; pose proof (D ap x ltac:(lra) ltac:(lra) ltac:(lra)); lra).
    assert (Fb : froot (U x) bp <= 0) by (unfold froot; pose proof (D x bp ltac:(lra) ltac:(lra) ltac:(lra)); lra).
    rewrite (proj2 (Rltb_false (froot (U x) ap) 0) Fa).
    apply (bracket_unique U ap bp s1 s2); auto. apply (Sok (U x) ap bp Hp Fb Fa).
  Qed.
  Theorem left_inverse_neg tol s1 s2 x : solver_ok tol -> dec_on U an bn -> sdec_on U s1 s2 -> an <= s1 -> s2 <= bn ->
    s1 < x < s2 -> U x <= 0 -> Rabs (inv_hand (U x) - x) <= tol.
  Proof.
    intros Sok D S A B X Y. unfold inv_hand. rewrite (proj2 (Rltb_false 0 (U x)) Y).
    assert (Fa : 0 <= froot (U x) an) by (unfold froot; pose proof (D an x ltac:(lra) ltac:(lra) ltac:(lra)); lra).
    assert (Fb : froot (U x) bn <= 0) by (unfold froot; pose proof (D x bn ltac:(lra) ltac:(lra) ltac:(lra)); lra).
    rewrite (proj2 (Rltb_false 0 (froot (U x) bn)) Fb).
    apply (bracket_unique U an bn s1 s2); auto. apply (Sok (U x) an bn Hn Fb Fa).
  Qed.

  (* U(U^-1(y)) = y for an exact root finder (enclosure of width 0) and every level in the range of U over the bracket;
     levels beyond the range take the early return and are clamped to the bracket end next to 0 *)
  Theorem right_inverse y : solver_ok 0 ->
    (0 < y -> U bp <= y -> y <= U ap -> U (inv_hand y) = y /\ ap <= inv_hand y <= bp) /\
    (y <= 0 -> U bn <= y -> y <= U an -> U (inv_hand y) = y /\ an <= inv_hand y <= bn) /\
    (0 < y -> U ap < y -> inv_hand y = ap) /\
    (y <= 0 -> y < U bn -> inv_hand y = bn).
  Proof.
    intros Sok. unfold inv_hand. split; [|split; [|split]].
    - intros Y Hb Ha. rewrite (proj2 (Rltb_true 0 y) Y).
      rewrite (proj2 (Rltb_false (froot y ap) 0)) by (unfold froot; lra).
      destruct (Sok y ap bp Hp ltac:(unfold froot; lra) ltac:(unfold froot; lra)) as [l [h [? [? [? [? [? [Fl Fh]]]]]]]].
      set (r := solver (froot y) ap bp xtol) in *.
      assert (El : l = r) by lra. assert (Eh : h = r) by lra. subst l. rewrite Eh in Fh. unfold froot in *. split; lra.
    - intros Y Hb Ha. rewrite (proj2 (Rltb_false 0 y) Y).
      rewrite (proj2 (Rltb_false 0 (froot y bn))) by (unfold froot; lra).
      destruct (Sok y an bn Hn ltac:(unfold froot; lra) ltac:(unfold froot; lra)) as [l [h [? [? [? [? [? [Fl Fh]]]]]]]].
      set (r := solver (froot y) an bn xtol) in *.
      assert (El : l = r) by lra. assert (Eh : h = r) by lra. subst l. rewrite Eh in Fh. unfold froot in *. split; lra.
    - intros Y H. rewrite (proj2 (Rltb_true 0 y) Y). rewrite (proj2 (Rltb_true (froot y ap) 0)) by (unfold froot; lra). reflexivity.
    - intros Y H. rewrite (proj2 (Rltb_false 0 y) Y). rewrite (proj2 (Rltb_true 0 (froot y bn))) by (unfold froot; lra). reflexivity.
  Qed.
End Hand.

(* ---- the generated function IS inv_hand at the literals of the source ------------------------------------------------ *)
Definition lit_ap : R := Q2R (6646139978924579 # 664613997892457936451903530140172288).    (* the double 1e-20 *)
Definition lit_bp : R := Q2R (500 # 1).
Definition lit_an : R := Q2R (- (500 # 1)).
Definition lit_bn : R := Q2R (- (6646139978924579 # 664613997892457936451903530140172288)).
Definition lit_xtol : R := Q2R (6338253001141147 # 633825300114114700748351602688).        (* the double 1e-14 *)

Lemma generated_is_hand (U1 : nat -> ext R -> R) solver i y :
  inverse_tail_integral RNum Q2R U1 solver i y = inv_hand (fun u => U1 i (Fin u)) solver lit_ap lit_bp lit_an lit_bn lit_xtol y.
Proof. reflexivity. Qed.

Lemma lit_order : 0 < lit_ap /\ lit_ap < 1 / 10 ^ 19 /\ lit_bp = 500 /\ lit_an = - 500 /\ lit_bn = - lit_ap /\ 0 < lit_xtol.
Proof. unfold lit_ap, lit_bp, lit_an, lit_bn, lit_xtol, Q2R; simpl. repeat split; lra. Qed.

(* C12 -- LevyCopulaModel.inverse_tail_integral (py2coq-generated: Gen.GenC12Inverse) inverts the marginal tail integral.

   The root finder scipy.optimize.toms748 is NOT modelled; it is a section variable `solver` with the specification of a
   bracketing root search in the orientation the code uses it (the tail integral is non-increasing on each side of 0, so
   f = U - y satisfies f(a) >= 0 >= f(b)):
        solver_ok tol :  the returned point r lies in an enclosure [l, h] of [a, b] of width <= tol with f(l) >= 0 >= f(h).
   (tol = 0: r is an exact root.)  The spec is only assumed for the functions the code passes (u |-> U u - y).
   From the spec, monotonicity of U on the bracket and STRICT monotonicity on a sub-interval (s1, s2) (the support of the
   margin on that side) the round trips follow: the bracketed sign change is unique there.  The theorems also exercise the
   two early returns of the code: they must not fire on the range of U, and they clamp levels beyond it. *)
From Coq Require Import List Arith Bool Reals QArith Qreals Lra.
From RV Require Import Base.RB Base.ExtNum Gen.GenC12Inverse.
Open Scope R_scope.

Definition brackets (tol : R) (f : R -> R) (a b r : R) : Prop :=
  exists l h, a <= l /\ l <= r /\ r <= h /\ h <= b /\ h - l <= tol /\ 0 <= f l /\ f h <= 0.
Definition dec_on (U : R -> R) (a b : R) : Prop := forall u v, a <= u -> u <= v -> v <= b -> U v <= U u.
Definition sdec_on (U : R -> R) (s1 s2 : R) : Prop := forall u v, s1 <= u -> u < v -> v <= s2 -> U v < U u.

(* uniqueness of the bracketed sign change: any enclosure of a sign change of U - U x contains x *)
Lemma bracket_unique (U : R -> R) a b s1 s2 tol x r :
  dec_on U a b -> sdec_on U s1 s2 -> a <= s1 -> s2 <= b -> s1 < x < s2 ->
  brackets tol (fun u => U u - U x) a b r -> Rabs (r - x) <= tol.
Proof.
  intros D S A B [X1 X2] [l [h [Hal [Hlr [Hrh [Hhb [Hw [Fl Fh]]]]]]]].
  assert (Lx : l <= x).
  { destruct (Rle_dec l x) as [|N]; [assumption|]. exfalso. apply Rnot_le_lt in N.
    assert (M : x < Rmin l s2) by (apply Rmin_glb_lt; lra).
    pose proof (S x (Rmin l s2) ltac:(lra) M (Rmin_r _ _)) as K1.
    pose proof (D (Rmin l s2) l ltac:(lra) (Rmin_l _ _) ltac:(lra)) as K2. lra. }
  assert (Xh : x <= h).
  { destruct (Rle_dec x h) as [|N]; [assumption|]. exfalso. apply Rnot_le_lt in N.
    assert (M : Rmax h s1 < x) by (apply Rmax_lub_lt; lra).
    pose proof (S (Rmax h s1) x (Rmax_r _ _) M ltac:(lra)) as K1.
    pose proof (D h (Rmax h s1) ltac:(lra) (Rmax_l _ _) ltac:(lra)) as K2. lra. }
  apply Rabs_le. lra.
Qed.

Section Hand.
  Variable U : R -> R.                                   (* u |-> marginal_tail_integral(i, u) on finite arguments *)
  Variable solver : (R -> R) -> R -> R -> R -> R.        (* toms748(f, a, b, xtol) *)
  Variables ap bp an bn xtol : R.                        (* the four bracket literals and xtol of the code *)
  Definition froot (y u : R) : R := U u - y.
  Definition inv_hand (y : R) : R :=
    if Rltb 0 y then (if Rltb (froot y ap) 0 then ap else solver (froot y) ap bp xtol)
    else (if Rltb 0 (froot y bn) then bn else solver (froot y) an bn xtol).
  Definition solver_ok (tol : R) : Prop :=
    forall y a b, a <= b -> froot y b <= 0 -> 0 <= froot y a -> brackets tol (froot y) a b (solver (froot y) a b xtol).

  Hypothesis Hp : ap <= bp.
  Hypothesis Hn : an <= bn.

  (* U^-1(U(x)) = x up to the enclosure width, positive side (levels y = U x > 0) and negative side (levels y = U x <= 0) *)
  Theorem left_inverse_pos tol s1 s2 x : solver_ok tol -> dec_on U ap bp -> sdec_on U s1 s2 -> ap <= s1 -> s2 <= bp ->
    s1 < x < s2 -> 0 < U x -> Rabs (inv_hand (U x) - x) <= tol.
  Proof.
    intros Sok D S A B X Y. unfold inv_hand. rewrite (proj2 (Rltb_true 0 (U x)) Y).
    assert (Fa : 0 <= froot (U x) ap) by (unfold froot; pose proof (D ap x ltac:(lra) ltac:(lra) ltac:(lra)); lra).
    assert (Fb : froot (U x) bp <= 0) by (unfold froot; pose proof (D x bp ltac:(lra) ltac:(lra) ltac:(lra)); lra).
    rewrite (proj2 (Rltb_false (froot (U x) ap) 0) Fa).
    apply (bracket_unique U ap bp s1 s2); auto. apply (Sok (U x) ap bp Hp Fb Fa).
  Qed.
  Theorem left_inverse_neg tol s1 s2 x : solver_ok tol -> dec_on U an bn -> sdec_on U s1 s2 -> an <= s1 -> s2 <= bn ->
    s1 < x < s2 -> U x <= 0 -> Rabs (inv_hand (U x) - x) <= tol.
  Proof.
    intros Sok D S A B X Y. unfold inv_hand. rewrite (proj2 (Rltb_false 0 (U x)) Y).
    assert (Fa : 0 <= froot (U x) an) by (unfold froot; pose proof (D an x ltac:(lra) ltac:(lra) ltac:(lra)); lra).
    assert (Fb : froot (U x) bn <= 0) by (unfold froot; pose proof (D x bn ltac:(lra) ltac:(lra) ltac:(lra)); lra).
    rewrite (proj2 (Rltb_false 0 (froot (U x) bn)) Fb).
    apply (bracket_unique U an bn s1 s2); auto. apply (Sok (U x) an bn Hn Fb Fa).
  Qed.

  (* U(U^-1(y)) = y for an exact root finder (enclosure of width 0) and every level in the range of U over the bracket;
     levels beyond the range take the early return and are clamped to the bracket end next to 0 *)
  Theorem right_inverse y : solver_ok 0 ->
    (0 < y -> U bp <= y -> y <= U ap -> U (inv_hand y) = y /\ ap <= inv_hand y <= bp) /\
    (y <= 0 -> U bn <= y -> y <= U an -> U (inv_hand y) = y /\ an <= inv_hand y <= bn) /\
    (0 < y -> U ap < y -> inv_hand y = ap) /\
    (y <= 0 -> y < U bn -> inv_hand y = bn).
  Proof.
    intros Sok. unfold inv_hand. split; [|split; [|split]].
    - intros Y Hb Ha. rewrite (proj2 (Rltb_true 0 y) Y).
      rewrite (proj2 (Rltb_false (froot y ap) 0)) by (unfold froot; lra).
      destruct (Sok y ap bp Hp ltac:(unfold froot; lra) ltac:(unfold froot; lra)) as [l [h [? [? [? [? [? [Fl Fh]]]]]]]].
      set (r := solver (froot y) ap bp xtol) in *.
      assert (El : l = r) by lra. assert (Eh : h = r) by lra. subst l. rewrite Eh in Fh. unfold froot in *. split; lra.
    - intros Y Hb Ha. rewrite (proj2 (Rltb_false 0 y) Y).
      rewrite (proj2 (Rltb_false 0 (froot y bn))) by (unfold froot; lra).
      destruct (Sok y an bn Hn ltac:(unfold froot; lra) ltac:(unfold froot; lra)) as [l [h [? [? [? [? [? [Fl Fh]]]]]]]].
      set (r := solver (froot y) an bn xtol) in *.
      assert (El : l = r) by lra. assert (Eh : h = r) by lra. subst l. rewrite Eh in Fh. unfold froot in *. split; lra.
    - intros Y H. rewrite (proj2 (Rltb_true 0 y) Y). rewrite (proj2 (Rltb_true (froot y ap) 0)) by (unfold froot; lra). reflexivity.
    - intros Y H. rewrite (proj2 (Rltb_false 0 y) Y). rewrite (proj2 (Rltb_true 0 (froot y bn))) by (unfold froot; lra). reflexivity.
  Qed.
End Hand.

(* ---- the generated function IS inv_hand at the literals of the source ------------------------------------------------ *)
Definition lit_ap : R := Q2R (6646139978924579 # 664613997892457936451903530140172288).    (* the double 1e-20 *)
Definition lit_bp : R := Q2R (500 # 1).
Definition lit_an : R := Q2R (- (500 # 1)).
Definition lit_bn : R := Q2R (- (6646139978924579 # 664613997892457936451903530140172288)).
Definition lit_xtol : R := Q2R (6338253001141147 # 633825300114114700748351602688).        (* the double 1e-14 *)

Lemma generated_is_hand (U1 : nat -> ext R -> R) solver i y :
  inverse_tail_integral RNum Q2R U1 solver i y = inv_hand (fun u => U1 i (Fin u)) solver lit_ap lit_bp lit_an lit_bn lit_xtol y.
Proof. reflexivity. Qed.

Lemma lit_order : 0 < lit_ap /\ lit_ap < 1 / 10 ^ 19 /\ lit_bp = 500 /\ lit_an = - 500 /\ lit_bn = - lit_ap /\ 0 < lit_xtol.
Proof. unfold lit_ap, lit_bp, lit_an, lit_bn, lit_xtol, Q2R; simpl. repeat split; lra. Qed.

(* ---- wave 8b (audit5b B1): the enclosure width TIED to the literals of the code -------------------------------------------
   scipy's TOMS748Solver stops when  np.isclose(a, b, rtol = rtol, atol = xtol)  i.e.  |a - b| <= xtol + rtol * |b|  and returns
   the midpoint; levycopulamodel.py passes xtol = 1e-14 and no rtol, so rtol is scipy's default _rtol = 4 * eps = 2^-50 (pinned by an
   assertion of the harness on scipy.optimize._zeros_py._rtol; the emitter refuses an explicit rtol=).  toms_ok states THAT
   stopping rule as the specification: the enclosure width is bounded by  xtol + rtol * max(|a|, |b|)  where xtol is the argument the
   generated code passes.  On the code's brackets (|a|, |b| <= 500) this is  lit_tol = 1e-14 + 2^-50 * 500 < 4.6e-13  -- NOT 1e-14.
   Still specified, not verified: maxiter = 100 (RuntimeError), nan (ValueError), the shortcuts  f(a) == 0 -> a,  f(b) == 0 -> b,
   ValueError when f(a) f(b) > 0, and the float evaluation of U are not in this specification. *)
Definition lit_rtol : R := Q2R (1 # 1125899906842624).       (* 2^-50 = 4 * eps = scipy.optimize._zeros_py._rtol *)
Definition lit_tol : R := lit_xtol + lit_rtol * 500.

Lemma lit_tol_bound : 0 < lit_tol /\ lit_xtol < lit_tol /\ lit_tol < 46 / 10 ^ 14.
Proof. unfold lit_tol, lit_xtol, lit_rtol, Q2R; simpl. repeat split; lra. Qed.

Lemma brackets_mono tol tol' f a b r : tol <= tol' -> brackets tol f a b r -> brackets tol' f a b r.
Proof. intros H [l [h [? [? [? [? [? [? ?]]]]]]]]. exists l, h. repeat split; try assumption. lra. Qed.

Section Toms.
  Variable U : R -> R.
  Variable solver : (R -> R) -> R -> R -> R -> R.
  Definition toms_ok (xtol rtol : R) : Prop :=
    forall y a b, a <= b -> froot U y b <= 0 -> 0 <= froot U y a ->
      brackets (xtol + rtol * Rmax (Rabs a) (Rabs b)) (froot U y) a b (solver (froot U y) a b xtol).

  Lemma toms_width a b : - 500 <= a -> a <= b -> b <= 500 -> lit_xtol + lit_rtol * Rmax (Rabs a) (Rabs b) <= lit_tol.
  Proof.
    intros A AB B. unfold lit_tol. assert (P : 0 < lit_rtol) by (unfold lit_rtol, Q2R; simpl; lra).
    assert (M : Rmax (Rabs a) (Rabs b) <= 500) by (apply Rmax_lub; apply Rabs_le; lra).
    pose proof (Rmult_le_compat_l lit_rtol _ _ (Rlt_le _ _ P) M). lra.
  Qed.

  Let inv := inv_hand U solver lit_ap lit_bp lit_an lit_bn lit_xtol.

  Theorem left_inverse_toms s1 s2 x : toms_ok lit_xtol lit_rtol -> sdec_on U s1 s2 -> s1 < x < s2 ->
    (dec_on U lit_ap 500 -> lit_ap <= s1 -> s2 <= 500 -> 0 < U x -> Rabs (inv (U x) - x) <= lit_tol) /\
    (dec_on U (- 500) (- lit_ap) -> - 500 <= s1 -> s2 <= - lit_ap -> U x <= 0 -> Rabs (inv (U x) - x) <= lit_tol).
  Proof.
    intros Tok S X. destruct lit_order as [P0 [P1 [Ebp [Ean [Ebn _]]]]]. unfold inv, inv_hand. split; intros D A B Y.
    - rewrite (proj2 (Rltb_true 0 (U x)) Y).
      assert (Fa : 0 <= froot U (U x) lit_ap) by (unfold froot; pose proof (D lit_ap x ltac:(lra) ltac:(lra) ltac:(lra)); lra).
      assert (Fb : froot U (U x) lit_bp <= 0) by (rewrite Ebp; unfold froot; pose proof (D x 500 ltac:(lra) ltac:(lra) ltac:(lra)); lra).
      rewrite (proj2 (Rltb_false (froot U (U x) lit_ap) 0) Fa).
      apply (bracket_unique U lit_ap lit_bp s1 s2); auto; try lra. rewrite Ebp; assumption.
      apply (brackets_mono (lit_xtol + lit_rtol * Rmax (Rabs lit_ap) (Rabs lit_bp))). apply toms_width; lra.
      apply (Tok (U x) lit_ap lit_bp ltac:(lra) Fb Fa).
    - rewrite (proj2 (Rltb_false 0 (U x)) Y).
      assert (Fa : 0 <= froot U (U x) lit_an) by (rewrite Ean; unfold froot; pose proof (D (-500) x ltac:(lra) ltac:(lra) ltac:(lra)); lra).
      assert (Fb : froot U (U x) lit_bn <= 0) by (rewrite Ebn; unfold froot; pose proof (D x (- lit_ap) ltac:(lra) ltac:(lra) ltac:(lra)); lra).
      rewrite (proj2 (Rltb_false 0 (froot U (U x) lit_bn)) Fb).
      apply (bracket_unique U lit_an lit_bn s1 s2); auto; try lra. rewrite Ean, Ebn; assumption.
      apply (brackets_mono (lit_xtol + lit_rtol * Rmax (Rabs lit_an) (Rabs lit_bn))). apply toms_width; lra.
      apply (Tok (U x) lit_an lit_bn ltac:(lra) Fb Fa).
  Qed.

  (* ---- finding F-C12-6: the level 0 is sent to the NEGATIVE bracket (`if x > 0` is false at 0).  Whatever the root finder does inside
     its bracket [-500, -1e-20], the inverse of the level 0 is negative: a point x > 0 with U x = 0 (beyond the support of the margin on
     the positive side) is mapped to the other side of the origin, at distance >= x + 1e-20.  Only "the solver returns a point of its
     bracket" is assumed, for the one call the code makes. *)
  Theorem level_zero_wrong_side x :
    U (- lit_ap) <= 0 -> - 500 <= solver (froot U 0) lit_an lit_bn lit_xtol <= - lit_ap -> 0 < x -> U x = 0 ->
    inv (U x) = solver (froot U 0) lit_an lit_bn lit_xtol /\ inv (U x) <= - lit_ap /\ x + lit_ap <= Rabs (inv (U x) - x).
  Proof.
    intros Ub Hs X Ux. destruct lit_order as [P0 [P1 [Ebp [Ean [Ebn _]]]]]. unfold inv, inv_hand. rewrite Ux.
    rewrite (proj2 (Rltb_false 0 0)) by lra.
    rewrite (proj2 (Rltb_false 0 (froot U 0 lit_bn))) by (rewrite Ebn; unfold froot; lra).
    split; [reflexivity|]. split; [lra|]. set (r := solver _ _ _ _) in *. rewrite Rabs_left by lra. lra.
  Qed.
End Toms.

(* C12 -- rectangle mass of a copula model: the hard-coded 2-d / 3-d formulas (py2coq-generated
   Gen.GenC12Mass, instantiated over the reals in Model.MassNd) against the general recursion
   _mass_nd (hand model), additivity under splitting a coordinate, margin consistency.

   Abstract family of tail integrals: U1 i x (marginal), UI I x (I-margin) with exactly two
   hypotheses, both consequences of how the code builds them:
     UI_inf : a tail integral with an infinite coordinate is 0   (U_i(+-inf) = 0 and the copula is grounded)
     UI_one : the {i}-margin is the marginal tail integral          (margin_tail_integral, len(indices) == 1)
   Coordinates are extended reals; `straddles a b` is the code's test  a < 0 <= b. *)
From Coq Require Import List Arith Bool Reals Lra Lia.
From RV Require Import Base.RB Base.ExtNum Model.Copula Gen.GenC12Mass Model.MassNd.
Import ListNotations.
Open Scope R_scope.

Definition is_inf {A} (x : ext A) : bool := match x with Fin _ => false | _ => true end.

Lemma ge0_lt0 (x : ext R) : @xge0 RNum x = true -> @xlt0 RNum x = false.
Proof. destruct x; simpl; try congruence. intros H. apply Rleb_true in H. apply Rltb_false. exact H. Qed.
Lemma lt0_ge0 (x : ext R) : @xlt0 RNum x = true -> @xge0 RNum x = false.
Proof. destruct x; simpl; try congruence. intros H. apply Rltb_true in H. apply Rleb_false. exact H. Qed.

Lemma ge0_neg (x : ext R) : @xge0 RNum x = negb (@xlt0 RNum x).
Proof. destruct (@xlt0 RNum x) eqn:E; simpl. apply lt0_ge0; exact E.
  destruct x; simpl in *; try congruence. apply Rleb_true. apply Rltb_false in E. exact E. Qed.
Lemma lt0_mono (x y : ext R) : @xleb RNum x y = true -> @xlt0 RNum y = true -> @xlt0 RNum x = true.
Proof. destruct x, y; simpl; try congruence. intros H1 H2. apply Rleb_true in H1. apply Rltb_true in H2. apply Rltb_true. lra. Qed.

Section C12.
  Variable U1 : nat -> ext R -> R.
  Variable UI : idx -> list (ext R) -> R.
  (* `ok I`: I is an index list the model family is defined for (instantiated by okI d: NoDup, entries < d) *)
  Variable ok : list nat -> Prop.
  Hypothesis UI_inf : forall I x, ok I -> length x = length I -> existsb is_inf x = true -> UI (Some I) x = 0.
  Hypothesis UI_one : forall i x, ok [i] -> UI (Some [i]) [x] = U1 i x.
  Definition ok2 (i1 i2 : nat) : Prop := ok [i1; i2] /\ ok [i1] /\ ok [i2].
  Definition ok3 (i1 i2 i3 : nat) : Prop :=
    ok [i1; i2; i3] /\ ok [i1; i2] /\ ok [i1; i3] /\ ok [i2; i3] /\ ok [i1] /\ ok [i2] /\ ok [i3].

  Lemma i1p i : ok [i] -> UI (Some [i]) [PInf] = 0. Proof. intros; apply UI_inf; auto. Qed.
  Lemma i1n i : ok [i] -> UI (Some [i]) [NInf] = 0. Proof. intros; apply UI_inf; auto. Qed.
  Lemma i2a i j y : ok [i; j] -> UI (Some [i; j]) [PInf; y] = 0. Proof. intros; apply UI_inf; auto. Qed.
  Lemma i2b i j y : ok [i; j] -> UI (Some [i; j]) [NInf; y] = 0. Proof. intros; apply UI_inf; auto. Qed.
  Lemma i2c i j x : ok [i; j] -> UI (Some [i; j]) [x; PInf] = 0. Proof. intros; apply UI_inf; auto; simpl; destruct x; reflexivity. Qed.
  Lemma i2d i j x : ok [i; j] -> UI (Some [i; j]) [x; NInf] = 0. Proof. intros; apply UI_inf; auto; simpl; destruct x; reflexivity. Qed.

  Notation f2 := (fast_2d RNum U1 UI).
  Notation mnd := (mass_nd RNum UI).

  Ltac bstep :=
    match goal with
    | H : @xlt0 RNum ?x = _ |- context[@xlt0 RNum ?x] => rewrite H
    | H : @xge0 RNum ?x = _ |- context[@xge0 RNum ?x] => rewrite H
    | H : @xge0 RNum ?x = true |- context[@xlt0 RNum ?x] => rewrite (ge0_lt0 x H)
    | H : @xlt0 RNum ?x = true |- context[@xge0 RNum ?x] => rewrite (lt0_ge0 x H)
    | H : (@xlt0 RNum ?x && @xge0 RNum ?y)%bool = _ |- context[(@xlt0 RNum ?x && @xge0 RNum ?y)%bool] => rewrite H
    end.


  Lemma mass_nd_S fuel a b ind : mnd (S fuel) a b ind =
    match first_straddling RNum ind a b with
    | Some j => let k := index_of j ind in
        mnd fuel (pop_nth k a) (pop_nth k b) (pop_nth k ind)
        - mnd fuel (set_nth k (nth k b PInf) a) (set_nth k PInf b) ind
        - mnd fuel (set_nth k NInf a) (set_nth k (nth k a NInf) b) ind
    | None => let res := volume RNum (UI (Some ind)) a b in if Nat.odd (length a) then (- 1) * res else 1 * res
    end.
  Proof. reflexivity. Qed.
  Lemma mass_nd_none fuel a b ind : first_straddling RNum ind a b = None ->
    mnd fuel a b ind = let res := volume RNum (UI (Some ind)) a b in if Nat.odd (length a) then (- 1) * res else 1 * res.
  Proof. intros H. destruct fuel; simpl; rewrite H; reflexivity. Qed.
  Lemma xP1 : @xlt0 RNum PInf = false. Proof. reflexivity. Qed.
  Lemma xP2 : @xge0 RNum PInf = true. Proof. reflexivity. Qed.
  Lemma xN1 : @xlt0 RNum NInf = true. Proof. reflexivity. Qed.
  Lemma xN2 : @xge0 RNum NInf = false. Proof. reflexivity. Qed.

  Ltac fs := cbn [first_straddling]; unfold straddles; rewrite ?xP1, ?xP2, ?xN1, ?xN2; repeat bstep; cbn [andb].
  Ltac node := rewrite mass_nd_S; fs; cbn [index_of]; rewrite ?Nat.eqb_refl;
     repeat match goal with H : (_ =? _)%nat = false |- _ => rewrite H end; cbn [pop_nth set_nth nth length Nat.odd Nat.even negb].
  Ltac leaf := rewrite mass_nd_none by (fs; reflexivity); cbn [length Nat.odd Nat.even negb].

  Theorem fast_2d_agrees i1 i2 a1 a2 b1 b2 fuel :
    ok2 i1 i2 -> i1 <> i2 -> (2 <= fuel)%nat ->
    (straddles RNum a1 b1 && straddles RNum a2 b2)%bool = false ->
    f2 [a1; a2] [b1; b2] (Some [i1; i2]) = mnd fuel [a1; a2] [b1; b2] [i1; i2].
  Proof.
    intros [K12 [K1 K2]] Hi Hf Hs. destruct fuel as [|[|fuel]]; try lia.
    assert (E12 : (i1 =? i2)%nat = false) by (apply Nat.eqb_neq; exact Hi).
    unfold fast_2d, mass_2d, mass_1d, straddles in *.
    destruct (@xlt0 RNum a1 && @xge0 RNum b1)%bool eqn:S1; destruct (@xlt0 RNum a2 && @xge0 RNum b2)%bool eqn:S2;
      try discriminate; try (apply andb_prop in S1; destruct S1 as [A1 B1]); try (apply andb_prop in S2; destruct S2 as [A2 B2]);
      cbn [is_some is_none olen Nat.eqb andb length].
    all: repeat node; unfold volume; cbn; rewrite ?i1p, ?i1n, ?i2a, ?i2b, ?i2c, ?i2d, ?UI_one by assumption; try ring.
  Qed.

  Lemma i3a i j k y z : ok [i; j; k] -> UI (Some [i; j; k]) [PInf; y; z] = 0. Proof. intros; apply UI_inf; auto. Qed.
  Lemma i3b i j k y z : ok [i; j; k] -> UI (Some [i; j; k]) [NInf; y; z] = 0. Proof. intros; apply UI_inf; auto. Qed.
  Lemma i3c i j k x z : ok [i; j; k] -> UI (Some [i; j; k]) [x; PInf; z] = 0. Proof. intros; apply UI_inf; auto; simpl; destruct x; reflexivity. Qed.
  Lemma i3d i j k x z : ok [i; j; k] -> UI (Some [i; j; k]) [x; NInf; z] = 0. Proof. intros; apply UI_inf; auto; simpl; destruct x; reflexivity. Qed.
  Lemma i3e i j k x y : ok [i; j; k] -> UI (Some [i; j; k]) [x; y; PInf] = 0. Proof. intros; apply UI_inf; auto; simpl; destruct x, y; reflexivity. Qed.
  Lemma i3f i j k x y : ok [i; j; k] -> UI (Some [i; j; k]) [x; y; NInf] = 0. Proof. intros; apply UI_inf; auto; simpl; destruct x, y; reflexivity. Qed.
  Notation f3 := (fast_3d RNum U1 UI).

  Theorem fast_3d_agrees i1 i2 i3 a1 a2 a3 b1 b2 b3 fuel :
    ok3 i1 i2 i3 -> i1 <> i2 -> i1 <> i3 -> i2 <> i3 -> (3 <= fuel)%nat ->
    (straddles RNum a1 b1 && straddles RNum a2 b2 && straddles RNum a3 b3)%bool = false ->
    f3 [a1; a2; a3] [b1; b2; b3] (Some [i1; i2; i3]) = mnd fuel [a1; a2; a3] [b1; b2; b3] [i1; i2; i3].
  Proof.
    intros [K123 [K12 [K13 [K23 [K1 [K2 K3]]]]]] H12 H13 H23 Hf Hs. destruct fuel as [|[|[|fuel]]]; try lia.
    assert (E12 : (i1 =? i2)%nat = false) by (apply Nat.eqb_neq; assumption).
    assert (E13 : (i1 =? i3)%nat = false) by (apply Nat.eqb_neq; assumption).
    assert (E23 : (i2 =? i3)%nat = false) by (apply Nat.eqb_neq; assumption).
    unfold fast_3d, mass_3d, mass_2d, mass_1d, straddles in *.
    destruct (@xlt0 RNum a1 && @xge0 RNum b1)%bool eqn:S1; destruct (@xlt0 RNum a2 && @xge0 RNum b2)%bool eqn:S2;
    destruct (@xlt0 RNum a3 && @xge0 RNum b3)%bool eqn:S3;
      try discriminate; try (apply andb_prop in S1; destruct S1 as [A1 B1]); try (apply andb_prop in S2; destruct S2 as [A2 B2]);
      try (apply andb_prop in S3; destruct S3 as [A3 B3]);
      cbn [is_some is_none olen Nat.eqb Nat.ltb Nat.leb andb length].
    all: repeat node; unfold volume; cbn; rewrite ?i1p, ?i1n, ?i2a, ?i2b, ?i2c, ?i2d, ?i3a, ?i3b, ?i3c, ?i3d, ?i3e, ?i3f, ?UI_one by assumption; try ring.
  Qed.

  Ltac split_flags a c b Hac Hcb :=
    destruct (@xlt0 RNum a) eqn:?Fa; destruct (@xlt0 RNum c) eqn:?Fc; destruct (@xlt0 RNum b) eqn:?Fb;
    try (exfalso; match goal with H1 : @xlt0 RNum b = true |- _ => pose proof (lt0_mono c b Hcb H1); congruence end);
    try (exfalso; match goal with H1 : @xlt0 RNum c = true |- _ => pose proof (lt0_mono a c Hac H1); congruence end).

  Theorem additive_2d_1 I a1 a2 b1 b2 c : @xleb RNum a1 c = true -> @xleb RNum c b1 = true ->
    (straddles RNum a1 b1 && straddles RNum a2 b2)%bool = false ->
    f2 [a1; a2] [b1; b2] (Some I) = f2 [a1; a2] [c; b2] (Some I) + f2 [c; a2] [b1; b2] (Some I).
  Proof.
    intros Hac Hcb Hs. unfold fast_2d, mass_2d, mass_1d, straddles in *. rewrite !ge0_neg in *.
    destruct I as [|i1 [|i2 [|]]]; cbn [is_some is_none olen Nat.eqb andb length nth inth].
    all: try (simpl; ring).
    destruct (@xlt0 RNum a2 && negb (@xlt0 RNum b2))%bool eqn:S2; split_flags a1 c b1 Hac Hcb; simpl in *; try discriminate; repeat match goal with H : @xlt0 RNum ?x = _ |- context[@xlt0 RNum ?x] => rewrite H end; simpl; ring.
  Qed.

  Ltac flags := repeat match goal with H : @xlt0 RNum ?x = _ |- context[@xlt0 RNum ?x] => rewrite H end.
  Ltac add_tac a c b Hac Hcb := split_flags a c b Hac Hcb; simpl in *; try discriminate; flags; simpl; ring.

  Theorem additive_2d_2 I a1 a2 b1 b2 c : @xleb RNum a2 c = true -> @xleb RNum c b2 = true ->
    (straddles RNum a1 b1 && straddles RNum a2 b2)%bool = false -> length I = 2%nat ->
    f2 [a1; a2] [b1; b2] (Some I) = f2 [a1; a2] [b1; c] (Some I) + f2 [a1; c] [b1; b2] (Some I).
  Proof.
    intros Hac Hcb Hs HI. unfold fast_2d, mass_2d, mass_1d, straddles in *. rewrite !ge0_neg in *.
    destruct I as [|i1 [|i2 [|]]]; try discriminate; cbn [is_some is_none olen Nat.eqb andb length nth inth].
    destruct (@xlt0 RNum a1 && negb (@xlt0 RNum b1))%bool eqn:S1; add_tac a2 c b2 Hac Hcb.
  Qed.

  Theorem additive_3d_1 I a1 a2 a3 b1 b2 b3 c : @xleb RNum a1 c = true -> @xleb RNum c b1 = true ->
    (straddles RNum a1 b1 && straddles RNum a2 b2 && straddles RNum a3 b3)%bool = false -> length I = 3%nat ->
    f3 [a1; a2; a3] [b1; b2; b3] (Some I) = f3 [a1; a2; a3] [c; b2; b3] (Some I) + f3 [c; a2; a3] [b1; b2; b3] (Some I).
  Proof.
    intros Hac Hcb Hs HI. unfold fast_3d, mass_3d, mass_2d, mass_1d, straddles in *. rewrite !ge0_neg in *.
    destruct I as [|i1 [|i2 [|i3 [|]]]]; try discriminate; cbn [is_some is_none olen Nat.eqb Nat.ltb Nat.leb andb length nth inth].
    destruct (@xlt0 RNum a2 && negb (@xlt0 RNum b2))%bool eqn:S2; destruct (@xlt0 RNum a3 && negb (@xlt0 RNum b3))%bool eqn:S3;
    add_tac a1 c b1 Hac Hcb.
  Qed.
  Theorem additive_3d_2 I a1 a2 a3 b1 b2 b3 c : @xleb RNum a2 c = true -> @xleb RNum c b2 = true ->
    (straddles RNum a1 b1 && straddles RNum a2 b2 && straddles RNum a3 b3)%bool = false -> length I = 3%nat ->
    f3 [a1; a2; a3] [b1; b2; b3] (Some I) = f3 [a1; a2; a3] [b1; c; b3] (Some I) + f3 [a1; c; a3] [b1; b2; b3] (Some I).
  Proof.
    intros Hac Hcb Hs HI. unfold fast_3d, mass_3d, mass_2d, mass_1d, straddles in *. rewrite !ge0_neg in *.
    destruct I as [|i1 [|i2 [|i3 [|]]]]; try discriminate; cbn [is_some is_none olen Nat.eqb Nat.ltb Nat.leb andb length nth inth].
    destruct (@xlt0 RNum a1 && negb (@xlt0 RNum b1))%bool eqn:S1; destruct (@xlt0 RNum a3 && negb (@xlt0 RNum b3))%bool eqn:S3;
    add_tac a2 c b2 Hac Hcb.
  Qed.
  Theorem additive_3d_3 I a1 a2 a3 b1 b2 b3 c : @xleb RNum a3 c = true -> @xleb RNum c b3 = true ->
    (straddles RNum a1 b1 && straddles RNum a2 b2 && straddles RNum a3 b3)%bool = false -> length I = 3%nat ->
    f3 [a1; a2; a3] [b1; b2; b3] (Some I) = f3 [a1; a2; a3] [b1; b2; c] (Some I) + f3 [a1; a2; c] [b1; b2; b3] (Some I).
  Proof.
    intros Hac Hcb Hs HI. unfold fast_3d, mass_3d, mass_2d, mass_1d, straddles in *. rewrite !ge0_neg in *.
    destruct I as [|i1 [|i2 [|i3 [|]]]]; try discriminate; cbn [is_some is_none olen Nat.eqb Nat.ltb Nat.leb andb length nth inth].
    destruct (@xlt0 RNum a1 && negb (@xlt0 RNum b1))%bool eqn:S1; destruct (@xlt0 RNum a2 && negb (@xlt0 RNum b2))%bool eqn:S2;
    add_tac a3 c b3 Hac Hcb.
  Qed.

  (* margin consistency *)
  (* dispatch on the index list: None = all coordinates, shorter lists go to the lower-dimensional formula *)
  Lemma fast_2d_none a b : f2 a b None = f2 a b (Some [0%nat; 1%nat]).
  Proof. reflexivity. Qed.
  Lemma fast_3d_none a b : f3 a b None = f3 a b (Some [0%nat; 1%nat; 2%nat]).
  Proof. reflexivity. Qed.
  Lemma fast_3d_pair a b i j : f3 a b (Some [i; j]) = f2 a b (Some [i; j]).
  Proof. reflexivity. Qed.
  Lemma fast_3d_single a b i : f3 a b (Some [i]) = fast_1d RNum U1 (nth 0 a (Fin 0)) (nth 0 b (Fin 0)) i.
  Proof. reflexivity. Qed.
  Lemma fast_2d_single a b i : f2 a b (Some [i]) = fast_1d RNum U1 (nth 0 a (Fin 0)) (nth 0 b (Fin 0)) i.
  Proof. reflexivity. Qed.
  Theorem fast_1d_agrees i a b fuel : ok [i] -> straddles RNum a b = false -> fast_1d RNum U1 a b i = mnd fuel [a] [b] [i].
  Proof. intros K H. rewrite mass_nd_none by (cbn [first_straddling]; rewrite H; reflexivity).
    unfold fast_1d, mass_1d, volume. cbn. rewrite !UI_one by assumption. ring. Qed.

  Lemma U1_pinf i : ok [i] -> U1 i PInf = 0. Proof. intros H. rewrite <- UI_one by assumption. apply i1p; assumption. Qed.
  Lemma U1_ninf i : ok [i] -> U1 i NInf = 0. Proof. intros H. rewrite <- UI_one by assumption. apply i1n; assumption. Qed.
  Ltac infs := rewrite ?i1p, ?i1n, ?i2a, ?i2b, ?i2c, ?i2d, ?i3a, ?i3b, ?i3c, ?i3d, ?i3e, ?i3f, ?U1_pinf, ?U1_ninf by assumption.
  Theorem margin_2d_1 i1 i2 a1 b1 : ok2 i1 i2 -> f2 [a1; NInf] [b1; PInf] (Some [i1; i2]) = fast_1d RNum U1 a1 b1 i1.
  Proof. intros [K12 [K1 K2]]. unfold fast_2d, fast_1d, mass_2d, mass_1d. cbn [is_some is_none olen Nat.eqb andb length]. rewrite xN1, xP2.
    destruct (@xlt0 RNum a1 && @xge0 RNum b1)%bool; simpl; infs; ring. Qed.
  Theorem margin_2d_2 i1 i2 a2 b2 : ok2 i1 i2 -> straddles RNum a2 b2 = false -> f2 [NInf; a2] [PInf; b2] (Some [i1; i2]) = fast_1d RNum U1 a2 b2 i2.
  Proof. intros [K12 [K1 K2]] H. unfold fast_2d, fast_1d, mass_2d, mass_1d, straddles in *. cbn [is_some is_none olen Nat.eqb andb length]. rewrite xN1, xP2, H.
    simpl; infs; ring. Qed.
  Theorem margin_3d_3 i1 i2 i3 a1 a2 b1 b2 : ok3 i1 i2 i3 -> (straddles RNum a1 b1 && straddles RNum a2 b2)%bool = false ->
     f3 [a1; a2; NInf] [b1; b2; PInf] (Some [i1; i2; i3]) = f2 [a1; a2] [b1; b2] (Some [i1; i2]).
  Proof. intros [K123 [K12 [K13 [K23 [K1 [K2 K3]]]]]] H. unfold fast_3d, fast_2d, mass_3d, mass_2d, mass_1d, straddles in *. cbn [is_some is_none olen Nat.eqb Nat.ltb Nat.leb andb length]. rewrite xN1, xP2.
    destruct (@xlt0 RNum a1 && @xge0 RNum b1)%bool; destruct (@xlt0 RNum a2 && @xge0 RNum b2)%bool; try discriminate; simpl; infs; ring. Qed.
  Theorem margin_3d_2 i1 i2 i3 a1 a3 b1 b3 : ok3 i1 i2 i3 -> (straddles RNum a1 b1 && straddles RNum a3 b3)%bool = false ->
     f3 [a1; NInf; a3] [b1; PInf; b3] (Some [i1; i2; i3]) = f2 [a1; a3] [b1; b3] (Some [i1; i3]).
  Proof. intros [K123 [K12 [K13 [K23 [K1 [K2 K3]]]]]] H. unfold fast_3d, fast_2d, mass_3d, mass_2d, mass_1d, straddles in *. cbn [is_some is_none olen Nat.eqb Nat.ltb Nat.leb andb length]. rewrite xN1, xP2.
    destruct (@xlt0 RNum a1 && @xge0 RNum b1)%bool; destruct (@xlt0 RNum a3 && @xge0 RNum b3)%bool; try discriminate; simpl; infs; ring. Qed.
  Theorem margin_3d_1 i1 i2 i3 a2 a3 b2 b3 : ok3 i1 i2 i3 -> (straddles RNum a2 b2 && straddles RNum a3 b3)%bool = false ->
     f3 [NInf; a2; a3] [PInf; b2; b3] (Some [i1; i2; i3]) = f2 [a2; a3] [b2; b3] (Some [i2; i3]).
  Proof. intros [K123 [K12 [K13 [K23 [K1 [K2 K3]]]]]] H. unfold fast_3d, fast_2d, mass_3d, mass_2d, mass_1d, straddles in *. cbn [is_some is_none olen Nat.eqb Nat.ltb Nat.leb andb length]. rewrite xN1, xP2.
    destruct (@xlt0 RNum a2 && @xge0 RNum b2)%bool; destruct (@xlt0 RNum a3 && @xge0 RNum b3)%bool; try discriminate; simpl; infs; ring. Qed.
End C12.

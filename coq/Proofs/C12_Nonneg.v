(* C12 -- non-negativity of the rectangle mass, from the copula-level properties that C11 proves.
   Marginal tail integrals are EXTENDED numbers (V i 0 = +inf for an infinite-activity margin). *)
From Coq Require Import List Arith Bool Reals Lra Lia.
From RV Require Import Base.RB Base.ExtNum Model.Copula Gen.GenC12Mass Model.MassNd Proofs.C12_Mass Proofs.C12_Family.
Import ListNotations.
Open Scope R_scope.

Definition tails_ok (V : nat -> ext R -> ext R) : Prop :=
  tails_inf V /\
  (forall i x y, @xleb RNum x y = true -> (@xlt0 RNum y = true \/ @xlt0 RNum x = false) -> @xleb RNum (V i y) (V i x) = true).
(* a coordinate interval that does not straddle 0 and whose tail integrals are finite at both ends *)
Definition fin_side (V : nat -> ext R -> ext R) (k : nat) (a b : ext R) : bool :=
  negb (straddles RNum a b) && is_fin RNum (V k a) && is_fin RNum (V k b).

Lemma xleb_ninf (x : ext R) : @xleb RNum NInf x = true. Proof. destruct x; reflexivity. Qed.
Lemma xleb_pinf (x : ext R) : @xleb RNum x PInf = true. Proof. destruct x; reflexivity. Qed.
Lemma xleb_fin (x y : R) : x <= y -> @xleb RNum (Fin x) (Fin y) = true. Proof. intros; simpl; apply Rleb_true; assumption. Qed.
Lemma nostraddle_side (a b : ext R) : straddles RNum a b = false -> @xlt0 RNum b = true \/ @xlt0 RNum a = false.
Proof. unfold straddles. rewrite ge0_neg. destruct (@xlt0 RNum a), (@xlt0 RNum b); simpl; intros; try discriminate; auto. Qed.
Lemma is_fin_ex (x : ext R) : is_fin RNum x = true -> exists v, x = Fin v.
Proof. destruct x; try discriminate. eauto. Qed.
Lemma fs2_l u1 u2 v1 v2 : finite_side u1 u2 = true -> (finite_side u1 u2 || finite_side v1 v2)%bool = true.
Proof. intros ->. reflexivity. Qed.
Lemma fs2_r u1 u2 v1 v2 : finite_side v1 v2 = true -> (finite_side u1 u2 || finite_side v1 v2)%bool = true.
Proof. intros ->. apply orb_true_r. Qed.
Lemma fs3_1 u1 u2 v1 v2 w1 w2 : finite_side u1 u2 = true -> (finite_side u1 u2 || finite_side v1 v2 || finite_side w1 w2)%bool = true.
Proof. intros ->. reflexivity. Qed.
Lemma fs3_2 u1 u2 v1 v2 w1 w2 : finite_side v1 v2 = true -> (finite_side u1 u2 || finite_side v1 v2 || finite_side w1 w2)%bool = true.
Proof. intros ->. rewrite orb_true_r. reflexivity. Qed.
Lemma fs3_3 u1 u2 v1 v2 w1 w2 : finite_side w1 w2 = true -> (finite_side u1 u2 || finite_side v1 v2 || finite_side w1 w2)%bool = true.
Proof. intros ->. apply orb_true_r. Qed.

Section Nonneg.
  Variable V : nat -> ext R -> ext R.
  Variable cop : list (ext R) -> R.
  Hypothesis Tok : tails_ok V.

  Lemma side_order k a b : @xleb RNum a b = true -> straddles RNum a b = false -> @xleb RNum (V k b) (V k a) = true.
  Proof. intros H S. destruct Tok as [_ Tm]. apply Tm; auto. apply nostraddle_side; assumption. Qed.

  Theorem nonneg_2d : copula2_ok cop ->
    forall a1 a2 b1 b2, @xleb RNum a1 b1 = true -> @xleb RNum a2 b2 = true ->
    (fin_side V 0 a1 b1 || fin_side V 1 a2 b2)%bool = true ->
    0 <= fast_2d RNum (tail_val RNum V) (margin_tail_integral RNum V cop 2) [a1; a2] [b1; b2] None.
  Proof.
    intros [Cg [Cinc Cm]] a1 a2 b1 b2 H1 H2 Hf.
    unfold fast_2d, mass_2d, mass_1d. cbn [is_some is_none olen Nat.eqb andb length].
    fold (straddles RNum a1 b1). fold (straddles RNum a2 b2). unfold fin_side in Hf.
    destruct (straddles RNum a1 b1) eqn:S1; destruct (straddles RNum a2 b2) eqn:S2; cbn [negb andb orb] in Hf; rewrite ?orb_false_r in Hf; try discriminate; cbn.
    - (* coordinate 1 straddles; coordinate 2 is the finite side *)
      apply andb_prop in Hf. destruct Hf as [Fa Fb]. apply is_fin_ex in Fa, Fb. destruct Fa as [A2 EA]. destruct Fb as [B2 EB].
      pose proof (side_order 1%nat a2 b2 H2 S2) as M2. unfold tail_val. rewrite EA, EB in *. cbn [fin_val].
      destruct (Cm A2) as [_ Ma]. destruct (Cm B2) as [_ Mb]. cbn in Ma, Mb.
      pose proof (Cinc (V 0%nat b1) PInf (Fin B2) (Fin A2) (xleb_pinf _) M2 ltac:(apply fs2_r; reflexivity)).
      pose proof (Cinc NInf (V 0%nat a1) (Fin B2) (Fin A2) (xleb_ninf _) M2 ltac:(apply fs2_r; reflexivity)).
      cbn in *; lra.
    - apply andb_prop in Hf. destruct Hf as [Fa Fb]. apply is_fin_ex in Fa, Fb. destruct Fa as [A1 EA]. destruct Fb as [B1 EB].
      pose proof (side_order 0%nat a1 b1 H1 S1) as M1. unfold tail_val. rewrite EA, EB in *. cbn [fin_val].
      destruct (Cm A1) as [Ma _]. destruct (Cm B1) as [Mb _]. cbn in Ma, Mb.
      pose proof (Cinc (Fin B1) (Fin A1) (V 1%nat b2) PInf M1 (xleb_pinf _) ltac:(apply fs2_l; reflexivity)).
      pose proof (Cinc (Fin B1) (Fin A1) NInf (V 1%nat a2) M1 (xleb_ninf _) ltac:(apply fs2_l; reflexivity)).
      cbn in *; lra.
    - pose proof (side_order 0%nat a1 b1 H1 S1) as M1. pose proof (side_order 1%nat a2 b2 H2 S2) as M2.
      assert (Hfs : (finite_side (V 0%nat b1) (V 0%nat a1) || finite_side (V 1%nat b2) (V 1%nat a2))%bool = true).
      { unfold finite_side. destruct (is_fin RNum (V 0%nat a1)), (is_fin RNum (V 0%nat b1)), (is_fin RNum (V 1%nat a2)), (is_fin RNum (V 1%nat b2));
          cbn in *; try discriminate; reflexivity. }
      pose proof (Cinc _ _ _ _ M1 M2 Hfs). cbn in *; lra.
  Qed.

  Theorem nonneg_3d : copula3_ok cop ->
    forall a1 a2 a3 b1 b2 b3, @xleb RNum a1 b1 = true -> @xleb RNum a2 b2 = true -> @xleb RNum a3 b3 = true ->
    (fin_side V 0 a1 b1 || fin_side V 1 a2 b2 || fin_side V 2 a3 b3)%bool = true ->
    0 <= fast_3d RNum (tail_val RNum V) (margin_tail_integral RNum V cop 3) [a1; a2; a3] [b1; b2; b3] None.
  Proof.
    intros [Cg [Cinc Cm]] a1 a2 a3 b1 b2 b3 H1 H2 H3 Hf.
    unfold fast_3d, mass_3d, mass_2d, mass_1d. cbn [is_some is_none olen Nat.eqb Nat.ltb Nat.leb andb length].
    fold (straddles RNum a1 b1). fold (straddles RNum a2 b2). fold (straddles RNum a3 b3). unfold fin_side in Hf.
    apply orb_true_iff in Hf. destruct Hf as [Hf|Hf]; [apply orb_true_iff in Hf; destruct Hf as [Hf|Hf]|].
    - (* coordinate 1 is the finite side *)
      apply andb_prop in Hf. destruct Hf as [Hf Fb]. apply andb_prop in Hf. destruct Hf as [Sn Fa]. apply negb_true_iff in Sn.
      apply is_fin_ex in Fa, Fb. destruct Fa as [A EA]. destruct Fb as [B EB].
      pose proof (side_order 0%nat a1 b1 H1 Sn) as M1. rewrite Sn.
      assert (LO2 := xleb_ninf (V 1%nat a2)). assert (HI2 := xleb_pinf (V 1%nat b2)).
      assert (LO3 := xleb_ninf (V 2%nat a3)). assert (HI3 := xleb_pinf (V 2%nat b3)).
      destruct (straddles RNum a2 b2) eqn:S2; destruct (straddles RNum a3 b3) eqn:S3; cbn;
        try (pose proof (side_order 1%nat a2 b2 H2 S2) as M2);
        try (pose proof (side_order 2%nat a3 b3 H3 S3) as M3);
        unfold tail_val; rewrite ?EA, ?EB in *; cbn [fin_val].
      all: try pose proof (Cinc _ _ _ _ _ _ M1 LO2 LO3 ltac:(apply fs3_1; reflexivity)).
      all: try pose proof (Cinc _ _ _ _ _ _ M1 LO2 HI3 ltac:(apply fs3_1; reflexivity)).
      all: try pose proof (Cinc _ _ _ _ _ _ M1 LO2 M3 ltac:(apply fs3_1; reflexivity)).
      all: try pose proof (Cinc _ _ _ _ _ _ M1 HI2 LO3 ltac:(apply fs3_1; reflexivity)).
      all: try pose proof (Cinc _ _ _ _ _ _ M1 HI2 HI3 ltac:(apply fs3_1; reflexivity)).
      all: try pose proof (Cinc _ _ _ _ _ _ M1 HI2 M3 ltac:(apply fs3_1; reflexivity)).
      all: try pose proof (Cinc _ _ _ _ _ _ M1 M2 LO3 ltac:(apply fs3_1; reflexivity)).
      all: try pose proof (Cinc _ _ _ _ _ _ M1 M2 HI3 ltac:(apply fs3_1; reflexivity)).
      all: try pose proof (Cinc _ _ _ _ _ _ M1 M2 M3 ltac:(apply fs3_1; reflexivity)).
      all: pose proof (proj1 (Cm A)) as mA; pose proof (proj1 (Cm B)) as mB.
      all: clear Cinc Cm Cg; cbn in *; lra.
    - (* coordinate 2 is the finite side *)
      apply andb_prop in Hf. destruct Hf as [Hf Fb]. apply andb_prop in Hf. destruct Hf as [Sn Fa]. apply negb_true_iff in Sn.
      apply is_fin_ex in Fa, Fb. destruct Fa as [A EA]. destruct Fb as [B EB].
      pose proof (side_order 1%nat a2 b2 H2 Sn) as M2. rewrite Sn.
      assert (LO1 := xleb_ninf (V 0%nat a1)). assert (HI1 := xleb_pinf (V 0%nat b1)).
      assert (LO3 := xleb_ninf (V 2%nat a3)). assert (HI3 := xleb_pinf (V 2%nat b3)).
      destruct (straddles RNum a1 b1) eqn:S1; destruct (straddles RNum a3 b3) eqn:S3; cbn;
        try (pose proof (side_order 0%nat a1 b1 H1 S1) as M1);
        try (pose proof (side_order 2%nat a3 b3 H3 S3) as M3);
        unfold tail_val; rewrite ?EA, ?EB in *; cbn [fin_val].
      all: try pose proof (Cinc _ _ _ _ _ _ LO1 M2 LO3 ltac:(apply fs3_2; reflexivity)).
      all: try pose proof (Cinc _ _ _ _ _ _ LO1 M2 HI3 ltac:(apply fs3_2; reflexivity)).
      all: try pose proof (Cinc _ _ _ _ _ _ LO1 M2 M3 ltac:(apply fs3_2; reflexivity)).
      all: try pose proof (Cinc _ _ _ _ _ _ HI1 M2 LO3 ltac:(apply fs3_2; reflexivity)).
      all: try pose proof (Cinc _ _ _ _ _ _ HI1 M2 HI3 ltac:(apply fs3_2; reflexivity)).
      all: try pose proof (Cinc _ _ _ _ _ _ HI1 M2 M3 ltac:(apply fs3_2; reflexivity)).
      all: try pose proof (Cinc _ _ _ _ _ _ M1 M2 LO3 ltac:(apply fs3_2; reflexivity)).
      all: try pose proof (Cinc _ _ _ _ _ _ M1 M2 HI3 ltac:(apply fs3_2; reflexivity)).
      all: try pose proof (Cinc _ _ _ _ _ _ M1 M2 M3 ltac:(apply fs3_2; reflexivity)).
      all: pose proof (proj1 (proj2 (Cm A))) as mA; pose proof (proj1 (proj2 (Cm B))) as mB.
      all: clear Cinc Cm Cg; cbn in *; lra.
    - (* coordinate 3 is the finite side *)
      apply andb_prop in Hf. destruct Hf as [Hf Fb]. apply andb_prop in Hf. destruct Hf as [Sn Fa]. apply negb_true_iff in Sn.
      apply is_fin_ex in Fa, Fb. destruct Fa as [A EA]. destruct Fb as [B EB].
      pose proof (side_order 2%nat a3 b3 H3 Sn) as M3. rewrite Sn.
      assert (LO1 := xleb_ninf (V 0%nat a1)). assert (HI1 := xleb_pinf (V 0%nat b1)).
      assert (LO2 := xleb_ninf (V 1%nat a2)). assert (HI2 := xleb_pinf (V 1%nat b2)).
      destruct (straddles RNum a1 b1) eqn:S1; destruct (straddles RNum a2 b2) eqn:S2; cbn;
        try (pose proof (side_order 0%nat a1 b1 H1 S1) as M1);
        try (pose proof (side_order 1%nat a2 b2 H2 S2) as M2);
        unfold tail_val; rewrite ?EA, ?EB in *; cbn [fin_val].
      all: try pose proof (Cinc _ _ _ _ _ _ LO1 LO2 M3 ltac:(apply fs3_3; reflexivity)).
      all: try pose proof (Cinc _ _ _ _ _ _ LO1 HI2 M3 ltac:(apply fs3_3; reflexivity)).
      all: try pose proof (Cinc _ _ _ _ _ _ LO1 M2 M3 ltac:(apply fs3_3; reflexivity)).
      all: try pose proof (Cinc _ _ _ _ _ _ HI1 LO2 M3 ltac:(apply fs3_3; reflexivity)).
      all: try pose proof (Cinc _ _ _ _ _ _ HI1 HI2 M3 ltac:(apply fs3_3; reflexivity)).
      all: try pose proof (Cinc _ _ _ _ _ _ HI1 M2 M3 ltac:(apply fs3_3; reflexivity)).
      all: try pose proof (Cinc _ _ _ _ _ _ M1 LO2 M3 ltac:(apply fs3_3; reflexivity)).
      all: try pose proof (Cinc _ _ _ _ _ _ M1 HI2 M3 ltac:(apply fs3_3; reflexivity)).
      all: try pose proof (Cinc _ _ _ _ _ _ M1 M2 M3 ltac:(apply fs3_3; reflexivity)).
      all: pose proof (proj2 (proj2 (Cm A))) as mA; pose proof (proj2 (proj2 (Cm B))) as mB.
      all: clear Cinc Cm Cg; cbn in *; lra.
  Qed.
End Nonneg.

(* when the hypothesis `fin_side` holds: an interval that stays away from 0 (tail integrals are finite away from 0),
   or any non-straddling interval of a finite-activity margin *)
Definition away (a b : ext R) : bool := @xlt0 RNum b || @xgt0 RNum a.
Lemma gt0_mono (x y : ext R) : @xleb RNum x y = true -> @xgt0 RNum x = true -> @xgt0 RNum y = true.
Proof. destruct x, y; simpl; try congruence. intros H1 H2. apply Rleb_true in H1. apply Rltb_true in H2. apply Rltb_true. lra. Qed.
Lemma gt0_not_lt0 (x : ext R) : @xgt0 RNum x = true -> @xlt0 RNum x = false.
Proof. destruct x; simpl; try congruence. intros H. apply Rltb_true in H. apply Rltb_false. lra. Qed.
Lemma fin_side_away V k a b :
  (forall x, (@xlt0 RNum x || @xgt0 RNum x)%bool = true -> is_fin RNum (V k x) = true) ->
  @xleb RNum a b = true -> away a b = true -> fin_side V k a b = true.
Proof.
  intros F L A. unfold away in A. unfold fin_side, straddles. apply orb_true_iff in A. destruct A as [A|A].
  - pose proof (lt0_mono _ _ L A) as A'. rewrite (lt0_ge0 _ A), andb_false_r. cbn.
    rewrite (F a), (F b); auto; rewrite ?A, ?A'; reflexivity.
  - pose proof (gt0_mono _ _ L A) as A'. rewrite (gt0_not_lt0 _ A). cbn.
    rewrite (F a), (F b); auto; rewrite ?A, ?A'; apply orb_true_r.
Qed.
Lemma fin_side_finite (U1 : nat -> ext R -> R) k a b : straddles RNum a b = false -> fin_side (fun i x => Fin (U1 i x)) k a b = true.
Proof. intros S. unfold fin_side. rewrite S. reflexivity. Qed.

(* C12 -- non-negativity of the rectangle mass, from the copula-level properties that C11 proves. *)
From Coq Require Import List Arith Bool Reals Lra Lia.
From RV Require Import Base.RB Base.ExtNum Model.Copula Gen.GenC12Mass Model.MassNd Proofs.C12_Mass.
Import ListNotations.
Open Scope R_scope.

Definition tails_ok (U1 : nat -> ext R -> R) : Prop :=
  (forall i, U1 i PInf = 0 /\ U1 i NInf = 0) /\
  (forall i x y, @xleb RNum x y = true -> (@xlt0 RNum y = true \/ @xlt0 RNum x = false) -> U1 i y <= U1 i x).

Lemma xleb_ninf (x : ext R) : @xleb RNum NInf x = true. Proof. destruct x; reflexivity. Qed.
Lemma xleb_pinf (x : ext R) : @xleb RNum x PInf = true. Proof. destruct x; reflexivity. Qed.
Lemma xleb_fin (x y : R) : x <= y -> @xleb RNum (Fin x) (Fin y) = true. Proof. intros; simpl; apply Rleb_true; assumption. Qed.

Lemma nostraddle_side (a b : ext R) : straddles RNum a b = false -> @xlt0 RNum b = true \/ @xlt0 RNum a = false.
Proof. unfold straddles. rewrite ge0_neg. destruct (@xlt0 RNum a), (@xlt0 RNum b); simpl; intros; try discriminate; auto. Qed.

Theorem nonneg_2d (U1 : nat -> ext R -> R) (cop : list (ext R) -> R) :
  tails_ok U1 -> copula2_ok cop ->
  forall a1 a2 b1 b2, @xleb RNum a1 b1 = true -> @xleb RNum a2 b2 = true ->
  (straddles RNum a1 b1 && straddles RNum a2 b2)%bool = false ->
  0 <= fast_2d RNum U1 (margin_tail_integral RNum U1 cop 2) [a1; a2] [b1; b2] None.
Proof.
  intros [Tinf Tmono] [Cg [Cinc Cm]] a1 a2 b1 b2 H1 H2 Hs.
  unfold fast_2d, mass_2d, mass_1d. cbn [is_some is_none olen Nat.eqb andb length].
  fold (straddles RNum a1 b1). fold (straddles RNum a2 b2).
  destruct (straddles RNum a1 b1) eqn:S1; destruct (straddles RNum a2 b2) eqn:S2; try discriminate; cbn.
  - (* coordinate 1 straddles *)
    pose proof (Tmono 1%nat a2 b2 H2 (nostraddle_side _ _ S2)) as M2.
    destruct (Cm (U1 1%nat a2)) as [_ Ma]. destruct (Cm (U1 1%nat b2)) as [_ Mb]. cbn in Ma, Mb.
    pose proof (Cinc (Fin (U1 0%nat b1)) PInf (Fin (U1 1%nat b2)) (Fin (U1 1%nat a2)) (xleb_pinf _) (xleb_fin _ _ M2) eq_refl).
    pose proof (Cinc NInf (Fin (U1 0%nat a1)) (Fin (U1 1%nat b2)) (Fin (U1 1%nat a2)) (xleb_ninf _) (xleb_fin _ _ M2) eq_refl).
    cbn in *; lra.
  - pose proof (Tmono 0%nat a1 b1 H1 (nostraddle_side _ _ S1)) as M1.
    destruct (Cm (U1 0%nat a1)) as [Ma _]. destruct (Cm (U1 0%nat b1)) as [Mb _]. cbn in Ma, Mb.
    pose proof (Cinc (Fin (U1 0%nat b1)) (Fin (U1 0%nat a1)) (Fin (U1 1%nat b2)) PInf (xleb_fin _ _ M1) (xleb_pinf _) eq_refl).
    pose proof (Cinc (Fin (U1 0%nat b1)) (Fin (U1 0%nat a1)) NInf (Fin (U1 1%nat a2)) (xleb_fin _ _ M1) (xleb_ninf _) eq_refl).
    cbn in *; lra.
  - pose proof (Tmono 0%nat a1 b1 H1 (nostraddle_side _ _ S1)) as M1.
    pose proof (Tmono 1%nat a2 b2 H2 (nostraddle_side _ _ S2)) as M2.
    pose proof (Cinc _ _ _ _ (xleb_fin _ _ M1) (xleb_fin _ _ M2) eq_refl). cbn in *; lra.
Qed.

Theorem nonneg_3d (U1 : nat -> ext R -> R) (cop : list (ext R) -> R) :
  tails_ok U1 -> copula3_ok cop ->
  forall a1 a2 a3 b1 b2 b3, @xleb RNum a1 b1 = true -> @xleb RNum a2 b2 = true -> @xleb RNum a3 b3 = true ->
  (straddles RNum a1 b1 && straddles RNum a2 b2 && straddles RNum a3 b3)%bool = false ->
  0 <= fast_3d RNum U1 (margin_tail_integral RNum U1 cop 3) [a1; a2; a3] [b1; b2; b3] None.
Proof.
  intros [Tinf Tmono] [Cg [Cinc Cm]] a1 a2 a3 b1 b2 b3 H1 H2 H3 Hs.
  unfold fast_3d, mass_3d, mass_2d, mass_1d. cbn [is_some is_none olen Nat.eqb Nat.ltb Nat.leb andb length].
  fold (straddles RNum a1 b1). fold (straddles RNum a2 b2). fold (straddles RNum a3 b3).
  set (A1 := U1 0%nat a1). set (B1 := U1 0%nat b1). set (A2 := U1 1%nat a2). set (B2 := U1 1%nat b2).
  set (A3 := U1 2%nat a3). set (B3 := U1 2%nat b3).
  assert (LO1 := (xleb_ninf (Fin A1))). assert (HI1 := xleb_pinf (Fin B1)).
  assert (LO2 := (xleb_ninf (Fin A2))). assert (HI2 := xleb_pinf (Fin B2)).
  assert (LO3 := (xleb_ninf (Fin A3))). assert (HI3 := xleb_pinf (Fin B3)).
  destruct (straddles RNum a1 b1) eqn:S1; destruct (straddles RNum a2 b2) eqn:S2; destruct (straddles RNum a3 b3) eqn:S3;
    try discriminate; cbn;
    try (pose proof (xleb_fin _ _ (Tmono 0%nat a1 b1 H1 (nostraddle_side _ _ S1))) as M1; fold A1 B1 in M1);
    try (pose proof (xleb_fin _ _ (Tmono 1%nat a2 b2 H2 (nostraddle_side _ _ S2))) as M2; fold A2 B2 in M2);
    try (pose proof (xleb_fin _ _ (Tmono 2%nat a3 b3 H3 (nostraddle_side _ _ S3))) as M3; fold A3 B3 in M3).
  all: try pose proof (Cinc _ _ _ _ _ _ LO1 LO2 LO3 eq_refl).
  all: try pose proof (Cinc _ _ _ _ _ _ LO1 LO2 HI3 eq_refl).
  all: try pose proof (Cinc _ _ _ _ _ _ LO1 LO2 M3 eq_refl).
  all: try pose proof (Cinc _ _ _ _ _ _ LO1 HI2 LO3 eq_refl).
  all: try pose proof (Cinc _ _ _ _ _ _ LO1 HI2 HI3 eq_refl).
  all: try pose proof (Cinc _ _ _ _ _ _ LO1 HI2 M3 eq_refl).
  all: try pose proof (Cinc _ _ _ _ _ _ LO1 M2 LO3 eq_refl).
  all: try pose proof (Cinc _ _ _ _ _ _ LO1 M2 HI3 eq_refl).
  all: try pose proof (Cinc _ _ _ _ _ _ LO1 M2 M3 eq_refl).
  all: try pose proof (Cinc _ _ _ _ _ _ HI1 LO2 LO3 eq_refl).
  all: try pose proof (Cinc _ _ _ _ _ _ HI1 LO2 HI3 eq_refl).
  all: try pose proof (Cinc _ _ _ _ _ _ HI1 LO2 M3 eq_refl).
  all: try pose proof (Cinc _ _ _ _ _ _ HI1 HI2 LO3 eq_refl).
  all: try pose proof (Cinc _ _ _ _ _ _ HI1 HI2 HI3 eq_refl).
  all: try pose proof (Cinc _ _ _ _ _ _ HI1 HI2 M3 eq_refl).
  all: try pose proof (Cinc _ _ _ _ _ _ HI1 M2 LO3 eq_refl).
  all: try pose proof (Cinc _ _ _ _ _ _ HI1 M2 HI3 eq_refl).
  all: try pose proof (Cinc _ _ _ _ _ _ HI1 M2 M3 eq_refl).
  all: try pose proof (Cinc _ _ _ _ _ _ M1 LO2 LO3 eq_refl).
  all: try pose proof (Cinc _ _ _ _ _ _ M1 LO2 HI3 eq_refl).
  all: try pose proof (Cinc _ _ _ _ _ _ M1 LO2 M3 eq_refl).
  all: try pose proof (Cinc _ _ _ _ _ _ M1 HI2 LO3 eq_refl).
  all: try pose proof (Cinc _ _ _ _ _ _ M1 HI2 HI3 eq_refl).
  all: try pose proof (Cinc _ _ _ _ _ _ M1 HI2 M3 eq_refl).
  all: try pose proof (Cinc _ _ _ _ _ _ M1 M2 LO3 eq_refl).
  all: try pose proof (Cinc _ _ _ _ _ _ M1 M2 HI3 eq_refl).
  all: try pose proof (Cinc _ _ _ _ _ _ M1 M2 M3 eq_refl).
  all: pose proof (proj1 (Cm A1)) as mA1; pose proof (proj1 (Cm B1)) as mB1;
       pose proof (proj1 (proj2 (Cm A2))) as mA2; pose proof (proj1 (proj2 (Cm B2))) as mB2;
       pose proof (proj2 (proj2 (Cm A3))) as mA3; pose proof (proj2 (proj2 (Cm B3))) as mB3.
  all: clear Cinc Cm Cg Tmono Tinf; cbn in *; subst A1 B1 A2 B2 A3 B3; lra.
Qed.

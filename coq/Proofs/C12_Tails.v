(* C12 -- the hypotheses on the marginal tails are satisfiable and hold for concrete tails:
   Vu: uniform Levy density 1 on (-1, 1) (finite activity);  Vh: density 1/x^2 (infinite activity: Vh(0) = +inf, tail 1/x). *)
From Coq Require Import List Arith Bool Reals Lra Lia.
From RV Require Import Base.RB Base.ExtNum Model.Copula Gen.GenC12Mass Model.MassNd Proofs.C12_Mass Proofs.C12_Family Proofs.C12_Nonneg.
Import ListNotations.
Open Scope R_scope.

Definition Vu (i : nat) (x : ext R) : ext R :=
  match x with
  | Fin v => Fin (if Rltb v 0 then (if Rleb v (-1) then 0 else - (v + 1)) else (if Rleb 1 v then 0 else 1 - v))
  | _ => Fin 0
  end.
Definition Vh (i : nat) (x : ext R) : ext R :=
  match x with Fin v => if Reqb v 0 then PInf else Fin (/ v) | _ => Fin 0 end.

Ltac rb2 := repeat match goal with
  | |- context[Rltb ?a ?b] => let E := fresh "E" in destruct (Rltb a b) eqn:E; [apply Rltb_true in E | apply Rltb_false in E]
  | |- context[Rleb ?a ?b] => let E := fresh "E" in destruct (Rleb a b) eqn:E; [apply Rleb_true in E | apply Rleb_false in E]
  | |- context[Reqb ?a ?b] => let E := fresh "E" in destruct (Reqb a b) eqn:E; [apply Reqb_true in E | idtac]
  | H : context[Rltb ?a ?b] |- _ => let E := fresh "E" in destruct (Rltb a b) eqn:E; [apply Rltb_true in E | apply Rltb_false in E]
  end.

Ltac prep L S := try apply Rleb_true in L;
  (destruct S as [S|S]; try discriminate S; try (apply Rltb_true in S); try (apply Rltb_false in S)).
Theorem Vu_tails_ok : tails_ok Vu.
Proof.
  split. intros i; split; reflexivity.
  intros i x y L S. destruct x as [|a|], y as [|b|]; simpl in L, S |- *; try discriminate L; prep L S; try reflexivity;
    apply Rleb_true; rb2; lra.
Qed.

Lemma Reqb_f x y : x <> y -> Reqb x y = false.
Proof. intros H. destruct (Reqb x y) eqn:E; auto. apply Reqb_true in E. contradiction. Qed.
Lemma Reqb_t x : Reqb x x = true. Proof. apply Reqb_true; reflexivity. Qed.
Lemma inv_anti_neg a b : a <= b -> b < 0 -> / b <= / a.
Proof. intros. apply Ropp_le_cancel. rewrite !Ropp_inv_permute by lra. apply Rinv_le_contravar; lra. Qed.
Theorem Vh_tails_ok : tails_ok Vh /\ (forall i, Vh i (Fin 0) = PInf) /\
  (forall i x, (@xlt0 RNum x || @xgt0 RNum x)%bool = true -> is_fin RNum (Vh i x) = true).
Proof.
  split; [|split].
  - split. intros i; split; reflexivity.
    intros i x y L S. destruct x as [|a|], y as [|b|]; simpl in L, S |- *; try discriminate L; prep L S; try reflexivity.
    all: repeat match goal with |- context[Reqb ?t 0] => destruct (Req_dec t 0) as [?|?]; [subst; rewrite Reqb_t | rewrite (Reqb_f t 0) by assumption] end;
         simpl; try reflexivity; try lra.
    all: apply Rleb_true.
    all: try (left; apply Rinv_lt_0_compat; lra); try (left; apply Rinv_0_lt_compat; lra);
         try (apply inv_anti_neg; lra); try (apply Rinv_le_contravar; lra); try lra.
  - intros i. simpl. rewrite Reqb_t. reflexivity.
  - intros i x H. destruct x as [|v|]; try reflexivity. simpl in *.
    assert (v <> 0). { intro; subst. rewrite !(proj2 (Rltb_false 0 0)) in H by lra. discriminate. }
    rewrite (Reqb_f v 0 H0). reflexivity.
Qed.

(* C13 -- proofs about Model/Grid.v: constructors return admissible axes, refine nests them (any number of times). *)
From Coq Require Import ZArith QArith Qabs Qround List Bool Lia Lqa.
From RV Require Import Base.QB Model.Grid.
Import ListNotations.
Open Scope Q_scope.

Lemma incrb_incr xs : incrb xs = true <-> incr xs.
Proof.
  induction xs as [|x r IH]; simpl; [tauto|].
  destruct r as [|y r']; [tauto|].
  rewrite andb_true_iff, Qltb_lt, IH. tauto.
Qed.

(* index characterisation *)
Lemma incr_nth_succ xs : incr xs -> forall i, (i + 1 < length xs)%nat -> nthq xs i < nthq xs (i + 1).
Proof.
  unfold nthq. induction xs as [|x r IH]; simpl; intros H i Hi; [lia|].
  destruct r as [|y r']; [simpl in Hi; lia|].
  destruct H as [Hxy Hr]. destruct i as [|i]; simpl; [exact Hxy|].
  apply IH; [exact Hr| simpl in *; lia].
Qed.

Lemma nth_succ_incr xs : (forall i, (i + 1 < length xs)%nat -> nthq xs i < nthq xs (i + 1)) -> incr xs.
Proof.
  unfold nthq. induction xs as [|x r IH]; simpl; intros H; [exact I|].
  destruct r as [|y r']; [exact I|]. split.
  - apply (H 0%nat). simpl. lia.
  - apply IH. intros i Hi. apply (H (S i)). simpl in *. lia.
Qed.

Lemma incr_nth_lt xs : incr xs -> forall i j, (i < j)%nat -> (j < length xs)%nat -> nthq xs i < nthq xs j.
Proof.
  intros H i j Hij Hj. induction j as [|j IH]; [lia|].
  destruct (Nat.eq_dec i j) as [->|Hne].
  - replace (S j) with (j + 1)%nat by lia. apply incr_nth_succ; [exact H|lia].
  - apply Qlt_trans with (nthq xs j); [apply IH; lia|].
    replace (S j) with (j + 1)%nat by lia. apply incr_nth_succ; [exact H|lia].
Qed.

(* ---------- assembly *)
Lemma nthq_app_l l1 l2 i : (i < length l1)%nat -> nthq (l1 ++ l2) i = nthq l1 i.
Proof. unfold nthq; intros; apply app_nth1; assumption. Qed.
Lemma nthq_app_r l1 l2 i : (length l1 <= i)%nat -> nthq (l1 ++ l2) i = nthq l2 (i - length l1).
Proof. unfold nthq; intros; apply app_nth2; lia. Qed.

Lemma lastq_nth xs : lastq xs = nthq xs (length xs - 1).
Proof.
  unfold lastq, nthq. induction xs as [|x r IH]; [reflexivity|].
  destruct r as [|y r']; [reflexivity|].
  change (last (x :: y :: r') 0) with (last (y :: r') 0). rewrite IH. simpl. rewrite Nat.sub_0_r. reflexivity.
Qed.
Lemma headq_nth xs : headq xs = nthq xs 0.
Proof. destruct xs; reflexivity. Qed.

Theorem assembly_admissible left right h :
  incr left -> incr right -> left <> [] -> right <> [] -> 0 < h ->
  lastq left == - h -> headq right == h ->
  let '(xs, o) := assemble left right in
  admissible xs o h /\ headq xs = headq left /\ lastq xs = lastq right /\ o = length left.
Proof.
  intros Hl Hr Nl Nr Hh Ll Hd. unfold assemble.
  assert (Ll0 : (0 < length left)%nat) by (destruct left; [congruence|simpl; lia]).
  assert (Lr0 : (0 < length right)%nat) by (destruct right; [congruence|simpl; lia]).
  rewrite lastq_nth in Ll. rewrite headq_nth in Hd.
  set (xs := left ++ [0] ++ right).
  assert (Len : length xs = (length left + 1 + length right)%nat) by (unfold xs; rewrite !app_length; simpl; lia).
  assert (N0 : nthq xs (length left) = 0).
  { unfold xs. rewrite nthq_app_r by lia. rewrite Nat.sub_diag. reflexivity. }
  assert (Nm : nthq xs (length left - 1) = nthq left (length left - 1)).
  { unfold xs. apply nthq_app_l. lia. }
  assert (Np : nthq xs (length left + 1) = nthq right 0).
  { unfold xs. rewrite nthq_app_r by lia. replace (length left + 1 - length left)%nat with 1%nat by lia. reflexivity. }
  split; [|split; [|split]].
  - unfold admissible. repeat split; try lia; try assumption.
    + apply nth_succ_incr. intros i Hi.
      destruct (lt_dec (i + 1) (length left)) as [H1|H1].
      * unfold xs. rewrite !nthq_app_l by lia. apply incr_nth_succ; assumption.
      * destruct (Nat.eq_dec (i + 1) (length left)) as [H2|H2].
        -- rewrite H2, N0. replace i with (length left - 1)%nat by lia. rewrite Nm, Ll. lra.
        -- destruct (Nat.eq_dec i (length left)) as [H3|H3].
           ++ rewrite H3, N0, Np, Hd. exact Hh.
           ++ assert (G : forall k, (length left < k)%nat -> nthq xs k = nthq right (k - length left - 1)).
              { intros k Hk. unfold xs. rewrite nthq_app_r by lia.
                assert (E : (k - length left = S (k - length left - 1))%nat) by lia.
                generalize dependent (k - length left - 1)%nat. intros m E. rewrite E. reflexivity. }
              rewrite !G by lia. replace (i + 1 - length left - 1)%nat with (i - length left - 1 + 1)%nat by lia.
              apply incr_nth_succ; [assumption|]. rewrite Len in Hi. lia.
    + rewrite N0. reflexivity.
    + rewrite Nm. exact Ll.
    + rewrite Np. exact Hd.
  - unfold xs. destruct left; [congruence|reflexivity].
  - rewrite !lastq_nth. rewrite Len. unfold xs. rewrite nthq_app_r by lia.
    replace (length left + 1 + length right - 1 - length left)%nat with (S (length right - 1)) by lia. reflexivity.
  - reflexivity.
Qed.

Lemma fixed_right_length h m : length (fixed_right h m) = m.
Proof. unfold fixed_right. rewrite map_length, seq_length. reflexivity. Qed.
Lemma fixed_left_length h m : length (fixed_left h m) = m.
Proof. unfold fixed_left. rewrite map_length, rev_length. apply fixed_right_length. Qed.

Lemma nth_map_seq {A} (f : nat -> A) a m i d : (i < m)%nat -> nth i (map f (seq a m)) d = f (a + i)%nat.
Proof.
  revert a i. induction m as [|m IH]; intros a i Hi; [lia|].
  simpl. destruct i as [|i]; [rewrite Nat.add_0_r; reflexivity|].
  rewrite IH by lia. f_equal. lia.
Qed.
Lemma nth_map_default {A B} (f : A -> B) l i d d' : (i < length l)%nat -> nth i (map f l) d = f (nth i l d').
Proof.
  revert i. induction l as [|x r IH]; intros i Hi; simpl in *; [lia|].
  destruct i; [reflexivity|]. apply IH. lia.
Qed.

Lemma fixed_right_nth h m i : (i < m)%nat -> nthq (fixed_right h m) i = inject_Z (Z.of_nat (1 + i)) * h.
Proof. intros Hi. unfold nthq, fixed_right. rewrite nth_map_seq by lia. reflexivity. Qed.

Lemma fixed_left_nth h m i : (i < m)%nat -> nthq (fixed_left h m) i = - (inject_Z (Z.of_nat (m - i)) * h).
Proof.
  intros Hi. unfold nthq, fixed_left.
  rewrite nth_map_default with (d' := 0) by (rewrite rev_length, fixed_right_length; lia).
  f_equal.
  rewrite rev_nth by (rewrite fixed_right_length; lia). rewrite fixed_right_length.
  change (nth (m - S i) (fixed_right h m) 0) with (nthq (fixed_right h m) (m - S i)).
  rewrite fixed_right_nth by lia. do 3 f_equal. lia.
Qed.

Lemma inject_Z_lt_nat a b : (a < b)%nat -> inject_Z (Z.of_nat a) < inject_Z (Z.of_nat b).
Proof. intros. rewrite <- Zlt_Qlt. lia. Qed.

Lemma fixed_right_incr h m : 0 < h -> incr (fixed_right h m).
Proof.
  intros Hh. apply nth_succ_incr. intros i Hi. rewrite fixed_right_length in Hi.
  rewrite !fixed_right_nth by lia.
  assert (inject_Z (Z.of_nat (1 + i)) < inject_Z (Z.of_nat (1 + (i + 1)))) by (apply inject_Z_lt_nat; lia).
  nra.
Qed.
Lemma fixed_left_incr h m : 0 < h -> incr (fixed_left h m).
Proof.
  intros Hh. apply nth_succ_incr. intros i Hi. rewrite fixed_left_length in Hi.
  rewrite !fixed_left_nth by lia.
  assert (inject_Z (Z.of_nat (m - (i + 1))) < inject_Z (Z.of_nat (m - i))) by (apply inject_Z_lt_nat; lia).
  nra.
Qed.

Theorem fixed_admissible h nb :
  0 < h -> (2 <= nb)%nat ->
  let '(xs, o) := fixed_axis h nb in
  admissible xs o h /\ o = (nb / 2)%nat /\ length xs = (2 * (nb / 2) + 1)%nat
  /\ headq xs == - (inject_Z (Z.of_nat (nb / 2)) * h) /\ lastq xs == inject_Z (Z.of_nat (nb / 2)) * h.
Proof.
  intros Hh Hn. unfold fixed_axis.
  assert (Hm : (1 <= nb / 2)%nat) by (apply Nat.div_le_lower_bound; lia).
  set (m := (nb / 2)%nat) in *.
  pose proof (assembly_admissible (fixed_left h m) (fixed_right h m) h) as A.
  assert (NL : fixed_left h m <> []) by (intro E; apply (f_equal (@length Q)) in E; rewrite fixed_left_length in E; simpl in E; lia).
  assert (NR : fixed_right h m <> []) by (intro E; apply (f_equal (@length Q)) in E; rewrite fixed_right_length in E; simpl in E; lia).
  assert (LL : lastq (fixed_left h m) == - h).
  { rewrite lastq_nth, fixed_left_length, fixed_left_nth by lia. replace (m - (m - 1))%nat with 1%nat by lia. change (inject_Z (Z.of_nat 1)) with 1. lra. }
  assert (HR : headq (fixed_right h m) == h).
  { rewrite headq_nth, fixed_right_nth by lia. change (inject_Z (Z.of_nat (1 + 0))) with 1. lra. }
  specialize (A (fixed_left_incr h m Hh) (fixed_right_incr h m Hh) NL NR Hh LL HR).
  unfold assemble in *. destruct A as (A1 & A2 & A3 & A4).
  split; [exact A1|]. split; [rewrite fixed_left_length; reflexivity|]. split.
  - rewrite !app_length, fixed_left_length, fixed_right_length. simpl. lia.
  - split.
    + rewrite A2, headq_nth, fixed_left_nth by lia. rewrite Nat.sub_0_r. reflexivity.
    + rewrite A3, lastq_nth, fixed_right_length, fixed_right_nth by lia. replace (1 + (m - 1))%nat with m by lia. reflexivity.
Qed.

Section Refine.
  Variable mid : Q -> Q -> Q.
  Hypothesis mid_between : forall x y, x < y -> x < mid x y /\ mid x y < y.

  Lemma refine_length xs : xs <> [] -> length (refine_axis mid xs) = (2 * length xs - 1)%nat.
  Proof.
    induction xs as [|x r IH]; [congruence|]. intros _.
    destruct r as [|y r']; [reflexivity|].
    change (refine_axis mid (x :: y :: r')) with (x :: mid x y :: refine_axis mid (y :: r')).
    cbn [length]. rewrite IH by congruence. cbn [length]. lia.
  Qed.

  Lemma refine_even xs i : (i < length xs)%nat -> nthq (refine_axis mid xs) (2 * i) = nthq xs i.
  Proof.
    unfold nthq. revert i. induction xs as [|x r IH]; intros i Hi; [simpl in Hi; lia|].
    destruct r as [|y r'].
    - simpl in Hi. replace i with 0%nat by lia. reflexivity.
    - change (refine_axis mid (x :: y :: r')) with (x :: mid x y :: refine_axis mid (y :: r')).
      destruct i as [|i]; [reflexivity|].
      replace (2 * S i)%nat with (S (S (2 * i))) by lia. cbn [nth]. apply IH. simpl in *. lia.
  Qed.

  Lemma refine_odd xs i : (i + 1 < length xs)%nat ->
    nthq (refine_axis mid xs) (2 * i + 1) = mid (nthq xs i) (nthq xs (i + 1)).
  Proof.
    unfold nthq. revert i. induction xs as [|x r IH]; intros i Hi; [simpl in Hi; lia|].
    destruct r as [|y r']; [simpl in Hi; lia|].
    change (refine_axis mid (x :: y :: r')) with (x :: mid x y :: refine_axis mid (y :: r')).
    destruct i as [|i]; [reflexivity|].
    replace (2 * S i + 1)%nat with (S (S (2 * i + 1))) by lia. cbn [nth].
    rewrite IH by (simpl in *; lia). reflexivity.
  Qed.

  Lemma refine_incr xs : incr xs -> incr (refine_axis mid xs).
  Proof.
    induction xs as [|x r IH]; [trivial|]. intros H.
    destruct r as [|y r']; [exact I|].
    change (refine_axis mid (x :: y :: r')) with (x :: mid x y :: refine_axis mid (y :: r')).
    destruct H as [Hxy Hr]. destruct (mid_between x y Hxy) as [M1 M2].
    split; [exact M1|]. specialize (IH Hr).
    destruct r' as [|z r'']; [simpl; split; [exact M2|exact I]|].
    change (refine_axis mid (y :: z :: r'')) with (y :: mid y z :: refine_axis mid (z :: r'')) in *.
    split; [exact M2|exact IH].
  Qed.

  Lemma refine_head xs : headq (refine_axis mid xs) = headq xs.
  Proof. destruct xs as [|x [|y r]]; reflexivity. Qed.

  Lemma refine_last xs : lastq (refine_axis mid xs) = lastq xs.
  Proof.
    unfold lastq. induction xs as [|x r IH]; [reflexivity|].
    destruct r as [|y r']; [reflexivity|].
    change (refine_axis mid (x :: y :: r')) with (x :: mid x y :: refine_axis mid (y :: r')).
    change (last (x :: y :: r') 0) with (last (y :: r') 0). rewrite <- IH.
    destruct r' as [|z r'']; reflexivity.
  Qed.

  (* every index of the refined axis is either an old state or the one new state of a gap *)
  Lemma refine_index_cases xs k : xs <> [] -> (k < length (refine_axis mid xs))%nat ->
    (exists i, k = (2 * i)%nat /\ (i < length xs)%nat) \/ (exists i, k = (2 * i + 1)%nat /\ (i + 1 < length xs)%nat).
  Proof.
    intros N Hk. rewrite refine_length in Hk by exact N.
    destruct (Nat.even k) eqn:E.
    - left. apply Nat.even_spec in E. destruct E as [i ->]. exists i. split; [reflexivity|lia].
    - right. assert (O : Nat.odd k = true) by (rewrite <- Nat.negb_even, E; reflexivity).
      apply Nat.odd_spec in O. destruct O as [i ->]. exists i. split; [reflexivity|lia].
  Qed.

  Hypothesis mid_left0 : forall x y, y == 0 -> mid x y == x / 2.
  Hypothesis mid_right0 : forall x y, x == 0 -> mid x y == y / 2.

  Theorem refine_admissible xs o h : admissible xs o h -> admissible (refine_axis mid xs) (2 * o) (h / 2).
  Proof.
    intros (Hi & Ho1 & Ho2 & Hh & H0 & Hm & Hp).
    assert (N : xs <> []) by (intro E; rewrite E in Ho2; simpl in Ho2; lia).
    unfold admissible. repeat split.
    - apply refine_incr; exact Hi.
    - lia.
    - rewrite refine_length by exact N. lia.
    - apply Qlt_shift_div_l; lra.
    - rewrite refine_even by lia. exact H0.
    - replace (2 * o - 1)%nat with (2 * (o - 1) + 1)%nat by lia.
      rewrite refine_odd by lia. replace (o - 1 + 1)%nat with o by lia.
      rewrite mid_left0 by exact H0. rewrite Hm. field.
    - replace (2 * o + 1)%nat with (2 * o + 1)%nat by lia.
      rewrite refine_odd by lia. rewrite mid_right0 by exact H0. rewrite Hp. reflexivity.
  Qed.

  (* the same with hypotheses about THIS axis only (a middle that depends on the grid's state, e.g. on grid.h) *)
  Theorem refine_admissible_axis xs o h : admissible xs o h ->
    mid (nthq xs (o - 1)) (nthq xs o) == - (h / 2) -> mid (nthq xs o) (nthq xs (o + 1)) == h / 2 ->
    admissible (refine_axis mid xs) (2 * o) (h / 2).
  Proof.
    intros (Hi & Ho1 & Ho2 & Hh & H0 & Hm & Hp) ML MR.
    assert (N : xs <> []) by (intro E; rewrite E in Ho2; simpl in Ho2; lia).
    unfold admissible. repeat split.
    - apply refine_incr; exact Hi.
    - lia.
    - rewrite refine_length by exact N. lia.
    - apply Qlt_shift_div_l; lra.
    - rewrite refine_even by lia. exact H0.
    - replace (2 * o - 1)%nat with (2 * (o - 1) + 1)%nat by lia.
      rewrite refine_odd by lia. replace (o - 1 + 1)%nat with o by lia. exact ML.
    - rewrite refine_odd by lia. exact MR.
  Qed.

  (* the one-step nesting statement *)
  Theorem refine_nests xs : incr xs -> xs <> [] ->
    length (refine_axis mid xs) = (2 * length xs - 1)%nat
    /\ (forall i, (i < length xs)%nat -> nthq (refine_axis mid xs) (2 * i) = nthq xs i)
    /\ (forall i, (i + 1 < length xs)%nat ->
          nthq (refine_axis mid xs) (2 * i + 1) = mid (nthq xs i) (nthq xs (i + 1))
          /\ nthq xs i < nthq (refine_axis mid xs) (2 * i + 1) < nthq xs (i + 1))
    /\ headq (refine_axis mid xs) = headq xs /\ lastq (refine_axis mid xs) = lastq xs.
  Proof.
    intros Hi N. split; [apply refine_length; exact N|]. split; [intros; apply refine_even; assumption|].
    split; [|split; [apply refine_head|apply refine_last]].
    intros i Hlt. rewrite refine_odd by exact Hlt. split; [reflexivity|].
    apply mid_between. apply incr_nth_succ; assumption.
  Qed.

  (* n refinements *)
  Lemma refine_n_nonempty n xs : xs <> [] -> refine_axis_n mid n xs <> [].
  Proof.
    intros N. induction n as [|n IH]; [exact N|]. simpl.
    destruct (refine_axis_n mid n xs) as [|x [|y r]]; [congruence| |]; simpl; congruence.
  Qed.

  Theorem refine_n_admissible n xs o h : admissible xs o h ->
    admissible (refine_axis_n mid n xs) (2 ^ n * o) (h / inject_Z (2 ^ Z.of_nat n)).
  Proof.
    intros A. induction n as [|n IH].
    - change (refine_axis_n mid 0 xs) with xs. replace (2 ^ 0 * o)%nat with o by (simpl; lia).
      destruct A as (A1 & A2 & A3 & A4 & A5 & A6 & A7).
      assert (E0 : h / inject_Z (2 ^ Z.of_nat 0) == h) by (change (inject_Z (2 ^ Z.of_nat 0)) with 1; field).
      unfold admissible. repeat split; try assumption.
      + rewrite E0; exact A4.
      + rewrite A6, E0. reflexivity.
      + rewrite A7, E0. reflexivity.
    - simpl refine_axis_n. apply refine_admissible in IH.
      replace (2 ^ S n * o)%nat with (2 * (2 ^ n * o))%nat by (simpl; lia).
      destruct IH as (A1 & A2 & A3 & A4 & A5 & A6 & A7).
      assert (E : h / inject_Z (2 ^ Z.of_nat (S n)) == h / inject_Z (2 ^ Z.of_nat n) / 2).
      { rewrite Nat2Z.inj_succ, Z.pow_succ_r by lia. rewrite inject_Z_mult.
        assert (P : ~ inject_Z (2 ^ Z.of_nat n) == 0).
        { intro E. assert (0 < 2 ^ Z.of_nat n)%Z by (apply Z.pow_pos_nonneg; lia).
          rewrite (Zlt_Qlt 0) in H. rewrite E in H. change (inject_Z 0) with 0 in H. lra. }
        change (inject_Z 2) with 2. field. exact P. }
      unfold admissible. repeat split; try assumption.
      + rewrite E. exact A4.
      + rewrite A6, E. reflexivity.
      + rewrite A7, E. reflexivity.
  Qed.

  Theorem refine_n_nests n xs : incr xs -> xs <> [] ->
    (forall i, (i < length xs)%nat -> nthq (refine_axis_n mid n xs) (2 ^ n * i) = nthq xs i)
    /\ length (refine_axis_n mid n xs) = (2 ^ n * (length xs - 1) + 1)%nat
    /\ incr (refine_axis_n mid n xs)
    /\ headq (refine_axis_n mid n xs) = headq xs /\ lastq (refine_axis_n mid n xs) = lastq xs.
  Proof.
    intros Hi N. induction n as [|n (I1 & I2 & I3 & I4 & I5)].
    - simpl. repeat split; try assumption; try reflexivity.
      + intros i _. rewrite Nat.add_0_r. reflexivity.
      + destruct xs; [congruence|simpl; lia].
    - simpl refine_axis_n. pose proof (refine_n_nonempty n xs N) as N'.
      assert (L0 : (1 <= length xs)%nat) by (destruct xs; [congruence|simpl; lia]).
      repeat split.
      + intros i Hlt. replace (2 ^ S n * i)%nat with (2 * (2 ^ n * i))%nat by (simpl; lia).
        rewrite refine_even; [apply I1; exact Hlt|]. rewrite I2.
        assert (2 ^ n * i <= 2 ^ n * (length xs - 1))%nat by (apply Nat.mul_le_mono_l; lia). lia.
      + rewrite refine_length by exact N'. rewrite I2. rewrite Nat.pow_succ_r'. nia.
      + apply refine_incr; exact I3.
      + rewrite refine_head; exact I4.
      + rewrite refine_last; exact I5.
  Qed.
End Refine.

Lemma amid_between x y : x < y -> x < amid x y /\ amid x y < y.
Proof. unfold amid; intros; split; lra. Qed.
Lemma amid_left0 x y : y == 0 -> amid x y == x / 2.
Proof. unfold amid; intros E; rewrite E; field. Qed.
Lemma amid_right0 x y : x == 0 -> amid x y == y / 2.
Proof. unfold amid; intros E; rewrite E; field. Qed.

Theorem credit_admissible l a h r sym xs o :
  credit_axis l a h r sym = Some (xs, o) ->
  admissible xs o h /\ o = 4%nat /\ headq xs = l /\ lastq xs = r
  /\ amid (nthq xs 1) (nthq xs 2) == a.
Proof.
  unfold credit_axis. destruct (incrb (credit_values l a h r sym)) eqn:E; [|discriminate].
  intros H; injection H as <- <-. apply incrb_incr in E.
  unfold credit_values in *. set (eps := credit_eps l a h) in *.
  destruct sym; cbn [incr] in E; unfold admissible, nthq, headq, lastq, amid; cbn [nth length Nat.sub Nat.add last hd];
    (repeat split; try lia; try reflexivity; try tauto; try lra).
Qed.

Lemma Qminb_le_l x y : Qminb x y <= x.
Proof. unfold Qminb. destruct (Qle_bool x y) eqn:E; [lra|]. apply Qle_bool_false in E. lra. Qed.
Lemma Qminb_le_r x y : Qminb x y <= y.
Proof. unfold Qminb. destruct (Qle_bool x y) eqn:E; [apply Qle_bool_iff in E; exact E|lra]. Qed.
Lemma Qminb_pos x y : 0 < x -> 0 < y -> 0 < Qminb x y.
Proof. unfold Qminb. destruct (Qle_bool x y); tauto. Qed.

(* the constructor's own guards are sufficient for the repaired monotonicity test to pass *)
Theorem credit_guards_suffice l a h r sym :
  l < a -> a < - h -> 0 < h -> h < r -> (sym = true -> - a + credit_eps l a h < r) ->
  exists xs, credit_axis l a h r sym = Some (xs, 4%nat).
Proof.
  intros H1 H2 H3 H4 H5. unfold credit_axis.
  assert (E1 : Qabs (l - a) == a - l) by (rewrite Qabs_neg by lra; lra).
  assert (E2 : Qabs (a + h) == - a - h) by (rewrite Qabs_neg by lra; lra).
  pose proof (Qminb_le_l (Qabs (l - a) / 2) (Qabs (a + h) / 2)) as M1.
  pose proof (Qminb_le_r (Qabs (l - a) / 2) (Qabs (a + h) / 2)) as M2.
  assert (M3 : 0 < credit_eps l a h).
  { apply Qminb_pos; apply Qlt_shift_div_l; try lra. }
  fold (credit_eps l a h) in M1, M2.
  assert (D1 : Qabs (l - a) / 2 == (a - l) / 2) by (rewrite E1; reflexivity).
  assert (D2 : Qabs (a + h) / 2 == (- a - h) / 2) by (rewrite E2; reflexivity).
  rewrite D1 in M1. rewrite D2 in M2.
  assert (K1 : (a - l) / 2 == (1 # 2) * (a - l)) by field.
  assert (K2 : (- a - h) / 2 == (1 # 2) * (- a - h)) by field.
  rewrite K1 in M1. rewrite K2 in M2.
  set (eps := credit_eps l a h) in *.
  assert (I : incr (credit_values l a h r sym)).
  { unfold credit_values. fold eps. destruct sym; cbn [incr]; [specialize (H5 eq_refl)|]; repeat split; lra. }
  apply incrb_incr in I. rewrite I. eexists; reflexivity.
Qed.

Section Loop.
  Variable mid : Q -> Q -> Q.

  Lemma insert_at_app pre x v s : insert_at (length pre + 1) v (pre ++ x :: s) = pre ++ x :: v :: s.
  Proof. induction pre as [|p pre IH]; simpl; [reflexivity|]. rewrite IH. reflexivity. Qed.

  Lemma refine_loop_inv rest : forall pre k, length pre = (2 * k)%nat -> rest <> [] ->
    refine_loop mid (combine rest (tl rest)) k (pre ++ rest) = pre ++ refine_axis mid rest.
  Proof.
    induction rest as [|x r IH]; intros pre k Hl N; [congruence|].
    destruct r as [|y t]; [reflexivity|].
    change (combine (x :: y :: t) (tl (x :: y :: t))) with ((x, y) :: combine (y :: t) (tl (y :: t))).
    cbn [refine_loop]. rewrite <- Hl. rewrite insert_at_app.
    change (refine_axis mid (x :: y :: t)) with (x :: mid x y :: refine_axis mid (y :: t)).
    replace (pre ++ x :: mid x y :: y :: t) with ((pre ++ [x; mid x y]) ++ y :: t) by (rewrite <- app_assoc; reflexivity).
    rewrite IH; [rewrite <- app_assoc; reflexivity| rewrite app_length; simpl; lia | congruence].
  Qed.

  (* the np.insert loop of CTMCGrid.refine computes the interleaving *)
  Theorem refine_loop_correct xs : refine_axis_loop mid xs = refine_axis mid xs.
  Proof.
    destruct xs as [|x r]; [reflexivity|].
    unfold refine_axis_loop. apply (refine_loop_inv (x :: r) [] 0%nat); [reflexivity|congruence].
  Qed.
End Loop.

(* a well-formed grid: every axis admissible for the grid's single origin index and h,
   and the stored truncations are the end points of the axes *)
Definition grid_wf (g : grid) : Prop :=
  Forall (fun xs => admissible xs (g_o g) (g_h g)) (g_axes g)
  /\ g_trunc g = map (fun xs => (headq xs, lastq xs)) (g_axes g).

Theorem fixed_grid_wf h nb dim : 0 < h -> (2 <= nb)%nat ->
  grid_wf (fixed_grid h nb dim) /\ g_o (fixed_grid h nb dim) = (nb / 2)%nat /\ g_h (fixed_grid h nb dim) = h
  /\ length (g_axes (fixed_grid h nb dim)) = dim.
Proof.
  intros Hh Hn. pose proof (fixed_admissible h nb Hh Hn) as A. unfold fixed_grid.
  destruct (fixed_axis h nb) as [xs o]. destruct A as (A1 & A2 & _).
  unfold grid_wf, mk_grid; cbn [g_axes g_o g_h g_trunc]. repeat split; try assumption.
  - apply Forall_forall. intros ys Hy. apply repeat_spec in Hy. subst ys. exact A1.
  - apply repeat_length.
Qed.

Lemma all_some_spec {A} (l : list (option A)) xs : all_some l = Some xs -> l = map Some xs.
Proof.
  revert xs. induction l as [|[x|] r IH]; intros xs H; simpl in H.
  - injection H as <-. reflexivity.
  - destruct (all_some r) as [ys|]; [|discriminate]. injection H as <-. simpl. f_equal. apply IH. reflexivity.
  - discriminate.
Qed.

Theorem credit_grid_wf l h r levels sym g : credit_grid l h r levels sym = Some g ->
  grid_wf g /\ g_o g = 4%nat /\ g_h g = h /\ length (g_axes g) = length levels
  /\ Forall (fun t => t = (l, r)) (g_trunc g)
  /\ (forall k, (k < length levels)%nat ->
        amid (nthq (nth k (g_axes g) []) 1) (nthq (nth k (g_axes g) []) 2) == nth k levels 0).
Proof.
  unfold credit_grid. set (sym' := match levels with [_] => false | _ => sym end). clearbody sym'.
  destruct (all_some (map (fun a => credit_axis l a h r sym') levels)) as [axs|] eqn:E; [|discriminate].
  intros H; injection H as <-. apply all_some_spec in E.
  assert (P : forall k, (k < length levels)%nat ->
            credit_axis l (nth k levels 0) h r sym' = Some (nth k axs ([], 0%nat))).
  { intros k Hk. assert (E' := f_equal (fun L => nth k L None) E). cbn beta in E'.
    rewrite nth_map_default with (d' := 0) in E' by exact Hk.
    rewrite E'. apply nth_map_default. apply (f_equal (@length _)) in E. rewrite !map_length in E. lia. }
  assert (Len : length axs = length levels) by (apply (f_equal (@length _)) in E; rewrite !map_length in E; lia).
  unfold grid_wf, mk_grid; cbn [g_axes g_o g_h g_trunc].
  assert (Q : forall k, (k < length levels)%nat ->
     let xs := fst (nth k axs ([], 0%nat)) in
     admissible xs 4 h /\ headq xs = l /\ lastq xs = r /\ amid (nthq xs 1) (nthq xs 2) == nth k levels 0).
  { intros k Hk. specialize (P k Hk). destruct (nth k axs ([], 0%nat)) as [xs o] eqn:Ek.
    apply credit_admissible in P. destruct P as (P1 & -> & P3 & P4 & P5). cbn [fst]. tauto. }
  repeat split.
  - apply Forall_forall. intros xs Hx. apply in_map_iff in Hx. destruct Hx as (p & <- & Hp).
    apply In_nth with (d := ([], 0%nat)) in Hp. destruct Hp as (k & Hk & <-). apply Q. lia.
  - rewrite map_length. exact Len.
  - apply Forall_forall. intros t Ht. apply in_map_iff in Ht. destruct Ht as (xs & <- & Hx).
    apply in_map_iff in Hx. destruct Hx as (p & <- & Hp).
    apply In_nth with (d := ([], 0%nat)) in Hp. destruct Hp as (k & Hk & <-).
    destruct (Q k ltac:(lia)) as (_ & -> & -> & _). reflexivity.
  - intros k Hk. rewrite nth_map_default with (d' := ([], 0%nat)) by lia. apply Q. exact Hk.
Qed.

Section GridRefine.
  Variable mid : Q -> Q -> Q.
  Hypothesis mid_between : forall x y, x < y -> x < mid x y /\ mid x y < y.
  Hypothesis mid_left0 : forall x y, y == 0 -> mid x y == x / 2.
  Hypothesis mid_right0 : forall x y, x == 0 -> mid x y == y / 2.

  Theorem refine_grid_wf g : grid_wf g -> grid_wf (refine mid g).
  Proof.
    intros [A T]. unfold grid_wf, refine; cbn [g_axes g_o g_h g_trunc]. split.
    - apply Forall_forall. intros ys Hy. apply in_map_iff in Hy. destruct Hy as (xs & <- & Hx).
      rewrite Forall_forall in A. replace (g_o g * 2)%nat with (2 * g_o g)%nat by lia.
      apply refine_admissible; auto.
    - rewrite T, map_map. apply map_ext. intros xs. rewrite refine_head, refine_last. reflexivity.
  Qed.

  Lemma refine_n_fields n g :
    g_axes (refine_n mid n g) = map (refine_axis_n mid n) (g_axes g)
    /\ g_o (refine_n mid n g) = (2 ^ n * g_o g)%nat
    /\ g_h (refine_n mid n g) == g_h g / inject_Z (2 ^ Z.of_nat n)
    /\ g_trunc (refine_n mid n g) = g_trunc g.
  Proof.
    induction n as [|n (I1 & I2 & I3 & I4)].
    - cbn [refine_n refine_axis_n]. repeat split.
      + rewrite map_id. reflexivity.
      + simpl; lia.
      + change (inject_Z (2 ^ Z.of_nat 0)) with 1. field.
    - cbn [refine_n]. unfold refine at 1 2 3 4; cbn [g_axes g_o g_h g_trunc]. repeat split.
      + rewrite I1, map_map. reflexivity.
      + rewrite I2. rewrite Nat.pow_succ_r'. lia.
      + rewrite I3. rewrite Nat2Z.inj_succ, Z.pow_succ_r by lia. rewrite inject_Z_mult.
        assert (P : ~ inject_Z (2 ^ Z.of_nat n) == 0).
        { intro E. assert (0 < 2 ^ Z.of_nat n)%Z by (apply Z.pow_pos_nonneg; lia).
          rewrite (Zlt_Qlt 0) in H. rewrite E in H. change (inject_Z 0) with 0 in H. lra. }
        change (inject_Z 2) with 2. field. exact P.
      + exact I4.
  Qed.

  Theorem refine_n_grid_wf n g : grid_wf g -> grid_wf (refine_n mid n g).
  Proof. intros W. induction n; [exact W|]. cbn [refine_n]. apply refine_grid_wf. exact IHn. Qed.
End GridRefine.

(* ---------- CTMCUniformGrid: linspace axes *)
Lemma linspace_length a b n : length (linspace a b n) = n.
Proof. destruct n as [|[|m]]; simpl; [reflexivity|reflexivity|]. rewrite map_length, seq_length. reflexivity. Qed.

Lemma linspace_nth a b m i : (i < S (S m))%nat ->
  nthq (linspace a b (S (S m))) i = a + inject_Z (Z.of_nat i) * ((b - a) / inject_Z (Z.of_nat (S m))).
Proof. intros Hi. unfold nthq, linspace. rewrite nth_map_seq by exact Hi. reflexivity. Qed.

Lemma inj_pos m : 0 < inject_Z (Z.of_nat (S m)).
Proof. change 0 with (inject_Z 0). rewrite <- Zlt_Qlt. lia. Qed.

Lemma linspace_incr a b n : a < b -> incr (linspace a b n).
Proof.
  intros Hab. destruct n as [|[|m]]; [exact I|exact I|].
  apply nth_succ_incr. intros i Hi. rewrite linspace_length in Hi. rewrite !linspace_nth by lia.
  pose proof (inj_pos m) as P.
  assert (St : 0 < (b - a) / inject_Z (Z.of_nat (S m))) by (apply Qlt_shift_div_l; [exact P|lra]).
  assert (L : inject_Z (Z.of_nat i) < inject_Z (Z.of_nat (i + 1))) by (rewrite <- Zlt_Qlt; lia).
  set (s := (b - a) / inject_Z (Z.of_nat (S m))) in *. nra.
Qed.

Lemma linspace_head a b n : (1 <= n)%nat -> headq (linspace a b n) == a.
Proof.
  intros Hn. destruct n as [|[|m]]; [lia|reflexivity|]. rewrite headq_nth, linspace_nth by lia.
  change (inject_Z (Z.of_nat 0)) with 0. lra.
Qed.
Lemma linspace_last a b n : (2 <= n)%nat -> lastq (linspace a b n) == b.
Proof.
  intros Hn. destruct n as [|[|m]]; [lia|lia|]. rewrite lastq_nth, linspace_length, linspace_nth by lia.
  replace (S (S m) - 1)%nat with (S m) by lia. pose proof (inj_pos m) as P. field. lra.
Qed.

Lemma floor_ge x k : (Z.of_nat k <= Qfloor x)%Z -> inject_Z (Z.of_nat k) <= x.
Proof. intros H. apply Qle_trans with (inject_Z (Qfloor x)); [rewrite <- Zle_Qle; exact H|apply Qfloor_le]. Qed.

Lemma div_ge a b c : 0 < c -> a <= b / c -> a * c <= b.
Proof. intros Hc H. assert (E : b == b / c * c) by (field; lra). rewrite E. apply Qmult_le_compat_r; lra. Qed.

(* CTMCUniformGrid (repaired: ValueError unless int(|l|/h) >= 2 and int(r/h) >= 1), linspace as its mathematical sequence *)
Theorem uniform_admissible l h r xs o : 0 < h -> l < 0 -> 0 < r -> uniform_axis l h r = Some (xs, o) ->
  admissible xs o h /\ headq xs == l /\ lastq xs == r.
Proof.
  intros Hh Hl Hr. unfold uniform_axis.
  set (nl := Z.to_nat (Qfloor (Qabs l / h))). set (nr := Z.to_nat (Qfloor (r / h))).
  destruct (Nat.ltb_spec nl 2) as [|Hnl]; [discriminate|]. destruct (Nat.ltb_spec nr 2) as [|Hnr]; [discriminate|].
  cbn [orb]. intros E.
  assert (L2 : 2 <= Qabs l / h).
  { change 2 with (inject_Z (Z.of_nat 2)). apply floor_ge. unfold nl in Hnl. lia. }
  assert (R2 : 2 <= r / h).
  { change 2 with (inject_Z (Z.of_nat 2)). apply floor_ge. unfold nr in Hnr. lia. }
  assert (Labs : Qabs l == - l) by (apply Qabs_neg; lra).
  assert (L2' : 2 * h <= - l).
  { rewrite <- Labs. apply div_ge in L2; [|exact Hh]. lra. }
  assert (R2' : 2 * h <= r).
  { apply div_ge in R2; [|exact Hh]. lra. }
  pose proof (assembly_admissible (linspace l (- h) nl) (linspace h r nr) h) as A.
  assert (I1 : incr (linspace l (- h) nl)) by (apply linspace_incr; lra).
  assert (I2 : incr (linspace h r nr)) by (apply linspace_incr; lra).
  assert (N1 : linspace l (- h) nl <> []) by (intro E0; apply (f_equal (@length Q)) in E0; rewrite linspace_length in E0; simpl in E0; lia).
  assert (N2 : linspace h r nr <> []) by (intro E0; apply (f_equal (@length Q)) in E0; rewrite linspace_length in E0; simpl in E0; lia).
  specialize (A I1 I2 N1 N2 Hh (linspace_last l (- h) nl Hnl) (linspace_head h r nr ltac:(lia))).
  unfold assemble in *. destruct A as (A1 & A2 & A3 & A4). injection E as E1 E2.
  assert (X1 : headq xs = headq (linspace l (- h) nl)) by (rewrite <- E1; exact A2).
  assert (X2 : lastq xs = lastq (linspace h r nr)) by (rewrite <- E1; exact A3).
  split; [rewrite <- E1, <- E2; exact A1|]. split; [rewrite X1; apply linspace_head; lia|].
  rewrite X2. apply linspace_last. exact Hnr.
Qed.

(* ---------- one refinement with hypotheses about THIS axis only: grid.middle lies strictly inside each of ITS gaps
   (a middle that depends on the grid's state -- CTMCGridProbabilityStep.middle reads grid.h -- is not a between-function
   of arbitrary arguments: middle(-0.001, 0) = -h/2) *)
Fixpoint mid_inside (mid : Q -> Q -> Q) (xs : list Q) : Prop :=
  match xs with
  | [] => True
  | x :: r => match r with [] => True | y :: _ => (x < mid x y /\ mid x y < y) /\ mid_inside mid r end
  end.

Lemma mid_inside_nth mid xs : mid_inside mid xs -> forall i, (i + 1 < length xs)%nat ->
  nthq xs i < mid (nthq xs i) (nthq xs (i + 1)) /\ mid (nthq xs i) (nthq xs (i + 1)) < nthq xs (i + 1).
Proof.
  unfold nthq. induction xs as [|x r IH]; intros H i Hi; [simpl in Hi; lia|].
  destruct r as [|y r']; [simpl in Hi; lia|]. destruct H as [Hxy Hr].
  destruct i as [|i]; [exact Hxy|]. apply (IH Hr i). simpl in *. lia.
Qed.

Lemma refine_incr_axis mid xs : mid_inside mid xs -> incr (refine_axis mid xs).
Proof.
  induction xs as [|x r IH]; [trivial|]. intros H.
  destruct r as [|y r']; [exact I|].
  change (refine_axis mid (x :: y :: r')) with (x :: mid x y :: refine_axis mid (y :: r')).
  destruct H as [[M1 M2] Hr]. split; [exact M1|]. specialize (IH Hr).
  destruct r' as [|z r'']; [simpl; split; [exact M2|exact I]|].
  change (refine_axis mid (y :: z :: r'')) with (y :: mid y z :: refine_axis mid (z :: r'')) in *.
  split; [exact M2|exact IH].
Qed.

Theorem refine_nests_axis mid xs : mid_inside mid xs -> xs <> [] ->
  length (refine_axis mid xs) = (2 * length xs - 1)%nat
  /\ (forall i, (i < length xs)%nat -> nthq (refine_axis mid xs) (2 * i) = nthq xs i)
  /\ (forall i, (i + 1 < length xs)%nat ->
        nthq (refine_axis mid xs) (2 * i + 1) = mid (nthq xs i) (nthq xs (i + 1))
        /\ nthq xs i < nthq (refine_axis mid xs) (2 * i + 1) < nthq xs (i + 1))
  /\ incr (refine_axis mid xs)
  /\ headq (refine_axis mid xs) = headq xs /\ lastq (refine_axis mid xs) = lastq xs.
Proof.
  intros Hm N. split; [apply refine_length; exact N|]. split; [intros; apply refine_even; assumption|].
  split; [|split; [apply refine_incr_axis; exact Hm|split; [apply refine_head|apply refine_last]]].
  intros i Hlt. rewrite refine_odd by exact Hlt. split; [reflexivity|]. apply mid_inside_nth; assumption.
Qed.

Theorem refine_admissible_local mid xs o h : admissible xs o h -> mid_inside mid xs ->
  mid (nthq xs (o - 1)) (nthq xs o) == - (h / 2) -> mid (nthq xs o) (nthq xs (o + 1)) == h / 2 ->
  admissible (refine_axis mid xs) (2 * o) (h / 2).
Proof.
  intros (Hi & Ho1 & Ho2 & Hh & H0 & Hm & Hp) HM ML MR.
  assert (N : xs <> []) by (intro E; rewrite E in Ho2; simpl in Ho2; lia).
  unfold admissible. repeat split.
  - apply refine_incr_axis; exact HM.
  - lia.
  - rewrite refine_length by exact N. lia.
  - apply Qlt_shift_div_l; lra.
  - rewrite refine_even by lia. exact H0.
  - replace (2 * o - 1)%nat with (2 * (o - 1) + 1)%nat by lia.
    rewrite refine_odd by lia. replace (o - 1 + 1)%nat with o by lia. exact ML.
  - rewrite refine_odd by lia. exact MR.
Qed.

(* C13, wave 5: proofs about the np.geomspace / np.linspace axes (Model/GridGeom.v).
   Part 1: Q model with a rational common ratio, plugged into Model/Grid.v (admissible, refine^n, grid_wf).
   Part 2: R model for every real bound; link Q model -> R model; refine^n on real axes. *)
From Coq Require Import ZArith QArith Qabs Qround List Bool Lia Lra Lqa.
From RV Require Import Base.QB Model.Grid Model.GridGeom Proofs.C13_Grid.
Import ListNotations.
Open Scope Q_scope.

(* ------------------------------------------------------------------------------------------------ qpow *)
Lemma qpow_pos q i : 0 < q -> 0 < qpow q i.
Proof. intros Hq. induction i as [|i IH]; simpl; [lra|]. nra. Qed.

Lemma qpow_lt_succ q i : 1 < q -> qpow q i < qpow q (S i).
Proof. intros Hq. assert (P : 0 < qpow q i) by (apply qpow_pos; lra). simpl. nra. Qed.

Lemma qpow_le1 q i : 0 < q -> q <= 1 -> qpow q i <= 1.
Proof.
  intros H0 H1. induction i as [|i IH]; simpl; [lra|].
  assert (P : 0 < qpow q i) by (apply qpow_pos; exact H0). nra.
Qed.

Lemma qpow_gt1_inv q i : 0 < q -> 1 < qpow q i -> 1 < q.
Proof.
  intros H0 H1. destruct (Qlt_le_dec 1 q) as [G|G]; [exact G|].
  pose proof (qpow_le1 q i H0 G). lra.
Qed.

Lemma qpow_ge1 q i : 1 < q -> 1 <= qpow q i.
Proof.
  intros Hq. induction i as [|i IH]; [simpl; lra|].
  pose proof (qpow_lt_succ q i Hq). lra.
Qed.

(* ------------------------------------------------------------------------------------------------ geomq / geom_left *)
Lemma geomq_length a q n : length (geomq a q n) = n.
Proof. unfold geomq. rewrite map_length, seq_length. reflexivity. Qed.

Lemma geomq_nth a q n i : (i < n)%nat -> nthq (geomq a q n) i = a * qpow q i.
Proof. intros Hi. unfold nthq, geomq. rewrite nth_map_seq by exact Hi. reflexivity. Qed.

Lemma geomq_incr a q n : 0 < a -> 1 < q -> incr (geomq a q n).
Proof.
  intros Ha Hq. apply nth_succ_incr. intros i Hi. rewrite geomq_length in Hi.
  rewrite !geomq_nth by lia. replace (i + 1)%nat with (S i) by lia.
  pose proof (qpow_lt_succ q i Hq). nra.
Qed.

Lemma geom_left_length h q n : length (geom_left h q n) = n.
Proof. unfold geom_left. rewrite map_length, rev_length. apply geomq_length. Qed.

Lemma geom_left_nth h q n i : (i < n)%nat -> nthq (geom_left h q n) i = - (h * qpow q (n - 1 - i)).
Proof.
  intros Hi. unfold nthq, geom_left.
  rewrite nth_map_default with (d' := 0) by (rewrite rev_length, geomq_length; lia).
  f_equal. rewrite rev_nth by (rewrite geomq_length; lia). rewrite geomq_length.
  change (nth (n - S i) (geomq h q n) 0) with (nthq (geomq h q n) (n - S i)).
  rewrite geomq_nth by lia. do 2 f_equal. lia.
Qed.

Lemma geom_left_incr h q n : 0 < h -> 1 < q -> incr (geom_left h q n).
Proof.
  intros Hh Hq. apply nth_succ_incr. intros i Hi. rewrite geom_left_length in Hi.
  rewrite !geom_left_nth by lia.
  replace (n - 1 - i)%nat with (S (n - 1 - (i + 1))) by lia.
  pose proof (qpow_lt_succ q (n - 1 - (i + 1)) Hq). nra.
Qed.

(* ------------------------------------------------------------------------------------------------ the constructor *)
(* wave 7: no hypothesis on h any more -- the repaired constructor rejects h <= 0 itself (second guard), 0 < h is a CONCLUSION *)
Theorem geometric_admissible h ql qr nb xs o :
  0 < ql -> 0 < qr -> geometric_axis h ql qr nb = Some (xs, o) ->
  admissible xs o h /\ headq xs == geom_l h ql nb /\ lastq xs == geom_r h qr nb
  /\ o = nb /\ length xs = (2 * nb + 1)%nat /\ 1 < ql /\ 1 < qr /\ 0 < h.
Proof.
  intros Hql Hqr. unfold geometric_axis.
  destruct (Nat.ltb_spec nb 2) as [|Hnb]; [discriminate|].
  destruct (Qltb 0 h) eqn:G0; [|discriminate]. cbn [negb]. assert (Hh : 0 < h) by (apply Qltb_lt; exact G0).
  destruct (Qltb (geom_l h ql nb) (- h)) eqn:G1; [|discriminate].
  destruct (Qltb h (geom_r h qr nb)) eqn:G2; [|discriminate]. cbn [andb]. intros E.
  apply Qltb_lt in G1. apply Qltb_lt in G2. unfold geom_l in G1. unfold geom_r in G2.
  assert (L1 : 1 < ql) by (apply (qpow_gt1_inv ql (nb - 1)); [exact Hql|nra]).
  assert (R1 : 1 < qr) by (apply (qpow_gt1_inv qr (nb - 1)); [exact Hqr|nra]).
  pose proof (assembly_admissible (geom_left h ql nb) (geomq h qr nb) h) as A.
  assert (N1 : geom_left h ql nb <> []) by (intro E0; apply (f_equal (@length Q)) in E0; rewrite geom_left_length in E0; simpl in E0; lia).
  assert (N2 : geomq h qr nb <> []) by (intro E0; apply (f_equal (@length Q)) in E0; rewrite geomq_length in E0; simpl in E0; lia).
  assert (LL : lastq (geom_left h ql nb) == - h).
  { rewrite lastq_nth, geom_left_length, geom_left_nth by lia. replace (nb - 1 - (nb - 1))%nat with 0%nat by lia. simpl. lra. }
  assert (HR : headq (geomq h qr nb) == h).
  { rewrite headq_nth, geomq_nth by lia. simpl. lra. }
  specialize (A (geom_left_incr h ql nb Hh L1) (geomq_incr h qr nb Hh R1) N1 N2 Hh LL HR).
  unfold assemble in *. cbn [app] in *. destruct A as (A1 & A2 & A3 & A4). injection E as E1 E2.
  subst xs o. split; [exact A1|]. split; [|split; [|split; [|split; [|split; [|split]; assumption]]]].
  - rewrite A2. rewrite headq_nth, geom_left_nth by lia. unfold geom_l. rewrite Nat.sub_0_r. reflexivity.
  - rewrite A3. rewrite lastq_nth, geomq_length, geomq_nth by lia. reflexivity.
  - apply geom_left_length.
  - rewrite !app_length, geom_left_length. simpl. rewrite geomq_length. lia.
Qed.

(* the guards are exactly "both ratios exceed 1" (for positive h and ratios): the constructor returns an axis *)
Theorem geometric_guards_suffice h ql qr nb :
  0 < h -> 1 < ql -> 1 < qr -> (2 <= nb)%nat -> exists xs, geometric_axis h ql qr nb = Some (xs, nb).
Proof.
  intros Hh Hl Hr Hn. unfold geometric_axis.
  destruct (Nat.ltb_spec nb 2) as [|_]; [lia|].
  assert (G0 : Qltb 0 h = true) by (apply Qltb_lt; exact Hh). rewrite G0. cbn [negb].
  assert (P : forall q, 1 < q -> 1 < qpow q (nb - 1)).
  { intros q Hq. replace (nb - 1)%nat with (S (nb - 2)) by lia.
    pose proof (qpow_lt_succ q (nb - 2) Hq). pose proof (qpow_ge1 q (nb - 2) Hq). lra. }
  assert (G1 : Qltb (geom_l h ql nb) (- h) = true) by (apply Qltb_lt; unfold geom_l; pose proof (P ql Hl); nra).
  assert (G2 : Qltb h (geom_r h qr nb) = true) by (apply Qltb_lt; unfold geom_r; pose proof (P qr Hr); nra).
  rewrite G1, G2. cbn [andb]. unfold assemble. rewrite geom_left_length. eexists. reflexivity.
Qed.

(* ------------------------------------------------------------------------------------------------ grids + refine^n *)
Lemma repeat_grid_wf xs o h dim : admissible xs o h -> grid_wf (mk_grid h o (repeat xs dim)).
Proof.
  intros A. unfold grid_wf, mk_grid; cbn [g_axes g_o g_h g_trunc]. split; [|reflexivity].
  apply Forall_forall. intros ys Hy. apply repeat_spec in Hy. subst ys. exact A.
Qed.

Theorem geometric_grid_wf h ql qr nb dim g :
  0 < ql -> 0 < qr -> geometric_grid h ql qr nb dim = Some g ->
  grid_wf g /\ g_o g = nb /\ g_h g = h /\ length (g_axes g) = dim
  /\ Forall (fun t => fst t == geom_l h ql nb /\ snd t == geom_r h qr nb) (g_trunc g).
Proof.
  intros Hl Hr. unfold geometric_grid. destruct (geometric_axis h ql qr nb) as [[xs o]|] eqn:E; [|discriminate].
  intros G. injection G as <-. destruct (geometric_admissible _ _ _ _ _ _ Hl Hr E) as (A & H1 & H2 & H3 & _).
  split; [apply repeat_grid_wf; exact A|]. cbn [mk_grid g_axes g_o g_h g_trunc]. repeat split; try assumption.
  - apply repeat_length.
  - apply Forall_forall. intros t Ht. apply in_map_iff in Ht. destruct Ht as (ys & <- & Hy).
    apply repeat_spec in Hy. subst ys. cbn [fst snd]. split; assumption.
Qed.

Theorem uniform_grid_wf l h r dim g :
  0 < h -> l < 0 -> 0 < r -> uniform_grid l h r dim = Some g ->
  grid_wf g /\ g_h g = h /\ length (g_axes g) = dim
  /\ g_o g = Z.to_nat (Qfloor (Qabs l / h))
  /\ Forall (fun t => fst t == l /\ snd t == r) (g_trunc g).
Proof.
  intros Hh Hl Hr. unfold uniform_grid. destruct (uniform_axis l h r) as [[xs o]|] eqn:E; [|discriminate].
  intros G. injection G as <-. destruct (uniform_admissible _ _ _ _ _ Hh Hl Hr E) as (A & H1 & H2).
  split; [apply repeat_grid_wf; exact A|]. cbn [mk_grid g_axes g_o g_h g_trunc]. repeat split.
  - apply repeat_length.
  - unfold uniform_axis in E. destruct (_ || _); [discriminate|]. unfold assemble in E. injection E as _ <-.
    apply linspace_length.
  - apply Forall_forall. intros t Ht. apply in_map_iff in Ht. destruct Ht as (ys & <- & Hy).
    apply repeat_spec in Hy. subst ys. cbn [fst snd]. split; assumption.
Qed.

(* any number of refinements (CTMCGrid.middle, the arithmetic mean) of ANY admissible axis: the composition of the
   n-level theorems with C13_amid_ok, stated once so that it can be instantiated with each constructor *)
Theorem refine_n_amid n xs o h : admissible xs o h ->
  admissible (refine_axis_n amid n xs) (2 ^ n * o) (h / inject_Z (2 ^ Z.of_nat n))
  /\ (forall i, (i < length xs)%nat -> nthq (refine_axis_n amid n xs) (2 ^ n * i) = nthq xs i)
  /\ length (refine_axis_n amid n xs) = (2 ^ n * (length xs - 1) + 1)%nat
  /\ headq (refine_axis_n amid n xs) = headq xs /\ lastq (refine_axis_n amid n xs) = lastq xs.
Proof.
  intros A. split; [apply (refine_n_admissible amid amid_between amid_left0 amid_right0); exact A|].
  assert (I : incr xs) by apply A.
  assert (N : xs <> []) by (destruct A as (_ & _ & L & _); destruct xs; [simpl in L; lia|congruence]).
  destruct (refine_n_nests amid amid_between n xs I N) as (H1 & H2 & _ & H4 & H5). auto.
Qed.

Theorem geometric_refine_n n h ql qr nb xs o :
  0 < ql -> 0 < qr -> geometric_axis h ql qr nb = Some (xs, o) ->
  admissible (refine_axis_n amid n xs) (2 ^ n * nb) (h / inject_Z (2 ^ Z.of_nat n))
  /\ (forall i, (i < 2 * nb + 1)%nat -> nthq (refine_axis_n amid n xs) (2 ^ n * i) = nthq xs i)
  /\ length (refine_axis_n amid n xs) = (2 ^ n * (2 * nb) + 1)%nat
  /\ headq (refine_axis_n amid n xs) == geom_l h ql nb /\ lastq (refine_axis_n amid n xs) == geom_r h qr nb.
Proof.
  intros Hl Hr E. destruct (geometric_admissible _ _ _ _ _ _ Hl Hr E) as (A & H1 & H2 & H3 & H4 & _).
  destruct (refine_n_amid n xs o h A) as (R1 & R2 & R3 & R4 & R5). subst o. rewrite H4 in *.
  split; [exact R1|]. split; [exact R2|]. split; [rewrite R3; f_equal; f_equal; lia|].
  rewrite R4, R5. split; assumption.
Qed.

Theorem uniform_refine_n n l h r xs o :
  0 < h -> l < 0 -> 0 < r -> uniform_axis l h r = Some (xs, o) ->
  admissible (refine_axis_n amid n xs) (2 ^ n * o) (h / inject_Z (2 ^ Z.of_nat n))
  /\ (forall i, (i < length xs)%nat -> nthq (refine_axis_n amid n xs) (2 ^ n * i) = nthq xs i)
  /\ length (refine_axis_n amid n xs) = (2 ^ n * (length xs - 1) + 1)%nat
  /\ headq (refine_axis_n amid n xs) == l /\ lastq (refine_axis_n amid n xs) == r.
Proof.
  intros Hh Hl Hr E. destruct (uniform_admissible _ _ _ _ _ Hh Hl Hr E) as (A & H1 & H2).
  destruct (refine_n_amid n xs o h A) as (R1 & R2 & R3 & R4 & R5).
  split; [exact R1|]. split; [exact R2|]. split; [exact R3|]. rewrite R4, R5. split; assumption.
Qed.

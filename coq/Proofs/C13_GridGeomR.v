(* C13, wave 5, part 2: the np.geomspace axes over R (every real truncation bound), their assembly, the link from the
   rational-ratio Q model to the R model, and CTMCGrid.refine^n on real axes (Model/GridGeom.v). *)
From Coq Require Import ZArith QArith Qreals List Lia Reals Lra.
From RV Require Import Base.QB Model.Grid Model.GridGeom Proofs.C13_Grid Proofs.C13_GridGeom.
Import ListNotations.
Open Scope R_scope.

(* ------------------------------------------------------------------------------------------------ lists of R *)
Lemma incrR_nth_succ xs : incrR xs -> forall i, (i + 1 < length xs)%nat -> nthr xs i < nthr xs (i + 1).
Proof.
  unfold nthr. induction xs as [|x r IH]; simpl; intros H i Hi; [lia|].
  destruct r as [|y r']; [simpl in Hi; lia|].
  destruct H as [Hxy Hr]. destruct i as [|i]; simpl; [exact Hxy|].
  apply IH; [exact Hr| simpl in *; lia].
Qed.

Lemma nth_succ_incrR xs : (forall i, (i + 1 < length xs)%nat -> nthr xs i < nthr xs (i + 1)) -> incrR xs.
Proof.
  unfold nthr. induction xs as [|x r IH]; simpl; intros H; [exact I|].
  destruct r as [|y r']; [exact I|]. split.
  - apply (H 0%nat). simpl. lia.
  - apply IH. intros i Hi. apply (H (S i)). simpl in *. lia.
Qed.

Lemma nthr_app_l l1 l2 i : (i < length l1)%nat -> nthr (l1 ++ l2) i = nthr l1 i.
Proof. unfold nthr; intros; apply app_nth1; assumption. Qed.
Lemma nthr_app_r l1 l2 i : (length l1 <= i)%nat -> nthr (l1 ++ l2) i = nthr l2 (i - length l1).
Proof. unfold nthr; intros; apply app_nth2; lia. Qed.

Lemma lastr_nth xs : lastr xs = nthr xs (length xs - 1).
Proof.
  unfold lastr, nthr. induction xs as [|x r IH]; [reflexivity|].
  destruct r as [|y r']; [reflexivity|].
  change (last (x :: y :: r') 0) with (last (y :: r') 0). rewrite IH. simpl. rewrite Nat.sub_0_r. reflexivity.
Qed.
Lemma headr_nth xs : headr xs = nthr xs 0.
Proof. destruct xs; reflexivity. Qed.

(* every constructor builds left ++ [0] ++ right with pivot len(left): the R twin of C13_assembly_admissible *)
Theorem assembly_admissible_R left right h :
  incrR left -> incrR right -> left <> [] -> right <> [] -> 0 < h ->
  lastr left = - h -> headr right = h ->
  let '(xs, o) := assembleR left right in
  admissibleR xs o h /\ headr xs = headr left /\ lastr xs = lastr right /\ o = length left.
Proof.
  intros Hl Hr Nl Nr Hh Ll Hd. unfold assembleR.
  assert (Ll0 : (0 < length left)%nat) by (destruct left; [congruence|simpl; lia]).
  assert (Lr0 : (0 < length right)%nat) by (destruct right; [congruence|simpl; lia]).
  rewrite lastr_nth in Ll. rewrite headr_nth in Hd.
  set (xs := left ++ [0] ++ right).
  assert (Len : length xs = (length left + 1 + length right)%nat) by (unfold xs; rewrite !app_length; simpl; lia).
  assert (N0 : nthr xs (length left) = 0).
  { unfold xs. rewrite nthr_app_r by lia. rewrite Nat.sub_diag. reflexivity. }
  assert (Nm : nthr xs (length left - 1) = nthr left (length left - 1)).
  { unfold xs. apply nthr_app_l. lia. }
  assert (Np : nthr xs (length left + 1) = nthr right 0).
  { unfold xs. rewrite nthr_app_r by lia. replace (length left + 1 - length left)%nat with 1%nat by lia. reflexivity. }
  split; [|split; [|split]].
  - unfold admissibleR. repeat split; try lia; try assumption.
    + apply nth_succ_incrR. intros i Hi.
      destruct (lt_dec (i + 1) (length left)) as [H1|H1].
      * unfold xs. rewrite !nthr_app_l by lia. apply incrR_nth_succ; assumption.
      * destruct (Nat.eq_dec (i + 1) (length left)) as [H2|H2].
        -- rewrite H2, N0. replace i with (length left - 1)%nat by lia. rewrite Nm, Ll. lra.
        -- destruct (Nat.eq_dec i (length left)) as [H3|H3].
           ++ rewrite H3, N0, Np, Hd. exact Hh.
           ++ assert (G : forall k, (length left < k)%nat -> nthr xs k = nthr right (k - length left - 1)).
              { intros k Hk. unfold xs. rewrite nthr_app_r by lia.
                assert (E : (k - length left = S (k - length left - 1))%nat) by lia.
                generalize dependent (k - length left - 1)%nat. intros m E. rewrite E. reflexivity. }
              rewrite !G by lia. replace (i + 1 - length left - 1)%nat with (i - length left - 1 + 1)%nat by lia.
              apply incrR_nth_succ; [assumption|]. rewrite Len in Hi. lia.
    + rewrite Nm. exact Ll.
    + rewrite Np. exact Hd.
  - unfold xs. destruct left; [congruence|reflexivity].
  - rewrite !lastr_nth. rewrite Len. unfold xs. rewrite nthr_app_r by lia.
    replace (length left + 1 + length right - 1 - length left)%nat with (S (length right - 1)) by lia. reflexivity.
  - reflexivity.
Qed.

(* ------------------------------------------------------------------------------------------------ geomspace over R *)
Definition same_sign_lt (a b : R) : Prop := (0 < a /\ a < b) \/ (a < b /\ b < 0).

Lemma ratio_pos a b : same_sign_lt a b -> 0 < b / a.
Proof.
  intros [[H1 H2]|[H1 H2]].
  - apply Rdiv_lt_0_compat; lra.
  - replace (b / a) with ((- b) / (- a)) by (field; lra). apply Rdiv_lt_0_compat; lra.
Qed.

(* t -> a * (b/a)^t is strictly increasing in both sign cases *)
Lemma gs_mono a b s t : same_sign_lt a b -> s < t -> a * exp (s * ln (b / a)) < a * exp (t * ln (b / a)).
Proof.
  intros Sg Hst. pose proof (ratio_pos a b Sg) as P. destruct Sg as [[H1 H2]|[H1 H2]].
  - assert (L : 0 < ln (b / a)).
    { rewrite <- ln_1. apply ln_increasing; [lra|]. apply Rmult_lt_reg_r with a; [lra|]. unfold Rdiv.
      rewrite Rmult_assoc, Rinv_l by lra. lra. }
    apply Rmult_lt_compat_l; [lra|]. apply exp_increasing. apply Rmult_lt_compat_r; assumption.
  - assert (L : ln (b / a) < 0).
    { rewrite <- ln_1. apply ln_increasing; [exact P|].
      replace (b / a) with ((- b) / (- a)) by (field; lra).
      apply Rmult_lt_reg_r with (- a); [lra|]. unfold Rdiv. rewrite Rmult_assoc, Rinv_l by lra. lra. }
    assert (E : exp (t * ln (b / a)) < exp (s * ln (b / a))).
    { apply exp_increasing. nra. }
    nra.
Qed.

Lemma gs_point_0 a b m : gs_point a b m 0 = a.
Proof. unfold gs_point. unfold Rdiv. rewrite !Rmult_0_l, exp_0. lra. Qed.

Lemma gs_point_end a b m : (0 < m)%Z -> same_sign_lt a b -> gs_point a b m m = b.
Proof.
  intros Hm Sg. pose proof (ratio_pos a b Sg) as P. unfold gs_point.
  assert (M : IZR m <> 0) by (apply not_0_IZR; lia).
  replace (IZR m / IZR m) with 1 by (field; exact M). rewrite Rmult_1_l, exp_ln by exact P.
  field. destruct Sg as [[? ?]|[? ?]]; lra.
Qed.

Lemma gs_point_lt a b m i j : (0 < m)%Z -> same_sign_lt a b -> (i < j)%Z -> gs_point a b m i < gs_point a b m j.
Proof.
  intros Hm Sg Hij. unfold gs_point. apply gs_mono; [exact Sg|].
  assert (M : 0 < IZR m) by (apply IZR_lt; exact Hm).
  unfold Rdiv. apply Rmult_lt_compat_r; [apply Rinv_0_lt_compat; exact M|]. apply IZR_lt. exact Hij.
Qed.

Lemma geomspace_R_length a b n : length (geomspace_R a b n) = n.
Proof. destruct n as [|[|m]]; simpl; [reflexivity|reflexivity|]. rewrite map_length, seq_length. reflexivity. Qed.

Lemma geomspace_R_nth a b m i : (i < S (S m))%nat ->
  nthr (geomspace_R a b (S (S m))) i = gs_point a b (Z.of_nat (S m)) (Z.of_nat i).
Proof. intros Hi. unfold nthr, geomspace_R. rewrite nth_map_seq by exact Hi. reflexivity. Qed.

Lemma geomspace_R_incr a b n : same_sign_lt a b -> incrR (geomspace_R a b n).
Proof.
  intros Sg. destruct n as [|[|m]]; [exact I|exact I|].
  apply nth_succ_incrR. intros i Hi. rewrite geomspace_R_length in Hi. rewrite !geomspace_R_nth by lia.
  apply gs_point_lt; [lia|exact Sg|lia].
Qed.

Lemma geomspace_R_head a b n : (1 <= n)%nat -> headr (geomspace_R a b n) = a.
Proof.
  intros Hn. destruct n as [|[|m]]; [lia|reflexivity|]. rewrite headr_nth, geomspace_R_nth by lia.
  apply gs_point_0.
Qed.

Lemma geomspace_R_last a b n : (2 <= n)%nat -> same_sign_lt a b -> lastr (geomspace_R a b n) = b.
Proof.
  intros Hn Sg. destruct n as [|[|m]]; [lia|lia|]. rewrite lastr_nth, geomspace_R_length, geomspace_R_nth by lia.
  replace (S (S m) - 1)%nat with (S m) by lia. apply gs_point_end; [lia|exact Sg].
Qed.

(* every state of a geomspace side lies between its two end points, on the side of 0 of its sign *)
Lemma geomspace_R_sign a b n i : (2 <= n)%nat -> same_sign_lt a b -> (i < n)%nat ->
  a <= nthr (geomspace_R a b n) i <= b.
Proof.
  intros Hn Sg Hi. destruct n as [|[|m]]; [lia|lia|]. rewrite geomspace_R_nth by exact Hi.
  pose proof (gs_point_0 a b (Z.of_nat (S m))) as E0. pose proof (gs_point_end a b (Z.of_nat (S m)) ltac:(lia) Sg) as E1.
  split.
  - destruct (Nat.eq_dec i 0) as [->|Ne]; [change (Z.of_nat 0) with 0%Z; lra|].
    pose proof (gs_point_lt a b (Z.of_nat (S m)) 0 (Z.of_nat i) ltac:(lia) Sg ltac:(lia)). lra.
  - destruct (Nat.eq_dec i (S m)) as [->|Ne]; [lra|].
    pose proof (gs_point_lt a b (Z.of_nat (S m)) (Z.of_nat i) (Z.of_nat (S m)) ltac:(lia) Sg ltac:(lia)). lra.
Qed.

(* CTMCGridGeometric.__init__ / create_with_bounds, one axis, EVERY real l, h, r, nb: whenever the constructor's guards let
   it return, the axis is admissible, has 2nb+1 states, origin index nb and its end points are exactly (l, r) *)
(* wave 7: no hypothesis on h -- the repaired constructor rejects h <= 0 (F-C13-7); 0 < h, l < -h, h < r are conclusions *)
Theorem geometric_admissible_R l h r nb xs o :
  geometric_axis_R l h r nb = Some (xs, o) ->
  admissibleR xs o h /\ headr xs = l /\ lastr xs = r /\ o = nb /\ length xs = (2 * nb + 1)%nat
  /\ 0 < h /\ l < - h /\ h < r /\ (2 <= nb)%nat.
Proof.
  unfold geometric_axis_R.
  destruct (Nat.ltb_spec nb 2) as [|Hnb]; [discriminate|].
  destruct (Rle_dec h 0) as [|Hh0]; [discriminate|]. assert (Hh : 0 < h) by lra.
  destruct (Rlt_dec l (- h)) as [G1|]; [|discriminate]. destruct (Rlt_dec h r) as [G2|]; [|discriminate].
  intros E.
  assert (S1 : same_sign_lt l (- h)) by (right; lra).
  assert (S2 : same_sign_lt h r) by (left; lra).
  pose proof (assembly_admissible_R (geomspace_R l (- h) nb) (geomspace_R h r nb) h) as A.
  assert (N1 : geomspace_R l (- h) nb <> []) by (intro E0; apply (f_equal (@length R)) in E0; rewrite geomspace_R_length in E0; simpl in E0; lia).
  assert (N2 : geomspace_R h r nb <> []) by (intro E0; apply (f_equal (@length R)) in E0; rewrite geomspace_R_length in E0; simpl in E0; lia).
  specialize (A (geomspace_R_incr _ _ nb S1) (geomspace_R_incr _ _ nb S2) N1 N2 Hh
                (geomspace_R_last _ _ nb Hnb S1) (geomspace_R_head _ _ nb ltac:(lia))).
  unfold assembleR in *. cbn [app] in *. destruct A as (A1 & A2 & A3 & A4). injection E as E1 E2. subst xs o.
  split; [exact A1|]. split; [|split; [|split; [|split; [|repeat split; assumption]]]].
  - rewrite A2. apply geomspace_R_head. lia.
  - rewrite A3. apply geomspace_R_last; assumption.
  - apply geomspace_R_length.
  - rewrite app_length. simpl. rewrite !geomspace_R_length. lia.
Qed.

(* the converse direction of the guards: each violated guard makes the constructor refuse (ValueError) *)
Theorem geometric_rejects_R l h r nb :
  (nb < 2)%nat \/ h <= 0 \/ - h <= l \/ r <= h -> geometric_axis_R l h r nb = None.
Proof.
  intros H. unfold geometric_axis_R. destruct (Nat.ltb_spec nb 2) as [|Hnb]; [reflexivity|].
  destruct (Rle_dec h 0); [reflexivity|]. destruct (Rlt_dec l (- h)); [|reflexivity]. destruct (Rlt_dec h r); [|reflexivity].
  exfalso. destruct H as [H|[H|[H|H]]]; [lia|lra|lra|lra].
Qed.

(* wave 7 (audit 4, D4): 0 < h is a guard of its own; without it the statement was true of the model only *)
Theorem geometric_guards_suffice_R l h r nb :
  (2 <= nb)%nat -> 0 < h -> l < - h -> h < r -> exists xs, geometric_axis_R l h r nb = Some (xs, nb).
Proof.
  intros Hn Hh G1 G2. unfold geometric_axis_R. destruct (Nat.ltb_spec nb 2) as [|_]; [lia|].
  destruct (Rle_dec h 0); [lra|].
  destruct (Rlt_dec l (- h)); [|contradiction]. destruct (Rlt_dec h r); [|contradiction].
  unfold assembleR. rewrite geomspace_R_length. eexists. reflexivity.
Qed.

(* ------------------------------------------------------------------------------------------------ Q model -> R model *)
Lemma Q2R_qpow q i : Q2R (qpow q i) = Q2R q ^ i.
Proof. induction i as [|i IH]; simpl; [unfold Q2R; simpl; lra|]. rewrite Q2R_mult, IH. reflexivity. Qed.

Lemma exp_nat_ln x i : 0 < x -> exp (INR i * ln x) = x ^ i.
Proof.
  intros Hx. induction i as [|i IH]; [simpl; rewrite Rmult_0_l; apply exp_0|].
  rewrite S_INR, Rmult_plus_distr_r, Rmult_1_l, exp_plus, IH, exp_ln by exact Hx. simpl. ring.
Qed.

Lemma ln_pow_nat x m : 0 < x -> ln (x ^ m) = INR m * ln x.
Proof.
  intros Hx. induction m as [|m IH]; [simpl; rewrite Rmult_0_l; apply ln_1|].
  rewrite S_INR. simpl pow. rewrite ln_mult; [|exact Hx|apply pow_lt; exact Hx]. rewrite IH. ring.
Qed.

(* point i of the real geomspace from a to a*q^m (m+1 points) is a*q^i: the Q model IS the R model on bounds with a
   rational common ratio (a <> 0, q > 0 rational; a < 0 covers the left side) *)
Theorem geomq_is_geomspace a q m i : a <> 0 -> 0 < q -> (1 <= m)%nat -> (i <= m)%nat ->
  gs_point a (a * q ^ m) (Z.of_nat m) (Z.of_nat i) = a * q ^ i.
Proof.
  intros Ha Hq Hm Hi. unfold gs_point. f_equal.
  replace (a * q ^ m / a) with (q ^ m) by (field; exact Ha).
  rewrite ln_pow_nat by exact Hq. rewrite <- !INR_IZR_INZ.
  assert (M : INR m <> 0) by (apply not_0_INR; lia).
  replace (INR i / INR m * (INR m * ln q)) with (INR i * ln q) by (field; exact M).
  apply exp_nat_ln. exact Hq.
Qed.

Corollary geomq_nth_R a q n i : ~ (a == 0)%Q -> (0 < q)%Q -> (2 <= n)%nat -> (i < n)%nat ->
  Q2R (nthq (geomq a q n) i) = nthr (geomspace_R (Q2R a) (Q2R (a * qpow q (n - 1))) n) i.
Proof.
  intros Ha Hq Hn Hi. rewrite geomq_nth by exact Hi. destruct n as [|[|m]]; [lia|lia|].
  rewrite geomspace_R_nth by exact Hi. rewrite !Q2R_mult, !Q2R_qpow.
  replace (S (S m) - 1)%nat with (S m) by lia. symmetry. apply geomq_is_geomspace; try lia.
  - intro E. apply Ha. apply eqR_Qeq. rewrite E. unfold Q2R; simpl; lra.
  - replace 0 with (Q2R 0) by (unfold Q2R; simpl; lra). apply Qlt_Rlt. exact Hq.
Qed.

Corollary geom_left_nth_R h q n i : (0 < h)%Q -> (0 < q)%Q -> (2 <= n)%nat -> (i < n)%nat ->
  Q2R (nthq (geom_left h q n) i) = nthr (geomspace_R (Q2R (geom_l h q n)) (- Q2R h) n) i.
Proof.
  intros Hh Hq Hn Hi. rewrite geom_left_nth by exact Hi. destruct n as [|[|m]]; [lia|lia|].
  rewrite geomspace_R_nth by exact Hi. unfold geom_l. rewrite !Q2R_opp, !Q2R_mult, !Q2R_qpow.
  replace (S (S m) - 1)%nat with (S m) by lia.
  assert (H0 : 0 < Q2R h) by (replace 0 with (Q2R 0) by (unfold Q2R; simpl; lra); apply Qlt_Rlt; exact Hh).
  assert (Q0 : 0 < Q2R q) by (replace 0 with (Q2R 0) by (unfold Q2R; simpl; lra); apply Qlt_Rlt; exact Hq).
  set (H := Q2R h) in *. set (q' := Q2R q) in *.
  (* the left side runs from -(H q'^m) to -H: ratio 1/q' from the start -(H q'^m) *)
  unfold gs_point.
  assert (P : 0 < q' ^ S m) by (apply pow_lt; exact Q0).
  replace (- H / - (H * q' ^ S m)) with (/ q' ^ S m) by (field; split; lra).
  rewrite ln_Rinv by exact P. rewrite ln_pow_nat by exact Q0. rewrite <- !INR_IZR_INZ.
  assert (M : INR (S m) <> 0) by (apply not_0_INR; lia).
  replace (INR i / INR (S m) * - (INR (S m) * ln q')) with (- (INR i * ln q')) by (field; exact M).
  rewrite exp_Ropp, exp_nat_ln by exact Q0.
  assert (E : q' ^ S m = q' ^ (S m - i) * q' ^ i) by (rewrite <- pow_add; f_equal; lia).
  rewrite E. assert (Pi : 0 < q' ^ i) by (apply pow_lt; exact Q0). field. lra.
Qed.

(* ------------------------------------------------------------------------------------------------ refine on real axes *)
Lemma refineR_length xs : xs <> [] -> length (refineR xs) = (2 * length xs - 1)%nat.
Proof.
  induction xs as [|x r IH]; [congruence|]. intros _.
  destruct r as [|y r']; [reflexivity|].
  change (refineR (x :: y :: r')) with (x :: (x + y) / 2 :: refineR (y :: r')).
  cbn [length]. rewrite IH by congruence. cbn [length]. lia.
Qed.

Lemma refineR_even xs i : (i < length xs)%nat -> nthr (refineR xs) (2 * i) = nthr xs i.
Proof.
  unfold nthr. revert i. induction xs as [|x r IH]; intros i Hi; [simpl in Hi; lia|].
  destruct r as [|y r'].
  - simpl in Hi. replace i with 0%nat by lia. reflexivity.
  - change (refineR (x :: y :: r')) with (x :: (x + y) / 2 :: refineR (y :: r')).
    destruct i as [|i]; [reflexivity|].
    replace (2 * S i)%nat with (S (S (2 * i))) by lia. cbn [nth]. apply IH. simpl in *. lia.
Qed.

Lemma refineR_odd xs i : (i + 1 < length xs)%nat ->
  nthr (refineR xs) (2 * i + 1) = (nthr xs i + nthr xs (i + 1)) / 2.
Proof.
  unfold nthr. revert i. induction xs as [|x r IH]; intros i Hi; [simpl in Hi; lia|].
  destruct r as [|y r']; [simpl in Hi; lia|].
  change (refineR (x :: y :: r')) with (x :: (x + y) / 2 :: refineR (y :: r')).
  destruct i as [|i]; [reflexivity|].
  replace (2 * S i + 1)%nat with (S (S (2 * i + 1))) by lia. cbn [nth].
  rewrite IH by (simpl in *; lia). reflexivity.
Qed.

Lemma refineR_incr xs : incrR xs -> incrR (refineR xs).
Proof.
  induction xs as [|x r IH]; [trivial|]. intros H.
  destruct r as [|y r']; [exact I|].
  change (refineR (x :: y :: r')) with (x :: (x + y) / 2 :: refineR (y :: r')).
  destruct H as [Hxy Hr]. split; [lra|]. specialize (IH Hr).
  destruct r' as [|z r'']; [simpl; split; [lra|exact I]|].
  change (refineR (y :: z :: r'')) with (y :: (y + z) / 2 :: refineR (z :: r'')) in *.
  split; [lra|exact IH].
Qed.

Lemma refineR_head xs : headr (refineR xs) = headr xs.
Proof. destruct xs as [|x [|y r]]; reflexivity. Qed.

Lemma refineR_last xs : lastr (refineR xs) = lastr xs.
Proof.
  unfold lastr. induction xs as [|x r IH]; [reflexivity|].
  destruct r as [|y r']; [reflexivity|].
  change (refineR (x :: y :: r')) with (x :: (x + y) / 2 :: refineR (y :: r')).
  change (last (x :: y :: r') 0) with (last (y :: r') 0). rewrite <- IH.
  destruct r' as [|z r'']; reflexivity.
Qed.

Lemma refineR_admissible xs o h : admissibleR xs o h -> admissibleR (refineR xs) (2 * o) (h / 2).
Proof.
  intros (Hi & Ho1 & Ho2 & Hh & H0 & Hm & Hp).
  assert (N : xs <> []) by (intro E; rewrite E in Ho2; simpl in Ho2; lia).
  unfold admissibleR. repeat split.
  - apply refineR_incr; exact Hi.
  - lia.
  - rewrite refineR_length by exact N. lia.
  - lra.
  - rewrite refineR_even by lia. exact H0.
  - replace (2 * o - 1)%nat with (2 * (o - 1) + 1)%nat by lia.
    rewrite refineR_odd by lia. replace (o - 1 + 1)%nat with o by lia. rewrite H0, Hm. lra.
  - rewrite refineR_odd by lia. rewrite H0, Hp. lra.
Qed.

Lemma refineR_n_nonempty n xs : xs <> [] -> refineR_n n xs <> [].
Proof.
  intros N. induction n as [|n IH]; [exact N|]. simpl.
  destruct (refineR_n n xs) as [|x [|y r]]; [congruence| |]; simpl; congruence.
Qed.

(* any number n of refinements of an admissible real axis: admissible with origin index 2^n*o and h/2^n, every old state at
   2^n times its index, 2^n*(len-1)+1 states, end points unchanged; one refinement inserts the arithmetic mean of each gap *)
Theorem refineR_n_nests n xs o h : admissibleR xs o h ->
  admissibleR (refineR_n n xs) (2 ^ n * o) (h / 2 ^ n)
  /\ (forall i, (i < length xs)%nat -> nthr (refineR_n n xs) (2 ^ n * i) = nthr xs i)
  /\ length (refineR_n n xs) = (2 ^ n * (length xs - 1) + 1)%nat
  /\ headr (refineR_n n xs) = headr xs /\ lastr (refineR_n n xs) = lastr xs.
Proof.
  intros A.
  assert (N : xs <> []) by (destruct A as (_ & _ & L & _); destruct xs; [simpl in L; lia|congruence]).
  assert (L0 : (1 <= length xs)%nat) by (destruct xs; [congruence|simpl; lia]).
  induction n as [|n (I0 & I1 & I2 & I4 & I5)].
  - cbn [refineR_n]. replace (2 ^ 0 * o)%nat with o by (simpl; lia). replace (h / 2 ^ 0) with h by (simpl; lra).
    split; [exact A|]. split; [intros i _; simpl; rewrite Nat.add_0_r; reflexivity|].
    split; [simpl; lia|]. split; reflexivity.
  - cbn [refineR_n]. pose proof (refineR_n_nonempty n xs N) as N'. split; [|split; [|split; [|split]]].
    + apply refineR_admissible in I0. replace (2 ^ S n * o)%nat with (2 * (2 ^ n * o))%nat by (simpl; lia).
      replace (h / 2 ^ S n) with (h / 2 ^ n / 2); [exact I0|]. simpl. field. apply pow_nonzero. lra.
    + intros i Hlt. replace (2 ^ S n * i)%nat with (2 * (2 ^ n * i))%nat by (simpl; lia).
      rewrite refineR_even; [apply I1; exact Hlt|]. rewrite I2.
      assert (2 ^ n * i <= 2 ^ n * (length xs - 1))%nat by (apply Nat.mul_le_mono_l; lia). lia.
    + rewrite refineR_length by exact N'. rewrite I2. rewrite Nat.pow_succ_r'. nia.
    + rewrite refineR_head; exact I4.
    + rewrite refineR_last; exact I5.
Qed.

Theorem refineR_step xs : incrR xs -> forall i, (i + 1 < length xs)%nat ->
  nthr (refineR xs) (2 * i + 1) = (nthr xs i + nthr xs (i + 1)) / 2
  /\ nthr xs i < nthr (refineR xs) (2 * i + 1) < nthr xs (i + 1).
Proof.
  intros Hi i Hlt. rewrite refineR_odd by exact Hlt. split; [reflexivity|].
  pose proof (incrR_nth_succ xs Hi i Hlt). lra.
Qed.

(* the composition the property asks for: the geometric grid (every real bound the guards accept), refined n times *)
Theorem geometric_refine_n_R n l h r nb xs o :
  geometric_axis_R l h r nb = Some (xs, o) ->
  admissibleR (refineR_n n xs) (2 ^ n * nb) (h / 2 ^ n)
  /\ (forall i, (i < 2 * nb + 1)%nat -> nthr (refineR_n n xs) (2 ^ n * i) = nthr xs i)
  /\ length (refineR_n n xs) = (2 ^ n * (2 * nb) + 1)%nat
  /\ headr (refineR_n n xs) = l /\ lastr (refineR_n n xs) = r.
Proof.
  intros E. destruct (geometric_admissible_R _ _ _ _ _ _ E) as (A & H1 & H2 & H3 & H4 & _).
  destruct (refineR_n_nests n xs o h A) as (R1 & R2 & R3 & R4 & R5). subst o. rewrite H4 in *.
  split; [exact R1|]. split; [exact R2|]. split; [rewrite R3; f_equal; f_equal; lia|].
  rewrite R4, R5. split; assumption.
Qed.

(* summary statement for one np.geomspace side *)
Theorem geomspace_R_axis a b n : (2 <= n)%nat -> same_sign_lt a b ->
  incrR (geomspace_R a b n) /\ length (geomspace_R a b n) = n
  /\ headr (geomspace_R a b n) = a /\ lastr (geomspace_R a b n) = b
  /\ (forall i, (i < n)%nat -> a <= nthr (geomspace_R a b n) i <= b).
Proof.
  intros Hn Sg. split; [apply geomspace_R_incr; exact Sg|]. split; [apply geomspace_R_length|].
  split; [apply geomspace_R_head; lia|]. split; [apply geomspace_R_last; assumption|].
  intros i Hi. apply geomspace_R_sign; assumption.
Qed.

(* the Q model (rational common ratios) is the R model, state by state, for the whole assembled axis *)
Theorem geometric_axis_Q2R h ql qr nb xs o : (0 < ql)%Q -> (0 < qr)%Q ->
  geometric_axis h ql qr nb = Some (xs, o) ->
  exists ys, geometric_axis_R (Q2R (geom_l h ql nb)) (Q2R h) (Q2R (geom_r h qr nb)) nb = Some (ys, o)
             /\ length ys = length xs /\ forall i, (i < length xs)%nat -> Q2R (nthq xs i) = nthr ys i.
Proof.
  intros Hl Hr E. destruct (geometric_admissible _ _ _ _ _ _ Hl Hr E) as (_ & _ & _ & Ho & Hlen & L1 & R1 & Hh).
  unfold geometric_axis in E. destruct (Nat.ltb_spec nb 2) as [|Hnb]; [discriminate|].
  destruct (Qltb 0 h) eqn:G0; [|discriminate]. cbn [negb] in E.
  destruct (Qltb (geom_l h ql nb) (- h)) eqn:G1; [|discriminate].
  destruct (Qltb h (geom_r h qr nb)) eqn:G2; [|discriminate]. cbn [andb] in E.
  apply Qltb_lt in G1. apply Qltb_lt in G2. apply Qlt_Rlt in G1. apply Qlt_Rlt in G2. rewrite Q2R_opp in G1.
  assert (HhR : 0 < Q2R h) by (apply Qlt_Rlt in Hh; unfold Q2R in Hh at 1; simpl in Hh; lra).
  destruct (geometric_guards_suffice_R _ _ _ nb Hnb HhR G1 G2) as [ys Ey]. exists ys. subst o.
  split; [exact Ey|].
  unfold geometric_axis_R in Ey. destruct (Nat.ltb_spec nb 2) as [|_]; [lia|].
  destruct (Rle_dec (Q2R h) 0); [lra|].
  destruct (Rlt_dec (Q2R (geom_l h ql nb)) (- Q2R h)); [|contradiction].
  destruct (Rlt_dec (Q2R h) (Q2R (geom_r h qr nb))); [|contradiction].
  unfold assembleR in Ey. unfold assemble in E. injection Ey as Ey _. injection E as E _. subst xs ys.
  split; [rewrite !app_length; simpl; rewrite !geomspace_R_length, geom_left_length, geomq_length; reflexivity|].
  intros i Hi. rewrite !app_length in Hi. simpl in Hi. rewrite geom_left_length, geomq_length in Hi.
  destruct (lt_dec i nb) as [C1|C1].
  - rewrite nthq_app_l by (rewrite geom_left_length; exact C1).
    rewrite nthr_app_l by (rewrite geomspace_R_length; exact C1).
    apply geom_left_nth_R; assumption.
  - rewrite nthq_app_r by (rewrite geom_left_length; lia). rewrite nthr_app_r by (rewrite geomspace_R_length; lia).
    rewrite geom_left_length, geomspace_R_length.
    destruct (Nat.eq_dec i nb) as [->|C2]; [rewrite Nat.sub_diag; unfold nthq, nthr; simpl; unfold Q2R; simpl; lra|].
    assert (Ei : (i - nb = S (i - nb - 1))%nat) by lia. rewrite Ei. unfold nthq, nthr. cbn [app nth].
    change (nth (i - nb - 1) (geomq h qr nb) 0%Q) with (nthq (geomq h qr nb) (i - nb - 1)).
    change (nth (i - nb - 1) (geomspace_R (Q2R h) (Q2R (geom_r h qr nb)) nb) 0) with (nthr (geomspace_R (Q2R h) (Q2R (geom_r h qr nb)) nb) (i - nb - 1)).
    unfold geom_r. apply geomq_nth_R; try assumption; try lia. intro Z0. rewrite Z0 in Hh. apply (Qlt_irrefl 0). exact Hh.
Qed.

(* non-vacuity over R: the constructor returns an axis for l = -2, h = 1/4, r = 3, nb = 4, it is admissible, and so is
   its third refinement *)
Lemma geometric_R_example : exists xs, geometric_axis_R (-2) (1 / 4) 3 4 = Some (xs, 4%nat)
  /\ admissibleR xs 4 (1 / 4) /\ length xs = 9%nat /\ headr xs = -2 /\ lastr xs = 3
  /\ admissibleR (refineR_n 3 xs) 32 (1 / 4 / 2 ^ 3) /\ same_sign_lt (-2) (- (1 / 4)) /\ same_sign_lt (1 / 4) 3.
Proof.
  destruct (geometric_guards_suffice_R (-2) (1 / 4) 3 4 ltac:(lia) ltac:(lra) ltac:(lra) ltac:(lra)) as [xs E].
  exists xs. split; [exact E|].
  destruct (geometric_admissible_R (-2) (1 / 4) 3 4%nat xs 4%nat E) as (A & H1 & H2 & _ & H4 & _).
  destruct (refineR_n_nests 3 xs 4 (1 / 4) A) as (R1 & _).
  split; [exact A|]. split; [exact H4|]. split; [exact H1|]. split; [exact H2|]. split; [exact R1|].
  split; [right; lra|left; lra].
Qed.

(* wave 7: the audit's witness of F-C13-7 (h = -1, bounds (-5, 3), nb = 3: the unrepaired code returned [-5, nan, 1, 0, -1, nan, 3])
   and h = 0 are refused by the repaired constructor *)
Lemma geometric_R_rejects_example : geometric_axis_R (-5) (-1) 3 3 = None /\ geometric_axis_R (-5) 0 3 3 = None.
Proof. split; apply geometric_rejects_R; right; left; lra. Qed.

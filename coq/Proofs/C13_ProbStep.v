(* C13, wave 5: probability-step axes under the root finder's SPECIFICATION (Model/GridGeom.v, Section ProbStep).
   F : cumulative jump probability (strictly increasing where the loop runs), root x p : the point with F(root x p) - F x = p. *)
From Coq Require Import List Lia Reals Lra.
From RV Require Import Model.Grid Model.GridGeom Proofs.C13_GridGeomR.
Import ListNotations.
Open Scope R_scope.

Section ProbStepProofs.
  Variable F : R -> R.
  Variable root : R -> R -> R.
  Variable M : R.   (* the probability available on this side: the loop runs while F x + p <= M (tail not exhausted) *)
  Hypothesis F_incr : forall x y, x < y -> F x < F y.
  Hypothesis root_spec : forall x p, 0 < p -> F x + p <= M -> F (root x p) - F x = p.

  Lemma F_inj x y : F x = F y -> x = y.
  Proof.
    intros E. destruct (Rtotal_order x y) as [H|[H|H]]; [|exact H|].
    - pose proof (F_incr x y H). lra.
    - pose proof (F_incr y x H). lra.
  Qed.

  Lemma root_gt x p : 0 < p -> F x + p <= M -> x < root x p.
  Proof.
    intros Hp Hm. pose proof (root_spec x p Hp Hm) as S. destruct (Rlt_le_dec x (root x p)) as [H|H]; [exact H|].
    destruct H as [H|H]; [pose proof (F_incr _ _ H); lra|]. rewrite H in S. lra.
  Qed.

  Lemma root_unique x y p : 0 < p -> F x + p <= M -> F y - F x = p -> y = root x p.
  Proof. intros Hp Hm E. apply F_inj. pose proof (root_spec x p Hp Hm). lra. Qed.

  Lemma root_add x p q : 0 < p -> 0 < q -> F x + (p + q) <= M -> root (root x p) q = root x (p + q).
  Proof.
    intros Hp Hq Hm. assert (S1 : F (root x p) - F x = p) by (apply root_spec; lra).
    assert (S2 : F (root (root x p) q) - F (root x p) = q) by (apply root_spec; lra).
    apply root_unique; lra.
  Qed.

  Definition ps_next (x p : R) : R := root (root x (p / 2)) (p / 2).

  Lemma ps_next_root x p : 0 < p -> F x + p <= M -> ps_next x p = root x p.
  Proof. intros Hp Hm. unfold ps_next. rewrite root_add by lra. f_equal. lra. Qed.

  Lemma ps_length x p n : length (ps_axis root x p n) = S n.
  Proof. revert x. induction n as [|n IH]; intros x; simpl; [reflexivity|]. rewrite IH. reflexivity. Qed.

  Lemma ps_head x p n : ps_axis root x p n = x :: tl (ps_axis root x p n).
  Proof. destruct n; reflexivity. Qed.

  Lemma ps_hd x p n : hd 0 (ps_axis root x p n) = x.
  Proof. destruct n; reflexivity. Qed.

  Lemma refineG_cons mid x l : l <> [] -> refineG mid (x :: l) = x :: mid x (hd 0 l) :: refineG mid l.
  Proof. destruct l; [congruence|reflexivity]. Qed.

  (* every gap of the axis carries exactly the requested probability p, and the axis is strictly increasing *)
  Theorem ps_gap_probability x p n : 0 < p -> F x + INR n * p <= M -> forall i, (i < n)%nat ->
    F (nthr (ps_axis root x p n) (i + 1)) - F (nthr (ps_axis root x p n) i) = p
    /\ nthr (ps_axis root x p n) i < nthr (ps_axis root x p n) (i + 1).
  Proof.
    intros Hp. revert x. induction n as [|n IH]; intros x Hm i Hi; [lia|].
    rewrite S_INR in Hm. assert (N0 : 0 <= INR n) by apply pos_INR.
    assert (Hm1 : F x + p <= M) by nra.
    cbn [ps_axis]. fold (ps_next x p). destruct i as [|i].
    - unfold nthr. cbn [nth Nat.add]. rewrite (ps_head (ps_next x p) p n). cbn [nth].
      rewrite ps_next_root by assumption. split; [apply root_spec; assumption|apply root_gt; assumption].
    - unfold nthr in *. replace (S i + 1)%nat with (S (i + 1)) by lia. cbn [nth]. apply IH; [|lia].
      rewrite ps_next_root by assumption. pose proof (root_spec x p Hp Hm1). lra.
  Qed.

  Theorem ps_incr x p n : 0 < p -> F x + INR n * p <= M -> incrR (ps_axis root x p n).
  Proof.
    intros Hp Hm. apply nth_succ_incrR. intros i Hi. rewrite ps_length in Hi.
    apply ps_gap_probability; [exact Hp|exact Hm|lia].
  Qed.

  (* refining the probability-step axis of step p with the grid's own middle (the equal-probability point of each gap) gives
     the probability-step axis of step p/2: the inserted state of a gap is the loop's intermediate `middle_point`, every gap
     of the refined axis carries p/2 *)
  Theorem ps_refine x p n : 0 < p -> F x + INR n * p <= M ->
    refineG (ps_middle F root) (ps_axis root x p n) = ps_axis root x (p / 2) (2 * n).
  Proof.
    intros Hp. revert x. induction n as [|n IH]; intros x Hm; [reflexivity|].
    rewrite S_INR in Hm. assert (N0 : 0 <= INR n) by apply pos_INR.
    assert (Hm1 : F x + p <= M) by nra.
    replace (2 * S n)%nat with (S (S (2 * n))) by lia. cbn [ps_axis]. fold (ps_next x p).
    rewrite refineG_cons by (rewrite ps_head; discriminate). rewrite ps_hd.
    assert (Sx : F (ps_next x p) - F x = p) by (rewrite ps_next_root by assumption; apply root_spec; assumption).
    rewrite IH by lra.
    assert (E1 : ps_middle F root x (ps_next x p) = root x (p / 2)).
    { unfold ps_middle. f_equal. lra. }
    assert (E2 : root (root x (p / 2 / 2)) (p / 2 / 2) = root x (p / 2)).
    { rewrite root_add by lra. f_equal. lra. }
    assert (E3 : root (root (root x (p / 2)) (p / 2 / 2)) (p / 2 / 2) = ps_next x p).
    { unfold ps_next. assert (F (root x (p / 2)) - F x = p / 2) by (apply root_spec; lra).
      rewrite root_add by lra. f_equal. lra. }
    rewrite E1, E2, E3. reflexivity.
  Qed.

  Corollary ps_refine_gap x p n : 0 < p -> F x + INR n * p <= M -> forall i, (i < 2 * n)%nat ->
    F (nthr (refineG (ps_middle F root) (ps_axis root x p n)) (i + 1))
    - F (nthr (refineG (ps_middle F root) (ps_axis root x p n)) i) = p / 2.
  Proof.
    intros Hp Hm i Hi. rewrite ps_refine by assumption. apply ps_gap_probability; [lra| |exact Hi].
    rewrite mult_INR. simpl INR. lra.
  Qed.
End ProbStepProofs.

(* non-vacuity with a BOUNDED cumulative probability: F x = 1 - 1/x on x > 0 extended increasingly (F x = x - 1 for x <= 1...):
   we use the simplest bounded-domain instance: F x = x, M = 1, root x p = x + p; the specification is only required while
   F x + p <= M, as for a real jump law whose tail gets exhausted *)
Lemma ps_example :
  (forall x y, x < y -> (fun t => t) x < (fun t => t) y)
  /\ (forall x p, 0 < p -> (fun t => t) x + p <= 1 -> (fun t => t) ((fun a b => a + b) x p) - (fun t => t) x = p)
  /\ (fun t => t) (1 / 8) + INR 3 * (1 / 4) <= 1
  /\ nthr (ps_axis (fun a b => a + b) (1 / 8) (1 / 4) 3) 2 = 5 / 8.
Proof. split; [intros; lra|]. split; [intros; lra|]. split; [simpl; lra|]. unfold nthr. simpl. lra. Qed.

Theorem probstep_gaps (F : R -> R) (root : R -> R -> R) (M : R) :
  (forall x y, x < y -> F x < F y) -> (forall x p, 0 < p -> F x + p <= M -> F (root x p) - F x = p) ->
  forall x p n, 0 < p -> F x + INR n * p <= M ->
  incrR (ps_axis root x p n) /\ length (ps_axis root x p n) = S n /\ nthr (ps_axis root x p n) 0 = x
  /\ forall i, (i < n)%nat -> F (nthr (ps_axis root x p n) (i + 1)) - F (nthr (ps_axis root x p n) i) = p.
Proof.
  intros Hi Hs x p n Hp Hm. split; [apply (ps_incr F root M Hi Hs); assumption|]. split; [apply ps_length|].
  split; [destruct n; reflexivity|]. intros i Hlt. apply (ps_gap_probability F root M Hi Hs x p n Hp Hm i Hlt).
Qed.

Theorem probstep_refine (F : R -> R) (root : R -> R -> R) (M : R) :
  (forall x y, x < y -> F x < F y) -> (forall x p, 0 < p -> F x + p <= M -> F (root x p) - F x = p) ->
  forall x p n, 0 < p -> F x + INR n * p <= M ->
  refineG (ps_middle F root) (ps_axis root x p n) = ps_axis root x (p / 2) (2 * n)
  /\ forall i, (i < 2 * n)%nat ->
       F (nthr (refineG (ps_middle F root) (ps_axis root x p n)) (i + 1))
       - F (nthr (refineG (ps_middle F root) (ps_axis root x p n)) i) = p / 2.
Proof.
  intros Hi Hs x p n Hp Hm. split; [apply (ps_refine F root M Hi Hs); assumption|].
  intros i Hlt. apply (ps_refine_gap F root M Hi Hs x p n Hp Hm i Hlt).
Qed.

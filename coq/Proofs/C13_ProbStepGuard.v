(* C13, wave 8 (audit 5b D4 / D5): the two argument defects of CTMCGridProbabilityStep met by the audit, on the loop model.
   F-C13-9: with minimum_probability_step <= 0 the exit test `p_left < p/2` can never fire (p_left >= 0), so the unguarded loops
   never return, whatever the root finder does and for every fuel; the repaired constructor refuses p <= 0 and 0 < p becomes a
   CONCLUSION of `returns => admissible`.  F-C13-8: the int-h truncation of the left half axis before the repair. *)
From Coq Require Import ZArith QArith Qabs Qround List Lia Lqa.
From RV Require Import Base.QB Model.Grid Model.ProbStepLoop Proofs.C13_Grid Proofs.C13_ProbStepLoop.
Import ListNotations.
Open Scope Q_scope.

Lemma right_loop_never_exhausted exhausted root : (forall m, exhausted m = false) ->
  forall fuel sl m sr axis, right_loop exhausted root fuel sl m sr axis = None.
Proof.
  intros H. induction fuel as [|f IH]; intros sl m sr axis; [reflexivity|].
  cbn [right_loop]. rewrite H. destruct (root sr) as [m1|]; [destruct (root m1)|]; cbv zeta; apply IH.
Qed.
Lemma left_loop_never_exhausted exhausted root : (forall m, exhausted m = false) ->
  forall fuel sl m sr axis, left_loop exhausted root fuel sl m sr axis = None.
Proof.
  intros H. induction fuel as [|f IH]; intros sl m sr axis; [reflexivity|].
  cbn [left_loop]. rewrite H. destruct (root sl) as [m1|]; [destruct (root m1)|]; cbv zeta; apply IH.
Qed.

Lemma exh_of_nonpositive pleft p : (forall m, 0 <= pleft m) -> p <= 0 -> forall m, exh_of pleft p m = false.
Proof.
  intros Hp Hle m. unfold exh_of. apply Qltb_false. specialize (Hp m).
  assert (p / 2 <= 0) by (unfold Qdiv; setoid_replace 0 with (0 * / 2) by ring; apply Qmult_le_compat_r; [exact Hle|discriminate]).
  lra.
Qed.

(* the code BEFORE e5add93 (no guard on p): a non-positive minimum_probability_step never returns, on either side, for ANY root
   finder, any h and any number of iterations *)
Theorem nonpositive_p_never_returns pleft p root : (forall m, 0 <= pleft m) -> p <= 0 ->
  forall fuel h, compute_right_axis (exh_of pleft p) root fuel h = None /\ compute_left_axis (exh_of pleft p) root fuel h = None.
Proof.
  intros Hp Hle fuel h. unfold compute_right_axis, compute_left_axis.
  rewrite (right_loop_never_exhausted _ root (exh_of_nonpositive pleft p Hp Hle)).
  rewrite (left_loop_never_exhausted _ root (exh_of_nonpositive pleft p Hp Hle)). split; reflexivity.
Qed.

(* the REPAIRED constructor: whenever it returns, 0 < p, and the axis is admissible; it refuses p <= 0 *)
Theorem probstep_ctor_admissible p pl pr rootl rootr fuel h xs o :
  (forall x y, rootl x = Some y -> y < x) -> (forall x y, rootr x = Some y -> x < y) -> 0 < h ->
  probstep_ctor p pl pr rootl rootr fuel h = Some (xs, o) ->
  0 < p /\ admissible xs o h /\ (2 <= o)%nat /\ (o + 3 <= length xs)%nat.
Proof.
  intros Hl Hr Hh E. unfold probstep_ctor in E. destruct (Qltb 0 p) eqn:Ep; [|discriminate].
  apply Qltb_lt in Ep. split; [exact Ep|].
  destruct (probstep_axis_admissible _ _ _ _ _ _ _ _ Hl Hr Hh E) as (A & B & C & _). split; [exact A|]. split; [exact B|exact C].
Qed.
Theorem probstep_ctor_rejects p pl pr rootl rootr fuel h : p <= 0 -> probstep_ctor p pl pr rootl rootr fuel h = None.
Proof. intros H. unfold probstep_ctor. apply Qltb_false in H. rewrite H. reflexivity. Qed.

(* witnesses: constant density on [-2, 2] (the oracles of the correspondence), h = 1, p = 1/4 (q = 1/8, w = p * (A - h/2) = 3/8).
   float h: left half axis [-13/4; -5/2; -7/4; -1]; int h before 6825494: [-3; -2; -1; -1], -1 twice (the axis /repo b517e80 returns
   for CTMCGridProbabilityStep(h=1, StepModel(StepMeasure([-2,2],[3])), 0.25)).  Repaired constructor on the same data; p = -1/4, 0 refused *)
Lemma int_h_example :
  option_map (map Qred) (compute_left_axis (lin_exh_l 2 1 (1 # 8)) (lin_root_l (3 # 8) 2) 50 1) = Some [-(13 # 4); -(5 # 2); -(7 # 4); -(1 # 1)]
  /\ option_map (map Qred) (compute_left_axis_int_h (lin_exh_l 2 1 (1 # 8)) (lin_root_l (3 # 8) 2) 50 1) = Some [-(3 # 1); -(2 # 1); -(1 # 1); -(1 # 1)]
  /\ option_map incrb (compute_left_axis_int_h (lin_exh_l 2 1 (1 # 8)) (lin_root_l (3 # 8) 2) 50 1) = Some false
  /\ (forall x y, lin_root_l (3 # 8) 2 x = Some y -> y < x).
Proof. repeat split; try (vm_compute; reflexivity). intros x y; apply lin_root_l_lt; reflexivity. Qed.

Lemma ctor_guard_example :
  option_map (fun r => (map Qred (fst r), snd r))
    (probstep_ctor (1 # 4) (lin_pleft_l 2 (1 # 4)) (lin_pleft_r 2 (1 # 4)) (lin_root_l (15 # 32) 2) (lin_root_r (15 # 32) 2) 50 (1 # 4))
  = Some ([-(109 # 16); -(4 # 1); -(19 # 16); -(1 # 4); 0; 1 # 4; 19 # 16; 17 # 8; 49 # 16], 4%nat)
  /\ probstep_ctor (-(1 # 4)) (lin_pleft_l 2 (1 # 4)) (lin_pleft_r 2 (1 # 4)) (lin_root_l (15 # 32) 2) (lin_root_r (15 # 32) 2) 50 (1 # 4) = None
  /\ probstep_ctor 0 (lin_pleft_l 2 (1 # 4)) (lin_pleft_r 2 (1 # 4)) (lin_root_l (15 # 32) 2) (lin_root_r (15 # 32) 2) 50 (1 # 4) = None
  /\ (forall m, 0 <= lin_pleft_r 2 (1 # 4) m).
Proof.
  repeat split; try (vm_compute; reflexivity).
  intros m. unfold lin_pleft_r, Qminb. destruct (Qle_bool m 2) eqn:E.
  - apply Qle_bool_iff in E. unfold Qdiv. apply Qmult_le_0_compat; [lra|]. vm_compute. discriminate.
  - unfold Qdiv. apply Qmult_le_0_compat; [lra|]. vm_compute. discriminate.
Qed.

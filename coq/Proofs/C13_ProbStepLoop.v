(* C13, wave 6: theorems about the loops of compute_right_axis / compute_left_axis (Model/ProbStepLoop.v), every branch,
   and the refinement theorems for the middle regenerated from the source (Gen/GenTieChain.v). *)
From Coq Require Import ZArith QArith Qabs List Lia Lqa.
From RV Require Import Base.QB Model.Grid Model.ProbStepLoop Proofs.C13_Grid Gen.GenTieChain.
Import ListNotations.
Open Scope Q_scope.

(* ---------------------------------------------------------------- refine with the generated middle *)
Lemma gen_middle_refine_n n xs o h : admissible xs o h ->
  admissible (refine_axis_n GenTieChain.middle n xs) (2 ^ n * o) (h / inject_Z (2 ^ Z.of_nat n))
  /\ (forall i, (i < length xs)%nat -> nthq (refine_axis_n GenTieChain.middle n xs) (2 ^ n * i) = nthq xs i)
  /\ length (refine_axis_n GenTieChain.middle n xs) = (2 ^ n * (length xs - 1) + 1)%nat.
Proof.
  intros A. change GenTieChain.middle with amid.
  split; [exact (refine_n_admissible amid amid_between amid_left0 amid_right0 n xs o h A)|].
  assert (I : incr xs) by apply A.
  assert (N : xs <> []) by (destruct A as (_ & _ & L & _); destruct xs; [simpl in L; lia|discriminate]).
  destruct (refine_n_nests amid amid_between n xs I N) as (H1 & H2 & _). split; assumption.
Qed.

Ltac qlra := unfold Qdiv; try (setoid_replace (/ 2) with (1 # 2) by reflexivity); lra.

(* ---------------------------------------------------------------- list facts *)
Lemma incr_snoc xs v : incr xs -> xs <> [] -> lastq xs < v -> incr (xs ++ [v]).
Proof.
  induction xs as [|a r IH]; intros I N L; [congruence|].
  destruct r as [|b r'].
  - simpl. split; [exact L|exact Logic.I].
  - change (incr (a :: (b :: r') ++ [v])). change ((b :: r') ++ [v]) with (b :: (r' ++ [v])).
    destruct I as [Hab I']. split; [exact Hab|].
    change (incr ((b :: r') ++ [v])). apply IH; [exact I'|discriminate|exact L].
Qed.

Lemma lastq_snoc xs v : lastq (xs ++ [v]) = v.
Proof. unfold lastq. apply last_last. Qed.

Lemma incr_app_l l1 l2 : incr (l1 ++ l2) -> incr l1.
Proof.
  induction l1 as [|a r IH]; intros I; [exact Logic.I|].
  destruct r as [|b r']; [exact Logic.I|].
  change (incr (a :: b :: (r' ++ l2))) in I. destruct I as [Hab I']. split; [exact Hab|].
  apply IH. exact I'.
Qed.

Lemma incr_tl xs : incr xs -> incr (tl xs).
Proof. destruct xs as [|a [|b r]]; simpl; intros I; try exact Logic.I. apply I. Qed.

Lemma Qabs_pos_ne x : ~ x == 0 -> 0 < Qabs x.
Proof. intros N. apply Qabs_case; intros H; destruct (Qlt_le_dec 0 x); destruct (Qlt_le_dec x 0); try lra; exfalso; apply N; lra. Qed.

Section LoopProofs.
  Variable exhausted : Q -> bool.
  Variable root : Q -> option Q.

  (* ---------------------------------------------------------------- right loop: every branch *)
  Section Right.
    Hypothesis root_gt : forall x y, root x = Some y -> x < y.

    Lemma right_loop_inv fuel : forall sl m sr axis out,
      right_loop exhausted root fuel sl m sr axis = Some out ->
      incr axis -> axis <> [] -> lastq axis = sr -> m < sr ->
      incr out /\ exists ext, out = axis ++ ext /\ ext <> [].
    Proof.
      induction fuel as [|f IH]; intros sl m sr axis out E I N L Hm; [discriminate|].
      cbn [right_loop] in E. destruct (exhausted m).
      - injection E as <-. split.
        + apply incr_snoc; [exact I|exact N|]. rewrite L. lra.
        + eexists. split; [reflexivity|discriminate].
      - assert (step : forall d, 0 < d ->
                  right_loop exhausted root f sr (sr + d) (sr + 2 * d) (axis ++ [sr + 2 * d]) = Some out ->
                  incr out /\ exists ext, out = axis ++ ext /\ ext <> []).
        { intros d Hd E'. apply IH in E'.
          - destruct E' as [Io (ext & -> & _)]. split; [exact Io|]. rewrite <- app_assoc. eexists. split; [reflexivity|discriminate].
          - apply incr_snoc; [exact I|exact N|]. rewrite L. lra.
          - destruct axis; discriminate.
          - apply lastq_snoc.
          - lra. }
        destruct (root sr) as [m1|] eqn:R1.
        + pose proof (root_gt _ _ R1) as G1. destruct (root m1) as [s1|] eqn:R2.
          * pose proof (root_gt _ _ R2) as G2. apply IH in E.
            -- destruct E as [Io (ext & -> & _)]. split; [exact Io|]. rewrite <- app_assoc. eexists. split; [reflexivity|discriminate].
            -- apply incr_snoc; [exact I|exact N|]. rewrite L. lra.
            -- destruct axis; discriminate.
            -- apply lastq_snoc.
            -- exact G2.
          * cbv zeta in E. apply (step (Qabs (m1 - sr))); [|exact E]. apply Qabs_pos_ne. lra.
        + cbv zeta in E. apply (step (Qabs (m - sr))); [|exact E]. apply Qabs_pos_ne. lra.
    Qed.

    Theorem right_axis_incr fuel h axis : 0 < h -> compute_right_axis exhausted root fuel h = Some axis ->
      incr axis /\ headq axis = h /\ (2 <= length axis)%nat /\ (forall i, (i < length axis)%nat -> 0 < nthq axis i).
    Proof.
      intros Hh E. unfold compute_right_axis in E.
      destruct (right_loop exhausted root fuel 0 (h - (h - 0) / 2) h [0; h]) as [out|] eqn:EL; [|discriminate].
      injection E as <-.
      apply right_loop_inv in EL; [| simpl; split; [lra|exact Logic.I] | discriminate | reflexivity | qlra].
      destruct EL as [Io (ext & -> & Ne)]. cbn [app tl].
      assert (It : incr (h :: ext)) by (apply (incr_tl (0 :: h :: ext)); exact Io).
      split; [exact It|]. split; [reflexivity|]. split; [destruct ext; [congruence|simpl; lia]|].
      intros i Hi. destruct i as [|i]; [exact Hh|].
      apply Qlt_trans with h; [exact Hh|].
      apply (incr_nth_lt (h :: ext) It 0 (S i)); [lia|exact Hi].
    Qed.
  End Right.

  (* ---------------------------------------------------------------- left loop: every branch *)
  Section Left.
    Hypothesis root_lt : forall x y, root x = Some y -> y < x.

    Lemma left_loop_inv fuel : forall sl m sr axis out,
      left_loop exhausted root fuel sl m sr axis = Some out ->
      incr axis -> axis <> [] -> headq axis = sl -> sl < m -> m < sr ->
      incr out /\ exists ext, out = ext ++ axis /\ ext <> [].
    Proof.
      induction fuel as [|f IH]; intros sl m sr axis out E I N L Hm1 Hm2; [discriminate|].
      assert (cons_incr : forall v, v < sl -> incr (v :: axis)).
      { intros v Hv. destruct axis as [|a r]; [congruence|]. simpl in L. subst a. split; [exact Hv|exact I]. }
      cbn [left_loop] in E. destruct (exhausted m).
      - injection E as <-. split.
        + apply cons_incr. lra.
        + exists [sl - 2 * (m - sl)]. split; [reflexivity|discriminate].
      - assert (step : forall d, 0 < d ->
                  left_loop exhausted root f (sl - 2 * d) ((sl - 2 * d) + d) sl ((sl - 2 * d) :: axis) = Some out ->
                  incr out /\ exists ext, out = ext ++ axis /\ ext <> []).
        { intros d Hd E'. apply IH in E'.
          - destruct E' as [Io (ext & -> & _)]. split; [exact Io|]. exists (ext ++ [sl - 2 * d]).
            split; [rewrite <- app_assoc; reflexivity|destruct ext; discriminate].
          - apply cons_incr. lra.
          - discriminate.
          - reflexivity.
          - lra.
          - lra. }
        destruct (root sl) as [m1|] eqn:R1.
        + pose proof (root_lt _ _ R1) as G1. destruct (root m1) as [s1|] eqn:R2.
          * pose proof (root_lt _ _ R2) as G2. apply IH in E.
            -- destruct E as [Io (ext & -> & _)]. split; [exact Io|]. exists (ext ++ [s1]).
               split; [rewrite <- app_assoc; reflexivity|destruct ext; discriminate].
            -- apply cons_incr. lra.
            -- discriminate.
            -- reflexivity.
            -- exact G2.
            -- exact G1.
          * cbv zeta in E. apply (step (Qabs (sr - m1))); [|exact E]. apply Qabs_pos_ne. lra.
        + cbv zeta in E. apply (step (Qabs (sr - m))); [|exact E]. apply Qabs_pos_ne. lra.
    Qed.

    Theorem left_axis_incr fuel h axis : 0 < h -> compute_left_axis exhausted root fuel h = Some axis ->
      incr axis /\ lastq axis = - h /\ (2 <= length axis)%nat /\ (forall i, (i < length axis)%nat -> nthq axis i < 0).
    Proof.
      intros Hh E. unfold compute_left_axis in E.
      destruct (left_loop exhausted root fuel (- h) (0 - (0 - - h) / 2) 0 [- h; 0]) as [out|] eqn:EL; [|discriminate].
      injection E as <-.
      apply left_loop_inv in EL; [| simpl; split; [lra|exact Logic.I] | discriminate | reflexivity | qlra | qlra].
      destruct EL as [Io (ext & -> & Ne)].
      replace (ext ++ [- h; 0]) with ((ext ++ [- h]) ++ [0]) in * by (rewrite <- app_assoc; reflexivity).
      rewrite removelast_last.
      assert (It : incr (ext ++ [- h])) by (apply (incr_app_l _ [0]); exact Io).
      split; [exact It|]. split; [apply lastq_snoc|].
      split; [rewrite app_length; simpl; destruct ext; [congruence|simpl; lia]|].
      intros i Hi. rewrite app_length in Hi. simpl in Hi.
      assert (Hl : nthq (ext ++ [- h]) (length ext) = - h).
      { unfold nthq. rewrite app_nth2 by lia. rewrite Nat.sub_diag. reflexivity. }
      destruct (Nat.eq_dec i (length ext)) as [->|Ne'].
      - rewrite Hl. lra.
      - assert (H : nthq (ext ++ [- h]) i < nthq (ext ++ [- h]) (length ext))
          by (apply (incr_nth_lt _ It); [lia|rewrite app_length; simpl; lia]).
        rewrite Hl in H. lra.
    Qed.
  End Left.
End LoopProofs.

(* ---------------------------------------------------------------- the constructor's axis *)
Theorem probstep_axis_admissible exl exr rootl rootr fuel h xs o :
  (forall x y, rootl x = Some y -> y < x) -> (forall x y, rootr x = Some y -> x < y) -> 0 < h ->
  probstep_axis exl exr rootl rootr fuel h = Some (xs, o) ->
  admissible xs o h /\ (2 <= o)%nat /\ (o + 3 <= length xs)%nat
  /\ exists l r, compute_left_axis exl rootl fuel h = Some l /\ compute_right_axis exr rootr fuel h = Some r
                 /\ xs = l ++ [0] ++ r /\ o = length l.
Proof.
  intros Hl Hr Hh E. unfold probstep_axis in E.
  destruct (compute_left_axis exl rootl fuel h) as [l|] eqn:EL; [|discriminate].
  destruct (compute_right_axis exr rootr fuel h) as [r|] eqn:ER; [|discriminate].
  destruct (left_axis_incr exl rootl Hl fuel h l Hh EL) as (Il & Ll & Nl & _).
  destruct (right_axis_incr exr rootr Hr fuel h r Hh ER) as (Ir & Lr & Nr & _).
  pose proof (assembly_admissible l r h) as A. unfold assemble in *. injection E as <- <-.
  destruct A as (A & _ & _ & _).
  - exact Il.
  - exact Ir.
  - destruct l; [simpl in Nl; lia|discriminate].
  - destruct r; [simpl in Nr; lia|discriminate].
  - exact Hh.
  - rewrite Ll. reflexivity.
  - rewrite Lr. reflexivity.
  - split; [exact A|]. split; [exact Nl|]. split; [rewrite !app_length; simpl; lia|].
    exists l, r. repeat split; reflexivity.
Qed.

(* ---------------------------------------------------------------- non-vacuity: a constant jump density on [-2, 2], h = 1/4, p = 1/4 *)
Lemma lin_root_r_gt w A x y : 0 < w -> lin_root_r w A x = Some y -> x < y.
Proof. unfold lin_root_r. intros Hw. destruct (Qle_bool _ _); [|discriminate]. intros [= <-]. lra. Qed.
Lemma lin_root_l_lt w A x y : 0 < w -> lin_root_l w A x = Some y -> y < x.
Proof. unfold lin_root_l. intros Hw. destruct (Qle_bool _ _); [|discriminate]. intros [= <-]. lra. Qed.

(* both loops go through the regular branch (one step of probability 1/4), the except branch with the first root found and the
   second refused, and the exhaustion exit; the left half is NOT the mirror image of the right half beyond the regular steps *)
Lemma probstep_loop_example :
  (forall x y, lin_root_l (15 # 32) 2 x = Some y -> y < x) /\ (forall x y, lin_root_r (15 # 32) 2 x = Some y -> x < y)
  /\ option_map (fun p => (map Qred (fst p), snd p))
       (probstep_axis (lin_exh_l 2 (1 # 4) (1 # 8)) (lin_exh_r 2 (1 # 4) (1 # 8)) (lin_root_l (15 # 32) 2) (lin_root_r (15 # 32) 2) 50 (1 # 4))
     = Some ([-(109 # 16); -(4 # 1); -(19 # 16); -(1 # 4); 0; 1 # 4; 19 # 16; 17 # 8; 49 # 16], 4%nat)
  /\ compute_right_axis (lin_exh_r 2 (1 # 4) (1 # 8)) (lin_root_r (15 # 32) 2) 2 (1 # 4) = None.
Proof.
  split; [intros x y; apply lin_root_l_lt; reflexivity|]. split; [intros x y; apply lin_root_r_gt; reflexivity|].
  split; vm_compute; reflexivity.
Qed.

(* ================================================================ per-gap content of the two loops: regular gaps carry 2q = p,
   then equally spaced extrapolated states *)
Lemma lastq_cons2 a b r : lastq (a :: b :: r) = lastq (b :: r).
Proof. reflexivity. Qed.

Section ShapeRight.
  Variable exhausted : Q -> bool.
  Variable root : Q -> option Q.
  Variable F : Q -> Q.
  Variable q : Q.
  Hypothesis root_gt : forall x y, root x = Some y -> x < y.
  Hypothesis root_spec : forall x y, root x = Some y -> F y - F x == q.
  Hypothesis root_fail_mono : forall x x', root x = None -> x <= x' -> root x' = None.

  (* once a root search has been refused at the frontier, every later one is: equal extrapolated steps 2*d until the exit *)
  Lemma right_fail_mode fuel : forall sl m sr axis out d,
    right_loop exhausted root fuel sl m sr axis = Some out -> root sr = None -> sr - m == d -> 0 < d ->
    exists ext, out = axis ++ ext /\ ext <> [] /\ gaps_w (2 * d) (sr :: ext).
  Proof.
    induction fuel as [|f IH]; intros sl m sr axis out d E R Hd Hp; [discriminate|].
    cbn [right_loop] in E. destruct (exhausted m).
    - injection E as <-. eexists. split; [reflexivity|]. split; [discriminate|]. simpl. split; [lra|exact I].
    - rewrite R in E. cbv zeta in E.
      assert (D : Qabs (m - sr) == d) by (apply Qabs_case; intros; lra).
      apply (IH _ _ _ _ _ d) in E; [| apply (root_fail_mono sr); [exact R|lra] | lra | exact Hp].
      destruct E as (ext & -> & _ & G). exists ((sr + 2 * Qabs (m - sr)) :: ext).
      split; [rewrite <- app_assoc; reflexivity|]. split; [discriminate|].
      change (sr + 2 * Qabs (m - sr) - sr == 2 * d /\ gaps_w (2 * d) ((sr + 2 * Qabs (m - sr)) :: ext)). split; [lra|exact G].
  Qed.

  Lemma right_shape fuel : forall sl m sr axis out,
    right_loop exhausted root fuel sl m sr axis = Some out -> m < sr ->
    exists reg ext d, out = axis ++ reg ++ ext /\ gaps_F F (2 * q) (sr :: reg) /\ ext <> [] /\ 0 < d
                      /\ gaps_w (2 * d) (lastq (sr :: reg) :: ext).
  Proof.
    induction fuel as [|f IH]; intros sl m sr axis out E Hm; [discriminate|].
    cbn [right_loop] in E. destruct (exhausted m).
    - injection E as <-. exists [], [sr + 2 * (sr - m)], (sr - m). split; [reflexivity|]. split; [exact I|].
      split; [discriminate|]. split; [lra|]. unfold lastq; cbn [last gaps_w]. split; [lra|exact I].
    - destruct (root sr) as [m1|] eqn:R1.
      + pose proof (root_gt _ _ R1) as G1. pose proof (root_spec _ _ R1) as S1. destruct (root m1) as [s1|] eqn:R2.
        * pose proof (root_gt _ _ R2) as G2. pose proof (root_spec _ _ R2) as S2.
          apply IH in E; [|exact G2]. destruct E as (reg & ext & d & -> & GF & Ne & Hd & GW).
          exists (s1 :: reg), ext, d. split; [rewrite <- !app_assoc; reflexivity|].
          split; [split; [lra|exact GF]|]. split; [exact Ne|]. split; [exact Hd|]. rewrite lastq_cons2. exact GW.
        * cbv zeta in E. assert (D : Qabs (m1 - sr) == m1 - sr) by (apply Qabs_case; intros; lra).
          apply (right_fail_mode _ _ _ _ _ _ (m1 - sr)) in E; [| apply (root_fail_mono m1); [exact R2|lra] | lra | lra].
          destruct E as (ext & -> & _ & G). exists [], ((sr + 2 * Qabs (m1 - sr)) :: ext), (m1 - sr).
          split; [rewrite <- app_assoc; reflexivity|]. split; [exact I|]. split; [discriminate|]. split; [lra|].
          change (sr + 2 * Qabs (m1 - sr) - sr == 2 * (m1 - sr) /\ gaps_w (2 * (m1 - sr)) ((sr + 2 * Qabs (m1 - sr)) :: ext)).
          split; [lra|exact G].
      + cbv zeta in E. assert (D : Qabs (m - sr) == sr - m) by (apply Qabs_case; intros; lra).
        apply (right_fail_mode _ _ _ _ _ _ (sr - m)) in E; [| apply (root_fail_mono sr); [exact R1|lra] | lra | lra].
        destruct E as (ext & -> & _ & G). exists [], ((sr + 2 * Qabs (m - sr)) :: ext), (sr - m).
        split; [rewrite <- app_assoc; reflexivity|]. split; [exact I|]. split; [discriminate|]. split; [lra|].
        change (sr + 2 * Qabs (m - sr) - sr == 2 * (sr - m) /\ gaps_w (2 * (sr - m)) ((sr + 2 * Qabs (m - sr)) :: ext)).
        split; [lra|exact G].
  Qed.

  Theorem right_axis_shape fuel h axis : 0 < h -> compute_right_axis exhausted root fuel h = Some axis ->
    exists reg ext d, axis = (h :: reg) ++ ext /\ gaps_F F (2 * q) (h :: reg) /\ ext <> [] /\ 0 < d
                      /\ gaps_w (2 * d) (lastq (h :: reg) :: ext).
  Proof.
    intros Hh E. unfold compute_right_axis in E.
    destruct (right_loop exhausted root fuel 0 (h - (h - 0) / 2) h [0; h]) as [out|] eqn:EL; [|discriminate].
    injection E as <-. apply right_shape in EL; [|qlra].
    destruct EL as (reg & ext & d & -> & H). exists reg, ext, d. split; [reflexivity|exact H].
  Qed.
End ShapeRight.

Section ShapeLeft.
  Variable exhausted : Q -> bool.
  Variable root : Q -> option Q.
  Variable F : Q -> Q.
  Variable q : Q.
  Hypothesis root_lt : forall x y, root x = Some y -> y < x.
  Hypothesis root_spec : forall x y, root x = Some y -> F y - F x == q.
  Hypothesis root_fail_mono : forall x x', root x = None -> x' <= x -> root x' = None.

  Lemma left_fail_mode fuel : forall sl m sr axis out d,
    left_loop exhausted root fuel sl m sr axis = Some out -> root sl = None -> sr - m == d -> m - sl == d -> 0 < d ->
    exists ext, out = rev ext ++ axis /\ ext <> [] /\ gaps_w (- (2 * d)) (sl :: ext).
  Proof.
    induction fuel as [|f IH]; intros sl m sr axis out d E R Hd1 Hd2 Hp; [discriminate|].
    cbn [left_loop] in E. destruct (exhausted m).
    - injection E as <-. exists [sl - 2 * (m - sl)]. split; [reflexivity|]. split; [discriminate|]. simpl. split; [lra|exact I].
    - rewrite R in E. cbv zeta in E.
      assert (D : Qabs (sr - m) == d) by (apply Qabs_case; intros; lra).
      apply (IH _ _ _ _ _ d) in E; [| apply (root_fail_mono sl); [exact R|lra] | lra | lra | exact Hp].
      destruct E as (ext & -> & _ & G). exists ((sl - 2 * Qabs (sr - m)) :: ext).
      split; [cbn [rev]; rewrite <- app_assoc; reflexivity|]. split; [discriminate|].
      change (sl - 2 * Qabs (sr - m) - sl == - (2 * d) /\ gaps_w (- (2 * d)) ((sl - 2 * Qabs (sr - m)) :: ext)). split; [lra|exact G].
  Qed.

  Lemma left_shape fuel : forall sl m sr axis out,
    left_loop exhausted root fuel sl m sr axis = Some out -> sl < m -> m < sr ->
    exists reg ext d, out = rev ext ++ rev reg ++ axis /\ gaps_F F (2 * q) (sl :: reg) /\ ext <> [] /\ 0 < d
                      /\ gaps_w (- (2 * d)) (lastq (sl :: reg) :: ext).
  Proof.
    induction fuel as [|f IH]; intros sl m sr axis out E Hm1 Hm2; [discriminate|].
    cbn [left_loop] in E. destruct (exhausted m).
    - injection E as <-. exists [], [sl - 2 * (m - sl)], (m - sl). split; [reflexivity|]. split; [exact I|].
      split; [discriminate|]. split; [lra|]. unfold lastq; cbn [last gaps_w]. split; [lra|exact I].
    - destruct (root sl) as [m1|] eqn:R1.
      + pose proof (root_lt _ _ R1) as G1. pose proof (root_spec _ _ R1) as S1. destruct (root m1) as [s1|] eqn:R2.
        * pose proof (root_lt _ _ R2) as G2. pose proof (root_spec _ _ R2) as S2.
          apply IH in E; [|exact G2|exact G1]. destruct E as (reg & ext & d & -> & GF & Ne & Hd & GW).
          exists (s1 :: reg), ext, d. split; [cbn [rev]; rewrite <- !app_assoc; reflexivity|].
          split; [split; [lra|exact GF]|]. split; [exact Ne|]. split; [exact Hd|]. rewrite lastq_cons2. exact GW.
        * cbv zeta in E. assert (D : Qabs (sr - m1) == sr - m1) by (apply Qabs_case; intros; lra).
          apply (left_fail_mode _ _ _ _ _ _ (sr - m1)) in E; [| apply (root_fail_mono m1); [exact R2|lra] | lra | lra | lra].
          destruct E as (ext & -> & _ & G). exists [], ((sl - 2 * Qabs (sr - m1)) :: ext), (sr - m1).
          split; [cbn [rev]; rewrite <- app_assoc; reflexivity|]. split; [exact I|]. split; [discriminate|]. split; [lra|].
          change (sl - 2 * Qabs (sr - m1) - sl == - (2 * (sr - m1)) /\ gaps_w (- (2 * (sr - m1))) ((sl - 2 * Qabs (sr - m1)) :: ext)).
          split; [lra|exact G].
      + cbv zeta in E. assert (D : Qabs (sr - m) == sr - m) by (apply Qabs_case; intros; lra).
        apply (left_fail_mode _ _ _ _ _ _ (sr - m)) in E; [| apply (root_fail_mono sl); [exact R1|lra] | lra | lra | lra].
        destruct E as (ext & -> & _ & G). exists [], ((sl - 2 * Qabs (sr - m)) :: ext), (sr - m).
        split; [cbn [rev]; rewrite <- app_assoc; reflexivity|]. split; [exact I|]. split; [discriminate|]. split; [lra|].
        change (sl - 2 * Qabs (sr - m) - sl == - (2 * (sr - m)) /\ gaps_w (- (2 * (sr - m))) ((sl - 2 * Qabs (sr - m)) :: ext)).
        split; [lra|exact G].
  Qed.

  (* read from -h leftwards: reg = the regular states, ext = the extrapolated ones *)
  Theorem left_axis_shape fuel h axis : 0 < h -> compute_left_axis exhausted root fuel h = Some axis ->
    exists reg ext d, axis = rev ext ++ rev reg ++ [- h] /\ gaps_F F (2 * q) (- h :: reg) /\ ext <> [] /\ 0 < d
                      /\ gaps_w (- (2 * d)) (lastq (- h :: reg) :: ext).
  Proof.
    intros Hh E. unfold compute_left_axis in E.
    destruct (left_loop exhausted root fuel (- h) (0 - (0 - - h) / 2) 0 [- h; 0]) as [out|] eqn:EL; [|discriminate].
    injection E as <-. apply left_shape in EL; [|qlra|qlra].
    destruct EL as (reg & ext & d & -> & H). exists reg, ext, d. split; [|exact H].
    replace (rev ext ++ rev reg ++ [- h; 0]) with ((rev ext ++ rev reg ++ [- h]) ++ [0]) by (rewrite <- !app_assoc; reflexivity).
    apply removelast_last.
  Qed.
End ShapeLeft.

(* non-vacuity of the three hypotheses (and of the left ones): constant density on [-2, 2], h = 1/4, p = 2q = 1/4:
   F x = x * 4/15 (right), F x = - x * 4/15 (left), root x = x +- 15/32 while it stays inside [-2, 2] *)
Lemma lin_shape_example :
  (forall x y, lin_root_r (15 # 32) 2 x = Some y -> y * (4 # 15) - x * (4 # 15) == 1 # 8)
  /\ (forall x x', lin_root_r (15 # 32) 2 x = None -> x <= x' -> lin_root_r (15 # 32) 2 x' = None)
  /\ (forall x y, lin_root_l (15 # 32) 2 x = Some y -> - y * (4 # 15) - - x * (4 # 15) == 1 # 8)
  /\ (forall x x', lin_root_l (15 # 32) 2 x = None -> x' <= x -> lin_root_l (15 # 32) 2 x' = None)
  /\ option_map (map Qred) (compute_right_axis (lin_exh_r 2 (1 # 4) (1 # 8)) (lin_root_r (15 # 32) 2) 50 (1 # 4))
     = Some ((1 # 4 :: [19 # 16]) ++ [17 # 8; 49 # 16])
  /\ option_map (map Qred) (compute_left_axis (lin_exh_l 2 (1 # 4) (1 # 8)) (lin_root_l (15 # 32) 2) 50 (1 # 4))
     = Some (rev [-(4 # 1); -(109 # 16)] ++ rev [-(19 # 16)] ++ [-(1 # 4)]).
Proof.
  split; [|split; [|split; [|split; [|split; vm_compute; reflexivity]]]].
  - intros x y. unfold lin_root_r. destruct (Qle_bool _ _); [|discriminate]. intros [= <-]. lra.
  - intros x x'. unfold lin_root_r. destruct (Qle_bool (x + _) _) eqn:E1; [discriminate|]. intros _ Hle.
    destruct (Qle_bool (x' + _) _) eqn:E2; [|reflexivity]. apply Qle_bool_iff in E2. apply Qle_bool_false in E1. lra.
  - intros x y. unfold lin_root_l. destruct (Qle_bool _ _); [|discriminate]. intros [= <-]. lra.
  - intros x x'. unfold lin_root_l. destruct (Qle_bool _ (x - _)) eqn:E1; [discriminate|]. intros _ Hle.
    destruct (Qle_bool _ (x' - _)) eqn:E2; [|reflexivity]. apply Qle_bool_iff in E2. apply Qle_bool_false in E1. lra.
Qed.

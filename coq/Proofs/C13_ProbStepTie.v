(* C13, wave 7 (audit 4, B6 / A7): `ps_axis` (Model/GridGeom.v, the axis the specification corollaries C13_probstep_gaps / _refine are
   about) was compared with nothing.  Here it is linked to the loop model Model/ProbStepLoop.v (which IS compared with the code, state
   by state, on recorded oracle answers): the regular part of compute_right_axis's output is ps_axis of ANY real root function that
   agrees with the loop's root oracle on the searches of probability p/2 that the loop performs. *)
From Coq Require Import QArith Qabs Qreals List Lia Lqa Reals.
From Coq Require Lra.
From RV Require Import Base.QB Model.Grid Model.GridGeom Model.ProbStepLoop Proofs.C13_Grid Proofs.C13_ProbStepLoop.
Import ListNotations.

Section PsTie.
  Variable exhausted : Q -> bool.
  Variable root : Q -> option Q.
  Variable rootR : R -> R -> R.
  Variable p : R.
  Hypothesis root_gt : forall x y, root x = Some y -> (x < y)%Q.
  Hypothesis root_fail_mono : forall x x', root x = None -> (x <= x')%Q -> root x' = None.
  Hypothesis rootR_agrees : forall x y, root x = Some y -> rootR (Q2R x) (p / 2)%R = Q2R y.

  Open Scope Q_scope.
  Lemma right_shape_ps fuel : forall sl m sr axis out,
    right_loop exhausted root fuel sl m sr axis = Some out -> m < sr ->
    exists reg ext d, out = axis ++ reg ++ ext /\ map Q2R (sr :: reg) = ps_axis rootR (Q2R sr) p (length reg)
                      /\ ext <> [] /\ 0 < d /\ gaps_w (2 * d) (lastq (sr :: reg) :: ext).
  Proof.
    induction fuel as [|f IH]; intros sl m sr axis out E Hm; [discriminate|].
    cbn [right_loop] in E. destruct (exhausted m).
    - injection E as <-. exists [], [sr + 2 * (sr - m)], (sr - m). split; [reflexivity|]. split; [reflexivity|].
      split; [discriminate|]. split; [lra|]. unfold lastq; cbn [last gaps_w]. split; [lra|exact I].
    - destruct (root sr) as [m1|] eqn:R1.
      + pose proof (root_gt _ _ R1) as G1. destruct (root m1) as [s1|] eqn:R2.
        * pose proof (root_gt _ _ R2) as G2.
          apply IH in E; [|exact G2]. destruct E as (reg & ext & d & -> & PS & Ne & Hd & GW).
          exists (s1 :: reg), ext, d. split; [rewrite <- !app_assoc; reflexivity|].
          split; [|split; [exact Ne|split; [exact Hd|rewrite lastq_cons2; exact GW]]].
          cbn [length ps_axis]. rewrite (rootR_agrees _ _ R1), (rootR_agrees _ _ R2), <- PS. reflexivity.
        * cbv zeta in E. assert (D : Qabs (m1 - sr) == m1 - sr) by (apply Qabs_case; intros; lra).
          apply (right_fail_mode exhausted root root_fail_mono _ _ _ _ _ _ (m1 - sr)) in E; [| apply (root_fail_mono m1); [exact R2|lra] | lra | lra].
          destruct E as (ext & -> & _ & G). exists [], ((sr + 2 * Qabs (m1 - sr)) :: ext), (m1 - sr).
          split; [rewrite <- app_assoc; reflexivity|]. split; [reflexivity|]. split; [discriminate|]. split; [lra|].
          change (sr + 2 * Qabs (m1 - sr) - sr == 2 * (m1 - sr) /\ gaps_w (2 * (m1 - sr)) ((sr + 2 * Qabs (m1 - sr)) :: ext)).
          split; [lra|exact G].
      + cbv zeta in E. assert (D : Qabs (m - sr) == sr - m) by (apply Qabs_case; intros; lra).
        apply (right_fail_mode exhausted root root_fail_mono _ _ _ _ _ _ (sr - m)) in E; [| apply (root_fail_mono sr); [exact R1|lra] | lra | lra].
        destruct E as (ext & -> & _ & G). exists [], ((sr + 2 * Qabs (m - sr)) :: ext), (sr - m).
        split; [rewrite <- app_assoc; reflexivity|]. split; [reflexivity|]. split; [discriminate|]. split; [lra|].
        change (sr + 2 * Qabs (m - sr) - sr == 2 * (sr - m) /\ gaps_w (2 * (sr - m)) ((sr + 2 * Qabs (m - sr)) :: ext)).
        split; [lra|exact G].
  Qed.

  (* compute_right_axis = h :: reg ++ ext with  (h :: reg) = ps_axis rootR h p (length reg)  seen in R, ext = the >= 1 extrapolated
     states (constant spacing 2d).  Only the right half axis: ps_axis is the right-hand specification model (no left twin exists). *)
  Theorem right_axis_regular_is_ps_axis fuel h axis : 0 < h -> compute_right_axis exhausted root fuel h = Some axis ->
    exists reg ext d, axis = (h :: reg) ++ ext /\ map Q2R (h :: reg) = ps_axis rootR (Q2R h) p (length reg)
                      /\ ext <> [] /\ 0 < d /\ gaps_w (2 * d) (lastq (h :: reg) :: ext).
  Proof.
    intros Hh E. unfold compute_right_axis in E.
    destruct (right_loop exhausted root fuel 0 (h - (h - 0) / 2) h [0; h]) as [out|] eqn:EL; [|discriminate].
    injection E as <-. apply right_shape_ps in EL; [|qlra].
    destruct EL as (reg & ext & d & -> & H). exists reg, ext, d. split; [reflexivity|exact H].
  Qed.
End PsTie.

(* non-vacuity: the constant-density oracles of the loop example (A = 2, h = p = 1/4, w = 15/32) and the real root function
   rootR x q = x + q * 15/4 (F x = x * 4/15): the loop's regular part [1/4; 19/16] is ps_axis rootR (1/4) (1/4) 1 *)
Lemma ps_tie_example :
  (forall x y, lin_root_r (15 # 32) 2 x = Some y -> (fun a q => a + q * (15 / 4))%R (Q2R x) ((1 / 4) / 2)%R = Q2R y)
  /\ ps_axis (fun a q => a + q * (15 / 4))%R (Q2R (1 # 4)) (1 / 4) 1 = [Q2R (1 # 4); (Q2R (1 # 4) + 1 / 4 / 2 * (15 / 4) + 1 / 4 / 2 * (15 / 4))%R].
Proof.
  split; [|reflexivity].
  intros x y. unfold lin_root_r. destruct (Qle_bool _ _); [|discriminate]. intros [= <-].
  rewrite Q2R_plus. replace (Q2R (15 # 32)) with (15 / 32)%R by (unfold Q2R; simpl; Lra.lra). Lra.lra.
Qed.

(* C14: completeness of the StatesManager enumeration.
   Domain.compute_total_number_of_states_and_frontier records max_state_index >= the pairing index of every
   in-grid, in-domain state (dom_nd_bound), hence max_frontier_indices = max(max(frontier), max_state_index)
   bounds every admissible index; composed with the bijection theorems and the state machine
   (sm_complete): driven with x = 0,1,2,... the StatesManager returns EVERY in-grid, in-domain, non-origin state
   exactly once and then signals exhaustion -- for 1-d intervals (PairingToZ1d), and for d-dimensional grids with
   PairingToZd over Rosenberg-Strong (d >= 2) and over the nested Szudzik pairing (d >= 2; d = 2 is the factory's). *)
From Coq Require Import ZArith List Bool Lia.
From RV Require Import Gen.GenPairing Model.Pairing Model.Domain Model.StatesManager
  Proofs.C14_Lazy Proofs.C14_Pairing2d Proofs.C14_Z1d Proofs.C14_Zd Proofs.C14_RSnd Proofs.C14_Zdn
  Proofs.C14_StatesManager.
Import ListNotations.
Open Scope Z_scope.

(* ---------------- max over a non-empty list, monotonicity of the fold ---------------- *)
Lemma fold_left_max_init r i0 : i0 <= fold_left Z.max r i0.
Proof. revert i0. induction r as [|a r IH]; intros i0; cbn [fold_left]; [lia|]. specialize (IH (Z.max i0 a)). lia. Qed.

Lemma fold_left_max_ge r : forall i0 x, In x (i0 :: r) -> x <= fold_left Z.max r i0.
Proof.
  induction r as [|a r IH]; intros i0 x Hin; cbn [fold_left].
  - destruct Hin as [->|[]]. lia.
  - destruct Hin as [->|[->|Hin]].
    + pose proof (fold_left_max_init r (Z.max x a)). lia.
    + pose proof (fold_left_max_init r (Z.max i0 x)). lia.
    + apply IH. right. exact Hin.
Qed.

Section DomainBound.
  Variable outside : list Z -> bool.
  Variable pair : list Z -> Z.
  Variables (o last_size : Z).
  Notation step := (dom_step outside pair o last_size).

  Lemma dom_step_mono acc ks : fst acc <= fst (step acc ks).
  Proof.
    unfold dom_step. cbn zeta.
    destruct (map fst (filter (fun p => negb (snd p)) (dom_line outside pair o last_size (map (fun ki => ki - o) ks))));
      cbn [fst]; lia.
  Qed.

  Lemma dom_fold_mono l : forall acc, fst acc <= fst (fold_left step l acc).
  Proof.
    induction l as [|ks l IH]; intros acc; cbn [fold_left]; [lia|].
    pose proof (dom_step_mono acc ks). specialize (IH (step acc ks)). lia.
  Qed.

  (* the step for ks records every non-outside state of its line *)
  Lemma dom_step_covers acc ks j : 0 <= j < last_size ->
    let s := map (fun ki => ki - o) ks ++ [j - o] in
    outside s = false -> pair s <= fst (step acc ks).
  Proof.
    intros Hj s Hout. unfold dom_step. cbn zeta.
    set (line := dom_line outside pair o last_size (map (fun ki => ki - o) ks)).
    assert (Hin : In (pair s) (map fst (filter (fun p => negb (snd p)) line))).
    { apply in_map_iff. exists (pair s, outside s). split; [reflexivity|].
      apply filter_In. split; [|cbn [snd]; rewrite Hout; reflexivity].
      unfold line, dom_line. apply in_map_iff. exists j. split; [reflexivity | apply in_zrange; exact Hj]. }
    destruct (map fst (filter (fun p => negb (snd p)) line)) as [|i0 r]; [destruct Hin|].
    cbn [fst]. pose proof (fold_left_max_ge r i0 _ Hin). lia.
  Qed.

  Lemma dom_fold_covers l : forall acc ks j, In ks l -> 0 <= j < last_size ->
    let s := map (fun ki => ki - o) ks ++ [j - o] in
    outside s = false -> pair s <= fst (fold_left step l acc).
  Proof.
    induction l as [|k0 l IH]; intros acc ks j Hin Hj s Hout; [destruct Hin|].
    cbn [fold_left]. destruct Hin as [->|Hin].
    - pose proof (dom_step_covers acc ks j Hj Hout). pose proof (dom_fold_mono l (step acc ks)). fold s in H. lia.
    - apply IH; assumption.
  Qed.
End DomainBound.

Lemma in_box_app_inv ms m : forall t, in_box (ms ++ [m]) t ->
  exists t' x, t = t' ++ [x] /\ in_box ms t' /\ 0 <= x < m.
Proof.
  induction ms as [|m0 ms IH]; intros t H.
  - destruct t as [|x [|y r]]; cbn in H; try tauto. exists [], x. cbn. tauto.
  - destruct t as [|x t]; cbn [app in_box] in H; [tauto|]. destruct H as [Hx Hr].
    destruct (IH t Hr) as [t' [y [-> [H1 H2]]]]. exists (x :: t'), y. cbn. tauto.
Qed.

(* grid coordinates t = origin + s *)
Theorem dom_nd_bound_coords outside pair all_sizes last_size o t :
  all_sizes <> [] -> Forall (fun m => 0 < m) all_sizes ->
  in_box (all_sizes ++ [last_size]) t ->
  let s := map (fun c => c - o) t in
  outside s = false -> pair s <= fst (dom_nd outside pair (all_sizes ++ [last_size]) o).
Proof.
  intros Hne Hpos Hbox s Hout. unfold dom_nd. rewrite removelast_last, last_last.
  destruct (in_box_app_inv _ _ _ Hbox) as [t' [x [Et [Hb Hx]]]].
  assert (Hin : In t' (lazy_product all_sizes)) by (apply lazy_product_complete; assumption).
  assert (Es : s = map (fun ki => ki - o) t' ++ [x - o]) by (unfold s; rewrite Et, map_app; reflexivity).
  rewrite Es in Hout |- *. apply dom_fold_covers; assumption.
Qed.

(* the admissibility test of StatesManager puts the state inside the box *)
Lemma grid_outside_false sizes o : forall s, length s = length sizes -> grid_outside sizes o s = false ->
  in_box sizes (map (fun si => o + si) s).
Proof.
  unfold grid_outside. induction sizes as [|m ms IH]; intros s Hl H; destruct s as [|x s]; try discriminate; [exact I|].
  cbn [map combine existsb fst snd] in H. apply orb_false_iff in H. destruct H as [H1 H2].
  apply orb_false_iff in H1. destruct H1 as [Ha Hb]. apply Z.ltb_ge in Ha. apply Z.ltb_ge in Hb.
  cbn [map in_box]. split; [lia|]. apply IH; [cbn in Hl; lia | exact H2].
Qed.

Lemma dom_maxf_ge r : fst r <= dom_maxf r.
Proof. unfold dom_maxf. destruct (snd r); lia. Qed.

Theorem dom_nd_bound outside pair all_sizes last_size o s :
  all_sizes <> [] -> Forall (fun m => 0 < m) all_sizes ->
  length s = length (all_sizes ++ [last_size]) ->
  sm_is_outside (all_sizes ++ [last_size]) o outside s = false ->
  pair s <= dom_maxf (dom_nd outside pair (all_sizes ++ [last_size]) o).
Proof.
  intros Hne Hpos Hl H. unfold sm_is_outside in H. apply orb_false_iff in H. destruct H as [Hg Ho].
  pose proof (grid_outside_false _ o s Hl Hg) as Hbox.
  pose proof (dom_nd_bound_coords outside pair all_sizes last_size o _ Hne Hpos Hbox) as H. cbn zeta in H.
  assert (E : map (fun c => c - o) (map (fun si => o + si) s) = s).
  { rewrite map_map. rewrite <- (map_id s) at 2. apply map_ext. intros; lia. }
  rewrite E in H. specialize (H Ho). pose proof (dom_maxf_ge (dom_nd outside pair (all_sizes ++ [last_size]) o)). lia.
Qed.

(* ================= d-dimensional grids: PairingToZd over any bijection N^d <-> N ================= *)
Section SMCompleteNd.
  Variable npair : list Z -> Z.
  Variable nproj : nat -> Z -> list Z.
  Variables (all_sizes : list Z) (last_size o : Z).
  Variable dom_outside : list Z -> bool.
  Notation sizes := (all_sizes ++ [last_size]).
  Notation d := (length (all_sizes ++ [last_size])).
  Hypothesis Hne : all_sizes <> [].
  Hypothesis Hpos : Forall (fun m => 0 < m) all_sizes.
  Hypothesis Hpp : forall xs, length xs = d -> nonneg_list xs -> nproj d (npair xs) = xs.
  Hypothesis Hpj : forall z, 0 <= z ->
    let xs := nproj d z in length xs = d /\ nonneg_list xs /\ npair xs = z.
  Hypothesis Hnn : forall xs, length xs = d -> nonneg_list xs -> 0 <= npair xs.
  Hypothesis Hzero : npair (repeat 0 d) = 0.

  Theorem sm_complete_nd :
    let project := zdn_project nproj d 1 in
    let pair := zdn_pair npair 1 in
    let outside := sm_is_outside sizes o dom_outside in
    let maxf := dom_maxf (dom_nd dom_outside pair sizes o) in
    let returned := map project (sm_good (list Z) project outside maxf) in
    (forall ml, (forall x, ml x <> x) -> forall n, (length returned <= n)%nat ->
       sm_run (list Z) project outside maxf sm_init (sm_incr_calls ml n) =
         map (fun s => (Some s, false)) returned ++ repeat (None, true) (n - length returned))
    /\ NoDup returned
    /\ (forall s, In s returned <-> (length s = d /\ s <> repeat 0 d) /\ outside s = false).
  Proof.
    cbn zeta.
    apply (sm_complete (list Z) (zdn_project nproj d 1) (zdn_pair npair 1) (sm_is_outside sizes o dom_outside)
             (dom_maxf (dom_nd dom_outside (zdn_pair npair 1) sizes o)) (fun s => length s = d /\ s <> repeat 0 d)).
    - intros i Hi. destruct (zdn_pair_project npair nproj d Hpj Hzero i ltac:(lia)) as [H1 [H2 H3]]. cbn zeta in *. tauto.
    - intros s [Hl Hs]. apply (zdn_project_pair npair nproj d Hpp Hnn Hzero s Hl Hs).
    - intros s [Hl _] Ho. apply dom_nd_bound; assumption.
  Qed.
End SMCompleteNd.

(* (c) Rosenberg-Strong in every dimension d >= 2 *)
Theorem sm_complete_rs_nd : forall (all_sizes : list Z) (last_size o : Z) (dom_outside : list Z -> bool),
  all_sizes <> [] -> Forall (fun m => 0 < m) all_sizes ->
  let sizes := all_sizes ++ [last_size] in
  let d := length sizes in
  let project := zdn_project rs_projection d 1 in
  let pair := zdn_pair rs_pairing 1 in
  let outside := sm_is_outside sizes o dom_outside in
  let maxf := dom_maxf (dom_nd dom_outside pair sizes o) in
  let returned := map project (sm_good (list Z) project outside maxf) in
  (forall ml, (forall x, ml x <> x) -> forall n, (length returned <= n)%nat ->
     sm_run (list Z) project outside maxf sm_init (sm_incr_calls ml n) =
       map (fun s => (Some s, false)) returned ++ repeat (None, true) (n - length returned))
  /\ NoDup returned
  /\ (forall s, In s returned <-> (length s = d /\ s <> repeat 0 d) /\ outside s = false).
Proof.
  intros all_sizes last_size o dom_outside Hne Hpos. cbn zeta.
  assert (Hd : (1 <= length (all_sizes ++ [last_size]))%nat) by (rewrite app_length; cbn; lia).
  apply sm_complete_nd; try assumption.
  - apply rs_Hpp; assumption.
  - intros z Hz. apply rs_pair_proj_nd; assumption.
  - intros; apply rs_pairing_nonneg; assumption.
  - apply rs_pairing_zeros; assumption.
Qed.

(* (b) nested Szudzik in every dimension d >= 2 (for d = 2: zdn_* is the pair form zd2_*, lemmas zdn_sz_2_project / _pair) *)
Theorem sm_complete_szudzik_nd : forall (all_sizes : list Z) (last_size o : Z) (dom_outside : list Z -> bool),
  all_sizes <> [] -> Forall (fun m => 0 < m) all_sizes ->
  let sizes := all_sizes ++ [last_size] in
  let d := length sizes in
  let project := zdn_project sz_nproj d 1 in
  let pair := zdn_pair sz_npair 1 in
  let outside := sm_is_outside sizes o dom_outside in
  let maxf := dom_maxf (dom_nd dom_outside pair sizes o) in
  let returned := map project (sm_good (list Z) project outside maxf) in
  (forall ml, (forall x, ml x <> x) -> forall n, (length returned <= n)%nat ->
     sm_run (list Z) project outside maxf sm_init (sm_incr_calls ml n) =
       map (fun s => (Some s, false)) returned ++ repeat (None, true) (n - length returned))
  /\ NoDup returned
  /\ (forall s, In s returned <-> (length s = d /\ s <> repeat 0 d) /\ outside s = false).
Proof.
  intros all_sizes last_size o dom_outside Hne Hpos. cbn zeta.
  assert (Hd : (2 <= length (all_sizes ++ [last_size]))%nat)
    by (rewrite app_length; destruct all_sizes; [congruence | cbn; lia]).
  apply sm_complete_nd; try assumption.
  - apply sz_Hpp; assumption.
  - apply sz_Hpj; assumption.
  - apply sz_Hnn; assumption.
  - apply sz_Hzero; assumption.
Qed.

(* ================= (a) 1-d intervals: PairingToZ1d on a grid of n points with origin index o ================= *)
Lemma z1d_pair_ends L R : 0 < L -> 0 < R ->
  Z.max (z1d_pair (- L) R 1 (- L)) (z1d_pair (- L) R 1 R) = L + R - 1.
Proof.
  intros HL HR. unfold z1d_pair, mapping_to_z. cbn zeta. rewrite !Z.opp_involutive.
  rewrite Z.abs_opp, (Z.abs_eq L), (Z.abs_eq R) by lia.
  destruct (L <=? Z.min R L) eqn:E1; [apply Z.leb_le in E1 | apply Z.leb_gt in E1];
  destruct (R <=? Z.min R L) eqn:E2; [apply Z.leb_le in E2 | apply Z.leb_gt in E2 | apply Z.leb_le in E2 | apply Z.leb_gt in E2];
  destruct (L <? R) eqn:E3; [apply Z.ltb_lt in E3 | apply Z.ltb_ge in E3 | apply Z.ltb_lt in E3 | apply Z.ltb_ge in E3
                            | apply Z.ltb_lt in E3 | apply Z.ltb_ge in E3 | apply Z.ltb_lt in E3 | apply Z.ltb_ge in E3];
  destruct (0 <? - L) eqn:E4; try (apply Z.ltb_lt in E4; lia);
  destruct (0 <? R) eqn:E5; try (apply Z.ltb_ge in E5; lia); lia.
Qed.

Theorem sm_complete_z1d : forall (n o : Z) (dom_outside : Z -> bool), 0 < o -> o < n - 1 ->
  let L := o in let R := n - o - 1 in
  let project := z1d_project (- L) R 1 in
  let pair := z1d_pair (- L) R 1 in
  let outside := sm_is_outside_1d n o dom_outside in
  let maxf := dom_maxf (dom_1d pair n o) in
  let returned := map project (sm_good Z project outside maxf) in
  (forall ml, (forall x, ml x <> x) -> forall k, (length returned <= k)%nat ->
     sm_run Z project outside maxf sm_init (sm_incr_calls ml k) =
       map (fun s => (Some s, false)) returned ++ repeat (None, true) (k - length returned))
  /\ NoDup returned
  /\ (forall s, In s returned <-> s <> 0 /\ outside s = false).
Proof.
  intros n o dom_outside Ho Hn. cbn zeta.
  assert (HL : 0 < o) by lia. assert (HR : 0 < n - o - 1) by lia.
  assert (Emax : dom_maxf (dom_1d (z1d_pair (- o) (n - o - 1) 1) n o) = o + (n - o - 1) - 1).
  { unfold dom_maxf, dom_1d. cbn [snd fst fold_left]. replace (n + - o - 1) with (n - o - 1) by ring.
    pose proof (z1d_pair_ends o (n - o - 1) HL HR). lia. }
  rewrite Emax.
  pose proof (sm_complete Z (z1d_project (- o) (n - o - 1) 1) (z1d_pair (- o) (n - o - 1) 1)
                (sm_is_outside_1d n o dom_outside) (o + (n - o - 1) - 1)
                (fun s => s <> 0 /\ - o <= s <= n - o - 1)) as H.
  cbn zeta in H. destruct H as [H1 [H2 H3]].
  - intros i Hi. destruct (z1d_project_spec o (n - o - 1) HL HR i ltac:(lia)) as [A [B C]]. cbn zeta in *. tauto.
  - intros s [Hs Hr]. destruct (z1d_pair_spec o (n - o - 1) HL HR s Hr Hs) as [A B]. cbn zeta in *. split; [lia | exact B].
  - intros s [Hs Hr] _. destruct (z1d_pair_spec o (n - o - 1) HL HR s Hr Hs) as [A B]. cbn zeta in *. lia.
  - split; [exact H1|]. split; [exact H2|]. intros s. rewrite H3. split; [tauto|].
    intros [Hs Hout]. split; [|exact Hout]. split; [exact Hs|].
    unfold sm_is_outside_1d in Hout. apply orb_false_iff in Hout. destruct Hout as [Hg _].
    apply orb_false_iff in Hg. destruct Hg as [Ha Hb]. apply Z.ltb_ge in Ha. apply Z.ltb_ge in Hb. lia.
Qed.

(* non-vacuity: 3 x 4 grid, origin index 1, domain = the box minus the corner (1, 2); Rosenberg-Strong *)
Definition dom_ex_outside (s : list Z) : bool := match s with [a; b] => (a =? 1) && (b =? 2) | _ => false end.
Example dom_nonvacuous :
  dom_nd dom_ex_outside (zdn_pair rs_pairing 1) [3; 4] 1 = (10, [1; 4; 8; 3; 10; 5])
  /\ dom_maxf (dom_nd dom_ex_outside (zdn_pair rs_pairing 1) [3; 4] 1) = 10
  /\ map (zdn_project rs_projection 2 1)
       (sm_good (list Z) (zdn_project rs_projection 2 1) (sm_is_outside [3; 4] 1 dom_ex_outside) 10)
     = [[0; 1]; [1; 1]; [1; 0]; [0; -1]; [1; -1]; [-1; -1]; [-1; 1]; [-1; 0]; [0; 2]; [-1; 2]].
Proof. vm_compute. repeat split. Qed.

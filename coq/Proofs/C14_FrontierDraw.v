(* C14 (wave 5): the frontier draw of StatesManager on exhaustion.
   (1) exact characterisation of the deque Domain.compute_total_number_of_states_and_frontier returns (dom_nd):
       every entry is the pairing index of the FIRST or LAST in-domain state of a line of the grid box (last axis
       varying) or -- when the whole line is outside the domain -- of the state of that line on the last axis' origin;
   (2) hence the state a draw returns (any random position c): admissible (in the grid, in the domain, not the origin)
       and a frontier state, PROVIDED every line meets the domain and the origin has in-domain states on both sides of
       its line -- true for the factory's Boundary() on a grid with an interior origin; refuted otherwise (F-C14-8);
   (3) the draw does not touch the machine state: under InversionMethod's protocol every call returns the x-th
       admissible state or, once exhausted, (frontier state, True), whatever draws happened before. *)
From Coq Require Import ZArith List Bool Lia.
From RV Require Import Gen.GenPairing Model.Pairing Model.Domain Model.StatesManager Model.FrontierDraw
  Proofs.C14_Lazy Proofs.C14_Pairing2d Proofs.C14_Z1d Proofs.C14_Zd Proofs.C14_RSnd Proofs.C14_Zdn
  Proofs.C14_StatesManager Proofs.C14_Domain.
Import ListNotations.
Open Scope Z_scope.

(* ---------------- ranges a, a+1, ..., a+len-1 and the first / last element passing a filter ---------------- *)
Fixpoint zr (a : Z) (len : nat) : list Z := match len with O => [] | S k => a :: zr (a + 1) k end.

Lemma zr_map : forall len a, zr a len = map (fun k => a + Z.of_nat k) (seq 0 len).
Proof.
  induction len as [|k IH]; intros a; [reflexivity|].
  cbn [zr seq map]. rewrite <- seq_shift, map_map, IH. f_equal; [lia|]. apply map_ext; intros; lia.
Qed.
Lemma zrange_zr n : zrange n = zr 0 (Z.to_nat n).
Proof. unfold zrange. rewrite zr_map. apply map_ext. intros; lia. Qed.
Lemma in_zr y : forall len a, In y (zr a len) <-> a <= y < a + Z.of_nat len.
Proof. induction len as [|k IH]; intros a; cbn [zr In]; [lia|]. rewrite IH. lia. Qed.

Lemma last_cons_def {A} : forall (r : list A) x d, last (x :: r) d = last r x.
Proof. induction r as [|y r IH]; intros x d; [reflexivity|]. change (last (x :: y :: r) d) with (last (y :: r) d). rewrite !IH. reflexivity. Qed.
Lemma last_map {A B} (g : A -> B) : forall l d, last (map g l) (g d) = g (last l d).
Proof. induction l as [|x l IH]; intros d; [reflexivity|]. cbn [map]. rewrite !last_cons_def. apply IH. Qed.
Lemma filter_map_comm {A B} (p : B -> bool) (g : A -> B) : forall l, filter p (map g l) = map g (filter (fun x => p (g x)) l).
Proof. induction l as [|x l IH]; [reflexivity|]. cbn [map filter]. destruct (p (g x)); cbn [map]; rewrite IH; reflexivity. Qed.

Section FilterRange.
  Variable p : Z -> bool.
  Lemma filter_zr_nil len a : filter p (zr a len) = [] -> forall y, a <= y < a + Z.of_nat len -> p y = false.
  Proof.
    intros H y Hy. destruct (p y) eqn:E; [|reflexivity].
    assert (Hin : In y (filter p (zr a len))) by (apply filter_In; split; [apply in_zr; exact Hy | exact E]).
    rewrite H in Hin. destruct Hin.
  Qed.
  Lemma filter_zr_head : forall len a x r, filter p (zr a len) = x :: r ->
    a <= x < a + Z.of_nat len /\ p x = true /\ (forall y, a <= y < x -> p y = false).
  Proof.
    induction len as [|k IH]; intros a x r H; [discriminate|].
    cbn [zr filter] in H. destruct (p a) eqn:E.
    - injection H as <- _. repeat split; try lia. exact E.
    - destruct (IH (a + 1) x r H) as [H1 [H2 H3]]. repeat split; try lia; [exact H2|].
      intros y Hy. destruct (Z.eq_dec y a) as [->|]; [exact E | apply H3; lia].
  Qed.
  Lemma filter_zr_last : forall len a x r, filter p (zr a len) = x :: r ->
    a <= last r x < a + Z.of_nat len /\ p (last r x) = true /\ (forall y, last r x < y < a + Z.of_nat len -> p y = false).
  Proof.
    induction len as [|k IH]; intros a x r H; [discriminate|].
    cbn [zr filter] in H. destruct (p a) eqn:E.
    - injection H as <- Hr. destruct r as [|x' r'].
      + cbn [last]. repeat split; try lia; [exact E|]. intros y Hy.
        apply (filter_zr_nil k (a + 1)); [exact Hr | lia].
      + destruct (IH (a + 1) x' r' Hr) as [H1 [H2 H3]]. rewrite last_cons_def.
        repeat split; try lia; [exact H2|]. intros y Hy. apply H3. lia.
    - destruct (IH (a + 1) x r H) as [H1 [H2 H3]]. repeat split; try lia; [exact H2|]. intros y Hy. apply H3. lia.
  Qed.
End FilterRange.

Lemma nth_map_zrange {B} (g : Z -> B) n o d : 0 <= o < n -> nth (Z.to_nat o) (map g (zrange n)) d = g o.
Proof.
  intros Ho. unfold zrange. rewrite map_map.
  rewrite (nth_indep _ d (g (Z.of_nat 0))) by (rewrite map_length, seq_length; lia).
  rewrite (map_nth (fun k => g (Z.of_nat k))), seq_nth by lia. f_equal. lia.
Qed.

(* ---------------- (1) the frontier deque, entry by entry ---------------- *)
Section Frontier.
  Variable outside : list Z -> bool.
  Variable pair : list Z -> Z.
  Variables (o last_size : Z).
  Variable Q : list Z -> Prop.          (* what is known of the lines the loop visits (in the box of the first axes) *)
  Notation step := (dom_step outside pair o last_size).

  Inductive fr_entry (f : Z) : Prop :=
  | fr_first ks j : Q ks -> 0 <= j < last_size -> f = pair (line_state o ks j) -> outside (line_state o ks j) = false ->
      (forall j', 0 <= j' < j -> outside (line_state o ks j') = true) -> fr_entry f
  | fr_last ks j : Q ks -> 0 <= j < last_size -> f = pair (line_state o ks j) -> outside (line_state o ks j) = false ->
      (forall j', j < j' < last_size -> outside (line_state o ks j') = true) -> fr_entry f
  | fr_axis ks : Q ks -> (forall j, 0 <= j < last_size -> outside (line_state o ks j) = true) ->
      f = nth (Z.to_nat o) (map (fun j => pair (line_state o ks j)) (zrange last_size)) (-1) -> fr_entry f.

  Definition ln_ok (ks : list Z) (j : Z) : bool := negb (outside (line_state o ks j)).

  Lemma dom_line_good ks :
    map fst (filter (fun p => negb (snd p)) (dom_line outside pair o last_size (map (fun ki => ki - o) ks)))
    = map (fun j => pair (line_state o ks j)) (filter (ln_ok ks) (zr 0 (Z.to_nat last_size))).
  Proof.
    unfold dom_line. rewrite zrange_zr, filter_map_comm, map_map. cbn [fst snd]. reflexivity.
  Qed.

  Lemma dom_step_entries acc ks : Q ks -> (forall f, In f (snd acc) -> fr_entry f) ->
    forall f, In f (snd (step acc ks)) -> fr_entry f.
  Proof.
    intros HQ Hacc f. unfold dom_step. cbn zeta. rewrite dom_line_good.
    destruct (filter (ln_ok ks) (zr 0 (Z.to_nat last_size))) as [|j0 rj] eqn:E; cbn [map snd].
    - intros [<-|Hin]; [|apply Hacc; exact Hin].
      apply (fr_axis _ ks HQ).
      + intros j Hj. pose proof (filter_zr_nil _ _ _ E j ltac:(lia)) as H. unfold ln_ok in H.
        apply negb_false_iff in H. exact H.
      + unfold dom_line. rewrite map_map. cbn [fst]. reflexivity.
    - pose proof (filter_zr_head _ _ _ _ _ E) as [H1 [H2 H3]].
      pose proof (filter_zr_last _ _ _ _ _ E) as [L1 [L2 L3]].
      unfold ln_ok in H2, H3, L2, L3. apply negb_true_iff in H2. apply negb_true_iff in L2.
      rewrite (last_map (fun j => pair (line_state o ks j))).
      intros [<-|[<-|Hin]]; [| |apply Hacc; exact Hin].
      + apply (fr_last _ ks (last rj j0) HQ); [lia | reflexivity | exact L2 |].
        intros j' Hj'. specialize (L3 j' ltac:(lia)). apply negb_false_iff in L3. exact L3.
      + apply (fr_first _ ks j0 HQ); [lia | reflexivity | exact H2 |].
        intros j' Hj'. specialize (H3 j' ltac:(lia)). apply negb_false_iff in H3. exact H3.
  Qed.

  Lemma dom_fold_entries : forall l acc, (forall ks, In ks l -> Q ks) -> (forall f, In f (snd acc) -> fr_entry f) ->
    forall f, In f (snd (fold_left step l acc)) -> fr_entry f.
  Proof.
    induction l as [|ks l IH]; intros acc HQ Hacc f; cbn [fold_left]; [apply Hacc|].
    apply IH; [intros k Hk; apply HQ; right; exact Hk|].
    apply dom_step_entries; [apply HQ; left; reflexivity | exact Hacc].
  Qed.

  Lemma dom_step_grows acc ks : (length (snd acc) < length (snd (step acc ks)))%nat.
  Proof.
    unfold dom_step. cbn zeta.
    destruct (map fst (filter (fun p => negb (snd p)) (dom_line outside pair o last_size (map (fun ki => ki - o) ks))));
      cbn [snd length]; lia.
  Qed.
  Lemma dom_fold_grows : forall l acc, (length (snd acc) + length l <= length (snd (fold_left step l acc)))%nat.
  Proof.
    induction l as [|ks l IH]; intros acc; cbn [fold_left length]; [lia|].
    pose proof (dom_step_grows acc ks). specialize (IH (step acc ks)). lia.
  Qed.
End Frontier.

Lemma in_box_length : forall ms t, in_box ms t -> length t = length ms.
Proof. induction ms as [|m ms IH]; intros [|x t] H; cbn in H; try tauto. cbn [length]. f_equal. apply IH. tauto. Qed.

Theorem dom_nd_frontier_entries outside pair all_sizes last_size o :
  all_sizes <> [] -> Forall (fun m => 0 < m) all_sizes ->
  forall f, In f (snd (dom_nd outside pair (all_sizes ++ [last_size]) o)) ->
  fr_entry outside pair o last_size (in_box all_sizes) f.
Proof.
  intros Hne Hpos f. unfold dom_nd. rewrite removelast_last, last_last.
  apply dom_fold_entries; [|intros g []].
  intros ks Hks. apply lazy_product_complete in Hks; assumption.
Qed.

(* one entry per line at least: the deque is never empty (np.random.choice never raises) *)
Theorem dom_nd_frontier_length outside pair all_sizes last_size o :
  all_sizes <> [] -> Forall (fun m => 0 < m) all_sizes ->
  prodl all_sizes <= Z.of_nat (length (snd (dom_nd outside pair (all_sizes ++ [last_size]) o))).
Proof.
  intros Hne Hpos. unfold dom_nd. rewrite removelast_last, last_last.
  pose proof (dom_fold_grows outside pair o last_size (lazy_product all_sizes) (-1, [])) as H.
  pose proof (lazy_product_length all_sizes Hne Hpos). cbn [snd length] in H. lia.
Qed.

(* a point of a line is in the grid *)
Lemma grid_outside_line o last_size j : 0 <= j < last_size -> forall all_sizes ks, in_box all_sizes ks ->
  grid_outside (all_sizes ++ [last_size]) o (line_state o ks j) = false.
Proof.
  intros Hj. unfold grid_outside, line_state.
  induction all_sizes as [|m ms IH]; intros [|k ks] H; cbn in H; try tauto.
  - cbn. destruct (o + (j - o) <? 0) eqn:E1; [apply Z.ltb_lt in E1; lia|].
    destruct (last_size - 1 <? o + (j - o)) eqn:E2; [apply Z.ltb_lt in E2; lia|]. reflexivity.
  - destruct H as [Hk Hr]. cbn [map app combine existsb fst snd].
    destruct (o + (k - o) <? 0) eqn:E1; [apply Z.ltb_lt in E1; lia|].
    destruct (m - 1 <? o + (k - o)) eqn:E2; [apply Z.ltb_lt in E2; lia|]. cbn [orb]. apply IH. exact Hr.
Qed.

Lemma repeat_snoc {A} (a : A) n : repeat a (S n) = repeat a n ++ [a].
Proof. induction n as [|n IH]; [reflexivity|]. cbn [repeat app] in *. f_equal. exact IH. Qed.

Lemma map_repeat' {A B} (f : A -> B) a n : map f (repeat a n) = repeat (f a) n.
Proof. induction n; cbn; congruence. Qed.

(* ---------------- (2) what a draw returns, PairingToZd over any bijection N^d <-> N ---------------- *)
Section FrontierAdmissible.
  Variable npair : list Z -> Z.
  Variable nproj : nat -> Z -> list Z.
  Variables (all_sizes : list Z) (last_size o : Z).
  Variable dom_outside : list Z -> bool.
  Notation sizes := (all_sizes ++ [last_size]).
  Notation d := (length (all_sizes ++ [last_size])).
  Hypothesis Hne : all_sizes <> [].
  Hypothesis Hpos : Forall (fun m => 0 < m) all_sizes.
  Hypothesis Hpp : forall xs, length xs = d -> nonneg_list xs -> nproj d (npair xs) = xs.
  Hypothesis Hnn : forall xs, length xs = d -> nonneg_list xs -> 0 <= npair xs.
  Hypothesis Hzero : npair (repeat 0 d) = 0.
  Notation project := (zdn_project nproj d 1).
  Notation pair := (zdn_pair npair 1).
  Notation frontier := (snd (dom_nd dom_outside pair sizes o)).

  (* project inverts pair on EVERY state increment of length d, the origin (index -1) included *)
  Lemma project_pair_all s : length s = d -> project (pair s) = s.
  Proof.
    intros Hl. destruct (list_eq_dec Z.eq_dec s (repeat 0 d)) as [->|Hs].
    - unfold zdn_pair, zdn_project. rewrite map_repeat'. change (mapping_to_z 0) with 0. rewrite Hzero.
      change (0 - 1 + 1) with 0. rewrite <- Hzero at 1.
      rewrite Hpp; [rewrite map_repeat'; reflexivity | apply repeat_length |].
      clear. induction d; cbn; constructor; [lia | assumption].
    - apply (zdn_project_pair npair nproj d Hpp Hnn Hzero s Hl Hs).
  Qed.

  Lemma line_state_length ks j : in_box all_sizes ks -> length (line_state o ks j) = d.
  Proof. intros H. unfold line_state. rewrite !app_length, map_length, (in_box_length _ _ H). reflexivity. Qed.

  (* the state returned by a draw at position c: exactly what the code's loop put in the deque *)
  Theorem frontier_draw_char : 0 <= o < last_size -> forall c, (c < length frontier)%nat ->
    let s := fd_state (list Z) project frontier c in
    exists ks j, in_box all_sizes ks /\ 0 <= j < last_size /\ s = line_state o ks j /\
      ((dom_outside s = false /\
        ((forall j', 0 <= j' < j -> dom_outside (line_state o ks j') = true) \/
         (forall j', j < j' < last_size -> dom_outside (line_state o ks j') = true)))
       \/ (j = o /\ forall j', 0 <= j' < last_size -> dom_outside (line_state o ks j') = true)).
  Proof.
    intros Ho c Hc. cbn zeta. unfold fd_state.
    pose proof (dom_nd_frontier_entries dom_outside pair all_sizes last_size o Hne Hpos _ (nth_In _ (-1) Hc)) as He.
    destruct He as [ks j HQ Hj -> Hout Hb | ks j HQ Hj -> Hout Hb | ks HQ Hall ->].
    - exists ks, j. rewrite (project_pair_all _ (line_state_length ks j HQ)). repeat split; try assumption; try lia.
      left. split; [exact Hout | left; exact Hb].
    - exists ks, j. rewrite (project_pair_all _ (line_state_length ks j HQ)). repeat split; try assumption; try lia.
      left. split; [exact Hout | right; exact Hb].
    - exists ks, o. rewrite (nth_map_zrange (fun j => pair (line_state o ks j))) by exact Ho.
      rewrite (project_pair_all _ (line_state_length ks o HQ)). repeat split; try assumption; try lia.
      right. split; [reflexivity | exact Hall].
  Qed.

  (* admissible frontier state: every line meets the domain, the origin is interior to the in-domain part of its line *)
  Theorem frontier_draw_admissible : 0 <= o < last_size ->
    (forall ks, in_box all_sizes ks -> exists j, 0 <= j < last_size /\ dom_outside (line_state o ks j) = false) ->
    (exists j, 0 <= j < o /\ dom_outside (repeat 0 (length all_sizes) ++ [j - o]) = false) ->
    (exists j, o < j < last_size /\ dom_outside (repeat 0 (length all_sizes) ++ [j - o]) = false) ->
    forall c, (c < length frontier)%nat ->
    let s := fd_state (list Z) project frontier c in
    length s = d /\ s <> repeat 0 d /\ sm_is_outside sizes o dom_outside s = false /\
    exists ks j, in_box all_sizes ks /\ 0 <= j < last_size /\ s = line_state o ks j /\
      ((forall j', 0 <= j' < j -> dom_outside (line_state o ks j') = true) \/
       (forall j', j < j' < last_size -> dom_outside (line_state o ks j') = true)).
  Proof.
    intros Ho Hline [jl [Hjl Hl]] [jr [Hjr Hr]] c Hc. cbn zeta.
    destruct (frontier_draw_char Ho c Hc) as [ks [j [HQ [Hj [Es Hcase]]]]]. cbn zeta in Es.
    destruct Hcase as [[Hout Hends] | [_ Hall]].
    2:{ destruct (Hline ks HQ) as [j1 [Hj1 H1]]. rewrite (Hall j1 Hj1) in H1. discriminate. }
    rewrite Es in *. split; [apply line_state_length; exact HQ|]. split.
    - intros E0. rewrite app_length in E0. cbn [length] in E0. rewrite Nat.add_1_r, repeat_snoc in E0.
      unfold line_state in E0. apply app_inj_tail in E0. destruct E0 as [Eks Ej]. assert (j = o) by lia. subst j.
      destruct Hends as [Hb | Hb].
      + specialize (Hb jl ltac:(lia)). unfold line_state in Hb. rewrite Eks, Hl in Hb. discriminate.
      + specialize (Hb jr ltac:(lia)). unfold line_state in Hb. rewrite Eks, Hr in Hb. discriminate.
    - split.
      + unfold sm_is_outside. rewrite (grid_outside_line o last_size j Hj all_sizes ks HQ), Hout. reflexivity.
      + exists ks, j. repeat split; try assumption; try lia.
  Qed.
End FrontierAdmissible.

(* ---------------- instances: Rosenberg-Strong and nested Szudzik in every dimension d >= 2 ---------------- *)
Definition draw_admissible (sizes : list Z) (o : Z) (dom_outside : list Z -> bool) (s : list Z) : Prop :=
  length s = length sizes /\ s <> repeat 0 (length sizes) /\ sm_is_outside sizes o dom_outside s = false.
(* first or last in-domain state of its line (the code's notion of a frontier state: last axis only) *)
Definition draw_on_frontier (all_sizes : list Z) (last_size o : Z) (dom_outside : list Z -> bool) (s : list Z) : Prop :=
  exists ks j, in_box all_sizes ks /\ 0 <= j < last_size /\ s = line_state o ks j /\
    ((forall j', 0 <= j' < j -> dom_outside (line_state o ks j') = true) \/
     (forall j', j < j' < last_size -> dom_outside (line_state o ks j') = true)).
Definition lines_meet_domain (all_sizes : list Z) (last_size o : Z) (dom_outside : list Z -> bool) : Prop :=
  forall ks, in_box all_sizes ks -> exists j, 0 <= j < last_size /\ dom_outside (line_state o ks j) = false.
Definition origin_interior (all_sizes : list Z) (last_size o : Z) (dom_outside : list Z -> bool) : Prop :=
  (exists j, 0 <= j < o /\ dom_outside (repeat 0 (length all_sizes) ++ [j - o]) = false) /\
  (exists j, o < j < last_size /\ dom_outside (repeat 0 (length all_sizes) ++ [j - o]) = false).

Theorem frontier_draw_rs_nd : forall (all_sizes : list Z) (last_size o : Z) (dom_outside : list Z -> bool),
  all_sizes <> [] -> Forall (fun m => 0 < m) all_sizes -> 0 <= o < last_size ->
  lines_meet_domain all_sizes last_size o dom_outside -> origin_interior all_sizes last_size o dom_outside ->
  let sizes := all_sizes ++ [last_size] in
  let project := zdn_project rs_projection (length sizes) 1 in
  let frontier := snd (dom_nd dom_outside (zdn_pair rs_pairing 1) sizes o) in
  frontier <> [] /\
  forall c, (c < length frontier)%nat ->
    draw_admissible sizes o dom_outside (fd_state (list Z) project frontier c) /\
    draw_on_frontier all_sizes last_size o dom_outside (fd_state (list Z) project frontier c).
Proof.
  intros all_sizes last_size o dom_outside Hne Hpos Ho Hline [Hl Hr]. cbn zeta.
  assert (Hd : (1 <= length (all_sizes ++ [last_size]))%nat) by (rewrite app_length; cbn; lia).
  split.
  - pose proof (dom_nd_frontier_length dom_outside (zdn_pair rs_pairing 1) all_sizes last_size o Hne Hpos) as H.
    pose proof (prodl_pos all_sizes Hpos). intros E. rewrite E in H. cbn in H. lia.
  - intros c Hc.
    assert (H : forall xs, length xs = length (all_sizes ++ [last_size]) -> nonneg_list xs -> 0 <= rs_pairing xs)
      by (intros; apply rs_pairing_nonneg; assumption).
    destruct (frontier_draw_admissible rs_pairing rs_projection all_sizes last_size o dom_outside Hne Hpos
                (rs_Hpp _ Hd) H (rs_pairing_zeros _ Hd) Ho Hline Hl Hr c Hc) as [A [B [C D]]].
    split; [repeat split; assumption | exact D].
Qed.

Theorem frontier_draw_szudzik_nd : forall (all_sizes : list Z) (last_size o : Z) (dom_outside : list Z -> bool),
  all_sizes <> [] -> Forall (fun m => 0 < m) all_sizes -> 0 <= o < last_size ->
  lines_meet_domain all_sizes last_size o dom_outside -> origin_interior all_sizes last_size o dom_outside ->
  let sizes := all_sizes ++ [last_size] in
  let project := zdn_project sz_nproj (length sizes) 1 in
  let frontier := snd (dom_nd dom_outside (zdn_pair sz_npair 1) sizes o) in
  frontier <> [] /\
  forall c, (c < length frontier)%nat ->
    draw_admissible sizes o dom_outside (fd_state (list Z) project frontier c) /\
    draw_on_frontier all_sizes last_size o dom_outside (fd_state (list Z) project frontier c).
Proof.
  intros all_sizes last_size o dom_outside Hne Hpos Ho Hline [Hl Hr]. cbn zeta.
  assert (Hd : (2 <= length (all_sizes ++ [last_size]))%nat)
    by (rewrite app_length; destruct all_sizes; [congruence | cbn; lia]).
  split.
  - pose proof (dom_nd_frontier_length dom_outside (zdn_pair sz_npair 1) all_sizes last_size o Hne Hpos) as H.
    pose proof (prodl_pos all_sizes Hpos). intros E. rewrite E in H. cbn in H. lia.
  - intros c Hc.
    destruct (frontier_draw_admissible sz_npair sz_nproj all_sizes last_size o dom_outside Hne Hpos
                (sz_Hpp _ Hd) (sz_Hnn _ Hd) (sz_Hzero _ Hd) Ho Hline Hl Hr c Hc) as [A [B [C D]]].
    split; [repeat split; assumption | exact D].
Qed.

(* the factory: Boundary() (nothing is outside the domain) on a grid whose origin is not on the edge of the last axis *)
Lemma factory_lines all_sizes last_size o : 0 < o < last_size - 1 ->
  lines_meet_domain all_sizes last_size o (fun _ => false) /\ origin_interior all_sizes last_size o (fun _ => false).
Proof.
  intros Ho. split; [intros ks _; exists o; split; [lia | reflexivity]|].
  split; [exists (o - 1) | exists (o + 1)]; (split; [lia | reflexivity]).
Qed.

Theorem frontier_draw_factory : forall (all_sizes : list Z) (last_size o : Z),
  all_sizes <> [] -> Forall (fun m => 0 < m) all_sizes -> 0 < o < last_size - 1 ->
  let sizes := all_sizes ++ [last_size] in
  let nobound := fun _ : list Z => false in
  let fr_sz := snd (dom_nd nobound (zdn_pair sz_npair 1) sizes o) in
  let fr_rs := snd (dom_nd nobound (zdn_pair rs_pairing 1) sizes o) in
  (fr_sz <> [] /\ forall c, (c < length fr_sz)%nat ->
     draw_admissible sizes o nobound (fd_state (list Z) (zdn_project sz_nproj (length sizes) 1) fr_sz c) /\
     draw_on_frontier all_sizes last_size o nobound (fd_state (list Z) (zdn_project sz_nproj (length sizes) 1) fr_sz c))
  /\ (fr_rs <> [] /\ forall c, (c < length fr_rs)%nat ->
     draw_admissible sizes o nobound (fd_state (list Z) (zdn_project rs_projection (length sizes) 1) fr_rs c) /\
     draw_on_frontier all_sizes last_size o nobound (fd_state (list Z) (zdn_project rs_projection (length sizes) 1) fr_rs c)).
Proof.
  intros all_sizes last_size o Hne Hpos Ho. cbn zeta.
  destruct (factory_lines all_sizes last_size o Ho) as [H1 H2].
  split; [apply frontier_draw_szudzik_nd | apply frontier_draw_rs_nd]; try assumption; lia.
Qed.

(* ---------------- 1-d: the deque is [pair R; pair (-L)] whatever the domain ---------------- *)
Theorem frontier_draw_z1d : forall (n o : Z), 0 < o -> o < n - 1 ->
  let L := o in let R := n - o - 1 in
  let frontier := snd (dom_1d (z1d_pair (- L) R 1) n o) in
  length frontier = 2%nat /\
  fd_state Z (z1d_project (- L) R 1) frontier 0 = R /\ fd_state Z (z1d_project (- L) R 1) frontier 1 = - L.
Proof.
  intros n o Ho Hn. cbn zeta. unfold dom_1d, fd_state. cbn [snd length nth].
  replace (n + - o - 1) with (n - o - 1) by ring.
  assert (HL : 0 < o) by lia. assert (HR : 0 < n - o - 1) by lia.
  destruct (z1d_pair_spec o (n - o - 1) HL HR (n - o - 1) ltac:(lia) ltac:(lia)) as [_ A].
  destruct (z1d_pair_spec o (n - o - 1) HL HR (- o) ltac:(lia) ltac:(lia)) as [_ B].
  cbn zeta in A, B. repeat split; assumption.
Qed.

(* ---------------- (3) the draw leaves the machine state alone: the protocol theorem with draws ---------------- *)
Section FDProtocol.
  Variable State : Type.
  Variable project : Z -> State.
  Variable outside : State -> bool.
  Variable maxf : Z.
  Variable frontier : list Z.
  Notation good := (sm_good State project outside maxf).
  Definition fd_lift (o : option Z) (c : nat) : State * bool :=
    match o with Some i => (project i, false) | None => (fd_state State project frontier c, true) end.

  Lemma fd_run_lift : forall calls st,
    fd_run State project outside maxf frontier st calls =
      map (fun oc => fd_lift (fst oc) (snd oc))
          (combine (sm_run_index State project outside maxf st (map fst calls)) (map snd calls)).
  Proof.
    induction calls as [|c r IH]; intros st; [reflexivity|].
    cbn [fd_run map sm_run_index combine]. unfold fd_step at 1. cbn [fst snd]. rewrite IH. reflexivity.
  Qed.
  Theorem fd_protocol_spec : forall M calls, 1 <= M ->
    sm_protocol M (Z.of_nat (length good)) (-1) (map fst calls) ->
    fd_run State project outside maxf frontier sm_init calls =
      map (fun c => fd_lift (nth_error good (Z.to_nat (fst (fst c)))) (snd c)) calls.
  Proof.
    intros M calls HM Hp. rewrite fd_run_lift, (sm_protocol_spec State project outside maxf M _ HM Hp).
    clear Hp. induction calls as [|c r IH]; [reflexivity|]. cbn [map combine fst snd]. f_equal. exact IH.
  Qed.
End FDProtocol.

(* ---------------- the finding (F-C14-8): with a boundary the draw returns the origin / a state outside the domain ---- *)
(* 5 x 5 grid, origin index 2, RectangleBoundary([(-2,2),(-0.5,0.5)]): outside iff |s_2| > 0.5 *)
Definition fd_ex_rect (s : list Z) : bool := match s with [a; b] => 0 <? Z.abs b | _ => false end.
(* SimplexBoundary([(-1,1),(-1,1)]) on the same grid: outside iff |s_1| + |s_2| > 1 *)
Definition fd_ex_simplex (s : list Z) : bool := match s with [a; b] => 1 <? Z.abs a + Z.abs b | _ => false end.

Theorem frontier_draw_origin_refuted : exists (all_sizes : list Z) (last_size o : Z) (dom_outside : list Z -> bool) (c : nat),
  let sizes := all_sizes ++ [last_size] in
  let frontier := snd (dom_nd dom_outside (zdn_pair sz_npair 1) sizes o) in
  (c < length frontier)%nat /\ dom_outside (repeat 0 (length sizes)) = false /\
  fd_state (list Z) (zdn_project sz_nproj (length sizes) 1) frontier c = repeat 0 (length sizes).
Proof. exists [5], 5, 2, fd_ex_rect, 4%nat. cbn zeta. split; [vm_compute; lia | split; vm_compute; reflexivity]. Qed.

Theorem frontier_draw_outside_refuted : exists (all_sizes : list Z) (last_size o : Z) (dom_outside : list Z -> bool) (c : nat),
  let sizes := all_sizes ++ [last_size] in
  let frontier := snd (dom_nd dom_outside (zdn_pair sz_npair 1) sizes o) in
  (c < length frontier)%nat /\ dom_outside (repeat 0 (length sizes)) = false /\
  sm_is_outside sizes o dom_outside (fd_state (list Z) (zdn_project sz_nproj (length sizes) 1) frontier c) = true.
Proof. exists [5], 5, 2, fd_ex_simplex, 0%nat. cbn zeta. split; [vm_compute; lia | split; vm_compute; reflexivity]. Qed.

(* non-vacuity: 5 x 5 grid, origin index 2, Boundary(): 10 frontier states, all admissible; and a protocol run with draws *)
Example frontier_draw_nonvacuous :
  let fr := snd (dom_nd (fun _ => false) (zdn_pair sz_npair 1) [5; 5] 2) in
  fr = [14; 18; 9; 16; 8; 15; 10; 17; 22; 23]
  /\ map (fd_state (list Z) (zdn_project sz_nproj 2 1) fr) (seq 0 10)
     = [[2; 2]; [2; -2]; [1; 2]; [1; -2]; [0; 2]; [0; -2]; [-1; 2]; [-1; -2]; [-2; 2]; [-2; -2]]
  /\ snd (dom_nd fd_ex_rect (zdn_pair sz_npair 1) [5; 5] 2) = [11; 11; 1; 1; -1; -1; 5; 5; 19; 19]
  /\ fd_run (list Z) (zdn_project sz_nproj 2 1) (sm_is_outside [3; 3] 1 (fun _ => false)) 7
       (snd (dom_nd (fun _ => false) (zdn_pair sz_npair 1) [3; 3] 1)) sm_init
       [((0, -1), 0%nat); ((1, 3), 0%nat); ((2, 3), 0%nat); ((3, 3), 0%nat); ((4, 3), 0%nat); ((5, 3), 0%nat); ((6, 3), 0%nat);
        ((7, 3), 0%nat); ((8, 3), 5%nat); ((3, 3), 1%nat); ((4, 3), 1%nat)]
     = [([0; 1], false); ([1; 0], false); ([1; 1], false); ([0; -1], false); ([1; -1], false); ([-1; 0], false);
        ([-1; 1], false); ([-1; -1], false); ([-1; -1], true); ([0; -1], false); ([1; -1], false)].
Proof. vm_compute. repeat split. Qed.

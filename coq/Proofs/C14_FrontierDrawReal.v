(* C14 (wave 7, audit4 B8 / A2): the frontier draw over the REAL deque.
   - C14_fd_protocol had a free `frontier` (an empty or unrelated deque was an instance, and on an empty deque it "returned"
     project (-1) where np.random.choice raises).  Here the protocol statement is instantiated with frontier = snd (dom_nd ..) /
     snd (dom_1d ..), maxf = dom_maxf (..) and outside = StatesManager.is_outside of the same box; the deque is proved non-empty and
     every scripted position is required to be a position of the deque, so no default of nth is ever read (fd_state_any_default:
     C02's copy of the draw, Model/InversionFrontier.v frontier_state, reads nth c fr 0 where C14 reads nth c fr (-1); the two
     agree on every position of the deque).  That the draw leaves the machine state alone is the DEFINITION of fd_step (the code:
     fd_lasts correspondence); what these theorems add is what comes back on an exhausted call.
   - boolean forms of the hypotheses of the admissibility theorems reflect the Prop forms, so the model evaluates them per object. *)
From Coq Require Import ZArith List Bool Lia.
From RV Require Import Gen.GenPairing Model.Pairing Model.Domain Model.StatesManager Model.FrontierDraw Model.FrontierDrawCheck
  Proofs.C14_Lazy Proofs.C14_Pairing2d Proofs.C14_Z1d Proofs.C14_Zd Proofs.C14_RSnd Proofs.C14_Zdn
  Proofs.C14_StatesManager Proofs.C14_Domain Proofs.C14_FrontierDraw.
Import ListNotations.
Open Scope Z_scope.

Lemma fd_state_any_default (State : Type) (project : Z -> State) frontier c dflt : (c < length frontier)%nat ->
  fd_state State project frontier c = project (nth c frontier dflt).
Proof. intros H. unfold fd_state. f_equal. apply nth_indep. exact H. Qed.

(* ---------------- reflection of the hypotheses ---------------- *)
Lemma line_meets_b_spec last_size o dout ks :
  line_meets_b last_size o dout ks = true <-> exists j, 0 <= j < last_size /\ dout (line_state o ks j) = false.
Proof.
  unfold line_meets_b. rewrite existsb_exists. split.
  - intros [j [Hin H]]. apply in_zrange in Hin. apply negb_true_iff in H. exists j. split; assumption.
  - intros [j [Hj H]]. exists j. split; [apply in_zrange; exact Hj | rewrite H; reflexivity].
Qed.
Lemma lines_meet_b_spec all_sizes last_size o dout : all_sizes <> [] -> Forall (fun m => 0 < m) all_sizes ->
  (lines_meet_b all_sizes last_size o dout = true <-> lines_meet_domain all_sizes last_size o dout).
Proof.
  intros Hne Hpos. unfold lines_meet_b, lines_meet_domain. rewrite forallb_forall. split.
  - intros H ks Hks. apply line_meets_b_spec. apply H. apply lazy_product_complete; assumption.
  - intros H ks Hks. apply line_meets_b_spec. apply H. apply lazy_product_complete in Hks; assumption.
Qed.
Lemma origin_interior_b_spec all_sizes last_size o dout : 0 <= o ->
  (origin_interior_b all_sizes last_size o dout = true <-> origin_interior all_sizes last_size o dout).
Proof.
  intros Ho. unfold origin_interior_b, origin_interior. rewrite andb_true_iff, !existsb_exists. split.
  - intros [[j [Hin H]] [j' [Hin' H']]]. apply in_zrange in Hin, Hin'.
    apply andb_true_iff in H, H'. destruct H as [A B], H' as [A' B'].
    apply Z.ltb_lt in A, A'. apply negb_true_iff in B, B'.
    split; [exists j | exists j']; (split; [lia | assumption]).
  - intros [[j [Hj H]] [j' [Hj' H']]].
    split; [exists j | exists j']; (split; [apply in_zrange; lia|]); apply andb_true_iff; (split; [apply Z.ltb_lt; lia|]).
    + rewrite H; reflexivity.
    + rewrite H'; reflexivity.
Qed.

Lemma fd_hyp_nd_spec all_sizes last_size o dout : all_sizes <> [] -> Forall (fun m => 0 < m) all_sizes ->
  fd_hyp_nd (all_sizes ++ [last_size]) o dout = true ->
  0 <= o < last_size /\ lines_meet_domain all_sizes last_size o dout /\ origin_interior all_sizes last_size o dout.
Proof.
  intros Hne Hpos. unfold fd_hyp_nd. rewrite removelast_last, last_last. rewrite !andb_true_iff.
  intros [[[A B] C] D]. apply Z.leb_le in A. apply Z.ltb_lt in B.
  split; [lia|]. split; [apply lines_meet_b_spec; assumption | apply origin_interior_b_spec; [exact A | exact D]].
Qed.

Lemma draw_admissible_class sizes o dout s : draw_admissible sizes o dout s -> draw_class sizes o dout s = 0.
Proof.
  intros [Hl [Hn Hout]]. unfold draw_class. unfold sm_is_outside in Hout. apply orb_false_iff in Hout. destruct Hout as [Hg Hd].
  rewrite Hl, Nat.eqb_refl, Hg, Hd. cbn [negb orb].
  destruct (forallb (Z.eqb 0) s) eqn:E; [|reflexivity]. exfalso. apply Hn. rewrite <- Hl.
  clear - E. induction s as [|x s IH]; [reflexivity|]. cbn [forallb] in E. apply andb_true_iff in E. destruct E as [E1 E2].
  apply Z.eqb_eq in E1. subst x. cbn [length repeat]. f_equal. apply IH. exact E2.
Qed.

(* the boolean hypotheses, evaluated by the model on the object, give: every position of the real deque draws a state of class 0 *)
Theorem frontier_draw_checked : forall (all_sizes : list Z) (last_size o : Z) (dout : list Z -> bool),
  all_sizes <> [] -> Forall (fun m => 0 < m) all_sizes ->
  let sizes := all_sizes ++ [last_size] in
  fd_hyp_nd sizes o dout = true ->
  let fr_sz := snd (dom_nd dout (zdn_pair sz_npair 1) sizes o) in
  let fr_rs := snd (dom_nd dout (zdn_pair rs_pairing 1) sizes o) in
  (fr_sz <> [] /\ forall c, (c < length fr_sz)%nat ->
     draw_class sizes o dout (fd_state (list Z) (zdn_project sz_nproj (length sizes) 1) fr_sz c) = 0)
  /\ (fr_rs <> [] /\ forall c, (c < length fr_rs)%nat ->
     draw_class sizes o dout (fd_state (list Z) (zdn_project rs_projection (length sizes) 1) fr_rs c) = 0).
Proof.
  intros all_sizes last_size o dout Hne Hpos sizes Hh.
  destruct (fd_hyp_nd_spec all_sizes last_size o dout Hne Hpos Hh) as [Ho [Hl Hi]]. cbn zeta. split.
  - destruct (frontier_draw_szudzik_nd all_sizes last_size o dout Hne Hpos Ho Hl Hi) as [A B]. split; [exact A|].
    intros c Hc. apply draw_admissible_class. apply (B c Hc).
  - destruct (frontier_draw_rs_nd all_sizes last_size o dout Hne Hpos Ho Hl Hi) as [A B]. split; [exact A|].
    intros c Hc. apply draw_admissible_class. apply (B c Hc).
Qed.

(* 1-d: interior origin and both grid ends in the domain: both positions draw an admissible state *)
Theorem frontier_draw_z1d_checked : forall (n o : Z) (dout : Z -> bool), fd_hyp_1d n o dout = true ->
  let L := o in let R := n - o - 1 in
  let frontier := snd (dom_1d (z1d_pair (- L) R 1) n o) in
  length frontier = 2%nat /\
  forall c, (c < 2)%nat -> draw_class_1d n o dout (fd_state Z (z1d_project (- L) R 1) frontier c) = 0.
Proof.
  intros n o dout Hh. unfold fd_hyp_1d in Hh. rewrite !andb_true_iff in Hh. destruct Hh as [[[A B] C] D].
  apply Z.ltb_lt in A, B. apply negb_true_iff in C, D.
  destruct (frontier_draw_z1d n o A B) as [Hlen [H0 H1]]. cbn zeta in *. split; [exact Hlen|].
  intros c Hc. assert (Ec : c = 0%nat \/ c = 1%nat) by lia. destruct Ec as [-> | ->]; [rewrite H0 | rewrite H1]; unfold draw_class_1d.
  - replace (o + (n - o - 1) <? 0) with false by (symmetry; apply Z.ltb_ge; lia).
    replace (n - 1 <? o + (n - o - 1)) with false by (symmetry; apply Z.ltb_ge; lia).
    replace (n - o - 1 =? 0) with false by (symmetry; apply Z.eqb_neq; lia). rewrite D. reflexivity.
  - replace (o + - o <? 0) with false by (symmetry; apply Z.ltb_ge; lia).
    replace (n - 1 <? o + - o) with false by (symmetry; apply Z.ltb_ge; lia).
    replace (- o =? 0) with false by (symmetry; apply Z.eqb_neq; lia). rewrite C. reflexivity.
Qed.

(* ---------------- the protocol with draws, any deque whose positions are respected ---------------- *)
Section RealDeque.
  Variable State : Type.
  Variable project : Z -> State.
  Variable outside : State -> bool.
  Variable maxf : Z.
  Variable frontier : list Z.
  Notation good := (sm_good State project outside maxf).

  Lemma sm_good_in i : In i good -> 0 <= i <= maxf /\ outside (project i) = false.
  Proof.
    unfold sm_good. rewrite filter_In, in_zrange. unfold sm_ok. intros [H1 H2]. apply negb_true_iff in H2. split; [lia | exact H2].
  Qed.

  Lemma fd_protocol_positions M calls : 1 <= M ->
    sm_protocol M (Z.of_nat (length good)) (-1) (map fst calls) ->
    Forall (fun c => (snd c < length frontier)%nat) calls ->
    Forall2 (fun c ret =>
       match nth_error good (Z.to_nat (fst (fst c))) with
       | Some i => ret = (project i, false) /\ 0 <= i <= maxf /\ outside (project i) = false
       | None => (snd c < length frontier)%nat /\ ret = (fd_state State project frontier (snd c), true)
       end) calls (fd_run State project outside maxf frontier sm_init calls).
  Proof.
    intros HM Hp Hpos. rewrite (fd_protocol_spec State project outside maxf frontier M calls HM Hp). clear Hp.
    induction Hpos as [|c r Hc Hr IH]; cbn [map]; constructor; [|exact IH].
    unfold fd_lift. destruct (nth_error good (Z.to_nat (fst (fst c)))) as [i|] eqn:E.
    - split; [reflexivity|]. apply sm_good_in. eapply nth_error_In; exact E.
    - split; [exact Hc | reflexivity].
  Qed.
End RealDeque.

Lemma Forall2_weaken {A B} (P Q : A -> B -> Prop) : (forall a b, P a b -> Q a b) -> forall l1 l2, Forall2 P l1 l2 -> Forall2 Q l1 l2.
Proof. intros H l1 l2 H2. induction H2; constructor; [apply H; assumption | assumption]. Qed.

(* what a draw can return: the conclusion of C14_frontier_draw_char as a predicate *)
Definition draw_char (all_sizes : list Z) (last_size o : Z) (dom_outside : list Z -> bool) (s : list Z) : Prop :=
  exists ks j, in_box all_sizes ks /\ 0 <= j < last_size /\ s = line_state o ks j /\
    ((dom_outside s = false /\
      ((forall j', 0 <= j' < j -> dom_outside (line_state o ks j') = true) \/
       (forall j', j < j' < last_size -> dom_outside (line_state o ks j') = true)))
     \/ (j = o /\ forall j', 0 <= j' < last_size -> dom_outside (line_state o ks j') = true)).

(* n-d, PairingToZd over any bijection N^d <-> N: deque, max_frontier_indices and is_outside of the SAME Domain / StatesManager *)
Theorem fd_protocol_nd : forall (npair : list Z -> Z) (nproj : nat -> Z -> list Z) (all_sizes : list Z) (last_size o : Z)
    (dom_outside : list Z -> bool) (M : Z) (calls : list (Z * Z * nat)),
  all_sizes <> [] -> Forall (fun m => 0 < m) all_sizes ->
  let sizes := all_sizes ++ [last_size] in
  let d := length sizes in
  (forall xs, length xs = d -> nonneg_list xs -> nproj d (npair xs) = xs) ->
  (forall xs, length xs = d -> nonneg_list xs -> 0 <= npair xs) ->
  npair (repeat 0 d) = 0 ->
  0 <= o < last_size -> 1 <= M ->
  let project := zdn_project nproj d 1 in
  let r := dom_nd dom_outside (zdn_pair npair 1) sizes o in
  let outside := sm_is_outside sizes o dom_outside in
  let maxf := dom_maxf r in
  let frontier := snd r in
  let good := sm_good (list Z) project outside maxf in
  sm_protocol M (Z.of_nat (length good)) (-1) (map fst calls) ->
  Forall (fun c => (snd c < length frontier)%nat) calls ->
  frontier <> [] /\
  Forall2 (fun c ret =>
     match nth_error good (Z.to_nat (fst (fst c))) with
     | Some i => ret = (project i, false) /\ outside (project i) = false
     | None => ret = (fd_state (list Z) project frontier (snd c), true) /\
               In (nth (snd c) frontier (-1)) frontier /\ draw_char all_sizes last_size o dom_outside (fst ret)
     end) calls (fd_run (list Z) project outside maxf frontier sm_init calls).
Proof.
  intros npair nproj all_sizes last_size o dom_outside M calls Hne Hpos sizes d Hpp Hnn Hzero Ho HM project r outside maxf frontier good Hp Hc.
  split.
  - pose proof (dom_nd_frontier_length dom_outside (zdn_pair npair 1) all_sizes last_size o Hne Hpos) as H.
    pose proof (prodl_pos all_sizes Hpos). intros E. unfold frontier, r, sizes in E. rewrite E in H. cbn in H. lia.
  - eapply Forall2_weaken; [|exact (fd_protocol_positions (list Z) project outside maxf frontier M calls HM Hp Hc)].
    intros c ret. cbn beta. fold good. destruct (nth_error good (Z.to_nat (fst (fst c)))) as [i|].
    + intros [A [_ B]]. split; assumption.
    + intros [Hlt ->]. split; [reflexivity|]. split; [apply nth_In; exact Hlt|]. cbn [fst].
      exact (frontier_draw_char npair nproj all_sizes last_size o dom_outside Hne Hpos Hpp Hnn Hzero Ho (snd c) Hlt).
Qed.

(* the two pairings the code offers *)
Theorem fd_protocol_szudzik_nd : forall (all_sizes : list Z) (last_size o : Z) (dom_outside : list Z -> bool) (M : Z) (calls : list (Z * Z * nat)),
  all_sizes <> [] -> Forall (fun m => 0 < m) all_sizes -> 0 <= o < last_size -> 1 <= M ->
  let sizes := all_sizes ++ [last_size] in
  let project := zdn_project sz_nproj (length sizes) 1 in
  let r := dom_nd dom_outside (zdn_pair sz_npair 1) sizes o in
  let outside := sm_is_outside sizes o dom_outside in
  let good := sm_good (list Z) project outside (dom_maxf r) in
  sm_protocol M (Z.of_nat (length good)) (-1) (map fst calls) ->
  Forall (fun c => (snd c < length (snd r))%nat) calls ->
  snd r <> [] /\
  Forall2 (fun c ret =>
     match nth_error good (Z.to_nat (fst (fst c))) with
     | Some i => ret = (project i, false) /\ outside (project i) = false
     | None => ret = (fd_state (list Z) project (snd r) (snd c), true) /\
               In (nth (snd c) (snd r) (-1)) (snd r) /\ draw_char all_sizes last_size o dom_outside (fst ret)
     end) calls (fd_run (list Z) project outside (dom_maxf r) (snd r) sm_init calls).
Proof.
  intros all_sizes last_size o dom_outside M calls Hne Hpos Ho HM. cbn zeta.
  assert (Hd : (2 <= length (all_sizes ++ [last_size]))%nat)
    by (rewrite app_length; destruct all_sizes; [congruence | cbn; lia]).
  exact (fd_protocol_nd sz_npair sz_nproj all_sizes last_size o dom_outside M calls Hne Hpos
           (sz_Hpp _ Hd) (sz_Hnn _ Hd) (sz_Hzero _ Hd) Ho HM).
Qed.
Theorem fd_protocol_rs_nd : forall (all_sizes : list Z) (last_size o : Z) (dom_outside : list Z -> bool) (M : Z) (calls : list (Z * Z * nat)),
  all_sizes <> [] -> Forall (fun m => 0 < m) all_sizes -> 0 <= o < last_size -> 1 <= M ->
  let sizes := all_sizes ++ [last_size] in
  let project := zdn_project rs_projection (length sizes) 1 in
  let r := dom_nd dom_outside (zdn_pair rs_pairing 1) sizes o in
  let outside := sm_is_outside sizes o dom_outside in
  let good := sm_good (list Z) project outside (dom_maxf r) in
  sm_protocol M (Z.of_nat (length good)) (-1) (map fst calls) ->
  Forall (fun c => (snd c < length (snd r))%nat) calls ->
  snd r <> [] /\
  Forall2 (fun c ret =>
     match nth_error good (Z.to_nat (fst (fst c))) with
     | Some i => ret = (project i, false) /\ outside (project i) = false
     | None => ret = (fd_state (list Z) project (snd r) (snd c), true) /\
               In (nth (snd c) (snd r) (-1)) (snd r) /\ draw_char all_sizes last_size o dom_outside (fst ret)
     end) calls (fd_run (list Z) project outside (dom_maxf r) (snd r) sm_init calls).
Proof.
  intros all_sizes last_size o dom_outside M calls Hne Hpos Ho HM. cbn zeta.
  assert (Hd : (1 <= length (all_sizes ++ [last_size]))%nat) by (rewrite app_length; cbn; lia).
  assert (H : forall xs, length xs = length (all_sizes ++ [last_size]) -> nonneg_list xs -> 0 <= rs_pairing xs)
    by (intros; apply rs_pairing_nonneg; assumption).
  exact (fd_protocol_nd rs_pairing rs_projection all_sizes last_size o dom_outside M calls Hne Hpos
           (rs_Hpp _ Hd) H (rs_pairing_zeros _ Hd) Ho HM).
Qed.

(* 1-d, PairingToZ1d((-o, n-o-1)): the deque is [pair R; pair (-L)]; an exhausted call returns the right or the left end of the grid *)
Theorem fd_protocol_z1d : forall (n o : Z) (dom_outside : Z -> bool) (M : Z) (calls : list (Z * Z * nat)),
  0 < o -> o < n - 1 -> 1 <= M ->
  let L := o in let R := n - o - 1 in
  let project := z1d_project (- L) R 1 in
  let r := dom_1d (z1d_pair (- L) R 1) n o in
  let outside := sm_is_outside_1d n o dom_outside in
  let good := sm_good Z project outside (dom_maxf r) in
  sm_protocol M (Z.of_nat (length good)) (-1) (map fst calls) ->
  Forall (fun c => (snd c < length (snd r))%nat) calls ->
  length (snd r) = 2%nat /\
  Forall2 (fun c ret =>
     match nth_error good (Z.to_nat (fst (fst c))) with
     | Some i => ret = (project i, false) /\ outside (project i) = false
     | None => ret = (if (snd c =? 0)%nat then R else - L, true)
     end) calls (fd_run Z project outside (dom_maxf r) (snd r) sm_init calls).
Proof.
  intros n o dom_outside M calls Ho Hn HM. cbn zeta. intros Hp Hc.
  destruct (frontier_draw_z1d n o Ho Hn) as [Hlen [H0 H1]]. cbn zeta in Hlen, H0, H1. split; [exact Hlen|].
  eapply Forall2_weaken; [|exact (fd_protocol_positions Z _ _ _ _ M calls HM Hp Hc)].
  intros c ret. cbn beta. destruct (nth_error _ (Z.to_nat (fst (fst c)))) as [i|].
  - intros [A [_ B]]. split; assumption.
  - intros [Hlt ->]. rewrite Hlen in Hlt. assert (Ec : snd c = 0%nat \/ snd c = 1%nat) by lia.
    destruct Ec as [-> | ->]; cbn [Nat.eqb]; [rewrite H0 | rewrite H1]; reflexivity.
Qed.

(* non-vacuity: 3 x 3 grid, Boundary(): the history of Example frontier_draw_nonvacuous meets every hypothesis of fd_protocol_szudzik_nd
   (protocol with M = 3 over the 8 admissible states, every position < 6 = length of the real deque), and the boolean hypotheses
   evaluate to true there and to false on the two witnesses of F-C14-8 and on an edge-origin grid *)
Example fd_protocol_real_nonvacuous :
  let calls := [((0, -1), 0%nat); ((1, 3), 0%nat); ((2, 3), 0%nat); ((3, 3), 0%nat); ((4, 3), 0%nat); ((5, 3), 0%nat); ((6, 3), 0%nat);
                ((7, 3), 0%nat); ((8, 3), 5%nat); ((3, 3), 1%nat); ((4, 3), 1%nat)] in
  let r := dom_nd (fun _ => false) (zdn_pair sz_npair 1) [3; 3] 1 in
  length (snd r) = 6%nat /\ dom_maxf r = 7
  /\ length (sm_good (list Z) (zdn_project sz_nproj 2 1) (sm_is_outside [3; 3] 1 (fun _ => false)) (dom_maxf r)) = 8%nat
  /\ sm_protocol 3 8 (-1) (map fst calls) /\ Forall (fun c => (snd c < 6)%nat) calls
  /\ fd_hyp_nd [3; 3] 1 (fun _ => false) = true /\ fd_hyp_nd [5; 5] 2 fd_ex_rect = false /\ fd_hyp_nd [5; 5] 2 fd_ex_simplex = false
  /\ fd_hyp_nd [4; 4] 0 (fun _ => false) = false
  /\ fd_known_cause_nd [5; 5] 2 fd_ex_rect [0; 0] = true /\ fd_known_cause_nd [5; 5] 2 fd_ex_simplex [2; 0] = true
  /\ fd_known_cause_nd [4; 4] 0 (fun _ => false) [0; 0] = true
  /\ fd_known_cause_nd [5; 5] 2 fd_ex_simplex [103; 0] = false /\ fd_known_cause_nd [5; 5] 2 fd_ex_simplex [1; 1] = false
  /\ fd_hyp_1d 5 2 (fun _ => false) = true /\ fd_hyp_1d 5 0 (fun _ => false) = false
  /\ fd_known_cause_1d 5 0 (fun _ => false) 0 = true /\ fd_known_cause_1d 7 3 (fun _ => false) 103 = false.
Proof.
  cbn zeta. repeat match goal with |- _ /\ _ => split end.
  all: try (vm_compute; reflexivity).
  - cbn [map sm_protocol fst snd].
    repeat (split; [first [left; lia | right; lia] | split; [first [left; lia | right; left; lia | right; right; lia]|]]). exact I.
  - repeat constructor.
Qed.

(* F-C14-8, the class that needs NO custom Domain (audit4 D1): the factory's own Boundary() on a grid whose origin is on the edge of
   the (last) axis -- CTMCGrid(h, origin_coordinate = 0, axes) is a public constructor, no library grid builder produces it.
   1-d, 5 points, origin index 0: the deque is [pair 4; pair 0] = [3; -1] and position 1 draws the origin;
   2-d, 4 x 4, origin index 0: position 7 (first in-domain state of the origin's line) draws the origin. *)
Theorem frontier_draw_edge_origin_refuted :
  (exists (n o : Z) (c : nat), 0 <= o < n /\
     let frontier := snd (dom_1d (z1d_pair (- o) (n - o - 1) 1) n o) in
     (c < length frontier)%nat /\ fd_state Z (z1d_project (- o) (n - o - 1) 1) frontier c = 0)
  /\ (exists (all_sizes : list Z) (last_size o : Z) (c : nat), 0 <= o < last_size /\
     let sizes := all_sizes ++ [last_size] in
     let frontier := snd (dom_nd (fun _ => false) (zdn_pair sz_npair 1) sizes o) in
     (c < length frontier)%nat /\
     fd_state (list Z) (zdn_project sz_nproj (length sizes) 1) frontier c = repeat 0 (length sizes)).
Proof.
  split.
  - exists 5, 0, 1%nat. split; [lia|]. cbn zeta. split; [vm_compute; lia | vm_compute; reflexivity].
  - exists [4], 4, 0, 7%nat. split; [lia|]. cbn zeta. split; [vm_compute; lia | vm_compute; reflexivity].
Qed.

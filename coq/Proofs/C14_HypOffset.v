(* C14 (wave 7, audit4 B9): the offset of HyperbolicPairing inside the block of n.
   The two lemmas formerly exported as C14_hyperbolic_offset_{decode,encode} mention the factorisation only through its radices
   1 + e_i and hold for ANY positive radices (the n of `fact_of fact n` was a phantom): they are restated here as what they are, the
   generic mixed-radix bijection.  The statement that IS about the pairing follows: for a factorisation that passes BOTH checks of the
   model (fact_of: increasing bases > 1, positive exponents, product n -- no primality; fact_primes: every base prime), pairing2d(x, y)
   is a_n(n-1) + the mixed-radix code of the exponent vector of x+1 in n = (x+1)(y+1), this code is below the size of the block of n,
   and projection2d's x_exponents decode it back to that vector. *)
From Coq Require Import ZArith List Bool Lia.
From RV Require Import Model.Pairing Proofs.C14_Lazy Proofs.C14_Zdn Model.Hyperbolic Model.HyperbolicPrimes
  Proofs.C14_Hyperbolic Proofs.C14_HypRoundTrip.
Import ListNotations.
Open Scope Z_scope.

Theorem mixed_radix_decode ms rs : Forall (fun m => 0 < m) ms -> in_box ms rs ->
  let off := mixed_encode ms rs in 0 <= off < prodl ms /\ lazy_tuple ms off = rs.
Proof.
  intros Hpos Hb. cbn zeta. rewrite mixed_encode_undigits, lazy_tuple_digits by exact Hpos.
  destruct (digits_undigits _ _ Hb) as [A B]. split; assumption.
Qed.
Theorem mixed_radix_encode ms off : Forall (fun m => 0 < m) ms -> 0 <= off < prodl ms ->
  let rs := lazy_tuple ms off in in_box ms rs /\ mixed_encode ms rs = off.
Proof.
  intros Hpos Ho. cbn zeta. rewrite mixed_encode_undigits, lazy_tuple_digits by exact Hpos.
  split; [apply digits_in_box; exact Hpos | apply undigits_digits; assumption].
Qed.

(* about the pairing: needs the primality of the bases (with [(4,1);(15,1)] for n = 60 the vector read by multiplicity is not the
   exponent vector of x+1 and the statement is false: Example hyp_offset_needs_primes) *)
Theorem hyp_offset_of_pairing fact x y : 0 <= x -> 0 <= y -> 0 < x \/ 0 < y ->
  fact_of fact ((x + 1) * (y + 1)) = true -> fact_primes fact = true ->
  let n := (x + 1) * (y + 1) in
  exists rs, in_box (hyp_radices fact) rs /\ x + 1 = fprod fact rs /\
    hyp_pairing2d fact x y = a_n (n - 1) + mixed_encode (hyp_radices fact) rs /\
    0 <= mixed_encode (hyp_radices fact) rs < a_n n - a_n (n - 1) /\
    lazy_tuple (hyp_radices fact) (hyp_pairing2d fact x y - a_n (n - 1)) = rs.
Proof.
  intros Hx Hy Hxy Hf Hp n.
  destruct (hyp_pairing_vector fact x y Hx Hy Hf Hp) as [rs [Hb [E Hm]]].
  destruct (fact_ok _ _ Hf Hp) as [Hg En]. fold n in En.
  pose proof (good_radices_pos 1 fact Hg) as Hpos.
  destruct (mixed_radix_decode _ _ Hpos Hb) as [Ho Hl]. cbn zeta in Ho, Hl.
  exists rs. split; [exact Hb|]. split; [exact E|].
  assert (Epair : hyp_pairing2d fact x y = a_n (n - 1) + mixed_encode (hyp_radices fact) rs).
  { unfold hyp_pairing2d. replace ((x =? 0) && (y =? 0)) with false.
    - cbn zeta. fold n. rewrite Hm. reflexivity.
    - symmetry. apply andb_false_iff. destruct Hxy; [left | right]; apply Z.eqb_neq; lia. }
  split; [exact Epair|]. split.
  - rewrite (a_n_block_size fact n Hg En). exact Ho.
  - rewrite Epair. replace (a_n (n - 1) + mixed_encode (hyp_radices fact) rs - a_n (n - 1)) with (mixed_encode (hyp_radices fact) rs) by ring.
    exact Hl.
Qed.

(* fact_of alone (no primality) accepts [(4,1);(15,1)] and [(60,1)] for 60: the three accepted lists give three different indices for
   (11, 4); only the one that passes fact_primes is the code's *)
Example hyp_offset_needs_primes :
  fact_of [(4, 1); (15, 1)] 60 = true /\ fact_primes [(4, 1); (15, 1)] = false
  /\ fact_of [(60, 1)] 60 = true /\ fact_primes [(60, 1)] = false
  /\ hyp_pairing2d [(2, 2); (3, 1); (5, 1)] 11 4 = a_n 59 + 5
  /\ hyp_pairing2d [(4, 1); (15, 1)] 11 4 = a_n 59 + 1
  /\ hyp_pairing2d [(60, 1)] 11 4 = a_n 59 + 0
  /\ mixed_encode [3; 2; 2] [2; 1; 0] = 5 /\ lazy_tuple [3; 2; 2] 5 = [2; 1; 0].
Proof. vm_compute. repeat split. Qed.

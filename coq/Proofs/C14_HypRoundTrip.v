(* C14 (wave 6): the full round trip of HyperbolicPairing.  For n = prod p_i^e_i (p_i increasing primes, checked by fact_of and
   fact_primes): the positive divisors of n are exactly the products prod p_i^r_i over the exponent vectors 0 <= r_i <= e_i, distinct
   vectors give distinct divisors and multiplicity(p_i, .) reads the vector back (unique factorisation, from Gauss / Euclid's lemma of
   Znumtheory); hence the number of divisors is prod (1 + e_i) = a_n(n) - a_n(n-1) (a_n = divisor summatory function), pairing2d(x, y)
   lies in the block of n = (x+1)(y+1), and pairing2d / projection2d (through upper_bound_a_n with a valid bracket) are mutually inverse. *)
From Coq Require Import ZArith List Bool Lia Znumtheory Zpow_facts Permutation.
From RV Require Import Model.Pairing Proofs.C14_Lazy Proofs.C14_Zdn Model.Hyperbolic Model.HyperbolicPrimes Proofs.C14_Hyperbolic.
Import ListNotations.
Open Scope Z_scope.

Lemma is_prime_b_prime p : is_prime_b p = true -> prime p.
Proof.
  unfold is_prime_b. intros H. apply andb_true_iff in H. destruct H as [H1 H2]. apply Z.ltb_lt in H1.
  rewrite forallb_forall in H2.
  assert (Hk : forall k, 2 <= k <= Z.sqrt p -> ~ (k | p)).
  { intros k Hk Hd.
    assert (Hin : In k (map (fun i => Z.of_nat i + 2) (seq 0 (Z.to_nat (Z.sqrt p - 1))))).
    { apply in_map_iff. exists (Z.to_nat (k - 2)). split; [lia|]. apply in_seq. lia. }
    specialize (H2 k Hin). apply negb_true_iff in H2. apply Z.eqb_neq in H2. apply H2. apply Z.mod_divide; [lia|exact Hd]. }
  apply prime_alt. split; [lia|]. intros n Hn Hd.
  destruct Hd as [q Hq].
  pose proof (Z.sqrt_spec p ltac:(lia)) as Hs. cbn zeta in Hs.
  destruct (Z_le_gt_dec n (Z.sqrt p)).
  - apply (Hk n); [lia|]. exists q; lia.
  - assert (0 < q) by nia. assert (q <= Z.sqrt p) by nia. assert (2 <= q) by nia. apply (Hk q); [lia|]. exists n; lia.
Qed.

Lemma mult_fuel_spec : forall fuel p r m, 1 < p -> 0 <= r -> (Z.to_nat r <= fuel)%nat -> 0 < m -> ~ (p | m) ->
  mult_fuel fuel p (p ^ r * m) = r.
Proof.
  induction fuel as [|k IH]; intros p r m Hp Hr Hf Hm Hnd.
  - cbn. lia.
  - cbn [mult_fuel]. destruct (Z.eq_dec r 0) as [->|Hr0].
    + rewrite Z.pow_0_r, Z.mul_1_l.
      assert (H : m mod p <> 0) by (intro E; apply Hnd; apply Z.mod_divide; [lia|exact E]).
      apply Z.eqb_neq in H. rewrite H, andb_false_r. reflexivity.
    + assert (E : p ^ r * m = (p ^ (r - 1) * m) * p).
      { replace r with (r - 1 + 1) at 1 by lia. rewrite Z.pow_add_r by lia. rewrite Z.pow_1_r. ring. }
      rewrite E. rewrite Z.mod_mul by lia. rewrite Z.div_mul by lia.
      assert (0 < p ^ (r - 1)) by (apply Z.pow_pos_nonneg; lia).
      replace (1 <? p) with true by (symmetry; apply Z.ltb_lt; lia).
      replace (0 <? p ^ (r - 1) * m * p) with true by (symmetry; apply Z.ltb_lt; repeat apply Z.mul_pos_pos; lia).
      rewrite Z.eqb_refl. cbn [andb]. rewrite (IH p (r - 1) m Hp ltac:(lia) ltac:(lia) Hm Hnd). lia.
Qed.

Lemma multiplicity_spec p r m : 1 < p -> 0 <= r -> 0 < m -> ~ (p | m) -> multiplicity p (p ^ r * m) = r.
Proof.
  intros Hp Hr Hm Hnd. unfold multiplicity. apply mult_fuel_spec; try assumption.
  assert (H1 : 2 ^ r <= p ^ r) by (apply Z.pow_le_mono_l; lia).
  assert (H2 : 0 < 2 ^ r) by (apply Z.pow_pos_nonneg; lia).
  assert (H3 : 2 ^ r <= p ^ r * m) by nia.
  pose proof (Z.log2_le_mono _ _ H3) as H4. rewrite Z.log2_pow2 in H4 by lia. lia.
Qed.

Definition nval (fact : list (Z * Z)) : Z := fold_right Z.mul 1 (map (fun pe => fst pe ^ snd pe) fact).
Definition fprod (fact : list (Z * Z)) (rs : list Z) : Z :=
  fold_right Z.mul 1 (map (fun pr => fst (fst pr) ^ snd pr) (combine fact rs)).
Definition good (lo : Z) (fact : list (Z * Z)) : Prop :=
  fact_sorted lo fact = true /\ Forall (fun pe => prime (fst pe)) fact.

Lemma good_cons lo p e r : good lo ((p, e) :: r) -> lo < p /\ 0 < e /\ prime p /\ good p r.
Proof.
  intros [H1 H2]. cbn [fact_sorted] in H1. apply andb_true_iff in H1. destruct H1 as [H1 H3].
  apply andb_true_iff in H1. destruct H1 as [H0 H1]. apply Z.ltb_lt in H0. apply Z.ltb_lt in H1.
  inversion H2 as [|? ? Hp Hr]; subst. cbn [fst] in Hp. split; [exact H0|]. split; [exact H1|]. split; [exact Hp|]. split; assumption.
Qed.
Lemma good_gt : forall fact lo, good lo fact -> Forall (fun pe => lo < fst pe) fact.
Proof.
  induction fact as [|[p e] r IH]; intros lo H; [constructor|].
  destruct (good_cons _ _ _ _ H) as [A [B [C D]]]. constructor; [exact A|].
  eapply Forall_impl; [|apply (IH p D)]. cbn. intros; lia.
Qed.
Lemma good_primes lo fact : good lo fact -> Forall (fun pe => prime (fst pe)) fact.
Proof. intros [_ H]; exact H. Qed.

Lemma fprod_nil_r fact : fprod fact [] = 1.
Proof. unfold fprod. destruct fact; reflexivity. Qed.
Lemma fprod_cons p e r s rs : fprod ((p, e) :: r) (s :: rs) = p ^ s * fprod r rs.
Proof. reflexivity. Qed.
Lemma nval_cons p e r : nval ((p, e) :: r) = p ^ e * nval r.
Proof. reflexivity. Qed.
Lemma nval_fprod fact : nval fact = fprod fact (map snd fact).
Proof. induction fact as [|[p e] r IH]; [reflexivity|]. cbn [map snd]. rewrite nval_cons, fprod_cons, IH. reflexivity. Qed.

Lemma in_box_nonneg : forall ms rs, in_box ms rs -> Forall (fun r => 0 <= r) rs.
Proof. induction ms as [|m ms IH]; intros [|r rs] H; cbn in H; try contradiction; constructor; [lia | apply IH; tauto]. Qed.

Lemma fprod_pos : forall fact rs, Forall (fun pe => 1 < fst pe) fact -> Forall (fun r => 0 <= r) rs -> 0 < fprod fact rs.
Proof.
  induction fact as [|[p e] r IH]; intros rs Hf Hr; [cbn; lia|].
  destruct rs as [|s rs]; [rewrite fprod_nil_r; lia|]. rewrite fprod_cons.
  inversion Hf; subst. inversion Hr; subst. cbn in *.
  pose proof (IH rs H2 H4). assert (0 < p ^ s) by (apply Z.pow_pos_nonneg; lia). nia.
Qed.

Lemma ndiv_fprod q : prime q -> forall fact rs, Forall (fun pe => prime (fst pe)) fact -> Forall (fun pe => q <> fst pe) fact ->
  Forall (fun r => 0 <= r) rs -> ~ (q | fprod fact rs).
Proof.
  intros Hq. pose proof (prime_ge_2 q Hq) as Hq2.
  assert (H1 : ~ (q | 1)) by (intro H; apply Z.divide_1_r in H; lia).
  induction fact as [|[p e] r IH]; intros rs Hp Hne Hr; [exact H1|].
  destruct rs as [|s rs]; [rewrite fprod_nil_r; exact H1|]. rewrite fprod_cons.
  inversion Hp; subst. inversion Hne; subst. inversion Hr; subst. cbn in *.
  intro Hd. apply prime_mult in Hd; [|exact Hq]. destruct Hd as [Hd|Hd].
  - apply (prime_power_prime q p s) in Hd; try assumption. contradiction.
  - revert Hd. apply IH; assumption.
Qed.

Lemma ndiv_mul q a b : prime q -> ~ (q | a) -> ~ (q | b) -> ~ (q | a * b).
Proof. intros Hq Ha Hb Hd. apply prime_mult in Hd; [tauto | exact Hq]. Qed.
Lemma ndiv_pow q p s : prime q -> prime p -> q <> p -> 0 <= s -> ~ (q | p ^ s).
Proof. intros Hq Hp Hne Hs Hd. apply (prime_power_prime q p s) in Hd; assumption || contradiction. Qed.

(* the exponent vector is read back by multiplicity, whatever cofactor c coprime to the bases multiplies the product *)
Lemma mults_fprod_gen : forall fact lo rs c, good lo fact -> in_box (hyp_radices fact) rs -> 0 < c ->
  Forall (fun pe => ~ (fst pe | c)) fact ->
  map (fun pe => multiplicity (fst pe) (c * fprod fact rs)) fact = rs.
Proof.
  induction fact as [|[p e] r IH]; intros lo rs c Hg Hb Hc Hnd.
  - destruct rs; [reflexivity | cbn in Hb; contradiction].
  - destruct rs as [|s rs]; [cbn in Hb; contradiction|].
    unfold hyp_radices in Hb. cbn [map in_box snd] in Hb. destruct Hb as [Hs Hb]. fold (hyp_radices r) in Hb.
    destruct (good_cons _ _ _ _ Hg) as [Hlo [He [Hp Hgr]]].
    pose proof (prime_ge_2 p Hp) as Hp2.
    pose proof (good_gt r p Hgr) as Hgt. pose proof (good_primes _ _ Hgr) as Hpr.
    pose proof (in_box_nonneg _ _ Hb) as Hnn.
    inversion Hnd as [|? ? Hndp Hndr]; subst. cbn [fst] in Hndp.
    assert (HF : 0 < fprod r rs).
    { apply fprod_pos; [|exact Hnn]. eapply Forall_impl; [|exact Hgt]. cbn. intros; lia. }
    cbn [map fst]. rewrite fprod_cons. f_equal.
    + replace (c * (p ^ s * fprod r rs)) with (p ^ s * (c * fprod r rs)) by ring.
      apply multiplicity_spec; [lia | lia | nia |].
      apply ndiv_mul; [exact Hp | exact Hndp |].
      apply ndiv_fprod; [exact Hp | exact Hpr | | exact Hnn].
      eapply Forall_impl; [|exact Hgt]. cbn. intros; lia.
    + erewrite map_ext; [|intros a; replace (c * (p ^ s * fprod r rs)) with ((c * p ^ s) * fprod r rs) by ring; reflexivity].
      apply (IH p); [exact Hgr | exact Hb | |].
      * assert (0 < p ^ s) by (apply Z.pow_pos_nonneg; lia). nia.
      * rewrite Forall_forall in *. intros pe Hin.
        apply ndiv_mul; [apply Hpr; exact Hin | apply Hndr; exact Hin |].
        apply ndiv_pow; [apply Hpr; exact Hin | exact Hp | | lia].
        specialize (Hgt pe Hin). cbn in Hgt. lia.
Qed.

Lemma mults_fprod fact rs : good 1 fact -> in_box (hyp_radices fact) rs ->
  map (fun pe => multiplicity (fst pe) (fprod fact rs)) fact = rs.
Proof.
  intros Hg Hb. erewrite map_ext; [|intros a; rewrite <- (Z.mul_1_l (fprod fact rs)); reflexivity].
  apply (mults_fprod_gen fact 1); [exact Hg | exact Hb | lia |].
  pose proof (good_primes _ _ Hg) as Hpr. rewrite Forall_forall in *. intros pe Hin Hd.
  pose proof (prime_ge_2 _ (Hpr pe Hin)). apply Z.divide_1_r in Hd. lia.
Qed.

Lemma pow_decomp p : 1 < p -> forall (n : nat) d, 0 < d -> (Z.to_nat d <= n)%nat ->
  exists s d', 0 <= s /\ 0 < d' /\ d = p ^ s * d' /\ ~ (p | d').
Proof.
  intros Hp. induction n as [|n IH]; intros d Hd Hn; [lia|].
  destruct (Zdivide_dec p d) as [[q Hq]|Hnd].
  - assert (0 < q) by nia. assert (q < d) by nia.
    destruct (IH q ltac:(lia) ltac:(lia)) as [s [d' [Hs [Hd' [E Hnd]]]]].
    exists (s + 1), d'. repeat split; [lia | lia | | exact Hnd].
    rewrite Z.pow_add_r by lia. rewrite Z.pow_1_r. rewrite Hq, E. ring.
  - exists 0, d. repeat split; [lia | lia | rewrite Z.pow_0_r; lia | exact Hnd].
Qed.

Lemma ndiv_nval q lo fact : prime q -> good lo fact -> q <= lo -> ~ (q | nval fact).
Proof.
  intros Hq Hg Hle. rewrite nval_fprod. apply ndiv_fprod; [exact Hq | apply (good_primes _ _ Hg) | |].
  - pose proof (good_gt _ _ Hg) as Hgt. eapply Forall_impl; [|exact Hgt]. cbn. intros; lia.
  - destruct Hg as [Hs _]. revert lo Hs Hle. induction fact as [|[p e] r IH]; intros lo Hs Hle; [constructor|].
    cbn [fact_sorted] in Hs. apply andb_true_iff in Hs. destruct Hs as [Hs Hs2]. apply andb_true_iff in Hs. destruct Hs as [Hs0 Hs1].
    apply Z.ltb_lt in Hs0. apply Z.ltb_lt in Hs1. cbn [map snd]. constructor; [lia|]. apply (IH p Hs2). lia.
Qed.

(* every positive divisor of n = prod p_i^e_i is prod p_i^r_i for an exponent vector of the box (existence half of unique factorisation) *)
Lemma divisor_vector : forall fact lo d, good lo fact -> 0 < d -> (d | nval fact) ->
  exists rs, in_box (hyp_radices fact) rs /\ d = fprod fact rs.
Proof.
  induction fact as [|[p e] r IH]; intros lo d Hg Hd Hdiv.
  - exists []. split; [exact I|]. cbn in Hdiv. apply Z.divide_1_r in Hdiv. cbn. lia.
  - destruct (good_cons _ _ _ _ Hg) as [Hlo [He [Hp Hgr]]]. pose proof (prime_ge_2 p Hp) as Hp2.
    rewrite nval_cons in Hdiv.
    destruct (pow_decomp p ltac:(lia) (Z.to_nat d) d Hd ltac:(lia)) as [s [d' [Hs [Hd' [E Hnd]]]]].
    assert (HN : ~ (p | nval r)) by (apply (ndiv_nval p p r Hp Hgr); lia).
    assert (Hd'N : (d' | nval r)).
    { apply (Gauss d' (p ^ e) (nval r)).
      - apply Z.divide_trans with d; [exists (p ^ s); lia | exact Hdiv].
      - apply rel_prime_Zpower_r; [lia|]. apply rel_prime_sym. apply prime_rel_prime; assumption. }
    assert (Hse : s <= e).
    { destruct (Z_le_gt_dec s e) as [|Hgt]; [assumption|]. exfalso. apply HN.
      apply (Z.mul_divide_cancel_l p (nval r) (p ^ e)); [assert (0 < p ^ e) by (apply Z.pow_pos_nonneg; lia); lia|].
      apply Z.divide_trans with d; [|exact Hdiv].
      exists (p ^ (s - e - 1) * d'). rewrite E. replace s with ((s - e - 1) + (e + 1)) at 1 by lia.
      rewrite Z.pow_add_r by lia. rewrite (Z.pow_add_r p e 1) by lia. rewrite Z.pow_1_r. ring. }
    destruct (IH p d' Hgr Hd' Hd'N) as [rs [Hb Ers]].
    exists (s :: rs). split.
    + unfold hyp_radices. cbn [map in_box snd]. split; [lia | exact Hb].
    + rewrite fprod_cons, <- Ers. exact E.
Qed.

Lemma fprod_divides : forall fact rs, in_box (hyp_radices fact) rs -> (fprod fact rs | nval fact).
Proof.
  induction fact as [|[p e] r IH]; intros rs Hb.
  - destruct rs; [exists 1; reflexivity | cbn in Hb; contradiction].
  - destruct rs as [|s rs]; [cbn in Hb; contradiction|].
    unfold hyp_radices in Hb. cbn [map in_box snd] in Hb. destruct Hb as [Hs Hb].
    rewrite fprod_cons, nval_cons. destruct (IH rs Hb) as [q Hq]. rewrite Hq.
    exists (p ^ (e - s) * q). replace e with ((e - s) + s) at 1 by lia. rewrite Z.pow_add_r by lia. ring.
Qed.

(* ---------------- block size: a_n(n) - a_n(n-1) = number of divisors of n = prod (1 + e_i) ---------------- *)
Fixpoint zlist_from (a : Z) (len : nat) : list Z := match len with O => [] | S l => a :: zlist_from (a + 1) l end.
Lemma in_zlist_from : forall len a k, In k (zlist_from a len) <-> a <= k < a + Z.of_nat len.
Proof.
  induction len as [|l IH]; intros a k; cbn [zlist_from In]; [lia|]. rewrite IH. lia.
Qed.
Lemma NoDup_zlist_from : forall len a, NoDup (zlist_from a len).
Proof.
  induction len as [|l IH]; intros a; cbn [zlist_from]; constructor; [|apply IH].
  rewrite in_zlist_from. lia.
Qed.
Lemma zsum_ind_filter f : forall len a, zsum_from (fun k => ind (f k)) a len = Z.of_nat (length (filter f (zlist_from a len))).
Proof.
  induction len as [|l IH]; intros a; [reflexivity|]. cbn [zsum_from zlist_from filter]. rewrite IH.
  destruct (f a); cbn [ind length]; lia.
Qed.

Lemma div_indicator n k : 1 <= k -> 1 <= n -> n / k - (n - 1) / k = ind (n mod k =? 0).
Proof.
  intros Hk Hn. pose proof (Z.div_mod n k ltac:(lia)) as E. pose proof (Z.mod_pos_bound n k ltac:(lia)) as B.
  destruct (n mod k =? 0) eqn:E0; [apply Z.eqb_eq in E0 | apply Z.eqb_neq in E0]; cbn [ind].
  - assert (n / k - 1 = (n - 1) / k) by (apply (Z.div_unique (n - 1) k (n / k - 1) (k - 1)); lia). lia.
  - assert (n / k = (n - 1) / k) by (apply (Z.div_unique (n - 1) k (n / k) (n mod k - 1)); lia). lia.
Qed.

Definition divisors (n : Z) : list Z := filter (fun k => n mod k =? 0) (zlist_from 1 (Z.to_nat n)).
Lemma in_divisors n d : 1 <= n -> (In d (divisors n) <-> 1 <= d <= n /\ (d | n)).
Proof.
  intros Hn. unfold divisors. rewrite filter_In, in_zlist_from, Z.eqb_eq. split.
  - intros [H1 H2]. split; [lia|]. apply Z.mod_divide; [lia | exact H2].
  - intros [H1 H2]. split; [lia|]. apply Z.mod_divide; [lia | exact H2].
Qed.

Lemma divisor_summatory_diff n : 1 <= n -> divisor_summatory n - divisor_summatory (n - 1) = Z.of_nat (length (divisors n)).
Proof.
  intros Hn. unfold divisor_summatory, divisors. rewrite <- zsum_ind_filter.
  assert (E : zsum_from (fun k => (n - 1) / k) 1 (Z.to_nat (n - 1)) = zsum_from (fun k => (n - 1) / k) 1 (Z.to_nat n)).
  { replace (Z.to_nat n) with (Z.to_nat (n - 1) + 1)%nat by lia. rewrite zsum_app. cbn [zsum_from].
    rewrite Z2Nat.id by lia. rewrite (Z.div_small (n - 1)) by lia. lia. }
  rewrite E, <- zsum_minus. apply zsum_ext. intros k Hk. apply div_indicator; lia.
Qed.

Lemma NoDup_map_in_inj {A B} (f : A -> B) : forall l, NoDup l -> (forall a b, In a l -> In b l -> f a = f b -> a = b) -> NoDup (map f l).
Proof.
  induction l as [|x l IH]; intros Hnd Hinj; cbn; [constructor|].
  inversion Hnd as [|? ? Hx Hl]; subst. constructor.
  - intro Hc. apply in_map_iff in Hc. destruct Hc as [y [Hy Hin]].
    assert (y = x) by (apply Hinj; [right; assumption | left; reflexivity | assumption]). subst. contradiction.
  - apply IH; [assumption|]. intros a b Ha Hb. apply Hinj; right; assumption.
Qed.

Lemma good_radices_pos lo fact : good lo fact -> Forall (fun m => 0 < m) (hyp_radices fact).
Proof. intros [H _]. apply (fact_sorted_radices fact lo H). Qed.
Lemma good_bases_gt1 fact : good 1 fact -> Forall (fun pe => 1 < fst pe) fact.
Proof. intros Hg. apply (good_gt _ _ Hg). Qed.

Lemma nval_pos fact : good 1 fact -> 1 <= nval fact.
Proof.
  intros Hg. rewrite nval_fprod. assert (0 < fprod fact (map snd fact)); [|lia].
  apply fprod_pos; [apply good_bases_gt1; exact Hg|].
  destruct Hg as [Hs _]. revert Hs. generalize 1 as lo. induction fact as [|[p e] r IH]; intros lo Hs; [constructor|].
  cbn [fact_sorted] in Hs. apply andb_true_iff in Hs. destruct Hs as [Hs Hs2]. apply andb_true_iff in Hs. destruct Hs as [_ Hs1].
  apply Z.ltb_lt in Hs1. cbn [map snd]. constructor; [lia | apply (IH p Hs2)].
Qed.

(* the number of divisors of n = prod p_i^e_i (p_i distinct primes) is prod (1 + e_i) *)
Theorem number_of_divisors fact : good 1 fact -> Z.of_nat (length (divisors (nval fact))) = prodl (hyp_radices fact).
Proof.
  intros Hg. set (ms := hyp_radices fact). pose proof (good_radices_pos _ _ Hg) as Hpos. fold ms in Hpos.
  pose proof (nval_pos fact Hg) as Hn1.
  set (vecs := map (fun off => fprod fact (digits ms off)) (zrange (prodl ms))).
  assert (Hperm : Permutation vecs (divisors (nval fact))).
  { apply NoDup_Permutation.
    - apply NoDup_map_in_inj; [apply NoDup_zrange|]. intros a b Ha Hb Hab. apply in_zrange in Ha. apply in_zrange in Hb.
      rewrite <- (undigits_digits ms a), <- (undigits_digits ms b) by assumption. f_equal.
      rewrite <- (mults_fprod fact (digits ms a)), <- (mults_fprod fact (digits ms b)); try assumption; try (apply digits_in_box; exact Hpos).
      rewrite Hab. reflexivity.
    - apply NoDup_filter, NoDup_zlist_from.
    - intros d. rewrite in_divisors by exact Hn1. unfold vecs. rewrite in_map_iff. split.
      + intros [off [E Hin]]. subst d. pose proof (digits_in_box ms off Hpos) as Hb.
        pose proof (fprod_divides fact _ Hb) as Hdv.
        assert (0 < fprod fact (digits ms off)) by (apply fprod_pos; [apply good_bases_gt1; exact Hg | apply (in_box_nonneg ms); exact Hb]).
        pose proof (Z.divide_pos_le (fprod fact (digits ms off)) (nval fact) ltac:(lia) Hdv). split; [lia | exact Hdv].
      + intros [Hd Hdv]. destruct (divisor_vector fact 1 d Hg ltac:(lia) Hdv) as [rs [Hb E]].
        destruct (digits_undigits ms rs Hb) as [H1 H2]. exists (undigits ms rs). split; [rewrite H1; symmetry; exact E | apply in_zrange; exact H2]. }
  apply Permutation_length in Hperm. rewrite <- Hperm. unfold vecs, zrange. rewrite !map_length, seq_length.
  pose proof (prodl_pos ms Hpos). lia.
Qed.

Theorem a_n_block_size fact n : good 1 fact -> nval fact = n -> a_n n - a_n (n - 1) = prodl (hyp_radices fact).
Proof.
  intros Hg En. pose proof (nval_pos fact Hg) as Hn. rewrite En in Hn.
  rewrite !a_n_divisor_summatory by lia. rewrite divisor_summatory_diff by lia. rewrite <- En. apply number_of_divisors; exact Hg.
Qed.

(* ---------------- the round trip of HyperbolicPairing ---------------- *)
Lemma fact_ok fact n : fact_of fact n = true -> fact_primes fact = true -> good 1 fact /\ nval fact = n.
Proof.
  unfold fact_of, fact_primes. intros Hf Hp. apply andb_true_iff in Hf. destruct Hf as [Hs Hn]. apply Z.eqb_eq in Hn.
  split; [split; [exact Hs|] | exact Hn].
  rewrite forallb_forall in Hp. apply Forall_forall. intros pe Hin. apply is_prime_b_prime, Hp, Hin.
Qed.

Lemma a_n_0 : a_n 0 = 0. Proof. reflexivity. Qed.
Lemma a_n_1 : a_n 1 = 1. Proof. reflexivity. Qed.

Lemma hyp_pairing_vector fact x y : 0 <= x -> 0 <= y -> fact_of fact ((x + 1) * (y + 1)) = true -> fact_primes fact = true ->
  exists rs, in_box (hyp_radices fact) rs /\ x + 1 = fprod fact rs /\ map (fun pe => multiplicity (fst pe) (x + 1)) fact = rs.
Proof.
  intros Hx Hy Hf Hp. destruct (fact_ok _ _ Hf Hp) as [Hg En].
  assert (Hdiv : (x + 1 | nval fact)) by (rewrite En; exists (y + 1); ring).
  destruct (divisor_vector fact 1 (x + 1) Hg ltac:(lia) Hdiv) as [rs [Hb E]].
  exists rs. split; [exact Hb|]. split; [exact E|]. rewrite E. apply mults_fprod; assumption.
Qed.

(* pairing2d(x, y) lies in the block of n = (x+1)(y+1) *)
Theorem hyp_pairing_in_block fact x y : 0 <= x -> 0 <= y -> fact_of fact ((x + 1) * (y + 1)) = true -> fact_primes fact = true ->
  let n := (x + 1) * (y + 1) in a_n (n - 1) <= hyp_pairing2d fact x y < a_n n.
Proof.
  intros Hx Hy Hf Hp n. unfold hyp_pairing2d. destruct ((x =? 0) && (y =? 0)) eqn:E0.
  - apply andb_true_iff in E0. destruct E0 as [A B]. apply Z.eqb_eq in A, B. subst x y. unfold n. replace ((0 + 1) * (0 + 1)) with 1 by ring. change (1 - 1) with 0. rewrite a_n_0, a_n_1. lia.
  - cbn zeta. fold n. destruct (hyp_pairing_vector fact x y Hx Hy Hf Hp) as [rs [Hb [E Hm]]]. rewrite Hm.
    destruct (fact_ok _ _ Hf Hp) as [Hg En]. fold n in En, Hf.
    destruct (hyp_offset_decode fact n rs Hf Hb) as [Ho _]. cbn zeta in Ho.
    pose proof (a_n_block_size fact n Hg En). lia.
Qed.

Theorem hyp_proj_pair fact x y : 0 <= x -> 0 <= y -> fact_of fact ((x + 1) * (y + 1)) = true -> fact_primes fact = true ->
  hyp_projection2d fact ((x + 1) * (y + 1)) (hyp_pairing2d fact x y) = (x, y).
Proof.
  intros Hx Hy Hf Hp. unfold hyp_pairing2d. destruct ((x =? 0) && (y =? 0)) eqn:E0.
  - apply andb_true_iff in E0. destruct E0 as [A B]. apply Z.eqb_eq in A, B. subst. reflexivity.
  - cbn zeta. destruct (hyp_pairing_vector fact x y Hx Hy Hf Hp) as [rs [Hb [E Hm]]]. rewrite Hm.
    set (n := (x + 1) * (y + 1)) in *.
    assert (Hn2 : 2 <= n) by (apply andb_false_iff in E0; destruct E0 as [E1|E1]; apply Z.eqb_neq in E1; unfold n; nia).
    destruct (hyp_offset_decode fact n rs Hf Hb) as [Ho Hl]. cbn zeta in Ho, Hl.
    pose proof (a_n_le_mono 1 (n - 1) ltac:(lia) ltac:(lia)) as Ha. rewrite a_n_1 in Ha.
    unfold hyp_projection2d.
    replace (a_n (n - 1) + mixed_encode (hyp_radices fact) rs =? 0) with false by (symmetry; apply Z.eqb_neq; lia).
    cbn zeta. replace (a_n (n - 1) + mixed_encode (hyp_radices fact) rs - a_n (n - 1)) with (mixed_encode (hyp_radices fact) rs) by ring.
    rewrite Hl. fold (fprod fact rs). rewrite <- E.
    f_equal; [lia|]. unfold n. rewrite Z.mul_comm. rewrite Z.div_mul by lia. lia.
Qed.

Theorem hyp_pair_proj fact n z : 0 < z -> 1 <= n -> a_n (n - 1) <= z < a_n n -> fact_of fact n = true -> fact_primes fact = true ->
  let p := hyp_projection2d fact n z in
  0 <= fst p /\ 0 <= snd p /\ (fst p + 1) * (snd p + 1) = n /\ hyp_pairing2d fact (fst p) (snd p) = z.
Proof.
  intros Hz Hn Hb Hf Hp. destruct (fact_ok _ _ Hf Hp) as [Hg En].
  pose proof (a_n_block_size fact n Hg En) as Hbs.
  unfold hyp_projection2d. replace (z =? 0) with false by (symmetry; apply Z.eqb_neq; lia). cbn zeta.
  set (off := z - a_n (n - 1)). assert (Ho : 0 <= off < prodl (hyp_radices fact)) by (unfold off; lia).
  destruct (hyp_offset_encode fact n off Hf Ho) as [Hbox Henc]. cbn zeta in Hbox, Henc.
  set (rs := lazy_tuple (hyp_radices fact) off) in *.
  fold (fprod fact rs). set (X := fprod fact rs).
  assert (HX : 0 < X) by (apply fprod_pos; [apply good_bases_gt1; exact Hg | apply (in_box_nonneg (hyp_radices fact)); exact Hbox]).
  assert (HXn : (X | n)) by (rewrite <- En; apply fprod_divides; exact Hbox).
  pose proof (Z.divide_pos_le X n ltac:(lia) HXn) as HXle.
  pose proof (Zdivide_Zdiv_eq X n HX HXn) as Hq.
  assert (Hq1 : 1 <= n / X) by nia.
  cbn [fst snd]. replace (X - 1 + 1) with X by ring. replace (n / X - 1 + 1) with (n / X) by ring.
  split; [lia|]. split; [lia|]. split; [lia|].
  unfold hyp_pairing2d. destruct ((X - 1 =? 0) && (n / X - 1 =? 0)) eqn:E0.
  - exfalso. apply andb_true_iff in E0. destruct E0 as [A B]. apply Z.eqb_eq in A, B. assert (E1 : n = 1) by nia.
    rewrite E1 in Hb. change (1 - 1) with 0 in Hb. rewrite a_n_0, a_n_1 in Hb. lia.
  - cbn zeta. replace (X - 1 + 1) with X by ring. replace (n / X - 1 + 1) with (n / X) by ring. rewrite <- Hq.
    unfold X at 1. rewrite (mults_fprod fact rs Hg Hbox). rewrite Henc. unfold off. ring.
Qed.

(* composed with upper_bound_a_n (valid bracket): projection2d then pairing2d is the identity on every z >= 0, and the pair has
   non-negative components whose successors multiply to n *)
Theorem hyperbolic_pair_proj z lo g hi fact : 0 <= z -> ub_bracket_ok z lo g hi ->
  let n := upper_bound_a_n z lo g hi in fact_of fact n = true -> fact_primes fact = true ->
  let p := hyp_projection2d fact n z in
  0 <= fst p /\ 0 <= snd p /\ (fst p + 1) * (snd p + 1) = n /\ hyp_pairing2d fact (fst p) (snd p) = z.
Proof.
  intros Hz Hbr n Hf Hp. destruct (upper_bound_a_n_spec z lo g hi Hz Hbr) as [Hn Hb]. fold n in Hn, Hb.
  destruct (Z.eq_dec z 0) as [E|Hz0].
  - subst z. assert (En : n = 1) by reflexivity. rewrite En. cbn. repeat split; lia.
  - apply hyp_pair_proj; try assumption; lia.
Qed.

(* pairing2d then projection2d (through upper_bound_a_n with any valid bracket) is the identity on N^2 *)
Theorem hyperbolic_proj_pair x y lo g hi fact : 0 <= x -> 0 <= y -> fact_of fact ((x + 1) * (y + 1)) = true -> fact_primes fact = true ->
  let z := hyp_pairing2d fact x y in ub_bracket_ok z lo g hi ->
  0 <= z /\ upper_bound_a_n z lo g hi = (x + 1) * (y + 1) /\ hyp_projection2d fact (upper_bound_a_n z lo g hi) z = (x, y).
Proof.
  intros Hx Hy Hf Hp z Hbr. pose proof (hyp_pairing_in_block fact x y Hx Hy Hf Hp) as Hblk. cbn zeta in Hblk. fold z in Hblk.
  set (n := (x + 1) * (y + 1)) in *. assert (Hn : 1 <= n) by (unfold n; nia).
  pose proof (a_n_le_mono 0 (n - 1) ltac:(lia) ltac:(lia)) as H0. rewrite a_n_0 in H0.
  assert (Hz : 0 <= z) by lia.
  destruct (upper_bound_a_n_spec z lo g hi Hz Hbr) as [Hm Hb].
  assert (E : upper_bound_a_n z lo g hi = n) by (apply (upper_bound_unique z); assumption).
  split; [exact Hz|]. split; [exact E|]. rewrite E. apply hyp_proj_pair; assumption.
Qed.

(* statements over the CHECKED data (fact_of + fact_primes) *)
Theorem divisor_exponent_vector : forall fact n d, fact_of fact n = true -> fact_primes fact = true -> 0 < d -> (d | n) ->
  exists rs, in_box (hyp_radices fact) rs /\ d = fprod fact rs.
Proof. intros fact n d Hf Hp Hd Hdiv. destruct (fact_ok fact n Hf Hp) as [Hg En]. apply (divisor_vector fact 1 d Hg Hd). rewrite En. exact Hdiv. Qed.
Theorem exponent_vector_unique : forall fact n rs, fact_of fact n = true -> fact_primes fact = true -> in_box (hyp_radices fact) rs ->
  (fprod fact rs | n) /\ map (fun pe => multiplicity (fst pe) (fprod fact rs)) fact = rs.
Proof. intros fact n rs Hf Hp Hb. destruct (fact_ok fact n Hf Hp) as [Hg En]. split; [rewrite <- En; apply fprod_divides; exact Hb | apply mults_fprod; assumption]. Qed.
Theorem a_n_block_is_divisor_count : forall n, 1 <= n -> a_n n - a_n (n - 1) = Z.of_nat (length (divisors n))
  /\ forall d, In d (divisors n) <-> 1 <= d <= n /\ (d | n).
Proof. intros n Hn. split; [rewrite !a_n_divisor_summatory by lia; apply divisor_summatory_diff; exact Hn | intros d; apply in_divisors; exact Hn]. Qed.
Theorem a_n_block_size_checked : forall fact n, fact_of fact n = true -> fact_primes fact = true ->
  a_n n - a_n (n - 1) = prodl (hyp_radices fact).
Proof. intros fact n Hf Hp. destruct (fact_ok fact n Hf Hp) as [Hg En]. apply a_n_block_size; assumption. Qed.

(* 57 / 59 / 62 are the guesses the implementation's inv_guess_a returns for z = 254 *)
Example hyp_roundtrip_nonvacuous :
  fact_of [(2, 2); (3, 1); (5, 1)] 60 = true /\ fact_primes [(2, 2); (3, 1); (5, 1)] = true
  /\ fact_primes [(2, 1); (4, 1)] = false /\ is_prime_b 30029 = true /\ is_prime_b (3613 * 4051) = false
  /\ a_n 60 - a_n 59 = 12 /\ divisors 60 = [1; 2; 3; 4; 5; 6; 10; 12; 15; 20; 30; 60]
  /\ hyp_pairing2d [(2, 2); (3, 1); (5, 1)] 11 4 = 254 /\ ub_bracket_ok 254 57 59 62 /\ upper_bound_a_n 254 57 59 62 = 60
  /\ hyp_projection2d [(2, 2); (3, 1); (5, 1)] 60 254 = (11, 4).
Proof. vm_compute. repeat split; intros; try reflexivity; discriminate. Qed.

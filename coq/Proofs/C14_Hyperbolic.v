(* C14 (wave 5): upper_bound_a_n (bracket selection + bisection over a_n) returns THE n with a_n(n-1) <= z < a_n(n) whenever the bracket
   the float guesses give is valid (a_n strictly increasing); the mixed-radix offset of HyperbolicPairing is a bijection between the
   exponent vectors of the divisors of n and [0, d(n)). *)
From Coq Require Import ZArith List Bool Lia.
From RV Require Import Model.Pairing Proofs.C14_Lazy Proofs.C14_Zdn.
From RV Require Import Model.Hyperbolic.
Import ListNotations.
Open Scope Z_scope.

(* D is strictly increasing: D(n+1) >= D(n) + 1 *)
Lemma zsum_mono f g a len : (forall k, a <= k < a + Z.of_nat len -> f k <= g k) -> zsum_from f a len <= zsum_from g a len.
Proof.
  revert a. induction len as [|l IH]; intros a H; cbn [zsum_from]; [lia|].
  pose proof (H a ltac:(lia)). specialize (IH (a + 1) ltac:(intros; apply H; lia)). lia.
Qed.

Lemma divisor_summatory_step n : 0 <= n -> divisor_summatory n + 1 <= divisor_summatory (n + 1).
Proof.
  intros Hn. unfold divisor_summatory.
  replace (Z.to_nat (n + 1)) with (Z.to_nat n + 1)%nat by lia. rewrite zsum_app. cbn [zsum_from].
  rewrite Z2Nat.id by lia. replace ((n + 1) / (1 + n)) with 1 by (replace (1 + n) with (n + 1) by ring; symmetry; apply Z.div_same; lia).
  assert (zsum_from (fun k => n / k) 1 (Z.to_nat n) <= zsum_from (fun k => (n + 1) / k) 1 (Z.to_nat n)).
  { apply zsum_mono. intros k Hk. apply Z.div_le_mono; lia. }
  lia.
Qed.

Lemma a_n_step n : 0 <= n -> a_n n + 1 <= a_n (n + 1).
Proof. intros Hn. rewrite !a_n_divisor_summatory by lia. apply divisor_summatory_step; exact Hn. Qed.

Lemma a_n_lt_mono : forall a b, 0 <= a -> a < b -> a_n a < a_n b.
Proof.
  intros a b Ha Hab. replace b with (a + 1 + Z.of_nat (Z.to_nat (b - a - 1))) by lia.
  induction (Z.to_nat (b - a - 1)) as [|k IH].
  - pose proof (a_n_step a Ha). replace (a + 1 + Z.of_nat 0) with (a + 1) by lia. lia.
  - pose proof (a_n_step (a + 1 + Z.of_nat k) ltac:(lia)).
    replace (a + 1 + Z.of_nat (S k)) with (a + 1 + Z.of_nat k + 1) by lia. lia.
Qed.
Lemma a_n_le_mono a b : 0 <= a -> a <= b -> a_n a <= a_n b.
Proof. intros Ha Hab. destruct (Z.eq_dec a b) as [->|]; [lia|]. pose proof (a_n_lt_mono a b Ha ltac:(lia)). lia. Qed.

(* the bisection keeps the bracket a_n(start) <= z < a_n(end) and ends with end = start + 1 *)
Lemma ub_bisect_spec : forall fuel z s e, 0 <= s -> s < e -> (Z.to_nat (e - s) <= fuel)%nat ->
  a_n s <= z < a_n e ->
  let r := ub_bisect fuel z s e in s <= r < e /\ a_n r <= z < a_n (r + 1).
Proof.
  induction fuel as [|k IH]; intros z s e Hs Hse Hf Hb; [lia|].
  cbn [ub_bisect]. destruct (1 <? e - s) eqn:E1.
  - apply Z.ltb_lt in E1.
    assert (Hm : s < s + (e - s) / 2 < e).
    { pose proof (Z.div_pos (e - s) 2 ltac:(lia) ltac:(lia)).
      assert (1 <= (e - s) / 2) by (apply Z.div_le_lower_bound; lia).
      assert ((e - s) / 2 < e - s) by (apply Z.div_lt; lia). lia. }
    destruct (z <? a_n (s + (e - s) / 2)) eqn:E2; [apply Z.ltb_lt in E2 | apply Z.ltb_ge in E2].
    + destruct (IH z s (s + (e - s) / 2) Hs ltac:(lia) ltac:(lia) ltac:(lia)) as [A B]. cbn zeta. split; [lia | exact B].
    + destruct (IH z (s + (e - s) / 2) e ltac:(lia) ltac:(lia) ltac:(lia) ltac:(lia)) as [A B]. cbn zeta. split; [lia | exact B].
  - apply Z.ltb_ge in E1. cbn zeta. assert (e = s + 1) by lia. subst e. split; [lia | exact Hb].
Qed.

(* the bracket the code selects is valid: the ONLY property of the float guesses that matters *)
Definition ub_bracket_ok (z n_low n_guess n_high : Z) : Prop :=
  0 <= n_guess /\
  (z < a_n n_guess -> 0 <= n_low /\ a_n n_low <= z) /\
  (a_n n_guess < z -> z < a_n n_high).

Theorem upper_bound_a_n_spec z n_low n_guess n_high : 0 <= z -> ub_bracket_ok z n_low n_guess n_high ->
  let n := upper_bound_a_n z n_low n_guess n_high in 1 <= n /\ a_n (n - 1) <= z < a_n n.
Proof.
  intros Hz [Hg [Hlo Hhi]]. unfold upper_bound_a_n. cbn zeta.
  destruct (z =? 0) eqn:E0; [apply Z.eqb_eq in E0; subst z; vm_compute; repeat split; discriminate|].
  destruct (a_n n_guess =? z) eqn:E1.
  - apply Z.eqb_eq in E1. replace (n_guess + 1 - 1) with n_guess by ring. pose proof (a_n_step n_guess Hg). lia.
  - apply Z.eqb_neq in E1. destruct (z <? a_n n_guess) eqn:E2; [apply Z.ltb_lt in E2 | apply Z.ltb_ge in E2]; cbn [fst snd].
    + destruct (Hlo E2) as [Hl0 Hl1].
      assert (n_low < n_guess).
      { destruct (Z_lt_le_dec n_low n_guess); [assumption|]. pose proof (a_n_le_mono n_guess n_low Hg ltac:(lia)). lia. }
      destruct (ub_bisect_spec (Z.to_nat (n_guess - n_low)) z n_low n_guess Hl0 H ltac:(lia) ltac:(lia)) as [A B].
      cbn zeta in A, B. replace (ub_bisect (Z.to_nat (n_guess - n_low)) z n_low n_guess + 1 - 1)
        with (ub_bisect (Z.to_nat (n_guess - n_low)) z n_low n_guess) by ring. lia.
    + assert (Hlt : a_n n_guess < z) by lia. specialize (Hhi Hlt).
      assert (n_guess < n_high).
      { destruct (Z_lt_le_dec n_guess n_high); [assumption|].
        destruct (Z_lt_le_dec n_high 0).
        - (* a_n of a negative argument is 0 *) exfalso.
          assert (a_n n_high = 0) by (unfold a_n; destruct n_high; try lia; reflexivity). lia.
        - pose proof (a_n_le_mono n_high n_guess ltac:(lia) ltac:(lia)). lia. }
      destruct (ub_bisect_spec (Z.to_nat (n_high - n_guess)) z n_guess n_high Hg H ltac:(lia) ltac:(lia)) as [A B].
      cbn zeta in A, B. replace (ub_bisect (Z.to_nat (n_high - n_guess)) z n_guess n_high + 1 - 1)
        with (ub_bisect (Z.to_nat (n_high - n_guess)) z n_guess n_high) by ring. lia.
Qed.

(* the n with a_n(n-1) <= z < a_n(n) is unique: whatever valid bracket the guesses give, the result is the same *)
Theorem upper_bound_unique z n m : 1 <= n -> 1 <= m -> a_n (n - 1) <= z < a_n n -> a_n (m - 1) <= z < a_n m -> n = m.
Proof.
  intros Hn Hm H1 H2. destruct (Z.lt_trichotomy n m) as [H|[H|H]]; [|assumption|].
  - pose proof (a_n_le_mono n (m - 1) ltac:(lia) ltac:(lia)). lia.
  - pose proof (a_n_le_mono m (n - 1) ltac:(lia) ltac:(lia)). lia.
Qed.

(* ---------------- the mixed-radix offset of HyperbolicPairing: exponent vectors of the divisors of n <-> [0, d(n)) ------- *)
Lemma mixed_encode_undigits : forall ms rs, mixed_encode ms rs = undigits ms rs.
Proof. induction ms as [|m ms IH]; intros [|r rs]; cbn; try reflexivity; try (f_equal; f_equal; apply IH). Qed.

Lemma fact_sorted_radices : forall fact lo, fact_sorted lo fact = true -> Forall (fun m => 0 < m) (hyp_radices fact).
Proof.
  induction fact as [|[p e] r IH]; intros lo H; [constructor|].
  cbn [fact_sorted] in H. apply andb_true_iff in H. destruct H as [H H2]. apply andb_true_iff in H. destruct H as [_ H].
  apply Z.ltb_lt in H. unfold hyp_radices. cbn [map snd]. constructor; [lia | apply (IH p); exact H2].
Qed.

(* pairing2d's offset of an exponent vector (r_i <= e_i) is decoded by projection2d's x_exponents, and conversely every
   offset below the number of divisors prod (1 + e_i) is the code of exactly the vector projection2d decodes *)
Theorem hyp_offset_decode fact n rs : fact_of fact n = true -> in_box (hyp_radices fact) rs ->
  let off := mixed_encode (hyp_radices fact) rs in
  0 <= off < prodl (hyp_radices fact) /\ lazy_tuple (hyp_radices fact) off = rs.
Proof.
  intros Hf Hb. cbn zeta. unfold fact_of in Hf. apply andb_true_iff in Hf. destruct Hf as [Hs _].
  pose proof (fact_sorted_radices fact 1 Hs) as Hpos.
  rewrite mixed_encode_undigits, lazy_tuple_digits by exact Hpos.
  destruct (digits_undigits _ _ Hb) as [A B]. split; assumption.
Qed.
Theorem hyp_offset_encode fact n off : fact_of fact n = true -> 0 <= off < prodl (hyp_radices fact) ->
  let rs := lazy_tuple (hyp_radices fact) off in
  in_box (hyp_radices fact) rs /\ mixed_encode (hyp_radices fact) rs = off.
Proof.
  intros Hf Ho. cbn zeta. unfold fact_of in Hf. apply andb_true_iff in Hf. destruct Hf as [Hs _].
  pose proof (fact_sorted_radices fact 1 Hs) as Hpos.
  rewrite mixed_encode_undigits, lazy_tuple_digits by exact Hpos.
  split; [apply digits_in_box; exact Hpos | apply undigits_digits; assumption].
Qed.

(* 1433 / 1437 / 1441 are the guesses the implementation's inv_guess_a returns for z = 10673 (recorded on /repo, scipy 1.18) *)
Example hyperbolic_nonvacuous :
  upper_bound_a_n 10673 1433 1437 1441 = 1440 /\ a_n 1439 <= 10673 < a_n 1440
  /\ fact_of [(2, 2); (3, 1); (5, 1)] 60 = true
  /\ hyp_pairing2d [(2, 2); (3, 1); (5, 1)] 11 4 = a_n 59 + 5 /\ hyp_projection2d [(2, 2); (3, 1); (5, 1)] 60 (a_n 59 + 5) = (11, 4)
  /\ multiplicity 2 12 = 2 /\ lazy_tuple [3; 2; 2] 5 = [2; 1; 0] /\ mixed_encode [3; 2; 2] [2; 1; 0] = 5.
Proof. vm_compute. repeat split; discriminate. Qed.

(* C14: lazy_indices_product yields every index tuple of the given sizes exactly once. *)
From Coq Require Import ZArith Bool Lia List FinFun.
From RV Require Import Model.Pairing.
Import ListNotations.
Open Scope Z_scope.

Fixpoint prodl (ms : list Z) : Z := match ms with [] => 1 | m :: r => m * prodl r end.
Fixpoint digits (ms : list Z) (n : Z) : list Z :=
  match ms with [] => [] | m :: r => n mod m :: digits r (n / m) end.
Fixpoint undigits (ms t : list Z) : Z :=
  match ms, t with m :: r, d :: ds => d + m * undigits r ds | _, _ => 0 end.
Fixpoint in_box (ms t : list Z) : Prop :=
  match ms, t with
  | [], [] => True
  | m :: r, d :: ds => 0 <= d < m /\ in_box r ds
  | _, _ => False
  end.

Lemma prodl_pos ms : Forall (fun m => 0 < m) ms -> 0 < prodl ms.
Proof. induction 1; cbn; nia. Qed.

Lemma tuple_from_digits acc ms n : 0 < acc -> Forall (fun m => 0 < m) ms ->
  map (fun dm => (n / fst dm) mod snd dm) (combine (denoms_from acc ms) ms) = digits ms (n / acc).
Proof.
  intros Hacc H. revert acc Hacc. induction H as [|m r Hm Hr IH]; intros acc Hacc; cbn; [reflexivity|].
  f_equal. rewrite IH by nia. rewrite Z.div_div by lia. reflexivity.
Qed.

Lemma lazy_tuple_digits ms n : Forall (fun m => 0 < m) ms -> lazy_tuple ms n = digits ms n.
Proof. intros H. unfold lazy_tuple. rewrite tuple_from_digits by (auto; lia). rewrite Z.div_1_r. reflexivity. Qed.

Lemma last_denoms acc ms d : ms <> [] -> last (denoms_from acc ms) d * last ms d = acc * prodl ms.
Proof.
  revert acc. induction ms as [|m r IH]; intros acc Hne; [congruence|].
  destruct r as [|m' r'].
  - cbn. ring.
  - assert (Hne' : m' :: r' <> []) by congruence.
    specialize (IH (acc * m) Hne').
    change (last (denoms_from acc (m :: m' :: r')) d) with (last (denoms_from (acc * m) (m' :: r')) d).
    change (last (m :: m' :: r') d) with (last (m' :: r') d).
    rewrite IH. cbn [prodl]. ring.
Qed.

Lemma lazy_nb_prod ms : ms <> [] -> lazy_nb ms = prodl ms.
Proof. intros H. unfold lazy_nb. rewrite last_denoms by assumption. ring. Qed.

Lemma digits_in_box ms n : Forall (fun m => 0 < m) ms -> in_box ms (digits ms n).
Proof.
  intros H. revert n. induction H as [|m r Hm Hr IH]; intros n; cbn; [exact I|].
  split; [apply Z.mod_pos_bound; lia | apply IH].
Qed.

Lemma undigits_digits ms n : Forall (fun m => 0 < m) ms -> 0 <= n < prodl ms -> undigits ms (digits ms n) = n.
Proof.
  intros H. revert n. induction H as [|m r Hm Hr IH]; intros n Hn; cbn in *; [lia|].
  rewrite IH.
  - pose proof (Z_div_mod_eq_full n m). lia.
  - split; [apply Z.div_pos; lia|]. apply Z.div_lt_upper_bound; lia.
Qed.

Lemma digits_undigits ms t : in_box ms t -> digits ms (undigits ms t) = t /\ 0 <= undigits ms t < prodl ms.
Proof.
  revert t. induction ms as [|m r IH]; intros t Hb; destruct t as [|d ds]; cbn in *; try tauto; [split; [reflexivity|lia]|].
  destruct Hb as [Hd Hb]. destruct (IH ds Hb) as [IH1 IH2].
  assert (Hmod : (d + m * undigits r ds) mod m = d).
  { rewrite Z.mul_comm, Z_mod_plus_full. apply Z.mod_small; lia. }
  assert (Hdiv : (d + m * undigits r ds) / m = undigits r ds).
  { rewrite Z.mul_comm, Z.div_add by lia. rewrite Z.div_small by lia. lia. }
  rewrite Hmod, Hdiv, IH1. split; [reflexivity|]. nia.
Qed.

Lemma in_zrange n x : In x (zrange n) <-> 0 <= x < n.
Proof.
  unfold zrange. rewrite in_map_iff. split.
  - intros [k [Hk Hin]]. apply in_seq in Hin. lia.
  - intros H. exists (Z.to_nat x). split; [lia|]. apply in_seq. lia.
Qed.

Lemma NoDup_zrange n : NoDup (zrange n).
Proof.
  unfold zrange. apply Injective_map_NoDup; [|apply seq_NoDup].
  intros a b Hab. lia.
Qed.

Theorem lazy_product_complete ms t : ms <> [] -> Forall (fun m => 0 < m) ms ->
  (In t (lazy_product ms) <-> in_box ms t).
Proof.
  intros Hne Hpos. unfold lazy_product. rewrite in_map_iff. rewrite lazy_nb_prod by assumption. split.
  - intros [n [Hn Hin]]. subst t. rewrite lazy_tuple_digits by assumption. apply digits_in_box; assumption.
  - intros Hb. destruct (digits_undigits ms t Hb) as [H1 H2].
    exists (undigits ms t). split; [rewrite lazy_tuple_digits by assumption; exact H1 | apply in_zrange; exact H2].
Qed.

Theorem lazy_product_nodup ms : ms <> [] -> Forall (fun m => 0 < m) ms -> NoDup (lazy_product ms).
Proof.
  intros Hne Hpos. unfold lazy_product. rewrite lazy_nb_prod by assumption.
  assert (Hinj : forall a b, In a (zrange (prodl ms)) -> In b (zrange (prodl ms)) -> lazy_tuple ms a = lazy_tuple ms b -> a = b).
  { intros a b Ha Hb Hab. apply in_zrange in Ha. apply in_zrange in Hb.
    rewrite !lazy_tuple_digits in Hab by assumption.
    rewrite <- (undigits_digits ms a), <- (undigits_digits ms b) by assumption. rewrite Hab. reflexivity. }
  revert Hinj. generalize (NoDup_zrange (prodl ms)). generalize (zrange (prodl ms)) as l.
  induction l as [|x l IH]; intros Hnd Hinj; cbn; [constructor|].
  inversion Hnd as [|? ? Hx Hl]; subst. constructor.
  - intro Hc. apply in_map_iff in Hc. destruct Hc as [y [Hy Hin]].
    assert (y = x) by (apply Hinj; [right; assumption | left; reflexivity | assumption]). subst. contradiction.
  - apply IH; [assumption|]. intros a b Ha Hb. apply Hinj; right; assumption.
Qed.

Lemma lazy_product_length ms : ms <> [] -> Forall (fun m => 0 < m) ms ->
  Z.of_nat (length (lazy_product ms)) = prodl ms.
Proof.
  intros Hne Hpos. unfold lazy_product, zrange. rewrite !map_length, seq_length, lazy_nb_prod by assumption.
  pose proof (prodl_pos ms Hpos). lia.
Qed.

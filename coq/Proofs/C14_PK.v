(* C14: Pepis-Kalmar pairing 2^y (2x+1) - 1 and the recursive projection of the code are mutually inverse. *)
From Coq Require Import ZArith Bool Lia.
From RV Require Import Gen.GenPairing Model.Pairing.
Open Scope Z_scope.

Lemma pk_aux_nonneg_pos p : 0 <= pk_aux_k_pos p /\ 0 <= pk_aux_j_pos p.
Proof. induction p as [p IH|p IH|]; cbn [pk_aux_k_pos pk_aux_j_pos]; lia. Qed.

Lemma pk_decomp_pos p :
  Zpos p + 1 = 2 ^ (pk_aux_j_pos p) * (2 * pk_aux_k_pos p + 1).
Proof.
  induction p as [p IH|p IH|]; cbn [pk_aux_k_pos pk_aux_j_pos].
  - rewrite Pos2Z.inj_xI. destruct (pk_aux_nonneg_pos p) as [_ Hj].
    rewrite Z.pow_add_r by lia. replace (2 ^ 1) with 2 by reflexivity.
    replace (2 * Z.pos p + 1 + 1) with (2 * (Z.pos p + 1)) by ring. rewrite IH. ring.
  - rewrite Pos2Z.inj_xO. replace (2 ^ 0) with 1 by reflexivity. ring.
  - reflexivity.
Qed.

Lemma pk_decomp q : 0 <= q ->
  q + 1 = 2 ^ (pk_aux_j q) * (2 * pk_aux_k q + 1) /\ 0 <= pk_aux_k q /\ 0 <= pk_aux_j q.
Proof.
  intros Hq. destruct q as [|p|p]; [cbn; lia | | lia].
  cbn [pk_aux_k pk_aux_j]. destruct (pk_aux_nonneg_pos p). split; [apply pk_decomp_pos | lia].
Qed.

Lemma pk_pair_proj z : 0 <= z ->
  let p := pk_projection2d z in 0 <= fst p /\ 0 <= snd p /\ pk_pairing2d (fst p) (snd p) = z.
Proof.
  intros Hz. unfold pk_projection2d, pk_pairing2d.
  pose proof (Z_div_mod_eq_full z 2) as Hd. pose proof (Z.mod_pos_bound z 2 ltac:(lia)) as Hb.
  destruct (Z.eqb (z mod 2) 0) eqn:E; [apply Z.eqb_eq in E | apply Z.eqb_neq in E]; cbn [fst snd].
  - replace (2 ^ 0) with 1 by reflexivity. lia.
  - assert (Hq : 0 <= z / 2) by (apply Z.div_pos; lia).
    destruct (pk_decomp (z / 2) Hq) as [Hdec [Hk Hj]].
    split; [lia|]. split; [lia|].
    rewrite Z.pow_add_r by lia. replace (2 ^ 1) with 2 by reflexivity.
    set (P := 2 ^ pk_aux_j (z / 2)) in *. set (K := pk_aux_k (z / 2)) in *.
    replace (P * 2 * (2 * K + 1)) with (2 * (P * (2 * K + 1))) by ring. rewrite <- Hdec. lia.
Qed.

Lemma pk_aux_of_pairing (n : nat) x : 0 <= x ->
  pk_aux_k (2 ^ Z.of_nat n * (2 * x + 1) - 1) = x /\ pk_aux_j (2 ^ Z.of_nat n * (2 * x + 1) - 1) = Z.of_nat n.
Proof.
  intros Hx. induction n as [|n IH].
  - replace (2 ^ Z.of_nat 0 * (2 * x + 1) - 1) with (2 * x) by (change (Z.of_nat 0) with 0; rewrite Z.pow_0_r; ring).
    destruct x as [|p|p].
    + cbn. split; reflexivity.
    + change (2 * Z.pos p) with (Z.pos (xO p)). cbn. split; reflexivity.
    + lia.
  - destruct IH as [IHk IHj].
    set (w := 2 ^ Z.of_nat n * (2 * x + 1)) in *.
    assert (Hw : 1 <= w) by (unfold w; assert (0 < 2 ^ Z.of_nat n) by (apply Z.pow_pos_nonneg; lia); nia).
    assert (E : 2 ^ Z.of_nat (S n) * (2 * x + 1) - 1 = 2 * (w - 1) + 1).
    { rewrite Nat2Z.inj_succ, Z.pow_succ_r by lia. unfold w. ring. }
    rewrite E. destruct (w - 1) as [|p|p] eqn:Ew; [ | | lia].
    + (* w = 1 : n = 0 and x = 0 *)
      cbn in IHk, IHj. change (2 * 0 + 1) with 1. cbn. split; lia.
    + change (2 * Z.pos p + 1) with (Z.pos (xI p)). cbn [pk_aux_k pk_aux_j pk_aux_k_pos pk_aux_j_pos].
      cbn [pk_aux_k pk_aux_j] in IHk, IHj. rewrite IHk, IHj. split; lia.
Qed.

Lemma pk_proj_pair x y : 0 <= x -> 0 <= y -> pk_projection2d (pk_pairing2d x y) = (x, y).
Proof.
  intros Hx Hy. unfold pk_projection2d, pk_pairing2d.
  rewrite <- (Z2Nat.id y Hy). set (n := Z.to_nat y). clearbody n. clear Hy y.
  destruct n as [|n].
  - replace (2 ^ Z.of_nat 0 * (2 * x + 1) - 1) with (0 + x * 2) by (change (Z.of_nat 0) with 0; rewrite Z.pow_0_r; ring).
    rewrite Z_mod_plus_full, Z.div_add by lia.
    change (0 mod 2) with 0. change (0 / 2) with 0. change (0 =? 0) with true. cbv iota.
    f_equal.
  - set (w := 2 ^ Z.of_nat n * (2 * x + 1)).
    assert (E : 2 ^ Z.of_nat (S n) * (2 * x + 1) - 1 = 1 + (w - 1) * 2).
    { rewrite Nat2Z.inj_succ, Z.pow_succ_r by lia. unfold w. ring. }
    rewrite E, Z_mod_plus_full, Z.div_add by lia.
    change (1 mod 2) with 1. change (1 / 2) with 0. change (1 =? 0) with false. cbv iota.
    destruct (pk_aux_of_pairing n x Hx) as [Hk Hj]. fold w in Hk, Hj.
    replace (0 + (w - 1)) with (w - 1) by ring. rewrite Hk, Hj. f_equal. lia.
Qed.

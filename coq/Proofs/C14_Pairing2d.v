(* C14: the 2-d pairing functions generated from rpylib/distribution/pairing.py are bijections N^2 <-> N. *)
From Coq Require Import ZArith Bool Lia Psatz.
From RV Require Import Gen.GenPairing.
Open Scope Z_scope.

Lemma sqrt_bounds z : 0 <= z -> let m := Z.sqrt z in 0 <= m /\ m * m <= z < (m + 1) * (m + 1).
Proof. intros Hz m. split; [apply Z.sqrt_nonneg|]. pose proof (Z.sqrt_spec z Hz) as H. unfold Z.succ in H. exact H. Qed.

Lemma sqrt_unique m z : 0 <= m -> m * m <= z < (m + 1) * (m + 1) -> Z.sqrt z = m.
Proof. intros Hm H. apply Z.sqrt_unique. unfold Z.succ. lia. Qed.

(* ---------------- Szudzik ---------------- *)
Lemma szudzik_proj_pair x y : 0 <= x -> 0 <= y -> szudzik_projection2d (szudzik_pairing2d x y) = (x, y).
Proof.
  intros Hx Hy. unfold szudzik_projection2d, szudzik_pairing2d.
  destruct (Z.leb y x) eqn:E; [apply Z.leb_le in E | apply Z.leb_gt in E].
  - assert (Hs : Z.sqrt (x ^ 2 + x + y) = x) by (apply sqrt_unique; nia).
    rewrite Hs. replace (x ^ 2 + x + y - x ^ 2) with (x + y) by ring.
    destruct (Z.ltb (x + y) x) eqn:E2; [apply Z.ltb_lt in E2; lia|].
    f_equal. lia.
  - assert (Hs : Z.sqrt (x + y ^ 2) = y) by (apply sqrt_unique; nia).
    rewrite Hs. replace (x + y ^ 2 - y ^ 2) with x by ring.
    destruct (Z.ltb x y) eqn:E2; [reflexivity | apply Z.ltb_ge in E2; lia].
Qed.

Lemma szudzik_pair_proj z : 0 <= z ->
  let p := szudzik_projection2d z in 0 <= fst p /\ 0 <= snd p /\ szudzik_pairing2d (fst p) (snd p) = z.
Proof.
  intros Hz. unfold szudzik_projection2d, szudzik_pairing2d.
  destruct (sqrt_bounds z Hz) as [Hm Hb]. set (m := Z.sqrt z) in *.
  destruct (Z.ltb (z - m ^ 2) m) eqn:E; [apply Z.ltb_lt in E | apply Z.ltb_ge in E]; cbn [fst snd].
  - destruct (Z.leb m (z - m ^ 2)) eqn:E2; [apply Z.leb_le in E2; lia|]. nia.
  - destruct (Z.leb (z - m ^ 2 - m) m) eqn:E2; [|apply Z.leb_gt in E2; nia]. nia.
Qed.

(* ---------------- Rosenberg-Strong (2-d) ---------------- *)
Lemma rs_proj_pair x y : 0 <= x -> 0 <= y -> rs_projection2d (rs_pairing2d x y) = (x, y).
Proof.
  intros Hx Hy. unfold rs_projection2d, rs_pairing2d.
  destruct (Z.max_spec x y) as [[Hlt Hm] | [Hle Hm]]; rewrite Hm.
  - assert (Hs : Z.sqrt (y * (y + 1) + x - y) = y) by (apply sqrt_unique; nia).
    rewrite Hs. replace (y * (y + 1) + x - y - y ^ 2) with x by ring.
    destruct (Z.ltb x y) eqn:E2; [reflexivity | apply Z.ltb_ge in E2; lia].
  - assert (Hs : Z.sqrt (x * (x + 1) + x - y) = x) by (apply sqrt_unique; nia).
    rewrite Hs. replace (x * (x + 1) + x - y - x ^ 2) with (2 * x - y) by ring.
    destruct (Z.ltb (2 * x - y) x) eqn:E2; [apply Z.ltb_lt in E2; lia|].
    f_equal. lia.
Qed.

Lemma rs_pair_proj z : 0 <= z ->
  let p := rs_projection2d z in 0 <= fst p /\ 0 <= snd p /\ rs_pairing2d (fst p) (snd p) = z.
Proof.
  intros Hz. unfold rs_projection2d, rs_pairing2d.
  destruct (sqrt_bounds z Hz) as [Hm Hb]. set (m := Z.sqrt z) in *.
  destruct (Z.ltb (z - m ^ 2) m) eqn:E; [apply Z.ltb_lt in E | apply Z.ltb_ge in E]; cbn [fst snd].
  - rewrite Z.max_r by nia. nia.
  - rewrite Z.max_l by nia. nia.
Qed.

(* ---------------- Cantor ---------------- *)
Lemma tri_even n : (n * (n + 1)) mod 2 = 0.
Proof.
  destruct (Z.even n) eqn:E.
  - apply Z.even_spec in E. destruct E as [k ->]. rewrite <- Z.mul_assoc, Z.mul_comm. apply Z_mod_mult.
  - assert (Ho : Z.odd n = true) by (rewrite <- Z.negb_even, E; reflexivity).
    apply Z.odd_spec in Ho. destruct Ho as [k ->].
    replace ((2 * k + 1) * (2 * k + 1 + 1)) with ((2 * k + 1) * (k + 1) * 2) by ring. apply Z_mod_mult.
Qed.

Lemma tri_half n : 2 * (n * (n + 1) / 2) = n * (n + 1).
Proof. pose proof (Z_div_mod_eq_full (n * (n + 1)) 2) as H. rewrite tri_even in H. lia. Qed.

Lemma cantor_omega w z : 0 <= w -> w * (w + 1) <= 2 * z < (w + 1) * (w + 2) ->
  (Z.sqrt (1 + 8 * z) - 1) / 2 = w.
Proof.
  intros Hw H. set (s := Z.sqrt (1 + 8 * z)).
  assert (Hz : 0 <= 1 + 8 * z) by nia.
  pose proof (Z.sqrt_spec _ Hz) as Hs. fold s in Hs. unfold Z.succ in Hs.
  assert (Hs0 : 0 <= s) by apply Z.sqrt_nonneg.
  assert (H1 : 2 * w + 1 <= s) by nia.
  assert (H2 : s < 2 * w + 3) by nia.
  symmetry. apply Z.div_unique with (r := s - 1 - 2 * w); lia.
Qed.

Lemma cantor_proj_pair x y : 0 <= x -> 0 <= y -> cantor_projection2d (cantor_pairing2d x y) = (x, y).
Proof.
  intros Hx Hy. unfold cantor_projection2d, cantor_pairing2d.
  set (w := x + y).
  assert (Hz : ((w ^ 2 + 3 * x + y) / 2) = w * (w + 1) / 2 + x).
  { replace (w ^ 2 + 3 * x + y) with (w * (w + 1) + x * 2) by (unfold w; ring).
    rewrite Z.div_add by lia. reflexivity. }
  rewrite Hz. pose proof (tri_half w) as Ht.
  assert (Ho : (Z.sqrt (1 + 8 * (w * (w + 1) / 2 + x)) - 1) / 2 = w).
  { apply cantor_omega; unfold w in *; nia. }
  rewrite Ho.
  replace (w * (w + 3)) with (w * (w + 1) + w * 2) by ring. rewrite Z.div_add by lia.
  f_equal; unfold w; lia.
Qed.

Lemma cantor_pair_proj z : 0 <= z ->
  let p := cantor_projection2d z in 0 <= fst p /\ 0 <= snd p /\ cantor_pairing2d (fst p) (snd p) = z.
Proof.
  intros Hz. unfold cantor_projection2d, cantor_pairing2d. cbn zeta. cbn [fst snd].
  set (w := (Z.sqrt (1 + 8 * z) - 1) / 2).
  assert (H8 : 0 <= 1 + 8 * z) by lia.
  pose proof (Z.sqrt_spec _ H8) as Hs. unfold Z.succ in Hs.
  set (s := Z.sqrt (1 + 8 * z)) in *.
  assert (Hs1 : 1 <= s) by (assert (0 <= s) by apply Z.sqrt_nonneg; nia).
  assert (Hw : 2 * w <= s - 1 < 2 * w + 2).
  { unfold w. pose proof (Z_div_mod_eq_full (s - 1) 2). pose proof (Z.mod_pos_bound (s - 1) 2). lia. }
  assert (Hw0 : 0 <= w) by lia.
  pose proof (tri_half w) as Ht.
  assert (Hlow : w * (w + 1) <= 2 * z) by nia.
  assert (Hhigh : 2 * z < (w + 1) * (w + 2)) by nia.
  replace (w * (w + 3)) with (w * (w + 1) + w * 2) by ring. rewrite Z.div_add by lia.
  set (t := w * (w + 1) / 2) in *.
  split; [lia|]. split; [nia|].
  replace (z - t + (t + w - z)) with w by ring.
  replace (w ^ 2 + 3 * (z - t) + (t + w - z)) with (z * 2) by nia.
  apply Z.div_mul. lia.
Qed.

(* ---------------- N <-> Z ---------------- *)
Lemma proj_map_z n : projection_to_z (mapping_to_z n) = n.
Proof.
  unfold projection_to_z, mapping_to_z.
  destruct (Z.ltb 0 n) eqn:E; [apply Z.ltb_lt in E | apply Z.ltb_ge in E].
  - replace (2 * n - 1) with (1 + (n - 1) * 2) by ring.
    rewrite Z.div_add by lia. rewrite Z_mod_plus_full. cbn. lia.
  - replace (-2 * n) with (0 + (- n) * 2) by ring.
    rewrite Z.div_add by lia. rewrite Z_mod_plus_full. cbn. lia.
Qed.

Lemma map_proj_z z : 0 <= z -> mapping_to_z (projection_to_z z) = z /\ 0 <= mapping_to_z (projection_to_z z).
Proof.
  intros Hz. unfold projection_to_z, mapping_to_z.
  pose proof (Z_div_mod_eq_full z 2) as Hd. pose proof (Z.mod_pos_bound z 2 ltac:(lia)) as Hb.
  set (q := z / 2) in *. set (r := z mod 2) in *.
  assert (Hr : r = 0 \/ r = 1) by lia.
  destruct Hr as [-> | ->].
  - replace (q * (2 * 0 - 1) + 0) with (- q) by ring.
    destruct (Z.ltb 0 (- q)) eqn:E; [apply Z.ltb_lt in E; lia|]. lia.
  - replace (q * (2 * 1 - 1) + 1) with (q + 1) by ring.
    destruct (Z.ltb 0 (q + 1)) eqn:E; [|apply Z.ltb_ge in E; lia]. lia.
Qed.

Lemma mapping_to_z_nonneg n : 0 <= mapping_to_z n.
Proof. unfold mapping_to_z. destruct (Z.ltb 0 n) eqn:E; [apply Z.ltb_lt in E | apply Z.ltb_ge in E]; lia. Qed.

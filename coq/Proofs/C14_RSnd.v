(* C14: the d-dimensional Rosenberg-Strong pairing (Model/Pairing.v: rs_pairing / rs_projection / iroot)
   is a bijection N^d <-> N for every dimension d >= 1.

   Shell decomposition: the tuples (x_1..x_d) with max = m occupy exactly the values [m^d, (m+1)^d).
   With p = m^(d-1), q = (m+1)^(d-1), A = q - p:
     x_d = m          -> value = P_{d-1}(x') + m^d            with P_{d-1}(x') in [0, q)
     x_d = m-k, k>=1  -> value = P_{d-1}(x') + m^d + k * A    with P_{d-1}(x') in [p, q)   (max x' = m)
   and m^d + q + m * A = (m+1)^d, so these ranges tile the shell.
   The proof is an induction on the dimension of a joint invariant (rs_joint). *)
From Coq Require Import ZArith List Bool Lia Psatz.
From RV Require Import Gen.GenPairing Model.Pairing.
Import ListNotations.
Open Scope Z_scope.

(* ---------------- powers and integer roots ---------------- *)
Lemma pow_pred_step a d : 1 <= d -> a ^ d = a * a ^ (d - 1).
Proof. intros Hd. replace d with (Z.succ (d - 1)) at 1 by lia. apply Z.pow_succ_r. lia. Qed.

Lemma root_unique d a b z : 1 <= d -> 0 <= a -> 0 <= b ->
  a ^ d <= z < (a + 1) ^ d -> b ^ d <= z < (b + 1) ^ d -> a = b.
Proof.
  intros Hd Ha Hb H1 H2.
  destruct (Z.lt_trichotomy a b) as [L | [E | L]]; [exfalso | exact E | exfalso].
  - assert ((a + 1) ^ d <= b ^ d) by (apply Z.pow_le_mono_l; lia). lia.
  - assert ((b + 1) ^ d <= a ^ d) by (apply Z.pow_le_mono_l; lia). lia.
Qed.

Lemma iroot_search_spec d z : forall fuel m, 0 <= m -> m ^ d <= z ->
  let r := iroot_search fuel d z m in
  m <= r <= m + Z.of_nat fuel /\ r ^ d <= z /\ (r < m + Z.of_nat fuel -> z < (r + 1) ^ d).
Proof.
  induction fuel as [|k IH]; intros m Hm Hmz; cbn [iroot_search].
  - cbn. split; [lia|]. split; [assumption|]. lia.
  - destruct ((m + 1) ^ d <=? z) eqn:E; [apply Z.leb_le in E | apply Z.leb_gt in E].
    + destruct (IH (m + 1) ltac:(lia) E) as [H1 [H2 H3]]. cbn zeta in *.
      rewrite Nat2Z.inj_succ. split; [lia|]. split; [assumption|]. intros Hr. apply H3. lia.
    + rewrite Nat2Z.inj_succ. split; [lia|]. split; [assumption|]. intros _. exact E.
Qed.

(* (a) the integer root.  NOTE: for d = 1 the search fuel (Z.sqrt z + 1) is too small and the
   specification is false (iroot_spec_d1_refuted); rs_projection never calls iroot with d = 1. *)
Theorem iroot_spec d z : 2 <= d -> 0 <= z ->
  let m := iroot d z in 0 <= m /\ m ^ d <= z < (m + 1) ^ d.
Proof.
  intros Hd Hz. unfold iroot.
  assert (H0 : 0 ^ d <= z) by (rewrite Z.pow_0_l by lia; assumption).
  pose proof (iroot_search_spec d z (Z.to_nat (Z.sqrt z + 1)) 0 ltac:(lia) H0) as H. cbn zeta in H.
  set (r := iroot_search (Z.to_nat (Z.sqrt z + 1)) d z 0) in *.
  pose proof (Z.sqrt_nonneg z) as Hs0.
  rewrite Z2Nat.id in H by lia. destruct H as [H1 [H2 H3]].
  cbn zeta. split; [lia|]. split; [assumption|]. apply H3.
  destruct (Z.eq_dec r (Z.sqrt z + 1)) as [E|]; [exfalso | lia].
  pose proof (Z.sqrt_spec z Hz) as Hs. cbn zeta in Hs. unfold Z.succ in Hs.
  assert (Hr2 : r ^ 2 <= r ^ d) by (apply Z.pow_le_mono_r; lia).
  replace (r ^ 2) with (r * r) in Hr2 by ring. rewrite E in Hr2 at 1 2. lia.
Qed.

Theorem iroot_spec_nat (dimn : nat) z : (2 <= dimn)%nat -> 0 <= z ->
  let m := iroot (Z.of_nat dimn) z in 0 <= m /\ m ^ Z.of_nat dimn <= z < (m + 1) ^ Z.of_nat dimn.
Proof. intros Hd Hz. apply iroot_spec; lia. Qed.

Theorem iroot_spec_d1_refuted : exists z, 0 <= z /\
  ~ (let m := iroot 1 z in 0 <= m /\ m ^ 1 <= z < (m + 1) ^ 1).
Proof. exists 100. split; [lia|]. vm_compute. intros [_ [_ H]]. discriminate H. Qed.

Lemma iroot_unique d z m : 2 <= d -> 0 <= m -> m ^ d <= z < (m + 1) ^ d -> iroot d z = m.
Proof.
  intros Hd Hm H. assert (Hz : 0 <= z) by (pose proof (Z.pow_nonneg m d Hm); lia).
  destruct (iroot_spec d z Hd Hz) as [Hr0 Hr]. cbn zeta in *.
  apply (root_unique d _ _ z); try assumption; lia.
Qed.

(* ---------------- arithmetic of one shell (p = m^(d-1), q = (m+1)^(d-1)) ---------------- *)
Lemma shell_top m p q P : 0 <= m -> 0 <= p -> p < q -> 0 <= P < q ->
  Z.max 0 (P - p) / (q - p) = 0.
Proof.
  intros Hm Hp Hpq HP. destruct (Z.max_spec 0 (P - p)) as [[H ->] | [H ->]].
  - apply Z.div_small. lia.
  - apply Z.div_0_l. lia.
Qed.

Lemma shell_low m p q P k : 0 <= m -> 0 <= p -> p < q -> p <= P < q -> 1 <= k ->
  Z.max 0 (P + k * (q - p) - p) / (q - p) = k.
Proof.
  intros Hm Hp Hpq HP Hk. assert (0 <= k * (q - p)) by (apply Z.mul_nonneg_nonneg; lia).
  rewrite Z.max_r by lia.
  symmetry. apply Z.div_unique with (r := P - p); [lia | ring].
Qed.

Lemma shell_split m p q w : 0 <= m -> 0 <= p -> p < q -> 0 <= w < (m + 1) * q - m * p ->
  let k := Z.max 0 (w - p) / (q - p) in
  0 <= k <= m /\ (k = 0 -> 0 <= w - k * (q - p) < q) /\ (1 <= k -> p <= w - k * (q - p) < q).
Proof.
  intros Hm Hp Hpq Hw. cbn zeta.
  destruct (Z.max_spec 0 (w - p)) as [[Hlt ->] | [Hle ->]].
  - set (k := (w - p) / (q - p)).
    pose proof (Z_div_mod_eq_full (w - p) (q - p)) as Hd.
    pose proof (Z.mod_pos_bound (w - p) (q - p) ltac:(lia)) as Hb. fold k in Hd.
    assert (Hk0 : 0 <= k) by (apply Z.div_pos; lia).
    assert (Hkm : k <= m).
    { assert (k < m + 1); [|lia]. apply Z.div_lt_upper_bound; [lia|]. nia. }
    split; [lia|]. split; intros; nia.
  - rewrite Z.div_0_l by lia. split; [lia|]. split; intros; lia.
Qed.

(* ---------------- unfolding lemmas for the model definitions ---------------- *)
Lemma list_max_nonneg l : 0 <= list_max l.
Proof. unfold list_max. induction l as [|a l IH]; cbn [fold_right]; lia. Qed.

Lemma list_max_cons x l : list_max (x :: l) = Z.max x (list_max l).
Proof. reflexivity. Qed.

Lemma rs_pairing_rev_cons xd rest : rest <> [] ->
  rs_pairing_rev (xd :: rest) =
    let d := Z.of_nat (length (xd :: rest)) in
    let m := list_max (xd :: rest) in
    rs_pairing_rev rest + m ^ d + (m - xd) * ((m + 1) ^ (d - 1) - m ^ (d - 1)).
Proof. intros H. destruct rest; [congruence | reflexivity]. Qed.

Lemma rs_projection_SS k z :
  rs_projection (S (S k)) z =
    let d := Z.of_nat (S (S k)) in
    let m := iroot d z in
    let m_d1 := m ^ (d - 1) in
    let m_d := m * m_d1 in
    let aux := (m + 1) ^ (d - 1) - m_d1 in
    let xd := m - (Z.max 0 (z - m_d - m_d1)) / aux in
    rs_projection (S k) (z - m_d - (m - xd) * aux) ++ [xd].
Proof. reflexivity. Qed.

(* ---------------- the joint invariant, by induction on the dimension ---------------- *)
Definition rs_inv (n : nat) : Prop :=
  (forall l, length l = n -> Forall (fun x => 0 <= x) l ->
     let m := list_max l in let d := Z.of_nat n in
     m ^ d <= rs_pairing_rev l < (m + 1) ^ d /\ rev (rs_projection n (rs_pairing_rev l)) = l)
  /\ (forall z, 0 <= z -> let l := rev (rs_projection n z) in
     length l = n /\ Forall (fun x => 0 <= x) l /\ rs_pairing_rev l = z).

Lemma rs_inv_1 : rs_inv 1.
Proof.
  split.
  - intros l Hlen Hnn. destruct l as [|x [|y r]]; try discriminate.
    inversion Hnn as [|? ? Hx _]; subst. cbn zeta. cbn [list_max fold_right rs_pairing_rev rs_projection rev app].
    rewrite Z.max_l by lia. change (Z.of_nat 1) with 1. rewrite !Z.pow_1_r. split; [lia | reflexivity].
  - intros z Hz. cbn. split; [reflexivity|]. split; [|reflexivity]. constructor; [assumption | constructor].
Qed.

Lemma rs_inv_step n : (1 <= n)%nat -> rs_inv n -> rs_inv (S n).
Proof.
  intros Hn [IH1 IH2]. destruct n as [|n]; [lia|].
  set (d := Z.of_nat (S (S n))).
  assert (Hd : 2 <= d) by (unfold d; lia).
  assert (Hd1 : Z.of_nat (S n) = d - 1) by (unfold d; lia).
  split.
  - (* pairing: range and projection o pairing = id *)
    intros l Hlen Hnn. destruct l as [|xd l']; [discriminate|].
    cbn [length] in Hlen. injection Hlen as Hlen.
    inversion Hnn as [|? ? Hxd Hnn']; subst.
    destruct (IH1 l' Hlen Hnn') as [Hrange Hproj]. cbn zeta in Hrange.
    assert (Hne : l' <> []) by (destruct l'; [discriminate | congruence]).
    cbn zeta. fold d.
    rewrite (rs_pairing_rev_cons xd l' Hne). cbn zeta.
    rewrite list_max_cons. cbn [length]. rewrite Hlen. fold d. rewrite Hd1 in Hrange.
    pose proof (list_max_nonneg l') as Hm'.
    set (m' := list_max l') in *. set (P := rs_pairing_rev l') in *.
    set (M := Z.max xd m').
    assert (HM0 : 0 <= M) by (unfold M; lia).
    pose proof (pow_pred_step M d ltac:(lia)) as EM.
    pose proof (pow_pred_step (M + 1) d ltac:(lia)) as EM1.
    assert (Hp0 : 0 <= M ^ (d - 1)) by (apply Z.pow_nonneg; lia).
    assert (Hpq : M ^ (d - 1) < (M + 1) ^ (d - 1)) by (apply Z.pow_lt_mono_l; lia).
    set (p := M ^ (d - 1)) in *. set (q := (M + 1) ^ (d - 1)) in *.
    assert (Hcase : (M = xd /\ m' <= M /\ 0 <= P < q) \/ (M = m' /\ 1 <= M - xd /\ p <= P < q)).
    { unfold M. destruct (Z.max_spec xd m') as [[Hlt HM] | [Hle HM]]; rewrite HM in *.
      - right. fold M in HM. unfold p, q. rewrite HM. split; [reflexivity|]. split; [lia|]. exact Hrange.
      - left. split; [reflexivity|]. split; [assumption|].
        assert (0 <= m' ^ (d - 1)) by (apply Z.pow_nonneg; lia).
        assert ((m' + 1) ^ (d - 1) <= q) by (unfold q; apply Z.pow_le_mono_l; lia). lia. }
    set (v := P + M ^ d + (M - xd) * (q - p)).
    assert (Hv : M ^ d <= v < (M + 1) ^ d).
    { unfold v. rewrite EM, EM1. destruct Hcase as [[E [_ HP]] | [_ [Hk HP]]].
      - rewrite <- E. nia.
      - assert (M - xd <= M) by lia. nia. }
    split; [exact Hv|].
    (* projection of v *)
    rewrite rs_projection_SS. cbn zeta. fold d.
    rewrite (iroot_unique d v M Hd HM0 Hv). fold p. fold q.
    assert (Hk : Z.max 0 (v - M * p - p) / (q - p) = M - xd).
    { unfold v. rewrite EM. destruct Hcase as [[E [_ HP]] | [_ [Hk HP]]].
      - replace (M - xd) with 0 by lia.
        replace (P + M * p + 0 * (q - p) - M * p - p) with (P - p) by ring.
        apply (shell_top M); assumption.
      - replace (P + M * p + (M - xd) * (q - p) - M * p - p) with (P + (M - xd) * (q - p) - p) by ring.
        apply (shell_low M); assumption. }
    rewrite Hk.
    replace (M - (M - xd)) with xd by ring.
    replace (v - M * p - (M - xd) * (q - p)) with P by (unfold v; rewrite EM; ring).
    rewrite rev_unit. rewrite Hproj. reflexivity.
  - (* projection: well-formed and pairing o projection = id *)
    intros z Hz. cbn zeta. rewrite rs_projection_SS. cbn zeta. fold d.
    destruct (iroot_spec d z Hd Hz) as [Hm0 Hmz]. cbn zeta in Hmz.
    set (m := iroot d z) in *.
    pose proof (pow_pred_step m d ltac:(lia)) as Em.
    pose proof (pow_pred_step (m + 1) d ltac:(lia)) as Em1.
    assert (Hp0 : 0 <= m ^ (d - 1)) by (apply Z.pow_nonneg; lia).
    assert (Hpq : m ^ (d - 1) < (m + 1) ^ (d - 1)) by (apply Z.pow_lt_mono_l; lia).
    set (p := m ^ (d - 1)) in *. set (q := (m + 1) ^ (d - 1)) in *.
    set (w := z - m * p).
    replace (z - m * p - p) with (w - p) by (unfold w; ring).
    assert (Hw : 0 <= w < (m + 1) * q - m * p) by (unfold w; lia).
    destruct (shell_split m p q w Hm0 Hp0 Hpq Hw) as [Hk [Hk0 Hk1]]. cbn zeta in Hk, Hk0, Hk1.
    set (k := Z.max 0 (w - p) / (q - p)) in *.
    replace (m - (m - k)) with k by ring.
    replace (z - m * p - k * (q - p)) with (w - k * (q - p)) by (unfold w; ring).
    set (z' := w - k * (q - p)) in *.
    assert (Hz' : 0 <= z') by (destruct (Z.eq_dec k 0) as [E|]; [apply Hk0 in E | assert (E : 1 <= k) by lia; apply Hk1 in E]; lia).
    destruct (IH2 z' Hz') as [Hlen [Hnn Hpair]]. cbn zeta in Hlen, Hnn, Hpair.
    rewrite rev_unit.
    set (l' := rev (rs_projection (S n) z')) in *.
    split; [cbn [length]; rewrite Hlen; reflexivity|].
    split; [constructor; [lia | assumption]|].
    assert (Hne : l' <> []) by (destruct l'; [discriminate | congruence]).
    rewrite (rs_pairing_rev_cons (m - k) l' Hne). cbn zeta.
    rewrite list_max_cons. cbn [length]. rewrite Hlen. fold d.
    destruct (IH1 l' Hlen Hnn) as [Hrange _]. cbn zeta in Hrange. rewrite Hd1, Hpair in Hrange.
    pose proof (list_max_nonneg l') as Hm'0.
    set (m' := list_max l') in *.
    assert (HM : Z.max (m - k) m' = m).
    { destruct (Z.eq_dec k 0) as [E|NE].
      - (* z' < q = (m+1)^(d-1) hence m' <= m *)
        specialize (Hk0 E).
        assert (m' < m + 1); [|lia].
        destruct (Z_lt_le_dec m' (m + 1)) as [|Hge]; [assumption | exfalso].
        assert ((m + 1) ^ (d - 1) <= m' ^ (d - 1)) by (apply Z.pow_le_mono_l; lia). fold q in H. lia.
      - assert (E : 1 <= k) by lia. specialize (Hk1 E).
        assert (m' = m); [|lia].
        apply (root_unique (d - 1) m' m z'); try lia. }
    rewrite HM. fold p. fold q. rewrite Hpair. rewrite Em.
    replace (m - (m - k)) with k by ring. unfold z', w. ring.
Qed.

Theorem rs_joint n : (1 <= n)%nat -> rs_inv n.
Proof.
  intros Hn. induction n as [|n IH]; [lia|].
  destruct n as [|n]; [exact rs_inv_1|]. apply rs_inv_step; [lia|]. apply IH. lia.
Qed.

(* ---------------- the statements about rs_pairing_rev (tuple reversed) ---------------- *)
Theorem rs_pairing_rev_shell l : l <> [] -> Forall (fun x => 0 <= x) l ->
  let m := list_max l in let d := Z.of_nat (length l) in
  m ^ d <= rs_pairing_rev l < (m + 1) ^ d.
Proof.
  intros Hne Hnn. assert (Hn : (1 <= length l)%nat) by (destruct l; [congruence | cbn; lia]).
  destruct (rs_joint (length l) Hn) as [H1 _]. apply (H1 l eq_refl Hnn).
Qed.

Lemma list_max_rev l : list_max (rev l) = list_max l.
Proof.
  assert (Happ : forall a b, list_max (a ++ b) = Z.max (list_max a) (list_max b)).
  { induction a as [|x a IH]; intros b; cbn [app list_max fold_right].
    - pose proof (list_max_nonneg b). fold (list_max b). lia.
    - fold (list_max (a ++ b)). fold (list_max a). rewrite IH. lia. }
  induction l as [|x l IH]; [reflexivity|].
  cbn [rev]. rewrite Happ, IH. cbn [list_max fold_right]. fold (list_max l).
  pose proof (list_max_nonneg l). lia.
Qed.

(* ---------------- (b), (c): the statements about rs_pairing / rs_projection ---------------- *)
Theorem rs_proj_pair_nd : forall (xs : list Z), xs <> [] -> Forall (fun x => 0 <= x) xs ->
  rs_projection (length xs) (rs_pairing xs) = xs.
Proof.
  intros xs Hne Hnn. unfold rs_pairing.
  assert (Hn : (1 <= length xs)%nat) by (destruct xs; [congruence | cbn; lia]).
  destruct (rs_joint (length xs) Hn) as [H1 _].
  destruct (H1 (rev xs) (rev_length xs) (Forall_rev Hnn)) as [_ H].
  apply (f_equal (@rev Z)) in H. rewrite !rev_involutive in H. exact H.
Qed.

Theorem rs_pair_proj_nd : forall (dimn : nat) z, (1 <= dimn)%nat -> 0 <= z ->
  let xs := rs_projection dimn z in
  length xs = dimn /\ Forall (fun x => 0 <= x) xs /\ rs_pairing xs = z.
Proof.
  intros dimn z Hn Hz. cbn zeta. destruct (rs_joint dimn Hn) as [_ H2].
  destruct (H2 z Hz) as [Hlen [Hnn Hpair]]. cbn zeta in *.
  split; [rewrite <- rev_length; exact Hlen|].
  split; [rewrite <- (rev_involutive (rs_projection dimn z)); apply Forall_rev; exact Hnn|].
  exact Hpair.
Qed.

(* the shell of a tuple: tuples with max m take exactly values in [m^d, (m+1)^d) *)
Theorem rs_pairing_shell : forall xs, xs <> [] -> Forall (fun x => 0 <= x) xs ->
  let m := list_max xs in let d := Z.of_nat (length xs) in
  m ^ d <= rs_pairing xs < (m + 1) ^ d.
Proof.
  intros xs Hne Hnn. cbn zeta. unfold rs_pairing.
  assert (Hne' : rev xs <> []) by (intro E; apply Hne; rewrite <- (rev_involutive xs), E; reflexivity).
  pose proof (rs_pairing_rev_shell (rev xs) Hne' (Forall_rev Hnn)) as H. cbn zeta in H.
  rewrite list_max_rev, rev_length in H. exact H.
Qed.

Theorem rs_pairing_nonneg : forall xs, Forall (fun x => 0 <= x) xs -> 0 <= rs_pairing xs.
Proof.
  intros xs Hnn. destruct xs as [|x xs]; [cbn; lia|].
  pose proof (rs_pairing_shell (x :: xs) ltac:(congruence) Hnn) as H. cbn zeta in H.
  pose proof (list_max_nonneg (x :: xs)).
  assert (0 <= list_max (x :: xs) ^ Z.of_nat (length (x :: xs))) by (apply Z.pow_nonneg; assumption). lia.
Qed.

(* max of the projected tuple = integer root (d >= 2) *)
Theorem rs_projection_max : forall (dimn : nat) z, (2 <= dimn)%nat -> 0 <= z ->
  list_max (rs_projection dimn z) = iroot (Z.of_nat dimn) z.
Proof.
  intros dimn z Hn Hz.
  destruct (rs_pair_proj_nd dimn z ltac:(lia) Hz) as [Hlen [Hnn Hpair]]. cbn zeta in *.
  assert (Hne : rs_projection dimn z <> []) by (intro E; rewrite E in Hlen; cbn in Hlen; lia).
  pose proof (rs_pairing_shell _ Hne Hnn) as H. cbn zeta in H. rewrite Hlen, Hpair in H.
  symmetry. apply iroot_unique; [lia | apply list_max_nonneg | exact H].
Qed.

(* injectivity in both directions (consequences) *)
Corollary rs_pairing_inj : forall xs ys, xs <> [] -> length xs = length ys ->
  Forall (fun x => 0 <= x) xs -> Forall (fun x => 0 <= x) ys -> rs_pairing xs = rs_pairing ys -> xs = ys.
Proof.
  intros xs ys Hne Hlen Hx Hy E.
  assert (Hne' : ys <> []) by (destruct ys; [destruct xs; [congruence | discriminate] | congruence]).
  rewrite <- (rs_proj_pair_nd xs Hne Hx), <- (rs_proj_pair_nd ys Hne' Hy), Hlen, E. reflexivity.
Qed.

Corollary rs_projection_inj : forall (dimn : nat) z z', (1 <= dimn)%nat -> 0 <= z -> 0 <= z' ->
  rs_projection dimn z = rs_projection dimn z' -> z = z'.
Proof.
  intros dimn z z' Hn Hz Hz' E.
  destruct (rs_pair_proj_nd dimn z Hn Hz) as [_ [_ H1]]. destruct (rs_pair_proj_nd dimn z' Hn Hz') as [_ [_ H2]].
  cbn zeta in *. rewrite <- H1, <- H2, E. reflexivity.
Qed.

(* non-vacuity: values next to perfect cubes / fourth powers *)
Example rs_nd_nonvacuous :
  rs_projection 3 26 = [2; 0; 0] /\ rs_projection 3 27 = [0; 0; 3] /\ rs_pairing [0; 0; 3] = 27
  /\ rs_pairing [2; 0; 0] = 26 /\ rs_projection 4 80 = [2; 0; 0; 0]
  /\ rs_pairing [3; 1; 4; 1] = 517 /\ rs_projection 4 517 = [3; 1; 4; 1]
  /\ iroot 3 (1000 ^ 3 - 1) = 999 /\ iroot 3 (1000 ^ 3) = 1000.
Proof. vm_compute. repeat split. Qed.

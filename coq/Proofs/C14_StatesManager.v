(* C14: StatesManager.project_index_to_state_increment, driven with the indices 0,1,2,... (as
   InversionMethod does), returns the admissible indices of [0, maxf] -- those i with
   outside (project i) = false -- each exactly once, in increasing order, and then signals
   exhaustion forever.  With an injective project: every admissible state exactly once. *)
From Coq Require Import ZArith List Bool Lia.
From RV Require Import Gen.GenPairing Model.Pairing Model.StatesManager Proofs.C14_Lazy Proofs.C14_Pairing2d Proofs.C14_Zd.
Import ListNotations.
Open Scope Z_scope.

(* expected outputs of n calls when the admissible indices still to come are g *)
Fixpoint sm_expect (n : nat) (g : list Z) : list (option Z) :=
  match n with
  | O => []
  | S k => match g with [] => None :: sm_expect k [] | i :: r => Some i :: sm_expect k r end
  end.

Lemma sm_expect_firstn : forall n m g, (n <= m)%nat ->
  sm_expect n g = firstn n (map Some g ++ repeat None m).
Proof.
  induction n as [|n IH]; intros m g Hnm; [reflexivity|].
  destruct m as [|m]; [lia|]. destruct g as [|i r].
  - cbn [sm_expect map app firstn repeat]. f_equal. rewrite (IH m []) by lia. reflexivity.
  - cbn [sm_expect map app firstn]. f_equal. apply IH. lia.
Qed.

Lemma sm_expect_nil n : sm_expect n [] = repeat None n.
Proof. induction n as [|n IH]; cbn; [reflexivity | rewrite IH; reflexivity]. Qed.

Lemma sm_expect_app : forall g n, (length g <= n)%nat ->
  sm_expect n g = map Some g ++ repeat None (n - length g).
Proof.
  induction g as [|i r IH]; intros n Hn.
  - cbn [length map app]. rewrite Nat.sub_0_r. apply sm_expect_nil.
  - cbn [length] in Hn. destruct n as [|n]; [lia|]. cbn [sm_expect map app length Nat.sub].
    f_equal. apply IH. lia.
Qed.

Lemma nth_error_sm_expect : forall n j g, (j < n)%nat ->
  nth_error (sm_expect n g) j = Some (nth_error g j).
Proof.
  induction n as [|n IH]; intros j g Hj; [lia|].
  destruct g as [|i r]; destruct j as [|j]; cbn [sm_expect nth_error]; try reflexivity.
  - rewrite IH by lia. destruct j; reflexivity.
  - apply IH. lia.
Qed.

Lemma NoDup_map_inj_on {A B} (f : A -> B) (l : list A) :
  (forall a b, In a l -> In b l -> f a = f b -> a = b) -> NoDup l -> NoDup (map f l).
Proof.
  induction l as [|x l IH]; intros Hinj Hnd; cbn; [constructor|].
  inversion Hnd as [|? ? Hx Hl]; subst. constructor.
  - intro Hc. apply in_map_iff in Hc. destruct Hc as [y [Hy Hin]].
    assert (y = x) by (apply Hinj; [right; assumption | left; reflexivity | assumption]). subst. contradiction.
  - apply IH; [|assumption]. intros a b Ha Hb. apply Hinj; right; assumption.
Qed.

Definition optZ_eq_dec : forall a b : option Z, {a = b} + {a <> b}.
Proof. decide equality; apply Z.eq_dec. Defined.

(* the history of calls: the k-th call (k = 0,1,...) has x <= b + k and x <> max_logged *)
Fixpoint sm_calls_ok (b : Z) (calls : list (Z * Z)) : Prop :=
  match calls with
  | [] => True
  | c :: r => fst c <= b /\ fst c <> snd c /\ sm_calls_ok (b + 1) r
  end.

Section SM.
  Variable State : Type.
  Variable project : Z -> State.
  Variable outside : State -> bool.
  Variable maxf : Z.

  Definition sm_ok (i : Z) : bool := negb (outside (project i)).
  (* the admissible indices of [0, maxf], increasing *)
  Definition sm_good : list Z := filter sm_ok (zrange (maxf + 1)).

  Fixpoint sm_goods (fuel : nat) (a : Z) : list Z :=
    match fuel with
    | O => []
    | S k => if sm_ok a then a :: sm_goods k (a + 1) else sm_goods k (a + 1)
    end.
  Definition sm_G (a : Z) : list Z := sm_goods (Z.to_nat (maxf + 1 - a)) a.

  Lemma sm_goods_filter : forall fuel a,
    sm_goods fuel a = filter sm_ok (map (fun k => a + Z.of_nat k) (seq 0 fuel)).
  Proof.
    induction fuel as [|k IH]; intros a; [reflexivity|].
    cbn [sm_goods seq map filter]. rewrite <- seq_shift, map_map.
    replace (a + Z.of_nat 0) with a by lia.
    assert (E : map (fun x => a + Z.of_nat (S x)) (seq 0 k) = map (fun x => a + 1 + Z.of_nat x) (seq 0 k))
      by (apply map_ext; intros; lia).
    rewrite E, <- IH. reflexivity.
  Qed.

  Lemma sm_G_0 : sm_G 0 = sm_good.
  Proof.
    unfold sm_G, sm_good, zrange. rewrite sm_goods_filter. replace (maxf + 1 - 0) with (maxf + 1) by lia.
    reflexivity.
  Qed.

  Lemma sm_G_unfold a : a <= maxf -> sm_G a = if sm_ok a then a :: sm_G (a + 1) else sm_G (a + 1).
  Proof.
    intros Ha. unfold sm_G.
    replace (Z.to_nat (maxf + 1 - a)) with (S (Z.to_nat (maxf + 1 - (a + 1)))) by lia. reflexivity.
  Qed.

  Lemma sm_G_empty a : maxf < a -> sm_G a = [].
  Proof. intros Ha. unfold sm_G. replace (Z.to_nat (maxf + 1 - a)) with O by lia. reflexivity. Qed.

  Lemma sm_G_head : forall a i rest, sm_G a = i :: rest ->
    a <= i <= maxf /\ sm_ok i = true /\ rest = sm_G (i + 1).
  Proof.
    intros a. remember (Z.to_nat (maxf + 1 - a)) as n eqn:En. revert a En.
    induction n as [|n IH]; intros a En i rest H.
    - rewrite sm_G_empty in H by lia. discriminate.
    - rewrite sm_G_unfold in H by lia. destruct (sm_ok a) eqn:Eok.
      + injection H as <- <-. repeat split; try lia. exact Eok.
      + destruct (IH (a + 1) ltac:(lia) i rest H) as [H1 [H2 H3]]. repeat split; try assumption; lia.
  Qed.

  Lemma sm_search_goods : forall fuel a,
    sm_search State project outside fuel a =
      match sm_goods fuel a with [] => (None, a + Z.of_nat fuel) | i :: _ => (Some i, i) end.
  Proof.
    induction fuel as [|k IH]; intros a; cbn [sm_search sm_goods].
    - f_equal. lia.
    - unfold sm_ok at 1. destruct (outside (project a)); cbn [negb]; [|reflexivity].
      rewrite IH. destruct (sm_goods k (a + 1)); [f_equal; lia | reflexivity].
  Qed.

  (* one call whose x does not overtake the skip pointer and is not a reset *)
  Lemma sm_step_index_spec last x ml : x <= last + 1 -> x <> ml ->
    sm_step_index State project outside maxf last x ml =
      match sm_G (last + 1) with
      | [] => (None, Z.max (last + 1) (maxf + 1))
      | i :: _ => (Some i, i)
      end.
  Proof.
    intros Hx Hml. unfold sm_step_index.
    destruct (x =? ml) eqn:E; [apply Z.eqb_eq in E; contradiction|].
    rewrite Z.max_r by lia. rewrite sm_search_goods. fold (sm_G (last + 1)).
    destruct (sm_G (last + 1)); [f_equal; lia | reflexivity].
  Qed.

  Lemma sm_run_index_expect : forall calls last b, b <= last + 1 -> sm_calls_ok b calls ->
    sm_run_index State project outside maxf last calls = sm_expect (length calls) (sm_G (last + 1)).
  Proof.
    induction calls as [|c r IH]; intros last b Hb Hok; [reflexivity|].
    destruct Hok as [Hx [Hml Hok]]. cbn [sm_run_index length sm_expect]. cbn zeta.
    rewrite (sm_step_index_spec last (fst c) (snd c)) by (assumption || lia).
    destruct (sm_G (last + 1)) as [|i rest] eqn:EG; cbn [fst snd].
    - f_equal. rewrite (IH _ (b + 1)) by (assumption || lia).
      rewrite sm_G_empty by lia. reflexivity.
    - destruct (sm_G_head _ _ _ EG) as [Hi [_ Hrest]]. f_equal.
      rewrite (IH i (b + 1)) by (assumption || lia). rewrite Hrest. reflexivity.
  Qed.

  Lemma sm_run_lift : forall calls last,
    sm_run State project outside maxf last calls =
      map (sm_lift State project) (sm_run_index State project outside maxf last calls).
  Proof. induction calls as [|c r IH]; intros last; [reflexivity|]. cbn. rewrite IH. reflexivity. Qed.

  Lemma sm_incr_calls_ok ml : (forall x, ml x <> x) -> forall n s b, Z.of_nat s <= b ->
    sm_calls_ok b (map (fun k => (Z.of_nat k, ml (Z.of_nat k))) (seq s n)).
  Proof.
    intros Hml. induction n as [|n IH]; intros s b Hs; cbn [seq map sm_calls_ok]; [exact I|].
    cbn [fst snd]. split; [assumption|]. split; [intro E; apply (Hml (Z.of_nat s)); symmetry; exact E|].
    apply IH. lia.
  Qed.

  (* ---- any history in which x never overtakes the number of calls made and never resets ---- *)
  Theorem sm_history_indices : forall calls, sm_calls_ok 0 calls ->
    sm_run_index State project outside maxf (-1) calls =
      firstn (length calls) (map Some sm_good ++ repeat None (length calls)).
  Proof.
    intros calls Hok. rewrite (sm_run_index_expect calls (-1) 0) by (assumption || lia).
    change (-1 + 1) with 0. rewrite sm_G_0. apply sm_expect_firstn. lia.
  Qed.

  (* ---- the increasing drive x = 0, 1, ..., n-1 (max_logged = ml x never equal to x) ---- *)
  Theorem sm_increasing_indices : forall ml, (forall x, ml x <> x) -> forall n,
    sm_run_index State project outside maxf (-1) (sm_incr_calls ml n) =
      firstn n (map Some sm_good ++ repeat None n).
  Proof.
    intros ml Hml n. pose proof (sm_history_indices (sm_incr_calls ml n)) as H.
    unfold sm_incr_calls in *. rewrite map_length, seq_length in H. apply H.
    apply sm_incr_calls_ok; [assumption | lia].
  Qed.

  (* the j-th call (0-based) returns the j-th admissible index, or exhaustion if there is none left *)
  Theorem sm_increasing_nth : forall ml, (forall x, ml x <> x) -> forall n j, (j < n)%nat ->
    nth_error (sm_run_index State project outside maxf (-1) (sm_incr_calls ml n)) j
      = Some (nth_error sm_good j).
  Proof.
    intros ml Hml n j Hj. rewrite sm_increasing_indices by assumption.
    rewrite <- (sm_expect_firstn n n sm_good) by lia. apply nth_error_sm_expect. exact Hj.
  Qed.

  (* after K = length sm_good calls every admissible index has been returned; call number K+1
     (and every later one) signals exhaustion *)
  Theorem sm_increasing_exhaustion : forall ml, (forall x, ml x <> x) -> forall n,
    (length sm_good <= n)%nat ->
    sm_run_index State project outside maxf (-1) (sm_incr_calls ml n) =
      map Some sm_good ++ repeat None (n - length sm_good).
  Proof.
    intros ml Hml n Hn. rewrite sm_increasing_indices by assumption.
    rewrite <- (sm_expect_firstn n n sm_good) by lia. apply sm_expect_app. exact Hn.
  Qed.

  Lemma sm_good_spec i : In i sm_good <-> 0 <= i <= maxf /\ outside (project i) = false.
  Proof.
    unfold sm_good. rewrite filter_In, in_zrange. unfold sm_ok. rewrite negb_true_iff. intuition lia.
  Qed.

  Lemma sm_good_NoDup : NoDup sm_good.
  Proof. unfold sm_good. apply NoDup_filter. apply NoDup_zrange. Qed.

  (* each admissible index is returned by exactly one call, and no other index is returned *)
  Theorem sm_index_exactly_once : forall ml, (forall x, ml x <> x) -> forall n i,
    (length sm_good <= n)%nat ->
    count_occ optZ_eq_dec (sm_run_index State project outside maxf (-1) (sm_incr_calls ml n)) (Some i)
      = if (0 <=? i) && (i <=? maxf) && negb (outside (project i)) then 1%nat else 0%nat.
  Proof.
    intros ml Hml n i Hn. rewrite sm_increasing_exhaustion by assumption.
    rewrite count_occ_app.
    assert (E0 : count_occ optZ_eq_dec (repeat None (n - length sm_good)) (Some i) = 0%nat).
    { apply count_occ_not_In. intro Hin. apply repeat_spec in Hin. discriminate. }
    rewrite E0, Nat.add_0_r.
    destruct ((0 <=? i) && (i <=? maxf) && negb (outside (project i))) eqn:E.
    - apply andb_prop in E. destruct E as [E E3]. apply andb_prop in E. destruct E as [E1 E2].
      apply Z.leb_le in E1. apply Z.leb_le in E2. apply negb_true_iff in E3.
      apply NoDup_count_occ'.
      + apply NoDup_map_inj_on; [intros a b _ _ Hab; congruence | apply sm_good_NoDup].
      + apply in_map. apply sm_good_spec. split; [lia | assumption].
    - apply count_occ_not_In. intro Hin. apply in_map_iff in Hin. destruct Hin as [j [Hj Hin]].
      injection Hj as ->. apply sm_good_spec in Hin. destruct Hin as [[H1 H2] H3].
      apply Z.leb_le in H1. apply Z.leb_le in H2. rewrite H1, H2, H3 in E. discriminate.
  Qed.

  (* ---- states: what the code returns ---- *)
  Theorem sm_increasing_states : forall ml, (forall x, ml x <> x) -> forall n,
    (length sm_good <= n)%nat ->
    sm_run State project outside maxf (-1) (sm_incr_calls ml n) =
      map (fun i => (Some (project i), false)) sm_good ++ repeat (None, true) (n - length sm_good).
  Proof.
    intros ml Hml n Hn. rewrite sm_run_lift, sm_increasing_exhaustion by assumption.
    rewrite map_app, map_map. f_equal.
    induction (n - length sm_good)%nat as [|k IHk]; cbn; [reflexivity | rewrite IHk; reflexivity].
  Qed.

  (* project injective on [0, maxf] (discharged by the bijection theorems of the pairing in use) *)
  Hypothesis project_inj : forall i j, 0 <= i <= maxf -> 0 <= j <= maxf -> project i = project j -> i = j.

  (* every in-grid non-origin state with index <= maxf exactly once before exhaustion:
     the first K = length sm_good calls return the states (map project sm_good), which has no
     duplicates and contains exactly the admissible states of index <= maxf; all later calls
     return (None, true). *)
  Theorem sm_states_exactly_once :
    (forall ml, (forall x, ml x <> x) -> forall n, (length sm_good <= n)%nat ->
       sm_run State project outside maxf (-1) (sm_incr_calls ml n) =
         map (fun i => (Some (project i), false)) sm_good ++ repeat (None, true) (n - length sm_good))
    /\ NoDup (map project sm_good)
    /\ (forall s, In s (map project sm_good) <->
                  exists i, 0 <= i <= maxf /\ project i = s /\ outside s = false).
  Proof.
    split; [exact sm_increasing_states|]. split.
    - apply NoDup_map_inj_on; [|apply sm_good_NoDup].
      intros a b Ha Hb. apply sm_good_spec in Ha. apply sm_good_spec in Hb. apply project_inj; tauto.
    - intros s. rewrite in_map_iff. split.
      + intros [i [Hi Hin]]. apply sm_good_spec in Hin. exists i. subst s. tauto.
      + intros [i [Hi [Hs Ho]]]. exists i. split; [assumption|]. apply sm_good_spec. subst s. tauto.
  Qed.
End SM.

(* ---- instance: the 2-d signed enumeration the library builds on Szudzik (project = PairingToZd.project,
   omit_zero); injectivity is discharged by szudzik_zd2_pair_project ---- *)
Lemma szudzik_zd2_project_inj maxf : forall i j, 0 <= i <= maxf -> 0 <= j <= maxf ->
  zd2_project szudzik_projection2d 1 i = zd2_project szudzik_projection2d 1 j -> i = j.
Proof.
  intros i j Hi Hj E.
  destruct (szudzik_zd2_pair_project i ltac:(lia)) as [_ H1].
  destruct (szudzik_zd2_pair_project j ltac:(lia)) as [_ H2]. cbn zeta in *.
  rewrite <- H1, <- H2, E. reflexivity.
Qed.

Theorem sm_szudzik_zd2_exactly_once (outside : Z * Z -> bool) (maxf : Z) :
  let project := zd2_project szudzik_projection2d 1 in
  let good := sm_good (Z * Z) project outside maxf in
  (forall ml, (forall x, ml x <> x) -> forall n, (length good <= n)%nat ->
     sm_run (Z * Z) project outside maxf (-1) (sm_incr_calls ml n) =
       map (fun i => (Some (project i), false)) good ++ repeat (None, true) (n - length good))
  /\ NoDup (map project good)
  /\ (forall s, In s (map project good) <->
                exists i, 0 <= i <= maxf /\ project i = s /\ outside s = false).
Proof. cbn zeta. apply sm_states_exactly_once. apply szudzik_zd2_project_inj. Qed.

(* non-vacuity: the grid {-1,0,1} x {-2..2} around the origin enumerated through the Szudzik Z^2
   projection, max frontier index 30, driven with x = 0..17 and max_logged = 1000000 *)
Definition sm_ex_outside (s : Z * Z) : bool := (1 <? Z.abs (fst s)) || (2 <? Z.abs (snd s)).
Example sm_nonvacuous :
  let project := zd2_project szudzik_projection2d 1 in
  sm_good (Z * Z) project sm_ex_outside 30 = [0; 1; 2; 3; 4; 5; 6; 7; 8; 9; 10; 15; 16; 17]
  /\ sm_run_index (Z * Z) project sm_ex_outside 30 (-1) (sm_incr_calls (fun _ => 1000000) 17)
     = [Some 0; Some 1; Some 2; Some 3; Some 4; Some 5; Some 6; Some 7; Some 8; Some 9; Some 10; Some 15;
        Some 16; Some 17; None; None; None]
  /\ map fst (sm_run (Z * Z) project sm_ex_outside 30 (-1) (sm_incr_calls (fun _ => 1000000) 16))
     = map Some [(0, 1); (1, 0); (1, 1); (0, -1); (1, -1); (-1, 0); (-1, 1); (-1, -1); (0, 2); (1, 2); (-1, 2);
                 (0, -2); (1, -2); (-1, -2)] ++ [None; None]
  /\ map snd (sm_run (Z * Z) project sm_ex_outside 30 (-1) (sm_incr_calls (fun _ => 1000000) 16))
     = repeat false 14 ++ [true; true].
Proof. vm_compute. repeat split. Qed.

(* ================= every call, resets included: exact characterisation ================= *)
Section SMReset.
  Variable State : Type.
  Variable project : Z -> State.
  Variable outside : State -> bool.
  Variable maxf : Z.
  Notation G := (sm_G State project outside maxf).
  Notation good := (sm_good State project outside maxf).
  Notation ok := (sm_ok State project outside).

  (* ANY call: the search starts at xx = max x (last' + 1), last' = -1 on a reset (x = max_logged); it returns the
     first admissible index >= xx (which becomes the new pointer), else exhaustion with pointer max xx (maxf+1) *)
  Theorem sm_step_index_char last x ml :
    sm_step_index State project outside maxf last x ml =
      let xx := Z.max x ((if x =? ml then -1 else last) + 1) in
      match G xx with
      | [] => (None, Z.max xx (maxf + 1))
      | i :: _ => (Some i, i)
      end.
  Proof.
    unfold sm_step_index. cbn zeta. set (xx := Z.max x ((if x =? ml then -1 else last) + 1)).
    rewrite sm_search_goods. fold (G xx). destruct (G xx); [f_equal; lia | reflexivity].
  Qed.

  (* increasing drive x = 0,1,2,... WITH resets: a reset at call x is harmless when every index below x
     (and <= maxf) is admissible, i.e. when nothing has been skipped before the reset *)
  Definition sm_allok_below (x : Z) : Prop := forall i, 0 <= i < x -> i <= maxf -> ok i = true.

  Lemma sm_run_index_resets ml :
    (forall x, ml x = x -> sm_allok_below x) ->
    forall n x' last, Z.of_nat x' <= last + 1 ->
      (sm_allok_below (Z.of_nat x') -> last + 1 = Z.of_nat x' \/ maxf < Z.of_nat x') ->
      sm_run_index State project outside maxf last (map (fun k => (Z.of_nat k, ml (Z.of_nat k))) (seq x' n))
        = sm_expect n (G (last + 1)).
  Proof.
    intros Hml. induction n as [|n IH]; intros x' last Hle Hinv; [reflexivity|].
    cbn [seq map sm_run_index sm_expect fst snd]. cbn zeta. set (x := Z.of_nat x') in *.
    rewrite sm_step_index_char. cbn zeta.
    (* the search start: either last + 1, or (on a harmless reset past maxf) some point past maxf *)
    set (xx := Z.max x ((if x =? ml x then -1 else last) + 1)).
    assert (Hxx : xx = last + 1 \/ (maxf < xx /\ maxf < last + 1)).
    { unfold xx. destruct (x =? ml x) eqn:E.
      - apply Z.eqb_eq in E. symmetry in E. destruct (Hinv (Hml x E)) as [H|H]; [left; lia | right; lia].
      - left. lia. }
    assert (HG : G xx = G (last + 1)).
    { destruct Hxx as [->|[H1 H2]]; [reflexivity|]. rewrite !sm_G_empty by lia. reflexivity. }
    rewrite HG. replace (Z.of_nat (S x')) with (x + 1) in * by (unfold x; lia).
    destruct (G (last + 1)) as [|i rest] eqn:EG; cbn [fst snd].
    - f_equal. rewrite (IH (S x')).
      + rewrite sm_G_empty by lia. reflexivity.
      + replace (Z.of_nat (S x')) with (x + 1) by (unfold x; lia). lia.
      + replace (Z.of_nat (S x')) with (x + 1) by (unfold x; lia). intros Hall.
        right. assert (Hb : sm_allok_below x) by (intros j Hj; apply Hall; lia).
        destruct (Hinv Hb) as [E|E]; [|lia].
        destruct (Z_le_gt_dec x maxf) as [Hxm|]; [exfalso | lia].
        rewrite E in EG. rewrite sm_G_unfold in EG by lia.
        rewrite (Hall x) in EG by lia. discriminate.
    - destruct (sm_G_head _ _ _ _ _ _ _ EG) as [Hi [Hoki Hrest]]. f_equal. rewrite (IH (S x')).
      + rewrite Hrest. reflexivity.
      + replace (Z.of_nat (S x')) with (x + 1) by (unfold x; lia). lia.
      + replace (Z.of_nat (S x')) with (x + 1) by (unfold x; lia). intros Hall.
        assert (Hb : sm_allok_below x) by (intros j Hj; apply Hall; lia).
        destruct (Hinv Hb) as [E|E]; [|right; lia]. left.
        destruct (Z_le_gt_dec x maxf) as [Hxm|]; [|lia].
        rewrite E in EG. rewrite sm_G_unfold in EG by lia. rewrite (Hall x) in EG by lia.
        injection EG as <- _. reflexivity.
  Qed.

  Theorem sm_increasing_with_resets : forall ml,
    (forall x, ml x = x -> forall i, 0 <= i < x -> i <= maxf -> outside (project i) = false) ->
    forall n,
    sm_run_index State project outside maxf (-1) (sm_incr_calls ml n) =
      firstn n (map Some good ++ repeat None n).
  Proof.
    intros ml Hml n. unfold sm_incr_calls. rewrite (sm_run_index_resets ml).
    - change (-1 + 1) with 0. rewrite sm_G_0. apply sm_expect_firstn. lia.
    - intros x E i Hi Him. unfold sm_ok. rewrite (Hml x E i Hi Him). reflexivity.
    - cbn. lia.
    - intros _. left. reflexivity.
  Qed.

  (* enumerations without inadmissible indices (1-d chains, centred n-d grids under the full box): resets are harmless *)
  Corollary sm_all_admissible_resets :
    (forall i, 0 <= i <= maxf -> outside (project i) = false) ->
    forall ml n,
    sm_run_index State project outside maxf (-1) (sm_incr_calls ml n) =
      firstn n (map Some good ++ repeat None n).
  Proof. intros Hall ml n. apply sm_increasing_with_resets. intros x _ i Hi Him. apply Hall. lia. Qed.
End SMReset.

(* ... and harmful otherwise: after a skipped index a reset at call x restarts the search at the INDEX x, so an
   already returned index comes back.  indices 0..3, index 1 inadmissible, reset at call 2 (max_logged = 2):
   calls 0,1,2,3 return 0, 2, 2, 3.  (Same root cause as F-C02-7: InversionMethod passes max_logged = _max_storage.) *)
Theorem sm_reset_refuted : exists (outside : Z -> bool) (maxf : Z) (ml : Z -> Z) (n : nat),
  let returned := sm_run_index Z (fun i => i) outside maxf (-1) (sm_incr_calls ml n) in
  returned = [Some 0; Some 2; Some 2; Some 3] /\ ~ NoDup returned.
Proof.
  exists (fun i => i =? 1), 3, (fun _ => 2), 4%nat. cbn zeta.
  assert (E : sm_run_index Z (fun i => i) (fun i => i =? 1) 3 (-1) (sm_incr_calls (fun _ => 2) 4)
              = [Some 0; Some 2; Some 2; Some 3]) by (vm_compute; reflexivity).
  rewrite E. split; [reflexivity|]. intro H. inversion H as [|? ? _ H1]; subst. inversion H1 as [|? ? H2 _]; subst.
  apply H2. left. reflexivity.
Qed.

(* ================= completeness: every admissible state exactly once ================= *)
Section SMComplete.
  Variable State : Type.
  Variable project : Z -> State.
  Variable pair : State -> Z.
  Variable outside : State -> bool.
  Variable maxf : Z.
  Variable valid : State -> Prop.          (* the states the enumeration ranges over (in range, not the origin) *)
  Hypothesis pair_project : forall i, 0 <= i <= maxf -> valid (project i) /\ pair (project i) = i.
  Hypothesis project_pair : forall s, valid s -> 0 <= pair s /\ project (pair s) = s.
  Hypothesis bound : forall s, valid s -> outside s = false -> pair s <= maxf.

  Theorem sm_complete :
    let returned := map project (sm_good State project outside maxf) in
    (forall ml, (forall x, ml x <> x) -> forall n, (length returned <= n)%nat ->
       sm_run State project outside maxf (-1) (sm_incr_calls ml n) =
         map (fun s => (Some s, false)) returned ++ repeat (None, true) (n - length returned))
    /\ NoDup returned
    /\ (forall s, In s returned <-> valid s /\ outside s = false).
  Proof.
    assert (Hinj : forall i j, 0 <= i <= maxf -> 0 <= j <= maxf -> project i = project j -> i = j).
    { intros i j Hi Hj E. destruct (pair_project i Hi) as [_ H1]. destruct (pair_project j Hj) as [_ H2].
      rewrite <- H1, <- H2, E. reflexivity. }
    destruct (sm_states_exactly_once State project outside maxf Hinj) as [Hrun [Hnd Hin]].
    cbn zeta. split; [|split].
    - intros ml Hml n Hn. rewrite map_length in *. rewrite map_map. apply Hrun; assumption.
    - exact Hnd.
    - intros s. rewrite Hin. split.
      + intros [i [Hi [Hs Ho]]]. subst s. split; [apply pair_project; assumption | assumption].
      + intros [Hv Ho]. destruct (project_pair s Hv) as [H0 Hp]. exists (pair s).
        split; [split; [assumption | apply bound; assumption]|]. split; assumption.
  Qed.
End SMComplete.

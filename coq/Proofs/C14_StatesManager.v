(* C14: StatesManager.project_index_to_state_increment (the repaired method), driven with the ranks 0,1,2,... (as
   InversionMethod does), returns the admissible indices of [0, maxf] -- those i with
   outside (project i) = false -- each exactly once, in increasing order, and then signals
   exhaustion forever.  With an injective project: every admissible state exactly once. *)
From Coq Require Import ZArith List Bool Lia.
From RV Require Import Gen.GenPairing Model.Pairing Model.StatesManager Proofs.C14_Lazy Proofs.C14_Pairing2d Proofs.C14_Zd.
Import ListNotations.
Open Scope Z_scope.

(* expected outputs of n calls when the admissible indices still to come are g *)
Fixpoint sm_expect (n : nat) (g : list Z) : list (option Z) :=
  match n with
  | O => []
  | S k => match g with [] => None :: sm_expect k [] | i :: r => Some i :: sm_expect k r end
  end.

Lemma sm_expect_firstn : forall n m g, (n <= m)%nat ->
  sm_expect n g = firstn n (map Some g ++ repeat None m).
Proof.
  induction n as [|n IH]; intros m g Hnm; [reflexivity|].
  destruct m as [|m]; [lia|]. destruct g as [|i r].
  - cbn [sm_expect map app firstn repeat]. f_equal. rewrite (IH m []) by lia. reflexivity.
  - cbn [sm_expect map app firstn]. f_equal. apply IH. lia.
Qed.

Lemma sm_expect_nil n : sm_expect n [] = repeat None n.
Proof. induction n as [|n IH]; cbn; [reflexivity | rewrite IH; reflexivity]. Qed.

Lemma sm_expect_app : forall g n, (length g <= n)%nat ->
  sm_expect n g = map Some g ++ repeat None (n - length g).
Proof.
  induction g as [|i r IH]; intros n Hn.
  - cbn [length map app]. rewrite Nat.sub_0_r. apply sm_expect_nil.
  - cbn [length] in Hn. destruct n as [|n]; [lia|]. cbn [sm_expect map app length Nat.sub].
    f_equal. apply IH. lia.
Qed.

Lemma nth_error_sm_expect : forall n j g, (j < n)%nat ->
  nth_error (sm_expect n g) j = Some (nth_error g j).
Proof.
  induction n as [|n IH]; intros j g Hj; [lia|].
  destruct g as [|i r]; destruct j as [|j]; cbn [sm_expect nth_error]; try reflexivity.
  - rewrite IH by lia. destruct j; reflexivity.
  - apply IH. lia.
Qed.

Lemma NoDup_map_inj_on {A B} (f : A -> B) (l : list A) :
  (forall a b, In a l -> In b l -> f a = f b -> a = b) -> NoDup l -> NoDup (map f l).
Proof.
  induction l as [|x l IH]; intros Hinj Hnd; cbn; [constructor|].
  inversion Hnd as [|? ? Hx Hl]; subst. constructor.
  - intro Hc. apply in_map_iff in Hc. destruct Hc as [y [Hy Hin]].
    assert (y = x) by (apply Hinj; [right; assumption | left; reflexivity | assumption]). subst. contradiction.
  - apply IH; [|assumption]. intros a b Ha Hb. apply Hinj; right; assumption.
Qed.

Definition optZ_eq_dec : forall a b : option Z, {a = b} + {a <> b}.
Proof. decide equality; apply Z.eq_dec. Defined.

(* the history of calls: the k-th call (k = 0,1,...) has x <= b + k and x <> max_logged *)
Fixpoint sm_calls_ok (b : Z) (calls : list (Z * Z)) : Prop :=
  match calls with
  | [] => True
  | c :: r => fst c <= b /\ fst c <> snd c /\ sm_calls_ok (b + 1) r
  end.

Section SM.
  Variable State : Type.
  Variable project : Z -> State.
  Variable outside : State -> bool.
  Variable maxf : Z.

  Definition sm_ok (i : Z) : bool := negb (outside (project i)).
  (* the admissible indices of [0, maxf], increasing *)
  Definition sm_good : list Z := filter sm_ok (zrange (maxf + 1)).

  Fixpoint sm_goods (fuel : nat) (a : Z) : list Z :=
    match fuel with
    | O => []
    | S k => if sm_ok a then a :: sm_goods k (a + 1) else sm_goods k (a + 1)
    end.
  Definition sm_G (a : Z) : list Z := sm_goods (Z.to_nat (maxf + 1 - a)) a.

  Lemma sm_goods_filter : forall fuel a,
    sm_goods fuel a = filter sm_ok (map (fun k => a + Z.of_nat k) (seq 0 fuel)).
  Proof.
    induction fuel as [|k IH]; intros a; [reflexivity|].
    cbn [sm_goods seq map filter]. rewrite <- seq_shift, map_map.
    replace (a + Z.of_nat 0) with a by lia.
    assert (E : map (fun x => a + Z.of_nat (S x)) (seq 0 k) = map (fun x => a + 1 + Z.of_nat x) (seq 0 k))
      by (apply map_ext; intros; lia).
    rewrite E, <- IH. reflexivity.
  Qed.

  Lemma sm_G_0 : sm_G 0 = sm_good.
  Proof.
    unfold sm_G, sm_good, zrange. rewrite sm_goods_filter. replace (maxf + 1 - 0) with (maxf + 1) by lia.
    reflexivity.
  Qed.

  Lemma sm_G_unfold a : a <= maxf -> sm_G a = if sm_ok a then a :: sm_G (a + 1) else sm_G (a + 1).
  Proof.
    intros Ha. unfold sm_G.
    replace (Z.to_nat (maxf + 1 - a)) with (S (Z.to_nat (maxf + 1 - (a + 1)))) by lia. reflexivity.
  Qed.

  Lemma sm_G_empty a : maxf < a -> sm_G a = [].
  Proof. intros Ha. unfold sm_G. replace (Z.to_nat (maxf + 1 - a)) with O by lia. reflexivity. Qed.

  Lemma sm_G_head : forall a i rest, sm_G a = i :: rest ->
    a <= i <= maxf /\ sm_ok i = true /\ rest = sm_G (i + 1).
  Proof.
    intros a. remember (Z.to_nat (maxf + 1 - a)) as n eqn:En. revert a En.
    induction n as [|n IH]; intros a En i rest H.
    - rewrite sm_G_empty in H by lia. discriminate.
    - rewrite sm_G_unfold in H by lia. destruct (sm_ok a) eqn:Eok.
      + injection H as <- <-. repeat split; try lia. exact Eok.
      + destruct (IH (a + 1) ltac:(lia) i rest H) as [H1 [H2 H3]]. repeat split; try assumption; lia.
  Qed.

  Lemma sm_search_goods : forall fuel a,
    sm_search State project outside fuel a =
      match sm_goods fuel a with [] => (None, a + Z.of_nat fuel) | i :: _ => (Some i, i) end.
  Proof.
    induction fuel as [|k IH]; intros a; cbn [sm_search sm_goods].
    - f_equal. lia.
    - unfold sm_ok at 1. destruct (outside (project a)); cbn [negb]; [|reflexivity].
      rewrite IH. destruct (sm_goods k (a + 1)); [f_equal; lia | reflexivity].
  Qed.

  (* one call whose x does not overtake the skip pointer and is not a restart *)
  Lemma sm_step_index_spec st x ml : x <= fst st + 1 -> x <> ml ->
    sm_step_index State project outside maxf st x ml =
      match sm_G (fst st + 1) with
      | [] => (None, (Z.max (fst st + 1) (maxf + 1), snd st))
      | i :: _ => (Some i, (i, if (x <? ml) || (ml <? 0) then i else snd st))
      end.
  Proof.
    intros Hx Hml. unfold sm_step_index. cbn zeta.
    destruct (x =? ml) eqn:E; [apply Z.eqb_eq in E; contradiction|].
    rewrite Z.max_r by lia. rewrite sm_search_goods. fold (sm_G (fst st + 1)).
    destruct (sm_G (fst st + 1)); cbn [fst snd]; [f_equal; f_equal; lia | reflexivity].
  Qed.

  Lemma sm_run_index_expect : forall calls st b, b <= fst st + 1 -> sm_calls_ok b calls ->
    sm_run_index State project outside maxf st calls = sm_expect (length calls) (sm_G (fst st + 1)).
  Proof.
    induction calls as [|c r IH]; intros st b Hb Hok; [reflexivity|].
    destruct Hok as [Hx [Hml Hok]]. cbn [sm_run_index length sm_expect]. cbn zeta.
    rewrite (sm_step_index_spec st (fst c) (snd c)) by (assumption || lia).
    destruct (sm_G (fst st + 1)) as [|i rest] eqn:EG; cbn [fst snd].
    - f_equal. rewrite (IH _ (b + 1)) by (assumption || (cbn [fst]; lia)). cbn [fst].
      rewrite sm_G_empty by lia. reflexivity.
    - destruct (sm_G_head _ _ _ EG) as [Hi [_ Hrest]]. f_equal.
      rewrite (IH _ (b + 1)) by (assumption || (cbn [fst]; lia)). cbn [fst]. rewrite Hrest. reflexivity.
  Qed.

  Lemma sm_run_lift : forall calls st,
    sm_run State project outside maxf st calls =
      map (sm_lift State project) (sm_run_index State project outside maxf st calls).
  Proof. induction calls as [|c r IH]; intros st; [reflexivity|]. cbn. rewrite IH. reflexivity. Qed.

  Lemma sm_incr_calls_ok ml : (forall x, ml x <> x) -> forall n s b, Z.of_nat s <= b ->
    sm_calls_ok b (map (fun k => (Z.of_nat k, ml (Z.of_nat k))) (seq s n)).
  Proof.
    intros Hml. induction n as [|n IH]; intros s b Hs; cbn [seq map sm_calls_ok]; [exact I|].
    cbn [fst snd]. split; [assumption|]. split; [intro E; apply (Hml (Z.of_nat s)); symmetry; exact E|].
    apply IH. lia.
  Qed.

  (* ---- any history in which x never overtakes the number of calls made and never resets ---- *)
  Theorem sm_history_indices : forall calls, sm_calls_ok 0 calls ->
    sm_run_index State project outside maxf sm_init calls =
      firstn (length calls) (map Some sm_good ++ repeat None (length calls)).
  Proof.
    intros calls Hok. rewrite (sm_run_index_expect calls sm_init 0) by (assumption || (cbn; lia)).
    change (fst sm_init + 1) with 0. rewrite sm_G_0. apply sm_expect_firstn. lia.
  Qed.

  (* ---- the increasing drive x = 0, 1, ..., n-1 (max_logged = ml x never equal to x) ---- *)
  Theorem sm_increasing_indices : forall ml, (forall x, ml x <> x) -> forall n,
    sm_run_index State project outside maxf sm_init (sm_incr_calls ml n) =
      firstn n (map Some sm_good ++ repeat None n).
  Proof.
    intros ml Hml n. pose proof (sm_history_indices (sm_incr_calls ml n)) as H.
    unfold sm_incr_calls in *. rewrite map_length, seq_length in H. apply H.
    apply sm_incr_calls_ok; [assumption | lia].
  Qed.

  (* the j-th call (0-based) returns the j-th admissible index, or exhaustion if there is none left *)
  Theorem sm_increasing_nth : forall ml, (forall x, ml x <> x) -> forall n j, (j < n)%nat ->
    nth_error (sm_run_index State project outside maxf sm_init (sm_incr_calls ml n)) j
      = Some (nth_error sm_good j).
  Proof.
    intros ml Hml n j Hj. rewrite sm_increasing_indices by assumption.
    rewrite <- (sm_expect_firstn n n sm_good) by lia. apply nth_error_sm_expect. exact Hj.
  Qed.

  (* after K = length sm_good calls every admissible index has been returned; call number K+1
     (and every later one) signals exhaustion *)
  Theorem sm_increasing_exhaustion : forall ml, (forall x, ml x <> x) -> forall n,
    (length sm_good <= n)%nat ->
    sm_run_index State project outside maxf sm_init (sm_incr_calls ml n) =
      map Some sm_good ++ repeat None (n - length sm_good).
  Proof.
    intros ml Hml n Hn. rewrite sm_increasing_indices by assumption.
    rewrite <- (sm_expect_firstn n n sm_good) by lia. apply sm_expect_app. exact Hn.
  Qed.

  Lemma sm_good_spec i : In i sm_good <-> 0 <= i <= maxf /\ outside (project i) = false.
  Proof.
    unfold sm_good. rewrite filter_In, in_zrange. unfold sm_ok. rewrite negb_true_iff. intuition lia.
  Qed.

  Lemma sm_good_NoDup : NoDup sm_good.
  Proof. unfold sm_good. apply NoDup_filter. apply NoDup_zrange. Qed.

  (* each admissible index is returned by exactly one call, and no other index is returned *)
  Theorem sm_index_exactly_once : forall ml, (forall x, ml x <> x) -> forall n i,
    (length sm_good <= n)%nat ->
    count_occ optZ_eq_dec (sm_run_index State project outside maxf sm_init (sm_incr_calls ml n)) (Some i)
      = if (0 <=? i) && (i <=? maxf) && negb (outside (project i)) then 1%nat else 0%nat.
  Proof.
    intros ml Hml n i Hn. rewrite sm_increasing_exhaustion by assumption.
    rewrite count_occ_app.
    assert (E0 : count_occ optZ_eq_dec (repeat None (n - length sm_good)) (Some i) = 0%nat).
    { apply count_occ_not_In. intro Hin. apply repeat_spec in Hin. discriminate. }
    rewrite E0, Nat.add_0_r.
    destruct ((0 <=? i) && (i <=? maxf) && negb (outside (project i))) eqn:E.
    - apply andb_prop in E. destruct E as [E E3]. apply andb_prop in E. destruct E as [E1 E2].
      apply Z.leb_le in E1. apply Z.leb_le in E2. apply negb_true_iff in E3.
      apply NoDup_count_occ'.
      + apply NoDup_map_inj_on; [intros a b _ _ Hab; congruence | apply sm_good_NoDup].
      + apply in_map. apply sm_good_spec. split; [lia | assumption].
    - apply count_occ_not_In. intro Hin. apply in_map_iff in Hin. destruct Hin as [j [Hj Hin]].
      injection Hj as ->. apply sm_good_spec in Hin. destruct Hin as [[H1 H2] H3].
      apply Z.leb_le in H1. apply Z.leb_le in H2. rewrite H1, H2, H3 in E. discriminate.
  Qed.

  (* ---- states: what the code returns ---- *)
  Theorem sm_increasing_states : forall ml, (forall x, ml x <> x) -> forall n,
    (length sm_good <= n)%nat ->
    sm_run State project outside maxf sm_init (sm_incr_calls ml n) =
      map (fun i => (Some (project i), false)) sm_good ++ repeat (None, true) (n - length sm_good).
  Proof.
    intros ml Hml n Hn. rewrite sm_run_lift, sm_increasing_exhaustion by assumption.
    rewrite map_app, map_map. f_equal.
    induction (n - length sm_good)%nat as [|k IHk]; cbn; [reflexivity | rewrite IHk; reflexivity].
  Qed.

  (* project injective on [0, maxf] (discharged by the bijection theorems of the pairing in use) *)
  Hypothesis project_inj : forall i j, 0 <= i <= maxf -> 0 <= j <= maxf -> project i = project j -> i = j.

  (* every in-grid non-origin state with index <= maxf exactly once before exhaustion:
     the first K = length sm_good calls return the states (map project sm_good), which has no
     duplicates and contains exactly the admissible states of index <= maxf; all later calls
     return (None, true). *)
  Theorem sm_states_exactly_once :
    (forall ml, (forall x, ml x <> x) -> forall n, (length sm_good <= n)%nat ->
       sm_run State project outside maxf sm_init (sm_incr_calls ml n) =
         map (fun i => (Some (project i), false)) sm_good ++ repeat (None, true) (n - length sm_good))
    /\ NoDup (map project sm_good)
    /\ (forall s, In s (map project sm_good) <->
                  exists i, 0 <= i <= maxf /\ project i = s /\ outside s = false).
  Proof.
    split; [exact sm_increasing_states|]. split.
    - apply NoDup_map_inj_on; [|apply sm_good_NoDup].
      intros a b Ha Hb. apply sm_good_spec in Ha. apply sm_good_spec in Hb. apply project_inj; tauto.
    - intros s. rewrite in_map_iff. split.
      + intros [i [Hi Hin]]. apply sm_good_spec in Hin. exists i. subst s. tauto.
      + intros [i [Hi [Hs Ho]]]. exists i. split; [assumption|]. apply sm_good_spec. subst s. tauto.
  Qed.
End SM.

(* ---- instance: the 2-d signed enumeration the library builds on Szudzik (project = PairingToZd.project,
   omit_zero); injectivity is discharged by szudzik_zd2_pair_project ---- *)
Lemma szudzik_zd2_project_inj maxf : forall i j, 0 <= i <= maxf -> 0 <= j <= maxf ->
  zd2_project szudzik_projection2d 1 i = zd2_project szudzik_projection2d 1 j -> i = j.
Proof.
  intros i j Hi Hj E.
  destruct (szudzik_zd2_pair_project i ltac:(lia)) as [_ H1].
  destruct (szudzik_zd2_pair_project j ltac:(lia)) as [_ H2]. cbn zeta in *.
  rewrite <- H1, <- H2, E. reflexivity.
Qed.

Theorem sm_szudzik_zd2_exactly_once (outside : Z * Z -> bool) (maxf : Z) :
  let project := zd2_project szudzik_projection2d 1 in
  let good := sm_good (Z * Z) project outside maxf in
  (forall ml, (forall x, ml x <> x) -> forall n, (length good <= n)%nat ->
     sm_run (Z * Z) project outside maxf sm_init (sm_incr_calls ml n) =
       map (fun i => (Some (project i), false)) good ++ repeat (None, true) (n - length good))
  /\ NoDup (map project good)
  /\ (forall s, In s (map project good) <->
                exists i, 0 <= i <= maxf /\ project i = s /\ outside s = false).
Proof. cbn zeta. apply sm_states_exactly_once. apply szudzik_zd2_project_inj. Qed.

(* non-vacuity: the grid {-1,0,1} x {-2..2} around the origin enumerated through the Szudzik Z^2
   projection, max frontier index 30, driven with x = 0..17 and max_logged = 1000000 *)
Definition sm_ex_outside (s : Z * Z) : bool := (1 <? Z.abs (fst s)) || (2 <? Z.abs (snd s)).
Example sm_nonvacuous :
  let project := zd2_project szudzik_projection2d 1 in
  sm_good (Z * Z) project sm_ex_outside 30 = [0; 1; 2; 3; 4; 5; 6; 7; 8; 9; 10; 15; 16; 17]
  /\ sm_run_index (Z * Z) project sm_ex_outside 30 sm_init (sm_incr_calls (fun _ => 1000000) 17)
     = [Some 0; Some 1; Some 2; Some 3; Some 4; Some 5; Some 6; Some 7; Some 8; Some 9; Some 10; Some 15;
        Some 16; Some 17; None; None; None]
  /\ map fst (sm_run (Z * Z) project sm_ex_outside 30 sm_init (sm_incr_calls (fun _ => 1000000) 16))
     = map Some [(0, 1); (1, 0); (1, 1); (0, -1); (1, -1); (-1, 0); (-1, 1); (-1, -1); (0, 2); (1, 2); (-1, 2);
                 (0, -2); (1, -2); (-1, -2)] ++ [None; None]
  /\ map snd (sm_run (Z * Z) project sm_ex_outside 30 sm_init (sm_incr_calls (fun _ => 1000000) 16))
     = repeat false 14 ++ [true; true].
Proof. vm_compute. repeat split. Qed.

(* ================= every call, restarts included ================= *)
(* the protocol of InversionMethod: x is the rank of the requested admissible state.  After a call with x = prev the
   next call has x = prev + 1 (next state), or x = M after the storage of M states is full (restart of a sample:
   M <= prev), or x = prev again after an exhaustion; max_logged = M (the very first call of InversionMethod.__init__
   passes the default -1).  n = number of admissible indices. *)
Fixpoint sm_protocol (M n prev : Z) (calls : list (Z * Z)) : Prop :=
  match calls with
  | [] => True
  | c :: r => (snd c = M \/ (snd c < 0 /\ fst c < M))
              /\ (fst c = prev + 1 \/ (fst c = M /\ M <= prev) \/ (fst c = prev /\ 0 <= prev /\ n <= prev))
              /\ sm_protocol M n (fst c) r
  end.

Lemma skipn_head_nth {A} (l : list A) : forall n,
  match skipn n l with [] => None | i :: _ => Some i end = nth_error l n.
Proof. induction l as [|a l IH]; intros [|n]; cbn; try reflexivity. apply IH. Qed.

Lemma skipn_tail_S {A} (l : list A) : forall n x r, skipn n l = x :: r -> skipn (S n) l = r.
Proof.
  induction l as [|y l IH]; intros [|n] x r H; cbn in *; try discriminate.
  - inversion H. reflexivity.
  - apply (IH n x r H).
Qed.

Lemma skipn_nil_S {A} (l : list A) : forall n, skipn n l = [] -> skipn (S n) l = [].
Proof. induction l as [|y l IH]; intros [|n] H; cbn in *; try reflexivity; try discriminate. apply IH. exact H. Qed.

Lemma map_nth_error_seq_expect : forall n g, map (nth_error g) (seq 0 n) = sm_expect n g.
Proof.
  induction n as [|n IH]; intros g; [reflexivity|].
  cbn [seq map sm_expect]. rewrite <- seq_shift, map_map. destruct g as [|i r]; cbn [nth_error].
  - f_equal. rewrite <- (IH []). apply map_ext. intros [|k]; reflexivity.
  - f_equal. rewrite <- (IH r). reflexivity.
Qed.

Section SMReset.
  Variable State : Type.
  Variable project : Z -> State.
  Variable outside : State -> bool.
  Variable maxf : Z.
  Notation G := (sm_G State project outside maxf).
  Notation good := (sm_good State project outside maxf).

  (* ANY call: the search starts at xx = max x (p + 1), p = the logged pointer on a restart (x = max_logged), else the
     skip pointer; it returns the first admissible index >= xx, which becomes the skip pointer, and the logged pointer
     when x < max_logged (or max_logged < 0); else exhaustion with skip pointer max xx (maxf+1) *)
  Theorem sm_step_index_char st x ml :
    sm_step_index State project outside maxf st x ml =
      let xx := Z.max x ((if x =? ml then snd st else fst st) + 1) in
      match G xx with
      | [] => (None, (Z.max xx (maxf + 1), snd st))
      | i :: _ => (Some i, (i, if (x <? ml) || (ml <? 0) then i else snd st))
      end.
  Proof.
    unfold sm_step_index. cbn zeta. set (xx := Z.max x ((if x =? ml then snd st else fst st) + 1)).
    rewrite sm_search_goods. fold (G xx). destruct (G xx); cbn [fst snd]; [f_equal; f_equal; lia | reflexivity].
  Qed.

  Lemma sm_G_mono_nil b : forall n a, Z.to_nat (b - a) = n -> a <= b -> G a = [] -> G b = [].
  Proof.
    induction n as [|n IH]; intros a Hn Hab H.
    - replace b with a by lia. exact H.
    - destruct (Z_lt_le_dec maxf a) as [Hm|Hm]; [apply sm_G_empty; lia|].
      rewrite sm_G_unfold in H by lia. destruct (sm_ok State project outside a); [discriminate|].
      apply (IH (a + 1)); [lia | lia | exact H].
  Qed.

  Lemma sm_G_nil_le a b : G a = [] -> a <= b -> G b = [].
  Proof. intros H Hab. apply (sm_G_mono_nil b (Z.to_nat (b - a)) a eq_refl Hab H). Qed.

  (* invariant after a call with x = prev: both pointers sit on the admissible index of the right rank *)
  Definition sm_inv (M prev : Z) (st : Z * Z) : Prop :=
    prev <= fst st /\ G (fst st + 1) = skipn (Z.to_nat (prev + 1)) good
    /\ G (snd st + 1) = skipn (Z.to_nat (Z.min prev (M - 1) + 1)) good
    /\ (Z.min prev (M - 1) <= snd st \/ skipn (Z.to_nat (Z.min prev (M - 1) + 1)) good = []).

  Lemma sm_inv_init M : 1 <= M -> sm_inv M (-1) sm_init.
  Proof.
    intros HM. unfold sm_inv, sm_init. cbn [fst snd]. rewrite Z.min_l by lia. change (-1 + 1) with 0.
    change (Z.to_nat 0) with O. cbn [skipn]. rewrite sm_G_0. split; [lia|]. split; [reflexivity|]. split; [reflexivity|]. left. lia.
  Qed.

  Lemma sm_step_protocol M prev st x ml : 1 <= M -> -1 <= prev -> sm_inv M prev st ->
    (ml = M \/ (ml < 0 /\ x < M)) ->
    (x = prev + 1 \/ (x = M /\ M <= prev) \/ (x = prev /\ 0 <= prev /\ Z.of_nat (length good) <= prev)) ->
    fst (sm_step_index State project outside maxf st x ml) = nth_error good (Z.to_nat x)
    /\ sm_inv M x (snd (sm_step_index State project outside maxf st x ml)).
  Proof.
    intros HM Hprev [A1 [A2 [B1 B2]]] Hml Hx.
    assert (Hx0 : 0 <= x) by lia.
    set (r := Z.min prev (M - 1)) in *.
    rewrite sm_step_index_char. cbn zeta.
    set (xx := Z.max x ((if x =? ml then snd st else fst st) + 1)).
    assert (Hxx : x <= xx) by (unfold xx; lia).
    (* the search starts where the admissible indices of rank >= x start *)
    assert (HG : G xx = skipn (Z.to_nat x) good).
    { unfold xx. destruct (x =? ml) eqn:E.
      - apply Z.eqb_eq in E. assert (ExM : x = M) by lia.
        assert (Er : r + 1 = x) by (unfold r; lia). rewrite Er in B1, B2.
        destruct B2 as [B2|B2].
        + rewrite Z.max_r by lia. exact B1.
        + rewrite B2 in *. apply (sm_G_nil_le (snd st + 1)); [exact B1 | lia].
      - apply Z.eqb_neq in E. destruct Hx as [Hx|[[Hx1 Hx2]|[Hx1 [Hx2 Hx3]]]].
        + rewrite Z.max_r by lia. rewrite A2, Hx. reflexivity.
        + exfalso. lia.
        + rewrite Z.max_r by lia. rewrite A2.
          rewrite !skipn_all2 by lia. reflexivity. }
    rewrite HG. rewrite <- skipn_head_nth.
    assert (ES : Z.to_nat (x + 1) = S (Z.to_nat x)) by lia.
    (* the logged pointer is written iff x < M *)
    assert (Hlog : ((x <? ml) || (ml <? 0)) = (x <? M)).
    { destruct Hml as [->|[H1 H2]]; [destruct (M <? 0) eqn:E; [apply Z.ltb_lt in E; lia | apply orb_false_r]|].
      assert ((ml <? 0) = true) as -> by (apply Z.ltb_lt; lia). rewrite orb_true_r. symmetry. apply Z.ltb_lt. lia. }
    (* above the storage the rank of the logged state does not move *)
    assert (Hr : M <= x -> Z.min x (M - 1) = r) by (intros; unfold r; lia).
    destruct (skipn (Z.to_nat x) good) as [|i rest] eqn:Es; cbn [fst snd].
    - split; [reflexivity|]. unfold sm_inv. cbn [fst snd].
      split; [lia|]. split; [rewrite sm_G_empty by lia; rewrite ES; symmetry; apply skipn_nil_S; exact Es|].
      destruct (Z_lt_le_dec x M) as [HxM|HxM].
      + rewrite Z.min_l by lia. rewrite ES, (skipn_nil_S _ _ Es).
        split; [|right; reflexivity].
        destruct Hx as [Hx|[[Hx1 Hx2]|[Hx1 [Hx2 Hx3]]]]; [|lia|].
        * assert (Er : r + 1 = x) by (unfold r; lia). rewrite Er, Es in B1. exact B1.
        * assert (Er : r + 1 = x + 1) by (unfold r; lia). rewrite Er, ES, (skipn_nil_S _ _ Es) in B1. exact B1.
      + rewrite (Hr HxM). split; assumption.
    - split; [reflexivity|].
      destruct (sm_G_head _ _ _ _ _ _ _ HG) as [Hi [_ Hrest]].
      unfold sm_inv. cbn [fst snd]. rewrite Hlog.
      split; [lia|]. split; [rewrite <- Hrest, ES; symmetry; eapply skipn_tail_S; exact Es|].
      destruct (x <? M) eqn:E; [apply Z.ltb_lt in E | apply Z.ltb_ge in E].
      + rewrite Z.min_l by lia. split; [rewrite <- Hrest, ES; symmetry; eapply skipn_tail_S; exact Es | left; lia].
      + rewrite (Hr E). split; assumption.
  Qed.

  Lemma sm_run_protocol M : 1 <= M -> forall calls prev st, -1 <= prev -> sm_inv M prev st ->
    sm_protocol M (Z.of_nat (length good)) prev calls ->
    sm_run_index State project outside maxf st calls = map (fun c => nth_error good (Z.to_nat (fst c))) calls.
  Proof.
    intros HM. induction calls as [|c r IH]; intros prev st Hprev Hinv Hp; [reflexivity|].
    destruct Hp as [Hml [Hx Hp]]. cbn [sm_run_index map]. cbn zeta.
    destruct (sm_step_protocol M prev st (fst c) (snd c) HM Hprev Hinv Hml Hx) as [Hout Hinv'].
    rewrite Hout. f_equal. apply (IH (fst c)); [lia | exact Hinv' | exact Hp].
  Qed.

  (* restarts are harmless for EVERY enumeration: under the protocol the call with rank x returns the x-th admissible
     index (exhaustion when there is none), whatever was skipped before and however often a sample restarts at x = M *)
  Theorem sm_protocol_spec : forall M calls, 1 <= M ->
    sm_protocol M (Z.of_nat (length good)) (-1) calls ->
    sm_run_index State project outside maxf sm_init calls = map (fun c => nth_error good (Z.to_nat (fst c))) calls.
  Proof. intros M calls HM Hp. apply (sm_run_protocol M HM calls (-1)); [lia | apply sm_inv_init; exact HM | exact Hp]. Qed.

  Lemma sm_incr_protocol M n0 : forall n s prev, Z.of_nat s = prev + 1 ->
    sm_protocol M n0 prev (map (fun k => (Z.of_nat k, M)) (seq s n)).
  Proof.
    induction n as [|n IH]; intros s prev Hs; cbn [seq map sm_protocol]; [exact I|]. cbn [fst snd].
    split; [left; reflexivity|]. split; [left; exact Hs|]. apply IH. lia.
  Qed.

  (* the increasing drive x = 0,1,2,... with max_logged = M (a restart at call M) *)
  Theorem sm_increasing_const_ml : forall M n, 1 <= M ->
    sm_run_index State project outside maxf sm_init (sm_incr_calls (fun _ => M) n) =
      firstn n (map Some good ++ repeat None n).
  Proof.
    intros M n HM. unfold sm_incr_calls. rewrite (sm_protocol_spec M) by (assumption || (apply sm_incr_protocol; reflexivity)).
    rewrite map_map. cbn [fst].
    rewrite (map_ext _ (nth_error good)) by (intros; rewrite Nat2Z.id; reflexivity).
    rewrite map_nth_error_seq_expect. apply sm_expect_firstn. lia.
  Qed.

  Theorem sm_increasing_states_const_ml : forall M n, 1 <= M -> (length good <= n)%nat ->
    sm_run State project outside maxf sm_init (sm_incr_calls (fun _ => M) n) =
      map (fun i => (Some (project i), false)) good ++ repeat (None, true) (n - length good).
  Proof.
    intros M n HM Hn. rewrite sm_run_lift, sm_increasing_const_ml by assumption.
    rewrite <- (sm_expect_firstn n n good) by lia. rewrite sm_expect_app by assumption.
    rewrite map_app, map_map. f_equal.
    induction (n - length good)%nat as [|k IHk]; cbn; [reflexivity | rewrite IHk; reflexivity].
  Qed.
End SMReset.

(* non-vacuity, and the witness of the old finding F-C14-6 on the repaired method: indices 0..3, index 1 inadmissible,
   max_logged = 2: calls 0,1,2,3 return 0, 2, 3, exhaustion (the unrepaired method returned 0, 2, 2, 3); then two samples
   restarting at rank 2 *)
Example sm_restart_nonvacuous :
  sm_run_index Z (fun i => i) (fun i => i =? 1) 3 sm_init (sm_incr_calls (fun _ => 2) 4) = [Some 0; Some 2; Some 3; None]
  /\ sm_run_index Z (fun i => i) (fun i => i =? 1) 3 sm_init [(0, -1); (1, 2); (2, 2); (2, 2); (3, 2); (2, 2)]
     = [Some 0; Some 2; Some 3; Some 3; None; Some 3]
  /\ sm_protocol 2 3 (-1) [(0, -1); (1, 2); (2, 2); (2, 2); (3, 2); (2, 2)].
Proof.
  split; [vm_compute; reflexivity|]. split; [vm_compute; reflexivity|].
  cbn [sm_protocol fst snd].
  repeat (split; [first [left; lia | right; lia] | split; [first [left; lia | right; left; lia | right; right; lia]|]]). exact I.
Qed.

(* ================= completeness: every admissible state exactly once ================= *)
Section SMComplete.
  Variable State : Type.
  Variable project : Z -> State.
  Variable pair : State -> Z.
  Variable outside : State -> bool.
  Variable maxf : Z.
  Variable valid : State -> Prop.          (* the states the enumeration ranges over (in range, not the origin) *)
  Hypothesis pair_project : forall i, 0 <= i <= maxf -> valid (project i) /\ pair (project i) = i.
  Hypothesis project_pair : forall s, valid s -> 0 <= pair s /\ project (pair s) = s.
  Hypothesis bound : forall s, valid s -> outside s = false -> pair s <= maxf.

  Theorem sm_complete :
    let returned := map project (sm_good State project outside maxf) in
    (forall ml, (forall x, ml x <> x) -> forall n, (length returned <= n)%nat ->
       sm_run State project outside maxf sm_init (sm_incr_calls ml n) =
         map (fun s => (Some s, false)) returned ++ repeat (None, true) (n - length returned))
    /\ NoDup returned
    /\ (forall s, In s returned <-> valid s /\ outside s = false).
  Proof.
    assert (Hinj : forall i j, 0 <= i <= maxf -> 0 <= j <= maxf -> project i = project j -> i = j).
    { intros i j Hi Hj E. destruct (pair_project i Hi) as [_ H1]. destruct (pair_project j Hj) as [_ H2].
      rewrite <- H1, <- H2, E. reflexivity. }
    destruct (sm_states_exactly_once State project outside maxf Hinj) as [Hrun [Hnd Hin]].
    cbn zeta. split; [|split].
    - intros ml Hml n Hn. rewrite map_length in *. rewrite map_map. apply Hrun; assumption.
    - exact Hnd.
    - intros s. rewrite Hin. split.
      + intros [i [Hi [Hs Ho]]]. subst s. split; [apply pair_project; assumption | assumption].
      + intros [Hv Ho]. destruct (project_pair s Hv) as [H0 Hp]. exists (pair s).
        split; [split; [assumption | apply bound; assumption]|]. split; assumption.
  Qed.
End SMComplete.

(* C14 (wave 6) -- upper_bound_a_n: complete sweep of the brackets the float guesses of inv_guess_a give on the real implementation.
   Proofs.C14_Hyperbolic.upper_bound_a_n_spec is conditional on ub_bracket_ok (the bracket [n_low, n_guess] resp. [n_guess, n_high]
   the three guesses select contains the answer).  Here: a boolean version of that condition, a checker for a table of recorded
   guesses (z, n_low, n_guess, n_high), z = 0..N complete and in order, and the theorem that a table that passes the checker yields
   the unconditional conclusion for every 0 <= z <= N.  The harness (harness/c14_ubsweep.py) records the table on /repo at every run
   and generates the file that instantiates ub_table_spec (vm_compute of the checker on the literal table: a finite domain swept
   completely, the bound N in the statement). *)
From Coq Require Import ZArith List Bool Lia.
From RV Require Import Base.Corr Model.Pairing Model.Hyperbolic Proofs.C14_Hyperbolic.
Import ListNotations.
Open Scope Z_scope.

(* a_n is evaluated at most twice per row: a_n n_guess, then a_n n_low or a_n n_high (or neither when a_n n_guess = z) *)
Definition ub_bracket_okb (z lo g hi : Z) : bool :=
  let ag := a_n g in
  (0 <=? g) &&
  (if z <? ag then (0 <=? lo) && (a_n lo <=? z)
   else if ag <? z then z <? a_n hi
   else true).

Lemma ub_bracket_okb_sound z lo g hi : ub_bracket_okb z lo g hi = true -> ub_bracket_ok z lo g hi.
Proof.
  unfold ub_bracket_okb, ub_bracket_ok. cbv zeta. intros H.
  apply andb_true_iff in H. destruct H as [Hg H]. apply Z.leb_le in Hg.
  split; [exact Hg|].
  destruct (Z.ltb_spec z (a_n g)) as [Hlt|Hge].
  - apply andb_true_iff in H. destruct H as [Hlo Ha]. apply Z.leb_le in Hlo. apply Z.leb_le in Ha.
    split; [intros _; split; assumption | intros Hc; lia].
  - split; [intros Hc; lia|].
    destruct (Z.ltb_spec (a_n g) z) as [Hlt|Hge2].
    + intros _. apply Z.ltb_lt in H. exact H.
    + intros Hc; lia.
Qed.

Definition ub_row_z (r : Z * Z * Z * Z) : Z := fst (fst (fst r)).
Definition ub_row_okb (r : Z * Z * Z * Z) : bool :=
  match r with (z, lo, g, hi) => ub_bracket_okb z lo g hi end.

(* the z column is exactly 0, 1, ..., N (complete, in order) and every row is a valid bracket *)
Definition ub_table_ok (N : Z) (table : list (Z * Z * Z * Z)) : bool :=
  zlist_eqb (map ub_row_z table) (zrange (N + 1)) && forallb ub_row_okb table.

Lemma zlist_eqb_eq : forall l1 l2 : list Z, zlist_eqb l1 l2 = true -> l1 = l2.
Proof.
  unfold zlist_eqb. induction l1 as [|x r1 IH]; intros [|y r2] H; cbn [list_eqb] in H; try discriminate; [reflexivity|].
  apply andb_true_iff in H. destruct H as [Hx Hr]. apply Z.eqb_eq in Hx. subst y. f_equal. apply IH; exact Hr.
Qed.

Lemma in_zrange z n : 0 <= z < n -> In z (zrange n).
Proof.
  intros Hz. unfold zrange. apply in_map_iff. exists (Z.to_nat z). split; [apply Z2Nat.id; lia|].
  apply in_seq. lia.
Qed.

Theorem ub_table_spec : forall N table, ub_table_ok N table = true ->
  forall z, 0 <= z <= N ->
  exists lo g hi, In (z, lo, g, hi) table /\ ub_bracket_ok z lo g hi /\
    let n := upper_bound_a_n z lo g hi in 1 <= n /\ a_n (n - 1) <= z < a_n n.
Proof.
  intros N table Hok z Hz. unfold ub_table_ok in Hok.
  apply andb_true_iff in Hok. destruct Hok as [Hzs Hall].
  apply zlist_eqb_eq in Hzs.
  assert (Hin : In z (map ub_row_z table)) by (rewrite Hzs; apply in_zrange; lia).
  apply in_map_iff in Hin. destruct Hin as [[[[z' lo] g] hi] [Hrz Hrow]].
  unfold ub_row_z in Hrz. cbn [fst] in Hrz. subst z'.
  rewrite forallb_forall in Hall. specialize (Hall _ Hrow). cbn [ub_row_okb] in Hall.
  apply ub_bracket_okb_sound in Hall.
  exists lo, g, hi. split; [exact Hrow|]. split; [exact Hall|].
  apply upper_bound_a_n_spec; [lia | exact Hall].
Qed.

(* ---- the same check, cheap enough for vm_compute on ~10^5 rows: the z column is compared with a running counter (zrange builds
   every element with Z.of_nat, quadratic), and a_n is memoised per column on the last argument (consecutive rows mostly repeat
   n_low, n_guess, n_high: about ln z rows per value).  A cache is a pair (k, v) with v = a_n k. *)
Fixpoint ub_zcol_okb (k N : Z) (rows : list (Z * Z * Z * Z)) : bool :=
  match rows with
  | [] => k =? N + 1
  | r :: rest => if ub_row_z r =? k then ub_zcol_okb (k + 1) N rest else false
  end.

Definition an_cached (c : Z * Z) (k : Z) : Z * Z := if k =? fst c then c else (k, a_n k).
Definition an_cache_ok (c : Z * Z) : Prop := snd c = a_n (fst c).
Definition ub_caches : Type := (Z * Z) * (Z * Z) * (Z * Z).       (* for n_low, n_guess, n_high *)
Definition ub_caches_ok (st : ub_caches) : Prop :=
  match st with (cl, cg, ch) => an_cache_ok cl /\ an_cache_ok cg /\ an_cache_ok ch end.
Definition ub_caches0 : ub_caches := ((0, 0), (0, 0), (0, 0)).

Definition ub_row_step (st : ub_caches) (r : Z * Z * Z * Z) : bool * ub_caches :=
  match st, r with
  | (cl, cg, ch), (z, lo, g, hi) =>
      let cg' := an_cached cg g in
      let ag := snd cg' in
      if z <? ag then let cl' := an_cached cl lo in ((0 <=? g) && ((0 <=? lo) && (snd cl' <=? z)), (cl', cg', ch))
      else if ag <? z then let ch' := an_cached ch hi in ((0 <=? g) && (z <? snd ch'), (cl, cg', ch'))
      else ((0 <=? g) && true, (cl, cg', ch))
  end.

Fixpoint ub_rows_fast (st : ub_caches) (rows : list (Z * Z * Z * Z)) : bool :=
  match rows with
  | [] => true
  | r :: rest => let (b, st') := ub_row_step st r in if b then ub_rows_fast st' rest else false
  end.

Definition ub_table_ok_fast (N : Z) (table : list (Z * Z * Z * Z)) : bool :=
  ub_zcol_okb 0 N table && ub_rows_fast ub_caches0 table.

Lemma an_cached_spec c k : an_cache_ok c -> an_cache_ok (an_cached c k) /\ snd (an_cached c k) = a_n k.
Proof.
  unfold an_cached, an_cache_ok. intros Hc. destruct (Z.eqb_spec k (fst c)) as [->|Hne]; cbn [fst snd]; split; auto.
Qed.

Lemma ub_row_step_spec st r : ub_caches_ok st ->
  fst (ub_row_step st r) = ub_row_okb r /\ ub_caches_ok (snd (ub_row_step st r)).
Proof.
  destruct st as [[cl cg] ch]. destruct r as [[[z lo] g] hi]. intros (Hl & Hg & Hh).
  unfold ub_row_step, ub_row_okb, ub_bracket_okb. cbv zeta.
  destruct (an_cached_spec cg g Hg) as [Hg' Eg]. rewrite Eg.
  destruct (z <? a_n g).
  - destruct (an_cached_spec cl lo Hl) as [Hl' El]. rewrite El. cbn [fst snd ub_caches_ok]. auto.
  - destruct (a_n g <? z).
    + destruct (an_cached_spec ch hi Hh) as [Hh' Eh]. rewrite Eh. cbn [fst snd ub_caches_ok]. auto.
    + cbn [fst snd ub_caches_ok]. auto.
Qed.

Lemma ub_rows_fast_sound : forall rows st, ub_caches_ok st -> ub_rows_fast st rows = true -> forallb ub_row_okb rows = true.
Proof.
  induction rows as [|r rest IH]; intros st Hst H; [reflexivity|].
  cbn [ub_rows_fast] in H. destruct (ub_row_step_spec st r Hst) as [Eb Hst'].
  destruct (ub_row_step st r) as [b st']. cbn [fst snd] in Eb, Hst'.
  cbn [forallb]. rewrite <- Eb. destruct b; [|discriminate]. cbn [andb]. apply (IH st'); assumption.
Qed.

Lemma ub_zcol_okb_sound : forall rows k N, 0 <= k -> ub_zcol_okb k N rows = true ->
  map ub_row_z rows = map Z.of_nat (seq (Z.to_nat k) (Z.to_nat (N + 1 - k))).
Proof.
  assert (Hlen : forall rows k N, ub_zcol_okb k N rows = true -> Z.of_nat (length rows) = N + 1 - k).
  { induction rows as [|r rest IH]; intros k N H; cbn [ub_zcol_okb] in H.
    - apply Z.eqb_eq in H. cbn [length]. lia.
    - destruct (ub_row_z r =? k); [|discriminate]. apply IH in H. cbn [length]. lia. }
  induction rows as [|r rest IH]; intros k N Hk H.
  - apply Hlen in H. cbn [length] in H. replace (N + 1 - k) with 0 by lia. reflexivity.
  - pose proof (Hlen _ _ _ H) as HL. cbn [length] in HL. cbn [ub_zcol_okb] in H.
    destruct (Z.eqb_spec (ub_row_z r) k) as [Hz|]; [|discriminate].
    replace (Z.to_nat (N + 1 - k)) with (S (Z.to_nat (N + 1 - (k + 1)))) by lia.
    cbn [seq map]. rewrite Hz. rewrite Z2Nat.id by lia. f_equal.
    rewrite (IH (k + 1) N) by (lia || exact H). f_equal. f_equal. lia.
Qed.

Lemma ub_table_ok_fast_sound N table : ub_table_ok_fast N table = true -> ub_table_ok N table = true.
Proof.
  unfold ub_table_ok_fast, ub_table_ok. intros H. apply andb_true_iff in H. destruct H as [Hz Hr].
  apply andb_true_iff. split.
  - apply ub_zcol_okb_sound in Hz; [|lia]. rewrite Hz. unfold zrange. cbn [Z.to_nat]. rewrite Z.sub_0_r.
    clear. unfold zlist_eqb. induction (map Z.of_nat (seq 0 (Z.to_nat (N + 1)))) as [|x l IH]; cbn [list_eqb]; [reflexivity|].
    rewrite Z.eqb_refl. exact IH.
  - apply (ub_rows_fast_sound table ub_caches0); [|exact Hr].
    cbn [ub_caches0 ub_caches_ok]. unfold an_cache_ok. cbn [fst snd]. repeat split; vm_compute; reflexivity.
Qed.

(* non-vacuity: the rows /repo's upper_bound_a_n really produces for z = 0..7 (a_n = 0, 1, 3, 5, 8, 10, 14, 16, ...; z = 4, 7 take the
   [n_low, n_guess] branch, z = 5, 6 the [n_guess, n_high] branch, z = 1, 3 hit a_n n_guess = z) pass the checker; the checker
   rejects an incomplete z column and a bracket that misses the answer *)
Example ub_table_nonvacuous :
  ub_table_ok 7 [(0, 0, 0, 0); (1, 0, 1, 3); (2, 0, 2, 3); (3, 0, 2, 4); (4, 0, 3, 4); (5, 0, 3, 5); (6, 1, 3, 5); (7, 2, 4, 6)] = true.
Proof. vm_compute. reflexivity. Qed.
Example ub_table_rejects_gap :
  ub_table_ok 7 [(0, 0, 0, 0); (1, 0, 1, 3); (2, 0, 2, 3); (3, 0, 2, 4); (5, 0, 3, 5); (6, 1, 3, 5); (7, 2, 4, 6)] = false.
Proof. vm_compute. reflexivity. Qed.
Example ub_table_rejects_bad_bracket :           (* z = 6: a_n 3 = 5 < 6 but n_high = 3 gives a_n 3 = 5, not > 6 *)
  ub_table_ok 7 [(0, 0, 0, 0); (1, 0, 1, 3); (2, 0, 2, 3); (3, 0, 2, 4); (4, 0, 3, 4); (5, 0, 3, 5); (6, 1, 3, 3); (7, 2, 4, 6)] = false.
Proof. vm_compute. reflexivity. Qed.
Example ub_table_rejects_bad_low :               (* z = 7: a_n 4 = 8 > 7 but n_low = 4 gives a_n 4 = 8, not <= 7 *)
  ub_table_ok 7 [(0, 0, 0, 0); (1, 0, 1, 3); (2, 0, 2, 3); (3, 0, 2, 4); (4, 0, 3, 4); (5, 0, 3, 5); (6, 1, 3, 5); (7, 4, 4, 6)] = false.
Proof. vm_compute. reflexivity. Qed.

Example ub_table_fast_nonvacuous :
  ub_table_ok_fast 7 [(0, 0, 0, 0); (1, 0, 1, 3); (2, 0, 2, 3); (3, 0, 2, 4); (4, 0, 3, 4); (5, 0, 3, 5); (6, 1, 3, 5); (7, 2, 4, 6)] = true.
Proof. vm_compute. reflexivity. Qed.

Print Assumptions ub_bracket_okb_sound.
Print Assumptions ub_table_spec.
Print Assumptions ub_table_ok_fast_sound.

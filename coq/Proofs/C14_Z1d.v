(* C14: PairingToZ1d enumerates every non-zero state of [-L,R] exactly once; pair inverts project. *)
From Coq Require Import ZArith Bool Lia List.
From RV Require Import Gen.GenPairing Model.Pairing Proofs.C14_Pairing2d.
Open Scope Z_scope.

Lemma projection_to_z_odd k : projection_to_z (2 * k - 1) = k.
Proof.
  unfold projection_to_z. replace (2 * k - 1) with (1 + (k - 1) * 2) by ring.
  rewrite Z.div_add by lia. rewrite Z_mod_plus_full. cbn. lia.
Qed.
Lemma projection_to_z_even k : projection_to_z (2 * k) = - k.
Proof.
  unfold projection_to_z. replace (2 * k) with (0 + k * 2) by ring.
  rewrite Z.div_add by lia. rewrite Z_mod_plus_full. cbn. lia.
Qed.
Lemma parity_cases y : exists k, y = 2 * k - 1 \/ y = 2 * k.
Proof.
  pose proof (Z_div_mod_eq_full y 2). pose proof (Z.mod_pos_bound y 2 ltac:(lia)).
  assert (Hr : y mod 2 = 0 \/ y mod 2 = 1) by lia. destruct Hr as [Hr|Hr].
  - exists (y / 2). right. lia.
  - exists (y / 2 + 1). left. lia.
Qed.

Section Z1d.
  Variables L R : Z.
  Hypothesis HL : 0 < L.
  Hypothesis HR : 0 < R.

  (* state-of-index lands in the interval, is non-zero, and index-of-state inverts it *)
  Lemma z1d_project_spec x : 0 <= x < L + R ->
    let s := z1d_project (- L) R 1 x in
    - L <= s <= R /\ s <> 0 /\ z1d_pair (- L) R 1 s = x.
  Proof.
    intros Hx. unfold z1d_project, z1d_pair, z1d_proj_right, z1d_proj_left, mapping_to_z.
    rewrite Z.abs_opp, (Z.abs_eq L) by lia. rewrite Z.opp_involutive.
    destruct (parity_cases (x + 1)) as [k [Hk|Hk]]; rewrite Hk;
      rewrite ?projection_to_z_odd, ?projection_to_z_even;
      destruct (L <? R) eqn:E1; [apply Z.ltb_lt in E1 | apply Z.ltb_ge in E1 | apply Z.ltb_lt in E1 | apply Z.ltb_ge in E1];
      try (destruct (R <? L) eqn:E2; [apply Z.ltb_lt in E2 | apply Z.ltb_ge in E2]);
      repeat match goal with
      | |- context [Z.ltb ?a ?b] => let E := fresh "E" in destruct (Z.ltb a b) eqn:E; [apply Z.ltb_lt in E | apply Z.ltb_ge in E]
      | |- context [Z.leb ?a ?b] => let E := fresh "E" in destruct (Z.leb a b) eqn:E; [apply Z.leb_le in E | apply Z.leb_gt in E]
      end; lia.
  Qed.

  (* every non-zero state has an index below L+R whose state it is *)
  Lemma z1d_pair_spec s : - L <= s <= R -> s <> 0 ->
    let x := z1d_pair (- L) R 1 s in
    0 <= x < L + R /\ z1d_project (- L) R 1 x = s.
  Proof.
    intros Hs Hs0. unfold z1d_project, z1d_pair, z1d_proj_right, z1d_proj_left, mapping_to_z.
    rewrite Z.abs_opp, (Z.abs_eq L) by lia. rewrite Z.opp_involutive.
    destruct (Z.leb (Z.abs s) (Z.min R L)) eqn:E0; [apply Z.leb_le in E0 | apply Z.leb_gt in E0].
    - destruct (Z.ltb 0 s) eqn:Es; [apply Z.ltb_lt in Es | apply Z.ltb_ge in Es].
      + replace (2 * s - 1 - 1 + 1) with (2 * s - 1) by ring. rewrite projection_to_z_odd.
        destruct (L <? R) eqn:E1; [apply Z.ltb_lt in E1 | apply Z.ltb_ge in E1];
        try (destruct (R <? L) eqn:E2; [apply Z.ltb_lt in E2 | apply Z.ltb_ge in E2]);
        repeat match goal with
        | |- context [Z.ltb ?a ?b] => let E := fresh "E" in destruct (Z.ltb a b) eqn:E; [apply Z.ltb_lt in E | apply Z.ltb_ge in E]
        end; lia.
      + replace (-2 * s - 1 + 1) with (2 * (- s)) by ring. rewrite projection_to_z_even.
        destruct (L <? R) eqn:E1; [apply Z.ltb_lt in E1 | apply Z.ltb_ge in E1];
        try (destruct (R <? L) eqn:E2; [apply Z.ltb_lt in E2 | apply Z.ltb_ge in E2]);
        repeat match goal with
        | |- context [Z.ltb ?a ?b] => let E := fresh "E" in destruct (Z.ltb a b) eqn:E; [apply Z.ltb_lt in E | apply Z.ltb_ge in E]
        end; lia.
    - destruct (L <? R) eqn:E1; [apply Z.ltb_lt in E1 | apply Z.ltb_ge in E1].
      + replace (s - - L - 1 + 1) with (s + L) by ring.
        destruct (Z.ltb (1 - 2 * - L) (s + L)) eqn:E3; [apply Z.ltb_lt in E3 | apply Z.ltb_ge in E3].
        * lia.
        * (* s = L+1: the last index of the symmetric part *)
          assert (s = L + 1) by lia. subst s.
          replace (L + 1 + L) with (2 * (L + 1) - 1) by ring. rewrite projection_to_z_odd. lia.
      + destruct (R <? L) eqn:E2; [apply Z.ltb_lt in E2 | apply Z.ltb_ge in E2]; [|lia].
        replace (R - s - 1 + 1) with (R - s) by ring.
        destruct (Z.ltb (2 * R) (R - s)) eqn:E3; [apply Z.ltb_lt in E3 | apply Z.ltb_ge in E3]; lia.
  Qed.
End Z1d.

(* C14: PairingToZd (dimension 2, omit_zero) enumerates Z^2 \ {0} exactly once. *)
From Coq Require Import ZArith Bool Lia List.
From RV Require Import Gen.GenPairing Model.Pairing Proofs.C14_Pairing2d.
Open Scope Z_scope.

Section Zd2.
  Variable pairing2d : Z -> Z -> Z.
  Variable projection2d : Z -> Z * Z.
  Hypothesis proj_pair : forall x y, 0 <= x -> 0 <= y -> projection2d (pairing2d x y) = (x, y).
  Hypothesis pair_proj : forall z, 0 <= z ->
    let p := projection2d z in 0 <= fst p /\ 0 <= snd p /\ pairing2d (fst p) (snd p) = z.
  Hypothesis pair_zero : pairing2d 0 0 = 0.

  Hypothesis pairing_nonneg : forall x y, 0 <= x -> 0 <= y -> 0 <= pairing2d x y.

  Lemma pairing_pos x y : 0 <= x -> 0 <= y -> (x, y) <> (0, 0) -> 0 < pairing2d x y.
  Proof.
    intros Hx Hy Hne. pose proof (pairing_nonneg x y Hx Hy) as H0.
    destruct (Z.eq_dec (pairing2d x y) 0) as [E|]; [|lia].
    exfalso. apply Hne. rewrite <- (proj_pair x y Hx Hy), E. rewrite <- pair_zero at 1. apply proj_pair; lia.
  Qed.

  Theorem zd2_project_pair s : s <> (0, 0) ->
    let n := zd2_pair pairing2d 1 s in 0 <= n /\ zd2_project projection2d 1 n = s.
  Proof.
    intros Hs. destruct s as [a b]. unfold zd2_pair, zd2_project. cbn [fst snd].
    pose proof (mapping_to_z_nonneg a) as Ha. pose proof (mapping_to_z_nonneg b) as Hb.
    assert (Hne : (mapping_to_z a, mapping_to_z b) <> (0, 0)).
    { intro E. assert (E1 : mapping_to_z a = 0) by congruence. assert (E2 : mapping_to_z b = 0) by congruence.
      apply Hs. rewrite <- (proj_map_z a), <- (proj_map_z b), E1, E2. reflexivity. }
    pose proof (pairing_pos _ _ Ha Hb Hne) as Hp.
    split; [lia|].
    replace (pairing2d (mapping_to_z a) (mapping_to_z b) - 1 + 1) with (pairing2d (mapping_to_z a) (mapping_to_z b)) by ring.
    rewrite proj_pair by assumption. cbn [fst snd]. rewrite !proj_map_z. reflexivity.
  Qed.

  Theorem zd2_pair_project n : 0 <= n ->
    let s := zd2_project projection2d 1 n in s <> (0, 0) /\ zd2_pair pairing2d 1 s = n.
  Proof.
    intros Hn. unfold zd2_pair, zd2_project. cbn [fst snd].
    destruct (pair_proj (n + 1) ltac:(lia)) as [H1 [H2 H3]].
    set (p := projection2d (n + 1)) in *.
    destruct (map_proj_z (fst p) H1) as [M1 _]. destruct (map_proj_z (snd p) H2) as [M2 _].
    split.
    - intro E. assert (E1 : projection_to_z (fst p) = 0) by congruence.
      assert (E2 : projection_to_z (snd p) = 0) by congruence.
      assert (F1 : fst p = 0) by (rewrite <- M1, E1; reflexivity).
      assert (F2 : snd p = 0) by (rewrite <- M2, E2; reflexivity).
      rewrite F1, F2, pair_zero in H3. lia.
    - rewrite M1, M2, H3. ring.
  Qed.
End Zd2.

Lemma szudzik_nonneg x y : 0 <= x -> 0 <= y -> 0 <= szudzik_pairing2d x y.
Proof. intros. unfold szudzik_pairing2d. destruct (Z.leb y x); nia. Qed.
Lemma rs_nonneg x y : 0 <= x -> 0 <= y -> 0 <= rs_pairing2d x y.
Proof. intros. unfold rs_pairing2d. destruct (Z.max_spec x y) as [[? ->]|[? ->]]; nia. Qed.

Theorem szudzik_zd2_project_pair s : s <> (0, 0) ->
  let n := zd2_pair szudzik_pairing2d 1 s in 0 <= n /\ zd2_project szudzik_projection2d 1 n = s.
Proof. apply zd2_project_pair; [exact szudzik_proj_pair | reflexivity | exact szudzik_nonneg]. Qed.

Theorem szudzik_zd2_pair_project n : 0 <= n ->
  let s := zd2_project szudzik_projection2d 1 n in s <> (0, 0) /\ zd2_pair szudzik_pairing2d 1 s = n.
Proof. apply zd2_pair_project; [exact szudzik_pair_proj | reflexivity]. Qed.

(* C14: signed enumerations in every dimension.
   - the generic nested Pairing.pairing / Pairing.projection (dim > 2) is a bijection N^d <-> N whenever the 2-d pairing is;
   - PairingToZd over any bijection N^d <-> N enumerates Z^d (omit_zero = False) resp. Z^d \ {0} (omit_zero = True) exactly
     once, in both directions; instances: Rosenberg-Strong (every d >= 1), nested Szudzik (every d >= 2);
   - omit_zero = False variants of PairingToZ1d and of the 2-d PairingToZd;
   - a_n (hyperbola method) equals the divisor summatory function. *)
From Coq Require Import ZArith List Bool Lia Psatz.
From RV Require Import Gen.GenPairing Model.Pairing Proofs.C14_Pairing2d Proofs.C14_Z1d Proofs.C14_Zd Proofs.C14_RSnd.
Import ListNotations.
Open Scope Z_scope.

Definition nonneg_list (l : list Z) : Prop := Forall (fun x => 0 <= x) l.

(* ================= generic nesting ================= *)
Lemma nest_pairing_snoc p2 xs a : (2 <= length xs)%nat ->
  nest_pairing p2 (xs ++ [a]) = p2 (nest_pairing p2 xs) a.
Proof.
  intros H. destruct xs as [|x1 [|x2 r]]; cbn in H; try lia.
  cbn [app nest_pairing]. rewrite fold_left_app. reflexivity.
Qed.

Lemma nest_pairing_front p2 x1 x2 x3 r :
  nest_pairing p2 (x1 :: x2 :: x3 :: r) = nest_pairing p2 (p2 x1 x2 :: x3 :: r).
Proof. reflexivity. Qed.

Lemma nest_projection_2 pr2 z : nest_projection pr2 2 z = [fst (pr2 z); snd (pr2 z)].
Proof. reflexivity. Qed.

Lemma nest_projection_SSS pr2 k z :
  nest_projection pr2 (S (S (S k))) z =
    match nest_projection pr2 (S (S k)) z with
    | p :: q => fst (pr2 p) :: snd (pr2 p) :: q
    | [] => []
    end.
Proof. reflexivity. Qed.

Section Nest.
  Variable p2 : Z -> Z -> Z.
  Variable pr2 : Z -> Z * Z.
  Hypothesis proj_pair : forall x y, 0 <= x -> 0 <= y -> pr2 (p2 x y) = (x, y).
  Hypothesis pair_proj : forall z, 0 <= z ->
    let p := pr2 z in 0 <= fst p /\ 0 <= snd p /\ p2 (fst p) (snd p) = z.
  Hypothesis p2_nonneg : forall x y, 0 <= x -> 0 <= y -> 0 <= p2 x y.

  Lemma nest_pairing_nonneg : forall xs, (2 <= length xs)%nat -> nonneg_list xs -> 0 <= nest_pairing p2 xs.
  Proof.
    intros xs. remember (length xs) as n eqn:En. revert xs En.
    induction n as [|n IH]; intros xs En Hn Hnn; [lia|].
    destruct xs as [|x1 [|x2 [|x3 r]]]; cbn in En; try lia.
    - inversion Hnn as [|? ? H1 Hr]; subst. inversion Hr as [|? ? H2 _]; subst. cbn. apply p2_nonneg; assumption.
    - rewrite nest_pairing_front.
      inversion Hnn as [|? ? H1 Hr]; subst. inversion Hr as [|? ? H2 Hr']; subst.
      apply (IH (p2 x1 x2 :: x3 :: r)); [cbn; lia | cbn; lia |].
      constructor; [apply p2_nonneg; assumption | assumption].
  Qed.

  Theorem nest_proj_pair : forall xs, (2 <= length xs)%nat -> nonneg_list xs ->
    nest_projection pr2 (length xs) (nest_pairing p2 xs) = xs.
  Proof.
    intros xs. remember (length xs) as n eqn:En. revert xs En.
    induction n as [|n IH]; intros xs En Hn Hnn; [lia|].
    destruct xs as [|x1 [|x2 [|x3 r]]]; cbn in En; try lia.
    - inversion Hnn as [|? ? H1 Hr]; subst. inversion Hr as [|? ? H2 _]; subst.
      injection En as ->. cbn [nest_pairing fold_left]. rewrite nest_projection_2, proj_pair by assumption. reflexivity.
    - inversion Hnn as [|? ? H1 Hr]; subst. inversion Hr as [|? ? H2 Hr']; subst.
      injection En as ->. cbn [length]. rewrite nest_projection_SSS, nest_pairing_front.
      assert (Hnn' : nonneg_list (p2 x1 x2 :: x3 :: r)) by (constructor; [apply p2_nonneg; assumption | assumption]).
      pose proof (IH (p2 x1 x2 :: x3 :: r) eq_refl ltac:(cbn; lia) Hnn') as E. cbn [length] in E.
      rewrite E. rewrite proj_pair by assumption. reflexivity.
  Qed.

  Theorem nest_pair_proj : forall (dimn : nat) z, (2 <= dimn)%nat -> 0 <= z ->
    let xs := nest_projection pr2 dimn z in
    length xs = dimn /\ nonneg_list xs /\ nest_pairing p2 xs = z.
  Proof.
    intros dimn z Hd Hz. cbn zeta. induction dimn as [|n IH]; [lia|].
    destruct n as [|[|n]]; [lia | |].
    - rewrite nest_projection_2. destruct (pair_proj z Hz) as [H1 [H2 H3]]. cbn zeta in *.
      split; [reflexivity|]. split; [repeat constructor; assumption|]. exact H3.
    - rewrite nest_projection_SSS. destruct (IH ltac:(lia)) as [Hlen [Hnn Hp]].
      destruct (nest_projection pr2 (S (S n)) z) as [|p [|q1 q]] eqn:E; cbn in Hlen; try lia.
      inversion Hnn as [|? ? Hp0 Hq]; subst.
      destruct (pair_proj p Hp0) as [H1 [H2 H3]]. cbn zeta in *.
      split; [cbn; lia|]. split; [constructor; [assumption | constructor; assumption]|].
      rewrite nest_pairing_front, H3. reflexivity.
  Qed.

  Lemma nest_pairing_zeros : p2 0 0 = 0 -> forall d, (2 <= d)%nat -> nest_pairing p2 (repeat 0 d) = 0.
  Proof.
    intros H0 d Hd. destruct d as [|[|d]]; try lia. cbn [repeat nest_pairing]. rewrite H0. clear Hd.
    induction d as [|d IH]; cbn [repeat fold_left]; [reflexivity | rewrite H0; exact IH].
  Qed.
End Nest.

(* ================= N^d <-> Z^d ================= *)
Lemma map_proj_map_z s : map projection_to_z (map mapping_to_z s) = s.
Proof. rewrite map_map. rewrite <- (map_id s) at 2. apply map_ext. intros a. apply proj_map_z. Qed.

Lemma map_map_proj_z xs : nonneg_list xs -> map mapping_to_z (map projection_to_z xs) = xs.
Proof.
  induction 1 as [|x l Hx Hl IH]; [reflexivity|]. cbn [map]. rewrite IH. f_equal. apply (map_proj_z x Hx).
Qed.

Lemma mapping_nonneg_list s : nonneg_list (map mapping_to_z s).
Proof. induction s; cbn; constructor; [apply mapping_to_z_nonneg | assumption]. Qed.

Lemma map_mapping_zeros d : map mapping_to_z (repeat 0 d) = repeat 0 d.
Proof. induction d as [|d IH]; cbn [repeat map]; [reflexivity | rewrite IH; reflexivity]. Qed.

Lemma map_projection_zeros d : map projection_to_z (repeat 0 d) = repeat 0 d.
Proof. induction d as [|d IH]; cbn [repeat map]; [reflexivity | rewrite IH; reflexivity]. Qed.

Section Zdn.
  Variable npair : list Z -> Z.
  Variable nproj : nat -> Z -> list Z.
  Variable d : nat.
  Hypothesis Hpp : forall xs, length xs = d -> nonneg_list xs -> nproj d (npair xs) = xs.
  Hypothesis Hpj : forall z, 0 <= z ->
    let xs := nproj d z in length xs = d /\ nonneg_list xs /\ npair xs = z.
  Hypothesis Hnn : forall xs, length xs = d -> nonneg_list xs -> 0 <= npair xs.
  Hypothesis Hzero : npair (repeat 0 d) = 0.

  (* omit_zero = False: all of Z^d *)
  Theorem zdn0_project_pair s : length s = d ->
    let n := zdn_pair npair 0 s in 0 <= n /\ zdn_project nproj d 0 n = s.
  Proof.
    intros Hl. cbn zeta. unfold zdn_pair, zdn_project.
    assert (Hl' : length (map mapping_to_z s) = d) by (rewrite map_length; exact Hl).
    pose proof (Hnn _ Hl' (mapping_nonneg_list s)) as H0.
    split; [lia|]. replace (npair (map mapping_to_z s) - 0 + 0) with (npair (map mapping_to_z s)) by ring.
    rewrite Hpp by (assumption || apply mapping_nonneg_list). apply map_proj_map_z.
  Qed.

  Theorem zdn0_pair_project n : 0 <= n ->
    let s := zdn_project nproj d 0 n in length s = d /\ zdn_pair npair 0 s = n.
  Proof.
    intros Hn. cbn zeta. unfold zdn_pair, zdn_project. rewrite Z.add_0_r.
    destruct (Hpj n Hn) as [H1 [H2 H3]]. cbn zeta in *.
    split; [rewrite map_length; exact H1|]. rewrite map_map_proj_z by assumption. lia.
  Qed.

  (* omit_zero = True: Z^d \ {0} *)
  Theorem zdn_project_pair s : length s = d -> s <> repeat 0 d ->
    let n := zdn_pair npair 1 s in 0 <= n /\ zdn_project nproj d 1 n = s.
  Proof.
    intros Hl Hs. cbn zeta. unfold zdn_pair, zdn_project.
    assert (Hl' : length (map mapping_to_z s) = d) by (rewrite map_length; exact Hl).
    pose proof (Hnn _ Hl' (mapping_nonneg_list s)) as H0.
    assert (Hne : npair (map mapping_to_z s) <> 0).
    { intro E. apply Hs.
      assert (Z0 : nonneg_list (repeat 0 d)) by (clear; induction d; cbn; constructor; [lia | assumption]).
      pose proof (Hpp (map mapping_to_z s) Hl' (mapping_nonneg_list s)) as A.
      pose proof (Hpp (repeat 0 d) (repeat_length 0 d) Z0) as B.
      rewrite E in A. rewrite Hzero in B. rewrite A in B.
      rewrite <- (map_proj_map_z s), B. apply map_projection_zeros. }
    split; [lia|]. replace (npair (map mapping_to_z s) - 1 + 1) with (npair (map mapping_to_z s)) by ring.
    rewrite Hpp by (assumption || apply mapping_nonneg_list). apply map_proj_map_z.
  Qed.

  Theorem zdn_pair_project n : 0 <= n ->
    let s := zdn_project nproj d 1 n in length s = d /\ s <> repeat 0 d /\ zdn_pair npair 1 s = n.
  Proof.
    intros Hn. cbn zeta. unfold zdn_pair, zdn_project.
    destruct (Hpj (n + 1) ltac:(lia)) as [H1 [H2 H3]]. cbn zeta in *.
    split; [rewrite map_length; exact H1|]. split.
    - intro E. apply (f_equal (map mapping_to_z)) in E. rewrite map_map_proj_z in E by assumption.
      rewrite map_mapping_zeros in E. rewrite E, Hzero in H3. lia.
    - rewrite map_map_proj_z by assumption. lia.
  Qed.
End Zdn.

(* ---- instance: Rosenberg-Strong, every dimension d >= 1 (what the factory uses for d >= 3) ---- *)
Lemma list_max_zeros d : list_max (repeat 0 d) = 0.
Proof. unfold list_max. induction d as [|d IH]; cbn [repeat fold_right]; [reflexivity | rewrite IH; reflexivity]. Qed.

Lemma rs_pairing_zeros d : (1 <= d)%nat -> rs_pairing (repeat 0 d) = 0.
Proof.
  intros Hd. assert (Hne : repeat 0 d <> []) by (destruct d; [lia | discriminate]).
  assert (Hnn : nonneg_list (repeat 0 d)) by (clear; induction d; cbn; constructor; [lia | assumption]).
  pose proof (rs_pairing_shell _ Hne Hnn) as H. cbn zeta in H. rewrite list_max_zeros, repeat_length in H.
  rewrite Z.pow_0_l in H by lia. rewrite Z.pow_1_l in H by lia. lia.
Qed.

Lemma rs_Hpp d : (1 <= d)%nat -> forall xs, length xs = d -> nonneg_list xs -> rs_projection d (rs_pairing xs) = xs.
Proof. intros Hd xs Hl Hx. subst d. apply rs_proj_pair_nd; [destruct xs; [cbn in Hd; lia | discriminate] | assumption]. Qed.

Theorem rs_zdn0_project_pair : forall (d : nat) s, (1 <= d)%nat -> length s = d ->
  let n := zdn_pair rs_pairing 0 s in 0 <= n /\ zdn_project rs_projection d 0 n = s.
Proof.
  intros d s Hd. apply zdn0_project_pair; [apply rs_Hpp; assumption | intros; apply rs_pairing_nonneg; assumption].
Qed.
Theorem rs_zdn0_pair_project : forall (d : nat) n, (1 <= d)%nat -> 0 <= n ->
  let s := zdn_project rs_projection d 0 n in length s = d /\ zdn_pair rs_pairing 0 s = n.
Proof. intros d n Hd. apply zdn0_pair_project. intros z Hz. apply rs_pair_proj_nd; assumption. Qed.
Theorem rs_zdn_project_pair : forall (d : nat) s, (1 <= d)%nat -> length s = d -> s <> repeat 0 d ->
  let n := zdn_pair rs_pairing 1 s in 0 <= n /\ zdn_project rs_projection d 1 n = s.
Proof.
  intros d s Hd. apply zdn_project_pair;
    [apply rs_Hpp; assumption | intros; apply rs_pairing_nonneg; assumption | apply rs_pairing_zeros; assumption].
Qed.
Theorem rs_zdn_pair_project : forall (d : nat) n, (1 <= d)%nat -> 0 <= n ->
  let s := zdn_project rs_projection d 1 n in length s = d /\ s <> repeat 0 d /\ zdn_pair rs_pairing 1 s = n.
Proof.
  intros d n Hd. apply zdn_pair_project; [intros z Hz; apply rs_pair_proj_nd; assumption | apply rs_pairing_zeros; assumption].
Qed.

(* ---- instance: nested Szudzik, every dimension d >= 2 (d = 2 is the factory's 2-d enumeration) ---- *)
Definition sz_npair := nest_pairing szudzik_pairing2d.
Definition sz_nproj := nest_projection szudzik_projection2d.

Lemma sz_Hpp d : (2 <= d)%nat -> forall xs, length xs = d -> nonneg_list xs -> sz_nproj d (sz_npair xs) = xs.
Proof.
  intros Hd xs Hl Hx. subst d. apply nest_proj_pair; try assumption; [exact szudzik_proj_pair | exact szudzik_nonneg].
Qed.
Lemma sz_Hpj d : (2 <= d)%nat -> forall z, 0 <= z ->
  let xs := sz_nproj d z in length xs = d /\ nonneg_list xs /\ sz_npair xs = z.
Proof. intros Hd z Hz. apply nest_pair_proj; try assumption. exact szudzik_pair_proj. Qed.
Lemma sz_Hnn d : (2 <= d)%nat -> forall xs, length xs = d -> nonneg_list xs -> 0 <= sz_npair xs.
Proof. intros Hd xs Hl Hx. apply nest_pairing_nonneg; [exact szudzik_nonneg | lia | assumption]. Qed.
Lemma sz_Hzero d : (2 <= d)%nat -> sz_npair (repeat 0 d) = 0.
Proof. intros Hd. apply nest_pairing_zeros; [reflexivity | assumption]. Qed.

Theorem sz_zdn0_project_pair : forall (d : nat) s, (2 <= d)%nat -> length s = d ->
  let n := zdn_pair sz_npair 0 s in 0 <= n /\ zdn_project sz_nproj d 0 n = s.
Proof. intros d s Hd. apply zdn0_project_pair; [apply sz_Hpp | apply sz_Hnn]; assumption. Qed.
Theorem sz_zdn0_pair_project : forall (d : nat) n, (2 <= d)%nat -> 0 <= n ->
  let s := zdn_project sz_nproj d 0 n in length s = d /\ zdn_pair sz_npair 0 s = n.
Proof. intros d n Hd. apply zdn0_pair_project. apply sz_Hpj; assumption. Qed.
Theorem sz_zdn_project_pair : forall (d : nat) s, (2 <= d)%nat -> length s = d -> s <> repeat 0 d ->
  let n := zdn_pair sz_npair 1 s in 0 <= n /\ zdn_project sz_nproj d 1 n = s.
Proof. intros d s Hd. apply zdn_project_pair; [apply sz_Hpp | apply sz_Hnn | apply sz_Hzero]; assumption. Qed.
Theorem sz_zdn_pair_project : forall (d : nat) n, (2 <= d)%nat -> 0 <= n ->
  let s := zdn_project sz_nproj d 1 n in length s = d /\ s <> repeat 0 d /\ zdn_pair sz_npair 1 s = n.
Proof. intros d n Hd. apply zdn_pair_project; [apply sz_Hpj | apply sz_Hzero]; assumption. Qed.

(* the list form at d = 2 is the pair form zd2_* of Model/Pairing.v *)
Lemma zdn_sz_2_project omit n :
  zdn_project sz_nproj 2 omit n = [fst (zd2_project szudzik_projection2d omit n); snd (zd2_project szudzik_projection2d omit n)].
Proof. reflexivity. Qed.
Lemma zdn_sz_2_pair omit a b : zdn_pair sz_npair omit [a; b] = zd2_pair szudzik_pairing2d omit (a, b).
Proof. reflexivity. Qed.

(* ================= omit_zero = False: 2-d pair form and 1-d interval ================= *)
Section Zd2_0.
  Variable pairing2d : Z -> Z -> Z.
  Variable projection2d : Z -> Z * Z.
  Hypothesis proj_pair : forall x y, 0 <= x -> 0 <= y -> projection2d (pairing2d x y) = (x, y).
  Hypothesis pair_proj : forall z, 0 <= z ->
    let p := projection2d z in 0 <= fst p /\ 0 <= snd p /\ pairing2d (fst p) (snd p) = z.
  Hypothesis pairing_nonneg : forall x y, 0 <= x -> 0 <= y -> 0 <= pairing2d x y.

  Theorem zd2_0_project_pair s :
    let n := zd2_pair pairing2d 0 s in 0 <= n /\ zd2_project projection2d 0 n = s.
  Proof.
    destruct s as [a b]. cbn zeta. unfold zd2_pair, zd2_project. cbn [fst snd].
    pose proof (mapping_to_z_nonneg a) as Ha. pose proof (mapping_to_z_nonneg b) as Hb.
    pose proof (pairing_nonneg _ _ Ha Hb). split; [lia|].
    replace (pairing2d (mapping_to_z a) (mapping_to_z b) - 0 + 0) with (pairing2d (mapping_to_z a) (mapping_to_z b)) by ring.
    rewrite proj_pair by assumption. cbn [fst snd]. rewrite !proj_map_z. reflexivity.
  Qed.

  Theorem zd2_0_pair_project n : 0 <= n -> zd2_pair pairing2d 0 (zd2_project projection2d 0 n) = n.
  Proof.
    intros Hn. unfold zd2_pair, zd2_project. cbn [fst snd]. rewrite Z.add_0_r.
    destruct (pair_proj n Hn) as [H1 [H2 H3]]. cbn zeta in *.
    destruct (map_proj_z _ H1) as [M1 _]. destruct (map_proj_z _ H2) as [M2 _]. rewrite M1, M2, H3. ring.
  Qed.
End Zd2_0.

Theorem szudzik_zd2_0_project_pair : forall s,
  let n := zd2_pair szudzik_pairing2d 0 s in 0 <= n /\ zd2_project szudzik_projection2d 0 n = s.
Proof. apply zd2_0_project_pair; [exact szudzik_proj_pair | exact szudzik_nonneg]. Qed.
Theorem szudzik_zd2_0_pair_project : forall n, 0 <= n ->
  zd2_pair szudzik_pairing2d 0 (zd2_project szudzik_projection2d 0 n) = n.
Proof. apply zd2_0_pair_project. exact szudzik_pair_proj. Qed.

(* PairingToZ1d with omit_zero = False: indices 0..L+R <-> all states of [-L,R] *)
Lemma z1d_project_omit0 l r x : z1d_project l r 0 x = z1d_project l r 1 (x - 1).
Proof. unfold z1d_project. replace (x - 1 + 1) with (x + 0) by ring. reflexivity. Qed.
Lemma z1d_pair_omit0 l r s : z1d_pair l r 0 s = z1d_pair l r 1 s + 1.
Proof. unfold z1d_pair. cbn zeta. lia. Qed.

Theorem z1d0_project_spec : forall L R, 0 < L -> 0 < R -> forall x, 0 <= x < L + R + 1 ->
  let s := z1d_project (- L) R 0 x in - L <= s <= R /\ z1d_pair (- L) R 0 s = x.
Proof.
  intros L R HL HR x Hx. cbn zeta. destruct (Z.eq_dec x 0) as [->|Hne].
  - assert (E : z1d_project (- L) R 0 0 = 0).
    { unfold z1d_project, z1d_proj_right, z1d_proj_left. cbn [Z.add].
      change (projection_to_z 0) with 0.
      destruct (Z.abs (- L) <? R); [destruct (1 - 2 * - L <? 0) eqn:E; [apply Z.ltb_lt in E; lia | reflexivity]|].
      destruct (R <? Z.abs (- L)); [destruct (2 * R <? 0) eqn:E; [apply Z.ltb_lt in E; lia | reflexivity] | reflexivity]. }
    rewrite E. split; [lia|]. unfold z1d_pair, mapping_to_z. cbn zeta.
    destruct (Z.abs 0 <=? Z.min R (- - L)) eqn:E2; [reflexivity | apply Z.leb_gt in E2; cbn in E2; lia].
  - rewrite z1d_project_omit0, z1d_pair_omit0.
    destruct (z1d_project_spec L R HL HR (x - 1) ltac:(lia)) as [H1 [H2 H3]]. cbn zeta in *.
    split; [assumption | lia].
Qed.

Theorem z1d0_pair_spec : forall L R, 0 < L -> 0 < R -> forall s, - L <= s <= R ->
  let x := z1d_pair (- L) R 0 s in 0 <= x < L + R + 1 /\ z1d_project (- L) R 0 x = s.
Proof.
  intros L R HL HR s Hs. cbn zeta. destruct (Z.eq_dec s 0) as [->|Hne].
  - assert (E : z1d_pair (- L) R 0 0 = 0).
    { unfold z1d_pair, mapping_to_z. cbn zeta.
      destruct (Z.abs 0 <=? Z.min R (- - L)) eqn:E2; [reflexivity | apply Z.leb_gt in E2; cbn in E2; lia]. }
    rewrite E. split; [lia|]. destruct (z1d0_project_spec L R HL HR 0 ltac:(lia)) as [_ H]. cbn zeta in H.
    assert (E0 : z1d_project (- L) R 0 0 = 0).
    { unfold z1d_project, z1d_proj_right, z1d_proj_left. cbn [Z.add]. change (projection_to_z 0) with 0.
      destruct (Z.abs (- L) <? R); [destruct (1 - 2 * - L <? 0) eqn:E3; [apply Z.ltb_lt in E3; lia | reflexivity]|].
      destruct (R <? Z.abs (- L)); [destruct (2 * R <? 0) eqn:E3; [apply Z.ltb_lt in E3; lia | reflexivity] | reflexivity]. }
    exact E0.
  - rewrite z1d_pair_omit0. destruct (z1d_pair_spec L R HL HR s Hs Hne) as [H1 H2]. cbn zeta in *.
    split; [lia|]. rewrite z1d_project_omit0. replace (z1d_pair (- L) R 1 s + 1 - 1) with (z1d_pair (- L) R 1 s) by ring.
    exact H2.
Qed.

(* ================= a_n = divisor summatory function (Dirichlet hyperbola method) ================= *)
Lemma zsum_ext f g a len : (forall k, a <= k < a + Z.of_nat len -> f k = g k) -> zsum_from f a len = zsum_from g a len.
Proof.
  revert a. induction len as [|l IH]; intros a H; [reflexivity|]. cbn [zsum_from].
  rewrite (H a) by lia. rewrite (IH (a + 1)); [reflexivity|]. intros k Hk. apply H. lia.
Qed.

Lemma zsum_app f a l1 l2 : zsum_from f a (l1 + l2) = zsum_from f a l1 + zsum_from f (a + Z.of_nat l1) l2.
Proof.
  revert a. induction l1 as [|l IH]; intros a.
  - cbn [Nat.add zsum_from Z.of_nat]. rewrite Z.add_0_r. lia.
  - cbn [Nat.add zsum_from]. rewrite IH. replace (a + 1 + Z.of_nat l) with (a + Z.of_nat (S l)) by lia. lia.
Qed.

Lemma zsum_plus f g a len : zsum_from (fun k => f k + g k) a len = zsum_from f a len + zsum_from g a len.
Proof. revert a. induction len as [|l IH]; intros a; cbn [zsum_from]; [reflexivity | rewrite IH; lia]. Qed.

Lemma zsum_minus f g a len : zsum_from (fun k => f k - g k) a len = zsum_from f a len - zsum_from g a len.
Proof. revert a. induction len as [|l IH]; intros a; cbn [zsum_from]; [reflexivity | rewrite IH; lia]. Qed.

Lemma zsum_const c a len : zsum_from (fun _ => c) a len = c * Z.of_nat len.
Proof. revert a. induction len as [|l IH]; intros a; cbn [zsum_from]; [lia | rewrite IH; lia]. Qed.

Lemma zsum_swap (h : Z -> Z -> Z) a la b lb :
  zsum_from (fun k => zsum_from (fun j => h k j) b lb) a la = zsum_from (fun j => zsum_from (fun k => h k j) a la) b lb.
Proof.
  revert a. induction la as [|l IH]; intros a; cbn [zsum_from].
  - symmetry. transitivity (zsum_from (fun _ => 0) b lb); [apply zsum_ext; reflexivity | rewrite zsum_const; lia].
  - rewrite IH. rewrite <- zsum_plus. reflexivity.
Qed.

Definition ind (b : bool) : Z := if b then 1 else 0.

(* #{ j in [1, J] : k * j <= n } = min J (n / k) *)
Lemma count_mult_le n k : 0 < k -> 0 <= n -> forall J : nat,
  zsum_from (fun j => ind (k * j <=? n)) 1 J = Z.min (Z.of_nat J) (n / k).
Proof.
  intros Hk Hn. assert (Hq : 0 <= n / k) by (apply Z.div_pos; lia).
  induction J as [|J IH]; [cbn; lia|].
  replace (S J) with (J + 1)%nat by lia. rewrite zsum_app, IH. cbn [zsum_from].
  unfold ind. destruct (k * (1 + Z.of_nat J) <=? n) eqn:E; [apply Z.leb_le in E | apply Z.leb_gt in E].
  - assert (1 + Z.of_nat J <= n / k) by (apply Z.div_le_lower_bound; lia). lia.
  - assert (n / k < 1 + Z.of_nat J) by (apply Z.div_lt_upper_bound; lia). lia.
Qed.

Theorem a_n_divisor_summatory : forall n, 0 <= n -> a_n n = divisor_summatory n.
Proof.
  intros n Hn. unfold a_n, divisor_summatory. cbn zeta.
  pose proof (Z.sqrt_spec n Hn) as Hs. cbn zeta in Hs. unfold Z.succ in Hs.
  pose proof (Z.sqrt_nonneg n) as Hs0. set (s := Z.sqrt n) in *.
  assert (Hsn : s <= n) by nia.
  set (N := Z.to_nat n). set (S0 := Z.to_nat s).
  assert (EN : Z.of_nat N = n) by (unfold N; lia). assert (ES : Z.of_nat S0 = s) by (unfold S0; lia).
  set (h := fun k j => ind (k * j <=? n)).
  set (F := zsum_from (fun k => n / k) 1 S0).
  (* D(n) as a double sum over the square [1,n]^2 *)
  assert (HD : zsum_from (fun k => n / k) 1 N = zsum_from (fun k => zsum_from (fun j => h k j) 1 N) 1 N).
  { apply zsum_ext. intros k Hk. unfold h. rewrite count_mult_le by lia.
    assert (n / k <= n) by (apply Z.div_le_upper_bound; nia). lia. }
  rewrite HD. set (G := fun k => zsum_from (fun j => h k j) 1 N).
  assert (Hsplit : zsum_from G 1 N = zsum_from G 1 S0 + zsum_from G (1 + Z.of_nat S0) (N - S0))
    by (rewrite <- zsum_app; f_equal; lia).
  rewrite Hsplit. unfold G.
  (* rows k <= s *)
  assert (HA : zsum_from (fun k => zsum_from (fun j => h k j) 1 N) 1 S0 = F).
  { unfold F. apply zsum_ext. intros k Hk. unfold h. rewrite count_mult_le by lia.
    assert (n / k <= n) by (apply Z.div_le_upper_bound; nia). lia. }
  (* rows k > s: only the columns j <= s contribute; swap the sums *)
  assert (HB : zsum_from (fun k => zsum_from (fun j => h k j) 1 N) (1 + Z.of_nat S0) (N - S0) = F - s * s).
  { rewrite (zsum_ext _ (fun k => zsum_from (fun j => h k j) 1 S0)).
    2:{ intros k Hk. replace N with (S0 + (N - S0))%nat by lia. rewrite zsum_app.
        rewrite (zsum_ext (fun j => h k j) (fun _ => 0) (1 + Z.of_nat S0)).
        - rewrite zsum_const. lia.
        - intros j Hj. unfold h, ind. destruct (k * j <=? n) eqn:E; [apply Z.leb_le in E; nia | reflexivity]. }
    rewrite zsum_swap.
    rewrite (zsum_ext _ (fun j => n / j - s)).
    - rewrite zsum_minus, zsum_const, ES. reflexivity.
    - intros j Hj.
      assert (E1 : zsum_from (fun k => h k j) 1 N = n / j).
      { rewrite (zsum_ext _ (fun k => ind (j * k <=? n))) by (intros; unfold h; rewrite Z.mul_comm; reflexivity).
        rewrite count_mult_le by lia. assert (n / j <= n) by (apply Z.div_le_upper_bound; nia). lia. }
      assert (E2 : zsum_from (fun k => h k j) 1 S0 = s).
      { rewrite (zsum_ext _ (fun k => ind (j * k <=? n))) by (intros; unfold h; rewrite Z.mul_comm; reflexivity).
        rewrite count_mult_le by lia. assert (s <= n / j) by (apply Z.div_le_lower_bound; nia). lia. }
      replace N with (S0 + (N - S0))%nat in E1 by lia. rewrite zsum_app in E1. lia. }
  rewrite HA, HB. replace (s ^ 2) with (s * s) by ring. lia.
Qed.

(* non-vacuity *)
Example zdn_nonvacuous :
  zdn_project rs_projection 3 1 25 = [-1; 0; 0] /\ zdn_pair rs_pairing 1 [-1; 0; 0] = 25
  /\ zdn_project sz_nproj 3 1 100 = [0; 1; -5] /\ zdn_pair sz_npair 1 [0; 1; -5] = 100
  /\ nest_projection szudzik_projection2d 4 12345 = [0; 2; 4; 111] /\ nest_pairing szudzik_pairing2d [0; 2; 4; 111] = 12345
  /\ z1d_project (-2) 5 0 0 = 0 /\ z1d_project (-2) 5 0 7 = 5
  /\ a_n 100 = 482 /\ divisor_summatory 100 = 482.
Proof. vm_compute. repeat split. Qed.

(* C15, wave 6: the hypotheses of the coupled n-d path theorem (every coupling state is a d-vector, one per fine state) discharged from the
   shape of the real __coupling_state (Model/CouplingShapeNd.v), and value agreement of fine and coarse on coordinates whose increments are even. *)
From Coq Require Import ZArith QArith Bool List Lia.
From RV Require Import Base.QB Model.Paths Model.PathsNd Model.CouplingShapeNd Proofs.C15_Paths Proofs.C15_Finer Proofs.C15_Link Proofs.C15_Nd.
Import ListNotations.
Open Scope Q_scope.

Lemma fine_value_length : forall axes org inc, length org = length axes -> length inc = length axes ->
  length (fine_value axes org inc) = length axes.
Proof.
  induction axes as [|a ax IH]; intros [|o og] [|i ic] H1 H2; simpl in *; try discriminate; try reflexivity.
  f_equal. apply IH; congruence.
Qed.

Lemma coupling_value_length : forall axes org inc sg, length org = length axes -> length inc = length axes -> length sg = length axes ->
  length (coupling_value axes org inc sg) = length axes.
Proof.
  induction axes as [|a ax IH]; intros [|o og] [|i ic] [|s sg] H1 H2 H3; simpl in *; try discriminate; try reflexivity.
  f_equal. apply IH; congruence.
Qed.

(* on a coordinate with an even increment the coarse value IS the fine value, whatever sign vector was drawn *)
Lemma coupling_value_even : forall axes org inc sg k, length org = length axes -> length inc = length axes -> length sg = length axes ->
  (k < length axes)%nat -> Z.even (nth k inc 0%Z) = true ->
  comp k (coupling_value axes org inc sg) = comp k (fine_value axes org inc).
Proof.
  unfold comp.
  induction axes as [|a ax IH]; intros [|o og] [|i ic] [|s sg] k H1 H2 H3 Hk He; simpl in *; try discriminate; try lia.
  destruct k as [|k].
  - unfold cs_comp. simpl in He. rewrite He. reflexivity.
  - apply IH; solve [congruence | lia | exact He].
Qed.

(* one sign vector per jump, one sign per coordinate *)
Definition raws_wf (d : nat) (raws : list (list (list Z))) : Prop := Forall (Forall (fun inc => length inc = d)) raws.
Definition signs_for (raws : list (list (list Z))) (sgs : list (list (list bool))) : Prop :=
  Forall2 (Forall2 (fun (inc : list Z) (sg : list bool) => length sg = length inc)) raws sgs.

Lemma fine_incs_wf axes org raws : length org = length axes -> raws_wf (length axes) raws -> wf2 (length axes) (fine_incs axes org raws).
Proof.
  intros Ho H. unfold fine_incs, wf2, wf. induction H as [|r rs Hr _ IH]; simpl; constructor; [|exact IH].
  induction Hr as [|inc r' Hi _ IH']; simpl; constructor; [|exact IH']. apply fine_value_length; assumption.
Qed.

Lemma coarse_incs_wf axes org : length org = length axes -> forall raws sgs, raws_wf (length axes) raws -> signs_for raws sgs ->
  wf2 (length axes) (coarse_incs axes org raws sgs).
Proof.
  intros Ho raws sgs Hw Hs. unfold coarse_incs, wf2, wf. induction Hs as [|r sg rs sgs' Hrs _ IH]; simpl; [constructor|].
  inversion Hw as [|? ? Hr Hrest]; subst. constructor; [|apply IH; exact Hrest].
  clear IH Hrest Hw. induction Hrs as [|inc s r' sg' Hlen _ IH']; simpl; [constructor|].
  inversion Hr as [|? ? Hi Hr']; subst. constructor; [|apply IH'; exact Hr'].
  apply coupling_value_length; congruence.
Qed.

Lemma coarse_fine_same_counts axes org : forall raws sgs, signs_for raws sgs ->
  map (@length vec) (coarse_incs axes org raws sgs) = map (@length vec) (fine_incs axes org raws).
Proof.
  intros raws sgs Hs. unfold coarse_incs, fine_incs. induction Hs as [|r sg rs sgs' Hrs _ IH]; simpl; [reflexivity|].
  f_equal; [|exact IH]. clear IH. induction Hrs as [|inc s r' sg' _ _ IH']; simpl; [reflexivity|]. f_equal. exact IH'.
Qed.

Lemma vcumsum_from_length : forall l acc, length (vcumsum_from acc l) = length l.
Proof. induction l as [|x r IH]; intro acc; simpl; [reflexivity|]. f_equal. apply IH. Qed.

Lemma nd_chain_running_length d : forall incs level, length (nd_chain_running d level incs) = fold_right plus O (map (@length vec) incs).
Proof.
  induction incs as [|inc r IH]; intro level; simpl; [reflexivity|].
  rewrite app_length, map_length, IH. unfold nd_slice_chain. rewrite vcumsum_from_length. reflexivity.
Qed.

(* on coordinate k the coupling states and the fine increments coincide when every increment is even there *)
Lemma coarse_incs_even axes org k : length org = length axes -> (k < length axes)%nat -> forall raws sgs,
  raws_wf (length axes) raws -> signs_for raws sgs ->
  (forall inc, In inc (concat raws) -> Z.even (nth k inc 0%Z) = true) ->
  map (map (comp k)) (coarse_incs axes org raws sgs) = map (map (comp k)) (fine_incs axes org raws).
Proof.
  intros Ho Hk raws sgs Hw Hs. unfold coarse_incs, fine_incs. induction Hs as [|r sg rs sgs' Hrs _ IH]; intro He; simpl; [reflexivity|].
  inversion Hw as [|? ? Hr Hrest]; subst. f_equal.
  - assert (He' : forall inc, In inc r -> Z.even (nth k inc 0%Z) = true) by (intros inc Hin; apply He; simpl; apply in_or_app; left; exact Hin).
    clear IH Hrest Hw He. induction Hrs as [|inc s r' sg' Hlen _ IH']; simpl; [reflexivity|].
    inversion Hr as [|? ? Hi Hr']; subst. f_equal.
    + apply coupling_value_even; try congruence. apply He'. left. reflexivity.
    + apply IH'; [exact Hr'|]. intros inc' Hin. apply He'. right. exact Hin.
  - apply IH; [exact Hrest|]. intros inc Hin. apply He. simpl. apply in_or_app. right. exact Hin.
Qed.

(* C15_nd_coupled_path with its hypotheses about the coupling states DISCHARGED: the fine increments are the grid values of the sampled state
   increments, the coarse ones what the real __coupling_state returns for them (for whatever sign vectors it draws): fine and coarse live on the
   same times, have equally many columns, every component is the 1-d chain path of that component; and on a coordinate where every state
   increment is even the coarse path IS the fine path *)
Theorem nd_coupled_path_real axes org k cap fuel T tms offs raws sgs :
  let d := length axes in
  length org = d -> (k < d)%nat -> raws_wf d raws -> signs_for raws sgs ->
  let fincs := fine_incs axes org raws in
  let cincs := coarse_incs axes org raws sgs in
  wf2 d cincs /\ length (nd_jump_values d fincs) = length (nd_jump_values d cincs) /\
  let '(t, f, c) := nd_coupled_jump_path d cap fuel T (jump_times_of tms offs) fincs cincs in
  (t, map (comp k) f) = jump_path true cap fuel T tms offs (map (map (comp k)) fincs)
  /\ (t, map (comp k) c) = jump_path true cap fuel T tms offs (map (map (comp k)) cincs)
  /\ length f = length c
  /\ ((forall inc, In inc (concat raws) -> Z.even (nth k inc 0%Z) = true) -> map (comp k) c = map (comp k) f).
Proof.
  intros d Ho Hk Hw Hs fincs cincs.
  assert (Hf : wf2 d fincs) by (apply fine_incs_wf; assumption).
  assert (Hc : wf2 d cincs) by (apply coarse_incs_wf; assumption).
  assert (Hlen : length (nd_jump_values d fincs) = length (nd_jump_values d cincs)).
  { unfold nd_jump_values. rewrite !nd_chain_running_length. unfold cincs, fincs. rewrite (coarse_fine_same_counts axes org raws sgs Hs). reflexivity. }
  split; [exact Hc|]. split; [exact Hlen|].
  pose proof (nd_coupled_jump_path_comp d k cap fuel T (jump_times_of tms offs) fincs cincs Hk Hf Hc Hlen) as H.
  destruct (nd_coupled_jump_path d cap fuel T (jump_times_of tms offs) fincs cincs) as [[t f] c].
  destruct H as [H1 [H2 H3]]. split; [exact H1|]. split; [exact H2|]. split; [exact H3|].
  intro He. pose proof (coarse_incs_even axes org k Ho Hk raws sgs Hw Hs He) as E. fold cincs fincs in E.
  rewrite E in H2. rewrite <- H1 in H2. congruence.
Qed.

(* every returned value is one of the model's outcomes for the sign vector drawn (soundness of the correspondence check) *)
Lemma all_signs_complete : forall d sg, length sg = d -> In sg (all_signs d).
Proof.
  induction d as [|d IH]; intros [|s sg] H; simpl in *; try discriminate; [left; reflexivity|].
  apply in_or_app. destruct s; [right|left]; apply in_map; apply IH; congruence.
Qed.

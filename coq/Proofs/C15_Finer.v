(* Proofs for C15: build_finer_grid (both copies). *)
From Coq Require Import ZArith QArith Qabs Bool List Lqa Lia.
From RV Require Import Base.QB Model.Paths.
Import ListNotations.
Open Scope Q_scope.

Section FinerProofs.
  Context {V : Type}.
  Variable zero : V.
  Notation round := (@round V).
  Notation refine := (@refine V zero).

  (* l' arises from l by inserting, before original points, points that carry the value of the point preceding
     them (pv at the start) and take their (positive) gap out of the gap of the following original point;
     original points keep their order, value and (cumulated) time *)
  Inductive Refines : V -> list (Q * V) -> list (Q * V) -> Prop :=
  | R_nil pv : Refines pv [] []
  | R_keep pv dt dt' v r r' : dt' == dt -> Refines v r r' -> Refines pv ((dt, v) :: r) ((dt', v) :: r')
  | R_ins pv dt dt2 e v r l' : 0 < e -> dt2 == dt - e -> Refines pv ((dt2, v) :: r) l' ->
      Refines pv ((dt, v) :: r) ((e, pv) :: l').

  Lemma Refines_refl : forall l pv, Refines pv l l.
  Proof. induction l as [|[dt v] r IH]; intro pv; constructor; [reflexivity | apply IH]. Qed.

  Lemma Refines_head_eq pv dt dt0 v r l' : dt0 == dt -> Refines pv ((dt, v) :: r) l' -> Refines pv ((dt0, v) :: r) l'.
  Proof.
    intros E H. remember ((dt, v) :: r) as l eqn:El. revert dt dt0 E El.
    induction H as [pv | pv dt1 dt' v1 r1 r' E1 H IH | pv dt1 dt2 e v1 r1 l' He E2 H IH]; intros dt dt0 E El.
    - discriminate.
    - injection El as -> -> ->. constructor; [rewrite E1, E; reflexivity | assumption].
    - injection El as -> -> ->. apply (R_ins pv dt0 dt2 e v r l'); [assumption | rewrite E2, E; reflexivity | assumption].
  Qed.

  (* one pass of the loop keeps the relation to the ORIGINAL list *)
  Lemma round_Refines eps : 0 < eps -> forall pv l l', Refines pv l l' -> Refines pv l (round eps pv l').
  Proof.
    intros Heps pv l l' H. induction H as [pv | pv dt dt' v r r' E H IH | pv dt dt2 e v r l' He E2 H IH].
    - constructor.
    - cbn [Paths.round]. destruct (Qltb eps dt') eqn:Elt.
      + apply (R_ins pv dt (dt' - eps) eps v r); [assumption | rewrite E; reflexivity |].
        constructor; [reflexivity | assumption].
      + constructor; assumption.
    - cbn [Paths.round]. destruct (Qltb eps e) eqn:Elt.
      + apply Qltb_lt in Elt.
        apply (R_ins pv dt (dt - eps) eps v r); [assumption | reflexivity |].
        apply (R_ins pv (dt - eps) dt2 (e - eps) v r); [lra | rewrite E2; ring | assumption].
      + apply (R_ins pv dt dt2 e v r); assumption.
  Qed.

  Lemma refine_Refines eps : 0 < eps -> forall fuel l0 l, Refines zero l0 l -> Refines zero l0 (refine fuel eps l).
  Proof.
    intros Heps. induction fuel as [|f IH]; intros l0 l H; [assumption|].
    cbn [Paths.refine]. destruct (has_long eps l); [|assumption].
    apply IH. apply round_Refines; assumption.
  Qed.

  (* C15_finer_grid, part 1: inserted points / original points *)
  Theorem refine_spec eps fuel l : 0 < eps -> Refines zero l (refine fuel eps l).
  Proof. intro H. apply refine_Refines; [assumption | apply Refines_refl]. Qed.

  (* ---- gap bound and termination ---- *)
  Definition gaps_le (c : Q) (l : list (Q * V)) : Prop := Forall (fun x => fst x <= c) l.
  Definition gaps_pos (l : list (Q * V)) : Prop := Forall (fun x => 0 < fst x) l.

  Lemma has_long_false eps l : has_long eps l = false <-> gaps_le eps l.
  Proof.
    unfold has_long, gaps_le. induction l as [|x r IH]; simpl.
    - split; [constructor | reflexivity].
    - rewrite orb_false_iff, IH. split.
      + intros [H1 H2]. constructor; [apply Qltb_false; assumption | assumption].
      + intro H. inversion H; subst. split; [apply Qltb_false; assumption | assumption].
  Qed.

  Lemma round_gaps_le eps c : 0 < eps -> eps <= c -> forall l pv, gaps_le (c + eps) l -> gaps_le c (round eps pv l).
  Proof.
    intros Heps Hc. induction l as [|[dt v] r IH]; intros pv H; [constructor|].
    inversion H as [|? ? H1 H2]; subst. cbn [Paths.round fst] in *. destruct (Qltb eps dt) eqn:E.
    - constructor; [simpl; assumption|]. constructor; [simpl in *; lra | apply IH; assumption].
    - apply Qltb_false in E. constructor; [simpl; lra | apply IH; assumption].
  Qed.

  Lemma round_gaps_pos eps : 0 < eps -> forall l pv, gaps_pos l -> gaps_pos (round eps pv l).
  Proof.
    intros Heps. induction l as [|[dt v] r IH]; intros pv H; [constructor|].
    inversion H as [|? ? H1 H2]; subst. cbn [Paths.round fst] in *. destruct (Qltb eps dt) eqn:E.
    - apply Qltb_lt in E. constructor; [simpl; assumption|]. constructor; [simpl; lra | apply IH; assumption].
    - constructor; [assumption | apply IH; assumption].
  Qed.

  (* C15_finer_grid, part 2: if every gap is at most (N+1) eps, N passes suffice and every gap of the result is <= eps *)
  Theorem refine_gaps eps : 0 < eps -> forall N l, gaps_le (inject_Z (Z.of_nat (S N)) * eps) l ->
    gaps_le eps (refine N eps l) /\ has_long eps (refine N eps l) = false.
  Proof.
    intros Heps. induction N as [|N IH]; intros l H.
    - cbn [Paths.refine]. assert (Hl : gaps_le eps l).
      { unfold gaps_le in *. eapply Forall_impl; [|exact H]. intros x Hx. simpl in Hx.
        assert (E : inject_Z 1 * eps == eps) by (unfold inject_Z; ring). rewrite E in Hx. assumption. }
      split; [assumption | apply has_long_false; assumption].
    - cbn [Paths.refine]. destruct (has_long eps l) eqn:E.
      + apply IH. apply round_gaps_le; [assumption| |].
        * rewrite <- (Qmult_1_l eps) at 1. apply Qmult_le_compat_r; [|lra].
          change 1 with (inject_Z 1). rewrite <- Zle_Qle. lia.
        * eapply Forall_impl; [|exact H]. intros x Hx. simpl in *.
          assert (E2 : inject_Z (Z.of_nat (S (S N))) * eps == inject_Z (Z.of_nat (S N)) * eps + eps).
          { rewrite (Nat2Z.inj_succ (S N)). unfold Z.succ. rewrite inject_Z_plus. ring. }
          rewrite E2 in Hx. assumption.
      + split; [apply has_long_false; assumption | assumption].
  Qed.

  (* once no gap is long, further passes change nothing: the fuel is only an upper bound *)
  Lemma refine_stable eps : forall k l, has_long eps l = false -> refine k eps l = l.
  Proof. destruct k; intros l H; cbn [Paths.refine]; [reflexivity | rewrite H; reflexivity]. Qed.

  Theorem refine_more_fuel eps : 0 < eps -> forall N k l, gaps_le (inject_Z (Z.of_nat (S N)) * eps) l ->
    refine (N + k) eps l = refine N eps l.
  Proof.
    intros Heps. induction N as [|N IH]; intros k l H.
    - cbn [Paths.refine plus]. apply refine_stable. apply has_long_false.
      eapply Forall_impl; [|exact H]. intros x Hx. simpl in Hx.
      assert (E : inject_Z 1 * eps == eps) by (unfold inject_Z; ring). rewrite E in Hx. assumption.
    - cbn [Paths.refine plus]. destruct (has_long eps l) eqn:E; [|reflexivity].
      apply IH. apply round_gaps_le; [assumption| |].
      + rewrite <- (Qmult_1_l eps) at 1. apply Qmult_le_compat_r; [|lra].
        change 1 with (inject_Z 1). rewrite <- Zle_Qle. lia.
      + eapply Forall_impl; [|exact H]. intros x Hx. simpl in *.
        assert (E2 : inject_Z (Z.of_nat (S (S N))) * eps == inject_Z (Z.of_nat (S N)) * eps + eps).
        { rewrite (Nat2Z.inj_succ (S N)). unfold Z.succ. rewrite inject_Z_plus. ring. }
        rewrite E2 in Hx. assumption.
  Qed.

  Theorem refine_gaps_pos eps : 0 < eps -> forall N l, gaps_pos l -> gaps_pos (refine N eps l).
  Proof.
    intros Heps. induction N as [|N IH]; intros l H; cbn [Paths.refine]; [assumption|].
    destruct (has_long eps l); [apply IH, round_gaps_pos; assumption | assumption].
  Qed.

  (* ---- consequences of Refines for the (time, value) points ---- *)
  Fixpoint points (t0 : Q) (l : list (Q * V)) : list (Q * V) :=
    match l with [] => [] | (dt, v) :: r => (t0 + dt, v) :: points (t0 + dt) r end.

  (* s is a subsequence of l, times compared with == *)
  Inductive Subseq : list (Q * V) -> list (Q * V) -> Prop :=
  | S_nil l : Subseq [] l
  | S_take t t' v s l : t == t' -> Subseq s l -> Subseq ((t, v) :: s) ((t', v) :: l)
  | S_skip s x l : Subseq s l -> Subseq s (x :: l).

  Lemma Refines_points pv l l' : Refines pv l l' -> forall t0 t0', t0 == t0' -> Subseq (points t0 l) (points t0' l').
  Proof.
    induction 1 as [pv | pv dt dt' v r r' E H IH | pv dt dt2 e v r l' He E2 H IH]; intros t0 t0' Et.
    - constructor.
    - cbn [points]. apply S_take; [rewrite E, Et; reflexivity | apply IH; rewrite E, Et; reflexivity].
    - cbn [points]. apply S_skip. specialize (IH (t0' + e) (t0' + e) ltac:(reflexivity)). cbn [points] in IH.
      (* the original head (t0 + dt, v) is found later, at time (t0' + e) + dt2 *)
      assert (Hs : forall a b c d s m, a == b -> c == d -> Subseq ((a, v) :: points c s) m -> Subseq ((b, v) :: points d s) m).
      { clear. intros a b c d s m Eab Ecd Hm. remember ((a, v) :: points c s) as lhs eqn:El. revert a b c d s Eab Ecd El.
        induction Hm as [m | t t' v0 s0 m Ett Hm IHm | s0 x m Hm IHm]; intros a b c d s Eab Ecd El.
        - discriminate.
        - injection El as -> -> ->. apply S_take; [rewrite <- Eab; assumption|].
          clear -Hm Ecd. revert c d Ecd m Hm. induction s as [|[dt1 v1] s IHs]; intros c d Ecd m Hm; [constructor|].
          cbn [points] in *. remember ((c + dt1, v1) :: points (c + dt1) s) as lhs eqn:El. revert c d dt1 v1 s IHs Ecd El.
          induction Hm as [m | t t' v0 s0 m Ett Hm IHm | s0 x m Hm IHm]; intros c d dt1 v1 s IHs Ecd El.
          + discriminate.
          + injection El as -> -> ->. apply S_take; [rewrite <- Ett, Ecd; reflexivity|].
            apply (IHs (c + dt1) (d + dt1)); [rewrite Ecd; reflexivity | assumption].
          + apply S_skip. apply (IHm c d dt1 v1 s); assumption.
        - apply S_skip. apply (IHm a b c d s); assumption. }
      apply (Hs (t0' + e + dt2) (t0 + dt) (t0' + e + dt2) (t0 + dt) r); [rewrite E2, Et; ring | rewrite E2, Et; ring |].
      exact IH.
  Qed.

  Lemma Refines_total pv l l' : Refines pv l l' -> qsum (map fst l') == qsum (map fst l).
  Proof.
    induction 1 as [pv | pv dt dt' v r r' E H IH | pv dt dt2 e v r l' He E2 H IH]; cbn [map fst qsum] in *.
    - reflexivity.
    - rewrite IH, E. reflexivity.
    - rewrite IH, E2. ring.
  Qed.
End FinerProofs.

(* fine and coarse values are inserted at the same positions: the coupled refinement projects onto the
   refinement of each component (same gaps, hence the same times) *)
Lemma round_proj {V W} (f : V -> W) eps : forall l pv,
  map (fun x => (fst x, f (snd x))) (round eps pv l) = round eps (f pv) (map (fun x => (fst x, f (snd x))) l).
Proof.
  induction l as [|[dt v] r IH]; intro pv; [reflexivity|].
  cbn [round map fst snd]. destruct (Qltb eps dt); cbn [map fst snd]; rewrite IH; reflexivity.
Qed.

Lemma has_long_proj {V W} (f : V -> W) eps (l : list (Q * V)) :
  has_long eps (map (fun x => (fst x, f (snd x))) l) = has_long eps l.
Proof. unfold has_long. induction l as [|x r IH]; [reflexivity|]. simpl. rewrite IH. reflexivity. Qed.

Theorem refine_proj {V W} (f : V -> W) (zero : V) eps : forall fuel l,
  map (fun x => (fst x, f (snd x))) (refine zero fuel eps l) = refine (f zero) fuel eps (map (fun x => (fst x, f (snd x))) l).
Proof.
  induction fuel as [|n IH]; intro l; [reflexivity|].
  cbn [refine]. rewrite has_long_proj. destruct (has_long eps l); [|reflexivity].
  rewrite IH, round_proj. reflexivity.
Qed.

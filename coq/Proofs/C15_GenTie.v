(* C15, wave 6: the statements about the Markov-chain jump-time path restated on chain_over_intervals as REGENERATED from
   rpylib/process/markovchain/markovchain.py (Gen/GenTiePaths.v), through the equality with the hand model proved in Proofs/Tie_Paths.v. *)
From Coq Require Import ZArith QArith List Lia.
From RV Require Import Base.QB Model.Paths Proofs.C15_Paths.
From RV Require Gen.GenTiePaths Proofs.Tie_Paths.
Import ListNotations.
Open Scope Q_scope.

Lemma Forall2_Qeq_len_c15g : forall a b, Forall2 Qeq a b -> length a = length b.
Proof. induction 1; simpl; congruence. Qed.

Lemma Forall2_Qeq_nth_lt : forall a b, Forall2 Qeq a b -> forall k, (k < length a)%nat -> nth k a 0 == nth k b 0.
Proof.
  induction 1 as [|x y a b E H IH]; intros k Hk; [simpl in Hk; lia|].
  destruct k as [|k]; [exact E|]. simpl. apply IH. simpl in Hk. lia.
Qed.

Theorem gen_chain_running_sums : forall incs,
  let vals := GenTiePaths.chain_over_intervals (map cumsum incs) in
  Forall2 Qeq vals (levy_jump_values incs)
  /\ length vals = length (concat incs)
  /\ (forall k, (k < length vals)%nat -> nth (S k) (assemble_values vals) 0 == qsum (firstn (S k) (concat incs))).
Proof.
  intros incs vals. unfold vals. rewrite Tie_Paths.gen_chain_over_intervals_eq_model.
  pose proof (chain_running_sum incs) as HF.
  pose proof (Forall2_Qeq_len_c15g _ _ HF) as HL.
  destruct (jump_values incs) as [_ [Hrun _]]. cbv zeta in Hrun.
  split; [exact HF|]. split.
  - rewrite HL. unfold levy_jump_values, cumsum. apply cumsum_from_length.
  - intros k Hk. rewrite <- (Hrun k) by (rewrite <- HL; exact Hk).
    unfold assemble_values. cbn [nth]. rewrite !app_nth1 by (rewrite <- ?HL; exact Hk).
    apply Forall2_Qeq_nth_lt; assumption.
Qed.

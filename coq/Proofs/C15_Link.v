(* C15: what the code returns (finer_grid / build_finer_grid / capped_path) in terms of `refine`; matching lengths of jump paths *)
From Coq Require Import ZArith QArith Qabs Bool List Lqa Lia.
From RV Require Import Base.QB Model.Paths Proofs.C15_Paths Proofs.C15_Finer.
Import ListNotations.
Open Scope Q_scope.

Lemma gaps_cumsum : forall l prev, Forall2 Qeq (gaps_from prev (cumsum_from prev l)) l.
Proof.
  induction l as [|x r IH]; intro prev; [constructor|].
  cbn [cumsum_from gaps_from]. constructor; [ring | apply IH].
Qed.

Lemma Forall2_le_transfer c : forall a b, Forall2 Qeq a b -> Forall (fun g => g <= c) b -> Forall (fun g => g <= c) a.
Proof.
  induction 1 as [|x y a b E H IH]; intro Hb; [constructor|].
  inversion Hb; subst. constructor; [rewrite E; assumption | apply IH; assumption].
Qed.

Section Link.
  Context {V : Type}.
  Variable zero : V.

  (* the arrays _build_finer_grid returns are the gaps/values of `refine` applied to the input's gaps/values *)
  Theorem finer_grid_refine fuel eps times (vals : list V) :
    let r := refine zero fuel eps (combine (gaps times) vals) in
    finer_grid zero fuel eps times vals = (cumsum (map fst r), map snd r)
    /\ Forall2 Qeq (gaps (fst (finer_grid zero fuel eps times vals))) (map fst r)
    /\ snd (finer_grid zero fuel eps times vals) = map snd r.
  Proof. cbv zeta. unfold finer_grid. cbn [fst snd]. repeat split. apply gaps_cumsum. Qed.

  (* positive cap theorem: for eps below the horizon given to the factory, enough passes, the returned times have every gap
     (from 0 to the first time and between consecutive times) <= eps, and the returned arrays refine the input (Refines) *)
  Theorem build_finer_grid_cap N eps T times (vals : list V) : 0 < eps -> eps < T ->
    gaps_le (inject_Z (Z.of_nat (S N)) * eps) (combine (gaps times) vals) ->
    let tv := build_finer_grid zero N eps T times vals in
    Forall (fun g => g <= eps) (gaps (fst tv))
    /\ exists r, Refines zero (combine (gaps times) vals) r /\ Forall2 Qeq (gaps (fst tv)) (map fst r) /\ snd tv = map snd r.
  Proof.
    intros He HT Hle. cbv zeta. unfold build_finer_grid.
    assert (E : Qle_bool T eps = false) by (apply Qle_bool_false; assumption). rewrite E.
    destruct (finer_grid_refine N eps times vals) as [_ [H2 H3]].
    destruct (refine_gaps zero eps He N _ Hle) as [Hg _].
    split.
    - apply (Forall2_le_transfer eps _ _ H2). unfold gaps_le in Hg. rewrite Forall_map. exact Hg.
    - exists (refine zero N eps (combine (gaps times) vals)). repeat split; try assumption. apply refine_spec; assumption.
  Qed.
End Link.

Lemma gaps_total : forall l prev, qsum (gaps_from prev l) == last l prev - prev.
Proof.
  induction l as [|x r IH]; intro prev; [simpl; ring|].
  cbn [gaps_from qsum]. rewrite IH. destruct r as [|y r']; [simpl; ring|].
  change (last (x :: y :: r') prev) with (last (y :: r') prev).
  rewrite (last_default r' y x prev). ring.
Qed.

Lemma gaps_from_proper : forall a b p p', Forall2 Qeq a b -> p == p' -> Forall2 Qeq (gaps_from p a) (gaps_from p' b).
Proof.
  intros a b p p' H. revert p p'. induction H as [|x y a b E H IH]; intros p p' Ep; [constructor|].
  cbn [gaps_from]. constructor; [rewrite E, Ep; reflexivity | apply IH; assumption].
Qed.

Lemma removelast_app_last : forall (l : list Q) T, l <> [] -> last l 0 == T -> Forall2 Qeq (removelast l ++ [T]) l.
Proof.
  intros l T Hne E. rewrite (app_removelast_last 0 Hne) at 2.
  apply Forall2_Qeq_app; [|constructor; [symmetry; assumption | constructor]].
  clear. induction (removelast l); constructor; [reflexivity | assumption].
Qed.

Lemma map_fst_combine {A B} : forall (a : list A) (b : list B), (length a <= length b)%nat -> map fst (combine a b) = a.
Proof.
  induction a as [|x a IH]; intros b H; [reflexivity|]. destruct b as [|y b]; [simpl in H; lia|].
  simpl. rewrite IH by (simpl in H; lia). reflexivity.
Qed.

(* C15_cap_whole_path (F-C15-1 repaired): the path the max-step simulators return - 0, the refined times, the maturity - has
   EVERY step <= eps, the step to the maturity and the steps of a path without jumps included *)
Theorem capped_path_whole N eps T times vals : 0 < eps -> eps < T -> length vals = length times ->
  let l := combine (gaps (times ++ [T])) (vals ++ [last vals 0]) in
  gaps_le (inject_Z (Z.of_nat (S N)) * eps) l ->
  let p := capped_path N eps T times vals in
  hd 1 (fst p) = 0 /\ last (fst p) 0 = T
  /\ Forall (fun g => g <= eps) (gaps (tl (fst p)))
  /\ exists r, Refines 0 l r
        /\ Forall2 Qeq (gaps (tl (fst p))) (map fst r)
        /\ snd p = assemble_values (removelast (map snd r)).
Proof.
  intros He HT Hlen l Hle p.
  destruct (build_finer_grid_cap 0 N eps T (times ++ [T]) (vals ++ [last vals 0]) He HT Hle) as [Hg [r [HR [H2 H3]]]].
  set (tv := build_finer_grid 0 N eps T (times ++ [T]) (vals ++ [last vals 0])) in *.
  assert (Hp : fst p = 0 :: removelast (fst tv) ++ [T]) by reflexivity.
  assert (Hl : map fst l = gaps (times ++ [T])).
  { unfold l. apply map_fst_combine. unfold gaps.
    assert (Hgl : forall (x : list Q) pr, length (gaps_from pr x) = length x) by (induction x; intro; simpl; auto).
    rewrite Hgl, !app_length. simpl. lia. }
  assert (Hne : fst tv <> []).
  { intro Hc. rewrite Hc in H2. unfold gaps in H2. cbn [gaps_from] in H2. destruct r as [|r0 r']; [|inversion H2].
    assert (Hln : l <> []).
    { unfold l, gaps. destruct times; destruct vals; simpl; discriminate. }
    assert (Hr : forall pv (x : list (Q * Q)), Refines pv x [] -> x = []) by (intros pv x Hx; inversion Hx; reflexivity).
    apply Hln, (Hr _ _ HR). }
  assert (Hlast : last (fst tv) 0 == T).
  { assert (Ht : qsum (gaps (fst tv)) == last (fst tv) 0 - 0) by apply gaps_total.
    assert (Hs : qsum (gaps (fst tv)) == qsum (map fst r)).
    { clear -H2. induction H2 as [|x y a b E H IH]; [reflexivity|]. cbn [qsum]. rewrite E, IH. reflexivity. }
    rewrite Hs, (Refines_total 0 l r HR), Hl in Ht. unfold gaps in Ht. rewrite gaps_total in Ht.
    rewrite last_last in Ht. lra. }
  repeat split.
  - rewrite Hp. rewrite app_comm_cons. apply last_last.
  - rewrite Hp. cbn [tl]. apply (Forall2_le_transfer eps _ (gaps (fst tv))); [|assumption].
    unfold gaps. apply gaps_from_proper; [apply removelast_app_last; assumption | reflexivity].
  - exists r. repeat split; [assumption | |].
    + rewrite Hp. cbn [tl]. 
      assert (Hq : Forall2 Qeq (gaps (removelast (fst tv) ++ [T])) (gaps (fst tv)))
        by (unfold gaps; apply gaps_from_proper; [apply removelast_app_last; assumption | reflexivity]).
      clear -Hq H2. revert H2. generalize (map fst r). revert Hq. generalize (gaps (fst tv)). generalize (gaps (removelast (fst tv) ++ [T])).
      induction 1 as [|x y a b E H IH]; intros m Hm; inversion Hm; subst; constructor; [rewrite E; assumption | apply IH; assumption].
    + unfold p, capped_path, refine_to_maturity. cbn [fst snd]. fold tv. rewrite H3. reflexivity.
Qed.

(* lengths: with as many increments as offsets in every product interval, times and values of the assembled path have the same length *)
Theorem jump_path_lengths : forall ivs incs, Forall2 (fun iv inc => length (iv_offs iv) = length inc) ivs incs ->
  forall T, length (assemble_times T (times_of_ivs ivs)) = length (assemble_values (levy_jump_values incs)).
Proof.
  intros ivs incs H T. unfold assemble_times, assemble_values, levy_jump_values, cumsum, times_of_ivs, jump_times_of.
  cbn [length]. rewrite !app_length, cumsum_from_length. f_equal. f_equal.
  induction H as [|iv inc ivs incs E H IH]; [reflexivity|].
  cbn [map map2 concat]. rewrite !app_length, map_length, IH, E. reflexivity.
Qed.

(* C15: what the code returns (finer_grid / build_finer_grid / capped_path) in terms of `refine`; matching lengths of jump paths *)
From Coq Require Import ZArith QArith Qabs Bool List Lqa Lia.
From RV Require Import Base.QB Model.Paths Proofs.C15_Paths Proofs.C15_Finer.
Import ListNotations.
Open Scope Q_scope.

Lemma gaps_cumsum : forall l prev, Forall2 Qeq (gaps_from prev (cumsum_from prev l)) l.
Proof.
  induction l as [|x r IH]; intro prev; [constructor|].
  cbn [cumsum_from gaps_from]. constructor; [ring | apply IH].
Qed.

Lemma Forall2_le_transfer c : forall a b, Forall2 Qeq a b -> Forall (fun g => g <= c) b -> Forall (fun g => g <= c) a.
Proof.
  induction 1 as [|x y a b E H IH]; intro Hb; [constructor|].
  inversion Hb; subst. constructor; [rewrite E; assumption | apply IH; assumption].
Qed.

Section Link.
  Context {V : Type}.
  Variable zero : V.

  (* the arrays _build_finer_grid returns are the gaps/values of `refine` applied to the input's gaps/values *)
  Theorem finer_grid_refine fuel eps times (vals : list V) :
    let r := refine zero fuel eps (combine (gaps times) vals) in
    finer_grid zero fuel eps times vals = (cumsum (map fst r), map snd r)
    /\ Forall2 Qeq (gaps (fst (finer_grid zero fuel eps times vals))) (map fst r)
    /\ snd (finer_grid zero fuel eps times vals) = map snd r.
  Proof. cbv zeta. unfold finer_grid. cbn [fst snd]. repeat split. apply gaps_cumsum. Qed.

  (* positive cap theorem: for eps below the horizon given to the factory, enough passes, the returned times have every gap
     (from 0 to the first time and between consecutive times) <= eps, and the returned arrays refine the input (Refines) *)
  Theorem build_finer_grid_cap N eps T times (vals : list V) : 0 < eps -> eps < T ->
    gaps_le (inject_Z (Z.of_nat (S N)) * eps) (combine (gaps times) vals) ->
    let tv := build_finer_grid zero N eps T times vals in
    Forall (fun g => g <= eps) (gaps (fst tv))
    /\ exists r, Refines zero (combine (gaps times) vals) r /\ Forall2 Qeq (gaps (fst tv)) (map fst r) /\ snd tv = map snd r.
  Proof.
    intros He HT Hle. cbv zeta. unfold build_finer_grid.
    assert (E : Qle_bool T eps = false) by (apply Qle_bool_false; assumption). rewrite E.
    destruct (finer_grid_refine N eps times vals) as [_ [H2 H3]].
    destruct (refine_gaps zero eps He N _ Hle) as [Hg _].
    split.
    - apply (Forall2_le_transfer eps _ _ H2). unfold gaps_le in Hg. rewrite Forall_map. exact Hg.
    - exists (refine zero N eps (combine (gaps times) vals)). repeat split; try assumption. apply refine_spec; assumption.
  Qed.
End Link.

(* the path SimulationMaximumStep returns: 0, the refined jump times, the maturity; every step except the last one is <= eps *)
Theorem capped_path_inner_steps N eps T times vals : 0 < eps -> eps < T -> times <> [] ->
  gaps_le (inject_Z (Z.of_nat (S N)) * eps) (combine (gaps times) vals) ->
  let tv := build_finer_grid 0 N eps T times vals in
  fst (capped_path N eps T times vals) = assemble_times T (fst tv)
  /\ snd (capped_path N eps T times vals) = assemble_values (snd tv)
  /\ Forall (fun g => g <= eps) (gaps (fst tv))
  /\ exists r, Refines 0 (combine (gaps times) vals) r /\ Forall2 Qeq (gaps (fst tv)) (map fst r) /\ snd tv = map snd r.
Proof.
  intros He HT Hne Hle. cbv zeta. unfold capped_path. destruct times as [|t0 ts]; [congruence|].
  cbn [fst snd]. split; [reflexivity|]. split; [reflexivity|].
  apply build_finer_grid_cap; assumption.
Qed.

(* lengths: with as many increments as offsets in every product interval, times and values of the assembled path have the same length *)
Theorem jump_path_lengths : forall ivs incs, Forall2 (fun iv inc => length (iv_offs iv) = length inc) ivs incs ->
  forall T, length (assemble_times T (times_of_ivs ivs)) = length (assemble_values (levy_jump_values incs)).
Proof.
  intros ivs incs H T. unfold assemble_times, assemble_values, levy_jump_values, cumsum, times_of_ivs, jump_times_of.
  cbn [length]. rewrite !app_length, cumsum_from_length. f_equal. f_equal.
  induction H as [|iv inc ivs incs E H IH]; [reflexivity|].
  cbn [map map2 concat]. rewrite !app_length, map_length, IH, E. reflexivity.
Qed.

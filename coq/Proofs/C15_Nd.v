(* Proofs for C15 (wave 5): the n-d Levy-copula path builders, component by component, fine/coarse alignment, real jump times. *)
From Coq Require Import ZArith QArith Qabs Bool List Lqa Lia.
From RV Require Import Base.QB Model.Paths Model.PathsNd Proofs.C15_Paths Proofs.C15_Finer Proofs.C15_Link.
Import ListNotations.
Open Scope Q_scope.

(* ---- vectors ---- *)
Definition wf (d : nat) (l : list vec) : Prop := Forall (fun v => length v = d) l.
Definition wf2 (d : nat) (L : list (list vec)) : Prop := Forall (wf d) L.

Lemma comp_vzero : forall d k, comp k (vzero d) = 0.
Proof. unfold comp, vzero. induction d as [|d IH]; intro k; destruct k; simpl; auto. Qed.

Lemma vzero_length d : length (vzero d) = d.
Proof. apply repeat_length. Qed.

Lemma map2_length {A B C} (f : A -> B -> C) : forall a b, length a = length b -> length (map2 f a b) = length a.
Proof. induction a as [|x a IH]; intros [|y b] H; simpl in *; try lia. rewrite IH; lia. Qed.

Lemma vadd_length d a b : length a = d -> length b = d -> length (vadd a b) = d.
Proof. intros Ha Hb. unfold vadd. rewrite map2_length; lia. Qed.

Lemma comp_vadd : forall a b k, (k < length a)%nat -> (k < length b)%nat -> comp k (vadd a b) = comp k a + comp k b.
Proof.
  unfold comp, vadd. induction a as [|x a IH]; intros [|y b] k Ha Hb; simpl in *; try lia.
  destruct k; [reflexivity | apply IH; lia].
Qed.

Lemma comp_last k : forall (l : list vec) dflt, comp k (last l dflt) = last (map (comp k) l) (comp k dflt).
Proof. induction l as [|x l IH]; intro dflt; [reflexivity|]. destruct l as [|y l']; [reflexivity|]. exact (IH dflt). Qed.

(* running sums of vectors are, component by component, the running sums of the components *)
Lemma vcumsum_comp d k : (k < d)%nat -> forall l acc, wf d l -> length acc = d ->
  map (comp k) (vcumsum_from acc l) = cumsum_from (comp k acc) (map (comp k) l).
Proof.
  intro Hk. induction l as [|x r IH]; intros acc Hwf Hacc; [reflexivity|].
  pose proof (Forall_inv Hwf) as Hx. pose proof (Forall_inv_tail Hwf) as Hr. cbn beta in Hx. cbn [vcumsum_from map cumsum_from].
  rewrite <- comp_vadd by lia. f_equal. apply IH; [exact Hr | apply vadd_length; [exact Hacc | exact Hx]].
Qed.

Lemma vcumsum_wf d : forall l acc, wf d l -> length acc = d -> wf d (vcumsum_from acc l).
Proof.
  induction l as [|x r IH]; intros acc Hwf Hacc; [constructor|].
  pose proof (Forall_inv Hwf) as Hx. pose proof (Forall_inv_tail Hwf) as Hr. cbn beta in Hx.
  cbn [vcumsum_from]. constructor; [apply vadd_length; assumption|].
  apply IH; [assumption | apply vadd_length; assumption].
Qed.

Lemma slice_chain_comp d k sl : (k < d)%nat -> wf d sl -> map (comp k) (nd_slice_chain d sl) = cumsum (map (comp k) sl).
Proof.
  intros Hk H. unfold nd_slice_chain, cumsum. rewrite (vcumsum_comp d k Hk) by (try assumption; apply vzero_length).
  rewrite comp_vzero. reflexivity.
Qed.

Lemma chain_total_comp d k sl : (k < d)%nat -> wf d sl -> comp k (nd_chain_total d sl) = chain_total (map (comp k) sl).
Proof.
  intros Hk H. unfold nd_chain_total, chain_total. rewrite comp_last, comp_vzero, slice_chain_comp by assumption. reflexivity.
Qed.

Lemma chain_total_length d sl : wf d sl -> length (nd_chain_total d sl) = d.
Proof.
  intro H. unfold nd_chain_total, nd_slice_chain.
  pose proof (vcumsum_wf d sl (vzero d) H (vzero_length d)) as Hw.
  destruct (vcumsum_from (vzero d) sl) as [|x l] eqn:E; [apply vzero_length|].
  assert (Hin : In (last (x :: l) (vzero d)) (x :: l)).
  { clear. revert x. induction l as [|y l IH]; intro x; [left; reflexivity | right; exact (IH y)]. }
  unfold wf in Hw. rewrite Forall_forall in Hw. apply Hw. assumption.
Qed.

Lemma map_totals_comp d k ivs : (k < d)%nat -> wf2 d ivs ->
  map (comp k) (map (nd_chain_total d) ivs) = map chain_total (map (map (comp k)) ivs).
Proof.
  intros Hk H. induction H as [|sl ivs Hs H IH]; [reflexivity|].
  cbn [map]. rewrite chain_total_comp, IH by assumption. reflexivity.
Qed.

Lemma map_totals_wf d ivs : wf2 d ivs -> wf d (map (nd_chain_total d) ivs).
Proof. intro H. induction H as [|sl ivs Hs H IH]; constructor; [apply chain_total_length; assumption | assumption]. Qed.

(* ---- fixed dates: every component of the n-d (copula) path is the 1-d chain path of that component ---- *)
Theorem nd_fixed_comp d k ivs : (k < d)%nat -> wf2 d ivs ->
  map (comp k) (nd_fixed_jump_path d ivs) = mc_fixed_jump_path (map (map (comp k)) ivs).
Proof.
  intros Hk H. unfold nd_fixed_jump_path, mc_fixed_jump_path, cumsum. cbn [map]. rewrite comp_vzero. f_equal.
  rewrite (vcumsum_comp d k Hk) by (try apply map_totals_wf; try assumption; apply vzero_length).
  rewrite comp_vzero, map_totals_comp by assumption. reflexivity.
Qed.

Lemma cumsum_from_proper : forall l a a', a == a' -> Forall2 Qeq (cumsum_from a l) (cumsum_from a' l).
Proof.
  induction l as [|x r IH]; intros a a' E; [constructor|]. cbn [cumsum_from].
  constructor; [rewrite E; reflexivity | apply IH; rewrite E; reflexivity].
Qed.

(* the coupled simulator cumulates over the zero column as well: the same path up to 0 + x == x *)
Theorem nd_coupled_fixed_comp d k ivs : (k < d)%nat -> wf2 d ivs ->
  Forall2 Qeq (map (comp k) (nd_coupled_fixed_component d ivs)) (mc_fixed_jump_path (map (map (comp k)) ivs)).
Proof.
  intros Hk H. unfold nd_coupled_fixed_component, mc_fixed_jump_path, cumsum.
  rewrite (vcumsum_comp d k Hk); [| constructor; [apply vzero_length | apply map_totals_wf; assumption] | apply vzero_length].
  cbn [map cumsum_from]. rewrite !comp_vzero, map_totals_comp by assumption.
  constructor; [ring|]. apply cumsum_from_proper. ring.
Qed.

(* ---- jump times: chain_over_intervals on (n_k, d) arrays ---- *)
Lemma map_vadd_comp d k level : (k < d)%nat -> length level = d -> forall l, wf d l ->
  map (comp k) (map (vadd level) l) = map (Qplus (comp k level)) (map (comp k) l).
Proof.
  intros Hk Hl. induction 1 as [|x l Hx H IH]; [reflexivity|]. cbn [map]. rewrite comp_vadd, IH by lia. reflexivity.
Qed.

Lemma map_vadd_wf d level l : length level = d -> wf d l -> wf d (map (vadd level) l).
Proof. intros Hl H. induction H; constructor; [apply vadd_length; assumption | assumption]. Qed.

Lemma last_wf d : forall l dflt, wf d l -> length dflt = d -> length (last l dflt) = d.
Proof.
  induction l as [|x l IH]; intros dflt H Hd; [assumption|].
  pose proof (Forall_inv H) as Hx. pose proof (Forall_inv_tail H) as Hr. cbn beta in Hx.
  destruct l as [|y l']; [assumption|]. apply (IH dflt); assumption.
Qed.

Theorem nd_chain_running_comp d k : (k < d)%nat -> forall incs level, wf2 d incs -> length level = d ->
  map (comp k) (nd_chain_running d level incs) = chain_running (comp k level) (map (map (comp k)) incs).
Proof.
  intro Hk. induction incs as [|inc r IH]; intros level H Hl; [reflexivity|].
  pose proof (Forall_inv H) as Hi. pose proof (Forall_inv_tail H) as Hr. cbn [nd_chain_running chain_running map].
  assert (Hsw : wf d (nd_slice_chain d inc)) by (apply vcumsum_wf; [assumption | apply vzero_length]).
  rewrite map_app, (map_vadd_comp d k level Hk Hl) by assumption.
  rewrite slice_chain_comp by assumption. f_equal.
  rewrite IH; [| assumption | apply last_wf; [apply map_vadd_wf; assumption | assumption]].
  f_equal. rewrite comp_last, (map_vadd_comp d k level Hk Hl), slice_chain_comp by assumption. reflexivity.
Qed.

Lemma nd_chain_running_wf d : forall incs level, wf2 d incs -> length level = d -> wf d (nd_chain_running d level incs).
Proof.
  induction incs as [|inc r IH]; intros level H Hl; [constructor|].
  pose proof (Forall_inv H) as Hi. pose proof (Forall_inv_tail H) as Hr. cbn [nd_chain_running].
  assert (Hp : wf d (map (vadd level) (nd_slice_chain d inc))).
  { apply map_vadd_wf; [assumption|]. apply vcumsum_wf; [assumption | apply vzero_length]. }
  apply Forall_app. split; [assumption|]. apply IH; [assumption | apply last_wf; assumption].
Qed.

Theorem nd_jump_values_comp d k incs : (k < d)%nat -> wf2 d incs ->
  map (comp k) (nd_jump_values d incs) = mc_jump_values (map (map (comp k)) incs).
Proof.
  intros Hk H. unfold nd_jump_values, mc_jump_values.
  rewrite (nd_chain_running_comp d k Hk) by (try assumption; apply vzero_length). rewrite comp_vzero. reflexivity.
Qed.

Lemma nd_assemble_comp d k vals : map (comp k) (nd_assemble_values d vals) = assemble_values (map (comp k) vals).
Proof.
  unfold nd_assemble_values, assemble_values. cbn [map]. rewrite map_app. cbn [map].
  rewrite comp_last, !comp_vzero. reflexivity.
Qed.

(* ---- build_finer_grid commutes with any map on the values (components, fine / coarse) ---- *)
Lemma combine_map_r {A B C} (f : B -> C) : forall (a : list A) (b : list B),
  combine a (map f b) = map (fun x => (fst x, f (snd x))) (combine a b).
Proof. induction a as [|x a IH]; intros [|y b]; simpl; try reflexivity. rewrite IH. reflexivity. Qed.

Lemma map_removelast {A B} (f : A -> B) : forall l, map f (removelast l) = removelast (map f l).
Proof. induction l as [|x l IH]; [reflexivity|]. destruct l as [|y l']; [reflexivity|]. cbn [removelast map] in *. rewrite IH. reflexivity. Qed.

Lemma map_last {A B} (f : A -> B) : forall l dflt, f (last l dflt) = last (map f l) (f dflt).
Proof. induction l as [|x l IH]; intro dflt; [reflexivity|]. destruct l as [|y l']; [reflexivity|]. exact (IH dflt). Qed.

Section MapValues.
  Context {V W : Type}.
  Variable f : V -> W.
  Variable zero : V.

  Theorem build_finer_grid_map fuel eps T times (vals : list V) :
    build_finer_grid (f zero) fuel eps T times (map f vals)
    = (fst (build_finer_grid zero fuel eps T times vals), map f (snd (build_finer_grid zero fuel eps T times vals))).
  Proof.
    unfold build_finer_grid. destruct (Qle_bool T eps); [reflexivity|].
    unfold finer_grid. cbn [fst snd]. rewrite combine_map_r, <- (refine_proj f zero eps fuel).
    rewrite !map_map. cbn [fst snd]. reflexivity.
  Qed.

  Theorem refine_to_maturity_map fuel eps T times (vals : list V) :
    refine_to_maturity (f zero) fuel eps T times (map f vals)
    = (fst (refine_to_maturity zero fuel eps T times vals), map f (snd (refine_to_maturity zero fuel eps T times vals))).
  Proof.
    unfold refine_to_maturity.
    assert (E : map f vals ++ [last (map f vals) (f zero)] = map f (vals ++ [last vals zero])).
    { rewrite map_app. cbn [map]. rewrite (map_last f vals zero). reflexivity. }
    rewrite E, build_finer_grid_map. cbn [fst snd]. rewrite map_removelast. reflexivity.
  Qed.
End MapValues.

(* ---- the copula max-step path, component by component ---- *)
Theorem nd_capped_path_comp d k fuel eps T times vals :
  (fst (nd_capped_path d fuel eps T times vals), map (comp k) (snd (nd_capped_path d fuel eps T times vals)))
  = capped_path fuel eps T times (map (comp k) vals).
Proof.
  unfold nd_capped_path, capped_path. cbn [fst snd].
  pose proof (refine_to_maturity_map (comp k) (vzero d) fuel eps T times vals) as E. rewrite comp_vzero in E.
  rewrite E. cbn [fst snd]. rewrite nd_assemble_comp. reflexivity.
Qed.

Theorem nd_jump_path_comp d k cap fuel T tms offs incs : (k < d)%nat -> wf2 d incs ->
  let p := nd_jump_path d cap fuel T (jump_times_of tms offs) incs in
  (fst p, map (comp k) (snd p)) = jump_path true cap fuel T tms offs (map (map (comp k)) incs).
Proof.
  intros Hk H. cbv zeta. unfold nd_jump_path, jump_path. rewrite <- (nd_jump_values_comp d k incs Hk H).
  destruct cap as [eps|]; [apply nd_capped_path_comp|]. cbn [fst snd]. rewrite nd_assemble_comp. reflexivity.
Qed.

(* ---- coupled: fine and coarse ---- *)
Lemma map_fst_combine_eq {A B} : forall (a : list A) (b : list B), length a = length b -> map fst (combine a b) = a.
Proof. intros. apply map_fst_combine. lia. Qed.
Lemma map_snd_combine_eq {A B} : forall (a : list A) (b : list B), length a = length b -> map snd (combine a b) = b.
Proof. induction a as [|x a IH]; intros [|y b] H; simpl in *; try lia; [reflexivity|]. rewrite IH by lia. reflexivity. Qed.

Section CoupledMap.
  Context {V W : Type}.
  Variable zero : V.

  (* the fine (coarse) output of the coupled refinement is the refinement of the fine (coarse) input alone, on the same times *)
  Theorem coupled_refine_fine (g : V -> W) fuel eps T times (fine coarse : list V) : length fine = length coarse ->
    let '(t, f, c) := coupled_refine_to_maturity_v zero fuel eps T times fine coarse in
    (t, map g f) = refine_to_maturity (g zero) fuel eps T times (map g fine)
    /\ (t, map g c) = refine_to_maturity (g zero) fuel eps T times (map g coarse)
    /\ length f = length c.
  Proof.
    intro Hlen. unfold coupled_refine_to_maturity_v, coupled_finer_grid_v.
    set (F := fine ++ [last fine zero]). set (C := coarse ++ [last coarse zero]).
    assert (HFC : length F = length C) by (unfold F, C; rewrite !app_length; simpl; lia).
    set (r := build_finer_grid (zero, zero) fuel eps T (times ++ [T]) (combine F C)).
    pose proof (build_finer_grid_map (fun p : V * V => g (fst p)) (zero, zero) fuel eps T (times ++ [T]) (combine F C)) as E1.
    pose proof (build_finer_grid_map (fun p : V * V => g (snd p)) (zero, zero) fuel eps T (times ++ [T]) (combine F C)) as E2.
    fold r in E1, E2. cbn [fst snd] in E1, E2.
    rewrite <- (map_map fst g), map_fst_combine_eq in E1 by assumption.
    rewrite <- (map_map snd g), map_snd_combine_eq in E2 by assumption.
    assert (HF : map g F = map g fine ++ [last (map g fine) (g zero)]) by (unfold F; rewrite map_app; cbn [map]; rewrite (map_last g fine zero); reflexivity).
    assert (HC : map g C = map g coarse ++ [last (map g coarse) (g zero)]) by (unfold C; rewrite map_app; cbn [map]; rewrite (map_last g coarse zero); reflexivity).
    unfold refine_to_maturity. rewrite <- HF, <- HC, E1, E2. cbn [fst snd].
    rewrite <- !map_removelast, !map_map. repeat split. rewrite !map_length. reflexivity.
  Qed.
End CoupledMap.

(* the whole coupled n-d path: same times for fine and coarse; each component of each is the 1-d path of that component *)
Theorem nd_coupled_jump_path_comp d k cap fuel T times fincs cincs : (k < d)%nat -> wf2 d fincs -> wf2 d cincs ->
  length (nd_jump_values d fincs) = length (nd_jump_values d cincs) ->
  let '(t, f, c) := nd_coupled_jump_path d cap fuel T times fincs cincs in
  (t, map (comp k) f) = (let vals := mc_jump_values (map (map (comp k)) fincs) in
                         match cap with None => (assemble_times T times, assemble_values vals) | Some eps => capped_path fuel eps T times vals end)
  /\ (t, map (comp k) c) = (let vals := mc_jump_values (map (map (comp k)) cincs) in
                         match cap with None => (assemble_times T times, assemble_values vals) | Some eps => capped_path fuel eps T times vals end)
  /\ length f = length c.
Proof.
  intros Hk Hf Hc Hlen. unfold nd_coupled_jump_path. cbv zeta.
  rewrite <- (nd_jump_values_comp d k fincs Hk Hf), <- (nd_jump_values_comp d k cincs Hk Hc).
  destruct cap as [eps|].
  - pose proof (coupled_refine_fine (vzero d) (comp k) fuel eps T times _ _ Hlen) as H.
    destruct (coupled_refine_to_maturity_v (vzero d) fuel eps T times (nd_jump_values d fincs) (nd_jump_values d cincs)) as [[t f] c].
    destruct H as [H1 [H2 H3]]. rewrite comp_vzero in H1, H2. unfold capped_path. rewrite <- H1, <- H2. cbn [fst snd].
    rewrite !nd_assemble_comp. repeat split. unfold nd_assemble_values. cbn [length]. rewrite !app_length, H3. reflexivity.
  - rewrite !nd_assemble_comp. repeat split. unfold nd_assemble_values. cbn [length]. rewrite !app_length, Hlen. reflexivity.
Qed.

(* ---- diffusion: component k is the running sum of  sqrt(dt_j) * (row k of the diffusion matrix . normals of step j) ---- *)
Lemma nd_steps_wf d dm : length dm = d -> forall sq wcols, wf d (nd_diffusion_steps dm sq wcols).
Proof.
  intro Hd. unfold nd_diffusion_steps. induction sq as [|s sq IH]; intros [|w ws]; cbn [map2]; try constructor.
  - unfold matvec. rewrite !map_length. assumption.
  - apply IH.
Qed.

Lemma nd_steps_comp dm k : (k < length dm)%nat -> forall sq wcols,
  map (comp k) (nd_diffusion_steps dm sq wcols) = map2 (fun s w => s * dot (nth k dm []) w) sq wcols.
Proof.
  intro Hk. unfold nd_diffusion_steps. induction sq as [|s sq IH]; intros [|w ws]; cbn [map2 map]; try reflexivity.
  rewrite IH. f_equal. unfold comp, matvec. rewrite map_map.
  rewrite (nth_indep _ 0 ((fun row => s * dot row w) [])) by (rewrite map_length; assumption).
  rewrite (map_nth (fun row => s * dot row w)). reflexivity.
Qed.

Theorem nd_diffusion_comp d k dm sq wcols : length dm = d -> (k < d)%nat ->
  map (comp k) (nd_diffusion_path d dm sq wcols) = 0 :: cumsum (map2 (fun s w => s * dot (nth k dm []) w) sq wcols).
Proof.
  intros Hd Hk. unfold nd_diffusion_path, cumsum. cbn [map]. rewrite comp_vzero. f_equal.
  rewrite (vcumsum_comp d k Hk) by (try apply nd_steps_wf; try assumption; apply vzero_length).
  rewrite comp_vzero, nd_steps_comp by lia. reflexivity.
Qed.

(* ---- real jump times: np.sort(dt * uniforms) ---- *)
Fixpoint distinct (l : list Q) : Prop := match l with [] => True | x :: r => Forall (fun y => ~ x == y) r /\ distinct r end.

Lemma qinsert_Forall (P : Q -> Prop) x : forall l, P x -> Forall P l -> Forall P (qinsert x l).
Proof.
  induction l as [|y r IH]; intros Hx Hl; cbn [qinsert]; [constructor; [assumption | constructor]|].
  inversion Hl; subst. destruct (Qle_bool x y); constructor; auto.
Qed.

Lemma qsort_Forall (P : Q -> Prop) : forall l, Forall P l -> Forall P (qsort l).
Proof. induction 1 as [|x l Hx H IH]; [constructor|]. cbn [qsort fold_right]. apply qinsert_Forall; assumption. Qed.

Lemma qinsert_length x : forall l, length (qinsert x l) = S (length l).
Proof. induction l as [|y r IH]; cbn [qinsert]; [reflexivity|]. destruct (Qle_bool x y); cbn [length]; [reflexivity | rewrite IH; reflexivity]. Qed.

Lemma qsort_length : forall l, length (qsort l) = length l.
Proof. induction l as [|x l IH]; [reflexivity|]. cbn [qsort fold_right]. rewrite qinsert_length. fold (qsort l). rewrite IH. reflexivity. Qed.

Lemma qinsert_incr x : forall l lo, incr_from lo l -> lo < x -> Forall (fun y => ~ x == y) l -> incr_from lo (qinsert x l).
Proof.
  induction l as [|y r IH]; intros lo Hi Hlo Hd; cbn [qinsert]; [split; [assumption | exact I]|].
  destruct Hi as [H1 H2]. inversion Hd as [|? ? Hxy Hr]; subst. destruct (Qle_bool x y) eqn:E.
  - apply Qle_bool_iff in E. assert (x < y) by (destruct (Qlt_le_dec x y) as [L|L]; [assumption | exfalso; apply Hxy; apply Qle_antisym; assumption]).
    split; [assumption|]. split; assumption.
  - apply Qle_bool_false in E. split; [assumption|]. apply IH; assumption.
Qed.

Lemma qsort_incr lo : forall l, Forall (fun x => lo < x) l -> distinct l -> incr_from lo (qsort l).
Proof.
  induction l as [|x l IH]; intros Hl Hd; [exact I|]. inversion Hl; subst. destruct Hd as [Hx Hd].
  cbn [qsort fold_right]. fold (qsort l). apply qinsert_incr; [apply IH; assumption | assumption | apply qsort_Forall; assumption].
Qed.

Lemma distinct_scale dt : 0 < dt -> forall us, distinct us -> distinct (map (Qmult dt) us).
Proof.
  intros Hdt. induction us as [|u us IH]; intro H; [exact I|]. destruct H as [H1 H2]. split; [|apply IH; assumption].
  rewrite Forall_map. eapply Forall_impl; [|exact H1]. intros y Hy E. apply Hy.
  apply (Qmult_inj_l u y dt); [lra | assumption].
Qed.

(* offsets drawn by the REAL jump_times_from_nb_of_jumps from pairwise distinct uniforms in (0, 1): exactly the hypothesis of
   valid_ivs (C15_jump_times): strictly increasing inside (0, dt), one per uniform *)
Theorem offsets_of_uniforms_valid dt us : 0 < dt -> Forall (fun u => 0 < u /\ u < 1) us -> distinct us ->
  let offs := offsets_of_uniforms dt us in
  incr_from 0 offs /\ Forall (fun o => o < dt) offs /\ length offs = length us.
Proof.
  intros Hdt Hu Hd. cbv zeta. unfold offsets_of_uniforms. repeat split.
  - apply qsort_incr; [|apply distinct_scale; assumption]. rewrite Forall_map. eapply Forall_impl; [|exact Hu].
    intros u [H0 _]. simpl. apply Qmult_lt_0_compat; assumption.
  - apply qsort_Forall. rewrite Forall_map. eapply Forall_impl; [|exact Hu]. intros u [_ H1]. simpl.
    rewrite <- (Qmult_1_r dt) at 2. apply Qmult_lt_l; assumption.
  - rewrite qsort_length, map_length. reflexivity.
Qed.

(* ================================================================== statements used by Properties/C15.v *)
Lemma comp_nil k : comp k [] = 0.
Proof. destruct k; reflexivity. Qed.

Lemma comp_nth k i (l : list vec) : comp k (nth i l []) = nth i (map (comp k) l) 0.
Proof. rewrite <- (comp_nil k). symmetry. apply (map_nth (comp k)). Qed.

Lemma Forall2_Qeq_nth : forall a b, Forall2 Qeq a b -> forall i, nth i a 0 == nth i b 0.
Proof. induction 1 as [|x y a b E H IH]; intro i; destruct i; simpl; try reflexivity; [assumption | apply IH]. Qed.

(* fixed product dates, copula (MarkovChainLevyCopula) and coupled copula (fine and coarse are both instances of
   nd_coupled_fixed_component) simulators, every component k < d, any number of dates and of jumps *)
Theorem nd_fixed_dates d k intervals : (k < d)%nat -> wf2 d intervals -> forall j, (j < length intervals)%nat ->
  let ck := map (map (comp k)) intervals in
  (nth 0 (nd_fixed_jump_path d intervals) [] = vzero d
   /\ comp k (nth (S j) (nd_fixed_jump_path d intervals) []) == qsum (concat (firstn (S j) ck))
   /\ comp k (nth (S j) (nd_fixed_jump_path d intervals) []) - comp k (nth j (nd_fixed_jump_path d intervals) []) == qsum (nth j ck []))
  /\ (comp k (nth 0 (nd_coupled_fixed_component d intervals) []) == 0
   /\ comp k (nth (S j) (nd_coupled_fixed_component d intervals) []) == qsum (concat (firstn (S j) ck))
   /\ comp k (nth (S j) (nd_coupled_fixed_component d intervals) []) - comp k (nth j (nd_coupled_fixed_component d intervals) []) == qsum (nth j ck [])).
Proof.
  intros Hk Hwf j Hj ck.
  assert (Hj' : (j < length ck)%nat) by (unfold ck; rewrite map_length; assumption).
  destruct (fixed_dates ck j Hj') as [_ [H2 [H3 H4]]].
  pose proof (nd_fixed_comp d k intervals Hk Hwf) as E. fold ck in E.
  pose proof (nd_coupled_fixed_comp d k intervals Hk Hwf) as E2. fold ck in E2.
  pose proof (Forall2_Qeq_nth _ _ E2) as N2.
  assert (M : forall i, nth i (mc_fixed_jump_path ck) 0 == nth i (fixed_jump_path ck) 0).
  { intro i. destruct i as [|i]; [reflexivity|]. destruct (Nat.lt_ge_cases i (length ck)) as [L|L].
    - destruct (fixed_dates ck i L) as [_ [_ [_ H]]]. exact H.
    - unfold mc_fixed_jump_path, fixed_jump_path, cumsum. cbn [nth].
      rewrite !nth_overflow by (rewrite cumsum_from_length, map_length; assumption). reflexivity. }
  split; [split; [reflexivity|] | split; [|]].
  - rewrite !comp_nth, E, !M. split; assumption.
  - rewrite comp_nth, N2. reflexivity.
  - rewrite !comp_nth, !N2, !M. split; assumption.
Qed.

Lemma Forall2_len {A B} (R : A -> B -> Prop) : forall a b, Forall2 R a b -> length a = length b.
Proof. induction 1; simpl; congruence. Qed.

(* jump times: the values of every component are the running sums of all increments of that component so far, over any number of
   product intervals (chain_over_intervals on (n_k, d) arrays); zero column first, last column repeated at the maturity *)
Theorem nd_jump_values_path d k incs : (k < d)%nat -> wf2 d incs ->
  let vals := nd_jump_values d incs in
  let path := nd_assemble_values d vals in
  nth 0 path [] = vzero d
  /\ Forall2 Qeq (map (comp k) vals) (levy_jump_values (map (map (comp k)) incs))
  /\ (forall i, (i < length vals)%nat -> comp k (nth (S i) path []) == qsum (firstn (S i) (concat (map (map (comp k)) incs))))
  /\ last path [] = last vals (vzero d).
Proof.
  intros Hk Hwf vals path.
  assert (E : Forall2 Qeq (map (comp k) vals) (levy_jump_values (map (map (comp k)) incs))).
  { unfold vals. rewrite nd_jump_values_comp by assumption. apply chain_running_sum. }
  split; [reflexivity|]. split; [exact E|]. split.
  - intros i Hi. unfold path. rewrite comp_nth, nd_assemble_comp.
    pose proof (jump_values (map (map (comp k)) incs)) as J. cbv zeta in J. destruct J as [_ [J _]].
    assert (Hl : length (levy_jump_values (map (map (comp k)) incs)) = length vals).
    { rewrite <- (Forall2_len _ _ _ E). apply map_length. }
    rewrite <- (J i) by (rewrite Hl; assumption).
    unfold assemble_values. cbn [nth]. rewrite !app_nth1 by (try rewrite map_length; try rewrite Hl; assumption).
    apply Forall2_Qeq_nth. exact E.
  - unfold path, nd_assemble_values. rewrite app_comm_cons. apply last_last.
Qed.

Lemma Forall_fst_combine {A B} (P : A -> Prop) : forall (a : list A) (b : list B), Forall P a -> Forall (fun x => P (fst x)) (combine a b).
Proof. induction a as [|x a IH]; intros [|y b] H; simpl; try constructor; inversion H; subst; [assumption | apply IH; assumption]. Qed.

Lemma refine_to_maturity_lengths {V} (zero : V) N eps T times (vals : list V) : eps < T -> length vals = length times ->
  let tv := refine_to_maturity zero N eps T times vals in length (snd tv) = length (fst tv).
Proof.
  intros HT Hl. cbv zeta. unfold refine_to_maturity, build_finer_grid.
  assert (E : Qle_bool T eps = false) by (apply Qle_bool_false; assumption). rewrite E.
  unfold finer_grid. cbn [fst snd].
  assert (Hr : forall (A : Type) (l : list A), length (removelast l) = pred (length l)).
  { induction l as [|x l IH]; [reflexivity|]. destruct l; [reflexivity|]. cbn [removelast length] in *. rewrite IH. reflexivity. }
  rewrite !Hr. unfold cumsum. rewrite cumsum_from_length, !map_length. reflexivity.
Qed.

(* the coupled copula max-step simulator (helper.py build_finer_grid on (d, n) fine and coarse arrays through refine_up_to_maturity):
   EVERY step of the returned times is <= eps, the step to the maturity and jump-free paths included; fine and coarse columns are aligned with
   the times; each component of each is the 1-d capped path of that component (to which C15_cap_whole_path / Refines apply) *)
Theorem nd_coupled_cap d N eps T times (fine coarse : list vec) : 0 < eps -> eps < T ->
  length fine = length times -> length coarse = length times ->
  Forall (fun g => g <= inject_Z (Z.of_nat (S N)) * eps) (gaps (times ++ [T])) ->
  let '(t, f, c) := coupled_refine_to_maturity_v (vzero d) N eps T times fine coarse in
  let tt := assemble_times T t in
  hd 1 tt = 0 /\ last tt 0 = T /\ Forall (fun g => g <= eps) (gaps (tl tt))
  /\ length f = length t /\ length c = length t
  /\ forall k, (tt, map (comp k) (nd_assemble_values d f)) = capped_path N eps T times (map (comp k) fine)
            /\ (tt, map (comp k) (nd_assemble_values d c)) = capped_path N eps T times (map (comp k) coarse).
Proof.
  intros He HT Hlf Hlc Hg.
  assert (Hlen : length fine = length coarse) by lia.
  pose proof (fun k => coupled_refine_fine (vzero d) (comp k) N eps T times fine coarse Hlen) as H.
  pose proof (coupled_refine_fine (vzero d) (fun v : vec => v) N eps T times fine coarse Hlen) as Hid.
  destruct (coupled_refine_to_maturity_v (vzero d) N eps T times fine coarse) as [[t f] c]. cbv zeta.
  assert (Hcap : forall k, (assemble_times T t, map (comp k) (nd_assemble_values d f)) = capped_path N eps T times (map (comp k) fine)
                        /\ (assemble_times T t, map (comp k) (nd_assemble_values d c)) = capped_path N eps T times (map (comp k) coarse)).
  { intro k. destruct (H k) as [H1 [H2 _]]. rewrite comp_vzero in H1, H2. unfold capped_path. rewrite <- H1, <- H2. cbn [fst snd].
    rewrite !nd_assemble_comp. split; reflexivity. }
  destruct (Hcap 0%nat) as [C0 _].
  assert (Hl0 : length (map (comp 0) fine) = length times) by (rewrite map_length; assumption).
  assert (Hgl : gaps_le (inject_Z (Z.of_nat (S N)) * eps)
                  (combine (gaps (times ++ [T])) (map (comp 0) fine ++ [last (map (comp 0) fine) 0]))).
  { unfold gaps_le. apply (Forall_fst_combine (fun g => g <= inject_Z (Z.of_nat (S N)) * eps)). assumption. }
  pose proof (capped_path_whole N eps T times (map (comp 0) fine) He HT Hl0 Hgl) as W. cbv zeta in W. rewrite <- C0 in W. cbn [fst snd] in W.
  destruct W as [W1 [W2 [W3 _]]].
  destruct Hid as [I1 [I2 _]]. rewrite !map_id in I1, I2.
  pose proof (refine_to_maturity_lengths (vzero d) N eps T times fine HT Hlf) as L1. cbv zeta in L1. rewrite <- I1 in L1. cbn [fst snd] in L1.
  pose proof (refine_to_maturity_lengths (vzero d) N eps T times coarse HT Hlc) as L2. cbv zeta in L2. rewrite <- I2 in L2. cbn [fst snd] in L2.
  repeat split; try assumption; apply Hcap.
Qed.

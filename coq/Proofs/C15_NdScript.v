(* C15, wave 8b (audit5b top-10 #9): the coupled n-d path built from ONE script.  In C15_nd_coupled_path times and values are separate arguments
   (as they are separate arrays in the code), so that statement alone does not say that the value columns belong to the returned times: the
   instance tms = [0], offs = [[1/4;1/2;3/4]], fincs = [[[1;2]]], cincs = [[[3;4]]] meets its hypotheses with 5 times and 3 columns.  Here the
   jump times, the fine increments and the coupling states are read off one list of product intervals (start, length, jumps in time order, each
   jump = (offset, fine increment, coupling state)) - what the simulators consume jump by jump - and the conclusion contains the relation
   between times and values: one column per returned time, times from 0 to the maturity, strictly increasing. *)
From Coq Require Import ZArith QArith Qabs Bool List Lqa Lia.
From RV Require Import Base.QB Model.Paths Model.PathsNd Model.CouplingShapeNd Proofs.C15_Paths Proofs.C15_Finer Proofs.C15_Link Proofs.C15_Nd Proofs.C15_CouplingShape.
Import ListNotations.
Open Scope Q_scope.

Definition sjump := (Q * (vec * vec))%type.              (* offset inside the interval, fine increment, coupling state *)
Definition siv := (Q * Q * list sjump)%type.             (* start of the product interval, its length, its jumps *)
Definition s_iv (x : siv) : Q * Q * list Q := (fst (fst x), snd (fst x), map fst (snd x)).
Definition s_ivs (s : list siv) : list (Q * Q * list Q) := map s_iv s.
Definition s_fincs (s : list siv) : list (list vec) := map (fun x : siv => map (fun j : sjump => fst (snd j)) (snd x)) s.
Definition s_cincs (s : list siv) : list (list vec) := map (fun x : siv => map (fun j : sjump => snd (snd j)) (snd x)) s.
Definition s_wf (d : nat) (s : list siv) : Prop :=
  Forall (fun x : siv => Forall (fun j : sjump => length (fst (snd j)) = d /\ length (snd (snd j)) = d) (snd x)) s.
Definition s_njumps (s : list siv) : nat := length (concat (map (fun x : siv => snd x) s)).

Lemma s_incs_wf d s : s_wf d s -> wf2 d (s_fincs s) /\ wf2 d (s_cincs s).
Proof.
  intro H. unfold s_fincs, s_cincs, wf2, wf. induction H as [|x r Hx _ [IH1 IH2]]; [split; constructor|].
  cbn [map]. split; (constructor; [|assumption]); rewrite Forall_map; (eapply Forall_impl; [|exact Hx]); intros j [H1 H2]; assumption.
Qed.

Lemma s_lengths s :
  length (times_of_ivs (s_ivs s)) = s_njumps s
  /\ fold_right plus O (map (@length vec) (s_fincs s)) = s_njumps s
  /\ fold_right plus O (map (@length vec) (s_cincs s)) = s_njumps s.
Proof.
  unfold times_of_ivs, jump_times_of, s_ivs, s_fincs, s_cincs, s_njumps. induction s as [|x r [IH1 [IH2 IH3]]]; [repeat split|].
  cbn [map map2 concat fold_right]. rewrite !app_length, !map_length. unfold iv_offs at 1, s_iv at 1. cbn [snd]. rewrite map_length.
  rewrite IH1, IH2, IH3. repeat split.
Qed.

Lemma removelast_length {A} : forall l : list A, length (removelast l) = pred (length l).
Proof. induction l as [|x l IH]; [reflexivity|]. destruct l; [reflexivity|]. cbn [removelast length] in *. rewrite IH. reflexivity. Qed.

(* refine_up_to_maturity returns as many values as times - also when the cap is not below the maturity (build_finer_grid is the identity then) *)
Lemma rtm_lengths {V} (zero : V) fuel eps T times (vals : list V) : length vals = length times ->
  length (snd (refine_to_maturity zero fuel eps T times vals)) = length (fst (refine_to_maturity zero fuel eps T times vals)).
Proof.
  intro Hl. unfold refine_to_maturity, build_finer_grid. destruct (Qle_bool T eps).
  - cbn [fst snd]. rewrite !removelast_last. assumption.
  - unfold finer_grid. cbn [fst snd]. rewrite !removelast_length. unfold cumsum. rewrite cumsum_from_length, !map_length. reflexivity.
Qed.

(* ---- ordering of the returned times ---- *)
Lemma gaps_from_pos : forall l p, incr_from p l -> Forall (fun g => 0 < g) (gaps_from p l).
Proof. induction l as [|x r IH]; intros p H; [constructor|]. destruct H as [H1 H2]. cbn [gaps_from]. constructor; [lra | apply IH; assumption]. Qed.

Lemma gaps_from_length : forall l p, length (gaps_from p l) = length l.
Proof. induction l; intro; simpl; auto. Qed.

Lemma cumsum_from_incr : forall l a, Forall (fun g => 0 < g) l -> incr_from a (cumsum_from a l).
Proof.
  induction l as [|x r IH]; intros a H; [exact I|]. inversion H; subst. cbn [cumsum_from]. split; [lra | apply IH; assumption].
Qed.

Lemma incr_from_removelast : forall l lo, incr_from lo l -> incr_from lo (removelast l).
Proof.
  induction l as [|x l IH]; intros lo H; [exact I|]. destruct H as [H1 H2]. destruct l as [|y l']; [exact I|].
  change (removelast (x :: y :: l')) with (x :: removelast (y :: l')). split; [assumption | apply IH; assumption].
Qed.

(* every element of a strictly increasing list but the last is below the last *)
Lemma incr_from_removelast_lt : forall l lo, incr_from lo l -> l <> [] -> last (removelast l) lo < last l lo.
Proof.
  induction l as [|x l IH]; intros lo H Hne; [congruence|]. destruct H as [H1 H2]. destruct l as [|y l']; [simpl; assumption|].
  change (removelast (x :: y :: l')) with (x :: removelast (y :: l')).
  change (last (x :: y :: l') lo) with (last (y :: l') lo).
  specialize (IH x H2 ltac:(discriminate)).
  assert (E : last (y :: l') lo = last (y :: l') x) by apply last_default. rewrite E. clear E.
  destruct (removelast (y :: l')) as [|z w] eqn:E; [simpl in *; assumption|].
  change (last (x :: z :: w) lo) with (last (z :: w) lo).
  assert (E2 : last (z :: w) lo = last (z :: w) x) by apply last_default. rewrite E2. assumption.
Qed.

Lemma incr_close : forall a lo T, incr_from lo a -> last a lo < T -> incr_from lo (a ++ [T]).
Proof. intros a lo T Ha Hl. apply incr_from_app; [assumption|]. split; [assumption | exact I]. Qed.

Lemma Forall_pos_combine {V} : forall (a : list Q) (b : list V), Forall (fun g => 0 < g) a -> gaps_pos (combine a b).
Proof. unfold gaps_pos. induction a as [|x a IH]; intros [|y b] H; simpl; try constructor; inversion H; subst; [assumption | apply IH; assumption]. Qed.

Lemma qsum_Qeq : forall a b, Forall2 Qeq a b -> qsum a == qsum b.
Proof. induction 1 as [|x y a b E H IH]; [reflexivity|]. cbn [qsum]. rewrite E, IH. reflexivity. Qed.

(* the times refine_up_to_maturity returns, with 0 in front and the maturity behind: strictly increasing *)
Lemma rtm_times_incr {V} (zero : V) fuel eps T times (vals : list V) : 0 < eps -> length vals = length times ->
  incr_from 0 times -> last times 0 < T ->
  strictly_increasing (assemble_times T (fst (refine_to_maturity zero fuel eps T times vals))).
Proof.
  intros He Hl Hi HT. unfold assemble_times. cbn [strictly_increasing].
  unfold refine_to_maturity, build_finer_grid. destruct (Qle_bool T eps).
  - cbn [fst]. rewrite removelast_last. apply incr_close; assumption.
  - unfold finer_grid. cbn [fst].
    set (l := combine (gaps (times ++ [T])) (vals ++ [last vals zero])).
    set (r := refine zero fuel eps l).
    assert (Hpl : gaps_pos l).
    { unfold l. apply Forall_pos_combine. unfold gaps. apply gaps_from_pos. apply incr_close; assumption. }
    assert (Hpr : gaps_pos r) by (apply refine_gaps_pos; assumption).
    assert (HX : incr_from 0 (cumsum (map fst r))).
    { unfold cumsum. apply cumsum_from_incr. rewrite Forall_map. exact Hpr. }
    destruct (map fst r) as [|g gs] eqn:Eg.
    + cbn [cumsum cumsum_from removelast app]. split; [|exact I].
      assert (0 <= last times 0) by (destruct times as [|x ts]; [simpl; lra|]; destruct Hi as [H1 H2];
        pose proof (incr_from_last_lt (x :: ts) 0 (last (x :: ts) 0 + 1)) as P; clear P;
        assert (Q0 : forall (m : list Q) lo, incr_from lo m -> lo <= last m lo)
          by (induction m as [|z m IHm]; intros lo Hm; [simpl; lra|]; destruct Hm as [A B]; destruct m as [|z2 m2]; [simpl; lra|];
              change (last (z :: z2 :: m2) lo) with (last (z2 :: m2) lo); rewrite (last_default m2 z2 lo z); specialize (IHm z B); lra);
        apply (Q0 (x :: ts) 0); split; assumption).
      lra.
    + set (X := cumsum (g :: gs)) in *.
      assert (Hne : X <> []) by (unfold X, cumsum; cbn [cumsum_from]; discriminate).
      assert (Hlast : last X 0 == T).
      { unfold X, cumsum. rewrite cumsum_from_last by discriminate. rewrite <- Eg.
        rewrite (Refines_total zero l r (refine_spec zero eps fuel l He)).
        assert (Hf : map fst l = gaps (times ++ [T])).
        { unfold l. apply map_fst_combine. unfold gaps. rewrite gaps_from_length, !app_length. simpl. lia. }
        rewrite Hf. unfold gaps. rewrite gaps_total, last_last. ring. }
      apply incr_close; [apply incr_from_removelast; assumption|].
      rewrite <- Hlast. apply incr_from_removelast_lt; assumption.
Qed.

Lemma coupled_refine_id {V} (zero : V) fuel eps T times (fine coarse : list V) : length fine = length coarse ->
  let '(t, f, c) := coupled_refine_to_maturity_v zero fuel eps T times fine coarse in
  (t, f) = refine_to_maturity zero fuel eps T times fine /\ (t, c) = refine_to_maturity zero fuel eps T times coarse.
Proof.
  intro Hlen. pose proof (coupled_refine_fine zero (fun v : V => v) fuel eps T times fine coarse Hlen) as H.
  destruct (coupled_refine_to_maturity_v zero fuel eps T times fine coarse) as [[t f] c].
  destruct H as [H1 [H2 _]]. rewrite !map_id in H1, H2. split; assumption.
Qed.

(* ==== the coupled n-d path of ONE script ==== *)
Theorem nd_coupled_script d k cap fuel (s : list siv) : (k < d)%nat -> s_wf d s ->
  valid_ivs 0 (s_ivs s) -> 0 < end_of 0 (s_ivs s) -> match cap with Some eps => 0 < eps | None => True end ->
  let T := end_of 0 (s_ivs s) in
  let tms := map iv_tm (s_ivs s) in let offs := map iv_offs (s_ivs s) in
  let '(t, f, c) := nd_coupled_jump_path d cap fuel T (jump_times_of tms offs) (s_fincs s) (s_cincs s) in
  (* one column of fine and of coarse values per returned time *)
  length f = length t /\ length c = length t
  (* the returned times run from 0 to the maturity and are strictly increasing *)
  /\ hd 1 t = 0 /\ last t 0 = T /\ strictly_increasing t
  (* without a cap: exactly the scripted jump times between 0 and the maturity *)
  /\ (cap = None -> t = assemble_times T (times_of_ivs (s_ivs s)) /\ length t = S (S (s_njumps s)))
  (* each component of fine and of coarse is the 1-d chain path of that component on these times *)
  /\ (t, map (comp k) f) = jump_path true cap fuel T tms offs (map (map (comp k)) (s_fincs s))
  /\ (t, map (comp k) c) = jump_path true cap fuel T tms offs (map (map (comp k)) (s_cincs s))
  (* and the (uncoupled) copula simulator on the fine increments returns these times and the fine columns *)
  /\ nd_jump_path d cap fuel T (jump_times_of tms offs) (s_fincs s) = (t, f).
Proof.
  intros Hk Hwf Hv HT0 Hcap T tms offs.
  destruct (s_incs_wf d s Hwf) as [Hf Hc]. destruct (s_lengths s) as [L1 [L2 L3]].
  assert (Lf : length (nd_jump_values d (s_fincs s)) = length (times_of_ivs (s_ivs s)))
    by (unfold nd_jump_values; rewrite nd_chain_running_length, L2, L1; reflexivity).
  assert (Lc : length (nd_jump_values d (s_cincs s)) = length (times_of_ivs (s_ivs s)))
    by (unfold nd_jump_values; rewrite nd_chain_running_length, L3, L1; reflexivity).
  assert (Hlen : length (nd_jump_values d (s_fincs s)) = length (nd_jump_values d (s_cincs s))) by congruence.
  pose proof (nd_coupled_jump_path_comp d k cap fuel T (jump_times_of tms offs) (s_fincs s) (s_cincs s) Hk Hf Hc Hlen) as P.
  destruct (jump_times_incr (s_ivs s) 0 Hv) as [I1 [I2 I3]].
  assert (Hlt : last (times_of_ivs (s_ivs s)) 0 < T) by (apply incr_from_last_lt; assumption).
  change (jump_times_of tms offs) with (times_of_ivs (s_ivs s)) in *.
  unfold nd_coupled_jump_path, nd_jump_path in *. cbv zeta in P.
  destruct cap as [eps|].
  - pose proof (coupled_refine_id (vzero d) fuel eps T (times_of_ivs (s_ivs s)) _ _ Hlen) as R.
    unfold nd_capped_path.
    destruct (coupled_refine_to_maturity_v (vzero d) fuel eps T (times_of_ivs (s_ivs s)) (nd_jump_values d (s_fincs s)) (nd_jump_values d (s_cincs s)))
      as [[t0 f0] c0].
    destruct R as [R1 R2]. destruct P as [P1 [P2 _]].
    pose proof (rtm_lengths (vzero d) fuel eps T _ _ Lf) as G1. rewrite <- R1 in G1. cbn [fst snd] in G1.
    pose proof (rtm_lengths (vzero d) fuel eps T _ _ Lc) as G2. rewrite <- R2 in G2. cbn [fst snd] in G2.
    pose proof (rtm_times_incr (vzero d) fuel eps T _ _ Hcap Lf I1 Hlt) as G3. rewrite <- R1 in G3. cbn [fst] in G3.
    split; [unfold nd_assemble_values, assemble_times; cbn [length]; rewrite !app_length, G1; reflexivity|].
    split; [unfold nd_assemble_values, assemble_times; cbn [length]; rewrite !app_length, G2; reflexivity|].
    split; [reflexivity|]. split; [unfold assemble_times; rewrite app_comm_cons; apply last_last|].
    split; [exact G3|]. split; [discriminate|]. split; [exact P1|]. split; [exact P2|].
    rewrite <- R1. reflexivity.
  - destruct P as [P1 [P2 _]].
    split; [unfold nd_assemble_values, assemble_times; cbn [length]; rewrite !app_length, Lf; reflexivity|].
    split; [unfold nd_assemble_values, assemble_times; cbn [length]; rewrite !app_length, Lc; reflexivity|].
    split; [reflexivity|]. split; [unfold assemble_times; rewrite app_comm_cons; apply last_last|].
    split; [cbn [strictly_increasing assemble_times]; apply incr_close; assumption|].
    split; [intros _; split; [reflexivity | unfold assemble_times; cbn [length]; rewrite app_length, L1; simpl; lia]|].
    split; [exact P1|]. split; [exact P2|]. reflexivity.
Qed.

(* ==== the script of PRIMITIVE inputs: per jump the offset, the sampled state increment (d integers) and the sign vector __coupling_state drew ==== *)
Definition rjump := (Q * (list Z * list bool))%type.
Definition riv := (Q * Q * list rjump)%type.
Definition r_ivs (rs : list riv) : list (Q * Q * list Q) := map (fun x : riv => (fst (fst x), snd (fst x), map fst (snd x))) rs.
Definition r_wf (d : nat) (rs : list riv) : Prop :=
  Forall (fun x : riv => Forall (fun j : rjump => length (fst (snd j)) = d /\ length (snd (snd j)) = d) (snd x)) rs.
(* fine increment = grid[origin + increment], coupling state = the shape model of the real __coupling_state (Model/CouplingShapeNd.v) *)
Definition s_of_real (axes : list (list Q)) (org : list Z) (rs : list riv) : list siv :=
  map (fun x : riv => (fst x, map (fun j : rjump => (fst j, (fine_value axes org (fst (snd j)), coupling_value axes org (fst (snd j)) (snd (snd j))))) (snd x))) rs.

Lemma s_of_real_wf axes org rs : length org = length axes -> r_wf (length axes) rs -> s_wf (length axes) (s_of_real axes org rs).
Proof.
  intros Ho H. unfold s_of_real, s_wf. rewrite Forall_map. eapply Forall_impl; [|exact H]. intros x Hx. cbn [snd] in *. rewrite Forall_map.
  eapply Forall_impl; [|exact Hx]. intros j [H1 H2]. cbn [fst snd]. split; [apply fine_value_length | apply coupling_value_length]; congruence.
Qed.

Lemma s_of_real_ivs axes org rs : s_ivs (s_of_real axes org rs) = r_ivs rs.
Proof.
  unfold s_ivs, s_of_real, r_ivs, s_iv. rewrite map_map. apply map_ext. intro x. cbn [fst snd]. rewrite map_map. reflexivity.
Qed.

Lemma s_of_real_even axes org k rs : length org = length axes -> (k < length axes)%nat -> r_wf (length axes) rs ->
  (forall j : rjump, In j (concat (map (fun x : riv => snd x) rs)) -> Z.even (nth k (fst (snd j)) 0%Z) = true) ->
  map (map (comp k)) (s_cincs (s_of_real axes org rs)) = map (map (comp k)) (s_fincs (s_of_real axes org rs)).
Proof.
  intros Ho Hk Hw He. unfold s_cincs, s_fincs, s_of_real. rewrite !map_map. apply map_ext_in. intros x Hx. cbn [snd]. rewrite !map_map.
  apply map_ext_in. intros j Hj. cbn [fst snd].
  unfold r_wf in Hw. rewrite Forall_forall in Hw. specialize (Hw x Hx). rewrite Forall_forall in Hw. destruct (Hw j Hj) as [H1 H2].
  apply coupling_value_even; try congruence. apply He. apply in_concat. exists (snd x). split; [|assumption].
  apply in_map_iff. exists x. split; [reflexivity | assumption].
Qed.

(* C15_nd_coupled_script with the hypothesis about the vectors DISCHARGED from the shape of the real __coupling_state: premises on primitive inputs only *)
Theorem nd_coupled_script_real axes org k cap fuel (rs : list riv) :
  let d := length axes in
  length org = d -> (k < d)%nat -> r_wf d rs ->
  valid_ivs 0 (r_ivs rs) -> 0 < end_of 0 (r_ivs rs) -> match cap with Some eps => 0 < eps | None => True end ->
  let s := s_of_real axes org rs in
  let T := end_of 0 (r_ivs rs) in
  let tms := map iv_tm (r_ivs rs) in let offs := map iv_offs (r_ivs rs) in
  let '(t, f, c) := nd_coupled_jump_path d cap fuel T (jump_times_of tms offs) (s_fincs s) (s_cincs s) in
  length f = length t /\ length c = length t
  /\ hd 1 t = 0 /\ last t 0 = T /\ strictly_increasing t
  /\ (cap = None -> t = assemble_times T (times_of_ivs (r_ivs rs)) /\ length t = S (S (s_njumps s)))
  /\ (t, map (comp k) f) = jump_path true cap fuel T tms offs (map (map (comp k)) (s_fincs s))
  /\ (t, map (comp k) c) = jump_path true cap fuel T tms offs (map (map (comp k)) (s_cincs s))
  /\ ((forall j : rjump, In j (concat (map (fun x : riv => snd x) rs)) -> Z.even (nth k (fst (snd j)) 0%Z) = true) -> map (comp k) c = map (comp k) f).
Proof.
  intros d Ho Hk Hw Hv HT Hcap s T tms offs.
  pose proof (s_of_real_ivs axes org rs) as E. fold s in E.
  pose proof (nd_coupled_script d k cap fuel s Hk (s_of_real_wf axes org rs Ho Hw)) as P. fold s in P. rewrite E in P.
  specialize (P Hv HT Hcap). cbv zeta in P. fold T tms offs in P.
  destruct (nd_coupled_jump_path d cap fuel T (jump_times_of tms offs) (s_fincs s) (s_cincs s)) as [[t f] c].
  destruct P as [P1 [P2 [P3 [P4 [P5 [P6 [P7 [P8 _]]]]]]]].
  repeat (split; [assumption|]).
  intro He. pose proof (s_of_real_even axes org k rs Ho Hk Hw He) as Ev. fold s in Ev. rewrite Ev in P8. rewrite <- P7 in P8. congruence.
Qed.

(* Proofs for C15: fixed-date and jump-time path builders. *)
From Coq Require Import ZArith QArith Qabs Bool List Lqa Lia.
From RV Require Import Base.QB Model.Paths.
Import ListNotations.
Open Scope Q_scope.

Lemma last_default {A} : forall (l : list A) a d d', last (a :: l) d = last (a :: l) d'.
Proof. induction l as [|b l IH]; intros a d d'; [reflexivity | exact (IH b d d')]. Qed.

(* ---- cumsum ---- *)
Lemma cumsum_from_length : forall l acc, length (cumsum_from acc l) = length l.
Proof. induction l as [|x r IH]; intro acc; simpl; [reflexivity | rewrite IH; reflexivity]. Qed.

Lemma cumsum_from_nth : forall l acc j, (j < length l)%nat -> nth j (cumsum_from acc l) 0 == acc + qsum (firstn (S j) l).
Proof.
  induction l as [|x r IH]; intros acc j H; simpl in H; [lia|].
  destruct j as [|j].
  - cbn [cumsum_from nth firstn qsum]. destruct r; simpl; ring.
  - cbn [cumsum_from nth]. rewrite IH by lia. cbn [firstn qsum]. ring.
Qed.

Lemma cumsum_from_last : forall l acc d, l <> [] -> last (cumsum_from acc l) d == acc + qsum l.
Proof.
  induction l as [|x r IH]; intros acc d H; [congruence|].
  destruct r as [|y r']; [simpl; ring|].
  change (last (cumsum_from (acc + x) (y :: r')) d == acc + qsum (x :: y :: r')).
  rewrite IH by discriminate. cbn [qsum]. ring.
Qed.

Lemma qsum_app : forall a b, qsum (a ++ b) == qsum a + qsum b.
Proof. induction a as [|x a IH]; intro b; simpl; [ring | rewrite IH; ring]. Qed.

Lemma qsum_concat : forall L, qsum (map qsum L) == qsum (concat L).
Proof. induction L as [|l L IH]; simpl; [reflexivity | rewrite qsum_app, IH; reflexivity]. Qed.

Lemma firstn_map {A B} (f : A -> B) : forall n l, firstn n (map f l) = map f (firstn n l).
Proof. induction n; intro l; destruct l; simpl; [reflexivity | reflexivity | reflexivity | f_equal; apply IHn]. Qed.

(* the Markov-chain simulators take the last value of the chain restarted at the origin: the interval total *)
Lemma chain_total_sum slice : chain_total slice == qsum slice.
Proof.
  unfold chain_total, cumsum. destruct slice as [|x r]; [reflexivity|].
  rewrite cumsum_from_last by discriminate. ring.
Qed.

(* ---- C15_fixed_dates ---- *)
Theorem fixed_dates intervals j : (j < length intervals)%nat ->
  nth 0 (fixed_jump_path intervals) 0 = 0
  /\ nth (S j) (fixed_jump_path intervals) 0 == qsum (concat (firstn (S j) intervals))
  /\ nth (S j) (fixed_jump_path intervals) 0 - nth j (fixed_jump_path intervals) 0 == qsum (nth j intervals [])
  /\ nth (S j) (mc_fixed_jump_path intervals) 0 == nth (S j) (fixed_jump_path intervals) 0.
Proof.
  intro Hj. unfold fixed_jump_path, mc_fixed_jump_path, cumsum.
  assert (Hn : forall k, (k < length intervals)%nat ->
            nth k (cumsum_from 0 (map qsum intervals)) 0 == qsum (concat (firstn (S k) intervals))).
  { intros k Hk. rewrite cumsum_from_nth by (rewrite map_length; assumption).
    rewrite firstn_map, qsum_concat. ring. }
  split; [reflexivity|]. split; [cbn [nth]; apply Hn; assumption|]. split.
  - cbn [nth]. rewrite Hn by assumption. destruct j as [|j].
    + destruct intervals as [|i0 r]; [simpl in Hj; lia|]. cbn [firstn concat nth]. rewrite app_nil_r. ring.
    + rewrite Hn by lia.
      assert (E : forall (L : list (list Q)) n, (n < length L)%nat -> qsum (concat (firstn (S n) L)) == qsum (concat (firstn n L)) + qsum (nth n L [])).
      { induction L as [|l L IH]; intros n Hn'; simpl in Hn'; [lia|]. destruct n as [|n].
        - cbn [firstn concat nth qsum]. rewrite app_nil_r. ring.
        - change (firstn (S (S n)) (l :: L)) with (l :: firstn (S n) L). change (firstn (S n) (l :: L)) with (l :: firstn n L).
          cbn [concat nth]. rewrite !qsum_app, IH by lia. ring. }
      rewrite (E intervals (S j)) by assumption. ring.
  - cbn [nth]. rewrite !cumsum_from_nth by (rewrite map_length; assumption). rewrite !firstn_map.
    assert (E : forall L, qsum (map chain_total L) == qsum (map qsum L)).
    { induction L as [|l L IH]; simpl; [reflexivity | rewrite IH, chain_total_sum; reflexivity]. }
    rewrite E. reflexivity.
Qed.

Definition scaled (sq : list Q) (sigma : Q) (ws : list Q) : list Q := map2 (fun s w => s * sigma * w) sq ws.
Theorem fixed_diffusion (sq : list Q) (sigma : Q) (ws : list Q) (j : nat) : (j < length (scaled sq sigma ws))%nat ->
  nth 0 (diffusion_path sq sigma ws) 0 = 0 /\
  nth (S j) (diffusion_path sq sigma ws) 0 == qsum (firstn (S j) (scaled sq sigma ws)).
Proof.
  intro H. split; [reflexivity|]. unfold diffusion_path, cumsum. cbn [nth]. fold (scaled sq sigma ws).
  rewrite cumsum_from_nth by assumption. ring.
Qed.

(* ---- C15_jump_times ---- *)
(* strictly increasing chain starting above lo *)
Fixpoint incr_from (lo : Q) (l : list Q) : Prop := match l with [] => True | x :: r => lo < x /\ incr_from x r end.

Lemma incr_from_app : forall a lo b, incr_from lo a -> incr_from (last a lo) b -> incr_from lo (a ++ b).
Proof.
  induction a as [|x a IH]; intros lo b Ha Hb; [exact Hb|].
  destruct Ha as [H1 H2]. split; [assumption|]. apply IH; [assumption|].
  destruct a as [|y a']; [exact Hb|]. rewrite (last_default a' y x lo). exact Hb.
Qed.

Lemma incr_from_weaken : forall l lo lo', lo' <= lo -> incr_from lo l -> incr_from lo' l.
Proof. destruct l as [|x r]; intros lo lo' H Hi; [exact I|]. destruct Hi; split; [lra | assumption]. Qed.

Lemma incr_from_last_lt : forall l lo hi, incr_from lo l -> Forall (fun x => x < hi) l -> lo < hi -> last l lo < hi.
Proof.
  induction l as [|x r IH]; intros lo hi Hi Hf Hlo; [exact Hlo|].
  destruct Hi as [H1 H2]. inversion Hf; subst. destruct r as [|y r']; [assumption|].
  change (last (y :: r') lo < hi). 
  assert (E : last (y :: r') lo = last (y :: r') x) by (clear; revert y; induction r' as [|z r IH]; intro y; [reflexivity | exact (IH z)]).
  rewrite E. apply IH; assumption.
Qed.

Lemma incr_shift tm : forall offs lo, incr_from lo offs -> incr_from (tm + lo) (map (Qplus tm) offs).
Proof. induction offs as [|x r IH]; intros lo H; [exact I|]. destruct H as [H1 H2]. split; [lra | apply IH; assumption]. Qed.

(* product intervals (tm, dt, offsets): consecutive (tm of the next = tm + dt), dt > 0, offsets strictly
   increasing inside (0, dt) *)
Definition iv_tm (x : Q * Q * list Q) : Q := fst (fst x).
Definition iv_dt (x : Q * Q * list Q) : Q := snd (fst x).
Definition iv_offs (x : Q * Q * list Q) : list Q := snd x.
Fixpoint valid_ivs (t0 : Q) (ivs : list (Q * Q * list Q)) : Prop :=
  match ivs with
  | [] => True
  | x :: r => iv_tm x == t0 /\ 0 < iv_dt x /\ incr_from 0 (iv_offs x) /\ Forall (fun o => o < iv_dt x) (iv_offs x)
              /\ valid_ivs (t0 + iv_dt x) r
  end.
Definition times_of_ivs (ivs : list (Q * Q * list Q)) : list Q := jump_times_of (map iv_tm ivs) (map iv_offs ivs).
Definition end_of (t0 : Q) (ivs : list (Q * Q * list Q)) : Q := t0 + qsum (map iv_dt ivs).

Lemma last_shift_le tm dt : forall offs lo, incr_from lo offs -> Forall (fun o => o < dt) offs -> lo <= dt ->
  last (map (Qplus tm) offs) (tm + lo) <= tm + dt.
Proof.
  induction offs as [|x r IH]; intros lo Hi Hf Hlo; [simpl; lra|].
  destruct Hi as [H1 H2]. inversion Hf; subst. destruct r as [|y r']; [simpl; lra|].
  change (last (map (Qplus tm) (y :: r')) (tm + lo) <= tm + dt).
  assert (E : forall (l : list Q) a d d', last (a :: l) d = last (a :: l) d').
  { induction l as [|b l IHl]; intros a d d'; [reflexivity | exact (IHl b d d')]. }
  cbn [map]. rewrite (E _ _ (tm + lo) (tm + x)). apply (IH x); [assumption | assumption | lra].
Qed.

Lemma jump_times_incr : forall ivs t0, valid_ivs t0 ivs ->
  incr_from t0 (times_of_ivs ivs) /\ Forall (fun x => x < end_of t0 ivs) (times_of_ivs ivs) /\ t0 <= end_of t0 ivs.
Proof.
  induction ivs as [|x r IH]; intros t0 Hv.
  - unfold times_of_ivs, end_of. simpl. repeat split; [constructor | lra].
  - destruct Hv as [Htm [Hdt [Hinc [Hlt Hr]]]]. destruct (IH _ Hr) as [IH1 [IH2 IH3]].
    unfold times_of_ivs, jump_times_of in *. cbn [map map2 concat].
    assert (Hend : end_of t0 (x :: r) == end_of (t0 + iv_dt x) r) by (unfold end_of; cbn [map qsum]; ring).
    assert (Hfirst : incr_from t0 (map (Qplus (iv_tm x)) (iv_offs x))).
    { apply (incr_from_weaken _ (iv_tm x + 0)); [lra|]. apply incr_shift. assumption. }
    assert (Hlast : last (map (Qplus (iv_tm x)) (iv_offs x)) t0 <= t0 + iv_dt x).
    { destruct (iv_offs x) as [|o os] eqn:Eo; [simpl; lra|].
      assert (E : forall (l : list Q) a d d', last (a :: l) d = last (a :: l) d').
      { induction l as [|b l IHl]; intros a d d'; [reflexivity | exact (IHl b d d')]. }
      cbn [map]. rewrite (E _ _ t0 (iv_tm x + 0)). change (iv_tm x + o :: map (Qplus (iv_tm x)) os) with (map (Qplus (iv_tm x)) (o :: os)).
      pose proof (last_shift_le (iv_tm x) (iv_dt x) (o :: os) 0 Hinc Hlt ltac:(lra)). lra. }
    repeat split.
    + apply incr_from_app; [assumption|]. apply (incr_from_weaken _ (t0 + iv_dt x)); assumption.
    + apply Forall_app. split.
      * apply Forall_forall. intros y Hy. apply in_map_iff in Hy. destruct Hy as [o [<- Ho]].
        rewrite Forall_forall in Hlt. specialize (Hlt o Ho). rewrite Hend. lra.
      * eapply Forall_impl; [|exact IH2]. intros y Hy. simpl in Hy. rewrite Hend. assumption.
    + rewrite Hend. lra.
Qed.

Definition strictly_increasing (l : list Q) : Prop := match l with [] => True | x :: r => incr_from x r end.

(* C15_jump_times, times: first 0, last the maturity, strictly increasing (any number of dates and jumps, also none) *)
Theorem jump_times_path ivs : valid_ivs 0 ivs -> 0 < end_of 0 ivs ->
  let T := end_of 0 ivs in
  let times := assemble_times T (times_of_ivs ivs) in
  hd 1 times = 0 /\ last times 0 = T /\ strictly_increasing times.
Proof.
  intros Hv HT T times. destruct (jump_times_incr ivs 0 Hv) as [H1 [H2 H3]].
  unfold times, assemble_times. repeat split.
  - rewrite app_comm_cons. apply last_last.
  - cbn [strictly_increasing]. apply incr_from_app; [assumption|]. split; [|exact I].
    apply incr_from_last_lt; assumption.
Qed.

(* C15_jump_times, values: the running sum of all jump increments so far, 0 at time 0, last value repeated at maturity *)
Theorem jump_values incs :
  let vals := levy_jump_values incs in
  let path := assemble_values vals in
  nth 0 path 0 = 0
  /\ (forall k, (k < length vals)%nat -> nth (S k) path 0 == qsum (firstn (S k) (concat incs)))
  /\ last path 0 = last vals 0
  /\ length path = S (S (length (concat incs))).
Proof.
  cbv zeta. unfold assemble_values, levy_jump_values, cumsum. repeat split.
  - intros k Hk. cbn [nth]. rewrite app_nth1 by assumption. rewrite cumsum_from_length in Hk.
    rewrite cumsum_from_nth by assumption. ring.
  - rewrite app_comm_cons. apply last_last.
  - cbn [length]. rewrite app_length, cumsum_from_length. simpl. lia.
Qed.

(* ---- the repaired Markov-chain jump-time simulators: one running path over all product intervals ---- *)
Lemma cumsum_from_app : forall a acc b, cumsum_from acc (a ++ b) = cumsum_from acc a ++ cumsum_from (last (cumsum_from acc a) acc) b.
Proof.
  induction a as [|x a IH]; intros acc b; [reflexivity|].
  cbn [app cumsum_from]. rewrite IH. f_equal. f_equal. f_equal.
  destruct a as [|y a']; [reflexivity|]. cbn [cumsum_from].
  change (last (acc + x + y :: cumsum_from (acc + x + y) a') (acc + x) = last (acc + x + y :: cumsum_from (acc + x + y) a') acc).
  apply last_default.
Qed.

Lemma cumsum_from_shift c : forall l a a', c + a == a' -> Forall2 Qeq (map (Qplus c) (cumsum_from a l)) (cumsum_from a' l).
Proof.
  induction l as [|x r IH]; intros a a' E; [constructor|].
  cbn [cumsum_from map]. constructor; [rewrite <- E; ring | apply IH; rewrite <- E; ring].
Qed.

Lemma Forall2_Qeq_last : forall a b d d', Forall2 Qeq a b -> d == d' -> last a d == last b d'.
Proof.
  induction 1 as [|x y a b E H IH]; intro Ed; [exact Ed|].
  destruct H as [|x2 y2 a2 b2 E2 H2]; [exact E|].
  change (last (x2 :: a2) d == last (y2 :: b2) d'). apply IH. assumption.
Qed.

Lemma Forall2_Qeq_app : forall a b c d, Forall2 Qeq a b -> Forall2 Qeq c d -> Forall2 Qeq (a ++ c) (b ++ d).
Proof. induction 1; intros; [assumption | constructor; auto]. Qed.

Lemma chain_running_gen : forall incs level level', level == level' ->
  Forall2 Qeq (chain_running level incs) (cumsum_from level' (concat incs)).
Proof.
  induction incs as [|inc r IH]; intros level level' E; [constructor|].
  cbn [chain_running concat]. rewrite cumsum_from_app.
  assert (Hp : Forall2 Qeq (map (Qplus level) (cumsum inc)) (cumsum_from level' inc)).
  { unfold cumsum. apply cumsum_from_shift. rewrite <- E. ring. }
  apply Forall2_Qeq_app; [assumption|]. apply IH. apply Forall2_Qeq_last; assumption.
Qed.

(* C15_jump_times for the Markov-chain simulators (F-C15-4 repaired): any number of product intervals, the values are the
   running sums of all increments so far *)
Theorem chain_running_sum incs : Forall2 Qeq (mc_jump_values incs) (levy_jump_values incs).
Proof. unfold mc_jump_values, levy_jump_values, cumsum. apply chain_running_gen. reflexivity. Qed.

(* Proofs for C16: df of the model classes other than the two rate models (py2coq-generated, Gen/GenC16Df.v, domain R). *)
From Coq Require Import Reals Lra.
From RV Require Import Gen.GenC16Df.
Open Scope R_scope.

Theorem exp_df_zero r : exp_df r 0 = 1.
Proof. unfold exp_df. rewrite Rmult_0_r. apply exp_0. Qed.

Theorem exp_df_pos r t : 0 < exp_df r t.
Proof. apply exp_pos. Qed.

Lemma exp_le x y : x <= y -> exp x <= exp y.
Proof. intros [H|H]; [left; apply exp_increasing; assumption | right; rewrite H; reflexivity]. Qed.

Theorem exp_df_nonincreasing r s t : 0 <= r -> s <= t -> exp_df r t <= exp_df r s.
Proof. intros Hr Hst. unfold exp_df. apply exp_le. nra. Qed.

Theorem exp_df_le_1 r t : 0 <= r -> 0 <= t -> exp_df r t <= 1.
Proof. intros Hr Ht. rewrite <- (exp_df_zero r). apply exp_df_nonincreasing; assumption. Qed.

Theorem exp_df_continuous r t : continuity_pt (exp_df r) t.
Proof. apply derivable_continuous_pt. unfold exp_df. reg. Qed.

(* sharpness: r >= 0 is needed for monotonicity; with a negative rate the discount factor strictly increases *)
Theorem exp_df_negative_rate_increases r s t : r < 0 -> s < t -> exp_df r s < exp_df r t.
Proof. intros Hr Hst. unfold exp_df. apply exp_increasing. nra. Qed.

Theorem const_df t : levy_df t = 1 /\ sde_df t = 1.
Proof. unfold levy_df, sde_df. split; field. Qed.

(* the copula model, the 2-d series representation and Process delegate: every property of the delegate's df is inherited *)
Theorem wrappers_inherit (df0 : R -> R) (P : (R -> R) -> Prop) :
  P df0 -> P (copula_df df0) /\ P (series_df df0) /\ P (process_df df0).
Proof. intro H. repeat split; exact H. Qed.

(* C16, wave 8b.
   (1) F-C16-8: the Libor drift COEFFICIENT.  _coefficient_sszz.helper does  res2[i, i+1:] = sigma[i,:].T @ zz @ sigma[i+1,:]  - ONE scalar
       for the whole row slice - so entry (i, j) of sszz is sigma_i zz sigma_(i+1) for EVERY j > i (Model/RateSDE.v copies that, as it must).
       The order-1 term of the Levy Libor drift under the terminal measure (docstring of compute_drift_term; the (nb, nb) matrix contracted
       with omegas[1:] over j) is  sum_(j>i) (sigma_i zz sigma_j) omega_j : entry (i, j) = sigma_i zz sigma_j.  Stated here as
       sszz_order1 / b_libor_order1; they agree for two rates and differ for three as soon as sigma_1 <> sigma_2.
   (2) the zz of the F-C16-7 witness computed INSIDE Coq from the densities of the step measure (second moment outside (-h/2, h/2)),
       so that the refutation is about the zz of one Levy measure on the level-0 and level-1 grids and not about invented numbers. *)
From Coq Require Import ZArith QArith Qminmax Qabs Bool List Lia.
From RV Require Import Base.QB Base.QVec Base.QArr Gen.GenC16Coef Model.Euler Model.RateSDE Proofs.C16_Euler Proofs.C16_Levels.
Import ListNotations.
Open Scope Q_scope.

(* ---------------------------------------------------------------- (1) the coefficient *)
Definition sszz_coef_ij (zz Sg : list (list Q)) (i j : nat) : Q := dot (nth i Sg []) (matvec zz (nth j Sg [])).

Definition sszz_order1 (tenors : list Q) (sigma zz : list (list Q)) (t : Q) : list (list Q) :=
  let Sg := libor_sigma tenors sigma t in
  let nb := length sigma in
  map (fun i => map (fun j => if Nat.ltb i j then sszz_coef_ij zz Sg i j else 0) (seq 0 nb)) (seq 0 nb).

Definition b_libor_order1 (tenors deltas : list Q) (sigma zz : list (list Q)) : Q -> list Q -> list Q := fun t x =>
  let idx := seq 0 (length x) in
  let omegas := map (fun i => libor_omega (libor_x_delta (nth i x 0) (nth i deltas 0))) idx in
  let dr := map (fun row => dot (tl row) (tl omegas)) (sszz_order1 tenors sigma zz t) in
  map (fun i => libor_drift_entry (nth i x 0) (nth i dr 0)) idx.

Lemma nth_map_seq {A} (f : nat -> A) n i d : (i < n)%nat -> nth i (map f (seq 0 n)) d = f i.
Proof.
  intro H. rewrite (nth_indep _ d (f 0%nat)) by (rewrite map_length, seq_length; exact H).
  rewrite map_nth, seq_nth by exact H. reflexivity.
Qed.

(* any number of rates, any driver dimension, any t: the entry (i, j), i < j, of the matrix the CODE builds does not depend on j -
   it is the coefficient of the pair (i, i+1); the order-1 matrix has sigma_i zz sigma_j there; the two agree on the first
   off-diagonal (hence for two rates) *)
Theorem libor_sszz_row_constant T sigma zz t i j : (i < j)%nat -> (j < length sigma)%nat ->
  nth j (nth i (sszz T sigma zz t) []) 0 = sszz_coef zz (libor_sigma T sigma t) i
  /\ nth j (nth i (sszz_order1 T sigma zz t) []) 0 = sszz_coef_ij zz (libor_sigma T sigma t) i j
  /\ sszz_coef zz (libor_sigma T sigma t) i = sszz_coef_ij zz (libor_sigma T sigma t) i (S i).
Proof.
  intros Hij Hj. split; [|split].
  - unfold sszz. cbv zeta. rewrite nth_map_seq by lia. rewrite nth_map_seq by lia.
    replace (Nat.ltb i (length sigma - 1)) with true by (symmetry; apply Nat.ltb_lt; lia).
    replace (Nat.ltb i j) with true by (symmetry; apply Nat.ltb_lt; lia). reflexivity.
  - unfold sszz_order1. cbv zeta. rewrite nth_map_seq by lia. rewrite nth_map_seq by lia.
    replace (Nat.ltb i j) with true by (symmetry; apply Nat.ltb_lt; lia). reflexivity.
  - reflexivity.
Qed.

(* three rates, 1-d driver, before the first fixing: closed forms of the drift of rate 0 as the code computes it and of the order-1
   formula; they differ by  x0 s0 z (s2 - s1) omega_2  - zero only if sigma_1 = sigma_2 (or a factor vanishes) *)
Theorem libor_drift_3rates T d0 d1 d2 s0 s1 s2 z t x0 x1 x2 :
  t < nth 0 T 0 ->
  let dl := [d0; d1; d2] in let Sg := [[s0]; [s1]; [s2]] in let x := [x0; x1; x2] in
  let w1 := x1 * d1 / (1 + x1 * d1) in let w2 := x2 * d2 / (1 + x2 * d2) in
  nth 0 (b_libor T dl Sg [[z]] t x) 0 == - (x0 * (s0 * z * s1 * (w1 + w2)))
  /\ nth 0 (b_libor_order1 T dl Sg [[z]] t x) 0 == - (x0 * (s0 * z * s1 * w1 + s0 * z * s2 * w2))
  /\ nth 0 (b_libor T dl Sg [[z]] t x) 0 - nth 0 (b_libor_order1 T dl Sg [[z]] t x) 0 == x0 * s0 * z * (s2 - s1) * w2.
Proof.
  intros H0 dl Sg x w1 w2.
  assert (A : nth 0 (b_libor T dl Sg [[z]] t x) 0 == - (x0 * (s0 * z * s1 * (w1 + w2)))).
  { unfold b_libor, drift_term, sszz, libor_sigma, rows_with, sszz_coef, dl, Sg, x, w1, w2.
    cbn [length seq map nth tl Nat.sub Nat.ltb Nat.leb andb].
    rewrite !(entry_early T _ _ t H0).
    cbn [dot matvec map tl nth]. unfold libor_drift_entry, libor_omega, libor_x_delta.
    rewrite !Qred_correct. unfold Qdiv. ring. }
  assert (B : nth 0 (b_libor_order1 T dl Sg [[z]] t x) 0 == - (x0 * (s0 * z * s1 * w1 + s0 * z * s2 * w2))).
  { unfold b_libor_order1, sszz_order1, libor_sigma, rows_with, sszz_coef_ij, dl, Sg, x, w1, w2.
    cbn [length seq map nth tl Nat.sub Nat.ltb Nat.leb andb].
    rewrite !(entry_early T _ _ t H0).
    cbn [dot matvec map tl nth]. unfold libor_drift_entry, libor_omega, libor_x_delta.
    rewrite !Qred_correct. unfold Qdiv. ring. }
  split; [exact A|split; [exact B|]]. rewrite A, B. unfold Qdiv. ring.
Qed.

(* F-C16-8, the witness run on the real object on every check: rates 1/32, 1/16, 1/8 on tenors 1, 3/2, 2, 5/2, sigma = 1/2, 1/4, 1,
   zz = 1935/2048 (the level-0 grid of the F-C16-7 driver), t = 0 *)
Theorem libor_drift_coefficient_refuted :
  exists T dl Sg zz t x,
    Qred (nth 0 (b_libor T dl Sg zz t x) 0) = -(16125 # 49020928)
    /\ Qred (nth 0 (b_libor_order1 T dl Sg zz t x) 0) = -(96105 # 98041856)
    /\ ~ nth 0 (b_libor T dl Sg zz t x) 0 == nth 0 (b_libor_order1 T dl Sg zz t x) 0
    /\ map (map Qred) (sszz T Sg zz t) = [[0; 1935#16384; 1935#16384]; [0; 0; 1935#8192]; [0; 0; 0]]
    /\ map (map Qred) (sszz_order1 T Sg zz t) = [[0; 1935#16384; 1935#4096]; [0; 0; 1935#8192]; [0; 0; 0]].
Proof.
  exists [1; 3#2; 2; 5#2], [1#2; 1#2; 1#2], [[1#2]; [1#4]; [1]], [[1935#2048]], 0, [1#32; 1#16; 1#8].
  repeat split; try (vm_compute; reflexivity). vm_compute. discriminate.
Qed.

(* ---------------------------------------------------------------- (2) zz of a step measure *)
Definition cube (x : Q) : Q := x * x * x.

(* integral of x^2 over [a, b] minus (-h/2, h/2)   (a <= b) *)
Definition piece_xx (h a b : Q) : Q :=
  let hi := Qminb b (- (h / 2)) in
  let lo := Qmaxb a (h / 2) in
  (if Qle_bool a hi then (cube hi - cube a) / 3 else 0) + (if Qle_bool lo b then (cube b - cube lo) / 3 else 0).

(* density dens_k on [breaks_k, breaks_k+1]: nu.integrate_against_xx(-inf, -h/2) + nu.integrate_against_xx(h/2, inf) *)
Fixpoint step_zz (h : Q) (breaks dens : list Q) : Q :=
  match breaks, dens with
  | a :: ((b :: _) as rest), d :: ds => d * piece_xx h a b + step_zz h rest ds
  | _, _ => 0
  end.

(* F-C16-7 with the zz of BOTH grids computed from ONE Levy measure (densities 3/2, 15/4, 9/4, 21/4 on the breaks -3/4, -5/64, 0, 5/64, 3/4):
   h = 1/4 gives 1935/2048, h/2 gives 994691/1048576 (both compared with the objects' _integral_zz on every run, group zz);
   the fine row of the coupled scheme as the code runs it (zz of h) is not the scheme of the single process of the refined grid (zz of h/2) *)
Theorem coupled_level_drift_refuted_measure :
  exists breaks dens h T dl Sg mu_h mu_2h times J W x,
    let zz0 := [[step_zz h breaks dens]] in
    let zz1 := [[step_zz (h / 2) breaks dens]] in
    let st := steps_of times J W in
    let cs := zip_csteps st st in
    Qred (step_zz h breaks dens) = 1935 # 2048 /\ Qred (step_zz (h / 2) breaks dens) = 994691 # 1048576 /\
    ~ nth 0 (nth 1 (fst3 (sde_path (a_libor T Sg) (b_libor T dl Sg zz1) mu_h x st)) []) 0
      == nth 0 (nth 1 (path_of (length x) (map fst3 (map fst (ceuler_st (a_st_of (a_libor T Sg)) (b_libor T dl Sg zz0) mu_h mu_2h cs x x)))) []) 0.
Proof.
  exists [-(3#4); -(5#64); 0; 5#64; 3#4], [3#2; 15#4; 9#4; 21#4], (1#4),
         [1; 3#2; 2], [1#2; 1#2], [[1#2]; [1#4]], [-(1627#2048)], [-(103#128)],
         [0; 1#2; 1], [[0; 1#4; 1#4]], [[0; 1#8; 0]], [1#32; 1#16].
  cbv zeta. split; [vm_compute; reflexivity|]. split; [vm_compute; reflexivity|]. vm_compute. discriminate.
Qed.

(* for EVERY step measure and grid step: whenever the second moments outside (-h/2, h/2) and outside (-h/4, h/4) differ (two rates, 1-d driver,
   a step before the first fixing, non-zero factors) the two schemes differ - C16_Levels.coupled_level_drift_gap instantiated with the
   measure's own zz *)
Theorem coupled_level_drift_gap_measure breaks dens h T d0 d1 s0 s1 mu_h mu_2h c x0 x1 :
  c_t c < nth 0 T 0 ->
  let z0 := step_zz h breaks dens in let zl := step_zz (h / 2) breaks dens in
  let Sg := [[s0]; [s1]] in let dl := [d0; d1] in let x := [x0; x1] in
  nth 0 (fst3 (hd tm0 (euler (a_libor T Sg) (b_libor T dl Sg [[zl]]) mu_h [fine_step c] x))) 0
  - nth 0 (fst3 (fst (hd (tm0, tm0) (ceuler_st (a_st_of (a_libor T Sg)) (b_libor T dl Sg [[z0]]) mu_h mu_2h [c] x x)))) 0
  == c_dt c * (x0 * (s0 * (z0 - zl) * s1 * (x1 * d1 / (1 + x1 * d1)))).
Proof. intros H z0 zl Sg dl x. apply coupled_level_drift_gap. exact H. Qed.

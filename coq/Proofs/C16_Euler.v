(* Proofs for C16 (Euler scheme part). *)
From Coq Require Import ZArith QArith Qabs Bool List Lqa Lia.
From RV Require Import Base.QB Base.QVec Model.Euler.
Import ListNotations.
Open Scope Q_scope.

Add Parametric Relation : (list Q) veq
  reflexivity proved by veq_refl symmetry proved by veq_sym transitivity proved by veq_trans as veq_rel.
Add Parametric Morphism : vadd with signature veq ==> veq ==> veq as vadd_mor.
Proof. intros; apply vadd_veq; assumption. Qed.
Add Parametric Morphism c : (vscale c) with signature veq ==> veq as vscale_mor.
Proof. intros; apply vscale_veq; assumption. Qed.
Add Parametric Morphism A : (matvec A) with signature veq ==> veq as matvec_mor.
Proof. intros; apply matvec_veq; assumption. Qed.

Ltac vsimp := repeat rewrite ?qn_vadd, ?qn_vscale, ?qn_vzero, ?qn_nil, ?qn_matvec, ?dot_vadd, ?dot_vscale, ?dot_nil_r.
Ltac vring := intro; vsimp; try ring.

Lemma vadd_assoc u v w : veq (vadd (vadd u v) w) (vadd u (vadd v w)).
Proof. vring. Qed.
Lemma vadd_comm u v : veq (vadd u v) (vadd v u).
Proof. vring. Qed.
Lemma vadd_zero_l m v : veq (vadd (vzero m) v) v.
Proof. vring. Qed.
Lemma vadd_zero_r m v : veq (vadd v (vzero m)) v.
Proof. vring. Qed.

Section Gen.
  Variable a : Q -> list Q -> list (list Q).
  Variable b : Q -> list Q -> list Q.
  Variable mu : list Q.
  Notation terms := (terms a b mu).
  Notation next := (next a b mu).
  Notation euler := (euler a b mu).
  Notation states := (states a b mu).

  Lemma next_veq s z : let A := a (s_t s) z in
    veq (next s z) (vadd z (vadd (vscale (s_dt s) (vadd (b (s_t s) z) (matvec A mu))) (matvec A (vadd (s_dW s) (s_dL s))))).
  Proof.
    cbv zeta. unfold Euler.next, Euler.terms, fst3, snd3, thd3. cbn [fst snd]. vring.
  Qed.

  (* generalised over the accumulators of the three cumulative sums *)
  Lemma euler_gen : forall steps z x0 aD aW aJ, veq z (vadd x0 (vadd aD (vadd aW aJ))) ->
    forall i s, nth_error steps i = Some s ->
    let tms := euler steps z in
    let Z := states steps z in
    let D := aD :: cumsum_from aD (map fst3 tms) in
    let W := aW :: cumsum_from aW (map snd3 tms) in
    let J := aJ :: cumsum_from aJ (map thd3 tms) in
    let zi := nth i Z [] in
    let A := a (s_t s) zi in
    veq zi (vadd x0 (vadd (nth i D []) (vadd (nth i W []) (nth i J []))))
    /\ nth (S i) D [] = vadd (nth i D []) (vscale (s_dt s) (vadd (b (s_t s) zi) (matvec A mu)))
    /\ nth (S i) W [] = vadd (nth i W []) (matvec A (s_dW s))
    /\ nth (S i) J [] = vadd (nth i J []) (matvec A (s_dL s))
    /\ nth (S i) Z [] = next s zi.
  Proof.
    induction steps as [|s0 r IH]; intros z x0 aD aW aJ Hz i s Hi; [destruct i; discriminate|].
    destruct i as [|i].
    - injection Hi as <-. cbn. repeat split; try reflexivity. assumption.
      destruct r; reflexivity.
    - simpl in Hi.
      set (tm := terms s0 z).
      specialize (IH (next s0 z) x0 (vadd aD (fst3 tm)) (vadd aW (snd3 tm)) (vadd aJ (thd3 tm))).
      assert (Hz' : veq (next s0 z) (vadd x0 (vadd (vadd aD (fst3 tm)) (vadd (vadd aW (snd3 tm)) (vadd aJ (thd3 tm)))))).
      { unfold Euler.next. fold tm. intro k. vsimp. rewrite (Hz k). vsimp. ring. }
      specialize (IH Hz' i s Hi). cbn in IH. cbn. exact IH.
  Qed.
End Gen.

(* C16_euler_step: on the driver's grid the returned drift/diffusion/jump paths are the cumulative sums
   of the three terms of the Euler step evaluated at the scheme's state, and x0 + their sum IS that state *)
Theorem euler_step a b mu x0 steps i s : nth_error steps i = Some s ->
  let Z := states a b mu steps x0 in
  let '(D, W, J) := sde_path a b mu x0 steps in
  let zi := nth i Z [] in
  let A := a (s_t s) zi in
  veq zi (vadd x0 (vadd (nth i D []) (vadd (nth i W []) (nth i J []))))
  /\ nth (S i) D [] = vadd (nth i D []) (vscale (s_dt s) (vadd (b (s_t s) zi) (matvec A mu)))
  /\ nth (S i) W [] = vadd (nth i W []) (matvec A (s_dW s))
  /\ nth (S i) J [] = vadd (nth i J []) (matvec A (s_dL s))
  /\ veq (nth (S i) Z []) (vadd zi (vadd (vscale (s_dt s) (vadd (b (s_t s) zi) (matvec A mu))) (matvec A (vadd (s_dW s) (s_dL s))))).
Proof.
  intro Hi. unfold sde_path, path_of. cbv zeta.
  set (m := length x0).
  destruct (euler_gen a b mu steps x0 x0 (vzero m) (vzero m) (vzero m) ltac:(vring) i s Hi) as [H1 [H2 [H3 [H4 H5]]]].
  repeat split; try assumption.
  rewrite H5. apply next_veq.
Qed.

(* ---- constant coefficient ---- *)
Fixpoint sum_dt (steps : list step) : Q := match steps with [] => 0 | s :: r => s_dt s + sum_dt r end.
Fixpoint sum_dL (steps : list step) : list Q := match steps with [] => [] | s :: r => vadd (s_dL s) (sum_dL r) end.
Fixpoint sum_dW (steps : list step) : list Q := match steps with [] => [] | s :: r => vadd (s_dW s) (sum_dW r) end.

Lemma constant_gen A mu : forall steps z,
  veq (final (a_constant A) b_zero mu steps z)
      (vadd z (matvec A (vadd (vscale (sum_dt steps) mu) (vadd (sum_dL steps) (sum_dW steps))))).
Proof.
  induction steps as [|s r IH]; intro z.
  - cbn [final sum_dt sum_dL sum_dW]. vring.
  - cbn [final sum_dt sum_dL sum_dW]. intro k. rewrite (IH _ k).
    unfold next, terms, a_constant, b_zero, fst3, snd3, thd3. cbn [fst snd]. vsimp. ring.
Qed.

(* C16_constant_a: X_T = x0 + A * Y_T, Y_T = mu * (sum of dt) + (sum of dL) + (sum of dW) *)
Theorem constant_a A mu x0 steps :
  veq (final (a_constant A) b_zero mu steps x0)
      (vadd x0 (matvec A (vadd (vscale (sum_dt steps) mu) (vadd (sum_dL steps) (sum_dW steps))))).
Proof. apply constant_gen. Qed.

(* the sums of increments telescope to the driver's end values *)
Fixpoint qsum (l : list Q) : Q := match l with [] => 0 | x :: r => x + qsum r end.
Lemma qdiff_telescope : forall l d, l <> [] -> qsum (qdiff l) == last l d - hd d l.
Proof.
  induction l as [|x r IH]; intros d H; [congruence|].
  destruct r as [|y r']; [simpl; ring|].
  change (qdiff (x :: y :: r')) with ((y - x) :: qdiff (y :: r')).
  change (last (x :: y :: r') d) with (last (y :: r') d).
  cbn [qsum hd]. rewrite (IH d) by discriminate. simpl hd. ring.
Qed.

(* ---- a(x) = diag(x) ---- *)
Fixpoint growth (k : nat) (mu : list Q) (steps : list step) : Q :=
  match steps with
  | [] => 1
  | s :: r => (1 + (nth k mu 0 * s_dt s + nth k (s_dL s) 0 + nth k (s_dW s) 0)) * growth k mu r
  end.

Lemma diag_gen mu k : forall steps z,
  nth k (final a_diag b_zero mu steps z) 0 == nth k z 0 * growth k mu steps.
Proof.
  induction steps as [|s r IH]; intro z.
  - simpl. ring.
  - cbn [final growth]. rewrite IH.
    unfold next, terms, a_diag, b_zero, fst3, snd3, thd3. cbn [fst snd].
    repeat rewrite ?qn_vadd, ?qn_vscale, ?qn_vzero, ?qn_matvec_diag. ring.
Qed.

(* C16_diag: componentwise X_T = x0 * prod_i (1 + dY_i), dY_i = mu dt_i + dL_i + dW_i *)
Theorem diag_product mu x0 steps k :
  nth k (final a_diag b_zero mu steps x0) 0 == nth k x0 0 * growth k mu steps.
Proof. apply diag_gen. Qed.

(* `final` is the last of the states, i.e. x0 + the end point of the returned paths (euler_step) *)
Lemma final_last a b mu : forall steps z d, final a b mu steps z = last (states a b mu steps z) d.
Proof.
  induction steps as [|s r IH]; intros z d; [reflexivity|].
  cbn [final]. rewrite (IH _ d). cbn [states]. destruct r; reflexivity.
Qed.

(* ---- coupled recursion: each row is the single recursion with its own driver increments and drift ---- *)
Theorem coupled_rows a b mu_h mu_2h : forall csteps zf zc,
  map fst (ceuler a b mu_h mu_2h csteps zf zc) = euler a b mu_h (map fine_step csteps) zf /\
  map snd (ceuler a b mu_h mu_2h csteps zf zc) = euler a b mu_2h (map coarse_step csteps) zc.
Proof.
  induction csteps as [|c r IH]; intros zf zc; [split; reflexivity|].
  cbn [ceuler map euler fst snd]. destruct (IH (next a b mu_h (fine_step c) zf) (next a b mu_2h (coarse_step c) zc)) as [H1 H2].
  rewrite H1, H2. split; reflexivity.
Qed.

(* drift bookkeeping over next_level: mc_drift_h is the drift of the current (finest) driver,
   mc_drift_2h the drift of the previous level *)
Lemma last_default {A} : forall (l : list A) x d d', last (x :: l) d = last (x :: l) d'.
Proof. induction l as [|y l IH]; intros x d d'; [reflexivity|]. exact (IH y d d'). Qed.

Theorem cdrift_levels d0 ds d :
  let s := cd_run d0 (ds ++ [d]) in
  cd_level s = S (length ds) /\ cd_h s = d /\ cd_2h s = Some (last ds d0).
Proof.
  unfold cd_run. rewrite fold_left_app. cbn [fold_left cd_next cd_level cd_h cd_2h].
  assert (H : forall ds s0, cd_level (fold_left cd_next ds s0) = (length ds + cd_level s0)%nat
                         /\ cd_h (fold_left cd_next ds s0) = last ds (cd_h s0)).
  { induction ds0 as [|x r IH]; intro s0; [split; reflexivity|].
    cbn [fold_left length]. destruct (IH (cd_next s0 x)) as [H1 H2]. rewrite H1, H2. cbn [cd_next cd_level cd_h].
    split; [lia|]. destruct r as [|y r]; [reflexivity|]. exact (last_default r y x (cd_h s0)). }
  destruct (H ds (cd_init d0)) as [H1 H2]. rewrite H1, H2. cbn [cd_init cd_level cd_h].
  repeat split. lia.
Qed.

(* ---- the stacked recursion the code runs = the two single recursions ---- *)
Theorem stacked_rows a_st a b mu_h mu_2h :
  (forall t zf zc, smat_f (a_st t zf zc) = a t zf /\ smat_c (a_st t zf zc) = a t zc) ->
  forall csteps zf zc, ceuler_st a_st b mu_h mu_2h csteps zf zc = ceuler a b mu_h mu_2h csteps zf zc.
Proof.
  intro Hst. induction csteps as [|c r IH]; intros zf zc; [reflexivity|].
  cbn [ceuler_st ceuler]. destruct (Hst (c_t c) zf zc) as [Hf Hc]. rewrite Hf, Hc.
  change (terms_of (a (c_t c) zf) (b (c_t c) zf) mu_h (fine_step c)) with (terms a b mu_h (fine_step c) zf).
  change (terms_of (a (c_t c) zc) (b (c_t c) zc) mu_2h (coarse_step c)) with (terms a b mu_2h (coarse_step c) zc).
  change (next_of (terms a b mu_h (fine_step c) zf) zf) with (next a b mu_h (fine_step c) zf).
  change (next_of (terms a b mu_2h (coarse_step c) zc) zc) with (next a b mu_2h (coarse_step c) zc).
  rewrite IH. reflexivity.
Qed.

Lemma stacked_constant A t zf zc : smat_f (a_st_constant A t zf zc) = a_constant A t zf /\ smat_c (a_st_constant A t zf zc) = a_constant A t zc.
Proof. split; reflexivity. Qed.
Lemma stacked_diag t zf zc : smat_f (a_st_diag t zf zc) = a_diag t zf /\ smat_c (a_st_diag t zf zc) = a_diag t zc.
Proof. split; reflexivity. Qed.

(* ---- the sums of increments of steps_of are the end value minus the start value of the driver path ---- *)
Fixpoint vsum_k (k : nat) (Ls : list (list Q)) : Q := match Ls with [] => 0 | v :: r => nth k v 0 + vsum_k k r end.

Lemma zip_sums : forall dts ts Ls Ws k, (length dts <= length ts)%nat -> length Ls = length dts -> length Ws = length dts ->
  sum_dt (zip_steps ts dts Ls Ws) == qsum dts
  /\ nth k (sum_dL (zip_steps ts dts Ls Ws)) 0 == vsum_k k Ls
  /\ nth k (sum_dW (zip_steps ts dts Ls Ws)) 0 == vsum_k k Ws.
Proof.
  induction dts as [|dt dts IH]; intros ts Ls Ws k Ht HL HW.
  - destruct Ls; [|discriminate]. destruct Ws; [|discriminate]. destruct ts; simpl; repeat split; try reflexivity; destruct k; reflexivity.
  - destruct ts as [|t ts]; [simpl in Ht; lia|]. destruct Ls as [|L Ls]; [discriminate|]. destruct Ws as [|W Ws]; [discriminate|].
    cbn [zip_steps sum_dt sum_dL sum_dW s_dt s_dL s_dW qsum vsum_k].
    destruct (IH ts Ls Ws k) as [H1 [H2 H3]]; [simpl in Ht; lia | simpl in HL; lia | simpl in HW; lia |].
    rewrite !qn_vadd, H1, H2, H3. repeat split; reflexivity.
Qed.

Lemma nth_columns n rows : forall i k, (i < n)%nat -> nth k (nth i (columns n rows) []) 0 = nth i (nth k rows []) 0.
Proof.
  intros i k Hi. unfold columns. rewrite (nth_map_seq _ []) by assumption. cbn [plus].
  assert (E : (0 : Q) = nth i [] 0) by (destruct i; reflexivity).
  rewrite E at 1. apply (map_nth (fun row : list Q => nth i row 0)).
Qed.

Lemma vsum_k_columns k rows n : (n = length (nth k rows []))%nat -> vsum_k k (columns n rows) == qsum (nth k rows []).
Proof.
  intro Hn. unfold columns.
  assert (G : forall m s, (s + m = length (nth k rows []))%nat ->
            vsum_k k (map (fun j => map (fun row => nth j row 0) rows) (seq s m)) == qsum (skipn s (nth k rows []))).
  { induction m as [|m IH]; intros s Hs.
    - simpl. rewrite skipn_all2 by lia. reflexivity.
    - cbn [seq map vsum_k]. rewrite IH by lia.
      assert (E : (0 : Q) = nth s [] 0) by (destruct s; reflexivity).
      rewrite E at 1. rewrite (map_nth (fun row : list Q => nth s row 0)).
      assert (Hsk : forall (l : list Q) s, (s < length l)%nat -> qsum (skipn s l) == nth s l 0 + qsum (skipn (S s) l)).
      { induction l as [|x l IHl]; intros s0 H0; simpl in H0; [lia|]. destruct s0; [simpl; reflexivity|].
        cbn [skipn nth]. apply IHl. lia. }
      rewrite (Hsk _ s) by lia. reflexivity. }
  rewrite (G n 0%nat) by lia. reflexivity.
Qed.

(* C16_constant_a, second half: Y_T of the theorem IS the driver's end value: with times of length n+1 and driver rows of that length,
   sum dt = t_n - t_0 and component k of sum dL (sum dW) = L_n,k - L_0,k (W_n,k - W_0,k) *)
Theorem driver_totals times J W k :
  times <> [] -> (k < length J)%nat -> (k < length W)%nat ->
  length (nth k J []) = length times -> length (nth k W []) = length times ->
  let steps := steps_of times J W in
  sum_dt steps == last times 0 - hd 0 times
  /\ nth k (sum_dL steps) 0 == last (nth k J []) 0 - hd 0 (nth k J [])
  /\ nth k (sum_dW steps) 0 == last (nth k W []) 0 - hd 0 (nth k W []).
Proof.
  intros Hne HkJ HkW HJ HW steps. unfold steps, steps_of.
  assert (Hq : forall l, length (qdiff l) = pred (length l)).
  { induction l as [|x r IH]; [reflexivity|]. destruct r as [|y r']; [reflexivity|].
    change (S (length (qdiff (y :: r'))) = length (y :: r')). rewrite IH. reflexivity. }
  set (n := pred (length times)).
  assert (Hcol : forall rows, length (columns n rows) = n) by (intro; unfold columns; rewrite map_length, seq_length; reflexivity).
  destruct (zip_sums (qdiff times) times (columns n (map qdiff J)) (columns n (map qdiff W)) k) as [H1 [H2 H3]];
    [rewrite Hq; lia | rewrite Hcol, Hq; reflexivity | rewrite Hcol, Hq; reflexivity |].
  assert (Hrow : forall R, (k < length R)%nat -> length (nth k R []) = length times ->
            vsum_k k (columns n (map qdiff R)) == last (nth k R []) 0 - hd 0 (nth k R [])).
  { intros R HkR HR. rewrite vsum_k_columns.
    - assert (E : nth k (map qdiff R) [] = qdiff (nth k R [])) by (change [] with (qdiff []) at 1; apply map_nth).
      rewrite E. apply qdiff_telescope. intro Hc. rewrite Hc in HR. destruct times; [congruence | discriminate].
    - assert (E : nth k (map qdiff R) [] = qdiff (nth k R [])) by (change [] with (qdiff []) at 1; apply map_nth).
      rewrite E, Hq, HR. reflexivity. }
  rewrite H1, H2, H3, (Hrow J HkJ HJ), (Hrow W HkW HW). repeat split; try reflexivity.
  apply qdiff_telescope. assumption.
Qed.

(* C16: which sde drift does the coupled scheme use at level l?  (CouplingSDE.simulate_one_path_with_coupling takes
   sde_drift = self.fine_process.sde_drift; fine_process is the LEVEL-0 MarkovChainLevyLiborModel whose coefficient_sszz closure holds
   zz = _integral_zz() of the level-0 grid; next_level never rebuilds it.)
   Model: the coupled recursion as the code runs it takes ONE drift function b for both rows (ceuler_st); the single process of the
   level-l chain takes b_libor with the zz of ITS grid.  For a 1-d driver the Libor drift of rate i is proportional to zz, so the two
   schemes differ as soon as zz differs and the rate has a live successor. *)
From Coq Require Import ZArith QArith Qabs Bool List Lia.
From RV Require Import Base.QB Base.QVec Base.QArr Gen.GenC16Coef Model.Euler Model.RateSDE Proofs.C16_Euler.
Import ListNotations.
Open Scope Q_scope.

(* 1-d driver: sigma[i,:].T @ zz @ sigma[i+1,:] = s_i * z * s_{i+1} *)
Lemma sszz_coef_1d z Sg i si sj : nth i Sg [] = [si] -> nth (S i) Sg [] = [sj] -> sszz_coef [[z]] Sg i == si * z * sj.
Proof. intros Hi Hj. unfold sszz_coef. rewrite Hi, Hj. cbn [matvec map dot]. rewrite !Qred_correct. ring. Qed.

Lemma entry_early T s i t : t < nth 0 T 0 -> libor_sigma_entry T s i t = s.
Proof.
  intro H. unfold libor_sigma_entry. change 0%Z with (Z.of_nat 0). rewrite qnth_nat.
  rewrite (proj2 (Qltb_lt _ _) H). reflexivity.
Qed.

(* two rates, 1-d driver, before the first fixing: the sde drift of rate 0 in closed form - it is PROPORTIONAL to zz *)
Theorem libor_drift_2rates T d0 d1 s0 s1 z t x0 x1 :
  t < nth 0 T 0 ->
  nth 0 (b_libor T [d0; d1] [[s0]; [s1]] [[z]] t [x0; x1]) 0
  == - (x0 * (s0 * z * s1 * (x1 * d1 / (1 + x1 * d1)))).
Proof.
  intros H0. unfold b_libor, drift_term, sszz, libor_sigma, rows_with, sszz_coef.
  cbn [length seq map nth tl Nat.sub Nat.ltb Nat.leb andb].
  rewrite !(entry_early T _ _ t H0).
  cbn [dot matvec map tl nth]. unfold libor_drift_entry, libor_omega, libor_x_delta.
  rewrite !Qred_correct. unfold Qdiv. ring.
Qed.

Definition tm0 : list Q * list Q * list Q := ([], [], []).

(* ONE step of the coupled scheme as the code runs it (both rows take the drift built from the level-0 zz = z0) against ONE step of the
   single scheme of the level-l chain (drift built from ITS zz = zl), same state, same driver increments, same driver drift:
   the drift increments of rate 0 differ by dt x0 s0 s1 (zl - z0) omega_1 - zero only if zl = z0 (or a factor vanishes) *)
Theorem coupled_level_drift_gap T d0 d1 s0 s1 z0 zl mu_h mu_2h c x0 x1 :
  c_t c < nth 0 T 0 ->
  let Sg := [[s0]; [s1]] in let dl := [d0; d1] in let x := [x0; x1] in
  nth 0 (fst3 (hd tm0 (euler (a_libor T Sg) (b_libor T dl Sg [[zl]]) mu_h [fine_step c] x))) 0
  - nth 0 (fst3 (fst (hd (tm0, tm0) (ceuler_st (a_st_of (a_libor T Sg)) (b_libor T dl Sg [[z0]]) mu_h mu_2h [c] x x)))) 0
  == c_dt c * (x0 * (s0 * (z0 - zl) * s1 * (x1 * d1 / (1 + x1 * d1)))).
Proof.
  intros Ht Sg dl x.
  cbn [euler ceuler_st hd fst terms terms_of fst3 a_st_of smat_f fine_step s_t s_dt].
  pose proof (libor_drift_2rates T d0 d1 s0 s1 zl (c_t c) x0 x1 Ht) as Hl.
  pose proof (libor_drift_2rates T d0 d1 s0 s1 z0 (c_t c) x0 x1 Ht) as H0.
  fold Sg dl x in Hl, H0.
  set (bl := b_libor T dl Sg [[zl]] (c_t c) x) in *.
  set (b0 := b_libor T dl Sg [[z0]] (c_t c) x) in *.
  assert (Lbl : exists p q, bl = [p; q]) by (unfold bl, b_libor; cbn [length seq map x]; eauto).
  assert (Lb0 : exists p q, b0 = [p; q]) by (unfold b0, b_libor; cbn [length seq map x]; eauto).
  destruct Lbl as (p & q & Ebl). destruct Lb0 as (p' & q' & Eb0). rewrite Ebl in *. rewrite Eb0 in *.
  cbn [nth] in Hl, H0.
  set (Am := matvec (a_libor T Sg (c_t c) x) mu_h).
  assert (LA : exists u v, Am = [u; v]) by (unfold Am, a_libor, rows_with, Sg; cbn [length seq map matvec]; eauto).
  destruct LA as (u & v & EA). rewrite EA.
  cbn [vadd vscale map nth]. rewrite !Qred_correct, Hl, H0. unfold Qdiv. ring.
Qed.

(* F-C16-7, the witness observed on the real objects (checked on every run): driver = step measure with densities 3/2, 15/4, 9/4, 21/4 on
   [-3/4,-5/64], [-5/64,0], [0,5/64], [5/64,3/4]; level-0 grid h = 1/4: _integral_zz = 1935/2048; level-1 grid h = 1/8:
   _integral_zz = 994691/1048576, chain drift -1627/2048 (level 1), -103/128 (level 0); Libor rates 1/32, 1/16 on tenors 1, 3/2, 2,
   sigma = 1/2, 1/4; driver path times 0, 1/2, 1, jumps 0, 1/4, 1/4, diffusion 0, 1/8, 0 for both components.
   The fine row of the coupled scheme (drift from the level-0 zz, as the code runs it) is NOT the scheme of the level-1 single process
   (MarkovChainLevyLiborModel on the level-1 grid) on the same driver path. *)
Theorem coupled_level_drift_refuted :
  exists T dl Sg zz0 zz1 mu_h mu_2h times J W x,
    let st := steps_of times J W in
    let cs := zip_csteps st st in
    zz0 <> zz1 /\
    ~ nth 0 (nth 1 (fst3 (sde_path (a_libor T Sg) (b_libor T dl Sg zz1) mu_h x st)) []) 0
      == nth 0 (nth 1 (path_of (length x) (map fst3 (map fst (ceuler_st (a_st_of (a_libor T Sg)) (b_libor T dl Sg zz0) mu_h mu_2h cs x x)))) []) 0.
Proof.
  exists [1; 3#2; 2], [1#2; 1#2], [[1#2]; [1#4]], [[1935#2048]], [[994691#1048576]], [-(1627#2048)], [-(103#128)],
         [0; 1#2; 1], [[0; 1#4; 1#4]], [[0; 1#8; 0]], [1#32; 1#16].
  cbv zeta. split; [discriminate|]. vm_compute. discriminate.
Qed.

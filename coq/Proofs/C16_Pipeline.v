(* C16: the coupled SDE scheme composed with the coupled DRIVER model of C15 (Model/Paths.v: jump times with the maximum-step cap,
   chain values carried over the intervals, diffusion = cumsum(sqrt(dt) sigma w)):  CouplingSDE.simulate_one_path_with_coupling run on
   what CouplingMarkovChain.simulate_one_path_with_coupling (CouplingSimulationMaximumStep) returns for scripted variates. *)
From Coq Require Import ZArith QArith Qabs Bool List Lia.
From RV Require Import Base.QB Base.QVec Model.Paths Model.Euler Proofs.C16_Euler.
Import ListNotations.
Open Scope Q_scope.

(* the coupled driver path of the script, as the stacked steps the scheme iterates over *)
Definition driver_paths (cap : option Q) (fuel : nat) (T : Q) (tms : list Q) (offs fi ci : list (list Q)) (sq : list Q) (sf sc : Q) (ws : list Q)
  : list Q * (list Q * list Q) * (list Q * list Q) :=
  let '(t, f, co) := Paths.coupled_jump_path cap fuel T tms offs fi ci in
  (t, (f, Paths.diffusion_path sq sf ws), (co, Paths.diffusion_path sq sc ws)).

Definition sde_on_driver (a_st : Q -> list Q -> list Q -> smat) (b : Q -> list Q -> list Q) (mu_h mu_2h x0 : list Q)
  (cap : option Q) (fuel : nat) (T : Q) (tms : list Q) (offs fi ci : list (list Q)) (sq : list Q) (sf sc : Q) (ws : list Q) :=
  let '(t, (jf, wf), (jc, wc)) := driver_paths cap fuel T tms offs fi ci sq sf sc ws in
  (t, ceuler_st a_st b mu_h mu_2h (zip_csteps (steps_of t [jf] [wf]) (steps_of t [jc] [wc])) x0 x0).

Lemma zip_fine : forall F C, length F = length C -> map fine_step (zip_csteps F C) = F.
Proof.
  induction F as [|sf F IH]; intros [|sc C] H; simpl in *; try discriminate; auto.
  f_equal; [destruct sf; reflexivity | apply IH; lia].
Qed.

Lemma zip_coarse : forall F C, map s_t F = map s_t C -> map s_dt F = map s_dt C -> map coarse_step (zip_csteps F C) = C.
Proof.
  induction F as [|sf F IH]; intros [|sc C] H1 H2; simpl in *; try discriminate; auto.
  injection H1 as Ht H1. injection H2 as Hd H2.
  f_equal; [destruct sf, sc; simpl in *; subst; reflexivity | apply IH; assumption].
Qed.

Lemma zip_steps_times : forall ts dts Ls Ws Ls' Ws', length Ls = length Ls' -> length Ws = length Ws' ->
  map s_t (zip_steps ts dts Ls Ws) = map s_t (zip_steps ts dts Ls' Ws')
  /\ map s_dt (zip_steps ts dts Ls Ws) = map s_dt (zip_steps ts dts Ls' Ws').
Proof.
  induction ts as [|t ts IH]; intros [|dt dts] [|L Ls] [|W Ws] [|L' Ls'] [|W' Ws'] HL HW; simpl in *; try discriminate; auto.
  destruct (IH dts Ls Ws Ls' Ws') as [A B]; try lia. split; f_equal; assumption.
Qed.

Lemma columns_length n rows : length (columns n rows) = n.
Proof. unfold columns. rewrite map_length, seq_length. reflexivity. Qed.

(* two driver components read off the SAME time grid give step lists with the same times *)
Lemma steps_of_times t J W J' W' :
  map s_t (steps_of t J W) = map s_t (steps_of t J' W') /\ map s_dt (steps_of t J W) = map s_dt (steps_of t J' W').
Proof. unfold steps_of. apply zip_steps_times; rewrite !columns_length; reflexivity. Qed.

Lemma map_length_eq {A B} (f : A -> B) l l' : map f l = map f l' -> length l = length l'.
Proof. intro H. rewrite <- (map_length f l), H, map_length. reflexivity. Qed.

(* whenever the stacked coefficient restricts to a on each component (Constant, DiagX, sigma(t) x): the fine row of the scheme run on the
   coupled driver path is the SINGLE Euler scheme of the fine driver component (times, fine chain values, fine diffusion) with mc_drift_h,
   the coarse row the single scheme of the coarse component with mc_drift_2h - for every script, cap, and number of intervals *)
Theorem sde_on_driver_rows a_st a b mu_h mu_2h x0 cap fuel T tms offs fi ci sq sf sc ws :
  (forall t zf zc, smat_f (a_st t zf zc) = a t zf /\ smat_c (a_st t zf zc) = a t zc) ->
  let '(t, (jf, wf), (jc, wc)) := driver_paths cap fuel T tms offs fi ci sq sf sc ws in
  let r := sde_on_driver a_st b mu_h mu_2h x0 cap fuel T tms offs fi ci sq sf sc ws in
  fst r = t
  /\ map fst (snd r) = euler a b mu_h (steps_of t [jf] [wf]) x0
  /\ map snd (snd r) = euler a b mu_2h (steps_of t [jc] [wc]) x0.
Proof.
  intro Hst. unfold sde_on_driver.
  destruct (driver_paths cap fuel T tms offs fi ci sq sf sc ws) as [[t [jf wf]] [jc wc]].
  cbn [fst snd]. split; [reflexivity|].
  rewrite (stacked_rows a_st a b mu_h mu_2h Hst).
  destruct (coupled_rows a b mu_h mu_2h (zip_csteps (steps_of t [jf] [wf]) (steps_of t [jc] [wc])) x0 x0) as [Hf Hc].
  rewrite Hf, Hc.
  destruct (steps_of_times t [jf] [wf] [jc] [wc]) as [Ht Hd].
  rewrite zip_fine by (apply (map_length_eq s_t); assumption).
  rewrite zip_coarse by assumption. split; reflexivity.
Qed.

(* wave 8b (audit5b B10): the statement above uses NOTHING of the driver model - it is this lemma, true for ARBITRARY lists t, jf, wf, jc, wc
   (unsorted times, rows of any length: steps_of truncates to the shortest), read at the driver's output *)
Theorem sde_on_paths_rows a_st a b mu_h mu_2h x0 t jf wf jc wc :
  (forall t zf zc, smat_f (a_st t zf zc) = a t zf /\ smat_c (a_st t zf zc) = a t zc) ->
  let r := ceuler_st a_st b mu_h mu_2h (zip_csteps (steps_of t [jf] [wf]) (steps_of t [jc] [wc])) x0 x0 in
  map fst r = euler a b mu_h (steps_of t [jf] [wf]) x0
  /\ map snd r = euler a b mu_2h (steps_of t [jc] [wc]) x0.
Proof.
  intro Hst. cbv zeta.
  rewrite (stacked_rows a_st a b mu_h mu_2h Hst).
  destruct (coupled_rows a b mu_h mu_2h (zip_csteps (steps_of t [jf] [wf]) (steps_of t [jc] [wc])) x0 x0) as [Hf Hc].
  rewrite Hf, Hc.
  destruct (steps_of_times t [jf] [wf] [jc] [wc]) as [Ht Hd].
  rewrite zip_fine by (apply (map_length_eq s_t); assumption).
  rewrite zip_coarse by assumption. split; reflexivity.
Qed.

(* what the DRIVER model contributes (cap = None, the uncapped simulator): the time grid handed to the scheme is 0, the jump times of the
   script, the maturity - so the scheme's first step starts at 0 and the grid has one point per scripted jump plus two *)
Lemma driver_paths_uncapped fuel T tms offs fi ci sq sf sc ws :
  let '(t, _, _) := driver_paths None fuel T tms offs fi ci sq sf sc ws in
  t = Paths.assemble_times T (Paths.jump_times_of tms offs).
Proof. unfold driver_paths, Paths.coupled_jump_path. reflexivity. Qed.

(* Proofs for C16 (rate models): the generated coefficient entries (Gen/GenC16Coef.v) obey the documented volatility
   structure, and in the Euler scheme of Model/Euler.v run with the assembled coefficient / drift of Model/RateSDE.v
   a rate no longer moves once its volatility is switched off. *)
From Coq Require Import ZArith QArith Qminmax Qabs Bool List Lqa Lia.
From RV Require Import Base.QB Base.QVec Base.QArr Gen.GenC16Coef Model.Euler Model.RateSDE Proofs.C16_Euler.
Import ListNotations.
Open Scope Q_scope.

(* ---- pointwise specifications of the generated entries ---- *)
Lemma Qle_bool_true x y : x <= y -> Qle_bool x y = true.
Proof. intro H. apply Qle_bool_iff. assumption. Qed.
Lemma Qle_bool_false' x y : y < x -> Qle_bool x y = false.
Proof. intro H. destruct (Qle_bool x y) eqn:E; [|reflexivity]. apply Qle_bool_iff in E. lra. Qed.
Lemma Qltb_true x y : x < y -> Qltb x y = true.
Proof. intro H. apply Qltb_lt. assumption. Qed.
Lemma Qltb_false' x y : y <= x -> Qltb x y = false.
Proof. intro H. apply Qltb_false. assumption. Qed.

(* Libor: rate i keeps its volatility strictly before its fixing date T_i and has none from T_i on *)
Theorem libor_entry_before T sij (i : nat) t : t < nth i T 0 -> libor_sigma_entry T sij (Z.of_nat i) t = sij.
Proof.
  intro H. unfold libor_sigma_entry. rewrite qnth_nat.
  destruct (Qltb t (qnth T 0)); [reflexivity|]. rewrite Qle_bool_false' by assumption. reflexivity.
Qed.

Theorem libor_entry_fixed T sij (i : nat) t : nth 0 T 0 <= nth i T 0 -> nth i T 0 <= t -> libor_sigma_entry T sij (Z.of_nat i) t = 0.
Proof.
  intros H0 H. unfold libor_sigma_entry. rewrite qnth_nat. change 0%Z with (Z.of_nat 0). rewrite qnth_nat.
  rewrite Qltb_false' by lra. rewrite Qle_bool_true by assumption. reflexivity.
Qed.

(* forward market: the factor g_i(t) of rate i, covering [T_i, T_i+1] *)
Definition fwd_factor (T : list Q) (i : nat) (t : Q) : Q :=
  Qminb 1 (Qmaxb 0 (nth (S i) T 0 - t) / (nth (S i) T 0 - nth i T 0)).

Lemma fwd_entry_factor T sij (i : nat) t : nth 0 T 0 <= t -> fwd_sigma_entry T sij (Z.of_nat i) t = sij * fwd_factor T i t.
Proof.
  intro H. unfold fwd_sigma_entry, fwd_factor. change 0%Z with (Z.of_nat 0). rewrite qnth_nat.
  rewrite Qltb_false' by assumption.
  replace (Z.of_nat i + 1)%Z with (Z.of_nat (S i)) by lia. rewrite !qnth_nat. reflexivity.
Qed.

Lemma Qmaxb_spec x y : (x <= y /\ Qmaxb x y = y) \/ (y < x /\ Qmaxb x y = x).
Proof.
  unfold Qmaxb. destruct (Qle_bool x y) eqn:E; [left|right]; split; try reflexivity.
  - apply Qle_bool_iff; assumption.
  - destruct (Qlt_le_dec y x); [assumption|]. apply Qle_bool_iff in q. congruence.
Qed.
Lemma Qminb_spec x y : (x <= y /\ Qminb x y = x) \/ (y < x /\ Qminb x y = y).
Proof.
  unfold Qminb. destruct (Qle_bool x y) eqn:E; [left|right]; split; try reflexivity.
  - apply Qle_bool_iff; assumption.
  - destruct (Qlt_le_dec y x); [assumption|]. apply Qle_bool_iff in q. congruence.
Qed.

Section FwdFactor.
  Variables (T : list Q) (i : nat) (t : Q).
  Hypothesis Hinc : nth i T 0 < nth (S i) T 0.
  Let D := nth (S i) T 0 - nth i T 0.

  (* full volatility up to T_i, linear decay on [T_i, T_i+1], none from T_i+1 on; always within [0, 1] *)
  Theorem fwd_factor_full : t <= nth i T 0 -> fwd_factor T i t == 1.
  Proof.
    intro H. unfold fwd_factor. fold D. assert (HD : 0 < D) by (unfold D; lra).
    destruct (Qmaxb_spec 0 (nth (S i) T 0 - t)) as [[H1 E]|[H1 E]]; rewrite E; [|lra].
    assert (Hq : 1 <= (nth (S i) T 0 - t) / D) by (apply Qle_shift_div_l; [assumption | unfold D; lra]).
    destruct (Qminb_spec 1 ((nth (S i) T 0 - t) / D)) as [[H2 E2]|[H2 E2]]; rewrite E2; [reflexivity | lra].
  Qed.

  Theorem fwd_factor_decay : nth i T 0 <= t -> t <= nth (S i) T 0 -> fwd_factor T i t == (nth (S i) T 0 - t) / D.
  Proof.
    intros Ha Hb. unfold fwd_factor. fold D. assert (HD : 0 < D) by (unfold D; lra).
    destruct (Qmaxb_spec 0 (nth (S i) T 0 - t)) as [[H1 E]|[H1 E]]; rewrite E; [|lra].
    assert (Hq : (nth (S i) T 0 - t) / D <= 1) by (apply Qle_shift_div_r; [assumption | unfold D; lra]).
    destruct (Qminb_spec 1 ((nth (S i) T 0 - t) / D)) as [[H2 E2]|[H2 E2]]; rewrite E2; [lra | reflexivity].
  Qed.

  Theorem fwd_factor_bounds : 0 <= fwd_factor T i t /\ fwd_factor T i t <= 1.
  Proof.
    unfold fwd_factor. fold D. assert (HD : 0 < D) by (unfold D; lra).
    set (q := Qmaxb 0 (nth (S i) T 0 - t) / D).
    assert (Hq : 0 <= q).
    { unfold q. apply Qle_shift_div_l; [assumption|].
      destruct (Qmaxb_spec 0 (nth (S i) T 0 - t)) as [[H1 E]|[H1 E]]; rewrite E; lra. }
    destruct (Qminb_spec 1 q) as [[H2 E2]|[H2 E2]]; rewrite E2; split; lra.
  Qed.
End FwdFactor.

(* needs no ordering of the tenors: beyond T_i+1 the numerator max(0, T_i+1 - t) is 0 *)
Theorem fwd_factor_off T i t : nth (S i) T 0 <= t -> fwd_factor T i t == 0.
Proof.
  intro H. unfold fwd_factor.
  set (q := Qmaxb 0 (nth (S i) T 0 - t) / (nth (S i) T 0 - nth i T 0)).
  assert (Hq : q == 0).
  { unfold q. destruct (Qmaxb_spec 0 (nth (S i) T 0 - t)) as [[H1 E]|[H1 E]]; rewrite E.
    - assert (E0 : nth (S i) T 0 - t == 0) by lra. unfold Qdiv. rewrite E0. ring.
    - unfold Qdiv. ring. }
  destruct (Qminb_spec 1 q) as [[H2 E2]|[H2 E2]]; rewrite E2; lra.
Qed.

(* ---- rows of the assembled arrays ---- *)
Lemma dot_all_zero : forall r v, (forall x, In x r -> x == 0) -> dot r v == 0.
Proof.
  induction r as [|x r IH]; intros v H; [reflexivity|].
  destruct v as [|y v]; [reflexivity|]. rewrite dot_cons, (H x (or_introl eq_refl)), IH; [ring|].
  intros z Hz. apply H. right. assumption.
Qed.

Lemma rows_with_row entry sigma i : (i < length sigma)%nat ->
  nth i (rows_with entry sigma) [] = map (fun sij => entry sij (Z.of_nat i)) (nth i sigma []).
Proof. intro H. unfold rows_with. rewrite (nth_map_seq _ []) by assumption. reflexivity. Qed.

Lemma rows_with_zero_row entry sigma i v : (i < length sigma)%nat -> (forall sij, entry sij (Z.of_nat i) == 0) ->
  dot (nth i (rows_with entry sigma) []) v == 0.
Proof.
  intros H Hz. rewrite rows_with_row by assumption. apply dot_all_zero.
  intros x Hx. apply in_map_iff in Hx. destruct Hx as [sij [<- _]]. apply Hz.
Qed.

(* component i of one Euler step *)
Lemma next_component a b mu s z i :
  nth i (next a b mu s z) 0 ==
  nth i z 0 + (s_dt s * (nth i (b (s_t s) z) 0 + dot (nth i (a (s_t s) z) []) mu)
               + dot (nth i (a (s_t s) z) []) (s_dL s) + dot (nth i (a (s_t s) z) []) (s_dW s)).
Proof.
  unfold next, terms, fst3, snd3, thd3. cbn [fst snd].
  rewrite !qn_vadd, qn_vscale, qn_vadd, !qn_matvec. ring.
Qed.

(* a step leaves component i alone when row i of the coefficient is a zero row and the sde drift of component i vanishes *)
Lemma frozen_gen a b mu i (P : Q -> Prop) :
  (forall t z v, P t -> dot (nth i (a t z) []) v == 0) -> (forall t z, P t -> nth i (b t z) 0 == 0) ->
  forall steps z, Forall (fun s => P (s_t s)) steps -> nth i (final a b mu steps z) 0 == nth i z 0.
Proof.
  intros Ha Hb. induction steps as [|s r IH]; intros z HF; [reflexivity|].
  inversion HF as [|s' r' Hs Hr]; subst. cbn [final]. rewrite (IH _ Hr), next_component.
  rewrite !(Ha _ _ _ Hs), (Hb _ _ Hs). ring.
Qed.

(* ---- Libor market model ---- *)
Section Libor.
  Variables (T deltas : list Q) (sigma zz : list (list Q)).

  Lemma a_libor_zero_row i t z v : (i < length sigma)%nat -> nth 0 T 0 <= nth i T 0 -> nth i T 0 <= t ->
    dot (nth i (a_libor T sigma t z) []) v == 0.
  Proof.
    intros Hi H0 Ht. unfold a_libor. apply rows_with_zero_row; [assumption|].
    intro sij. unfold libor_a_entry. rewrite libor_entry_fixed by assumption. ring.
  Qed.

  Lemma libor_sigma_zero_row i t v : (i < length sigma)%nat -> nth 0 T 0 <= nth i T 0 -> nth i T 0 <= t ->
    dot (nth i (libor_sigma T sigma t) []) v == 0.
  Proof.
    intros Hi H0 Ht. unfold libor_sigma. apply rows_with_zero_row; [assumption|].
    intro sij. rewrite libor_entry_fixed by assumption. reflexivity.
  Qed.

  Lemma nth_map_d {A B} (f : A -> B) l i d d' : f d' = d -> nth i (map f l) d = f (nth i l d').
  Proof. intros <-. apply map_nth. Qed.

  (* omegas = x delta / (1 + x delta), pointwise from the generated definitions *)
  Definition omegas_of (x : list Q) : list Q :=
    map (fun k => libor_omega (libor_x_delta (nth k x 0) (nth k deltas 0))) (seq 0 (length x)).

  (* component i of the drift: -(x_i * (row i of sszz, without column 0) . omegas[1:]) *)
  Lemma b_libor_component i t x : (i < length x)%nat ->
    nth i (b_libor T deltas sigma zz t x) 0 == - (nth i x 0 * dot (tl (nth i (sszz T sigma zz t) [])) (tl (omegas_of x))).
  Proof.
    intros Hi. unfold b_libor. cbv zeta.
    rewrite (nth_map_seq _ 0) by assumption. cbn [plus]. unfold libor_drift_entry, drift_term.
    rewrite (nth_map_d _ _ i 0 []) by reflexivity. reflexivity.
  Qed.

  Lemma sszz_row i t : (i < length sigma)%nat ->
    nth i (sszz T sigma zz t) [] =
    map (fun j => if (Nat.ltb i (length sigma - 1) && Nat.ltb i j)%bool then sszz_coef zz (libor_sigma T sigma t) i else 0) (seq 0 (length sigma)).
  Proof. intro Hi. unfold sszz. rewrite (nth_map_seq _ []) by assumption. reflexivity. Qed.

  Lemma tl_in {A} (x : A) l : In x (tl l) -> In x l.
  Proof. destruct l; [intros []|]. intro H. right. assumption. Qed.

  (* the sde drift of a fixed rate vanishes: its row of sszz is sigma_i(t) zz sigma_i+1(t) with sigma_i(t) = 0 *)
  Lemma b_libor_fixed i t x : (i < length sigma)%nat -> nth 0 T 0 <= nth i T 0 -> nth i T 0 <= t ->
    nth i (b_libor T deltas sigma zz t x) 0 == 0.
  Proof.
    intros Hi H0 Ht. destruct (Nat.lt_ge_cases i (length x)) as [Hx|Hx].
    - rewrite (b_libor_component i t x Hx).
      rewrite dot_all_zero; [ring|]. intros y Hy. apply tl_in in Hy. rewrite sszz_row in Hy by assumption.
      apply in_map_iff in Hy. destruct Hy as [j [<- _]].
      destruct (Nat.ltb i (length sigma - 1) && Nat.ltb i j)%bool; [|reflexivity].
      unfold sszz_coef. apply libor_sigma_zero_row; assumption.
    - unfold b_libor. cbv zeta. rewrite nth_overflow; [reflexivity|]. rewrite map_length, seq_length. assumption.
  Qed.

  (* the last rate has no sde drift at any time (the model is written under the terminal measure) *)
  Theorem b_libor_last t x : (0 < length sigma)%nat -> length x = length sigma ->
    nth (length sigma - 1) (b_libor T deltas sigma zz t x) 0 == 0.
  Proof.
    intros Hm Hl. rewrite (b_libor_component (length sigma - 1) t x ltac:(lia)).
    rewrite dot_all_zero; [ring|]. intros y Hy. apply tl_in in Hy. rewrite sszz_row in Hy by lia.
    apply in_map_iff in Hy. destruct Hy as [j [<- _]].
    rewrite Nat.ltb_irrefl. reflexivity.
  Qed.

  (* Libor: from its fixing date T_i on, rate i does not move (zero volatility row, zero drift), whatever the driver does *)
  Theorem libor_rate_frozen mu i steps z : (i < length sigma)%nat -> nth 0 T 0 <= nth i T 0 ->
    Forall (fun s => nth i T 0 <= s_t s) steps ->
    nth i (final (a_libor T sigma) (b_libor T deltas sigma zz) mu steps z) 0 == nth i z 0.
  Proof.
    intros Hi H0 HF. apply (frozen_gen _ _ mu i (fun t => nth i T 0 <= t)); [| |assumption].
    - intros t x v Ht. apply a_libor_zero_row; assumption.
    - intros t x Ht. apply b_libor_fixed; assumption.
  Qed.

  Lemma dot_map_scale (f : Q -> Q) c : forall l v, dot (map (fun s => Qmult (f s) c) l) v == c * dot (map f l) v.
  Proof.
    induction l as [|x l IH]; intros v; [simpl; ring|]. destruct v as [|y v]; [simpl; ring|].
    cbn [map]. rewrite !dot_cons, IH. ring.
  Qed.

  Lemma a_libor_row i t z v : (i < length sigma)%nat ->
    dot (nth i (a_libor T sigma t z) []) v == nth i z 0 * dot (nth i (libor_sigma T sigma t) []) v.
  Proof.
    intro Hi. unfold a_libor, libor_sigma. rewrite !rows_with_row by assumption. unfold libor_a_entry.
    rewrite qnth_nat. apply dot_map_scale.
  Qed.

  (* one Euler step of a Libor rate is multiplicative: X_i' = X_i (1 + (sigma_i(t) mu - drift_i) dt + sigma_i(t) (dL + dW))
     with drift_i = (row i of sszz(t))[1:] . omegas[1:] *)
  Theorem libor_step_multiplicative mu s z i : (i < length sigma)%nat -> (i < length z)%nat ->
    let Sg := libor_sigma T sigma (s_t s) in
    let dr := dot (tl (nth i (sszz T sigma zz (s_t s)) [])) (tl (omegas_of z)) in
    nth i (next (a_libor T sigma) (b_libor T deltas sigma zz) mu s z) 0 ==
    nth i z 0 * (1 + s_dt s * (dot (nth i Sg []) mu - dr) + dot (nth i Sg []) (s_dL s) + dot (nth i Sg []) (s_dW s)).
  Proof.
    intros Hi Hz Sg dr. rewrite next_component, !a_libor_row by assumption.
    rewrite (b_libor_component i (s_t s) z Hz). fold dr. fold Sg. ring.
  Qed.
End Libor.

(* ---- forward market model (MarkovChainSDE with the zero sde drift of LevyDrivenSDEModel) ---- *)
Theorem fwd_rate_frozen T sigma mu i steps z : (i < length sigma)%nat -> nth 0 T 0 <= nth (S i) T 0 ->
  Forall (fun s => nth (S i) T 0 <= s_t s) steps ->
  nth i (final (a_fwd T sigma) b_zero mu steps z) 0 == nth i z 0.
Proof.
  intros Hi H0 HF. apply (frozen_gen _ _ mu i (fun t => nth (S i) T 0 <= t)); [| |assumption].
  - intros t x v Ht. unfold a_fwd. apply rows_with_zero_row; [assumption|].
    intro sij. unfold fwd_a_entry. rewrite fwd_entry_factor by lra. rewrite fwd_factor_off by assumption. ring.
  - intros t x Ht. unfold b_zero. rewrite qn_vzero. reflexivity.
Qed.

(* Proofs for C16 (discount factors): forward_df / libor_df are the py2coq-generated definitions. *)
From Coq Require Import ZArith QArith Qminmax Qabs Bool List Lqa Lia.
From RV Require Import Base.QB Base.QArr Gen.GenC16Rates.
Import ListNotations.
Open Scope Q_scope.

Notation qn k v := (nth k v 0) (only parsing).

(* accrual factor of period k, product of the first n factors, compounding factor at tenor j *)
Definition fac (T r : list Q) (k : nat) : Q := 1 + qn k r * (qn (S k) T - qn k T).
Fixpoint prodfac (T r : list Q) (n : nat) : Q := match n with O => 1 | S k => prodfac T r k * fac T r k end.
Definition A (T r : list Q) (j : nat) : Q := (1 + qn 0 r * qn 0 T) * prodfac T r j.

(* 1 / df in closed form, indexed by nat *)
Definition aux (T r : list Q) (t : Q) : Q :=
  match searchsorted_nat T t with
  | O => 1 + qn 0 r * t
  | S j => A T r j * (1 + qn j r * (t - qn j T))
  end.

Lemma qprod_prodfac T r : forall n,
  qprod_nat (fun k : Z => Qplus (1 # 1) (Qmult (qnth r k) (Qminus (qnth T (Z.add k 1%Z)) (qnth T k)))) n == prodfac T r n.
Proof.
  induction n as [|n IH]; [reflexivity|].
  cbn [qprod_nat prodfac]. rewrite IH. unfold fac.
  replace (Z.of_nat n + 1)%Z with (Z.of_nat (S n)) by lia. rewrite !qnth_nat. reflexivity.
Qed.

Lemma forward_df_aux T r t : forward_df T r t == 1 / aux T r t.
Proof.
  unfold forward_df, aux, searchsorted. destruct (searchsorted_nat T t) as [|j].
  - cbn [Z.of_nat Z.eqb]. change 0%Z with (Z.of_nat 0). rewrite qnth_nat. reflexivity.
  - replace (Z.of_nat (S j) =? 0)%Z with false by (symmetry; apply Z.eqb_neq; lia).
    replace (Z.of_nat (S j) - 1)%Z with (Z.of_nat j) by lia.
    change 0%Z with (Z.of_nat 0). rewrite !qnth_nat. unfold qprod_range. rewrite Nat2Z.id, qprod_prodfac.
    unfold A. reflexivity.
Qed.

Lemma libor_df_forward T r t : libor_df T r t = forward_df T r t.
Proof. reflexivity. Qed.

(* ---- searchsorted ---- *)
Lemma ss_below T t : forall i, (i < searchsorted_nat T t)%nat -> qn i T < t.
Proof.
  induction T as [|x T IH]; intros i H; simpl in H; [lia|].
  destruct (Qltb x t) eqn:E; [|lia]. apply Qltb_lt in E.
  destruct i; [assumption|]. apply IH. lia.
Qed.

Lemma ss_at T t : (searchsorted_nat T t < length T)%nat -> t <= qn (searchsorted_nat T t) T.
Proof.
  induction T as [|x T IH]; simpl; [lia|].
  destruct (Qltb x t) eqn:E; intro H.
  - apply IH. lia.
  - apply Qltb_false in E. assumption.
Qed.

Lemma ss_eq T t : forall j, (forall i, (i < j)%nat -> qn i T < t) -> (j <= length T)%nat ->
  ((j < length T)%nat -> t <= qn j T) -> searchsorted_nat T t = j.
Proof.
  induction T as [|x T IH]; intros j Hlt Hle Hge; simpl in *; [lia|].
  destruct (Qltb x t) eqn:E.
  - apply Qltb_lt in E. destruct j as [|j].
    + specialize (Hge ltac:(lia)). lra.
    + f_equal. apply IH; [intros i Hi; apply (Hlt (S i)); lia | lia | intro; apply Hge; lia].
  - apply Qltb_false in E. destruct j as [|j]; [reflexivity|].
    specialize (Hlt 0%nat ltac:(lia)). simpl in Hlt. lra.
Qed.

(* strictly increasing tenors *)
Definition increasing (T : list Q) : Prop := forall i, (S i < length T)%nat -> qn i T < qn (S i) T.

Lemma increasing_le T : increasing T -> forall i j, (i <= j)%nat -> (j < length T)%nat -> qn i T <= qn j T.
Proof.
  intros H i j Hij. induction Hij as [|j Hij IH]; intro Hj; [lra|].
  specialize (IH ltac:(lia)). specialize (H j Hj). lra.
Qed.

(* position of a time inside period j = (T_j, T_{j+1}] *)
Lemma ss_period T t j : increasing T -> (S j < length T)%nat -> qn j T < t -> t <= qn (S j) T ->
  searchsorted_nat T t = S j.
Proof.
  intros Hinc Hj H1 H2. apply (ss_eq T t (S j)); [|lia|intro; assumption].
  intros i Hi. pose proof (increasing_le T Hinc i j ltac:(lia) ltac:(lia)). lra.
Qed.

Lemma ss_first T t : (0 < length T)%nat -> t <= qn 0 T -> searchsorted_nat T t = 0%nat.
Proof. intros. apply (ss_eq T t 0%nat); [intros; lia | lia | intro; assumption]. Qed.

(* ---- df 0 = 1 ---- *)
Theorem df_zero T r : 0 <= qn 0 T -> forward_df T r 0 == 1.
Proof.
  intro H. rewrite forward_df_aux. unfold aux.
  assert (E : searchsorted_nat T 0 = 0%nat).
  { destruct T as [|x T]; [reflexivity|]. simpl in *. destruct (Qltb x 0) eqn:E; [apply Qltb_lt in E; lra | reflexivity]. }
  rewrite E. assert (Ha : 1 + qn 0 r * 0 == 1) by ring. rewrite Ha. reflexivity.
Qed.

(* ---- the recurrence: simple compounding of the value at the previous tenor ---- *)
Lemma aux_at_tenor T r j : increasing T -> (j < length T)%nat -> aux T r (qn j T) == A T r j.
Proof.
  intros Hinc Hj. unfold aux. destruct j as [|j].
  - rewrite ss_first by (try lia; lra). unfold A. simpl prodfac. ring.
  - rewrite (ss_period T _ j Hinc Hj); [| apply Hinc; assumption | lra].
    unfold A. cbn [prodfac]. unfold fac. ring.
Qed.

Theorem aux_recurrence T r j t : increasing T -> (S j < length T)%nat -> qn j T < t -> t <= qn (S j) T ->
  aux T r t == aux T r (qn j T) * (1 + qn j r * (t - qn j T)).
Proof.
  intros Hinc Hj H1 H2. rewrite aux_at_tenor by (try assumption; lia).
  unfold aux at 1. rewrite (ss_period T t j) by assumption. reflexivity.
Qed.

Theorem aux_first_period T r t : (0 < length T)%nat -> t <= qn 0 T -> aux T r t == 1 + qn 0 r * t.
Proof. intros H1 H2. unfold aux. rewrite ss_first by assumption. reflexivity. Qed.

(* ---- bounds and monotonicity for non-negative rates ---- *)
Definition nonneg (r : list Q) : Prop := forall k, 0 <= qn k r.

Lemma fac_ge_1 T r k : increasing T -> nonneg r -> (S k < length T)%nat -> 1 <= fac T r k.
Proof. intros Hinc Hr Hk. unfold fac. specialize (Hinc k Hk). specialize (Hr k). nra. Qed.

Lemma prodfac_ge_1 T r : increasing T -> nonneg r -> forall n, (n < length T)%nat -> 1 <= prodfac T r n.
Proof.
  intros Hinc Hr. induction n as [|n IH]; intro Hn; [simpl; lra|].
  cbn [prodfac]. specialize (IH ltac:(lia)). pose proof (fac_ge_1 T r n Hinc Hr Hn). nra.
Qed.

Lemma A_ge_1 T r j : increasing T -> nonneg r -> 0 <= qn 0 T -> (j < length T)%nat -> 1 <= A T r j.
Proof.
  intros Hinc Hr H0 Hj. unfold A. pose proof (prodfac_ge_1 T r Hinc Hr j Hj) as HP. specialize (Hr 0%nat).
  assert (Hx : 0 <= qn 0 r * qn 0 T) by (apply Qmult_le_0_compat; assumption).
  set (x := qn 0 r * qn 0 T) in *. set (P := prodfac T r j) in *. nra.
Qed.

Lemma A_mono T r : increasing T -> nonneg r -> 0 <= qn 0 T -> forall i j, (i <= j)%nat -> (j < length T)%nat -> A T r i <= A T r j.
Proof.
  intros Hinc Hr H0 i j Hij. induction Hij as [|j Hij IH]; intro Hj; [lra|].
  specialize (IH ltac:(lia)). pose proof (A_ge_1 T r j Hinc Hr H0 ltac:(lia)) as HA.
  pose proof (fac_ge_1 T r j Hinc Hr Hj) as Hf.
  assert (E : A T r (S j) == A T r j * fac T r j) by (unfold A; cbn [prodfac]; ring).
  rewrite E. set (c := A T r j) in *. set (f := fac T r j) in *. nra.
Qed.

Lemma Qmult_le_l_weak a x y : 0 <= a -> x <= y -> a * x <= a * y.
Proof. intros; nra. Qed.

(* a time 0 <= t <= T_m lies in the first stretch or in a period: lower/upper bounds of aux there *)
Lemma aux_bounds T r t : increasing T -> nonneg r -> 0 <= qn 0 T -> 0 <= t -> t <= last T 0 -> T <> [] ->
  let p := searchsorted_nat T t in
  (p < length T)%nat /\
  match p with
  | O => 1 <= aux T r t /\ aux T r t <= A T r 0
  | S j => A T r j <= aux T r t /\ aux T r t <= A T r (S j)
  end.
Proof.
  intros Hinc Hr H0 Ht Hlast Hne p.
  assert (Hp : (p < length T)%nat).
  { destruct (Nat.lt_ge_cases p (length T)) as [H|H]; [assumption|].
    exfalso. assert (Hl : (length T - 1 < p)%nat) by (destruct T; [congruence | simpl in *; lia]).
    pose proof (ss_below T t _ Hl) as Hb.
    assert (Hle : last T 0 = qn (length T - 1) T).
    { clear -Hne. induction T as [|x T IH]; [congruence|]. destruct T as [|y T]; [reflexivity|].
      change (last (y :: T) 0 = qn (length (y :: T) - 0) (x :: y :: T)). rewrite IH by discriminate.
      simpl. rewrite Nat.sub_0_r. reflexivity. }
    rewrite Hle in Hlast. lra. }
  split; [assumption|].
  pose proof (ss_at T t Hp) as Hat. fold p in Hat.
  unfold aux. fold p. destruct p as [|j] eqn:Ep.
  - unfold A. simpl prodfac. pose proof (Hr 0%nat). split; nra.
  - assert (Hb : qn j T < t) by (apply ss_below; fold p; lia).
    pose proof (A_ge_1 T r j Hinc Hr H0 ltac:(lia)) as HA. pose proof (Hr j) as Hrj.
    assert (E : A T r (S j) == A T r j * (1 + qn j r * (qn (S j) T - qn j T))) by (unfold A, fac; cbn [prodfac]; unfold fac; ring).
    rewrite E.
    assert (H1 : 0 <= qn j r * (t - qn j T)) by (apply Qmult_le_0_compat; lra).
    assert (H2 : qn j r * (t - qn j T) <= qn j r * (qn (S j) T - qn j T)) by (apply Qmult_le_l_weak; lra).
    set (c := A T r j) in *. set (u := qn j r * (t - qn j T)) in *. set (w := qn j r * (qn (S j) T - qn j T)) in *.
    split; nra.
Qed.

Theorem aux_ge_1 T r t : increasing T -> nonneg r -> 0 <= qn 0 T -> 0 <= t -> t <= last T 0 -> T <> [] -> 1 <= aux T r t.
Proof.
  intros Hinc Hr H0 Ht Hl Hne. destruct (aux_bounds T r t Hinc Hr H0 Ht Hl Hne) as [Hp Hb].
  destruct (searchsorted_nat T t) as [|j]; [tauto|].
  pose proof (A_ge_1 T r j Hinc Hr H0 ltac:(lia)). lra.
Qed.

Lemma ss_mono T s t : s <= t -> (searchsorted_nat T s <= searchsorted_nat T t)%nat.
Proof.
  intro H. induction T as [|x T IH]; simpl; [lia|].
  destruct (Qltb x s) eqn:E1.
  - apply Qltb_lt in E1. assert (E2 : Qltb x t = true) by (apply Qltb_lt; lra). rewrite E2. lia.
  - lia.
Qed.

Theorem aux_mono T r s t : increasing T -> nonneg r -> 0 <= qn 0 T -> T <> [] ->
  0 <= s -> s <= t -> t <= last T 0 -> aux T r s <= aux T r t.
Proof.
  intros Hinc Hr H0 Hne Hs Hst Ht.
  destruct (aux_bounds T r s Hinc Hr H0 Hs ltac:(lra) Hne) as [Hps Hbs].
  destruct (aux_bounds T r t Hinc Hr H0 ltac:(lra) Ht Hne) as [Hpt Hbt].
  pose proof (ss_mono T s t Hst) as Hm.
  destruct (Nat.eq_dec (searchsorted_nat T s) (searchsorted_nat T t)) as [E|E].
  - unfold aux. rewrite <- E. destruct (searchsorted_nat T s) as [|j].
    + pose proof (Hr 0%nat). nra.
    + pose proof (A_ge_1 T r j Hinc Hr H0 ltac:(lia)) as HA.
      assert (H2 : qn j r * (s - qn j T) <= qn j r * (t - qn j T)) by (apply Qmult_le_l_weak; [apply Hr | lra]).
      set (c := A T r j) in *. set (u := qn j r * (s - qn j T)) in *. set (w := qn j r * (t - qn j T)) in *. nra.
  - assert (Hlt : (searchsorted_nat T s < searchsorted_nat T t)%nat) by lia.
    destruct (searchsorted_nat T t) as [|jt]; [lia|].
    destruct (searchsorted_nat T s) as [|js].
    + pose proof (A_mono T r Hinc Hr H0 0 jt ltac:(lia) ltac:(lia)). lra.
    + pose proof (A_mono T r Hinc Hr H0 (S js) jt ltac:(lia) ltac:(lia)). lra.
Qed.

Lemma Qltb_proper y x z : x == z -> Qltb y x = Qltb y z.
Proof.
  intro E. unfold Qltb. f_equal. destruct (Qle_bool x y) eqn:E1, (Qle_bool z y) eqn:E2; try reflexivity.
  - apply Qle_bool_iff in E1. apply Qle_bool_false in E2. lra.
  - apply Qle_bool_false in E1. apply Qle_bool_iff in E2. lra.
Qed.

Lemma ss_proper T x z : x == z -> searchsorted_nat T x = searchsorted_nat T z.
Proof.
  intro E. induction T as [|y T IH]; [reflexivity|]. simpl.
  rewrite (Qltb_proper y x z E), IH. reflexivity.
Qed.

Lemma aux_proper T r x z : x == z -> aux T r x == aux T r z.
Proof.
  intro E. unfold aux. rewrite (ss_proper T x z E).
  destruct (searchsorted_nat T z); rewrite E; reflexivity.
Qed.

(* ---- statements about df = 1 / aux ---- *)
Lemma inv_diff_bound a b c k : 0 < k -> k <= a -> 1 <= b -> 0 <= c -> b - a == k * c ->
  0 <= 1 / a - 1 / b /\ 1 / a - 1 / b <= c.
Proof.
  intros Hk Hka Hb Hc E.
  assert (Ha : 0 < a) by lra. assert (Hb0 : 0 < b) by lra.
  assert (Hab : 0 < a * b) by nra.
  assert (Eq : 1 / a - 1 / b == (k * c) / (a * b)).
  { rewrite <- E. field. split; lra. }
  rewrite Eq. assert (Hkc : 0 <= k * c) by nra. split.
  - apply Qle_shift_div_l; [assumption|]. lra.
  - apply Qle_shift_div_r; [assumption|]. assert (k <= a * b) by nra. nra.
Qed.

Section DF.
  Variables (T r : list Q).
  Hypothesis Hinc : increasing T.
  Hypothesis Hr : nonneg r.
  Hypothesis H0 : 0 <= qn 0 T.
  Hypothesis Hne : T <> [].

  (* positive, at most 1 *)
  Theorem df_positive t : 0 <= t -> t <= last T 0 -> 0 < forward_df T r t /\ forward_df T r t <= 1.
  Proof.
    intros Ht Hl. rewrite forward_df_aux. pose proof (aux_ge_1 T r t Hinc Hr H0 Ht Hl Hne) as Ha. split.
    - apply Qlt_shift_div_l; lra.
    - apply Qle_shift_div_r; lra.
  Qed.

  (* non-increasing on [0, last tenor] *)
  Theorem df_nonincreasing s t : 0 <= s -> s <= t -> t <= last T 0 -> forward_df T r t <= forward_df T r s.
  Proof.
    intros Hs Hst Ht. rewrite !forward_df_aux.
    pose proof (aux_ge_1 T r s Hinc Hr H0 Hs ltac:(lra) Hne) as Has.
    pose proof (aux_ge_1 T r t Hinc Hr H0 ltac:(lra) Ht Hne) as Hat.
    pose proof (aux_mono T r s t Hinc Hr H0 Hne Hs Hst Ht) as Hm.
    apply Qle_shift_div_l; [lra|].
    assert (E : 1 / aux T r t * aux T r s == aux T r s / aux T r t) by (field; lra). rewrite E.
    apply Qle_shift_div_r; lra.
  Qed.

  (* continuity: inside the first stretch [0, T_0] and inside every period (T_j, T_{j+1}] (including
     its right end) df is Lipschitz with the period's rate; at the left end T_j the value is the
     limit from the right: left and right limits agree at every tenor *)
  Theorem df_continuous_first s t : 0 <= s -> s <= t -> t <= qn 0 T ->
    0 <= forward_df T r s - forward_df T r t /\ forward_df T r s - forward_df T r t <= qn 0 r * (t - s).
  Proof.
    intros Hs Hst Ht. rewrite !forward_df_aux.
    assert (Hlen : (0 < length T)%nat) by (destruct T; [congruence | simpl; lia]).
    rewrite !aux_first_period by (try assumption; lra).
    pose proof (Hr 0%nat) as Hr0.
    apply (inv_diff_bound _ _ _ 1); try lra; try nra.
  Qed.

  Theorem df_continuous_period j s t : (S j < length T)%nat -> qn j T <= s -> s <= t -> t <= qn (S j) T ->
    0 <= forward_df T r s - forward_df T r t /\ forward_df T r s - forward_df T r t <= qn j r * (t - s).
  Proof.
    intros Hj Hs Hst Ht. rewrite !forward_df_aux.
    pose proof (Hr j) as Hrj.
    pose proof (A_ge_1 T r j Hinc Hr H0 ltac:(lia)) as HA.
    assert (Hc : 0 <= qn j r * (t - s)) by (apply Qmult_le_0_compat; lra).
    assert (Eat : forall x, qn j T <= x -> x <= qn (S j) T -> aux T r x == A T r j * (1 + qn j r * (x - qn j T))).
    { intros x H1 H2. destruct (Qlt_le_dec (qn j T) x) as [Hlt|Hge].
      - rewrite (aux_recurrence T r j x Hinc Hj Hlt H2), aux_at_tenor by (try assumption; lia). reflexivity.
      - assert (Ex : x == qn j T) by lra.
        rewrite (aux_proper T r _ _ Ex), aux_at_tenor by (try assumption; lia). rewrite Ex. ring. }
    rewrite (Eat s) by lra. rewrite (Eat t) by lra.
    assert (H1s : 0 <= qn j r * (s - qn j T)) by (apply Qmult_le_0_compat; lra).
    assert (H1t : 0 <= qn j r * (t - qn j T)) by (apply Qmult_le_0_compat; lra).
    apply (inv_diff_bound _ _ _ (A T r j)); try lra; try ring.
    - set (c := A T r j) in *. set (u := qn j r * (s - qn j T)) in *. nra.
    - set (c := A T r j) in *. set (u := qn j r * (t - qn j T)) in *. nra.
  Qed.
End DF.
(* ---- positivity without rates >= 0: exactly the accrual factors have to be positive (negative rates above -1/accrual) ---- *)
Definition factors_pos (T r : list Q) : Prop :=
  0 < 1 + qn 0 r * qn 0 T /\ forall k, (S k < length T)%nat -> 0 < fac T r k.

Lemma ss_lt_length T t : T <> [] -> t <= last T 0 -> (searchsorted_nat T t < length T)%nat.
Proof.
  intros Hne Hlast. destruct (Nat.lt_ge_cases (searchsorted_nat T t) (length T)) as [H|H]; [assumption|].
  exfalso. assert (Hl : (length T - 1 < searchsorted_nat T t)%nat) by (destruct T; [congruence | simpl in *; lia]).
  pose proof (ss_below T t _ Hl) as Hb.
  assert (Hle : last T 0 = qn (length T - 1) T).
  { clear -Hne. induction T as [|x T IH]; [congruence|]. destruct T as [|y T]; [reflexivity|].
    change (last (y :: T) 0 = qn (length (y :: T) - 0) (x :: y :: T)). rewrite IH by discriminate.
    simpl. rewrite Nat.sub_0_r. reflexivity. }
  rewrite Hle in Hlast. lra.
Qed.

Lemma prodfac_pos T r : (forall k, (S k < length T)%nat -> 0 < fac T r k) -> forall n, (n < length T)%nat -> 0 < prodfac T r n.
Proof.
  intros Hf. induction n as [|n IH]; intro Hn; [simpl; lra|].
  cbn [prodfac]. specialize (IH ltac:(lia)). specialize (Hf n Hn). nra.
Qed.

(* a linear factor that is positive at both ends of an interval is positive inside *)
Lemma linear_pos c u w : 0 <= u -> u <= w -> 0 < 1 + c * w -> 0 < 1 + c * u.
Proof. intros H0 Hu Hw. destruct (Qlt_le_dec c 0) as [Hc|Hc]; nra. Qed.

Theorem aux_pos_general T r t : increasing T -> 0 <= qn 0 T -> T <> [] -> factors_pos T r ->
  0 <= t -> t <= last T 0 -> 0 < aux T r t.
Proof.
  intros Hinc H0 Hne [Hf0 Hf] Ht Hl.
  pose proof (ss_lt_length T t Hne Hl) as Hp. pose proof (ss_at T t Hp) as Hat.
  unfold aux. destruct (searchsorted_nat T t) as [|j] eqn:Ep.
  - apply (linear_pos _ t (qn 0 T)); assumption.
  - assert (Hb : qn j T < t) by (apply ss_below; rewrite Ep; lia).
    assert (HA : 0 < A T r j).
    { unfold A. pose proof (prodfac_pos T r Hf j ltac:(lia)). nra. }
    assert (HL : 0 < 1 + qn j r * (t - qn j T)).
    { apply (linear_pos _ _ (qn (S j) T - qn j T)); [lra | lra |]. exact (Hf j Hp). }
    nra.
Qed.

Theorem df_positive_general T r t : increasing T -> 0 <= qn 0 T -> T <> [] -> factors_pos T r ->
  0 <= t -> t <= last T 0 -> 0 < forward_df T r t.
Proof.
  intros Hinc H0 Hne Hf Ht Hl. rewrite forward_df_aux.
  pose proof (aux_pos_general T r t Hinc H0 Hne Hf Ht Hl). apply Qlt_shift_div_l; lra.
Qed.

(* non-negative rates are a special case *)
Lemma nonneg_factors_pos T r : increasing T -> nonneg r -> 0 <= qn 0 T -> factors_pos T r.
Proof.
  intros Hinc Hr H0. split.
  - pose proof (Hr 0%nat). nra.
  - intros k Hk. pose proof (fac_ge_1 T r k Hinc Hr Hk). lra.
Qed.

(* and the condition is sharp: a non-positive accrual factor makes the discount factor at that tenor non-positive (or 1/0 = 0 in Q) *)
Theorem df_nonpositive_factor T r j : increasing T -> (S j < length T)%nat -> 0 < A T r j -> fac T r j <= 0 ->
  forward_df T r (qn (S j) T) <= 0.
Proof.
  intros Hinc Hj HA Hf. rewrite forward_df_aux, (aux_at_tenor T r (S j) Hinc Hj).
  assert (E : A T r (S j) == A T r j * fac T r j) by (unfold A; cbn [prodfac]; ring).
  assert (Hle : A T r (S j) <= 0) by (rewrite E; nra).
  destruct (Qeq_dec (A T r (S j)) 0) as [Ez|Hnz].
  - rewrite Ez. unfold Qdiv. rewrite Qmult_1_l. vm_compute. discriminate.
  - assert (Hlt : A T r (S j) < 0) by (destruct (Qlt_le_dec (A T r (S j)) 0); [assumption | exfalso; apply Hnz; lra]).
    unfold Qdiv. rewrite Qmult_1_l.
    assert (Hi : / A T r (S j) < 0).
    { assert (0 < / - A T r (S j)) by (apply Qinv_lt_0_compat; lra).
      assert (Ei : / - A T r (S j) == - / A T r (S j)) by (field; assumption). lra. }
    lra.
Qed.

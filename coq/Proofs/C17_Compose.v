(* Proofs for C17, wave 6 (a): composition of the two exotic models --
   a Rainbow option whose whole weight is on the best performance (weights [1, 0, ..., 0], stored flipped by __init__) valued on
   the Performances underlying IS the vanilla option valued on the MaximumOfPerformances underlying, in both representations.
   rainbow_eval / vanilla_eval are the py2coq-generated bodies; perf_value / maxperf_value the hand models of Model/PayoffExt.v. *)
From Coq Require Import ZArith QArith Qminmax Qabs Bool List Lqa Lia Sorted Permutation.
From RV Require Import Base.QB Model.PayoffVec Gen.GenC17Payoff Gen.GenC17Exotic Model.Payoff Model.PayoffExt
                       Proofs.C17_Payoff Proofs.C17_PayoffExt.
Import ListNotations.
Open Scope Q_scope.

(* np.flip([1, 0, ..., 0]) = [0, ..., 0, 1] *)
Lemma rev_best_weights n : rev (1 :: repeat 0 n) = repeat 0 n ++ [1].
Proof.
  cbn [rev]. f_equal. induction n as [|n IH]; [reflexivity|].
  cbn [repeat rev]. rewrite IH. clear IH. induction n as [|n IH]; [reflexivity|]. cbn [repeat app]. rewrite IH. reflexivity.
Qed.

(* sum([0, ..., 0, 1] * x) picks the last entry *)
Lemma dotq_pick_last : forall n x, length x = S n -> dotq (repeat 0 n ++ [1]) x == nth n x 0.
Proof.
  induction n as [|n IH]; intros [|a x] H; try discriminate.
  - destruct x; [|discriminate]. simpl. lra.
  - cbn [repeat app dotq nth]. rewrite IH by (simpl in H; lia). lra.
Qed.

Lemma sorted_all_le_last : forall s, Sorted Qle s -> forall n, length s = S n -> forall v, In v s -> v <= nth n s 0.
Proof.
  intros s Hs. apply Sorted_StronglySorted in Hs; [|intros a b c; apply Qle_trans].
  induction Hs as [|a s Hs IH Hall]; intros n Hl v Hv; [discriminate|].
  destruct n as [|n].
  - destruct s; [|discriminate]. destruct Hv as [<-|[]]. simpl. lra.
  - cbn [nth]. simpl in Hl. destruct Hv as [<-|Hv].
    + rewrite Forall_forall in Hall. apply Hall. apply nth_In. lia.
    + apply IH; [lia | assumption].
Qed.

(* the last entry of np.sort(u) is the maximum of u: any attained upper bound *)
Lemma sort_last_is_max u n m : length u = S n -> In m u -> (forall v, In v u -> v <= m) -> nth n (qsort u) 0 == m.
Proof.
  intros Hl Hin Hub.
  assert (Hls : length (qsort u) = S n) by (rewrite (Permutation_length (qsort_perm u)); assumption).
  apply Qle_antisym.
  - apply Hub. apply (Permutation_in _ (qsort_perm u)). apply nth_In. lia.
  - apply sorted_all_le_last; [apply qsort_sorted | assumption |].
    apply (Permutation_in _ (Permutation_sym (qsort_perm u))). assumption.
Qed.

Lemma Qmaxb_flip a b : a == b -> Qmaxb 0 a == Qmaxb b 0.
Proof.
  intro E. unfold Qmaxb. destruct (Qle_bool 0 a) eqn:E1, (Qle_bool b 0) eqn:E2;
    try apply Qle_bool_iff in E1; try apply Qle_bool_iff in E2; try apply Qle_bool_false in E1; try apply Qle_bool_false in E2; lra.
Qed.

(* Rainbow([1, 0, ..., 0], K, CALL/PUT).evaluate(u) = Vanilla(K, CALL/PUT).evaluate(max(u))    (eps = +1 / -1; any eps) *)
Lemma rainbow_best_of eps n k u m : length u = S n -> qmax_list u = UFin m ->
  rainbow_eval eps (rev (1 :: repeat 0 n)) k u == vanilla_eval eps k m.
Proof.
  intros Hl Hm. destruct u as [|x r]; [discriminate|]. simpl in Hm. injection Hm as Hm.
  destruct (pymax_fold_spec r x) as [Hin Hub]. cbv zeta in Hin, Hub. rewrite Hm in Hin, Hub.
  unfold rainbow_eval, vanilla_eval. cbv zeta. apply Qmaxb_flip.
  rewrite rev_best_weights.
  rewrite dotq_pick_last by (rewrite (Permutation_length (qsort_perm (x :: r))); assumption).
  rewrite (sort_last_is_max (x :: r) n m Hl Hin Hub). reflexivity.
Qed.

Section Compose.
  Variable expf logf : Q -> Q.

  Lemma map2q_exp : forall a b, map2q (fun v s => expf (v - logf s)) a b = map expf (map2q (fun v s => v - logf s) a b).
  Proof. induction a as [|x a IH]; intros [|y b]; simpl; try reflexivity. rewrite IH. reflexivity. Qed.

  (* the product (Performances, Rainbow([1,0,...,0], K)) is worth what the product (MaximumOfPerformances, Vanilla(K)) is worth on
     every d x n path with d = n + 1 >= 1 names, in the identity representation, and in the LOG representation when np.exp is monotone *)
  Lemma rainbow_perf_is_vanilla_maxperf eps n k spots path lg :
    length (perf_value expf logf lg spots path) = S n ->
    (lg = true -> forall a b, a <= b -> expf a <= expf b) ->
    exists m, maxperf_value expf logf lg spots path = UFin m /\
              rainbow_eval eps (rev (1 :: repeat 0 n)) k (perf_value expf logf lg spots path) == vanilla_eval eps k m.
  Proof.
    intros Hl Hmono. unfold maxperf_value, perf_value in *. destruct lg.
    - specialize (Hmono eq_refl). rewrite map2q_exp in *.
      destruct (map2q (fun v s => v - logf s) (lasts path) spots) as [|x r] eqn:E; [discriminate|].
      cbn [qmax_list]. eexists; split; [reflexivity|].
      set (M := fold_left (fun m y : Q => if Qltb m y then y else m) r x).
      destruct (pymax_fold_spec r x) as [Hin Hub]. cbv zeta in Hin, Hub. fold M in Hin, Hub.
      unfold rainbow_eval, vanilla_eval. cbv zeta. apply Qmaxb_flip. rewrite rev_best_weights.
      rewrite dotq_pick_last by (rewrite (Permutation_length (qsort_perm _)); assumption).
      rewrite (sort_last_is_max (map expf (x :: r)) n (expf M) Hl).
      + reflexivity.
      + apply in_map. assumption.
      + intros v Hv. apply in_map_iff in Hv. destruct Hv as [w [<- Hw]]. apply Hmono. apply Hub. assumption.
    - destruct (map2q Qdiv (lasts path) spots) as [|x r] eqn:E; [discriminate|].
      eexists; split; [reflexivity|]. apply rainbow_best_of; [assumption | reflexivity].
  Qed.
End Compose.

(* ================================================================== wave 8b (audit5b B11 / top-10 #10)
   Performances._value_log calls np.exp (underlying.py:280), MaximumOfPerformances._value_log calls math.exp (`from math import exp`,
   underlying.py:14, :305).  On floats these are two different functions (they differ by one ulp on about 5% of the arguments), so the
   composition is stated with TWO exponentials: perf_value np_exp and maxperf_value math_exp.  Under LOG the two products are equal
   exactly when the two exponentials agree at the maximal log-performance M; in general they differ by at most |eps| |np_exp M - math_exp M|. *)
(* x -> max(x, 0) is 1-Lipschitz *)
Lemma Qmaxb0_lipschitz a b : Qabs (Qmaxb a 0 - Qmaxb b 0) <= Qabs (a - b).
Proof.
  pose proof (Qle_Qabs (a - b)) as H1. pose proof (Qle_Qabs (- (a - b))) as H2. rewrite Qabs_opp in H2.
  unfold Qmaxb. destruct (Qle_bool a 0) eqn:E1, (Qle_bool b 0) eqn:E2;
    try apply Qle_bool_iff in E1; try apply Qle_bool_iff in E2; try apply Qle_bool_false in E1; try apply Qle_bool_false in E2;
    apply Qabs_Qle_condition; split; lra.
Qed.

Lemma vanilla_lipschitz eps k a b : Qabs (vanilla_eval eps k a - vanilla_eval eps k b) <= Qabs eps * Qabs (a - b).
Proof.
  unfold vanilla_eval. eapply Qle_trans; [apply Qmaxb0_lipschitz|].
  rewrite <- Qabs_Qmult. assert (E : eps * (a - k) - eps * (b - k) == eps * (a - b)) by ring. rewrite E. apply Qle_refl.
Qed.

Section Compose2.
  Variable np_exp math_exp logf : Q -> Q.

  Lemma rainbow_perf_vs_vanilla_maxperf_log eps n k spots path :
    length (perf_value np_exp logf true spots path) = S n ->
    (forall a b, a <= b -> np_exp a <= np_exp b) ->
    exists M, qmax_list (map2q (fun v s => v - logf s) (lasts path) spots) = UFin M
              /\ maxperf_value math_exp logf true spots path = UFin (math_exp M)
              /\ rainbow_eval eps (rev (1 :: repeat 0 n)) k (perf_value np_exp logf true spots path) == vanilla_eval eps k (np_exp M)
              /\ Qabs (rainbow_eval eps (rev (1 :: repeat 0 n)) k (perf_value np_exp logf true spots path) - vanilla_eval eps k (math_exp M))
                 <= Qabs eps * Qabs (np_exp M - math_exp M).
  Proof.
    intros Hl Hmono.
    destruct (rainbow_perf_is_vanilla_maxperf np_exp logf eps n k spots path true Hl (fun _ => Hmono)) as [m [Hm Hv]].
    unfold maxperf_value in *.
    destruct (qmax_list (map2q (fun v s => v - logf s) (lasts path) spots)) as [M| |] eqn:E; try discriminate.
    injection Hm as <-. exists M. repeat split; [exact Hv|].
    rewrite Hv. apply vanilla_lipschitz.
  Qed.

  (* identity representation: no exp at all *)
  Lemma rainbow_perf_is_vanilla_maxperf_id eps n k spots path :
    length (perf_value np_exp logf false spots path) = S n ->
    exists m, maxperf_value math_exp logf false spots path = UFin m /\
              rainbow_eval eps (rev (1 :: repeat 0 n)) k (perf_value np_exp logf false spots path) == vanilla_eval eps k m.
  Proof.
    intro Hl. destruct (rainbow_perf_is_vanilla_maxperf np_exp logf eps n k spots path false Hl) as [m [Hm Hv]]; [discriminate|].
    exists m. split; [exact Hm | exact Hv].
  Qed.
End Compose2.

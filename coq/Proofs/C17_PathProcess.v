(* Proofs for C17, wave 6 (b): MCPath.process / MLMCPath.process / process_l0 with ControlVariates for any number of controls and
   any order of update / initialisation / process operations (Model/PathProcess.v, tree repaired by 09f959e: the stored underlying
   function looks Underlying.value up at call time).
   Main result: in ANY state in which ControlVariates.initialisation has been called at some time (and a control that takes the main
   product's underlying value is bound to the main product's representation), every processed path -- any number of them, standard /
   level-0 / fine+coarse -- leaves on the path manager exactly what FRESH objects, each valued alone in ITS OWN current representation,
   give on that path (eval3 of Model/Payoff.v).  No 'initialisation after the last update' hypothesis: update() calls after the
   initialisation are harmless (they were not before the repair: F-C17-17, ctrl_out_orig). *)
From Coq Require Import ZArith QArith Qminmax Qabs Bool List Lqa Lia.
From RV Require Import Base.QB Model.PayoffVec Gen.GenC17Payoff Gen.GenC17Exotic Model.Payoff Model.PayoffExt Model.PathProcess
                       Proofs.C17_Payoff Proofs.C17_PayoffExt.
Import ListNotations.
Open Scope Q_scope.

Section PP.
  Variable expf logf : Q -> Q.

  (* control c has an entry in _underlying_functions; if that entry hands the MAIN product's underlying value over, the control's
     underlying has the main underlying's terms and the control is bound to the representation lgm the main product is bound to *)
  Definition cap_valid (main_und : underlying) (lgm : bool) (c : ctl) : Prop :=
    exists cap, c_cap c = Some cap /\
      match cap with
      | CapImplied => p_und (c_prod c) = main_und /\ uses_log (c_st c) = lgm
      | CapOwn _ => True
      end.

  Definition captures_valid (pr : product) (x : sys) : Prop :=
    Forall (cap_valid (p_und pr) (uses_log (s_main x))) (s_ctls x).

  (* an underlying of the main underlying's class has the main underlying's parameters (else: F-C17-10) *)
  Definition same_class_same_terms (pr : product) (x : sys) : Prop :=
    forall c, In c (s_ctls x) -> same_class (p_und (c_prod c)) (p_und pr) = true -> p_und (c_prod c) = p_und pr.

  Lemma ctrl_out_valid main_und lgm c cap t p j :
    match cap with CapImplied => p_und (c_prod c) = main_und /\ uses_log (c_st c) = lgm | CapOwn _ => True end ->
    ctrl_out expf logf (c_prod c) cap (c_st c) (und_value expf logf main_und lgm t p j) t p j
    = snd (eval3 expf logf (c_prod c) fresh (uses_log (c_st c)) t p j).
  Proof.
    intros Hc. rewrite (eval3_state_independent expf logf (c_prod c) fresh (c_st c)).
    assert (E : captured_value expf logf (c_prod c) cap (c_st c) (und_value expf logf main_und lgm t p j) t p j
                = und_value expf logf (p_und (c_prod c)) (uses_log (c_st c)) t p j).
    { destruct cap; simpl; [destruct Hc as [-> ->]; reflexivity | reflexivity]. }
    unfold ctrl_out. rewrite E. unfold eval3, ctrl_flag. cbn [step fst snd uses_log barrier_event].
    destruct (und_value expf logf (p_und (c_prod c)) (uses_log (c_st c)) t p j); reflexivity.
  Qed.

  Lemma main_out_sync pr ms t p j :
    match und_value expf logf (p_und pr) (uses_log ms) t p j with
    | UFin q => snd (step expf logf pr (fst (step expf logf pr ms (OpUnderlying t p j))) (OpCall q))
    | _ => OutNone
    end = snd (eval3 expf logf pr fresh (uses_log ms) t p j).
  Proof.
    rewrite (eval3_state_independent expf logf pr fresh ms). destruct ms as [ev l].
    unfold eval3. cbn [step fst snd uses_log barrier_event].
    destruct (und_value expf logf (p_und pr) l t p j); reflexivity.
  Qed.

  Lemma one_path_spec pr lgp activate ms ctls t p j :
    Forall (cap_valid (p_und pr) (uses_log ms)) ctls ->
    let r := one_path expf logf pr lgp activate ms ctls t p j in
    uses_log (fst (fst r)) = uses_log ms /\ Forall (cap_valid (p_und pr) (uses_log ms)) (snd (fst r))
    /\ ctl_reps (snd (fst r)) = ctl_reps ctls
    /\ snd r = fresh_path_out_own expf logf pr (uses_log ms) lgp (ctl_reps ctls) activate t p j.
  Proof.
    intros Hc. unfold one_path. cbn [fst snd]. split; [|split; [|split]].
    - reflexivity.
    - induction Hc as [|c r [cap [Hcap Hk]] Hr IH]; cbn [map]; constructor; [|assumption].
      exists cap; split; assumption.
    - unfold ctl_reps. rewrite map_map. apply map_ext. reflexivity.
    - unfold fresh_path_out_own. f_equal.
      + apply main_out_sync.
      + induction Hc as [|c r [cap [Hcap Hk]] Hr IH]; [reflexivity|].
        cbn [flat_map map ctl_reps fst snd]. rewrite Hcap. cbn [app]. f_equal; [|assumption].
        apply ctrl_out_valid; assumption.
  Qed.

  Lemma process_step_valid pr activate x o : captures_valid pr x -> is_process o = true ->
    let r := sys_step expf logf pr activate x o in
    captures_valid pr (fst r) /\ uses_log (s_main (fst r)) = uses_log (s_main x) /\ s_pm_log (fst r) = s_pm_log x
    /\ ctl_reps (s_ctls (fst r)) = ctl_reps (s_ctls x)
    /\ snd r = fresh_out_own expf logf pr (uses_log (s_main x)) (s_pm_log x) (ctl_reps (s_ctls x)) activate o.
  Proof.
    unfold captures_valid. intros Hc Ho. destruct o; try discriminate; cbn [sys_step fresh_out_own fst snd s_main s_ctls s_pm_log].
    - destruct (one_path_spec pr (s_pm_log x) activate (s_main x) (s_ctls x) times (mkpath det diff jump) jump Hc) as [A [B [C D]]].
      cbv zeta in A, B, C, D. rewrite D, A. repeat split; assumption.
    - destruct (one_path_spec pr (s_pm_log x) activate (s_main x) (s_ctls x) times (mkpath det diff jump) jump Hc) as [A [B [C D]]].
      cbv zeta in A, B, C, D. rewrite D, A. repeat split; assumption.
    - destruct (one_path_spec pr (s_pm_log x) activate (s_main x) (s_ctls x) times (mkpath det diff_f jump_f) jump_f Hc) as [A [B [C D]]].
      cbv zeta in A, B, C, D. rewrite <- A in B.
      destruct (one_path_spec pr (s_pm_log x) activate _ _ times (mkpath det diff_c jump_c) jump_c B) as [A' [B' [C' D']]].
      cbv zeta in A', B', C', D'. rewrite D', D, A', C, A. rewrite C in C'. rewrite A in B'. repeat split; assumption.
  Qed.

  (* C17_mc_process_pure: by induction over ANY number of processed paths (standard, level-0, fine + coarse) *)
  Theorem valid_run_pure pr activate : forall ops x, captures_valid pr x -> forallb is_process ops = true ->
    snd (sys_run expf logf pr activate x ops)
    = map (fresh_out_own expf logf pr (uses_log (s_main x)) (s_pm_log x) (ctl_reps (s_ctls x)) activate) ops.
  Proof.
    induction ops as [|o r IH]; intros x Hs Ho; [reflexivity|].
    cbn [forallb] in Ho. apply andb_true_iff in Ho. destruct Ho as [Ho Hr].
    destruct (process_step_valid pr activate x o Hs Ho) as [A [B [C [D E]]]]. cbv zeta in A, B, C, D, E.
    cbn [sys_run fst snd map]. rewrite (IH _ A Hr), B, C, D, E. reflexivity.
  Qed.

  (* ControlVariates.initialisation, called in ANY state: the captures are valid when the controls of the main underlying's class have
     its terms (F-C17-10) and are bound to the main product's representation *)
  Lemma init_valid pr activate x : same_class_same_terms pr x ->
    (forall c, In c (s_ctls x) -> same_class (p_und (c_prod c)) (p_und pr) = true -> uses_log (c_st c) = uses_log (s_main x)) ->
    captures_valid pr (fst (sys_step expf logf pr activate x SInit)).
  Proof.
    intros Hp Hr. unfold captures_valid. cbn [sys_step fst s_main s_ctls].
    apply Forall_forall. intros c' Hin. apply in_map_iff in Hin. destruct Hin as [c [<- Hin]].
    unfold cap_valid. cbn [c_prod c_st c_cap]. eexists; split; [reflexivity|]. unfold init_capture.
    destruct (same_class (p_und (c_prod c)) (p_und pr)) eqn:E; [split; [apply Hp | apply Hr]; assumption | exact I].
  Qed.

  (* update() calls AFTER the initialisation keep the captures valid: all objects switched to one representation ... *)
  Lemma updates_keep_valid pr activate lg x : captures_valid pr x ->
    let x' := fst (sys_run expf logf pr activate x [SUpdateMain lg; SUpdateCtrls lg; SUpdatePath lg]) in
    captures_valid pr x' /\ uses_log (s_main x') = lg /\ s_pm_log x' = lg
    /\ ctl_reps (s_ctls x') = map (fun c => (c_prod c, lg)) (s_ctls x).
  Proof.
    unfold captures_valid. intro Hc. cbn [sys_run sys_step fst snd s_main s_ctls s_pm_log step uses_log]. split; [|split; [|split]]; try reflexivity.
    - apply Forall_forall. intros c' Hin. apply in_map_iff in Hin. destruct Hin as [c [<- Hin]].
      rewrite Forall_forall in Hc. destruct (Hc c Hin) as [cap [Hcap Hk]].
      exists cap. split; [exact Hcap|]. destruct cap; [|exact I]. destruct Hk as [Hu _]. split; [exact Hu | reflexivity].
    - unfold ctl_reps. rewrite map_map. apply map_ext. reflexivity.
  Qed.
  (* ... and so do the path manager's update and the update of a control that computes its own underlying *)
  Lemma update_path_keeps_valid pr activate lg x : captures_valid pr x -> captures_valid pr (fst (sys_step expf logf pr activate x (SUpdatePath lg))).
  Proof. intro H; exact H. Qed.

  Lemma fresh_out_own_uniform pr prods lg activate o :
    fresh_out_own expf logf pr lg lg (map (fun c => (c, lg)) prods) activate o = fresh_out expf logf pr prods lg activate o.
  Proof.
    assert (E : forall t p j, fresh_path_out_own expf logf pr lg lg (map (fun c => (c, lg)) prods) activate t p j
                              = fresh_path_out expf logf pr prods lg activate t p j).
    { intros. unfold fresh_path_out_own, fresh_path_out. f_equal. rewrite map_map. reflexivity. }
    destruct o; cbn [fresh_out_own fresh_out]; rewrite ?E; reflexivity.
  Qed.

  (* the engine protocol from ANY state (any earlier history): all objects fresh in ONE representation *)
  Lemma protocol_valid pr activate lg x : same_class_same_terms pr x ->
    let x' := fst (sys_run expf logf pr activate x (engine_protocol lg)) in
    captures_valid pr x' /\ uses_log (s_main x') = lg /\ s_pm_log x' = lg /\ ctl_reps (s_ctls x') = map (fun c => (c, lg)) (map c_prod (s_ctls x)).
  Proof.
    intro Hp. cbn [sys_run engine_protocol sys_step fst snd s_main s_ctls s_pm_log step uses_log]. split; [|split; [|split]]; try reflexivity.
    - unfold captures_valid. cbn [s_main s_ctls uses_log]. rewrite map_map. apply Forall_forall. intros c' Hin.
      apply in_map_iff in Hin. destruct Hin as [c [<- Hin]].
      unfold cap_valid, upd_ctl. cbn [c_prod c_st c_cap step fst uses_log]. eexists; split; [reflexivity|]. unfold init_capture.
      destruct (same_class (p_und (c_prod c)) (p_und pr)) eqn:E; [split; [apply Hp; assumption | reflexivity] | exact I].
    - unfold ctl_reps. rewrite !map_map. apply map_ext. reflexivity.
  Qed.

  (* C17_mc_engine_protocol_pure *)
  Theorem mc_engine_pure pr activate x0 lg ops : same_class_same_terms pr x0 -> forallb is_process ops = true ->
    snd (sys_run expf logf pr activate (fst (sys_run expf logf pr activate x0 (engine_protocol lg))) ops)
    = map (fresh_out expf logf pr (map c_prod (s_ctls x0)) lg activate) ops.
  Proof.
    intros Hp Ho. destruct (protocol_valid pr activate lg x0 Hp) as [A [B [C D]]]. cbv zeta in A, B, C, D.
    rewrite (valid_run_pure pr activate ops _ A Ho), B, C, D. apply map_ext. intro o. apply fresh_out_own_uniform.
  Qed.

  (* C17_mc_reinitialisation_not_needed: the order that was wrong before 09f959e -- protocol in representation lg (initialisation
     included), THEN every object switched to lg' without a new initialisation -- is pure in lg' *)
  Theorem mc_update_after_init_pure pr activate x0 lg lg' ops : same_class_same_terms pr x0 -> forallb is_process ops = true ->
    snd (sys_run expf logf pr activate
           (fst (sys_run expf logf pr activate (fst (sys_run expf logf pr activate x0 (engine_protocol lg)))
                         [SUpdateMain lg'; SUpdateCtrls lg'; SUpdatePath lg'])) ops)
    = map (fresh_out expf logf pr (map c_prod (s_ctls x0)) lg' activate) ops.
  Proof.
    intros Hp Ho. destruct (protocol_valid pr activate lg x0 Hp) as [A [_ [_ D]]]. cbv zeta in A, D.
    destruct (updates_keep_valid pr activate lg' _ A) as [A' [B' [C' D']]]. cbv zeta in A', B', C', D'.
    rewrite (valid_run_pure pr activate ops _ A' Ho), B', C', D'.
    assert (E : map (fun c : ctl => (c_prod c, lg')) (s_ctls (fst (sys_run expf logf pr activate x0 (engine_protocol lg))))
                = map (fun c => (c, lg')) (map c_prod (s_ctls x0))).
    { assert (F : map c_prod (s_ctls (fst (sys_run expf logf pr activate x0 (engine_protocol lg)))) = map c_prod (s_ctls x0)).
      { apply (f_equal (map fst)) in D. unfold ctl_reps in D. rewrite !map_map in D. exact D. }
      rewrite <- F. rewrite map_map. reflexivity. }
    rewrite E. apply map_ext. intro o. apply fresh_out_own_uniform.
  Qed.

  (* tie to the one-control model of wave 5 *)
  Lemma ctrl_out_fresh_capture c main_und main_u s t p j :
    ctrl_out expf logf c (init_capture main_und c s) s main_u t p j = cv_value_given expf logf c main_und main_u s (uses_log s) t p j.
  Proof.
    unfold ctrl_out, init_capture, cv_value_given, captured_value, ctrl_flag, captured_rep.
    destruct (same_class (p_und c) main_und); reflexivity.
  Qed.
End PP.

(* F-C17-17, ORIGINAL code (before 09f959e): a Spot control initialised under the identity representation and then switched to LOG was
   valued with the identity function (np.exp played by x -> 2x: 3), the repaired code looks the binding up at call time (6) -- and the
   whole sequence initialisation; update(LOG) everywhere; process now gives the fresh value *)
Lemma stale_capture_before_repair :
  let expf := fun x : Q => 2 * x in
  let logf := fun x : Q => x / 2 in
  let pr := {| p_und := UAsian; p_pay := PForward 0; p_notional := 1 |} in
  let ctrl := {| p_und := USpot; p_pay := PForward 0; p_notional := 1 |} in
  let s_log := {| barrier_event := false; uses_log := true |} in
  let go := SProcess [0; 1] [0; 0] [1; 3] [0; 0] in
  ctrl_out_orig expf logf ctrl (CapOwn false) s_log UErr [0; 1] [1; 3] [0; 0] = OutV (3 # 1)
  /\ ctrl_out expf logf ctrl (CapOwn false) s_log UErr [0; 1] [1; 3] [0; 0] = OutV (6 # 1)
  /\ map po_ctrl (last (snd (sys_run expf logf pr false (sys0 [ctrl]) [SInit; SUpdateMain true; SUpdateCtrls true; SUpdatePath true; go])) [])
     = [[OutV (6 # 1)]]
  /\ map po_ctrl (fresh_out expf logf pr [ctrl] true false go) = [[OutV (6 # 1)]].
Proof. vm_compute. repeat split. Qed.

(* Proofs for C17: static identities of the (py2coq-generated) payoff formulas, properties of the
   hand-modelled underlyings, history-freeness of the product-object state machine. *)
From Coq Require Import ZArith QArith Qminmax Qabs Bool List Lqa Lia Sorted Permutation.
From RV Require Import Base.QB Gen.GenC17Payoff Model.Payoff.
Import ListNotations.
Open Scope Q_scope.

Ltac qcases := unfold Qmaxb, Qminb, Qltb in *;
  repeat match goal with
  | |- context [Qle_bool ?a ?b] =>
      let E := fresh "E" in destruct (Qle_bool a b) eqn:E; [apply Qle_bool_iff in E | apply Qle_bool_false in E]
  end; simpl negb; cbv iota.

(* ------------------------------------------------------------------ static identities *)
Lemma parity k u : vanilla_eval 1 k u - vanilla_eval (-1 # 1) k u == forward_eval k u.
Proof. unfold vanilla_eval, forward_eval. qcases; lra. Qed.

Lemma spread k1 k2 u : k1 <= k2 ->
  callspread_eval k1 k2 u == vanilla_eval 1 k1 u - vanilla_eval 1 k2 u /\ 0 <= callspread_eval k1 k2 u.
Proof. intro H. unfold callspread_eval, vanilla_eval. split; qcases; lra. Qed.

Lemma butterfly_eq k1 k2 k3 u :
  butterfly_eval k1 k2 k3 u == vanilla_eval 1 k1 u - 2 * vanilla_eval 1 k2 u + vanilla_eval 1 k3 u.
Proof. unfold butterfly_eval, vanilla_eval. qcases; lra. Qed.

Lemma butterfly_nonneg k1 k2 k3 u : k1 <= k2 -> k1 + k3 <= 2 * k2 -> 0 <= butterfly_eval k1 k2 k3 u.
Proof. intros. unfold butterfly_eval. qcases; lra. Qed.

(* the constructor only requires k1 < k2 < k3: with the middle strike below the mid-point the
   1:-2:1 combination is negative above k3 *)
Lemma butterfly_negative : exists k1 k2 k3 u, k1 < k2 /\ k2 < k3 /\ butterfly_eval k1 k2 k3 u < 0.
Proof. exists 0, 1, (10 # 1), (20 # 1). repeat split; vm_compute; reflexivity. Qed.

(* ... and that is the only way: below the mid-point condition some underlying gives a negative value *)
Lemma butterfly_nonneg_iff k1 k2 k3 : k1 <= k2 -> k2 <= k3 ->
  ((forall u, 0 <= butterfly_eval k1 k2 k3 u) <-> k1 + k3 <= 2 * k2).
Proof.
  intros H12 H23. split.
  - intro H. specialize (H k3). unfold butterfly_eval in H. revert H. qcases; lra.
  - intros H u. apply butterfly_nonneg; assumption.
Qed.

Lemma digital_sum k u : digital_eval true k u + digital_eval false k u == 1.
Proof. unfold digital_eval. qcases; lra. Qed.

Lemma in_out_formula ev cp k u : knockin_eval ev cp k u + knockout_eval ev cp k u == vanilla_eval cp k u.
Proof. unfold knockin_eval, knockout_eval. destruct ev; lra. Qed.

Lemma notional_linear n1 n2 a f u :
  product_call (a * n1) f u == a * product_call n1 f u /\
  product_call (n1 + n2) f u == product_call n1 f u + product_call n2 f u.
Proof. unfold product_call. split; ring. Qed.

(* ------------------------------------------------------------------ Asian average *)
Fixpoint nondecr_from (lt : Q) (ts : list Q) : Prop :=
  match ts with [] => True | t :: r => lt <= t /\ nondecr_from t r end.

Section Rep.
  Variable expf logf : Q -> Q.

  Lemma last_cons : forall (r : list Q) t d, last (t :: r) d = last r t.
  Proof.
    induction r as [|x r IH]; intros t d; [reflexivity|].
    change (last (x :: r) d = last (x :: r) t). rewrite !IH. reflexivity.
  Qed.

  Lemma asian_acc_fst lg : forall times path lt res, (length times <= length path)%nat ->
    fst (asian_acc expf lg (combine times path) lt res) = last times lt.
  Proof.
    induction times as [|t r IH]; intros path lt res Hl; [reflexivity|].
    destruct path as [|v p]; [simpl in Hl; lia|].
    cbn [combine asian_acc]. rewrite IH by (simpl in Hl; lia). symmetry. apply last_cons.
  Qed.

  Lemma asian_acc_bounds lg m M : forall times path lt res,
    (forall v, In v path -> m <= spot_of expf lg v <= M) ->
    nondecr_from lt times -> m * lt <= res <= M * lt ->
    let lr := asian_acc expf lg (combine times path) lt res in
    m * fst lr <= snd lr <= M * fst lr.
  Proof.
    induction times as [|t r IH]; intros path lt res Hv Hs Hb; simpl; [assumption|].
    destruct path as [|v p]; simpl; [assumption|].
    destruct Hs as [Hlt Hs]. apply IH; [intros; apply Hv; right; assumption | assumption |].
    specialize (Hv v (or_introl eq_refl)). nra.
  Qed.

  (* C17_average_between_extremes *)
  Lemma asian_between lg m M times path :
    length times = length path -> nondecr_from 0 times -> 0 < last times 0 ->
    (forall v, In v path -> m <= spot_of expf lg v <= M) ->
    m <= asian_value expf lg times path <= M.
  Proof.
    intros Hl Hs Hpos Hv. unfold asian_value.
    pose proof (asian_acc_bounds lg m M times path 0 0 Hv Hs ltac:(lra)) as Hb.
    pose proof (asian_acc_fst lg times path 0 0 ltac:(lia)) as Hf.
    cbv zeta in Hb. rewrite Hf in *. split.
    - apply Qle_shift_div_l; [assumption|]. lra.
    - apply Qle_shift_div_r; [assumption|]. lra.
  Qed.

  (* under the hypotheses the Python code returns a number (no nan / ZeroDivisionError), and that number is asian_value *)
  Lemma asian_defined lg times path : length times = length path -> 0 < last times 0 ->
    asian_uval expf lg times path = UFin (asian_value expf lg times path).
  Proof.
    intros Hl Hpos. unfold asian_uval. rewrite (asian_acc_fst lg times path 0 0) by lia.
    destruct (Qeq_bool (last times 0) 0) eqn:E; [|reflexivity].
    apply Qeq_bool_iff in E. lra.
  Qed.

  (* identity and LOG representation agree when np.exp inverts np.log on the path's spots *)
  Lemma asian_acc_rep : forall times path lt res res',
    (forall v, In v path -> expf (logf v) == v) -> res == res' ->
    fst (asian_acc expf true (combine times (map logf path)) lt res) = fst (asian_acc expf false (combine times path) lt res')
    /\ snd (asian_acc expf true (combine times (map logf path)) lt res) == snd (asian_acc expf false (combine times path) lt res').
  Proof.
    induction times as [|t r IH]; intros path lt res res' Hv He; simpl; [split; [reflexivity|assumption]|].
    destruct path as [|v p]; simpl; [split; [reflexivity|assumption]|].
    apply IH; [intros; apply Hv; right; assumption|].
    rewrite (Hv v (or_introl eq_refl)), He. reflexivity.
  Qed.

  Lemma last_map (f : Q -> Q) : forall l d, l <> [] -> last (map f l) d = f (last l d).
  Proof.
    induction l as [|x r IH]; intros d H; [congruence|].
    destruct r as [|y r']; [reflexivity|].
    change (last (map f (y :: r')) d = f (last (y :: r') d)). apply IH. discriminate.
  Qed.

  Lemma last_In : forall (l : list Q) d, l <> [] -> In (last l d) l.
  Proof.
    induction l as [|x r IH]; intros d H; [congruence|].
    destruct r as [|y r']; [left; reflexivity|].
    right. change (In (last (y :: r') d) (y :: r')). apply IH. discriminate.
  Qed.

  (* C17_rep_agree *)
  Lemma rep_agree times path : path <> [] -> (forall v, In v path -> expf (logf v) == v) ->
    spot_value expf true (map logf path) == spot_value expf false path /\
    asian_value expf true times (map logf path) == asian_value expf false times path.
  Proof.
    intros Hne Hv. split.
    - unfold spot_value, spot_of, lastq. rewrite last_map by assumption. apply Hv, last_In; assumption.
    - unfold asian_value.
      destruct (asian_acc_rep times path 0 0 0 Hv ltac:(reflexivity)) as [Hf Hs].
      rewrite Hf, Hs. reflexivity.
  Qed.
End Rep.

(* ------------------------------------------------------------------ default times *)
Lemma first_below_spec a : forall d i0,
  match first_below a d i0 with
  | Some i => exists j, i = (i0 + j)%nat /\ (j < length d)%nat /\ nth j d 0 < a /\ forall j', (j' < j)%nat -> a <= nth j' d 0
  | None => forall x, In x d -> a <= x
  end.
Proof.
  induction d as [|x r IH]; intro i0; simpl; [intros ? []|].
  destruct (Qltb x a) eqn:E.
  - apply Qltb_lt in E. exists 0%nat. repeat split; [lia | lia | assumption | intros; lia].
  - apply Qltb_false in E. specialize (IH (S i0)). destruct (first_below a r (S i0)).
    + destruct IH as [j [Hi [Hl [Hn Hb]]]]. exists (S j). repeat split; [lia | lia | assumption |].
      intros [|j'] Hj; [assumption | apply Hb; lia].
    + intros y [<-|Hy]; [assumption | apply IH; assumption].
Qed.

Lemma diffq_nth : forall l i, (S i < length l)%nat -> nth i (diffq l) 0 = nth (S i) l 0 - nth i l 0.
Proof.
  induction l as [|x r IH]; intros i H; simpl in H; [lia|].
  destruct r as [|y r']; simpl in H; [lia|].
  destruct i as [|i]; [reflexivity|].
  change (nth i (diffq (y :: r')) 0 = nth (S i) (y :: r') 0 - nth i (y :: r') 0).
  apply IH. simpl. lia.
Qed.

Lemma diffq_length : forall l, length (diffq l) = pred (length l).
Proof.
  induction l as [|x r IH]; [reflexivity|]. destruct r as [|y r']; [reflexivity|].
  change (S (length (diffq (y :: r'))) = length (y :: r')). rewrite IH. reflexivity.
Qed.

(* C17_default_time_first: the default time is the time of the FIRST log-jump below the level *)
Lemma default_time_first a times jumps :
  match default_time_log a times jumps with
  | UFin t => exists i, (S i < length jumps)%nat /\ t = nth (S i) times 0 /\
                        nth (S i) jumps 0 - nth i jumps 0 < a /\
                        forall j, (j < i)%nat -> a <= nth (S j) jumps 0 - nth j jumps 0
  | UInf => forall i, (S i < length jumps)%nat -> a <= nth (S i) jumps 0 - nth i jumps 0
  | UErr => False
  end.
Proof.
  unfold default_time_log. pose proof (first_below_spec a (diffq jumps) 0) as H.
  destruct (first_below a (diffq jumps) 0) as [i|].
  - destruct H as [j [Hi [Hl [Hn Hb]]]]. simpl in Hi. subst i. rewrite diffq_length in Hl.
    exists j. assert (S j < length jumps)%nat by lia. repeat split; try assumption.
    + rewrite <- diffq_nth; assumption.
    + intros j' Hj. rewrite <- diffq_nth by lia. apply Hb; assumption.
  - intros i Hi. rewrite <- diffq_nth by assumption. apply H, nth_In. rewrite diffq_length. lia.
Qed.

(* ------------------------------------------------------------------ n-th default *)
Lemma uval_leb_le x y : uval_leb x y = true -> uval_le x y.
Proof. destruct x, y; simpl; auto; try discriminate. apply Qle_bool_iff. Qed.
Lemma uval_leb_false x y : uval_leb x y = false -> uval_le y x.
Proof. destruct x, y; simpl; auto; try discriminate. intro H. apply Qle_bool_false in H. lra. Qed.
Lemma uval_le_trans x y z : uval_le x y -> uval_le y z -> uval_le x z.
Proof. destruct x, y, z; simpl; auto; try tauto. apply Qle_trans. Qed.

Lemma uval_insert_perm x : forall l, Permutation (uval_insert x l) (x :: l).
Proof.
  induction l as [|y r IH]; simpl; [reflexivity|].
  destruct (uval_leb x y); [reflexivity|]. rewrite IH. apply perm_swap.
Qed.

Lemma uval_sort_perm : forall l, Permutation (uval_sort l) l.
Proof.
  induction l as [|x r IH]; simpl; [reflexivity|].
  rewrite uval_insert_perm. constructor. assumption.
Qed.

Lemma uval_insert_sorted x : forall l, Sorted uval_le l -> Sorted uval_le (uval_insert x l).
Proof.
  induction l as [|y r IH]; intro H; simpl; [repeat constructor|].
  destruct (uval_leb x y) eqn:E.
  - constructor; [assumption|]. constructor. apply uval_leb_le; assumption.
  - inversion H as [|? ? Hr Hhd]; subst. constructor; [apply IH; assumption|].
    apply uval_leb_false in E.
    destruct r as [|z r']; simpl; [constructor; assumption|].
    destruct (uval_leb x z); constructor; [assumption|]. inversion Hhd; assumption.
Qed.

Lemma uval_sort_sorted : forall l, Sorted uval_le (uval_sort l).
Proof. induction l; simpl; [constructor | apply uval_insert_sorted; assumption]. Qed.

Lemma sorted_nth_S : forall l k, Sorted uval_le l -> uval_le (nth k l UErr) (nth (S k) l UErr).
Proof.
  induction l as [|x r IH]; intros k H; [destruct k; exact I|].
  inversion H as [|? ? Hr Hhd]; subst.
  destruct k as [|k].
  - simpl. destruct r as [|y r']; [destruct x; exact I|]. inversion Hhd; assumption.
  - change (uval_le (nth k r UErr) (nth (S k) r UErr)). apply IH; assumption.
Qed.

(* C17_nth_default_monotone (+ the value is the (k+1)-th smallest of the individual default times) *)
Lemma nth_default_monotone k levels times jumps :
  uval_le (nth_default_log k levels times jumps) (nth_default_log (S k) levels times jumps).
Proof. unfold nth_default_log. apply sorted_nth_S, uval_sort_sorted. Qed.

Lemma nth_default_out_of_range k levels times jumps :
  (length (default_times_log levels times jumps) <= k)%nat -> nth_default_log k levels times jumps = UErr.
Proof.
  intro H. unfold nth_default_log. apply nth_overflow.
  rewrite (Permutation_length (uval_sort_perm _)). assumption.
Qed.

Lemma default_time_log_not_err a times jumps : default_time_log a times jumps <> UErr.
Proof. unfold default_time_log. destruct (first_below a (diffq jumps) 0); discriminate. Qed.

(* in range (n at most the number of names) the n-th default is a time or +inf: the code does not raise *)
Lemma nth_default_in_range k levels times jumps :
  (k < length (default_times_log levels times jumps))%nat -> nth_default_log k levels times jumps <> UErr.
Proof.
  intros Hk Hc. unfold nth_default_log in Hc.
  assert (Hin : In UErr (uval_sort (default_times_log levels times jumps))).
  { rewrite <- Hc. apply nth_In. rewrite (Permutation_length (uval_sort_perm _)). assumption. }
  apply (Permutation_in _ (uval_sort_perm _)) in Hin. unfold default_times_log in Hin.
  apply in_map_iff in Hin. destruct Hin as [ar [Hd _]]. exact (default_time_log_not_err _ _ _ Hd).
Qed.

Lemma nth_default_order_statistic levels times jumps :
  let dts := default_times_log levels times jumps in
  Permutation (uval_sort dts) dts /\ Sorted uval_le (uval_sort dts) /\
  forall k, nth_default_log k levels times jumps = nth k (uval_sort dts) UErr.
Proof. repeat split. apply uval_sort_perm. apply uval_sort_sorted. Qed.

(* ------------------------------------------------------------------ product object: history-freeness *)
Section Machine.
  Variable expf logf : Q -> Q.
  Notation eval3 := (eval3 expf logf).
  Notation run := (run expf logf).

  Lemma eval3_state_independent pr s1 s2 lg t p j : eval3 pr s1 lg t p j = eval3 pr s2 lg t p j.
  Proof.
    unfold eval3. simpl. destruct (und_value expf logf (p_und pr) lg t p j); [|reflexivity|reflexivity].
    f_equal. simpl. destruct pr as [u pay n]; destruct pay; simpl; try reflexivity.
  Qed.

  (* C17_history_free *)
  Lemma history_free pr s0 ops1 ops2 lg t p j :
    eval3 pr (fst (run pr s0 ops1)) lg t p j = eval3 pr (fst (run pr s0 ops2)) lg t p j
    /\ eval3 pr (fst (run pr s0 ops1)) lg t p j = eval3 pr (fresh) lg t p j.
  Proof. split; apply eval3_state_independent. Qed.

  Definition call_value (o : out) : Q := match o with OutV q => q | _ => 0 end.

  (* C17_in_out at the level of product objects (any states, any representation, any underlying) *)
  Lemma in_out und n cp k down b sI sO sV lg t p j :
    let prI := {| p_und := und; p_pay := PBarrier cp k true down b; p_notional := n |} in
    let prO := {| p_und := und; p_pay := PBarrier cp k false down b; p_notional := n |} in
    let prV := {| p_und := und; p_pay := PVanilla cp k; p_notional := n |} in
    call_value (snd (eval3 prI sI lg t p j)) + call_value (snd (eval3 prO sO lg t p j))
    == call_value (snd (eval3 prV sV lg t p j)).
  Proof.
    unfold eval3. simpl. destruct (und_value expf logf und lg t p j); simpl; [|lra|lra].
    unfold product_call. cbn [payoff_eval].
    match goal with |- context [knockin_eval ?e _ _ _] => rewrite <- (in_out_formula e cp k q) end. ring.
  Qed.

  (* payoff formulas respect == of the underlying *)
  Lemma payoff_eval_proper pay ev u u' : u == u' -> payoff_eval pay ev u == payoff_eval pay ev u'.
  Proof.
    intro E. destruct pay; cbn [payoff_eval].
    - unfold forward_eval. rewrite E. reflexivity.
    - unfold vanilla_eval. assert (Em : cp * (u - k) == cp * (u' - k)) by (rewrite E; reflexivity).
      set (a := cp * (u - k)) in *. set (b := cp * (u' - k)) in *. qcases; lra.
    - unfold callspread_eval. qcases; lra.
    - unfold butterfly_eval. qcases; lra.
    - unfold digital_eval. destruct is_call; qcases; lra.
    - assert (Ev : vanilla_eval cp k u == vanilla_eval cp k u').
      { unfold vanilla_eval. assert (Em : cp * (u - k) == cp * (u' - k)) by (rewrite E; reflexivity).
        set (a := cp * (u - k)) in *. set (b := cp * (u' - k)) in *. qcases; lra. }
      destruct knock_in; unfold knockin_eval, knockout_eval; destruct ev; try reflexivity; assumption.
  Qed.

  Lemma Qltb_proper_l x x' y : x == x' -> Qltb x y = Qltb x' y.
  Proof.
    intro E. unfold Qltb. f_equal. destruct (Qle_bool y x) eqn:E1, (Qle_bool y x') eqn:E2; try reflexivity.
    - apply Qle_bool_iff in E1. apply Qle_bool_false in E2. lra.
    - apply Qle_bool_false in E1. apply Qle_bool_iff in E2. lra.
  Qed.
  Lemma Qltb_proper_r x y y' : y == y' -> Qltb x y = Qltb x y'.
  Proof.
    intro E. unfold Qltb. f_equal. destruct (Qle_bool y x) eqn:E1, (Qle_bool y' x) eqn:E2; try reflexivity.
    - apply Qle_bool_iff in E1. apply Qle_bool_false in E2. lra.
    - apply Qle_bool_false in E1. apply Qle_bool_iff in E2. lra.
  Qed.

  Lemma crosses_rep down b : forall p, (forall v, In v p -> expf (logf v) == v) ->
    crosses down b (map expf (map logf p)) = crosses down b p.
  Proof.
    induction p as [|x r IH]; intro H; [reflexivity|].
    cbn [map crosses existsb]. unfold crosses in IH. rewrite IH by (intros; apply H; right; assumption).
    f_equal. pose proof (H x (or_introl eq_refl)) as Ex.
    destruct down; [apply Qltb_proper_l | apply Qltb_proper_r]; assumption.
  Qed.

  (* C17_rep_agree for whole products on the spot: same spot path, LOG vs identity representation (any states) *)
  Lemma product_rep_agree pay n s s' t p j j' : p <> [] -> (forall v, In v p -> expf (logf v) == v) ->
    let pr := {| p_und := USpot; p_pay := pay; p_notional := n |} in
    call_value (snd (eval3 pr s true t (map logf p) j)) == call_value (snd (eval3 pr s' false t p j')).
  Proof.
    intros Hne Hv pr. unfold eval3. cbn. unfold product_call.
    assert (Eu : spot_value expf true (map logf p) == spot_value expf false p).
    { unfold spot_value, spot_of, lastq. rewrite last_map by assumption. apply Hv, last_In; assumption. }
    assert (Eev : payoff_process pay (map expf (map logf p)) (barrier_event s) = payoff_process pay p (barrier_event s')
                  \/ forall ev ev' u, payoff_eval pay ev u = payoff_eval pay ev' u).
    { destruct pay; try (right; intros; reflexivity). left. cbn [payoff_process]. apply crosses_rep; assumption. }
    destruct Eev as [Eev | Eind].
    - rewrite Eev. rewrite (payoff_eval_proper pay _ _ _ Eu). reflexivity.
    - rewrite (Eind _ (payoff_process pay p (barrier_event s'))). rewrite (payoff_eval_proper pay _ _ _ Eu). reflexivity.
  Qed.

  (* 'must succeed': under the stated hypotheses the underlying is a number (or +inf for a default time), never the error
     value, and then the observation really ends in a payoff value OutV - the identities above are not about the 0 + 0 == 0 of
     an error branch *)
  Lemma und_value_succeeds und lg t p j :
    match und with
    | USpot | ULogSpot => True
    | UAsian => length t = length p /\ 0 < last t 0
    | UDefaultTime _ => True
    end -> und_value expf logf und lg t p j <> UErr.
  Proof.
    destruct und; cbn [und_value]; intros H; try discriminate.
    - destruct H as [Hl Hp]. rewrite (asian_defined expf lg t p Hl Hp). discriminate.
    - unfold default_time. apply default_time_log_not_err.
  Qed.

  Lemma eval3_succeeds pr s lg t p j q : und_value expf logf (p_und pr) lg t p j = UFin q ->
    exists v, snd (eval3 pr s lg t p j) = OutV v.
  Proof. intro H. unfold Payoff.eval3. simpl. rewrite H. simpl. eexists. reflexivity. Qed.
End Machine.

(* Proofs for C17, wave 5: the payoffs / underlyings that were never instantiated -- Rainbow, CDS, Bond, Cap, Swaption
   (py2coq-generated bodies, Gen/GenC17Exotic.v), Ratchet, Mean, Performances, MaximumOfPerformances, NthSpot, Indicators and
   vector (d x n) paths (hand models, Model/PayoffExt.v). *)
From Coq Require Import ZArith QArith Qminmax Qabs Bool List Lqa Lia Sorted Permutation.
From RV Require Import Base.QB Model.PayoffVec Gen.GenC17Payoff Gen.GenC17Exotic Model.Payoff Model.PayoffExt Proofs.C17_Payoff.
Import ListNotations.
Open Scope Q_scope.


(* ------------------------------------------------------------------ lists of Q up to == *)
Notation qeql := (Forall2 Qeq).

Lemma qeql_refl : forall l, qeql l l.
Proof. induction l; constructor; [reflexivity | assumption]. Qed.
Lemma qeql_trans : forall a b c, qeql a b -> qeql b c -> qeql a c.
Proof.
  intros a b c H; revert c. induction H; intros c Hc; inversion Hc; subst; constructor.
  - etransitivity; eassumption.
  - apply IHForall2; assumption.
Qed.
Lemma qeql_length : forall a b, qeql a b -> length a = length b.
Proof. intros a b H; induction H; simpl; congruence. Qed.

Lemma Qle_bool_proper_r x y y' : y == y' -> Qle_bool x y = Qle_bool x y'.
Proof.
  intro E. destruct (Qle_bool x y) eqn:E1, (Qle_bool x y') eqn:E2; try reflexivity.
  - apply Qle_bool_iff in E1. apply Qle_bool_false in E2. lra.
  - apply Qle_bool_false in E1. apply Qle_bool_iff in E2. lra.
Qed.
Lemma Qle_bool_proper_l x x' y : x == x' -> Qle_bool x y = Qle_bool x' y.
Proof.
  intro E. destruct (Qle_bool x y) eqn:E1, (Qle_bool x' y) eqn:E2; try reflexivity.
  - apply Qle_bool_iff in E1. apply Qle_bool_false in E2. lra.
  - apply Qle_bool_false in E1. apply Qle_bool_iff in E2. lra.
Qed.

(* ------------------------------------------------------------------ np.sort *)
Lemma qinsert_perm x : forall l, Permutation (qinsert x l) (x :: l).
Proof.
  induction l as [|y r IH]; simpl; [reflexivity|].
  destruct (Qle_bool x y); [reflexivity|]. rewrite IH. apply perm_swap.
Qed.
Lemma qsort_perm : forall l, Permutation (qsort l) l.
Proof. induction l as [|x r IH]; simpl; [reflexivity|]. rewrite qinsert_perm. constructor. assumption. Qed.

Lemma qinsert_sorted x : forall l, Sorted Qle l -> Sorted Qle (qinsert x l).
Proof.
  induction l as [|y r IH]; intro H; simpl; [repeat constructor|].
  destruct (Qle_bool x y) eqn:E.
  - constructor; [assumption|]. constructor. apply Qle_bool_iff; assumption.
  - inversion H as [|? ? Hr Hhd]; subst. constructor; [apply IH; assumption|].
    apply Qle_bool_false in E.
    destruct r as [|z r']; simpl; [constructor; lra|].
    destruct (Qle_bool x z); constructor; [lra|]. inversion Hhd; assumption.
Qed.
Lemma qsort_sorted : forall l, Sorted Qle (qsort l).
Proof. induction l; simpl; [constructor | apply qinsert_sorted; assumption]. Qed.

Lemma qinsert_proper x x' : x == x' -> forall l l', qeql l l' -> qeql (qinsert x l) (qinsert x' l').
Proof.
  intros Ex l l' H. induction H as [|y y' r r' Ey Hr IH]; simpl; [repeat constructor; assumption|].
  rewrite (Qle_bool_proper_r x y y' Ey), (Qle_bool_proper_l x x' y' Ex).
  destruct (Qle_bool x' y'); repeat constructor; assumption.
Qed.

Ltac qle_destruct := repeat match goal with
  | |- context [Qle_bool ?a ?b] =>
      let E := fresh "E" in destruct (Qle_bool a b) eqn:E; [apply Qle_bool_iff in E | apply Qle_bool_false in E]; simpl
  end.

Lemma qinsert_swap x y : forall s, qeql (qinsert x (qinsert y s)) (qinsert y (qinsert x s)).
Proof.
  induction s as [|z s IH]; simpl; qle_destruct; try (exfalso; lra);
    repeat (apply Forall2_cons; [lra|]); try apply qeql_refl; try apply IH; try apply Forall2_nil.
Qed.

Lemma qsort_perm_eq : forall u u', Permutation u u' -> qeql (qsort u) (qsort u').
Proof.
  intros u u' H. induction H; simpl.
  - constructor.
  - apply qinsert_proper; [reflexivity | assumption].
  - apply qinsert_swap.
  - eapply qeql_trans; eassumption.
Qed.

Lemma dotq_proper w : forall x x', qeql x x' -> dotq w x == dotq w x'.
Proof.
  induction w as [|a w IH]; intros x x' H; [reflexivity|].
  inversion H; subst; simpl; [reflexivity|]. rewrite (IH _ _ H1). rewrite H0. reflexivity.
Qed.

Lemma dotq_bounds m M : forall w x, length w = length x -> (forall a, In a w -> 0 <= a) -> (forall v, In v x -> m <= v <= M) ->
  m * qsum w <= dotq w x <= M * qsum w.
Proof.
  induction w as [|a w IH]; intros [|v x] Hl Hw Hx; simpl in *; try lia; [lra|].
  assert (Ha := Hw a (or_introl eq_refl)). assert (Hv := Hx v (or_introl eq_refl)).
  destruct (IH x) as [I1 I2]; [lia | intros; apply Hw; right; assumption | intros; apply Hx; right; assumption |].
  split; nra.
Qed.

(* ------------------------------------------------------------------ Rainbow *)
Lemma rainbow_parity w k u : rainbow_eval 1 w k u - rainbow_eval (-1 # 1) w k u == dotq w (qsort u) - k.
Proof. unfold rainbow_eval. cbv zeta. set (x := dotq w (qsort u)). qcases; lra. Qed.

Lemma rainbow_symmetric eps w k u u' : Permutation u u' -> rainbow_eval eps w k u == rainbow_eval eps w k u'.
Proof.
  intro H. unfold rainbow_eval. cbv zeta.
  pose proof (dotq_proper w _ _ (qsort_perm_eq _ _ H)) as E.
  set (x := dotq w (qsort u)) in *. set (x' := dotq w (qsort u')) in *.
  assert (Em : eps * (x - k) == eps * (x' - k)) by (rewrite E; reflexivity).
  set (a := eps * (x - k)) in *. set (b := eps * (x' - k)) in *. qcases; lra.
Qed.

Lemma rainbow_between m M w u : length w = length u -> (forall a, In a w -> 0 <= a) -> qsum w == 1 ->
  (forall v, In v u -> m <= v <= M) -> m <= dotq w (qsort u) <= M.
Proof.
  intros Hl Hw Hs Hu.
  destruct (dotq_bounds m M w (qsort u)) as [H1 H2]; try assumption.
  - rewrite (Permutation_length (qsort_perm u)). assumption.
  - intros v Hv. apply Hu. apply (Permutation_in _ (qsort_perm u)). assumption.
  - rewrite Hs in *. lra.
Qed.


(* ------------------------------------------------------------------ rates payoffs *)
Lemma qprod_pos : forall l, (forall a, In a l -> 0 < a) -> 0 < qprod l.
Proof.
  induction l as [|a l IH]; intro H; simpl; [lra|].
  assert (0 < a) by (apply H; left; reflexivity).
  assert (0 < qprod l) by (apply IH; intros; apply H; right; assumption). nra.
Qed.

Lemma bond_inception deltas L0 : ~ qprod (accruals deltas L0) == 0 ->
  bond_eval deltas (1 / qprod (accruals deltas L0)) L0 == 1.
Proof. intro H. unfold bond_eval. cbv zeta. field. assumption. Qed.

Lemma bond_positive deltas L0 L : (forall a, In a (accruals deltas L0) -> 0 < a) -> (forall a, In a (accruals deltas L) -> 0 < a) ->
  0 < bond_eval deltas (1 / qprod (accruals deltas L0)) L.
Proof.
  intros H0 H. unfold bond_eval. cbv zeta. pose proof (qprod_pos _ H0). pose proof (qprod_pos _ H).
  assert (0 < 1 / qprod (accruals deltas L0)) by (apply Qlt_shift_div_l; lra). nra.
Qed.

Lemma cumprod_from_pos : forall l acc, 0 < acc -> (forall a, In a l -> 0 < a) -> forall c, In c (cumprod_from acc l) -> 0 < c.
Proof.
  induction l as [|x l IH]; intros acc Ha H c Hc; simpl in Hc; [contradiction|].
  assert (0 < x) by (apply H; left; reflexivity). assert (0 < acc * x) by nra.
  destruct Hc as [<-|Hc]; [assumption|]. eapply IH; [| |eassumption]; [assumption | intros; apply H; right; assumption].
Qed.

Lemma qsum_nonneg : forall l, (forall a, In a l -> 0 <= a) -> 0 <= qsum l.
Proof.
  induction l as [|a l IH]; intro H; simpl; [lra|].
  assert (0 <= a) by (apply H; left; reflexivity).
  assert (0 <= qsum l) by (apply IH; intros; apply H; right; assumption). lra.
Qed.

Lemma cap_terms_nonneg strike : forall deltas rates adj, (forall d, In d deltas -> 0 <= d) -> (forall a, In a adj -> 0 <= a) ->
  forall c, In c (cap_terms deltas strike rates adj) -> 0 <= c.
Proof.
  induction deltas as [|d ds IH]; intros [|l ls] [|a r] Hd Ha c Hc; simpl in Hc; try contradiction.
  assert (0 <= d) by (apply Hd; left; reflexivity). assert (0 <= a) by (apply Ha; left; reflexivity).
  destruct Hc as [<-|Hc].
  - assert (0 <= Qmaxb (l - strike) 0) by (qcases; lra). apply Qmult_le_0_compat; [apply Qmult_le_0_compat|]; assumption.
  - eapply IH; [| |eassumption]; intros; [apply Hd | apply Ha]; right; assumption.
Qed.

Lemma cap_nonneg deltas strike factor L : 0 <= factor -> (forall d, In d deltas -> 0 <= d) ->
  (forall a, In a (accruals deltas L) -> 0 < a) -> 0 <= cap_eval deltas strike factor L.
Proof.
  intros Hf Hd Ha. unfold cap_eval. cbv zeta.
  assert (0 <= qsum (cap_terms deltas strike L (rev (cumprod (accruals deltas L))))).
  { apply qsum_nonneg. apply cap_terms_nonneg; [assumption|].
    intros a Hin. apply in_rev in Hin. apply Qlt_le_weak. eapply cumprod_from_pos; [| |exact Hin]; [lra | assumption]. }
  nra.
Qed.

Lemma cap_terms_zero strike : forall deltas rates adj, (forall l, In l rates -> l <= strike) ->
  qsum (cap_terms deltas strike rates adj) == 0.
Proof.
  induction deltas as [|d ds IH]; intros [|l ls] [|a r] H; simpl; try reflexivity.
  assert (l <= strike) by (apply H; left; reflexivity).
  rewrite IH by (intros; apply H; right; assumption).
  assert (E : Qmaxb (l - strike) 0 == 0) by (qcases; lra). rewrite E. ring.
Qed.

Lemma cap_out_of_the_money deltas strike factor L : (forall l, In l L -> l <= strike) -> cap_eval deltas strike factor L == 0.
Proof. intro H. unfold cap_eval. cbv zeta. rewrite cap_terms_zero by assumption. ring. Qed.

Definition swap_value (deltas : list Q) (strike : Q) (L : list Q) : Q :=
  let aux := cumprod (accruals deltas L) in last aux 0 - 1 - strike * dotq deltas (rev aux).

Lemma swaption_parity deltas strike factor L :
  swaption_eval 1 deltas strike factor L - swaption_eval (-1 # 1) deltas strike factor L == factor * swap_value deltas strike L
  /\ (0 <= factor -> 0 <= swaption_eval 1 deltas strike factor L /\ 0 <= swaption_eval (-1 # 1) deltas strike factor L).
Proof.
  unfold swaption_eval, swap_value. cbv zeta.
  set (x := last (cumprod (accruals deltas L)) 0 - 1 - strike * dotq deltas (rev (cumprod (accruals deltas L)))).
  assert (Hd : Qmaxb (1 * x) 0 - Qmaxb ((-1 # 1) * x) 0 == x) by (qcases; lra).
  assert (H1 : 0 <= Qmaxb (1 * x) 0) by (qcases; lra).
  assert (H2 : 0 <= Qmaxb ((-1 # 1) * x) 0) by (qcases; lra).
  split; [|intro Hf; split; apply Qmult_le_0_compat; assumption].
  setoid_replace (Qmaxb (1 * x) 0 * factor - Qmaxb ((-1 # 1) * x) 0 * factor) with ((Qmaxb (1 * x) 0 - Qmaxb ((-1 # 1) * x) 0) * factor) by ring.
  rewrite Hd. ring.
Qed.

(* ------------------------------------------------------------------ Ratchet *)
Fixpoint ratchet_chain (incr c_prev : Q) (cs : list Q) : Prop :=
  match cs with [] => True | c :: r => c_prev <= c <= c_prev + incr /\ ratchet_chain incr c r end.

Lemma ratchet_coupons_chain spread incr : 0 <= incr -> forall rates deltas c_prev,
  ratchet_chain incr c_prev (ratchet_coupons spread incr c_prev rates deltas).
Proof.
  intro Hi. induction rates as [|l rs IH]; intros [|d ds] c_prev; simpl; try exact I.
  split; [|apply IH]. qcases; lra.
Qed.

Lemma ratchet_coupons_length spread incr : forall rates deltas c_prev, length rates = length deltas ->
  length (ratchet_coupons spread incr c_prev rates deltas) = length rates.
Proof. induction rates as [|l rs IH]; intros [|d ds] c H; simpl in *; try lia. rewrite IH; lia. Qed.

(* the coupon IS delta * (libor + spread) whenever that lies in the corridor [c_prev, c_prev + incr] *)
Lemma ratchet_coupon_inside spread incr c_prev l d rs ds : c_prev <= d * (l + spread) <= c_prev + incr ->
  nth 0 (ratchet_coupons spread incr c_prev (l :: rs) (d :: ds)) 0 == d * (l + spread).
Proof.
  intro H. cbn [nth ratchet_coupons]. set (h := d * (l + spread)) in *.
  assert (E : Qmaxb h c_prev == h) by (qcases; lra).
  unfold Qminb. destruct (Qle_bool (Qmaxb h c_prev) (c_prev + incr)) eqn:E2; [assumption|].
  apply Qle_bool_false in E2. lra.
Qed.

(* ------------------------------------------------------------------ CDS *)
Lemma cds_flat_after_maturity R s T r dfT df t : T < t -> cds_eval R s T r dfT df t = cds_inf s T r dfT df.
Proof.
  intro H. unfold cds_eval, cds_inf. cbv zeta.
  assert (E1 : Qltb T t = true) by (apply Qltb_lt; assumption). rewrite E1.
  assert (E2 : Qminb T t = T). { unfold Qminb. assert (Qle_bool T t = true) as -> by (apply Qle_bool_iff; lra). reflexivity. }
  rewrite E2. reflexivity.
Qed.

Lemma cds_before_maturity R s T r dfT df t : (forall a b, a == b -> df a == df b) -> t <= T ->
  cds_eval R s T r dfT df t == ((1 - R) * df t) / dfT - ((s * (1 - df t)) / r) / dfT.
Proof.
  intros Hdf H. unfold cds_eval. cbv zeta.
  assert (E1 : Qltb T t = false) by (apply Qltb_false; assumption). rewrite E1.
  unfold Qminb. destruct (Qle_bool T t) eqn:E; [|reflexivity].
  apply Qle_bool_iff in E. assert (Et : df T == df t) by (apply Hdf; lra).
  rewrite Et. reflexivity.
Qed.

(* a default before maturity is never worse for the protection buyer than no default *)
Lemma cds_default_dominates R s T r dfT df t : (forall a b, a == b -> df a == df b) -> t <= T ->
  R <= 1 -> 0 <= s -> 0 < r -> 0 < dfT -> 0 <= df t -> df T <= df t ->
  cds_inf s T r dfT df <= cds_eval R s T r dfT df t.
Proof.
  intros Hdf Ht HR Hs Hr HdT H0 Hmon. rewrite (cds_before_maturity R s T r dfT df t Hdf Ht). unfold cds_inf.
  assert (Hi : 0 < / dfT) by (apply Qinv_lt_0_compat; assumption).
  assert (Hj : 0 < / r) by (apply Qinv_lt_0_compat; assumption).
  unfold Qdiv. set (i := / dfT) in *. set (j := / r) in *.
  assert (A : 0 <= (1 - R) * df t) by (apply Qmult_le_0_compat; lra).
  assert (B : 0 <= s * (df t - df T) * j) by (apply Qmult_le_0_compat; [apply Qmult_le_0_compat|]; lra).
  setoid_replace (0 * i - s * (1 - df T) * j * i) with ((0 - s * (1 - df T) * j) * i) by ring.
  setoid_replace ((1 - R) * df t * i - s * (1 - df t) * j * i) with (((1 - R) * df t - s * (1 - df t) * j) * i) by ring.
  apply Qmult_le_compat_r; [|lra].
  setoid_replace (s * (1 - df t) * j) with (s * (1 - df T) * j - s * (df t - df T) * j) by ring. lra.
Qed.


Definition uval_eq (x y : uval) : Prop :=
  match x, y with UFin a, UFin b => a == b | UInf, UInf => True | UErr, UErr => True | _, _ => False end.

Section Rep2Proofs.
  Variable expf logf : Q -> Q.
  Notation spot_vec := (spot_vec expf).

  Lemma qsum_bounds m M : forall l, (forall v, In v l -> m <= v <= M) ->
    m * inject_Z (Z.of_nat (length l)) <= qsum l <= M * inject_Z (Z.of_nat (length l)).
  Proof.
    induction l as [|a l IH]; intro H; [cbn [length qsum fold_right Z.of_nat]; change (inject_Z 0) with 0; lra|].
    assert (Ha := H a (or_introl eq_refl)). destruct IH as [I1 I2]; [intros; apply H; right; assumption|].
    cbn [length qsum fold_right]. fold (qsum l).
    rewrite Nat2Z.inj_succ, <- Z.add_1_r, inject_Z_plus. change (inject_Z 1) with 1. split; nra.
  Qed.

  (* C17_mean_between_extremes: the mean of the last spots of d >= 1 names lies between any bounds of these spots *)
  Lemma mean_between lg m M path : path <> [] -> (forall v, In v (spot_vec lg path) -> m <= v <= M) ->
    m <= mean_value expf lg path <= M /\ mean_uval expf lg path = UFin (mean_value expf lg path).
  Proof.
    intros Hne Hv. split; [|destruct path; [congruence | reflexivity]].
    unfold mean_value. pose proof (qsum_bounds m M _ Hv) as [H1 H2].
    unfold PayoffExt.spot_vec, lasts in H1, H2. rewrite !map_length in H1, H2.
    assert (Hn : 0 < inject_Z (Z.of_nat (length path))).
    { destruct path; [congruence|]. simpl length. rewrite Nat2Z.inj_succ, <- Z.add_1_r, inject_Z_plus.
      assert (0 <= inject_Z (Z.of_nat (length path))) by (change 0 with (inject_Z 0); rewrite <- Zle_Qle; lia).
      change (inject_Z 1) with 1. lra. }
    split; [apply Qle_shift_div_l | apply Qle_shift_div_r]; assumption.
  Qed.

  (* --- identity vs LOG: the log path of a spot path is (map (map logf) path) --- *)
  Definition rows_ok (path : list (list Q)) : Prop := forall row, In row path -> row <> [] /\ expf (logf (lastq row)) == lastq row.

  Lemma lasts_log : forall path, (forall row, In row path -> row <> []) -> lasts (map (map logf) path) = map logf (lasts path).
  Proof.
    induction path as [|row p IH]; intro H; [reflexivity|]. unfold lasts in *. cbn [map]. rewrite IH by (intros; apply H; right; assumption).
    f_equal. unfold lastq. apply last_map. apply H. left; reflexivity.
  Qed.

  Lemma spot_vec_rep : forall path, rows_ok path -> qeql (spot_vec true (map (map logf) path)) (spot_vec false path).
  Proof.
    intros path H. unfold PayoffExt.spot_vec. rewrite lasts_log by (intros r Hr; apply (H r Hr)).
    unfold rows_ok in H. induction path as [|row p IH]; [constructor|]. unfold lasts. cbn [map]. constructor.
    - unfold spot_of. apply H. left; reflexivity.
    - apply IH. intros r Hr. apply H. right; assumption.
  Qed.

  Lemma qsum_proper : forall a b, qeql a b -> qsum a == qsum b.
  Proof. intros a b H; induction H; simpl; [reflexivity|]. rewrite H, IHForall2. reflexivity. Qed.

  Lemma all_above_proper : forall a b th, qeql a b -> all_above a th = all_above b th.
  Proof.
    intros a b th H; revert th. induction H; intros [|t th]; simpl; try reflexivity.
    rewrite (Qltb_proper_r t x y H). f_equal. apply IHForall2.
  Qed.

  Lemma nth_error_qeql : forall a b k, qeql a b ->
    match nth_error a k, nth_error b k with Some x, Some y => x == y | None, None => True | _, _ => False end.
  Proof. intros a b k H; revert k. induction H; intros [|k]; simpl; auto. apply IHForall2. Qed.

  (* C17_vector_rep_agree, part 1: Spot / Libors vector, Mean, NthSpot, Indicators *)
  Lemma vec_rep_agree path k thresholds : rows_ok path ->
    qeql (spot_vec true (map (map logf) path)) (spot_vec false path)
    /\ mean_value expf true (map (map logf) path) == mean_value expf false path
    /\ uval_eq (nthspot_value expf true k (map (map logf) path)) (nthspot_value expf false k path)
    /\ indicators_value expf true thresholds (map (map logf) path) = indicators_value expf false thresholds path.
  Proof.
    intro H. pose proof (spot_vec_rep path H) as Hs. repeat split.
    - assumption.
    - unfold mean_value. rewrite (qsum_proper _ _ Hs), map_length. reflexivity.
    - unfold nthspot_value. pose proof (nth_error_qeql _ _ k Hs) as Hk.
      unfold PayoffExt.spot_vec in Hk. rewrite !nth_error_map in Hk.
      destruct (nth_error (lasts (map (map logf) path)) k), (nth_error (lasts path) k); simpl in *; try assumption; try contradiction.
    - unfold indicators_value. rewrite (all_above_proper _ _ thresholds Hs). reflexivity.
  Qed.

  (* --- Performances / MaximumOfPerformances: np.exp(log v - log s) against v / s --- *)
  Definition perf_ok (spots : list Q) (path : list (list Q)) : Prop :=
    (forall row, In row path -> row <> []) /\
    forall v s, In (v, s) (combine (lasts path) spots) -> expf (logf v - logf s) == v / s.

  Lemma map2q_rep (f g : Q -> Q -> Q) : forall a b, (forall v s, In (v, s) (combine a b) -> f v s == g v s) -> qeql (map2q f a b) (map2q g a b).
  Proof.
    induction a as [|x a IH]; intros [|y b] H; simpl; try constructor.
    - apply H. left; reflexivity.
    - apply IH. intros; apply H; right; assumption.
  Qed.

  Lemma map2q_map_l (f : Q -> Q -> Q) (h : Q -> Q) : forall a b, map2q f (map h a) b = map2q (fun v s => f (h v) s) a b.
  Proof. induction a as [|x a IH]; intros [|y b]; simpl; try reflexivity. rewrite IH. reflexivity. Qed.

  Lemma perf_rep spots path : perf_ok spots path ->
    qeql (perf_value expf logf true spots (map (map logf) path)) (perf_value expf logf false spots path).
  Proof.
    intros [Hne H]. unfold perf_value. rewrite lasts_log by assumption. rewrite map2q_map_l. apply map2q_rep. assumption.
  Qed.

  (* Python's max commutes with a monotone function (up to ==) *)
  Notation pymax := (fun m y : Q => if Qltb m y then y else m).

  Lemma pymax_fold_mono (f : Q -> Q) : (forall a b, a <= b -> f a <= f b) ->
    forall r x x', f x == x' -> f (fold_left pymax r x) == fold_left pymax (map f r) x'.
  Proof.
    intros Hm. induction r as [|y r IH]; intros x x' E; [assumption|]. cbn [fold_left map]. apply IH.
    destruct (Qltb x y) eqn:E1, (Qltb x' (f y)) eqn:E2; try reflexivity; try assumption.
    - apply Qltb_lt in E1. apply Qltb_false in E2. assert (f x <= f y) by (apply Hm; lra). lra.
    - apply Qltb_false in E1. apply Qltb_lt in E2. assert (f y <= f x) by (apply Hm; assumption). lra.
  Qed.

  Lemma pymax_fold_proper : forall r r' x x', qeql r r' -> x == x' -> fold_left pymax r x == fold_left pymax r' x'.
  Proof.
    intros r r' x x' H; revert x x'. induction H as [|y y' r r' Ey Hr IH]; intros x x' E; [assumption|]. cbn [fold_left]. apply IH.
    rewrite (Qltb_proper_l x x' y E), (Qltb_proper_r x' y y' Ey). destruct (Qltb x' y'); assumption.
  Qed.

  (* C17_vector_rep_agree, part 2 *)
  Lemma maxperf_rep spots path : perf_ok spots path -> (forall a b, a <= b -> expf a <= expf b) ->
    uval_eq (maxperf_value expf logf true spots (map (map logf) path)) (maxperf_value expf logf false spots path).
  Proof.
    intros [Hne H] Hm. unfold maxperf_value. rewrite lasts_log by assumption. rewrite map2q_map_l.
    pose proof (map2q_rep (fun v s => expf (logf v - logf s)) Qdiv _ _ H) as Hq.
    assert (Hmap : forall a b, map expf (map2q (fun v s => logf v - logf s) a b) = map2q (fun v s => expf (logf v - logf s)) a b).
    { induction a as [|x a IH]; intros [|y b]; simpl; try reflexivity. rewrite IH. reflexivity. }
    rewrite <- Hmap in Hq.
    destruct (map2q (fun v s => logf v - logf s) (lasts path) spots) as [|l0 ls];
      destruct (map2q Qdiv (lasts path) spots) as [|p0 ps]; simpl in Hq; inversion Hq; subst; simpl; [exact I|].
    rewrite (pymax_fold_mono expf Hm ls l0 (expf l0) ltac:(reflexivity)).
    apply pymax_fold_proper; assumption.
  Qed.

  (* the maximum of the performances is an upper bound that is attained (max semantics of the hand model) *)
  Lemma pymax_fold_spec : forall r x, let m := fold_left pymax r x in In m (x :: r) /\ forall v, In v (x :: r) -> v <= m.
  Proof.
    induction r as [|y r IH]; intros x; cbn [fold_left].
    - split; [left; reflexivity | intros v [<-|[]]; lra].
    - destruct (IH (if Qltb x y then y else x)) as [Hin Hub]. split.
      + destruct Hin as [E|Hin]; [|right; right; assumption]. rewrite <- E. destruct (Qltb x y); [right; left | left]; reflexivity.
      + intros v [Ev|[Ev|Hv]].
        * rewrite <- Ev. destruct (Qltb x y) eqn:E; [apply Qltb_lt in E; specialize (Hub y (or_introl eq_refl)); lra | apply Hub; left; reflexivity].
        * rewrite <- Ev. destruct (Qltb x y) eqn:E; [apply Hub; left; reflexivity | apply Qltb_false in E; specialize (Hub x (or_introl eq_refl)); lra].
        * apply Hub. right; assumption.
  Qed.

  (* NthSpot.imply_from_payoff_underlying(Spot): payoff_underlying[index - 1] IS NthSpot's own value *)
  Lemma nthspot_imply_sound lg k path : nthspot_implied k (spot_vec lg path) = nthspot_value expf lg k path.
  Proof. unfold nthspot_implied, nthspot_value, PayoffExt.spot_vec. rewrite nth_error_map. destruct (nth_error (lasts path) k); reflexivity. Qed.
End Rep2Proofs.

(* ------------------------------------------------------------------ ControlVariates.process, one control *)
Section CVProofs.
  Variable expf logf : Q -> Q.

  (* the value of a control inside ControlVariates = the value of a FRESH copy of the control product valued alone on that path,
     whatever flag earlier paths left on it -- provided an underlying of the main product's class has the main product's parameters *)
  Lemma cv_pure ctrl main_und s lg t p j :
    (same_class (p_und ctrl) main_und = true -> p_und ctrl = main_und) ->
    cv_value expf logf ctrl main_und s lg t p j = snd (eval3 expf logf ctrl (fresh) lg t p j).
  Proof.
    intro H. rewrite (eval3_state_independent expf logf ctrl fresh s lg t p j).
    unfold cv_value, cv_value_given, eval3. cbn [step fst snd uses_log barrier_event].
    destruct (same_class (p_und ctrl) main_und) eqn:E.
    - rewrite <- (H eq_refl). destruct (und_value expf logf (p_und ctrl) lg t p j); reflexivity.
    - destruct (und_value expf logf (p_und ctrl) lg t p j); reflexivity.
  Qed.

  (* F-C17-10: isinstance is the only test -- a DefaultTime(-1/4) control beside a DefaultTime(-1) product takes the main default time *)
  Lemma cv_imply_wrong : exists ctrl main_und t j,
    same_class (p_und ctrl) main_und = true /\
    cv_value (fun x => x) (fun x => x) ctrl main_und fresh true t j j = OutV 2 /\
    snd (eval3 (fun x => x) (fun x => x) ctrl fresh true t j j) = OutV 1.
  Proof.
    exists {| p_und := UDefaultTime (-1 # 4); p_pay := PForward 0; p_notional := 1 |}, (UDefaultTime (-1 # 1)),
           [0; 1; 2; 3], [0; -1 # 2; -2 # 1; -4 # 1].
    vm_compute. repeat split.
  Qed.
End CVProofs.

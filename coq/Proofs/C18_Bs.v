(* C18, wave 5: CFBlackScholes.digital (generated), static bounds of the closed form over an abstract Phi, the regular branch
   converges to the degenerate branch as sigma -> 0+, monotonicity of the Gaussian integral PhiR. *)
From Coq Require Import Reals Lra Lia Bool Arith.
From Coquelicot Require Import Coquelicot.
From RV Require Import Base.RB Gen.GenC18Cos Model.Cos Model.CosSum Model.CosExt Proofs.C18_Cos.
Open Scope R_scope.

Lemma bs_degenerate_false S sigma T : bs_degenerate S sigma T = false -> 1 / 100000000 <= sigma /\ 1 / 100000000 <= S /\ 1 / 100000000 <= T.
Proof.
  unfold bs_degenerate. intro H. apply orb_false_iff in H. destruct H as [H H3]. apply orb_false_iff in H. destruct H as [H1 H2].
  apply Rltb_false in H1, H2, H3. repeat split; assumption.
Qed.

Section BSX.
  Variable Phi : R -> R.
  Hypothesis Phi_sym : forall x, Phi x + Phi (- x) = 1.
  Hypothesis Phi_range : forall x, 0 <= Phi x <= 1.
  Hypothesis Phi_mono : forall x y, x <= y -> Phi x <= Phi y.

  Lemma bs_digital_degenerate r d S sigma K T : bs_degenerate S sigma T = true ->
    bs_digital Phi r d S sigma K T = exp (- r * T) * (if Rltb K (S * exp ((r - d) * T)) then 1 else 0).
  Proof.
    intro H. unfold bs_digital. cbv zeta. unfold bs_degenerate in H.
    replace (IZR 1 / IZR 100000000) with (1 / 100000000) by reflexivity. rewrite H. reflexivity.
  Qed.
  Lemma bs_digital_nondegenerate r d S sigma K T : bs_degenerate S sigma T = false ->
    bs_digital Phi r d S sigma K T = exp (- r * T) * Phi (bs_d2 r d S sigma K T).
  Proof.
    intro H. unfold bs_digital, bs_d2. cbv zeta. unfold bs_degenerate in H.
    replace (IZR 1 / IZR 100000000) with (1 / 100000000) by reflexivity. rewrite H. reflexivity.
  Qed.

  Lemma bs_digital_range r d S sigma K T : 0 <= bs_digital Phi r d S sigma K T <= exp (- r * T).
  Proof.
    pose proof (exp_pos (- r * T)) as Hdf.
    destruct (bs_degenerate S sigma T) eqn:E.
    - rewrite bs_digital_degenerate by exact E. destruct (Rltb K (S * exp ((r - d) * T))); lra.
    - rewrite bs_digital_nondegenerate by exact E. pose proof (Phi_range (bs_d2 r d S sigma K T)). nra.
  Qed.

  Lemma bs_d2_decreasing r d S sigma K1 K2 T : 0 < S -> 0 < sigma -> 0 < T -> 0 < K1 <= K2 ->
    bs_d2 r d S sigma K2 T <= bs_d2 r d S sigma K1 T.
  Proof.
    intros HS Hs HT [HK1 HK]. unfold bs_d2.
    set (F := S * exp ((r - d) * T)). assert (HF : 0 < F) by (apply Rmult_lt_0_compat; [exact HS | apply exp_pos]).
    set (sd := sigma * sqrt T). assert (Hsd : 0 < sd) by (apply Rmult_lt_0_compat; [exact Hs | apply sqrt_lt_R0, HT]).
    assert (L : ln (F / K2) <= ln (F / K1)).
    { assert (0 < F / K2) by (apply Rdiv_lt_0_compat; lra).
      assert (F / K2 <= F / K1).
      { unfold Rdiv. apply Rmult_le_compat_l; [lra|]. apply Rinv_le_contravar; lra. }
      destruct (Rle_lt_or_eq_dec _ _ H0) as [Lt | Eq]; [left; apply ln_increasing; assumption | rewrite Eq; lra]. }
    assert (ln (F / K2) / sd <= ln (F / K1) / sd); [|lra].
    unfold Rdiv at 1 3. apply Rmult_le_compat_r; [left; apply Rinv_0_lt_compat, Hsd | exact L].
  Qed.

  (* the digital price decreases in the strike, in both branches *)
  Lemma bs_digital_decreasing r d S sigma K1 K2 T : 0 < S -> 0 < K1 <= K2 ->
    bs_digital Phi r d S sigma K2 T <= bs_digital Phi r d S sigma K1 T.
  Proof.
    intros HS HK. pose proof (exp_pos (- r * T)) as Hdf.
    destruct (bs_degenerate S sigma T) eqn:E.
    - rewrite !bs_digital_degenerate by exact E. set (F := S * exp ((r - d) * T)).
      destruct (Rltb K2 F) eqn:E2; destruct (Rltb K1 F) eqn:E1; try lra.
      apply Rltb_true in E2. apply Rltb_false in E1. lra.
    - rewrite !bs_digital_nondegenerate by exact E. apply bs_degenerate_false in E. destruct E as (E1 & E2 & E3).
      apply Rmult_le_compat_l; [lra|]. apply Phi_mono. apply bs_d2_decreasing; lra.
  Qed.

  (* regular branch: call = df * F * Phi(d1) - K * digital  (the call's d2 is the digital's d2) *)
  Lemma bs_call_digital r d S sigma K T : bs_degenerate S sigma T = false ->
    bs_call Phi r d S sigma K T
    = exp (- r * T) * (S * exp ((r - d) * T)) * Phi (bs_d2 r d S sigma K T + sigma * sqrt T) - K * bs_digital Phi r d S sigma K T.
  Proof.
    intro E. rewrite bs_digital_nondegenerate by exact E. unfold bs_call. rewrite bs_nondegenerate by exact E. unfold bs_d2.
    set (F := S * exp ((r - d) * T)). set (sd := sigma * sqrt T). set (m := ln (F / K) / sd).
    replace ((m + 1 / 2 * sd) * 1) with (m - 1 / 2 * sd + sd) by lra.
    replace ((m + 1 / 2 * sd - sd) * 1) with (m - 1 / 2 * sd) by lra. ring.
  Qed.

  (* lower bounds that DO follow from monotonicity of Phi: call >= 0 for strikes at or below the forward, put >= 0 at or above *)
  Lemma bs_call_nonneg_itm r d S sigma K T : 0 <= sigma -> 0 <= T -> 0 <= K <= S * exp ((r - d) * T) -> 0 <= bs_call Phi r d S sigma K T.
  Proof.
    intros Hs HT [HK HF]. pose proof (exp_pos (- r * T)) as Hdf.
    destruct (bs_degenerate S sigma T) eqn:E.
    - unfold bs_call. rewrite (bs_degenerate_intrinsic Phi) by exact E. pose proof (Rmax_l 0 (1 * (S * exp ((r - d) * T) - K))). nra.
    - unfold bs_call. rewrite bs_nondegenerate by exact E.
      set (F := S * exp ((r - d) * T)) in *. set (sd := sigma * sqrt T). set (d1 := ln (F / K) / sd + 1 / 2 * sd).
      assert (Hsd : 0 <= sd) by (apply Rmult_le_pos; [exact Hs | apply sqrt_pos]).
      replace (d1 * 1) with d1 by ring. replace ((d1 - sd) * 1) with (d1 - sd) by ring.
      pose proof (Phi_mono (d1 - sd) d1 ltac:(lra)) as M. pose proof (Phi_range (d1 - sd)) as [R1 _]. pose proof (Phi_range d1) as [R2 _].
      assert (K * Phi (d1 - sd) <= F * Phi d1) by nra. nra.
  Qed.
  Lemma bs_put_nonneg_otm r d S sigma K T : 0 <= sigma -> 0 <= T -> 0 <= S * exp ((r - d) * T) <= K -> 0 <= bs_put Phi r d S sigma K T.
  Proof.
    intros Hs HT [HF HK]. pose proof (exp_pos (- r * T)) as Hdf.
    destruct (bs_degenerate S sigma T) eqn:E.
    - unfold bs_put. rewrite (bs_degenerate_intrinsic Phi) by exact E. pose proof (Rmax_l 0 (-1 * (S * exp ((r - d) * T) - K))). nra.
    - unfold bs_put. rewrite bs_nondegenerate by exact E.
      set (F := S * exp ((r - d) * T)) in *. set (sd := sigma * sqrt T). set (d1 := ln (F / K) / sd + 1 / 2 * sd).
      assert (Hsd : 0 <= sd) by (apply Rmult_le_pos; [exact Hs | apply sqrt_pos]).
      replace (d1 * -1) with (- d1) by ring. replace ((d1 - sd) * -1) with (- d1 + sd) by ring.
      pose proof (Phi_mono (- d1) (- d1 + sd) ltac:(lra)) as M. pose proof (Phi_range (- d1)) as [R1 _]. pose proof (Phi_range (- d1 + sd)) as [R2 _].
      assert (F * Phi (- d1) <= K * Phi (- d1 + sd)) by nra. nra.
  Qed.

  (* ---------------------------------------------------------------- sigma -> 0+ : the regular formula tends to the degenerate branch *)
  Hypothesis Phi_top : forall eps, 0 < eps -> exists M, forall x, M <= x -> 1 - eps < Phi x.

  (* the else-branch of CFBlackScholes._call_put, as a function of sigma on all of (0, oo) (bs_nondegenerate: it IS bs_call_put where the
     code takes that branch) *)
  Definition bs_regular (r d S sigma flag K T : R) : R :=
    exp (- r * T) * flag * (S * exp ((r - d) * T) * Phi ((ln (S * exp ((r - d) * T) / K) / (sigma * sqrt T) + 1 / 2 * (sigma * sqrt T)) * flag)
                            - K * Phi ((ln (S * exp ((r - d) * T) / K) / (sigma * sqrt T) + 1 / 2 * (sigma * sqrt T) - sigma * sqrt T) * flag)).

  Lemma d_large m c M : 0 < m -> 0 < c -> exists delta, 0 < delta /\ forall sigma, 0 < sigma < delta -> M <= m / (sigma * c) - 1 / 2 * (sigma * c).
  Proof.
    intros Hm Hc. pose proof (Rabs_pos M) as HM. pose proof (Rle_abs M) as HM2.
    exists (Rmin (1 / c) (m / (c * (Rabs M + 1)))). split.
    - apply Rmin_glb_lt; apply Rdiv_lt_0_compat; try lra. apply Rmult_lt_0_compat; lra.
    - intros sigma [H0 H1].
      assert (A1 : sigma < 1 / c) by (eapply Rlt_le_trans; [exact H1 | apply Rmin_l]).
      assert (A2 : sigma < m / (c * (Rabs M + 1))) by (eapply Rlt_le_trans; [exact H1 | apply Rmin_r]).
      set (sd := sigma * c). assert (Hsd : 0 < sd) by (apply Rmult_lt_0_compat; assumption).
      assert (B1 : sd < 1). { unfold sd. apply (Rmult_lt_compat_r c) in A1; [|exact Hc]. replace (1 / c * c) with 1 in A1 by (field; lra). exact A1. }
      assert (B2 : sd * (Rabs M + 1) < m).
      { unfold sd. apply (Rmult_lt_compat_r (c * (Rabs M + 1))) in A2; [|apply Rmult_lt_0_compat; lra].
        replace (m / (c * (Rabs M + 1)) * (c * (Rabs M + 1))) with m in A2 by (field; lra). lra. }
      assert (B3 : Rabs M + 1 < m / sd). { apply Rlt_div_r; [exact Hsd | lra]. }
      lra.
  Qed.

  Lemma Phi_tails eps : 0 < eps -> exists M, forall x, M <= x -> (1 - eps < Phi x <= 1) /\ (0 <= Phi (- x) < eps).
  Proof.
    intro He. destruct (Phi_top eps He) as [M HM]. exists M. intros x Hx. pose proof (HM x Hx). pose proof (Phi_range x). pose proof (Phi_sym x).
    pose proof (Phi_range (- x)). split; lra.
  Qed.

  Lemma bs_sigma_to_zero r d S K T flag : 0 < S -> 0 < K -> 0 < T -> flag = 1 \/ flag = -1 -> S * exp ((r - d) * T) <> K ->
    forall eps, 0 < eps -> exists delta, 0 < delta /\ forall sigma, 0 < sigma < delta ->
      Rabs (bs_regular r d S sigma flag K T - exp (- r * T) * Rmax 0 (flag * (S * exp ((r - d) * T) - K))) < eps.
  Proof.
    intros HS HK HT Hflag Hne eps Heps. unfold bs_regular.
    set (df := exp (- r * T)). set (F := S * exp ((r - d) * T)) in *. set (c := sqrt T).
    assert (Hdf : 0 < df) by apply exp_pos. assert (HF : 0 < F) by (apply Rmult_lt_0_compat; [exact HS | apply exp_pos]).
    assert (Hc : 0 < c) by (apply sqrt_lt_R0, HT).
    set (u := df * F). set (v := df * K). assert (Hu : 0 < u) by (apply Rmult_lt_0_compat; assumption). assert (Hv : 0 < v) by (apply Rmult_lt_0_compat; assumption).
    set (e := eps / (u + v)). assert (He : 0 < e) by (apply Rdiv_lt_0_compat; lra).
    assert (Hsum : u * e + v * e = eps) by (unfold e; field; lra).
    destruct (Phi_tails e He) as [M HM].
    set (m := ln (F / K)).
    destruct (Rtotal_order F K) as [Lt | [Eq | Gt]]; [| contradiction |].
    - (* F < K: m < 0, d1, d2 -> -oo *)
      assert (Hm : 0 < - m). { unfold m. assert (ln (F / K) < ln 1); [|rewrite ln_1 in *; lra]. apply ln_increasing; [apply Rdiv_lt_0_compat; lra|]. apply Rlt_div_l; lra. }
      destruct (d_large (- m) c M Hm Hc) as [delta [Hd Hlarge]]. exists delta. split; [exact Hd|]. intros sigma Hs.
      pose proof (Hlarge sigma Hs) as L. set (sd := sigma * c) in *. assert (Hsd : 0 < sd) by (apply Rmult_lt_0_compat; lra).
      assert (E1 : m / sd + 1 / 2 * sd = - (- m / sd - 1 / 2 * sd)) by (field; lra).
      assert (E2 : m / sd + 1 / 2 * sd - sd = - (- m / sd - 1 / 2 * sd + sd)) by (field; lra).
      destruct (HM (- m / sd - 1 / 2 * sd) L) as [[P1 P2] [Q1 Q2]]. destruct (HM (- m / sd - 1 / 2 * sd + sd) ltac:(lra)) as [[P3 P4] [Q3 Q4]].
      destruct Hflag as [-> | ->].
      + replace (Rmax 0 (1 * (F - K))) with 0 by (symmetry; apply Rmax_left; lra).
        replace ((m / sd + 1 / 2 * sd) * 1) with (- (- m / sd - 1 / 2 * sd)) by lra.
        replace ((m / sd + 1 / 2 * sd - sd) * 1) with (- (- m / sd - 1 / 2 * sd + sd)) by lra.
        set (p1 := Phi (- (- m / sd - 1 / 2 * sd))) in *. set (p2 := Phi (- (- m / sd - 1 / 2 * sd + sd))) in *.
        replace (df * 1 * (F * p1 - K * p2) - df * 0) with (u * p1 - v * p2) by (unfold u, v; ring).
        assert (0 <= u * p1 < u * e) by nra. assert (0 <= v * p2 < v * e) by nra. apply Rabs_def1; lra.
      + replace (Rmax 0 (-1 * (F - K))) with (K - F) by (symmetry; replace (-1 * (F - K)) with (K - F) by ring; apply Rmax_right; lra).
        replace ((m / sd + 1 / 2 * sd) * -1) with (- m / sd - 1 / 2 * sd) by lra.
        replace ((m / sd + 1 / 2 * sd - sd) * -1) with (- m / sd - 1 / 2 * sd + sd) by lra.
        set (p1 := Phi (- m / sd - 1 / 2 * sd)) in *. set (p2 := Phi (- m / sd - 1 / 2 * sd + sd)) in *.
        replace (df * -1 * (F * p1 - K * p2) - df * (K - F)) with (u * (1 - p1) - v * (1 - p2)) by (unfold u, v; ring).
        assert (0 <= u * (1 - p1) < u * e) by nra. assert (0 <= v * (1 - p2) < v * e) by nra. apply Rabs_def1; lra.
    - (* K < F: m > 0, d1, d2 -> +oo *)
      assert (Hm : 0 < m). { unfold m. assert (ln 1 < ln (F / K)); [|rewrite ln_1 in *; lra]. apply ln_increasing; [lra|]. apply Rlt_div_r; lra. }
      destruct (d_large m c M Hm Hc) as [delta [Hd Hlarge]]. exists delta. split; [exact Hd|]. intros sigma Hs.
      pose proof (Hlarge sigma Hs) as L. set (sd := sigma * c) in *. assert (Hsd : 0 < sd) by (apply Rmult_lt_0_compat; lra).
      destruct (HM (m / sd - 1 / 2 * sd) L) as [[P1 P2] [Q1 Q2]]. destruct (HM (m / sd - 1 / 2 * sd + sd) ltac:(lra)) as [[P3 P4] [Q3 Q4]].
      destruct Hflag as [-> | ->].
      + replace (Rmax 0 (1 * (F - K))) with (F - K) by (symmetry; replace (1 * (F - K)) with (F - K) by ring; apply Rmax_right; lra).
        replace ((m / sd + 1 / 2 * sd) * 1) with (m / sd - 1 / 2 * sd + sd) by lra.
        replace ((m / sd + 1 / 2 * sd - sd) * 1) with (m / sd - 1 / 2 * sd) by lra.
        set (p2 := Phi (m / sd - 1 / 2 * sd)) in *. set (p1 := Phi (m / sd - 1 / 2 * sd + sd)) in *.
        replace (df * 1 * (F * p1 - K * p2) - df * (F - K)) with (v * (1 - p2) - u * (1 - p1)) by (unfold u, v; ring).
        assert (0 <= u * (1 - p1) < u * e) by nra. assert (0 <= v * (1 - p2) < v * e) by nra. apply Rabs_def1; lra.
      + replace (Rmax 0 (-1 * (F - K))) with 0 by (symmetry; apply Rmax_left; lra).
        replace ((m / sd + 1 / 2 * sd) * -1) with (- (m / sd - 1 / 2 * sd + sd)) by lra.
        replace ((m / sd + 1 / 2 * sd - sd) * -1) with (- (m / sd - 1 / 2 * sd)) by lra.
        set (p2 := Phi (- (m / sd - 1 / 2 * sd))) in *. set (p1 := Phi (- (m / sd - 1 / 2 * sd + sd))) in *.
        replace (df * -1 * (F * p1 - K * p2) - df * 0) with (v * p2 - u * p1) by (unfold u, v; ring).
        assert (0 <= u * p1 < u * e) by nra. assert (0 <= v * p2 < v * e) by nra. apply Rabs_def1; lra.
  Qed.
End BSX.

(* ------------------------------------------------------------------ the Gaussian integral PhiR is non-decreasing (no value of the
   Gaussian integral over the line is needed for that) *)
Lemma gauss_ex_RInt a b : ex_RInt (fun t => exp (- (t * t) / 2)) a b.
Proof. apply (@ex_RInt_continuous R_CompleteNormedModule). intros z _. apply gauss_continuous. Qed.
Lemma PhiR_monotone x y : x <= y -> PhiR x <= PhiR y.
Proof.
  intro H. unfold PhiR. set (f := fun t : R => exp (- (t * t) / 2)).
  assert (C : RInt f 0 y = RInt f 0 x + RInt f x y).
  { symmetry. apply (RInt_Chasles f 0 x y); apply gauss_ex_RInt. }
  rewrite C. assert (P : 0 <= RInt f x y).
  { apply RInt_ge_0; [exact H | apply gauss_ex_RInt |]. intros t _. left. apply exp_pos. }
  assert (Q : 0 < / sqrt (2 * PI)). { apply Rinv_0_lt_compat, sqrt_lt_R0. pose proof PI_RGT_0. lra. }
  nra.
Qed.

(* ------------------------------------------------------------------ statements as they appear in Properties/C18.v *)
Lemma butterfly_all :
  (forall c1 c2 c3, cos_butterfly c1 c2 c3 = (c1 - c2) - (c2 - c3) /\ bs_butterfly c1 c2 c3 = (c1 - c2) - (c2 - c3))
  /\ (forall df fwd p1 p2 p3 K1 K2 K3,
        cos_butterfly (cos_call df fwd p1 K1) (cos_call df fwd p2 K2) (cos_call df fwd p3 K3) = cos_butterfly p1 p2 p3 - df * (K1 - 2 * K2 + K3))
  /\ (forall Phi, Phi_like Phi -> forall r d S sigma K1 K2 K3 T,
        bs_butterfly (bs_call Phi r d S sigma K1 T) (bs_call Phi r d S sigma K2 T) (bs_call Phi r d S sigma K3 T)
        = bs_butterfly (bs_put Phi r d S sigma K1 T) (bs_put Phi r d S sigma K2 T) (bs_put Phi r d S sigma K3 T) - exp (- r * T) * (K1 - 2 * K2 + K3)).
Proof.
  repeat apply conj.
  - intros. unfold cos_butterfly, bs_butterfly. split; ring.
  - intros. unfold cos_butterfly, cos_call, cos_forward. ring.
  - intros Phi (Hs & _ & _) r d S sigma K1 K2 K3 T.
    pose proof (bs_parity Phi Hs r d S sigma K1 T) as P1. pose proof (bs_parity Phi Hs r d S sigma K2 T) as P2. pose proof (bs_parity Phi Hs r d S sigma K3 T) as P3.
    unfold bs_butterfly. replace (IZR 2) with 2 by reflexivity. lra.
Qed.

Lemma bs_digital_all : forall Phi, Phi_like Phi -> forall r d S sigma T, 0 < S ->
  (forall K, 0 <= bs_digital Phi r d S sigma K T <= exp (- r * T))
  /\ (forall K1 K2, 0 < K1 <= K2 -> bs_digital Phi r d S sigma K2 T <= bs_digital Phi r d S sigma K1 T)
  /\ (bs_degenerate S sigma T = false -> forall K,
        bs_digital Phi r d S sigma K T = exp (- r * T) * Phi (bs_d2 r d S sigma K T)
        /\ bs_call Phi r d S sigma K T
           = exp (- r * T) * (S * exp ((r - d) * T)) * Phi (bs_d2 r d S sigma K T + sigma * sqrt T) - K * bs_digital Phi r d S sigma K T)
  /\ (bs_degenerate S sigma T = true -> forall K,
        bs_digital Phi r d S sigma K T = exp (- r * T) * (if Rltb K (S * exp ((r - d) * T)) then 1 else 0)).
Proof.
  intros Phi (Hs & Hr & Hm) r d S sigma T HS. repeat apply conj.
  - intro K. apply bs_digital_range, Hr.
  - intros K1 K2 HK. apply bs_digital_decreasing; assumption.
  - intros E K. split; [apply bs_digital_nondegenerate, E | apply bs_call_digital, E].
  - intros E K. apply bs_digital_degenerate, E.
Qed.

Lemma bs_static_bounds_all : forall Phi, Phi_like Phi -> forall r d S sigma K T, 0 < S -> 0 < K -> 0 <= sigma -> 0 <= T ->
  (K <= S * exp ((r - d) * T) -> 0 <= bs_call Phi r d S sigma K T /\ exp (- r * T) * (K - S * exp ((r - d) * T)) <= bs_put Phi r d S sigma K T)
  /\ (S * exp ((r - d) * T) <= K -> 0 <= bs_put Phi r d S sigma K T /\ exp (- r * T) * (S * exp ((r - d) * T) - K) <= bs_call Phi r d S sigma K T).
Proof.
  intros Phi (Hs & Hr & Hm) r d S sigma K T HS HK Hsig HT.
  pose proof (bs_parity Phi Hs r d S sigma K T) as P.
  assert (HF : 0 <= S * exp ((r - d) * T)) by (left; apply Rmult_lt_0_compat; [exact HS | apply exp_pos]).
  split; intro H.
  - pose proof (bs_call_nonneg_itm Phi Hr Hm r d S sigma K T Hsig HT ltac:(lra)). split; lra.
  - pose proof (bs_put_nonneg_otm Phi Hr Hm r d S sigma K T Hsig HT ltac:(lra)). split; lra.
Qed.

(* the binding legs do NOT follow from symmetry + range + monotonicity: Phi = 1/2 everywhere meets Phi_like and prices an out-of-the-money call negative *)
Lemma bs_lower_bound_needs_gaussian : exists Phi, Phi_like Phi /\ bs_call Phi 0 0 1 1 2 1 < 0.
Proof.
  exists (fun _ => 1 / 2). split.
  - repeat split; intros; lra.
  - unfold bs_call. assert (E : bs_degenerate 1 1 1 = false).
    { unfold bs_degenerate, Rltb. destruct (Rlt_dec 1 (1 / 100000000)); [exfalso; lra | reflexivity]. }
    rewrite bs_nondegenerate by exact E. replace (- 0 * 1) with 0 by ring. replace ((0 - 0) * 1) with 0 by ring. rewrite exp_0. lra.
Qed.

Lemma bs_sigma_to_zero_all : forall Phi, Phi_like Phi -> (forall eps, 0 < eps -> exists M, forall x, M <= x -> 1 - eps < Phi x) ->
  (forall r d S sigma flag K T, bs_degenerate S sigma T = false -> bs_call_put Phi r d S sigma flag K T = bs_regular Phi r d S sigma flag K T)
  /\ (forall r d S K T flag, 0 < S -> 0 < K -> 0 < T -> flag = 1 \/ flag = -1 -> S * exp ((r - d) * T) <> K ->
        forall eps, 0 < eps -> exists delta, 0 < delta /\ forall sigma, 0 < sigma < delta ->
          Rabs (bs_regular Phi r d S sigma flag K T - exp (- r * T) * Rmax 0 (flag * (S * exp ((r - d) * T) - K))) < eps)
  /\ (forall r d S sigma flag K T, bs_degenerate S sigma T = true ->
        bs_call_put Phi r d S sigma flag K T = exp (- r * T) * Rmax 0 (flag * (S * exp ((r - d) * T) - K))).
Proof.
  intros Phi (Hs & Hr & Hm) Htop. repeat apply conj.
  - intros. unfold bs_regular. apply bs_nondegenerate. assumption.
  - intros. apply bs_sigma_to_zero; assumption.
  - intros. apply bs_degenerate_intrinsic. assumption.
Qed.

Lemma bs_nonvacuous :
  let Phi := (fun x => if Rle_dec 0 x then (if Rle_dec x 0 then 1 / 2 else 1) else 0) in
  Phi_like Phi /\ (forall eps, 0 < eps -> exists M, forall x, M <= x -> 1 - eps < Phi x)
  /\ bs_degenerate 100 (1 / 5) 1 = false /\ bs_degenerate 100 0 1 = true.
Proof.
  intro Phi. split; [exact (proj1 nonvacuous)|]. split; [|split].
  - intros eps He. exists 1. intros x Hx. unfold Phi. destruct (Rle_dec 0 x); [destruct (Rle_dec x 0)|]; lra.
  - unfold bs_degenerate, Rltb. repeat match goal with |- context [Rlt_dec ?a ?b] => destruct (Rlt_dec a b); [exfalso; lra|] end. reflexivity.
  - unfold bs_degenerate, Rltb. destruct (Rlt_dec 0 (1 / 100000000)); [reflexivity | exfalso; lra].
Qed.

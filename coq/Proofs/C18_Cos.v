(* C18: identities of the code's pricing formulas (put-call parity for COS, FFT, Black-Scholes closed form),
   the COS coefficients are the exact cosine-coefficient integrals, Simpson weights, VG = CGMY(Y=0).
   All statements are about the py2coq translation of the current source (Gen/GenC18Cos.v). *)
From Coq Require Import Reals Lra Lia Bool Arith.
From Coquelicot Require Import Coquelicot.
From RV Require Import Base.RB Gen.GenC18Cos Model.Cos.
Open Scope R_scope.

(* ------------------------------------------------------------------ put-call parity: identities of the definitions *)
Lemma cos_parity df fwd put K : cos_call df fwd put K - put = df * (fwd - K).
Proof. unfold cos_call, cos_forward. ring. Qed.
Lemma cos_forward_eq df fwd K : cos_forward df fwd K = df * (fwd - K).
Proof. reflexivity. Qed.
Lemma fft_parity df fwd call K : call - fft_put df fwd call K = df * (fwd - K).
Proof. unfold fft_put. ring. Qed.

Lemma disc_fwd r d S K T : exp (- r * T) * (S * exp ((r - d) * T) - K) = S * exp (- d * T) - K * exp (- r * T).
Proof.
  replace ((r - d) * T) with (r * T + - d * T) by ring. rewrite exp_plus.
  assert (E : exp (- r * T) * exp (r * T) = 1). { rewrite <- exp_plus. replace (- r * T + r * T) with 0 by ring. apply exp_0. }
  replace (exp (- r * T) * (S * (exp (r * T) * exp (- d * T)) - K))
    with (S * exp (- d * T) * (exp (- r * T) * exp (r * T)) - K * exp (- r * T)) by ring.
  rewrite E. ring.
Qed.

(* ------------------------------------------------------------------ COS coefficients *)
Lemma xi_prim_derive (cst a x : R) : is_derive (xi_prim cst a) x (exp x * cos (cst * (x - a))).
Proof. unfold xi_prim. auto_derive. exact I. unfold Rminus. field. nra. Qed.
Lemma xi_is_RInt (cst a c d : R) :
  is_RInt (fun y => exp y * cos (cst * (y - a))) c d (xi_prim cst a d - xi_prim cst a c).
Proof.
  apply (is_RInt_derive (xi_prim cst a) (fun y => exp y * cos (cst * (y - a)))).
  - intros x _. apply xi_prim_derive.
  - intros x _. apply (ex_derive_continuous (fun y => exp y * cos (cst * (y - a)))). auto_derive. exact I.
Qed.
Lemma cos_xi_eq k a b c d : cos_xi k a b c d = xi_prim (k * PI / (b - a)) a d - xi_prim (k * PI / (b - a)) a c.
Proof. unfold cos_xi, xi_prim. cbv zeta beta. generalize (k * PI / (b - a)). intro cst. field. nra. Qed.

(* xi_k(c,d) = int_c^d e^y cos(k pi (y-a)/(b-a)) dy, for every real k (in particular k = 0, 1, 2, ...) *)
Lemma xi_coefficient k a b c d : is_RInt (fun y => exp y * cosk k a b y) c d (cos_xi k a b c d).
Proof. rewrite cos_xi_eq. unfold cosk. apply xi_is_RInt. Qed.

Lemma psi_prim_derive (cst a x : R) : cst <> 0 -> is_derive (psi_prim cst a) x (cos (cst * (x - a))).
Proof. intro H. unfold psi_prim. auto_derive. exact I. unfold Rminus. field. exact H. Qed.
Lemma psi_is_RInt (cst a c d : R) : cst <> 0 ->
  is_RInt (fun y => cos (cst * (y - a))) c d (psi_prim cst a d - psi_prim cst a c).
Proof.
  intro H. apply (is_RInt_derive (psi_prim cst a) (fun y => cos (cst * (y - a)))).
  - intros x _. apply psi_prim_derive, H.
  - intros x _. apply (ex_derive_continuous (fun y => cos (cst * (y - a)))). auto_derive. exact I.
Qed.
Lemma cos_psi_zero uninit a b c d : cos_psi uninit 0 a b c d = d - c.
Proof. unfold cos_psi. cbv zeta. assert (E : Reqb 0 0 = true) by (apply Reqb_true; reflexivity). rewrite E. reflexivity. Qed.
Lemma cos_psi_nonzero uninit k a b c d : k <> 0 ->
  cos_psi uninit k a b c d = psi_prim (k * PI / (b - a)) a d - psi_prim (k * PI / (b - a)) a c.
Proof.
  intro H. unfold cos_psi, psi_prim. cbv zeta.
  assert (E : Reqb k 0 = false). { destruct (Reqb k 0) eqn:E; auto. apply Reqb_true in E. contradiction. }
  rewrite E. replace (PI / (b - a) * k) with (k * PI / (b - a)) by (unfold Rdiv; ring). unfold Rdiv. ring.
Qed.

(* psi_k(c,d) = int_c^d cos(k pi (y-a)/(b-a)) dy, incl. k = 0; the value never depends on the uninitialised cells of np.divide *)
Lemma psi_coefficient uninit k a b c d : b <> a -> is_RInt (fun y => cosk k a b y) c d (cos_psi uninit k a b c d).
Proof.
  intro Hab. destruct (Req_EM_T k 0) as [-> | Hk].
  - rewrite cos_psi_zero. apply (is_RInt_ext (fun _ => 1)).
    + intros y _. unfold cosk. replace (0 * PI / (b - a) * (y - a)) with 0 by (unfold Rdiv; ring). symmetry. apply cos_0.
    + replace (d - c) with (scal (d - c) 1) by (unfold scal; simpl; unfold mult; simpl; ring). apply @is_RInt_const.
  - rewrite cos_psi_nonzero by exact Hk. unfold cosk. apply psi_is_RInt.
    unfold Rdiv. apply Rmult_integral_contrapositive_currified.
    + apply Rmult_integral_contrapositive_currified; [exact Hk | apply PI_neq0].
    + apply Rinv_neq_0_compat. lra.
Qed.

(* put coefficients: U_k = 2/(b-a) int_a^0 (1 - e^y) cos(k pi (y-a)/(b-a)) dy  (payoff of the put in units of the strike) *)
Lemma u_put_coefficient uninit k a b : b <> a ->
  is_RInt (fun y => 2 / (b - a) * ((1 - exp y) * cosk k a b y)) a 0 (cos_u_put uninit k a b).
Proof.
  intro Hab. unfold cos_u_put. replace (IZR 0 / IZR 1) with 0 by field.
  apply (is_RInt_ext (fun y => scal (2 / (b - a)) (plus (opp (exp y * cosk k a b y)) (cosk k a b y)))).
  - intros y _. unfold scal, plus, opp; simpl. unfold mult; simpl. ring.
  - apply @is_RInt_scal. apply @is_RInt_plus.
    + apply @is_RInt_opp. apply xi_coefficient.
    + apply psi_coefficient, Hab.
Qed.

(* digital coefficients: V_k = 2/(b-a) int_0^b cos(k pi (y-a)/(b-a)) dy *)
Lemma digital_coefficient uninit k a b : b <> a ->
  is_RInt (fun y => 2 / (b - a) * cosk k a b y) 0 b (cos_digital_vk uninit k a b).
Proof.
  intro Hab. unfold cos_digital_vk. replace (IZR 0 / IZR 1) with 0 by field.
  apply (is_RInt_ext (fun y => scal (2 / (b - a)) (cosk k a b y))).
  - intros y _. unfold scal; simpl. unfold mult; simpl. ring.
  - apply @is_RInt_scal. apply psi_coefficient, Hab.
Qed.

(* cdf = 1 - digital/df : an undiscounted probability when the digital price is a discounted one *)
Lemma cos_cdf_undiscounted df P : df <> 0 -> cos_cdf df (df * P) = 1 - P.
Proof. intro H. unfold cos_cdf. field. exact H. Qed.

(* ------------------------------------------------------------------ Simpson weights of FFTPricer._call_prices *)
Lemma simpson_0 eta : fft_simpson_w eta 0 = eta / 3.
Proof. unfold fft_simpson_w, kron. simpl. field. Qed.
Lemma simpson_odd eta i : fft_simpson_w eta (2 * i + 1) = 4 * eta / 3.
Proof.
  unfold fft_simpson_w. replace (S (2 * i + 1)) with (2 * (i + 1))%nat by lia. rewrite pow_1_even.
  replace (2 * i + 1)%nat with (S (2 * i)) by lia. simpl kron. field.
Qed.
Lemma simpson_even eta i : fft_simpson_w eta (2 * i + 2) = 2 * eta / 3.
Proof.
  unfold fft_simpson_w. replace (S (2 * i + 2)) with (S (2 * (i + 1))) by lia. rewrite pow_1_odd.
  replace (2 * i + 2)%nat with (S (2 * i + 1)) by lia. simpl kron. field.
Qed.
Lemma simpson_weights eta j : fft_simpson_w eta j = simpson_target eta j.
Proof.
  destruct j as [|j]; [apply simpson_0|].
  unfold simpson_target. destruct (Nat.even (S j)) eqn:E.
  - apply Nat.even_spec in E. destruct E as [m Hm]. destruct m as [|m]; [lia|].
    replace (S j) with (2 * m + 2)%nat by lia. apply simpson_even.
  - assert (O : Nat.odd (S j) = true) by (rewrite <- Nat.negb_even, E; reflexivity).
    apply Nat.odd_spec in O. destruct O as [m Hm]. rewrite Hm. apply simpson_odd.
Qed.

(* ------------------------------------------------------------------ Black-Scholes closed form over an abstract Phi *)
Lemma rmax_parity x : Rmax 0 (1 * x) - Rmax 0 (-1 * x) = x.
Proof. unfold Rmax. destruct (Rle_dec 0 (1 * x)), (Rle_dec 0 (-1 * x)); lra. Qed.

Section BS.
  Variable Phi : R -> R.
  Hypothesis Phi_sym : forall x, Phi x + Phi (- x) = 1.
  Hypothesis Phi_range : forall x, 0 <= Phi x <= 1.

  Lemma bs_parity r d S sigma K T :
    bs_call Phi r d S sigma K T - bs_put Phi r d S sigma K T = exp (- r * T) * (S * exp ((r - d) * T) - K).
  Proof.
    unfold bs_call, bs_put, bs_call_put. cbv zeta.
    set (df := exp (- r * T)). set (fwd := S * exp ((r - d) * T)).
    destruct (_ || _ || _).
    - replace (IZR 0 / IZR 1) with 0 by field. rewrite <- Rmult_minus_distr_l, rmax_parity. reflexivity.
    - set (sd := sigma * sqrt T). set (d1 := ln (fwd / K) / sd + IZR 1 / IZR 2 * sd).
      replace (d1 * 1) with d1 by ring. replace ((d1 - sd) * 1) with (d1 - sd) by ring.
      replace (d1 * -1) with (- d1) by ring. replace ((d1 - sd) * -1) with (- (d1 - sd)) by ring.
      pose proof (Phi_sym d1) as H1. pose proof (Phi_sym (d1 - sd)) as H2.
      replace (Phi (- d1)) with (1 - Phi d1) by lra. replace (Phi (- (d1 - sd))) with (1 - Phi (d1 - sd)) by lra. ring.
  Qed.

  Lemma bs_parity_forward r d S sigma K T :
    bs_call Phi r d S sigma K T - bs_put Phi r d S sigma K T = bs_forward r d S K T.
  Proof.
    rewrite bs_parity. unfold bs_forward. cbv zeta.
    replace ((r - d) * T) with (r * T + - d * T) by ring. rewrite exp_plus.
    assert (E : exp (- r * T) * exp (r * T) = 1). { rewrite <- exp_plus. replace (- r * T + r * T) with 0 by ring. apply exp_0. }
    replace (exp (- r * T) * (S * (exp (r * T) * exp (- d * T)) - K))
      with (S * exp (- d * T) * (exp (- r * T) * exp (r * T)) - K * exp (- r * T)) by ring.
    rewrite E. ring.
  Qed.

  (* degenerate branch (sigma, spot or maturity below 1e-8): discounted intrinsic value *)
  Lemma bs_degenerate_intrinsic r d S sigma flag K T : bs_degenerate S sigma T = true ->
    bs_call_put Phi r d S sigma flag K T = exp (- r * T) * Rmax 0 (flag * (S * exp ((r - d) * T) - K)).
  Proof.
    intro H. unfold bs_call_put. cbv zeta. unfold bs_degenerate in H.
    replace (IZR 1 / IZR 100000000) with (1 / 100000000) by reflexivity. rewrite H.
    replace (IZR 0 / IZR 1) with 0 by field. reflexivity.
  Qed.

  (* non-degenerate branch, as an explicit formula *)
  Lemma bs_nondegenerate r d S sigma flag K T : bs_degenerate S sigma T = false ->
    bs_call_put Phi r d S sigma flag K T =
    exp (- r * T) * flag * (S * exp ((r - d) * T) * Phi ((ln (S * exp ((r - d) * T) / K) / (sigma * sqrt T) + 1 / 2 * (sigma * sqrt T)) * flag)
                            - K * Phi ((ln (S * exp ((r - d) * T) / K) / (sigma * sqrt T) + 1 / 2 * (sigma * sqrt T) - sigma * sqrt T) * flag)).
  Proof.
    intro H. unfold bs_call_put. cbv zeta. unfold bs_degenerate in H.
    replace (IZR 1 / IZR 100000000) with (1 / 100000000) by reflexivity. rewrite H. reflexivity.
  Qed.

  (* upper bounds: call <= discounted forward, put <= discounted strike *)
  Lemma bs_call_upper r d S sigma K T : 0 <= S -> 0 <= K ->
    bs_call Phi r d S sigma K T <= exp (- r * T) * (S * exp ((r - d) * T)).
  Proof.
    intros HS HK. unfold bs_call, bs_call_put. cbv zeta.
    set (df := exp (- r * T)). set (e := exp ((r - d) * T)).
    assert (Hdf : 0 < df) by apply exp_pos. assert (He : 0 < e) by apply exp_pos.
    assert (Hf : 0 <= S * e) by nra.
    destruct (_ || _ || _).
    - replace (IZR 0 / IZR 1) with 0 by field. unfold Rmax. destruct (Rle_dec 0 (1 * (S * e - K))); nra.
    - set (sd := sigma * sqrt T). set (d1 := ln (S * e / K) / sd + IZR 1 / IZR 2 * sd).
      pose proof (Phi_range (d1 * 1)) as [A1 A2]. pose proof (Phi_range ((d1 - sd) * 1)) as [B1 B2].
      assert (S * e * Phi (d1 * 1) <= S * e) by nra. assert (0 <= K * Phi ((d1 - sd) * 1)) by nra. nra.
  Qed.
  Lemma bs_put_upper r d S sigma K T : 0 <= S -> 0 <= K ->
    bs_put Phi r d S sigma K T <= exp (- r * T) * K.
  Proof.
    intros HS HK. unfold bs_put, bs_call_put. cbv zeta.
    set (df := exp (- r * T)). set (e := exp ((r - d) * T)).
    assert (Hdf : 0 < df) by apply exp_pos. assert (He : 0 < e) by apply exp_pos.
    assert (Hf : 0 <= S * e) by nra.
    destruct (_ || _ || _).
    - replace (IZR 0 / IZR 1) with 0 by field. unfold Rmax. destruct (Rle_dec 0 (-1 * (S * e - K))); nra.
    - set (sd := sigma * sqrt T). set (d1 := ln (S * e / K) / sd + IZR 1 / IZR 2 * sd).
      pose proof (Phi_range (d1 * -1)) as [A1 A2]. pose proof (Phi_range ((d1 - sd) * -1)) as [B1 B2].
      assert (0 <= S * e * Phi (d1 * -1)) by nra. assert (K * Phi ((d1 - sd) * -1) <= K) by nra. nra.
  Qed.
End BS.

(* ------------------------------------------------------------------ exponential model: martingale forward, linear shifts cancel *)
Lemma exp_mean_martingale kappa r d t : exp_mean (exp_mgf kappa r d) t = exp ((r - d) * t).
Proof.
  unfold exp_mean, exp_std_moment, exp_mgf, exp_mgf_formula, exp_drift, exp_omega, exp_exponent_at_minus_i, levy_mgf.
  rewrite <- exp_plus. f_equal. ring.
Qed.
(* the constructor's guard on the data (isfinite z, Re z, Im z): success iff z is finite and numerically real *)
Lemma exp_omega_checked_spec finite1 z_re z_im :
  exp_omega_checked finite1 z_re z_im
  = if finite1 && Rleb (Rabs z_im) (1 / 1000000000000 * Rmax 1 (Rabs z_re)) then Some (- z_re) else None.
Proof.
  unfold exp_omega_checked, exp_omega_raises, exp_omega.
  replace (IZR 1 / IZR 1000000000000 * Rmax (IZR 1 / IZR 1) (Rabs z_re)) with (1 / 1000000000000 * Rmax 1 (Rabs z_re))
    by (replace (IZR 1 / IZR 1) with 1 by field; reflexivity).
  set (t := 1 / 1000000000000 * Rmax 1 (Rabs z_re)).
  destruct finite1; simpl; [|reflexivity].
  unfold Rltb, Rleb. destruct (Rlt_dec t (Rabs z_im)), (Rle_dec (Rabs z_im) t); try reflexivity; exfalso; lra.
Qed.
(* sufficient conditions without Rmax, for the case lemmas of the correspondence *)
Lemma exp_omega_checked_none re im : 1 / 1000000000000 * (1 + Rabs re) < Rabs im -> exp_omega_checked true re im = None.
Proof.
  intro H. rewrite exp_omega_checked_spec. simpl.
  assert (F : Rleb (Rabs im) (1 / 1000000000000 * Rmax 1 (Rabs re)) = false).
  { apply Rleb_false. eapply Rle_lt_trans; [|exact H]. apply Rmult_le_compat_l; [lra|].
    pose proof (Rabs_pos re). apply Rmax_lub; lra. }
  rewrite F. reflexivity.
Qed.
Lemma exp_omega_checked_some re im : Rabs im <= 1 / 1000000000000 -> exp_omega_checked true re im = Some (- re).
Proof.
  intro H. rewrite exp_omega_checked_spec. simpl.
  assert (T : Rleb (Rabs im) (1 / 1000000000000 * Rmax 1 (Rabs re)) = true).
  { apply Rleb_true. eapply Rle_trans; [exact H|]. pose proof (Rmax_l 1 (Rabs re)). nra. }
  rewrite T. reflexivity.
Qed.
Lemma exp_omega_checked_real finite1 kappa :
  exp_omega_checked finite1 (exp_exponent_at_minus_i kappa) 0 = if finite1 then Some (- kappa 1) else None.
Proof.
  rewrite exp_omega_checked_spec. unfold exp_exponent_at_minus_i.
  assert (E : Rleb (Rabs 0) (1 / 1000000000000 * Rmax 1 (Rabs (kappa 1))) = true).
  { apply Rleb_true. rewrite Rabs_R0. apply Rmult_le_pos; [lra|]. eapply Rle_trans; [|apply Rmax_l]. lra. }
  rewrite E. destruct finite1; reflexivity.
Qed.

(* a linear term c*u in the exponent is absorbed by omega = -kappa(1): the law of S_t does not see it *)
Lemma exp_mgf_shift kappa1 kappa2 c r d ls t u :
  kappa2 u = kappa1 u - c * u -> kappa2 1 = kappa1 1 - c * 1 ->
  exp_mgf kappa2 r d ls t u = exp_mgf kappa1 r d ls t u.
Proof.
  intros Hu H1. unfold exp_mgf, exp_mgf_formula, exp_drift, exp_omega, exp_exponent_at_minus_i, levy_mgf.
  rewrite Hu, H1. rewrite <- !exp_plus. f_equal. ring.
Qed.

(* put-call parity with every leg computed as the code computes it: forward = df * (spot * model.mean(T) - K) with
   model.mean generated from the exponential model (omega = -kappa(1)), df = exp(-r T); put = K * (pricing sum);
   call = forward + put (COS) resp. put = call - forward (FFT) *)
Lemma cos_parity_model kappa r d S K T pf :
  cos_call (exp_df r T) (cos_fwd S (exp_mean (exp_mgf kappa r d) T)) (cos_put K pf) K - cos_put K pf
  = S * exp (- d * T) - K * exp (- r * T)
  /\ cos_forward (exp_df r T) (cos_fwd S (exp_mean (exp_mgf kappa r d) T)) K = S * exp (- d * T) - K * exp (- r * T).
Proof.
  rewrite exp_mean_martingale. unfold cos_call, cos_forward, cos_fwd, cos_put, exp_df. split.
  - rewrite <- disc_fwd. ring.
  - apply disc_fwd.
Qed.
Lemma fft_parity_model kappa r d S K T call :
  call - fft_put (fft_df r T) (fft_fwd S (exp_mean (exp_mgf kappa r d) T)) call K = S * exp (- d * T) - K * exp (- r * T).
Proof. rewrite exp_mean_martingale. unfold fft_put, fft_df, fft_fwd. rewrite <- disc_fwd. ring. Qed.

(* ------------------------------------------------------------------ the Gaussian integral PhiR is symmetric *)
Lemma gauss_continuous z : continuous (fun t : R => exp (- (t * t) / 2)) z.
Proof. apply (ex_derive_continuous (fun t : R => exp (- (t * t) / 2))). auto_derive. exact I. Qed.
Lemma gauss_RInt_odd x : RInt (fun t => exp (- (t * t) / 2)) 0 (- x) = - RInt (fun t => exp (- (t * t) / 2)) 0 x.
Proof.
  set (f := fun t : R => exp (- (t * t) / 2)).
  assert (H : is_RInt f 0 x (RInt f 0 x)). { apply (@RInt_correct R_CompleteNormedModule). apply (@ex_RInt_continuous R_CompleteNormedModule). intros z _. apply gauss_continuous. }
  assert (H1 : is_RInt f (- 0) (- - x) (RInt f 0 x)). { replace (- 0) with 0 by ring. replace (- - x) with x by ring. exact H. }
  apply (is_RInt_comp_opp f 0 (- x)) in H1.
  apply (@is_RInt_opp R_NormedModule) in H1.
  apply is_RInt_unique.
  apply (is_RInt_ext (fun y : R => opp (opp (f (- y))))); [|exact H1].
  intros y _. unfold opp; simpl. unfold f. replace (- y * - y) with (y * y) by ring. ring.
Qed.
Lemma PhiR_symmetric x : PhiR x + PhiR (- x) = 1.
Proof. unfold PhiR. rewrite gauss_RInt_odd. field. apply Rgt_not_eq, sqrt_lt_R0. pose proof PI_RGT_0. lra. Qed.

(* ------------------------------------------------------------------ VG is CGMY with C = 1/nu, G = lambda_-, M = lambda_+, Y = 0 *)
Lemma vg_cgmy_exponent sigma nu theta x CG GY MY :
  0 < sigma -> 0 < nu ->
  0 < 1 + x / vgR_lambda_m sigma nu theta -> 0 < 1 - x / vgR_lambda_p sigma nu theta ->
  cgmy_exponent (vgR_c sigma nu theta) (vgR_lambda_m sigma nu theta) (vgR_lambda_p sigma nu theta) 0 CG GY MY x
  = vg_exponent sigma nu theta x - theta * x.
Proof.
  intros Hs Hn HG HM.
  unfold cgmy_exponent, vg_exponent. cbv zeta.
  assert (E : Reqb 0 (IZR 0) = true) by (apply Reqb_true; reflexivity). rewrite E.
  rewrite <- ln_mult by assumption.
  set (G := vgR_lambda_m sigma nu theta) in *. set (M := vgR_lambda_p sigma nu theta) in *.
  assert (Harg : 0 <= theta ^ 2 + 2 * sigma ^ 2 / nu).
  { assert (0 < 2 * sigma ^ 2 / nu). { apply Rdiv_lt_0_compat; nra. } nra. }
  pose proof (sqrt_sqrt _ Harg) as Hss. pose proof (sqrt_pos (theta ^ 2 + 2 * sigma ^ 2 / nu)) as Hsp.
  assert (EM : M = (sqrt (theta ^ 2 + 2 * sigma ^ 2 / nu) - theta) / sigma ^ 2).
  { unfold M, vgR_lambda_p. cbv zeta. field. nra. }
  assert (EG : G = (sqrt (theta ^ 2 + 2 * sigma ^ 2 / nu) + theta) / sigma ^ 2).
  { unfold G, vgR_lambda_m. cbv zeta. field. nra. }
  set (s := sqrt (theta ^ 2 + 2 * sigma ^ 2 / nu)) in *.
  assert (HD : 0 < s * s - theta ^ 2).
  { rewrite Hss. assert (0 < 2 * sigma ^ 2 / nu). { apply Rdiv_lt_0_compat; nra. } lra. }
  assert (Hp : 0 < s - theta) by nra. assert (Hm : 0 < s + theta) by nra.
  assert (Hnu : nu = 2 * sigma ^ 2 / (s * s - theta ^ 2)).
  { rewrite Hss. field. split; [lra|]. intro Z. assert (0 < 2 * sigma ^ 2) by nra. lra. }
  assert (Hprod : (1 + x / G) * (1 - x / M) = IZR 1 / IZR 1 - IZR 1 / IZR 2 * nu * (x * sigma) ^ 2 - theta * nu * x).
  { rewrite EG, EM. clearbody s. clear Hss HG HM EG EM. rewrite Hnu. field. repeat split; try lra; nra. }
  assert (Hlin : IZR 1 / M - IZR 1 / G = theta * nu).
  { rewrite EG, EM. clearbody s. clear Hss HG HM EG EM Hprod. rewrite Hnu. field. repeat split; try lra; nra. }
  rewrite Hprod. replace (vgR_c sigma nu theta) with (/ nu) by (unfold vgR_c; cbv zeta; field; lra).
  replace (/ nu * x * (IZR 1 / M - IZR 1 / G)) with (theta * x) by (rewrite Hlin; field; lra).
  field. lra.
Qed.

(* hence the exponential models built on the two exponents (any common drift a and diffusion coefficient sd of the triplet)
   have the same moment generating function E[S_t^u], although the raw exponents differ by theta*u *)
Lemma vg_cgmy_same_law sigma nu theta CG GY MY a sd r d ls t u :
  0 < sigma -> 0 < nu ->
  0 < 1 + u / vgR_lambda_m sigma nu theta -> 0 < 1 - u / vgR_lambda_p sigma nu theta ->
  0 < 1 + 1 / vgR_lambda_m sigma nu theta -> 0 < 1 - 1 / vgR_lambda_p sigma nu theta ->
  exp_mgf (levy_kappa a sd (cgmy_exponent (vgR_c sigma nu theta) (vgR_lambda_m sigma nu theta) (vgR_lambda_p sigma nu theta) 0 CG GY MY)) r d ls t u
  = exp_mgf (levy_kappa a sd (vg_exponent sigma nu theta)) r d ls t u.
Proof.
  intros Hs Hn Hu1 Hu2 H11 H12. apply (exp_mgf_shift _ _ theta); unfold levy_kappa.
  - rewrite vg_cgmy_exponent by assumption. ring.
  - rewrite vg_cgmy_exponent by assumption. ring.
Qed.

(* ------------------------------------------------------------------ statements as they appear in Properties/C18.v *)
Definition Phi_like (Phi : R -> R) : Prop :=
  (forall x, Phi x + Phi (- x) = 1) /\ (forall x, 0 <= Phi x <= 1) /\ (forall x y, x <= y -> Phi x <= Phi y).

Lemma parity_exact_all :
  (forall kappa r d S K T pf,
      cos_call (exp_df r T) (cos_fwd S (exp_mean (exp_mgf kappa r d) T)) (cos_put K pf) K - cos_put K pf
      = S * exp (- d * T) - K * exp (- r * T)
      /\ cos_forward (exp_df r T) (cos_fwd S (exp_mean (exp_mgf kappa r d) T)) K = S * exp (- d * T) - K * exp (- r * T))
  /\ (forall kappa r d S K T call,
      call - fft_put (fft_df r T) (fft_fwd S (exp_mean (exp_mgf kappa r d) T)) call K = S * exp (- d * T) - K * exp (- r * T))
  /\ (forall Phi, Phi_like Phi -> forall r d S sigma K T, 0 < S -> 0 < K -> 0 < sigma -> 0 < T ->
        bs_call Phi r d S sigma K T - bs_put Phi r d S sigma K T = S * exp (- d * T) - K * exp (- r * T)
        /\ bs_forward r d S K T = S * exp (- d * T) - K * exp (- r * T)).
Proof.
  repeat apply conj.
  - exact cos_parity_model. - exact fft_parity_model.
  - intros Phi (Hs & _ & _) r d S sigma K T _ _ _ _. split.
    + rewrite bs_parity by exact Hs. apply disc_fwd.
    + reflexivity.
Qed.

Lemma vg_is_cgmy_all : forall sigma nu theta CG GY MY,
  0 < sigma -> 0 < nu ->
  (forall x, 0 < 1 + x / vgR_lambda_m sigma nu theta -> 0 < 1 - x / vgR_lambda_p sigma nu theta ->
     cgmy_exponent (vgR_c sigma nu theta) (vgR_lambda_m sigma nu theta) (vgR_lambda_p sigma nu theta) 0 CG GY MY x
     = vg_exponent sigma nu theta x - theta * x)
  /\ (forall a sd r d ls t u,
     0 < 1 + u / vgR_lambda_m sigma nu theta -> 0 < 1 - u / vgR_lambda_p sigma nu theta ->
     0 < 1 + 1 / vgR_lambda_m sigma nu theta -> 0 < 1 - 1 / vgR_lambda_p sigma nu theta ->
     exp_mgf (levy_kappa a sd (cgmy_exponent (vgR_c sigma nu theta) (vgR_lambda_m sigma nu theta) (vgR_lambda_p sigma nu theta) 0 CG GY MY)) r d ls t u
     = exp_mgf (levy_kappa a sd (vg_exponent sigma nu theta)) r d ls t u).
Proof.
  intros sigma nu theta CG GY MY Hs Hn. split.
  - intros x H1 H2. apply vg_cgmy_exponent; assumption.
  - intros. apply vg_cgmy_same_law; assumption.
Qed.

Lemma omega_guard_all :
  (* the generated guard, on the observed data of z = complex(levy_exponent(-1j)) *)
  (forall finite1 z_re z_im, exp_omega_checked finite1 z_re z_im
      = if finite1 && Rleb (Rabs z_im) (1 / 1000000000000 * Rmax 1 (Rabs z_re)) then Some (- z_re) else None)
  (* per family, UNDER the stated link between the data and the parameters (finite, real and equal to kappa(1) exactly when the
     right-tail rate exceeds 1 -- a hypothesis about the closed-form exponents, discharged only by the harness oracle):
     the constructor succeeds iff 1 < tail rate, and then omega = -kappa(1), hence the martingale forward *)
  /\ (forall tail_rate finite1 z_re z_im kappa,
        (strip_contains_one tail_rate = true -> finite1 = true /\ z_im = 0 /\ z_re = kappa 1) ->
        (strip_contains_one tail_rate = false -> finite1 = false \/ 1 / 1000000000000 * Rmax 1 (Rabs z_re) < Rabs z_im) ->
        (exp_omega_checked finite1 z_re z_im <> None <-> 1 < tail_rate)
        /\ (forall w r d t, exp_omega_checked finite1 z_re z_im = Some w ->
              w = exp_omega (exp_exponent_at_minus_i kappa) /\ exp_mean (exp_mgf kappa r d) t = exp ((r - d) * t))).
Proof.
  split; [exact exp_omega_checked_spec|].
  intros tail_rate finite1 z_re z_im kappa Hin Hout. unfold strip_contains_one in *.
  destruct (Rltb 1 tail_rate) eqn:E.
  - destruct (Hin eq_refl) as (-> & -> & ->). apply Rltb_true in E.
    change (kappa 1) with (exp_exponent_at_minus_i kappa). rewrite exp_omega_checked_real. split.
    + split; [intros _; exact E | intros _; discriminate].
    + intros w r d t H. inversion H; subst. split; [reflexivity | apply exp_mean_martingale].
  - assert (N : exp_omega_checked finite1 z_re z_im = None).
    { rewrite exp_omega_checked_spec. destruct (Hout eq_refl) as [-> | Hlt]; [reflexivity|].
      destruct finite1; [|reflexivity]. simpl. assert (F : Rleb (Rabs z_im) (1 / 1000000000000 * Rmax 1 (Rabs z_re)) = false) by (apply Rleb_false; exact Hlt).
      rewrite F. reflexivity. }
    apply Rltb_false in E. split.
    + split; [intro H; contradiction | intro H; exfalso; lra].
    + intros w r d t H. rewrite N in H. discriminate.
Qed.

Lemma hem_omega_guard_all : forall eta1 finite1 z_re z_im kappa,
  (1 < eta1 -> finite1 = true /\ z_im = 0 /\ z_re = kappa 1) ->
  (hem_exp_omega_checked eta1 finite1 z_re z_im <> None <-> 1 < eta1)
  /\ (forall w, hem_exp_omega_checked eta1 finite1 z_re z_im = Some w -> w = - kappa 1).
Proof.
  intros eta1 finite1 z_re z_im kappa Hin. unfold hem_exp_omega_checked, hem_exp_raises.
  destruct (Rleb eta1 (IZR 1)) eqn:E.
  - apply Rleb_true in E. split; [split; [intro H; contradiction | intro H; exfalso; lra]|]. intros w H. discriminate.
  - apply Rleb_false in E. destruct (Hin E) as (-> & -> & ->).
    change (kappa 1) with (exp_exponent_at_minus_i kappa). rewrite exp_omega_checked_real. unfold exp_exponent_at_minus_i. split.
    + split; [intros _; exact E | intros _; discriminate].
    + intros w H. inversion H. reflexivity.
Qed.

Lemma cgmy_exp_raises_spec m y : cgmy_exp_raises m y = false <-> 1 < m \/ (m = 1 /\ 0 < y).
Proof.
  unfold cgmy_exp_raises. rewrite orb_false_iff, andb_false_iff. split.
  - intros [A [B | B]].
    + apply Rltb_false in A. destruct (Reqb m (IZR 1)) eqn:E; [discriminate|].
      left. destruct (Rle_lt_or_eq_dec _ _ A) as [L|L]; [exact L|]. exfalso.
      assert (Reqb m (IZR 1) = true) by (apply Reqb_true; symmetry; exact L). congruence.
    + apply Rltb_false in A. apply Rleb_false in B. destruct (Rle_lt_or_eq_dec _ _ A) as [L|L]; [left; exact L | right; split; [symmetry; exact L | exact B]].
  - intros [L | [E L]].
    + split; [apply Rltb_false; lra|]. left. destruct (Reqb m (IZR 1)) eqn:Q; auto. apply Reqb_true in Q. lra.
    + split; [apply Rltb_false; lra|]. right. apply Rleb_false. exact L.
Qed.
Lemma cgmy_omega_guard_all : forall m y finite1 z_re z_im kappa,
  (1 < m \/ (m = 1 /\ 0 < y) -> finite1 = true /\ z_im = 0 /\ z_re = kappa 1) ->
  (cgmy_exp_omega_checked m y finite1 z_re z_im <> None <-> 1 < m \/ (m = 1 /\ 0 < y))
  /\ (forall w, cgmy_exp_omega_checked m y finite1 z_re z_im = Some w -> w = - kappa 1).
Proof.
  intros m y finite1 z_re z_im kappa Hin. unfold cgmy_exp_omega_checked.
  destruct (cgmy_exp_raises m y) eqn:E.
  - assert (N : ~ (1 < m \/ (m = 1 /\ 0 < y))). { intro H. apply cgmy_exp_raises_spec in H. congruence. }
    split; [split; [intro H; contradiction | intro H; contradiction]|]. intros w H. discriminate.
  - apply cgmy_exp_raises_spec in E. destruct (Hin E) as (-> & -> & ->).
    change (kappa 1) with (exp_exponent_at_minus_i kappa). rewrite exp_omega_checked_real. unfold exp_exponent_at_minus_i. split.
    + split; [intros _; exact E | intros _; discriminate].
    + intros w H. inversion H. reflexivity.
Qed.

Lemma coefficients_all : forall uninit k a b, b <> a ->
  (forall c d, is_RInt (fun y => exp y * cosk k a b y) c d (cos_xi k a b c d))
  /\ (forall c d, is_RInt (fun y => cosk k a b y) c d (cos_psi uninit k a b c d))
  /\ is_RInt (fun y => 2 / (b - a) * ((1 - exp y) * cosk k a b y)) a 0 (cos_u_put uninit k a b)
  /\ is_RInt (fun y => 2 / (b - a) * cosk k a b y) 0 b (cos_digital_vk uninit k a b).
Proof.
  intros uninit k a b Hab. repeat apply conj.
  - intros c d. apply xi_coefficient. - intros c d. apply psi_coefficient, Hab.
  - apply u_put_coefficient, Hab. - apply digital_coefficient, Hab.
Qed.

Lemma simpson_all : forall eta,
  fft_simpson_w eta 0 = eta / 3
  /\ (forall i, fft_simpson_w eta (2 * i + 1) = 4 * eta / 3)
  /\ (forall i, fft_simpson_w eta (2 * i + 2) = 2 * eta / 3)
  /\ (forall j, fft_simpson_w eta j = simpson_target eta j).
Proof. intro eta. repeat apply conj. apply simpson_0. apply simpson_odd. apply simpson_even. apply simpson_weights. Qed.

Lemma bs_closed_form_all : forall Phi, Phi_like Phi -> forall r d S sigma K T, 0 < S -> 0 < K -> 0 <= sigma -> 0 <= T ->
  (bs_call Phi r d S sigma K T - bs_put Phi r d S sigma K T = bs_forward r d S K T)
  /\ (bs_call Phi r d S sigma K T <= exp (- r * T) * (S * exp ((r - d) * T)))
  /\ (bs_put Phi r d S sigma K T <= exp (- r * T) * K)
  /\ (bs_degenerate S sigma T = true -> forall flag,
        bs_call_put Phi r d S sigma flag K T = exp (- r * T) * Rmax 0 (flag * (S * exp ((r - d) * T) - K))).
Proof.
  intros Phi (Hs & Hr & _) r d S sigma K T HS HK _ _. repeat apply conj.
  - apply bs_parity_forward, Hs. - apply bs_call_upper; [exact Hr | lra | lra]. - apply bs_put_upper; [exact Hr | lra | lra].
  - intros H flag. apply bs_degenerate_intrinsic, H.
Qed.

Lemma nonvacuous :
  Phi_like (fun x => if Rle_dec 0 x then (if Rle_dec x 0 then 1 / 2 else 1) else 0)
  /\ (0 < 1 + 0 / vgR_lambda_m 1 1 0 /\ 0 < 1 - 0 / vgR_lambda_p 1 1 0)
  /\ fft_simpson_w 3 3 = 4.
Proof.
  split; [|split].
  - repeat split.
    + intro x. destruct (Rle_dec 0 x), (Rle_dec x 0), (Rle_dec 0 (- x)), (Rle_dec (- x) 0); lra.
    + destruct (Rle_dec 0 x); [destruct (Rle_dec x 0)|]; lra.
    + destruct (Rle_dec 0 x); [destruct (Rle_dec x 0)|]; lra.
    + intros x y H. destruct (Rle_dec 0 x), (Rle_dec x 0), (Rle_dec 0 y), (Rle_dec y 0); lra.
  - unfold Rdiv. rewrite !Rmult_0_l. lra.
  - replace 3%nat with (2 * 1 + 1)%nat by reflexivity. rewrite simpson_odd. field.
Qed.

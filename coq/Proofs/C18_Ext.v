(* C18, wave 5: sum-level theorems about the COS pricer for ALL N (cdf = mass of the truncated series, parity against the direct COS
   call, butterfly), the truncation window, and the closed-form digital / static bounds over an abstract Phi. *)
From Coq Require Import Reals Lra Lia Bool Arith.
From Coquelicot Require Import Coquelicot.
From RV Require Import Base.RB Gen.GenC18Cos Model.Cos Model.CosSum Model.CosExt Proofs.C18_Cos Proofs.C18_Sum.
Open Scope R_scope.

(* ------------------------------------------------------------------ cos_sum is linear in the coefficient vector *)
Lemma cos_sum_minus n A V W : cos_sum n A (fun k => V k - W k) = cos_sum n A V - cos_sum n A W.
Proof. unfold cos_sum. induction n as [|n IH]; simpl; [ring | rewrite IH; ring]. Qed.
Lemma cos_sum_ext n A V W : (forall k, V k = W k) -> cos_sum n A V = cos_sum n A W.
Proof. intro H. unfold cos_sum. induction n as [|n IH]; simpl; [rewrite H; reflexivity | rewrite IH, H; reflexivity]. Qed.

(* ------------------------------------------------------------------ cdf = mass of the truncated series below the strike *)
Lemma digital_price_eq uninit n A a b df :
  cos_digital_price uninit n A a b df = df * cos_sum n A (cos_digital_coeffs uninit a b).
Proof. reflexivity. Qed.
Lemma cdf_value_eq uninit n A a b df : df <> 0 ->
  cos_cdf_value uninit n A a b df = 1 - cos_sum n A (cos_digital_coeffs uninit a b).
Proof. intro H. unfold cos_cdf_value. rewrite digital_price_eq. apply cos_cdf_undiscounted, H. Qed.

Lemma series_mass_below uninit n A a b : b <> a ->
  is_RInt (fun y => cos_density n A a b y) a 0 (A 0%nat - cos_sum n A (cos_digital_coeffs uninit a b)).
Proof.
  intro Hab.
  pose proof (density_integrates_to_A0 A a b n Hab) as Hall.
  pose proof (digital_is_integral uninit A a b n Hab) as Hdig.
  assert (Hdig' : is_RInt (fun y => cos_density n A a b y) 0 b (cos_sum n A (cos_digital_coeffs uninit a b))).
  { apply (is_RInt_ext (fun y => 1 * cos_density n A a b y)); [intros y _; simpl; ring | exact Hdig]. }
  apply is_RInt_swap in Hdig'.
  pose proof (is_RInt_Chasles _ _ _ _ _ _ Hall Hdig') as H.
  replace (A 0%nat - cos_sum n A (cos_digital_coeffs uninit a b)) with (plus (A 0%nat) (opp (cos_sum n A (cos_digital_coeffs uninit a b)))).
  - exact H.
  - unfold plus, opp; simpl. ring.
Qed.

Lemma cdf_is_mass uninit n A a b df : b <> a -> df <> 0 ->
  is_RInt (fun y => cos_density n A a b y) a 0 (cos_cdf_value uninit n A a b df - (1 - A 0%nat)).
Proof.
  intros Hab Hdf. rewrite cdf_value_eq by exact Hdf.
  replace (1 - cos_sum n A (cos_digital_coeffs uninit a b) - (1 - A 0%nat)) with (A 0%nat - cos_sum n A (cos_digital_coeffs uninit a b)) by ring.
  apply series_mass_below, Hab.
Qed.

Lemma digital_from_cdf uninit n A a b df : df <> 0 ->
  cos_digital_price uninit n A a b df = df * (1 - cos_cdf_value uninit n A a b df).
Proof. intro H. rewrite cdf_value_eq by exact H. rewrite digital_price_eq. ring. Qed.

(* IF the truncated series is non-negative on the window and A_0 = 1 THEN the cdf is a probability *)
Lemma cdf_in_unit_interval uninit n A a b df : a < b -> a <= 0 <= b -> df <> 0 -> A 0%nat = 1 ->
  (forall y, a <= y <= b -> 0 <= cos_density n A a b y) ->
  0 <= cos_cdf_value uninit n A a b df <= 1.
Proof.
  intros Hab [Ha Hb] Hdf HA Hpos. assert (Hne : b <> a) by lra. split.
  - pose proof (cdf_is_mass uninit n A a b df Hne Hdf) as HI. rewrite HA in HI.
    replace (cos_cdf_value uninit n A a b df) with (cos_cdf_value uninit n A a b df - (1 - 1)) by ring.
    rewrite <- (is_RInt_unique _ _ _ _ HI). apply RInt_ge_0; [exact Ha | eexists; exact HI |].
    intros y Hy. apply Hpos. lra.
  - rewrite cdf_value_eq by exact Hdf.
    assert (0 <= cos_sum n A (cos_digital_coeffs uninit a b)); [|lra].
    apply digital_nonneg; try assumption. intros y Hy. apply Hpos. lra.
Qed.

(* ------------------------------------------------------------------ parity at the level of the sums, for every N *)
(* the coefficient integrals are additive in the integration range: algebra on the generated xi / psi *)
Lemma cos_xi_additive k a b c m d : cos_xi k a b c m + cos_xi k a b m d = cos_xi k a b c d.
Proof. rewrite !cos_xi_eq. ring. Qed.
Lemma cos_psi_additive uninit k a b c m d : cos_psi uninit k a b c m + cos_psi uninit k a b m d = cos_psi uninit k a b c d.
Proof.
  destruct (Req_EM_T k 0) as [-> | Hk].
  - rewrite !cos_psi_zero. ring.
  - rewrite !cos_psi_nonzero by exact Hk. ring.
Qed.
Lemma coeff_parity uninit k a b : cos_u_call uninit k a b - cos_u_put uninit k a b = cos_u_fwd uninit k a b.
Proof.
  unfold cos_u_call, cos_u_put, cos_u_fwd. replace (IZR 0 / IZR 1) with 0 by field.
  rewrite <- (cos_xi_additive k a b a 0 b), <- (cos_psi_additive uninit k a b a 0 b).
  replace (IZR 2) with 2 by reflexivity. ring.
Qed.
Lemma sum_parity uninit n A a b :
  cos_sum n A (cos_call_coeffs uninit a b) - cos_sum n A (cos_put_coeffs uninit a b) = cos_sum n A (cos_fwd_coeffs uninit a b).
Proof.
  rewrite <- cos_sum_minus. apply cos_sum_ext. intro k. unfold cos_call_coeffs, cos_put_coeffs, cos_fwd_coeffs. apply coeff_parity.
Qed.

(* the yardstick coefficients are the exact cosine coefficients of e^y - 1 on [0,b] resp. on [a,b] *)
Lemma u_call_coefficient uninit k a b : b <> a ->
  is_RInt (fun y => 2 / (b - a) * ((exp y - 1) * cosk k a b y)) 0 b (cos_u_call uninit k a b).
Proof.
  intro Hab. unfold cos_u_call.
  apply (is_RInt_ext (fun y => scal (2 / (b - a)) (plus (exp y * cosk k a b y) (opp (cosk k a b y))))).
  - intros y _. unfold scal, plus, opp; simpl. unfold mult; simpl. ring.
  - apply @is_RInt_scal. apply @is_RInt_plus; [apply xi_coefficient | apply @is_RInt_opp; apply psi_coefficient, Hab].
Qed.
Lemma u_fwd_coefficient uninit k a b : b <> a ->
  is_RInt (fun y => 2 / (b - a) * ((exp y - 1) * cosk k a b y)) a b (cos_u_fwd uninit k a b).
Proof.
  intro Hab. unfold cos_u_fwd.
  apply (is_RInt_ext (fun y => scal (2 / (b - a)) (plus (exp y * cosk k a b y) (opp (cosk k a b y))))).
  - intros y _. unfold scal, plus, opp; simpl. unfold mult; simpl. ring.
  - apply @is_RInt_scal. apply @is_RInt_plus; [apply xi_coefficient | apply @is_RInt_opp; apply psi_coefficient, Hab].
Qed.

(* the call the code returns (forward + put) against the call the COS method prices directly *)
Lemma call_by_parity_vs_direct uninit n A a b df fwd K :
  cos_call_price uninit n A a b df fwd K - cos_call_direct uninit n A a b df K
  = cos_forward df fwd K - cos_fwd_direct uninit n A a b df K.
Proof.
  unfold cos_call_price, cos_call_direct, cos_fwd_direct, cos_put_price, cos_call, cos_put, cos_pricing_formula.
  rewrite <- (sum_parity uninit n A a b). ring.
Qed.

(* ------------------------------------------------------------------ butterfly *)
Lemma butterfly_spreads c1 c2 c3 : cos_butterfly c1 c2 c3 = (c1 - c2) - (c2 - c3) /\ bs_butterfly c1 c2 c3 = (c1 - c2) - (c2 - c3).
Proof. unfold cos_butterfly, bs_butterfly. split; ring. Qed.
Lemma cos_butterfly_calls_puts df fwd p1 p2 p3 K1 K2 K3 :
  cos_butterfly (cos_call df fwd p1 K1) (cos_call df fwd p2 K2) (cos_call df fwd p3 K3)
  = cos_butterfly p1 p2 p3 - df * (K1 - 2 * K2 + K3).
Proof. unfold cos_butterfly, cos_call, cos_forward. ring. Qed.

(* ------------------------------------------------------------------ the truncation window *)
Lemma window_delta_pos l c2 c4 c6 : 0 < l -> 0 < c2 -> 0 < cos_window_delta l c2 c4 c6.
Proof.
  intros Hl Hc. unfold cos_window_delta. apply Rmult_lt_0_compat; [exact Hl|]. apply sqrt_lt_R0.
  pose proof (sqrt_pos (c4 + sqrt c6)). lra.
Qed.
Lemma window_props c1 l c2 c4 c6 a b : cos_window c1 (cos_window_delta l c2 c4 c6) = (a, b) -> 0 < l -> 0 < c2 ->
  a < b /\ (a + b) / 2 = c1 /\ b - a = 2 * cos_window_delta l c2 c4 c6
  /\ (a <= 0 <= b <-> Rabs c1 <= cos_window_delta l c2 c4 c6).
Proof.
  intros E Hl Hc. pose proof (window_delta_pos l c2 c4 c6 Hl Hc) as Hd.
  unfold cos_window in E. inversion E; subst. set (dl := cos_window_delta l c2 c4 c6) in *.
  split; [lra|]. split; [lra|]. split; [lra|]. unfold Rabs. destruct (Rcase_abs c1); split.
  - intros [H1 H2]. lra. - intro H. split; lra. - intros [H1 H2]. lra. - intro H. split; lra.
Qed.

Lemma fwd_is_integral uninit (A : nat -> R) a b n : b <> a ->
  is_RInt (fun y => (exp y - 1) * cos_density n A a b y) a b (cos_sum n A (cos_fwd_coeffs uninit a b)).
Proof. intro H. apply cos_sum_is_integral. intro k. apply u_fwd_coefficient, H. Qed.
Lemma call_is_integral uninit (A : nat -> R) a b n : b <> a ->
  is_RInt (fun y => (exp y - 1) * cos_density n A a b y) 0 b (cos_sum n A (cos_call_coeffs uninit a b)).
Proof. intro H. apply cos_sum_is_integral. intro k. apply u_call_coefficient, H. Qed.

(* ------------------------------------------------------------------ statements as they appear in Properties/C18.v *)
Lemma cdf_is_truncated_mass_all : forall uninit n (A : nat -> R) a b df, b <> a -> df <> 0 ->
  is_RInt (fun y => cos_density n A a b y) a 0 (cos_cdf_value uninit n A a b df - (1 - A 0%nat))
  /\ cos_digital_price uninit n A a b df = df * (1 - cos_cdf_value uninit n A a b df)
  /\ (a <= 0 <= b -> A 0%nat = 1 -> (forall y, a <= y <= b -> 0 <= cos_density n A a b y) -> 0 <= cos_cdf_value uninit n A a b df <= 1).
Proof.
  intros uninit n A a b df Hab Hdf. repeat apply conj.
  - apply cdf_is_mass; assumption.
  - apply digital_from_cdf, Hdf.
  - intros H0 HA Hpos. destruct (Rtotal_order a b) as [L | [E | G]].
    + apply cdf_in_unit_interval; assumption.
    + exfalso. apply Hab. symmetry. exact E.
    + exfalso. lra.
Qed.

Lemma parity_all_N_all : forall uninit n (A : nat -> R) a b, b <> a ->
  (forall k, cos_u_call uninit k a b - cos_u_put uninit k a b = cos_u_fwd uninit k a b)
  /\ cos_sum n A (cos_call_coeffs uninit a b) - cos_sum n A (cos_put_coeffs uninit a b) = cos_sum n A (cos_fwd_coeffs uninit a b)
  /\ is_RInt (fun y => (exp y - 1) * cos_density n A a b y) 0 b (cos_sum n A (cos_call_coeffs uninit a b))
  /\ is_RInt (fun y => (exp y - 1) * cos_density n A a b y) a b (cos_sum n A (cos_fwd_coeffs uninit a b))
  /\ (forall df fwd K, cos_call_price uninit n A a b df fwd K - cos_call_direct uninit n A a b df K
                       = cos_forward df fwd K - cos_fwd_direct uninit n A a b df K).
Proof.
  intros uninit n A a b Hab. repeat apply conj.
  - intro k. apply coeff_parity. - apply sum_parity. - apply call_is_integral, Hab. - apply fwd_is_integral, Hab.
  - intros. apply call_by_parity_vs_direct.
Qed.

Lemma window_all : forall c1 l c2 c4 c6 a b, cos_window c1 (cos_window_delta l c2 c4 c6) = (a, b) -> 0 < l -> 0 < c2 ->
  a < b /\ (a + b) / 2 = c1 /\ b - a = 2 * (l * sqrt (c2 + sqrt (c4 + sqrt c6)))
  /\ (a <= 0 <= b <-> Rabs c1 <= l * sqrt (c2 + sqrt (c4 + sqrt c6))).
Proof. intros. change (l * sqrt (c2 + sqrt (c4 + sqrt c6))) with (cos_window_delta l c2 c4 c6). apply window_props; assumption. Qed.

Lemma ext_nonvacuous :
  (* a window from cumulants: l = 10, c2 = 1/25, c4 = c6 = 0 gives [-2, 2] *)
  cos_window 0 (cos_window_delta 10 (1 / 25) 0 0) = (-2, 2)
  (* a non-negative truncated series with A_0 = 1 and a second term: f(y) = 1/2 + 1/2 cos(pi (y+1)/2) on [-1,1] *)
  /\ (forall y, -1 <= y <= 1 -> 0 <= cos_density 1 (fun k => match k with O => 1 | _ => 1 / 2 end) (-1) 1 y).
Proof.
  split.
  - unfold cos_window, cos_window_delta. rewrite sqrt_0. replace (0 + 0) with 0 by ring. rewrite sqrt_0.
    replace (1 / 25 + 0) with ((1 / 5) * (1 / 5)) by field. rewrite sqrt_square by lra. f_equal; field.
  - intros y _. unfold cos_density, cos_weight. simpl sum_f_R0. unfold cosk. simpl INR.
    replace (0 * PI / (1 - -1) * (y - -1)) with 0 by (unfold Rdiv; ring). rewrite cos_0.
    pose proof (COS_bound (1 * PI / (1 - -1) * (y - -1))) as [L _].
    replace (2 / (1 - -1)) with 1 by field. lra.
Qed.

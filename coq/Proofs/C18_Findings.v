(* C18, wave 8b (audit5b A5 / D8).
   1. Two-sided enclosures of the Gaussian integral PhiR far from 0.  They are what lets the Interval case lemmas evaluate the GENERATED
      bs_call_put at PhiR for sigma just above the code's threshold 1e-8 (|d1| ~ 1e7, where the `integral` tactic is useless) -- the cases
      that tie the two branches of CFBlackScholes._call_put on both sides of the threshold.
   2. Finding F-C18-6: the generated VGParameters.__init__ (vgR_c / vgR_lambda_p, GenC18Cos) has no guard on nu; the only constraint of the
      class is the `positive` descriptor on sigma.  With nu < 0 the mass constant C = 1/nu of the Levy density C e^{-lambda |x|}/|x| is
      negative, and the radicand theta^2 + 2 sigma^2/nu of lambda_+ can be negative (numpy: nan; Coq's sqrt: 0). *)
From Coq Require Import Reals Lra.
From Coquelicot Require Import Coquelicot.
From RV Require Import Base.RB Gen.GenC18Cos Model.Cos Proofs.C18_Cos Proofs.C18_Gauss Proofs.C18_Shape.
Open Scope R_scope.

Lemma PhiR_enclosure_pos x : 0 <= x -> 1 - exp (- (x * x) / 2) / 2 <= PhiR x <= 1.
Proof. intro H. split; [apply PhiR_tail, H | apply PhiR_range]. Qed.

Lemma PhiR_enclosure_neg x : x <= 0 -> 0 <= PhiR x <= exp (- (x * x) / 2) / 2.
Proof.
  intro H. pose proof (PhiR_symmetric x) as Sy. assert (H' : 0 <= - x) by lra. pose proof (PhiR_tail _ H') as Tl.
  replace (- x * - x) with (x * x) in Tl by ring. split; [apply PhiR_range | lra].
Qed.

Lemma PhiR_enclosure_all : forall x,
  (0 <= x -> 1 - exp (- (x * x) / 2) / 2 <= PhiR x <= 1) /\ (x <= 0 -> 0 <= PhiR x <= exp (- (x * x) / 2) / 2).
Proof. intro x. split; [apply PhiR_enclosure_pos | apply PhiR_enclosure_neg]. Qed.

(* F-C18-6.  sigma = 1/10, nu = -1, theta = 1/10 is the recorded witness (COS call(100, 1) = -1.68993732 on the implementation). *)
Lemma vg_nu_unguarded : exists sigma nu theta, 0 < sigma
  /\ vgR_c sigma nu theta < 0
  /\ (pow theta 2) + 2 * (pow sigma 2) / nu < 0.
Proof.
  exists (1 / 10), (-1), (1 / 10). split; [lra|]. split.
  - unfold vgR_c. cbv zeta. lra.
  - simpl. lra.
Qed.

(* the negative constant for EVERY nu < 0, whatever sigma and theta: nothing in the generated constructor depends on the sign of nu *)
Lemma vg_nu_negative_activity sigma nu theta : nu < 0 -> vgR_c sigma nu theta < 0.
Proof. intro H. unfold vgR_c. cbv zeta. unfold Rdiv. rewrite Rmult_1_l. apply Rinv_lt_0_compat, H. Qed.

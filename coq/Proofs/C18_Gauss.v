(* C18, wave 5: the Gaussian integral.  (int_0^x e^{-t^2/2} dt)^2 <= pi/2 for every x, by the classical one-dimensional argument:
   F(x) = (int_0^x e^{-t^2/2} dt)^2 + 2 int_0^1 e^{-x^2 (1+s^2)/2} / (1+s^2) ds  has derivative 0 (differentiation under the integral,
   substitution u = x s) and F(0) = 2 atan 1 = pi/2.  Hence 0 <= PhiR <= 1 and, with symmetry and monotonicity, Phi_like PhiR:
   every theorem stated over an abstract Phi_like Phi holds for the Gaussian integral the Interval cases tie to scipy.stats.norm.cdf. *)
From Coq Require Import Reals Lra.
From Coquelicot Require Import Coquelicot.
From RV Require Import Base.RB Gen.GenC18Cos Model.Cos Proofs.C18_Cos Proofs.C18_Bs.
Open Scope R_scope.
Definition gs (t : R) : R := exp (- (t * t) / 2).
Definition GE (x : R) : R := RInt gs 0 x.
Definition GG (x : R) : R := RInt (fun s => exp (- (x * x) * (1 + s * s) / 2) / (1 + s * s)) 0 1.

Lemma gs_cont z : continuous gs z.
Proof. apply (ex_derive_continuous gs). unfold gs. auto_derive. exact I. Qed.
Lemma gs_ex a b : ex_RInt gs a b.
Proof. apply (@ex_RInt_continuous R_CompleteNormedModule). intros z _. apply gs_cont. Qed.

Lemma GE_derive (x : R) : is_derive GE x (gs x).
Proof.
  unfold GE. apply (is_derive_RInt gs (fun b => RInt gs 0 b) 0 x).
  - apply filter_forall. intro y. apply (@RInt_correct R_CompleteNormedModule). apply gs_ex.
  - apply gs_cont.
Qed.

Lemma one_plus_sq s : 0 < 1 + s * s.
Proof. nra. Qed.

Lemma gs_pointwise (x s : R) :
  - gs x * (x * gs (x * s + 0)) = - (1 * x + x * 1) * (1 + s * s) * / 2 * exp (- (x * x) * (1 + s * s) * / 2) * / (1 + s * s).
Proof.
  unfold gs. replace (- (x * x) * (1 + s * s) * / 2) with (- (x * x) / 2 + - ((x * s + 0) * (x * s + 0)) / 2) by field.
  rewrite exp_plus. field. pose proof (one_plus_sq s). lra.
Qed.

Lemma GG_derive (x : R) : is_derive GG x (- (gs x * GE x)).
Proof.
  unfold GG. auto_derive.
  - split; [|split; [|exact I]].
    + apply filter_forall. intro x0. apply (@ex_RInt_continuous R_CompleteNormedModule). intros z _.
      apply (ex_derive_continuous (fun x1 : R => exp (- (x0 * x0) * (1 + x1 * x1) * / 2) * / (1 + x1 * x1))).
      auto_derive. pose proof (one_plus_sq z). lra.
    + intros t _.
      apply (continuity_2d_pt_ext (fun x0 y : R => - x0 * exp (- (x0 * x0) * (1 + y * y) * / 2))).
      { intros x0 y. field. pose proof (one_plus_sq y). lra. }
      apply continuity_2d_pt_mult.
      * apply continuity_2d_pt_opp. apply continuity_2d_pt_id1.
      * apply (continuity_1d_2d_pt_comp exp).
        { apply derivable_continuous_pt. apply derivable_pt_exp. }
        apply continuity_2d_pt_mult; [|apply continuity_2d_pt_const].
        apply continuity_2d_pt_mult.
        -- apply continuity_2d_pt_opp. apply continuity_2d_pt_mult; apply continuity_2d_pt_id1.
        -- apply continuity_2d_pt_plus; [apply continuity_2d_pt_const|]. apply continuity_2d_pt_mult; apply continuity_2d_pt_id2.
  - apply is_RInt_unique.
    apply (is_RInt_ext (fun s => scal (- gs x) (scal x (gs (x * s + 0))))).
    + intros s _. change (scal (- gs x) (scal x (gs (x * s + 0)))) with (- gs x * (x * gs (x * s + 0))). apply gs_pointwise.
    + replace (- (gs x * GE x)) with (- gs x * GE x) by ring. change (- gs x * GE x) with (scal (- gs x) (GE x)).
      apply @is_RInt_scal. apply (is_RInt_comp_lin gs x 0 0 1).
      replace (x * 0 + 0) with 0 by ring. replace (x * 1 + 0) with x by ring.
      apply (@RInt_correct R_CompleteNormedModule). apply gs_ex.
Qed.

Definition FF (x : R) : R := GE x * GE x + 2 * GG x.
Lemma FF_derive (x : R) : is_derive FF x 0.
Proof.
  pose proof (GE_derive x) as H1. pose proof (GG_derive x) as H2.
  assert (H : is_derive (fun t => plus (mult (GE t) (GE t)) (scal 2 (GG t))) x
                (plus (plus (mult (gs x) (GE x)) (mult (GE x) (gs x))) (scal 2 (- (gs x * GE x))))).
  { apply @is_derive_plus.
    - apply (is_derive_mult GE GE x (gs x) (gs x) H1 H1). intros n m. apply Rmult_comm.
    - apply @is_derive_scal. exact H2. }
  replace 0 with (plus (plus (mult (gs x) (GE x)) (mult (GE x) (gs x))) (scal 2 (- (gs x * GE x)))).
  - exact H.
  - unfold plus, mult, scal; simpl; unfold mult; simpl. ring.
Qed.
Lemma FF_const (x : R) : FF x = FF 0.
Proof.
  destruct (MVT_gen FF 0 x (fun _ => 0)) as [c [_ Hc]].
  - intros y _. apply FF_derive.
  - intros y _. apply derivable_continuous_pt. exists 0. apply is_derive_Reals. apply FF_derive.
  - lra.
Qed.
Lemma atan_is_derive (s : R) : is_derive atan s (/ (1 + s * s)).
Proof. apply is_derive_Reals. replace (1 + s * s) with (1 + s ^ 2) by ring. apply derivable_pt_lim_atan. Qed.
Lemma integrand0 (s : R) : / (1 + s * s) = exp (- (0 * 0) * (1 + s * s) / 2) / (1 + s * s).
Proof. replace (- (0 * 0) * (1 + s * s) / 2) with 0 by field. rewrite exp_0. field. pose proof (one_plus_sq s). lra. Qed.
Lemma FF_0 : FF 0 = PI / 2.
Proof.
  unfold FF, GE. rewrite RInt_point. change (@zero R_NormedModule) with 0.
  assert (H : is_RInt (fun s : R => exp (- (0 * 0) * (1 + s * s) / 2) / (1 + s * s)) 0 1 (atan 1 - atan 0)).
  { apply (is_RInt_ext (fun s => / (1 + s * s))).
    - intros s _. apply integrand0.
    - apply (is_RInt_derive atan (fun s => / (1 + s * s))).
      + intros s _. apply atan_is_derive.
      + intros s _. apply (ex_derive_continuous (fun s : R => / (1 + s * s))). auto_derive. pose proof (one_plus_sq s). lra. }
  unfold GG. rewrite (is_RInt_unique _ _ _ _ H). rewrite atan_1, atan_0. unfold zero; simpl. lra.
Qed.
Lemma GG_nonneg (x : R) : 0 <= GG x.
Proof.
  unfold GG. apply RInt_ge_0; [lra | |].
  - apply (@ex_RInt_continuous R_CompleteNormedModule). intros z _.
    apply (ex_derive_continuous (fun x1 : R => exp (- (x * x) * (1 + x1 * x1) / 2) / (1 + x1 * x1))). auto_derive. pose proof (one_plus_sq z). lra.
  - intros s _. left. apply Rdiv_lt_0_compat; [apply exp_pos | apply one_plus_sq].
Qed.
Lemma GE_sq_bound (x : R) : GE x * GE x <= PI / 2.
Proof. pose proof (FF_const x) as H. rewrite FF_0 in H. unfold FF in H. pose proof (GG_nonneg x). lra. Qed.
Lemma GE_nonneg (x : R) : 0 <= x -> 0 <= GE x.
Proof. intro H. unfold GE. apply RInt_ge_0; [exact H | apply gs_ex |]. intros t _. left. apply exp_pos. Qed.
Lemma GE_bound (x : R) : 0 <= x -> / sqrt (2 * PI) * GE x <= 1 / 2.
Proof.
  intro Hx. pose proof (GE_nonneg x Hx) as H0. pose proof (GE_sq_bound x) as H1. pose proof PI_RGT_0 as Hpi.
  assert (Hs : 0 < sqrt (2 * PI)) by (apply sqrt_lt_R0; lra).
  assert (Hss : sqrt (2 * PI) * sqrt (2 * PI) = 2 * PI) by (apply sqrt_sqrt; lra).
  assert (GE x <= sqrt (2 * PI) / 2).
  { apply Rsqr_incr_0_var; [|lra]. unfold Rsqr. replace (sqrt (2 * PI) / 2 * (sqrt (2 * PI) / 2)) with (sqrt (2 * PI) * sqrt (2 * PI) / 4) by field. rewrite Hss. lra. }
  apply (Rmult_le_reg_l (sqrt (2 * PI))); [exact Hs|]. replace (sqrt (2 * PI) * (/ sqrt (2 * PI) * GE x)) with (GE x) by (field; lra). lra.
Qed.

Lemma PhiR_GE (x : R) : PhiR x = 1 / 2 + / sqrt (2 * PI) * GE x.
Proof. reflexivity. Qed.
Lemma PhiR_range (x : R) : 0 <= PhiR x <= 1.
Proof.
  assert (Hc : 0 < / sqrt (2 * PI)). { apply Rinv_0_lt_compat, sqrt_lt_R0. pose proof PI_RGT_0. lra. }
  assert (P : forall y, 0 <= y -> 1 / 2 <= PhiR y <= 1).
  { intros y Hy. rewrite PhiR_GE. pose proof (GE_bound y Hy). pose proof (GE_nonneg y Hy). split; [nra | lra]. }
  destruct (Rle_lt_dec 0 x) as [H | H].
  - pose proof (P x H). lra.
  - pose proof (P (- x) ltac:(lra)). pose proof (PhiR_symmetric x). lra.
Qed.
Lemma PhiR_Phi_like : Phi_like PhiR.
Proof. split; [exact PhiR_symmetric | split; [exact PhiR_range | exact PhiR_monotone]]. Qed.

(* ------------------------------------------------------------------ statements as they appear in Properties/C18.v *)
Lemma gauss_all :
  (forall x, RInt (fun t => exp (- (t * t) / 2)) 0 x * RInt (fun t => exp (- (t * t) / 2)) 0 x <= PI / 2)
  /\ Phi_like PhiR.
Proof. split; [exact GE_sq_bound | exact PhiR_Phi_like]. Qed.

Lemma bs_at_gaussian_all : forall r d S sigma K T, 0 < S -> 0 < K -> 0 <= sigma -> 0 <= T ->
  bs_call PhiR r d S sigma K T - bs_put PhiR r d S sigma K T = bs_forward r d S K T
  /\ bs_call PhiR r d S sigma K T <= exp (- r * T) * (S * exp ((r - d) * T))
  /\ bs_put PhiR r d S sigma K T <= exp (- r * T) * K
  /\ 0 <= bs_digital PhiR r d S sigma K T <= exp (- r * T)
  /\ (forall K2, K <= K2 -> bs_digital PhiR r d S sigma K2 T <= bs_digital PhiR r d S sigma K T)
  /\ (K <= S * exp ((r - d) * T) -> 0 <= bs_call PhiR r d S sigma K T)
  /\ (S * exp ((r - d) * T) <= K -> 0 <= bs_put PhiR r d S sigma K T).
Proof.
  intros r d S sigma K T HS HK Hs HT.
  destruct (bs_closed_form_all PhiR PhiR_Phi_like r d S sigma K T HS HK Hs HT) as (A1 & A2 & A3 & _).
  destruct (bs_digital_all PhiR PhiR_Phi_like r d S sigma T HS) as (B1 & B2 & _).
  destruct (bs_static_bounds_all PhiR PhiR_Phi_like r d S sigma K T HS HK Hs HT) as (C1 & C2).
  repeat apply conj; try assumption.
  - apply B1. - apply B1. - intros K2 H. apply B2. lra.
  - intro H. apply C1, H. - intro H. apply C2, H.
Qed.

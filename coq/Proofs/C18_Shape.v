(* C18, wave 6: the closed form AT the Gaussian integral PhiR, no abstract Phi left.
   (1) tail of PhiR: with F(x) = GE(x)^2 + 2 GG(x) = pi/2 (Proofs/C18_Gauss.v) and GG(x) <= (pi/4) e^{-x^2/2}:
       (2 PhiR x - 1)^2 >= 1 - e^{-x^2/2}, hence 1 - e^{-x^2/2}/2 <= PhiR x for x >= 0 and PhiR -> 1 at +oo: the hypothesis of
       C18_bs_sigma_to_zero is discharged; the at-the-money strike K = F is added through the Lipschitz bound PhiR y - PhiR x <= y - x.
   (2) PhiR' = phi and the Gaussian identity F phi(d1) = K phi(d2) give dC/dK = -PhiR(d2) (= -digital/df ... the generated bs_digital)
       and dC/dsd = F phi(d1) >= 0.  Mean value theorem: the call decreases in K with slope in [-1, 0], is convex in K (three-point
       slope inequality, every K1 <= K2 <= K3), increases in sigma; with the sigma -> 0+ limit: C >= df (F - K)^+ (the binding leg).
   bsc F sd K is the undiscounted regular-branch call as a function of forward, total standard deviation and strike; bs_call_regular
   ties it to the generated bs_call_put. *)
From Coq Require Import Reals Lra Bool.
From Coquelicot Require Import Coquelicot.
From RV Require Import Base.RB Gen.GenC18Cos Model.Cos Model.CosExt Proofs.C18_Cos Proofs.C18_Bs Proofs.C18_Gauss.
Open Scope R_scope.

(* ------------------------------------------------------------------ *)

(* GG x <= (pi/4) e^{-x^2/2} *)
Lemma GG_upper (x : R) : GG x <= PI / 4 * exp (- (x * x) / 2).
Proof.
  unfold GG.
  assert (H : is_RInt (fun s : R => exp (- (x * x) / 2) * / (1 + s * s)) 0 1 (exp (- (x * x) / 2) * (atan 1 - atan 0))).
  { change (exp (- (x * x) / 2) * (atan 1 - atan 0)) with (scal (exp (- (x * x) / 2)) (atan 1 - atan 0)).
    apply (is_RInt_ext (fun s => scal (exp (- (x * x) / 2)) (/ (1 + s * s)))).
    - intros s _. reflexivity.
    - apply @is_RInt_scal. apply (is_RInt_derive atan (fun s => / (1 + s * s))).
      + intros s _. apply atan_is_derive.
      + intros s _. apply (ex_derive_continuous (fun s : R => / (1 + s * s))). auto_derive. pose proof (one_plus_sq s). lra. }
  rewrite atan_1, atan_0 in H.
  replace (PI / 4 * exp (- (x * x) / 2)) with (exp (- (x * x) / 2) * (PI / 4 - 0)) by ring.
  rewrite <- (is_RInt_unique _ _ _ _ H).
  apply RInt_le; [lra | | |].
  - apply (@ex_RInt_continuous R_CompleteNormedModule). intros z _.
    apply (ex_derive_continuous (fun x1 : R => exp (- (x * x) * (1 + x1 * x1) / 2) / (1 + x1 * x1))). auto_derive. pose proof (one_plus_sq z). lra.
  - exists (exp (- (x * x) / 2) * (PI / 4 - 0)). exact H.
  - intros s _. unfold Rdiv at 1. apply Rmult_le_compat_r.
    + left. apply Rinv_0_lt_compat, one_plus_sq.
    + destruct (Req_dec (- (x * x) * (1 + s * s) / 2) (- (x * x) / 2)) as [E | E]; [rewrite E; lra|].
      left. apply exp_increasing. assert (0 <= x * x) by nra. assert (0 <= s * s) by nra. nra.
Qed.

(* (2 PhiR x - 1)^2 >= 1 - e^{-x^2/2} *)
Lemma GE_sq_lower (x : R) : PI / 2 * (1 - exp (- (x * x) / 2)) <= GE x * GE x.
Proof. pose proof (FF_const x) as H. rewrite FF_0 in H. unfold FF in H. pose proof (GG_upper x). lra. Qed.

Lemma PhiR_tail (x : R) : 0 <= x -> 1 - exp (- (x * x) / 2) / 2 <= PhiR x.
Proof.
  intro Hx. rewrite PhiR_GE. pose proof PI_RGT_0 as Hpi.
  assert (Hs : 0 < sqrt (2 * PI)) by (apply sqrt_lt_R0; lra).
  assert (Hss : sqrt (2 * PI) * sqrt (2 * PI) = 2 * PI) by (apply sqrt_sqrt; lra).
  set (q := 2 * (/ sqrt (2 * PI) * GE x)).
  set (e := exp (- (x * x) / 2)).
  assert (He : 0 < e) by apply exp_pos.
  assert (Hq0 : 0 <= q). { unfold q. pose proof (GE_nonneg x Hx). assert (0 < / sqrt (2 * PI)) by (apply Rinv_0_lt_compat; exact Hs). nra. }
  assert (Hq1 : q <= 1). { unfold q. pose proof (GE_bound x Hx). lra. }
  assert (Hqq : 1 - e <= q * q).
  { unfold q. pose proof (GE_sq_lower x) as L. fold e in L.
    replace (2 * (/ sqrt (2 * PI) * GE x) * (2 * (/ sqrt (2 * PI) * GE x))) with (4 * (GE x * GE x) / (sqrt (2 * PI) * sqrt (2 * PI))) by (field; lra).
    rewrite Hss. apply Rle_div_r; [lra|]. nra. }
  assert (1 - e <= q) by nra. unfold q in H. lra.
Qed.

Lemma PhiR_top : forall eps, 0 < eps -> exists M, forall x, M <= x -> 1 - eps < PhiR x.
Proof.
  intros eps He. exists (1 + / eps). intros x Hx.
  assert (Hi : 0 < / eps) by (apply Rinv_0_lt_compat; exact He).
  assert (Hx0 : 0 <= x) by lra.
  pose proof (PhiR_tail x Hx0) as T.
  assert (E : exp (- (x * x) / 2) < 2 * eps); [|lra].
  assert (P : 1 + (x * x) / 2 <= exp ((x * x) / 2)). { left. apply exp_ineq1. nra. }
  replace (- (x * x) / 2) with (- ((x * x) / 2)) by field. rewrite exp_Ropp.
  assert (Hb : / eps < 1 + x * x / 2). { assert (/ eps < x) by lra. nra. }
  assert (Q : / exp (x * x / 2) <= / (1 + x * x / 2)). { apply Rinv_le_contravar; [nra | exact P]. }
  assert (Q2 : / (1 + x * x / 2) < / / eps). { apply Rinv_lt_contravar; [|exact Hb]. apply Rmult_lt_0_compat; nra. }
  rewrite Rinv_inv in Q2. lra.
Qed.

(* ------------------------------------------------------------------ *)

Lemma PhiR_derive (x : R) : is_derive PhiR x (/ sqrt (2 * PI) * gs x).
Proof.
  assert (H : is_derive (fun t => plus (1 / 2) (scal (/ sqrt (2 * PI)) (GE t))) x (plus zero (scal (/ sqrt (2 * PI)) (gs x)))).
  { apply @is_derive_plus; [apply @is_derive_const | apply @is_derive_scal; apply GE_derive]. }
  replace (/ sqrt (2 * PI) * gs x) with (plus zero (scal (/ sqrt (2 * PI)) (gs x))).
  - exact H.
  - unfold plus, zero, scal; simpl. unfold mult; simpl. ring.
Qed.

Definition bsc (F sd K : R) : R :=
  F * PhiR (ln (F / K) / sd + 1 / 2 * sd) - K * PhiR (ln (F / K) / sd + 1 / 2 * sd - sd).

Lemma gauss_identity F sd K : 0 < F -> 0 < K -> 0 < sd ->
  F * gs (ln (F / K) / sd + 1 / 2 * sd) = K * gs (ln (F / K) / sd + 1 / 2 * sd - sd).
Proof.
  intros HF HK Hsd. unfold gs. set (m := ln (F / K)).
  replace (- ((m / sd + 1 / 2 * sd) * (m / sd + 1 / 2 * sd)) / 2)
    with (- ((m / sd + 1 / 2 * sd - sd) * (m / sd + 1 / 2 * sd - sd)) / 2 + - m) by (field; lra).
  rewrite exp_plus. unfold m. rewrite exp_Ropp, exp_ln by (apply Rdiv_lt_0_compat; assumption). field. lra.
Qed.


Lemma PhiR_Derive (x : R) : Derive (fun y : R => PhiR y) x = / sqrt (2 * PI) * gs x.
Proof. apply is_derive_unique. apply PhiR_derive. Qed.
Lemma PhiR_ex_derive (x : R) : ex_derive (fun y : R => PhiR y) x.
Proof. exists (/ sqrt (2 * PI) * gs x). apply PhiR_derive. Qed.

Lemma bsc_derive_K F sd K : 0 < F -> 0 < K -> 0 < sd ->
  is_derive (fun k => bsc F sd k) K (- PhiR (ln (F / K) / sd + 1 / 2 * sd - sd)).
Proof.
  intros HF HK Hsd. unfold bsc. auto_derive.
  - assert (0 < F * / K) by (apply Rmult_lt_0_compat; [exact HF | apply Rinv_0_lt_compat, HK]).
    repeat split; try apply PhiR_ex_derive; try lra.
  - rewrite !PhiR_Derive. pose proof (gauss_identity F sd K HF HK Hsd) as G.
    change (F / K) with (F * / K) in *.
    replace (ln (F * / K) * / sd + 1 / 2 * sd + - sd) with (ln (F * / K) / sd + 1 / 2 * sd - sd) by (unfold Rdiv; ring).
    replace (ln (F * / K) * / sd + 1 / 2 * sd) with (ln (F * / K) / sd + 1 / 2 * sd) by (unfold Rdiv; ring).
    set (g1 := gs (ln (F * / K) / sd + 1 / 2 * sd)) in *. set (g2 := gs (ln (F * / K) / sd + 1 / 2 * sd - sd)) in *.
    set (p := PhiR (ln (F * / K) / sd + 1 / 2 * sd - sd)). set (c := / sqrt (2 * PI)).
    assert (E : g1 = K * g2 / F) by (rewrite <- G; field; lra). rewrite E. field. lra.
Qed.

Lemma bsc_derive_sd F sd K : 0 < F -> 0 < K -> 0 < sd ->
  is_derive (fun s => bsc F s K) sd (F * (/ sqrt (2 * PI) * gs (ln (F / K) / sd + 1 / 2 * sd))).
Proof.
  intros HF HK Hsd. unfold bsc. auto_derive.
  - repeat split; try apply PhiR_ex_derive; try lra.
  - rewrite !PhiR_Derive. pose proof (gauss_identity F sd K HF HK Hsd) as G.
    replace (ln (F / K) * / sd + 1 / 2 * sd + - sd) with (ln (F / K) / sd + 1 / 2 * sd - sd) by (unfold Rdiv; ring).
    replace (ln (F / K) * / sd + 1 / 2 * sd) with (ln (F / K) / sd + 1 / 2 * sd) by (unfold Rdiv; ring).
    set (g1 := gs (ln (F / K) / sd + 1 / 2 * sd)) in *. set (g2 := gs (ln (F / K) / sd + 1 / 2 * sd - sd)) in *.
    set (c := / sqrt (2 * PI)). set (m := ln (F / K)).
    assert (E : g2 = F * g1 / K) by (rewrite G; field; lra). rewrite E. field. lra.
Qed.

(* ------------------------------------------------------------------ *)

Lemma bsc_cont_K F sd K : 0 < F -> 0 < K -> 0 < sd -> continuity_pt (fun k => bsc F sd k) K.
Proof. intros. apply derivable_continuous_pt. eexists. apply is_derive_Reals. apply bsc_derive_K; assumption. Qed.
Lemma bsc_cont_sd F sd K : 0 < F -> 0 < K -> 0 < sd -> continuity_pt (fun s => bsc F s K) sd.
Proof. intros. apply derivable_continuous_pt. eexists. apply is_derive_Reals. apply bsc_derive_sd; assumption. Qed.

Definition bsd2 (F sd K : R) : R := ln (F / K) / sd + 1 / 2 * sd - sd.

Lemma bsd2_decreasing F sd K1 K2 : 0 < F -> 0 < sd -> 0 < K1 <= K2 -> bsd2 F sd K2 <= bsd2 F sd K1.
Proof.
  intros HF Hsd [HK1 HK]. unfold bsd2.
  assert (L : ln (F / K2) <= ln (F / K1)).
  { assert (0 < F / K2) by (apply Rdiv_lt_0_compat; lra).
    assert (F / K2 <= F / K1).
    { unfold Rdiv. apply Rmult_le_compat_l; [lra|]. apply Rinv_le_contravar; lra. }
    destruct (Rle_lt_or_eq_dec _ _ H0) as [Lt | Eq]; [left; apply ln_increasing; assumption | rewrite Eq; lra]. }
  assert (ln (F / K2) / sd <= ln (F / K1) / sd); [|lra].
  unfold Rdiv at 1 3. apply Rmult_le_compat_r; [left; apply Rinv_0_lt_compat, Hsd | exact L].
Qed.

(* mean value form: the slope of the call between two strikes is minus PhiR(d2) at an intermediate strike *)
Lemma bsc_slope F sd K1 K2 : 0 < F -> 0 < sd -> 0 < K1 -> K1 <= K2 ->
  exists c, K1 <= c <= K2 /\ bsc F sd K2 - bsc F sd K1 = - PhiR (bsd2 F sd c) * (K2 - K1).
Proof.
  intros HF Hsd HK1 HK.
  destruct (MVT_gen (fun k => bsc F sd k) K1 K2 (fun k => - PhiR (bsd2 F sd k))) as [c [Hc E]].
  - rewrite Rmin_left, Rmax_right by lra. intros x Hx. apply bsc_derive_K; lra.
  - rewrite Rmin_left, Rmax_right by lra. intros x Hx. apply bsc_cont_K; lra.
  - rewrite Rmin_left, Rmax_right in Hc by lra. exists c. split; [exact Hc | exact E].
Qed.

Lemma bsc_decreasing_K F sd K1 K2 : 0 < F -> 0 < sd -> 0 < K1 -> K1 <= K2 ->
  bsc F sd K2 <= bsc F sd K1 /\ bsc F sd K1 - bsc F sd K2 <= K2 - K1.
Proof.
  intros HF Hsd HK1 HK. destruct (bsc_slope F sd K1 K2 HF Hsd HK1 HK) as [c [_ E]].
  pose proof (PhiR_range (bsd2 F sd c)) as [P0 P1]. split; nra.
Qed.

Lemma bsc_convex_K F sd K1 K2 K3 : 0 < F -> 0 < sd -> 0 < K1 -> K1 <= K2 -> K2 <= K3 ->
  (bsc F sd K2 - bsc F sd K1) * (K3 - K2) <= (bsc F sd K3 - bsc F sd K2) * (K2 - K1).
Proof.
  intros HF Hsd HK1 H12 H23.
  destruct (bsc_slope F sd K1 K2 HF Hsd HK1 H12) as [c1 [Hc1 E1]].
  destruct (bsc_slope F sd K2 K3 HF Hsd ltac:(lra) H23) as [c2 [Hc2 E2]].
  rewrite E1, E2.
  assert (M : PhiR (bsd2 F sd c2) <= PhiR (bsd2 F sd c1)). { apply PhiR_monotone. apply bsd2_decreasing; lra. }
  assert (0 <= (K2 - K1) * (K3 - K2)) by (apply Rmult_le_pos; lra). nra.
Qed.

Lemma bsc_increasing_sd F K s1 s2 : 0 < F -> 0 < K -> 0 < s1 -> s1 <= s2 -> bsc F s1 K <= bsc F s2 K.
Proof.
  intros HF HK Hs1 Hs.
  destruct (MVT_gen (fun s => bsc F s K) s1 s2 (fun s => F * (/ sqrt (2 * PI) * gs (ln (F / K) / s + 1 / 2 * s)))) as [c [Hc E]].
  - rewrite Rmin_left, Rmax_right by lra. intros x Hx. apply bsc_derive_sd; lra.
  - rewrite Rmin_left, Rmax_right by lra. intros x Hx. apply bsc_cont_sd; lra.
  - assert (0 < / sqrt (2 * PI)). { apply Rinv_0_lt_compat, sqrt_lt_R0. pose proof PI_RGT_0. lra. }
    assert (0 < gs (ln (F / K) / c + 1 / 2 * c)) by apply exp_pos.
    assert (0 < F * (/ sqrt (2 * PI) * gs (ln (F / K) / c + 1 / 2 * c))) by (apply Rmult_lt_0_compat; [lra | apply Rmult_lt_0_compat; lra]).
    nra.
Qed.

Lemma bs_regular_bsc r d S sigma K T :
  bs_regular PhiR r d S sigma 1 K T = exp (- r * T) * bsc (S * exp ((r - d) * T)) (sigma * sqrt T) K.
Proof.
  unfold bs_regular, bsc. set (F := S * exp ((r - d) * T)). set (sd := sigma * sqrt T).
  replace ((ln (F / K) / sd + 1 / 2 * sd) * 1) with (ln (F / K) / sd + 1 / 2 * sd) by ring.
  replace ((ln (F / K) / sd + 1 / 2 * sd - sd) * 1) with (ln (F / K) / sd + 1 / 2 * sd - sd) by ring. ring.
Qed.

Lemma bsc_lower F sd K : 0 < F -> 0 < K -> 0 < sd -> Rmax 0 (F - K) <= bsc F sd K.
Proof.
  intros HF HK Hsd.
  destruct (Req_dec F K) as [E | NE].
  - subst K. replace (F - F) with 0 by ring. rewrite Rmax_left by lra.
    unfold bsc. replace (F / F) with 1 by (field; lra). rewrite ln_1.
    pose proof (PhiR_monotone (0 / sd + 1 / 2 * sd - sd) (0 / sd + 1 / 2 * sd) ltac:(lra)). nra.
  - apply Rnot_lt_le. intro Hlt.
    destruct (bs_sigma_to_zero_all PhiR PhiR_Phi_like PhiR_top) as (_ & L & _).
    set (I := Rmax 0 (F - K)) in *. set (eps := I - bsc F sd K). assert (Heps : 0 < eps) by (unfold eps; lra).
    destruct (L 0 0 F K 1 1 HF HK ltac:(lra) ltac:(left; reflexivity)) with (eps := eps) as [delta [Hd Hl]].
    { replace ((0 - 0) * 1) with 0 by ring. rewrite exp_0. lra. }
    { exact Heps. }
    set (s := Rmin delta sd / 2).
    assert (Hs : 0 < s < delta /\ s <= sd).
    { unfold s. pose proof (Rmin_l delta sd). pose proof (Rmin_r delta sd). assert (0 < Rmin delta sd) by (apply Rmin_glb_lt; lra). lra. }
    pose proof (Hl s ltac:(lra)) as A. rewrite bs_regular_bsc in A.
    replace (- 0 * 1) with 0 in A by ring. replace ((0 - 0) * 1) with 0 in A by ring. rewrite exp_0, sqrt_1 in A.
    replace (F * 1) with F in A by ring. replace (s * 1) with s in A by ring. replace (1 * (F - K)) with (F - K) in A by ring. fold I in A.
    pose proof (bsc_increasing_sd F K s sd HF HK ltac:(lra) ltac:(lra)) as B.
    apply Rabs_def2 in A. unfold eps in A. lra.
Qed.

Lemma bsc_upper F sd K : 0 < F -> 0 < K -> bsc F sd K <= F.
Proof.
  intros HF HK. unfold bsc. pose proof (PhiR_range (ln (F / K) / sd + 1 / 2 * sd)). pose proof (PhiR_range (ln (F / K) / sd + 1 / 2 * sd - sd)). nra.
Qed.

(* ------------------------------------------------------------------ *)

Definition call_shape (F : R) (c : R -> R) : Prop :=
  (forall K, 0 < K -> Rmax 0 (F - K) <= c K <= F)
  /\ (forall K1 K2, 0 < K1 -> K1 <= K2 -> c K2 <= c K1 /\ c K1 - c K2 <= K2 - K1)
  /\ (forall K1 K2 K3, 0 < K1 -> K1 <= K2 -> K2 <= K3 -> (c K2 - c K1) * (K3 - K2) <= (c K3 - c K2) * (K2 - K1)).

Lemma shape_bsc F sd : 0 < F -> 0 < sd -> call_shape F (bsc F sd).
Proof.
  intros HF Hsd. repeat split.
  - apply bsc_lower; assumption. - apply bsc_upper; assumption.
  - apply bsc_decreasing_K; assumption. - apply bsc_decreasing_K; assumption.
  - intros. apply bsc_convex_K; assumption.
Qed.

Lemma shape_intrinsic F : 0 < F -> call_shape F (fun K => Rmax 0 (1 * (F - K))).
Proof.
  intro HF. repeat split; intros.
  - replace (1 * (F - K)) with (F - K) by ring. lra.
  - unfold Rmax. destruct (Rle_dec 0 (1 * (F - K))); lra.
  - unfold Rmax. destruct (Rle_dec 0 (1 * (F - K2))), (Rle_dec 0 (1 * (F - K1))); lra.
  - unfold Rmax. destruct (Rle_dec 0 (1 * (F - K2))), (Rle_dec 0 (1 * (F - K1))); lra.
  - unfold Rmax. destruct (Rle_dec 0 (1 * (F - K2))), (Rle_dec 0 (1 * (F - K1))), (Rle_dec 0 (1 * (F - K3))); nra.
Qed.

Lemma bs_call_regular r d S sigma K T : bs_degenerate S sigma T = false ->
  bs_call PhiR r d S sigma K T = exp (- r * T) * bsc (S * exp ((r - d) * T)) (sigma * sqrt T) K.
Proof. intro E. unfold bs_call. rewrite bs_nondegenerate by exact E. apply bs_regular_bsc. Qed.

Lemma bs_call_has_shape r d S sigma T : 0 < S -> 0 <= sigma -> 0 <= T ->
  exists c, call_shape (S * exp ((r - d) * T)) c /\ forall K, bs_call PhiR r d S sigma K T = exp (- r * T) * c K.
Proof.
  intros HS Hs HT. set (F := S * exp ((r - d) * T)). assert (HF : 0 < F) by (apply Rmult_lt_0_compat; [exact HS | apply exp_pos]).
  destruct (bs_degenerate S sigma T) eqn:E.
  - exists (fun K => Rmax 0 (1 * (F - K))). split; [apply shape_intrinsic, HF|]. intro K. unfold bs_call. apply bs_degenerate_intrinsic, E.
  - exists (bsc F (sigma * sqrt T)). split.
    + apply shape_bsc; [exact HF|]. apply bs_degenerate_false in E. destruct E as (E1 & _ & E3). apply Rmult_lt_0_compat; [lra | apply sqrt_lt_R0; lra].
    + intro K. apply bs_call_regular, E.
Qed.

Lemma bs_at_gaussian_full : forall r d S sigma K T, 0 < S -> 0 < K -> 0 <= sigma -> 0 <= T ->
  (exp (- r * T) * Rmax 0 (S * exp ((r - d) * T) - K) <= bs_call PhiR r d S sigma K T <= exp (- r * T) * (S * exp ((r - d) * T)))
  /\ (exp (- r * T) * Rmax 0 (K - S * exp ((r - d) * T)) <= bs_put PhiR r d S sigma K T <= exp (- r * T) * K)
  /\ (forall K2, K <= K2 ->
        bs_call PhiR r d S sigma K2 T <= bs_call PhiR r d S sigma K T /\ bs_put PhiR r d S sigma K T <= bs_put PhiR r d S sigma K2 T)
  /\ (forall K2 K3, K <= K2 -> K2 <= K3 ->
        (bs_call PhiR r d S sigma K2 T - bs_call PhiR r d S sigma K T) * (K3 - K2)
        <= (bs_call PhiR r d S sigma K3 T - bs_call PhiR r d S sigma K2 T) * (K2 - K)
        /\ (bs_put PhiR r d S sigma K2 T - bs_put PhiR r d S sigma K T) * (K3 - K2)
           <= (bs_put PhiR r d S sigma K3 T - bs_put PhiR r d S sigma K2 T) * (K2 - K)).
Proof.
  intros r d S sigma K T HS HK Hs HT.
  destruct (bs_call_has_shape r d S sigma T HS Hs HT) as [c [(A & B & C) E]].
  set (F := S * exp ((r - d) * T)) in *. set (df := exp (- r * T)) in *. assert (Hdf : 0 < df) by apply exp_pos.
  assert (P : forall k, bs_put PhiR r d S sigma k T = df * (c k - (F - k))).
  { intro k. pose proof (bs_parity PhiR PhiR_symmetric r d S sigma k T) as Q. fold F df in Q. rewrite E in Q. lra. }
  repeat split.
  - rewrite E. apply Rmult_le_compat_l; [lra | apply A, HK].
  - rewrite E. apply Rmult_le_compat_l; [lra | apply A, HK].
  - rewrite P. apply Rmult_le_compat_l; [lra|]. destruct (A K HK) as [A1 _]. unfold Rmax in *. destruct (Rle_dec 0 (F - K)), (Rle_dec 0 (K - F)); lra.
  - rewrite P. destruct (A K HK) as [_ A2]. nra.
  - rewrite !E. apply Rmult_le_compat_l; [lra | apply B; assumption].
  - rewrite !P. destruct (B K K2 HK H) as [_ B2]. nra.
  - rewrite !E. pose proof (C K K2 K3 HK H H0). nra.
  - rewrite !P. pose proof (C K K2 K3 HK H H0). nra.
Qed.

(* dC/dK = - digital (regular branch): the generated bs_digital is minus the strike derivative of the generated call *)
Lemma bs_call_strike_derivative r d S sigma K T : 0 < S -> 0 < K -> bs_degenerate S sigma T = false ->
  is_derive (fun k => bs_call PhiR r d S sigma k T) K (- bs_digital PhiR r d S sigma K T).
Proof.
  intros HS HK E. set (F := S * exp ((r - d) * T)). assert (HF : 0 < F) by (apply Rmult_lt_0_compat; [exact HS | apply exp_pos]).
  assert (Hsd : 0 < sigma * sqrt T). { apply bs_degenerate_false in E. destruct E as (E1 & _ & E3). apply Rmult_lt_0_compat; [lra | apply sqrt_lt_R0; lra]. }
  apply (is_derive_ext (fun k => scal (exp (- r * T)) (bsc F (sigma * sqrt T) k))).
  - intro k. symmetry. apply bs_call_regular, E.
  - rewrite (bs_digital_nondegenerate PhiR r d S sigma K T E). unfold bs_d2. fold F.
    replace (- (exp (- r * T) * PhiR (ln (F / K) / (sigma * sqrt T) - 1 / 2 * (sigma * sqrt T))))
      with (scal (exp (- r * T)) (- PhiR (ln (F / K) / (sigma * sqrt T) + 1 / 2 * (sigma * sqrt T) - sigma * sqrt T))).
    + apply @is_derive_scal. apply bsc_derive_K; assumption.
    + unfold scal; simpl; unfold mult; simpl. replace (ln (F / K) / (sigma * sqrt T) + 1 / 2 * (sigma * sqrt T) - sigma * sqrt T) with (ln (F / K) / (sigma * sqrt T) - 1 / 2 * (sigma * sqrt T)) by lra. ring.
Qed.

(* sigma -> 0+ at the Gaussian integral *)
Lemma bs_sigma_to_zero_gaussian :
  (forall r d S sigma flag K T, bs_degenerate S sigma T = false -> bs_call_put PhiR r d S sigma flag K T = bs_regular PhiR r d S sigma flag K T)
  /\ (forall r d S K T flag, 0 < S -> 0 < K -> 0 < T -> flag = 1 \/ flag = -1 -> S * exp ((r - d) * T) <> K ->
        forall eps, 0 < eps -> exists delta, 0 < delta /\ forall sigma, 0 < sigma < delta ->
          Rabs (bs_regular PhiR r d S sigma flag K T - exp (- r * T) * Rmax 0 (flag * (S * exp ((r - d) * T) - K))) < eps)
  /\ (forall r d S sigma flag K T, bs_degenerate S sigma T = true ->
        bs_call_put PhiR r d S sigma flag K T = exp (- r * T) * Rmax 0 (flag * (S * exp ((r - d) * T) - K))).
Proof. exact (bs_sigma_to_zero_all PhiR PhiR_Phi_like PhiR_top). Qed.

(* ------------------------------------------------------------------ *)

Lemma PhiR_lipschitz x y : x <= y -> PhiR y - PhiR x <= y - x.
Proof.
  intro H.
  destruct (MVT_gen PhiR x y (fun t => / sqrt (2 * PI) * gs t)) as [c [_ E]].
  - intros t _. apply PhiR_derive.
  - intros t _. apply derivable_continuous_pt. eexists. apply is_derive_Reals. apply PhiR_derive.
  - rewrite E. pose proof PI_RGT_0 as Hpi. pose proof PI2_1 as Hpi2.
    assert (H1 : 1 <= sqrt (2 * PI)). { rewrite <- sqrt_1 at 1. apply sqrt_le_1; lra. }
    assert (H2 : 0 < / sqrt (2 * PI) <= 1). { split; [apply Rinv_0_lt_compat; lra|]. assert (Q : / sqrt (2 * PI) <= / 1) by (apply Rinv_le_contravar; lra). rewrite Rinv_1 in Q. exact Q. }
    assert (H3 : 0 < gs c <= 1).
    { unfold gs. split; [apply exp_pos|]. destruct (Req_dec (- (c * c) / 2) 0) as [Z | Z]; [rewrite Z, exp_0; lra|]. left. rewrite <- exp_0. apply exp_increasing. nra. }
    assert (/ sqrt (2 * PI) * gs c <= 1) by nra. nra.
Qed.

(* at the money (K = F) the regular value is df F (PhiR(sd/2) - PhiR(-sd/2)) for both flags, and it tends to 0 = df max(0, 0) *)
Lemma bs_sigma_to_zero_atm r d S T flag : 0 < S -> 0 < T -> flag = 1 \/ flag = -1 ->
  forall eps, 0 < eps -> exists delta, 0 < delta /\ forall sigma, 0 < sigma < delta ->
    Rabs (bs_regular PhiR r d S sigma flag (S * exp ((r - d) * T)) T - exp (- r * T) * Rmax 0 (flag * (S * exp ((r - d) * T) - S * exp ((r - d) * T)))) < eps.
Proof.
  intros HS HT Hflag eps Heps. unfold bs_regular.
  set (df := exp (- r * T)). set (F := S * exp ((r - d) * T)). set (c := sqrt T).
  assert (Hdf : 0 < df) by apply exp_pos. assert (HF : 0 < F) by (apply Rmult_lt_0_compat; [exact HS | apply exp_pos]).
  assert (Hc : 0 < c) by (apply sqrt_lt_R0, HT).
  assert (Hu : 0 < df * F * c) by (apply Rmult_lt_0_compat; [apply Rmult_lt_0_compat|]; assumption).
  exists (eps / (df * F * c)). split; [apply Rdiv_lt_0_compat; assumption|]. intros sigma [H0 H1].
  replace (F / F) with 1 by (field; lra). rewrite ln_1. replace (flag * (F - F)) with 0 by ring. rewrite Rmax_left by lra.
  set (sd := sigma * c). assert (Hsd : 0 < sd) by (apply Rmult_lt_0_compat; assumption).
  assert (B : df * F * sd < eps).
  { apply (Rmult_lt_compat_r (df * F * c)) in H1; [|exact Hu]. replace (eps / (df * F * c) * (df * F * c)) with eps in H1 by (field; lra). unfold sd. lra. }
  pose proof (PhiR_lipschitz (- (1 / 2 * sd)) (1 / 2 * sd) ltac:(lra)) as L.
  pose proof (PhiR_monotone (- (1 / 2 * sd)) (1 / 2 * sd) ltac:(lra)) as M.
  assert (V : forall v, 0 <= v <= sd -> Rabs (df * F * v - df * 0) < eps). { intros v Hv. apply Rabs_def1; nra. }
  destruct Hflag as [-> | ->].
  - replace ((0 / sd + 1 / 2 * sd) * 1) with (1 / 2 * sd) by (field; lra). replace ((0 / sd + 1 / 2 * sd - sd) * 1) with (- (1 / 2 * sd)) by (field; lra).
    replace (df * 1 * (F * PhiR (1 / 2 * sd) - F * PhiR (- (1 / 2 * sd)))) with (df * F * (PhiR (1 / 2 * sd) - PhiR (- (1 / 2 * sd)))) by ring. apply V. lra.
  - replace ((0 / sd + 1 / 2 * sd) * -1) with (- (1 / 2 * sd)) by (field; lra). replace ((0 / sd + 1 / 2 * sd - sd) * -1) with (1 / 2 * sd) by (field; lra).
    replace (df * -1 * (F * PhiR (- (1 / 2 * sd)) - F * PhiR (1 / 2 * sd))) with (df * F * (PhiR (1 / 2 * sd) - PhiR (- (1 / 2 * sd)))) by ring. apply V. lra.
Qed.

(* every strike, including K = F *)
Lemma bs_sigma_to_zero_gaussian_all_strikes r d S K T flag : 0 < S -> 0 < K -> 0 < T -> flag = 1 \/ flag = -1 ->
  forall eps, 0 < eps -> exists delta, 0 < delta /\ forall sigma, 0 < sigma < delta ->
    Rabs (bs_regular PhiR r d S sigma flag K T - exp (- r * T) * Rmax 0 (flag * (S * exp ((r - d) * T) - K))) < eps.
Proof.
  intros HS HK HT Hflag. destruct (Req_dec (S * exp ((r - d) * T)) K) as [E | NE].
  - subst K. apply bs_sigma_to_zero_atm; assumption.
  - destruct bs_sigma_to_zero_gaussian as (_ & L & _). apply L; assumption.
Qed.

(* ------------------------------------------------------------------ the call does not decrease with sigma, ACROSS the 1e-8 threshold too *)
Lemma bs_degenerate_sigma_mono S s1 s2 T : s1 <= s2 -> bs_degenerate S s2 T = true -> bs_degenerate S s1 T = true.
Proof.
  unfold bs_degenerate, Rltb. intros H.
  destruct (Rlt_dec s2 (1 / 100000000)), (Rlt_dec s1 (1 / 100000000)), (Rlt_dec S (1 / 100000000)), (Rlt_dec T (1 / 100000000)); simpl; try reflexivity; try discriminate; intros _; exfalso; lra.
Qed.
Lemma bs_call_increasing_sigma r d S K T s1 s2 : 0 < S -> 0 < K -> 0 <= T -> 0 <= s1 -> s1 <= s2 ->
  bs_call PhiR r d S s1 K T <= bs_call PhiR r d S s2 K T /\ bs_put PhiR r d S s1 K T <= bs_put PhiR r d S s2 K T.
Proof.
  intros HS HK HT H1 H12.
  assert (C : bs_call PhiR r d S s1 K T <= bs_call PhiR r d S s2 K T).
  { set (F := S * exp ((r - d) * T)). assert (HF : 0 < F) by (apply Rmult_lt_0_compat; [exact HS | apply exp_pos]).
    pose proof (exp_pos (- r * T)) as Hdf.
    destruct (bs_degenerate S s2 T) eqn:E2.
    - pose proof (bs_degenerate_sigma_mono S s1 s2 T H12 E2) as E1. unfold bs_call. rewrite !(bs_degenerate_intrinsic PhiR) by assumption. lra.
    - rewrite (bs_call_regular r d S s2 K T E2). fold F.
      assert (Hsd2 : 0 < s2 * sqrt T). { apply bs_degenerate_false in E2. destruct E2 as (A1 & _ & A3). apply Rmult_lt_0_compat; [lra | apply sqrt_lt_R0; lra]. }
      destruct (bs_degenerate S s1 T) eqn:E1.
      + unfold bs_call. rewrite (bs_degenerate_intrinsic PhiR) by assumption. fold F. apply Rmult_le_compat_l; [lra|].
        replace (1 * (F - K)) with (F - K) by ring. apply bsc_lower; assumption.
      + rewrite (bs_call_regular r d S s1 K T E1). fold F. apply Rmult_le_compat_l; [lra|].
        assert (HT' : 0 < sqrt T). { apply bs_degenerate_false in E1. destruct E1 as (_ & _ & A3). apply sqrt_lt_R0; lra. }
        apply bsc_increasing_sd; try assumption.
        * apply bs_degenerate_false in E1. destruct E1 as (A1 & _ & _). apply Rmult_lt_0_compat; lra.
        * apply Rmult_le_compat_r; lra. }
  split; [exact C|].
  pose proof (bs_parity PhiR PhiR_symmetric r d S s1 K T). pose proof (bs_parity PhiR PhiR_symmetric r d S s2 K T). lra.
Qed.

(* ------------------------------------------------------------------ statements as they appear in Properties/C18.v *)
Lemma PhiR_tail_all :
  (forall x, 0 <= x -> 1 - exp (- (x * x) / 2) / 2 <= PhiR x <= 1)
  /\ (forall x y, x <= y -> 0 <= PhiR y - PhiR x <= y - x)
  /\ (forall eps, 0 < eps -> exists M, forall x, M <= x -> 1 - eps < PhiR x).
Proof.
  repeat split.
  - apply PhiR_tail, H. - apply PhiR_range.
  - pose proof (PhiR_monotone x y H). lra. - apply PhiR_lipschitz, H.
  - exact PhiR_top.
Qed.

Lemma bs_sigma_to_zero_gaussian_all :
  (forall r d S sigma flag K T, bs_degenerate S sigma T = false -> bs_call_put PhiR r d S sigma flag K T = bs_regular PhiR r d S sigma flag K T)
  /\ (forall r d S K T flag, 0 < S -> 0 < K -> 0 < T -> flag = 1 \/ flag = -1 ->
        forall eps, 0 < eps -> exists delta, 0 < delta /\ forall sigma, 0 < sigma < delta ->
          Rabs (bs_regular PhiR r d S sigma flag K T - exp (- r * T) * Rmax 0 (flag * (S * exp ((r - d) * T) - K))) < eps)
  /\ (forall r d S sigma flag K T, bs_degenerate S sigma T = true ->
        bs_call_put PhiR r d S sigma flag K T = exp (- r * T) * Rmax 0 (flag * (S * exp ((r - d) * T) - K))).
Proof.
  destruct bs_sigma_to_zero_gaussian as (A & _ & C). repeat apply conj.
  - exact A. - intros. apply bs_sigma_to_zero_gaussian_all_strikes; assumption. - exact C.
Qed.

Lemma bs_greeks_all : forall r d S sigma K T, 0 < S -> 0 < K -> bs_degenerate S sigma T = false ->
  (S * exp ((r - d) * T)) * exp (- ((bs_d2 r d S sigma K T + sigma * sqrt T) * (bs_d2 r d S sigma K T + sigma * sqrt T)) / 2)
    = K * exp (- (bs_d2 r d S sigma K T * bs_d2 r d S sigma K T) / 2)
  /\ is_derive (fun k => bs_call PhiR r d S sigma k T) K (- bs_digital PhiR r d S sigma K T)
  /\ is_derive (fun k => bs_put PhiR r d S sigma k T) K (exp (- r * T) - bs_digital PhiR r d S sigma K T).
Proof.
  intros r d S sigma K T HS HK E.
  set (F := S * exp ((r - d) * T)). assert (HF : 0 < F) by (apply Rmult_lt_0_compat; [exact HS | apply exp_pos]).
  assert (Hsd : 0 < sigma * sqrt T). { pose proof (bs_degenerate_false _ _ _ E) as (E1 & _ & E3). apply Rmult_lt_0_compat; [lra | apply sqrt_lt_R0; lra]. }
  pose proof (bs_call_strike_derivative r d S sigma K T HS HK E) as DC.
  split; [|split].
  - pose proof (gauss_identity F (sigma * sqrt T) K HF HK Hsd) as G. unfold gs in G. unfold bs_d2. fold F.
    replace (ln (F / K) / (sigma * sqrt T) - 1 / 2 * (sigma * sqrt T) + sigma * sqrt T) with (ln (F / K) / (sigma * sqrt T) + 1 / 2 * (sigma * sqrt T)) by lra.
    replace (ln (F / K) / (sigma * sqrt T) - 1 / 2 * (sigma * sqrt T)) with (ln (F / K) / (sigma * sqrt T) + 1 / 2 * (sigma * sqrt T) - sigma * sqrt T) by lra.
    exact G.
  - exact DC.
  - apply (is_derive_ext (fun k => minus (bs_call PhiR r d S sigma k T) (exp (- r * T) * (F - k)))).
    + intro k. pose proof (bs_parity PhiR PhiR_symmetric r d S sigma k T) as P. fold F in P. unfold minus, plus, opp; simpl. lra.
    + replace (exp (- r * T) - bs_digital PhiR r d S sigma K T) with (minus (- bs_digital PhiR r d S sigma K T) (- exp (- r * T))) by (unfold minus, plus, opp; simpl; ring).
      apply @is_derive_minus; [exact DC|]. auto_derive; [exact I | ring].
Qed.

Lemma shape_nonvacuous :
  bs_degenerate 100 (1 / 5) 1 = false
  /\ 10 <= bs_call PhiR 0 0 100 (1 / 5) 90 1 <= 100
  /\ bs_call PhiR 0 0 100 (1 / 5) 110 1 <= bs_call PhiR 0 0 100 (1 / 5) 90 1
  /\ 1 - exp (- (2 * 2) / 2) / 2 <= PhiR 2.
Proof.
  split; [exact (proj1 (proj2 (proj2 bs_nonvacuous)))|].
  destruct (bs_at_gaussian_full 0 0 100 (1 / 5) 90 1 ltac:(lra) ltac:(lra) ltac:(lra) ltac:(lra)) as ((A1 & A2) & _ & M & _).
  replace (- 0 * 1) with 0 in * by ring. replace ((0 - 0) * 1) with 0 in * by ring. rewrite exp_0 in *.
  replace (100 * 1 - 90) with 10 in A1 by ring. rewrite Rmax_right in A1 by lra.
  repeat split; try lra.
  - apply (M 110). lra.
  - apply PhiR_tail. lra.
Qed.

(* C18: the COS pricing sum is the integral of the payoff against the density reconstructed from the same coefficients
   (linearity of the integral over the finite cosine family); consequences of a non-negative reconstructed density. *)
From Coq Require Import Reals Lra Lia Bool Arith.
From Coquelicot Require Import Coquelicot.
From RV Require Import Base.RB Gen.GenC18Cos Model.Cos Model.CosSum Proofs.C18_Cos.
Open Scope R_scope.

Lemma cos_sum_is_integral (g : R -> R) (V : nat -> R) (A : nat -> R) (a b c d : R) :
  (forall k, is_RInt (fun y => 2 / (b - a) * (g y * cosk (INR k) a b y)) c d (V k)) ->
  forall n, is_RInt (fun y => g y * cos_density n A a b y) c d (cos_sum n A V).
Proof.
  intros HV n. induction n as [|n IH].
  - unfold cos_sum, cos_density. simpl.
    apply (is_RInt_ext (fun y => scal (cos_weight 0 * A 0%nat) (2 / (b - a) * (g y * cosk (INR 0) a b y)))).
    + intros y _. unfold scal; simpl. unfold mult; simpl. ring.
    + replace (cos_weight 0 * A 0%nat * V 0%nat) with (scal (cos_weight 0 * A 0%nat) (V 0%nat)) by (unfold scal; simpl; unfold mult; simpl; ring).
      apply @is_RInt_scal. apply HV.
  - unfold cos_sum, cos_density in *. simpl sum_f_R0.
    apply (is_RInt_ext (fun y => plus (g y * sum_f_R0 (fun k => cos_weight k * A k * (2 / (b - a) * cosk (INR k) a b y)) n)
                                      (scal (cos_weight (S n) * A (S n)) (2 / (b - a) * (g y * cosk (INR (S n)) a b y))))).
    + intros y _. unfold plus, scal; simpl. unfold mult; simpl. ring.
    + apply @is_RInt_plus. exact IH.
      replace (cos_weight (S n) * A (S n) * V (S n)) with (scal (cos_weight (S n) * A (S n)) (V (S n))) by (unfold scal; simpl; unfold mult; simpl; ring).
      apply @is_RInt_scal. apply HV.
Qed.

(* put: K * df * sum' A_k U_k = K * df * int_a^0 (1 - e^y) f_N(y) dy *)
Lemma put_is_integral uninit (A : nat -> R) a b n : b <> a ->
  is_RInt (fun y => (1 - exp y) * cos_density n A a b y) a 0 (cos_sum n A (fun k => cos_u_put uninit (INR k) a b)).
Proof. intro H. apply cos_sum_is_integral. intro k. apply u_put_coefficient, H. Qed.

Lemma digital_is_integral uninit (A : nat -> R) a b n : b <> a ->
  is_RInt (fun y => 1 * cos_density n A a b y) 0 b (cos_sum n A (fun k => cos_digital_vk uninit (INR k) a b)).
Proof.
  intro H. apply cos_sum_is_integral. intro k.
  apply (is_RInt_ext (fun y => 2 / (b - a) * cosk (INR k) a b y)).
  - intros y _. simpl. ring.
  - apply digital_coefficient, H.
Qed.

(* consequences of a non-negative reconstructed density *)
Lemma put_nonneg uninit A a b n : a < b -> a <= 0 -> (forall y, a <= y <= 0 -> 0 <= cos_density n A a b y) ->
  0 <= cos_sum n A (fun k => cos_u_put uninit (INR k) a b).
Proof.
  intros Hab Ha Hpos.
  assert (Hne : b <> a) by lra.
  pose proof (put_is_integral uninit A a b n Hne) as HI.
  rewrite <- (is_RInt_unique _ _ _ _ HI).
  apply RInt_ge_0; [exact Ha | eexists; exact HI |].
  intros y Hy. apply Rmult_le_pos.
  - assert (exp y <= 1). { rewrite <- exp_0. destruct (Rle_lt_or_eq_dec y 0 ltac:(lra)) as [L|E]; [left; apply exp_increasing, L | rewrite E; lra]. } lra.
  - apply Hpos. lra.
Qed.
Lemma digital_nonneg uninit A a b n : a < b -> 0 <= b -> (forall y, 0 <= y <= b -> 0 <= cos_density n A a b y) ->
  0 <= cos_sum n A (fun k => cos_digital_vk uninit (INR k) a b).
Proof.
  intros Hab Hb Hpos.
  assert (Hne : b <> a) by lra.
  pose proof (digital_is_integral uninit A a b n Hne) as HI.
  rewrite <- (is_RInt_unique _ _ _ _ HI).
  apply RInt_ge_0; [exact Hb | eexists; exact HI |].
  intros y Hy. rewrite Rmult_1_l. apply Hpos. lra.
Qed.

(* the cosine series integrates to A_0 over its window: only the k = 0 term has mass (sin(k pi) = 0 for integer k) *)
Lemma cos_sum_only_first n A V : V 0%nat = 2 -> (forall k, V (S k) = 0) -> cos_sum n A V = A 0%nat.
Proof.
  intros H0 HS. unfold cos_sum. induction n as [|n IH]; simpl.
  - rewrite H0. unfold cos_weight. field.
  - rewrite IH, HS. ring.
Qed.
Lemma sin_INR_PI k : sin (INR k * PI) = 0.
Proof. apply sin_eq_0_1. exists (Z.of_nat k). rewrite INR_IZR_INZ. reflexivity. Qed.
Lemma density_integrates_to_A0 (A : nat -> R) a b n : b <> a ->
  is_RInt (fun y => cos_density n A a b y) a b (A 0%nat).
Proof.
  intro Hab.
  set (V := fun k : nat => match k with O => 2 | S _ => 0 end).
  rewrite <- (cos_sum_only_first n A V eq_refl (fun _ => eq_refl)).
  apply (is_RInt_ext (fun y => 1 * cos_density n A a b y)); [intros y _; simpl; ring|].
  apply cos_sum_is_integral. intro k.
  assert (Hv : cos_psi 0 (INR k) a b a b = match k with O => b - a | S _ => 0 end).
  { destruct k as [|k].
    - simpl INR. apply cos_psi_zero.
    - rewrite cos_psi_nonzero by (apply not_0_INR; discriminate).
      unfold psi_prim. replace (INR (S k) * PI / (b - a) * (b - a)) with (INR (S k) * PI) by (field; lra).
      rewrite sin_INR_PI. replace (INR (S k) * PI / (b - a) * (a - a)) with 0 by ring. rewrite sin_0. unfold Rdiv. ring. }
  pose proof (psi_coefficient 0 (INR k) a b a b Hab) as H.
  apply (@is_RInt_scal R_NormedModule _ _ _ (2 / (b - a))) in H.
  replace (V k) with (scal (2 / (b - a)) (cos_psi 0 (INR k) a b a b)).
  - apply (is_RInt_ext (fun y => scal (2 / (b - a)) (cosk (INR k) a b y))); [|exact H].
    intros y _. unfold scal; simpl. unfold mult; simpl. ring.
  - rewrite Hv. unfold scal; simpl; unfold mult; simpl. destruct k; unfold V; field; lra.
Qed.

(* COSPricer.density is the cosine series with the density numbers B_k on the window shifted by log_spot, divided by s *)
Lemma cos_density_impl_eq n B a b x0 s : cos_density_impl n B a b x0 s = cos_density n B (a + x0) (b + x0) (ln s) / s.
Proof.
  unfold cos_density_impl, cos_density. cbv zeta. f_equal. apply sum_eq. intros k _. unfold cosk.
  replace ((ln s - (a + x0)) * (INR k * PI / (b + x0 - (a + x0)))) with (INR k * PI / (b + x0 - (a + x0)) * (ln s - (a + x0))) by ring.
  ring.
Qed.

(* ------------------------------------------------------------------ statements as they appear in Properties/C18.v *)
Lemma cos_is_integral_all : forall uninit (A : nat -> R) a b n, b <> a ->
  (forall (g : R -> R) (V : nat -> R) c d,
      (forall k, is_RInt (fun y => 2 / (b - a) * (g y * cosk (INR k) a b y)) c d (V k)) ->
      is_RInt (fun y => g y * cos_density n A a b y) c d (cos_sum n A V))
  /\ is_RInt (fun y => (1 - exp y) * cos_density n A a b y) a 0 (cos_sum n A (fun k => cos_u_put uninit (INR k) a b))
  /\ is_RInt (fun y => 1 * cos_density n A a b y) 0 b (cos_sum n A (fun k => cos_digital_vk uninit (INR k) a b)).
Proof.
  intros uninit A a b n H. repeat apply conj.
  - intros g V c d HV. apply cos_sum_is_integral, HV.
  - apply put_is_integral, H.
  - apply digital_is_integral, H.
Qed.

Lemma shape_from_positive_density_all : forall uninit (A : nat -> R) a b n, a < b -> a <= 0 <= b ->
  ((forall y, a <= y <= 0 -> 0 <= cos_density n A a b y) -> 0 <= cos_sum n A (fun k => cos_u_put uninit (INR k) a b))
  /\ ((forall y, 0 <= y <= b -> 0 <= cos_density n A a b y) -> 0 <= cos_sum n A (fun k => cos_digital_vk uninit (INR k) a b)).
Proof.
  intros uninit A a b n Hab [Ha Hb]. split; intro H.
  - apply put_nonneg; assumption.
  - apply digital_nonneg; assumption.
Qed.

(* C19 -- implied_cds_threshold: when does the objective change sign over the bracket (-10, -h0) that brentq is given?
   The objective is the GENERATED cds_spread(a) - target on the GENERATED theta (th1); it is monotone on negative thresholds
   (C19_monotone), hence: its values over the bracket lie between its end values; a root inside the bracket forces the sign condition
   f(-10) * f(-h0) <= 0 that brentq tests; without a sign change the objective is nowhere zero on the bracket (raising is right). *)
From Coq Require Import List Arith Bool Reals Lra.
From RV Require Import Base.RB Base.ExtNum Gen.GenC19Theta Gen.GenC19Spread Model.Credit Proofs.C19_Credit Proofs.C19_Spread.
Import ListNotations.
Open Scope R_scope.

Section Bracket.
  Variable U1 : nat -> ext R -> R.
  Hypothesis Tok : rtails_ok U1.
  Variables target rec h0 : R.
  Hypothesis Hr : rec <= 1.
  Notation f := (implied_threshold_fun R (fun x => th1 RNum U1 (Fin x)) target rec).

  Lemma threshold_fun_mono a a' : a <= a' -> a' < 0 -> f a <= f a'.
  Proof.
    intros L N.
    apply (proj1 (implied_threshold_props R (fun x => th1 RNum U1 (Fin x)) (fun x y => x <= y /\ y < 0)
           (fun x y H => theta1_monotone U1 Tok (Fin x) (Fin y) (proj2 (Rleb_true x y) (proj1 H)) (proj2 (Rltb_true y 0) (proj2 H))) target rec Hr)).
    split; assumption.
  Qed.

  Theorem threshold_bracket : 0 < h0 ->
    implied_threshold_fun_bracket h0 = (-10, - h0) /\
    (forall a, -10 <= a <= - h0 -> f (-10) <= f a <= f (- h0)) /\
    (forall a, -10 <= a <= - h0 -> f a = 0 -> f (-10) * f (- h0) <= 0) /\
    (0 < f (-10) * f (- h0) -> forall a, -10 <= a <= - h0 -> f a <> 0).
  Proof.
    intros Hh.
    assert (B : forall a, -10 <= a <= - h0 -> f (-10) <= f a <= f (- h0)).
    { intros a [A1 A2]. split; apply threshold_fun_mono; lra. }
    split; [reflexivity|]. split; [exact B|]. split.
    - intros a Ha E. specialize (B a Ha). rewrite E in B. nra.
    - intros P a Ha E. specialize (B a Ha). rewrite E in B. nra.
  Qed.
End Bracket.

(* an instance of rtails_ok (non-vacuity): the two-sided exponential measure nu(dx) = exp(-|x|) dx, U(x) = -exp(x) (x < 0), exp(-x) (x >= 0) *)
Definition exp_tail (i : nat) (x : ext R) : R :=
  match x with Fin v => if Rltb v 0 then - exp v else exp (- v) | _ => 0 end.
Lemma exp_tail_ok : rtails_ok exp_tail.
Proof.
  split; [intros i; split; reflexivity|].
  intros i x y L S. destruct x as [|u|], y as [|v|]; cbn in *; try discriminate; try lra;
    try (destruct S as [S|S]; try discriminate).
  all: repeat match goal with
       | |- context [Rltb ?a ?b] => let E := fresh in destruct (Rltb a b) eqn:E; [apply Rltb_true in E|apply Rltb_false in E]
       | H : Rltb ?a ?b = true |- _ => apply Rltb_true in H
       | H : Rltb ?a ?b = false |- _ => apply Rltb_false in H
       | H : Rleb ?a ?b = true |- _ => apply Rleb_true in H
       end.
  all: try (pose proof (exp_pos u)); try (pose proof (exp_pos v)); try (pose proof (exp_pos (- u))); try (pose proof (exp_pos (- v))); try lra.
  all: try (apply Ropp_le_contravar); try (destruct (Req_dec u v) as [->|]; [lra|apply Rlt_le; apply exp_increasing; lra]).
Qed.

Lemma exp_tail_theta a : a < 0 -> th1 RNum exp_tail (Fin a) = exp a.
Proof.
  intros H. unfold th1, theta_1, mass_below, exp_tail. cbn [xlt0 RNum nltb n0 nopp T].
  rewrite (proj2 (Rltb_true a 0) H). cbn. lra.
Qed.

(* ---- the missing direction (audit 4, B10): a sign change over the bracket yields a threshold reproducing the target, PROVIDED the marginal
   tail integral is continuous on the bracket (intermediate value theorem, Coq's IVT_interv).  Monotonicity alone is not enough:
   threshold_bracket_needs_continuity below is a measure with an atom for which the objective changes sign and has no zero. ---- *)
From Coq Require Import Ranalysis1 Ranalysis5.

Lemma continuity_pt_local (f g : R -> R) a d : 0 < d -> (forall x, Rabs (x - a) < d -> f x = g x) -> continuity_pt g a -> continuity_pt f a.
Proof.
  intros Hd E C. unfold continuity_pt, continue_in, limit1_in, limit_in in *. simpl in *. unfold R_dist in *.
  intros eps He. destruct (C eps He) as (alp & Ha & H). exists (Rmin alp d). split; [apply Rmin_pos; assumption|].
  intros x [Dx Hx]. rewrite (E x), (E a).
  - apply H. split; [exact Dx|]. eapply Rlt_le_trans; [exact Hx|apply Rmin_l].
  - unfold Rminus. rewrite Rplus_opp_r, Rabs_R0. exact Hd.
  - eapply Rlt_le_trans; [exact Hx|apply Rmin_r].
Qed.

Section BracketRoot.
  Variable U1 : nat -> ext R -> R.
  Hypothesis Tok : rtails_ok U1.
  Variables target rec h0 : R.
  Hypothesis Hr : rec <= 1.
  Hypothesis Hh : 0 < h0 < 10.
  (* the tail integral of the (single) margin, as a function of a finite threshold, is continuous at every point of the bracket *)
  Hypothesis Cont : forall a, -10 <= a <= - h0 -> continuity_pt (fun x => U1 0%nat (Fin x)) a.
  Notation f := (implied_threshold_fun R (fun x => th1 RNum U1 (Fin x)) target rec).

  (* on negative thresholds the generated objective is (1 - rec) * (- U(x)) - target *)
  Let g (x : R) : R := (1 - rec) * (- U1 0%nat (Fin x)) - target.
  Lemma objective_on_negatives x : x < 0 -> f x = g x.
  Proof.
    intros H. unfold implied_threshold_fun, cds_spread, th1, theta_1, mass_below, g. cbn [xlt0 RNum nltb n0 nopp T].
    rewrite (proj2 (Rltb_true x 0) H). cbn. reflexivity.
  Qed.
  Lemma g_continuous a : -10 <= a <= - h0 -> continuity_pt g a.
  Proof.
    intros Ha. unfold g.
    apply (continuity_pt_minus (fun x => (1 - rec) * - U1 0%nat (Fin x)) (fun _ => target)); [|apply continuity_pt_const; intros x y; reflexivity].
    apply (continuity_pt_scal (fun x => - U1 0%nat (Fin x)) (1 - rec)).
    apply (continuity_pt_opp (fun x => U1 0%nat (Fin x))). apply Cont. exact Ha.
  Qed.

  Theorem threshold_bracket_root : f (-10) * f (- h0) <= 0 -> exists a, -10 <= a <= - h0 /\ f a = 0.
  Proof.
    intros S. pose proof (threshold_fun_mono U1 Tok target rec Hr (-10) (- h0) ltac:(lra) ltac:(lra)) as M.
    destruct (Req_dec (f (-10)) 0) as [Z1|N1]; [exists (-10); split; [lra|exact Z1]|].
    destruct (Req_dec (f (- h0)) 0) as [Z2|N2]; [exists (- h0); split; [lra|exact Z2]|].
    assert (L : f (-10) < 0) by nra. assert (U : 0 < f (- h0)) by nra.
    rewrite objective_on_negatives in L by lra. rewrite objective_on_negatives in U by lra.
    destruct (IVT_interv g (-10) (- h0) g_continuous ltac:(lra) L U) as (z & Hz & Ez).
    exists z. split; [exact Hz|]. rewrite objective_on_negatives by lra. exact Ez.
  Qed.

  (* with the two directions: brentq's sign test passes EXACTLY when some threshold of the bracket reproduces the target *)
  Corollary threshold_bracket_iff : f (-10) * f (- h0) <= 0 <-> exists a, -10 <= a <= - h0 /\ f a = 0.
  Proof.
    split; [apply threshold_bracket_root|]. intros (a & Ha & Ea).
    destruct (threshold_bracket U1 Tok target rec h0 Hr (proj1 Hh)) as (_ & _ & B & _). exact (B a Ha Ea).
  Qed.
End BracketRoot.

(* the continuity hypothesis holds for the two-sided exponential measure *)
Lemma exp_tail_continuous a : a < 0 -> continuity_pt (fun x => exp_tail 0%nat (Fin x)) a.
Proof.
  intros Ha. apply (continuity_pt_local _ (fun x => - exp x) a (- a)); [lra| |].
  - intros x Hx. unfold exp_tail. assert (x < 0) by (apply Rabs_def2 in Hx; lra). rewrite (proj2 (Rltb_true x 0) H). reflexivity.
  - apply (continuity_pt_opp exp). apply derivable_continuous_pt. apply derivable_pt_exp.
Qed.

(* without continuity the direction fails: a unit atom at -1 (tail integral 0 left of -1, -1 on [-1, 0)) satisfies rtails_ok; with target 1/2 and
   recovery 0 the objective is -1/2 on [-10, -1) and +1/2 on [-1, -1/20]: it changes sign over the bracket and vanishes nowhere *)
Definition atom_tail (i : nat) (x : ext R) : R :=
  match x with Fin v => if Rltb v 0 then (if Rltb v (-1) then 0 else -1) else 0 | _ => 0 end.
Lemma atom_tail_ok : rtails_ok atom_tail.
Proof.
  split; [intros i; split; reflexivity|].
  intros i x y L S. destruct x as [|u|], y as [|v|]; cbn in *; try discriminate; try lra;
    try (destruct S as [S|S]; try discriminate).
  all: repeat match goal with
       | |- context [Rltb ?a ?b] => let E := fresh in destruct (Rltb a b) eqn:E; [apply Rltb_true in E|apply Rltb_false in E]
       | H : Rltb ?a ?b = true |- _ => apply Rltb_true in H
       | H : Rltb ?a ?b = false |- _ => apply Rltb_false in H
       | H : Rleb ?a ?b = true |- _ => apply Rleb_true in H
       end.
  all: lra.
Qed.
Theorem threshold_bracket_needs_continuity :
  let f := implied_threshold_fun R (fun x => th1 RNum atom_tail (Fin x)) (1 / 2) 0 in
  rtails_ok atom_tail /\ f (-10) * f (- (1 / 20)) < 0 /\ forall a, -10 <= a <= - (1 / 20) -> f a <> 0.
Proof.
  cbv zeta.
  assert (V : forall a, a < 0 -> implied_threshold_fun R (fun x => th1 RNum atom_tail (Fin x)) (1 / 2) 0 a = if Rltb a (-1) then - (1 / 2) else 1 / 2).
  { intros a Ha. unfold implied_threshold_fun, cds_spread, th1, theta_1, mass_below, atom_tail. cbn [xlt0 RNum nltb n0 nopp T].
    rewrite (proj2 (Rltb_true a 0) Ha). destruct (Rltb a (-1)); cbn; lra. }
  split; [exact atom_tail_ok|]. split.
  - rewrite !V by lra. rewrite (proj2 (Rltb_true (-10) (-1))) by lra. rewrite (proj2 (Rltb_false (- (1 / 20)) (-1))) by lra. lra.
  - intros a Ha. rewrite V by lra. destruct (Rltb a (-1)); lra.
Qed.

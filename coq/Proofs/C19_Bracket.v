(* C19 -- implied_cds_threshold: when does the objective change sign over the bracket (-10, -h0) that brentq is given?
   The objective is the GENERATED cds_spread(a) - target on the GENERATED theta (th1); it is monotone on negative thresholds
   (C19_monotone), hence: its values over the bracket lie between its end values; a root inside the bracket forces the sign condition
   f(-10) * f(-h0) <= 0 that brentq tests; without a sign change the objective is nowhere zero on the bracket (raising is right). *)
From Coq Require Import List Arith Bool Reals Lra.
From RV Require Import Base.RB Base.ExtNum Gen.GenC19Theta Gen.GenC19Spread Model.Credit Proofs.C19_Credit Proofs.C19_Spread.
Import ListNotations.
Open Scope R_scope.

Section Bracket.
  Variable U1 : nat -> ext R -> R.
  Hypothesis Tok : rtails_ok U1.
  Variables target rec h0 : R.
  Hypothesis Hr : rec <= 1.
  Notation f := (implied_threshold_fun R (fun x => th1 RNum U1 (Fin x)) target rec).

  Lemma threshold_fun_mono a a' : a <= a' -> a' < 0 -> f a <= f a'.
  Proof.
    intros L N.
    apply (proj1 (implied_threshold_props R (fun x => th1 RNum U1 (Fin x)) (fun x y => x <= y /\ y < 0)
           (fun x y H => theta1_monotone U1 Tok (Fin x) (Fin y) (proj2 (Rleb_true x y) (proj1 H)) (proj2 (Rltb_true y 0) (proj2 H))) target rec Hr)).
    split; assumption.
  Qed.

  Theorem threshold_bracket : 0 < h0 ->
    implied_threshold_fun_bracket h0 = (-10, - h0) /\
    (forall a, -10 <= a <= - h0 -> f (-10) <= f a <= f (- h0)) /\
    (forall a, -10 <= a <= - h0 -> f a = 0 -> f (-10) * f (- h0) <= 0) /\
    (0 < f (-10) * f (- h0) -> forall a, -10 <= a <= - h0 -> f a <> 0).
  Proof.
    intros Hh.
    assert (B : forall a, -10 <= a <= - h0 -> f (-10) <= f a <= f (- h0)).
    { intros a [A1 A2]. split; apply threshold_fun_mono; lra. }
    split; [reflexivity|]. split; [exact B|]. split.
    - intros a Ha E. specialize (B a Ha). rewrite E in B. nra.
    - intros P a Ha E. specialize (B a Ha). rewrite E in B. nra.
  Qed.
End Bracket.

(* an instance of rtails_ok (non-vacuity): the two-sided exponential measure nu(dx) = exp(-|x|) dx, U(x) = -exp(x) (x < 0), exp(-x) (x >= 0) *)
Definition exp_tail (i : nat) (x : ext R) : R :=
  match x with Fin v => if Rltb v 0 then - exp v else exp (- v) | _ => 0 end.
Lemma exp_tail_ok : rtails_ok exp_tail.
Proof.
  split; [intros i; split; reflexivity|].
  intros i x y L S. destruct x as [|u|], y as [|v|]; cbn in *; try discriminate; try lra;
    try (destruct S as [S|S]; try discriminate).
  all: repeat match goal with
       | |- context [Rltb ?a ?b] => let E := fresh in destruct (Rltb a b) eqn:E; [apply Rltb_true in E|apply Rltb_false in E]
       | H : Rltb ?a ?b = true |- _ => apply Rltb_true in H
       | H : Rltb ?a ?b = false |- _ => apply Rltb_false in H
       | H : Rleb ?a ?b = true |- _ => apply Rleb_true in H
       end.
  all: try (pose proof (exp_pos u)); try (pose proof (exp_pos v)); try (pose proof (exp_pos (- u))); try (pose proof (exp_pos (- v))); try lra.
  all: try (apply Ropp_le_contravar); try (destruct (Req_dec u v) as [->|]; [lra|apply Rlt_le; apply exp_increasing; lra]).
Qed.

Lemma exp_tail_theta a : a < 0 -> th1 RNum exp_tail (Fin a) = exp a.
Proof.
  intros H. unfold th1, theta_1, mass_below, exp_tail. cbn [xlt0 RNum nltb n0 nopp T].
  rewrite (proj2 (Rltb_true a 0) H). cbn. lra.
Qed.

(* C19 -- credit closed forms.
   theta (py2coq-generated CFLevyModel._theta / CFLevyCopulaModel._theta, Model/Credit.v) is the Levy mass of the union of the
   default half-spaces, written as a sum of masses of DISJOINT rectangles computed by the generated fast paths of C12
   ({x1<=a1} + {x1>a1, x2<=a2} + {x1>a1, x2>a2, x3<=a3}) and as inclusion-exclusion (d = 2); it is non-decreasing in every
   threshold (from the copula-level hypotheses of C12_nonneg, i.e. what C11 proves); spread maps. *)
From Coq Require Import List Arith Bool Reals Lra Lia.
From RV Require Import Base.RB Base.ExtNum Model.Copula Gen.GenC12Mass Model.MassNd Gen.GenC19Theta Model.Credit Proofs.C12_Mass Proofs.C12_Family Proofs.C12_Nonneg.
Import ListNotations.
Open Scope R_scope.

Section Union.
  Variable U1 : nat -> ext R -> R.
  Variable UI : idx -> list (ext R) -> R.
  Variable ok : list nat -> Prop.      (* valid index lists of the family (okI d) *)
  Hypothesis UI_inf : forall I x, ok I -> length x = length I -> existsb is_inf x = true -> UI (Some I) x = 0.
  Hypothesis UI_one : forall i x, ok [i] -> UI (Some [i]) [x] = U1 i x.
  Notation f1 := (fast_1d RNum U1).
  Notation f2 := (fast_2d RNum U1 UI).
  Notation f3 := (fast_3d RNum U1 UI).

  Lemma u1p i : ok [i] -> U1 i PInf = 0. Proof. intros. rewrite <- UI_one by assumption. apply UI_inf; auto. Qed.
  Lemma u1n i : ok [i] -> U1 i NInf = 0. Proof. intros. rewrite <- UI_one by assumption. apply UI_inf; auto. Qed.
  Lemma j2a i j y : ok [i; j] -> UI (Some [i; j]) [PInf; y] = 0. Proof. intros; apply UI_inf; auto. Qed.
  Lemma j2b i j y : ok [i; j] -> UI (Some [i; j]) [NInf; y] = 0. Proof. intros; apply UI_inf; auto. Qed.
  Lemma j2c i j x : ok [i; j] -> UI (Some [i; j]) [x; PInf] = 0. Proof. intros; apply UI_inf; auto; simpl; destruct x; reflexivity. Qed.
  Lemma j2d i j x : ok [i; j] -> UI (Some [i; j]) [x; NInf] = 0. Proof. intros; apply UI_inf; auto; simpl; destruct x; reflexivity. Qed.
  Lemma j3a i j k y z : ok [i; j; k] -> UI (Some [i; j; k]) [PInf; y; z] = 0. Proof. intros; apply UI_inf; auto. Qed.
  Lemma j3b i j k y z : ok [i; j; k] -> UI (Some [i; j; k]) [NInf; y; z] = 0. Proof. intros; apply UI_inf; auto. Qed.
  Lemma j3c i j k x z : ok [i; j; k] -> UI (Some [i; j; k]) [x; PInf; z] = 0. Proof. intros; apply UI_inf; auto; simpl; destruct x; reflexivity. Qed.
  Lemma j3d i j k x z : ok [i; j; k] -> UI (Some [i; j; k]) [x; NInf; z] = 0. Proof. intros; apply UI_inf; auto; simpl; destruct x; reflexivity. Qed.
  Lemma j3e i j k x y : ok [i; j; k] -> UI (Some [i; j; k]) [x; y; PInf] = 0. Proof. intros; apply UI_inf; auto; simpl; destruct x, y; reflexivity. Qed.
  Lemma j3f i j k x y : ok [i; j; k] -> UI (Some [i; j; k]) [x; y; NInf] = 0. Proof. intros; apply UI_inf; auto; simpl; destruct x, y; reflexivity. Qed.
  Ltac infs := rewrite ?j2a, ?j2b, ?j2c, ?j2d, ?j3a, ?j3b, ?j3c, ?j3d, ?j3e, ?j3f, ?u1p, ?u1n by assumption.

  Theorem theta1_union a1 : ok [0%nat] -> @xlt0 RNum a1 = true -> th1 RNum U1 a1 = f1 NInf a1 0%nat.
  Proof. intros K0 H. unfold th1, theta_1, mass_below, fast_1d, mass_1d. rewrite H. cbn. rewrite u1n by assumption. ring. Qed.

  Theorem theta2_union a1 a2 : ok2 ok 0 1 -> @xlt0 RNum a1 = true -> @xlt0 RNum a2 = true ->
    th2 RNum U1 UI a1 a2 = f2 [NInf; NInf] [a1; PInf] None + f2 [a1; NInf] [PInf; a2] None
    /\ th2 RNum U1 UI a1 a2 = f2 [NInf; NInf] [a1; PInf] None + f2 [NInf; NInf] [PInf; a2] None - f2 [NInf; NInf] [a1; a2] None.
  Proof.
    intros [K01 [K0 K1]] H1 H2. pose proof (lt0_ge0 _ H1) as G1. pose proof (lt0_ge0 _ H2) as G2.
    unfold th2, theta_2, mass_below, fast_2d, mass_2d, mass_1d. rewrite H1, H2, G1, G2.
    cbn [is_some is_none olen Nat.eqb andb orb length]. rewrite ?xN1, ?xN2, ?xP1, ?xP2, ?H1, ?H2, ?G1, ?G2. cbn. infs. split; ring.
  Qed.

  Theorem theta3_union a1 a2 a3 : ok3 ok 0 1 2 -> @xlt0 RNum a1 = true -> @xlt0 RNum a2 = true -> @xlt0 RNum a3 = true ->
    th3 RNum U1 UI a1 a2 a3 = f3 [NInf; NInf; NInf] [a1; PInf; PInf] None + f3 [a1; NInf; NInf] [PInf; a2; PInf] None
                               + f3 [a1; a2; NInf] [PInf; PInf; a3] None
    /\ th3 RNum U1 UI a1 a2 a3 =
         f3 [NInf; NInf; NInf] [a1; PInf; PInf] None + f3 [NInf; NInf; NInf] [PInf; a2; PInf] None + f3 [NInf; NInf; NInf] [PInf; PInf; a3] None
         - f3 [NInf; NInf; NInf] [a1; a2; PInf] None - f3 [NInf; NInf; NInf] [a1; PInf; a3] None - f3 [NInf; NInf; NInf] [PInf; a2; a3] None
         + f3 [NInf; NInf; NInf] [a1; a2; a3] None.
  Proof.
    intros [K012 [K01 [K02 [K12 [K0 [K1 K2]]]]]] H1 H2 H3. pose proof (lt0_ge0 _ H1) as G1. pose proof (lt0_ge0 _ H2) as G2. pose proof (lt0_ge0 _ H3) as G3.
    unfold th3, theta_3, mass_below, fast_3d, mass_3d, mass_2d, mass_1d. rewrite H1, H2, H3, G1, G2, G3.
    cbn [is_some is_none olen Nat.eqb Nat.ltb Nat.leb andb orb length]. rewrite ?xN1, ?xN2, ?xP1, ?xP2, ?H1, ?H2, ?H3, ?G1, ?G2, ?G3. cbn. infs. split; ring.
  Qed.
End Union.

Section Monotone.
  Variable U1 : nat -> ext R -> R.
  Variable cop : list (ext R) -> R.
  Definition rtails_ok : Prop :=
    (forall i, U1 i PInf = 0 /\ U1 i NInf = 0) /\
    (forall i x y, @xleb RNum x y = true -> (@xlt0 RNum y = true \/ @xlt0 RNum x = false) -> U1 i y <= U1 i x).
  Hypothesis Tok : rtails_ok.
  Notation V := (fun i x => Fin (U1 i x)).

  Lemma tail_order i x y : @xleb RNum x y = true -> @xlt0 RNum y = true -> @xleb RNum (Fin (U1 i y)) (Fin (U1 i x)) = true.
  Proof. intros H1 H2. apply xleb_fin. destruct Tok as [_ Tm]. apply Tm; auto. Qed.

  Theorem theta1_monotone a a' : @xleb RNum a a' = true -> @xlt0 RNum a' = true -> th1 RNum U1 a <= th1 RNum U1 a'.
  Proof.
    intros H1 H2. pose proof (lt0_mono _ _ H1 H2) as H0. unfold th1, theta_1, mass_below. rewrite H0, H2. cbn.
    destruct Tok as [_ Tm]. pose proof (Tm 0%nat a a' H1 (or_introl H2)). lra.
  Qed.

  Theorem theta2_monotone : copula2_ok cop -> forall a1 a1' a2 a2',
    @xleb RNum a1 a1' = true -> @xlt0 RNum a1' = true -> @xleb RNum a2 a2' = true -> @xlt0 RNum a2' = true ->
    th2 RNum U1 (margin_tail_integral RNum V cop 2) a1 a2 <= th2 RNum U1 (margin_tail_integral RNum V cop 2) a1' a2 /\
    th2 RNum U1 (margin_tail_integral RNum V cop 2) a1 a2 <= th2 RNum U1 (margin_tail_integral RNum V cop 2) a1 a2'.
  Proof.
    intros [Cg [Cinc Cm]] a1 a1' a2 a2' L1 N1' L2 N2'.
    pose proof (lt0_mono _ _ L1 N1') as N1. pose proof (lt0_mono _ _ L2 N2') as N2.
    pose proof (lt0_ge0 _ N1) as G1. pose proof (lt0_ge0 _ N1') as G1'. pose proof (lt0_ge0 _ N2) as G2. pose proof (lt0_ge0 _ N2') as G2'.
    pose proof (tail_order 0%nat _ _ L1 N1') as O1. pose proof (tail_order 1%nat _ _ L2 N2') as O2.
    unfold th2, theta_2, mass_below. rewrite N1, N1', N2, N2', G1, G1', G2, G2'. cbn.
    set (A1 := U1 0%nat a1) in *. set (A1' := U1 0%nat a1') in *. set (A2 := U1 1%nat a2) in *. set (A2' := U1 1%nat a2') in *.
    assert (Z := xleb_pinf (Fin 0)).
    pose proof (Cinc _ _ _ _ O1 (xleb_ninf (Fin A2)) eq_refl). pose proof (Cinc _ _ _ _ O1 Z eq_refl).
    pose proof (Cinc _ _ _ _ (xleb_ninf (Fin A1)) O2 eq_refl). pose proof (Cinc _ _ _ _ Z O2 eq_refl).
    pose proof (proj1 (Cm A1)). pose proof (proj1 (Cm A1')). pose proof (proj2 (Cm A2)). pose proof (proj2 (Cm A2')).
    pose proof (proj2 (Cg (Fin A1))). pose proof (proj2 (Cg (Fin A1'))). pose proof (proj1 (Cg (Fin A2))). pose proof (proj1 (Cg (Fin A2'))).
    cbn in *. split; lra.
  Qed.

  Theorem theta3_monotone : copula3_ok cop -> forall a1 a1' a2 a2' a3 a3',
    @xleb RNum a1 a1' = true -> @xlt0 RNum a1' = true -> @xleb RNum a2 a2' = true -> @xlt0 RNum a2' = true ->
    @xleb RNum a3 a3' = true -> @xlt0 RNum a3' = true ->
    let UI := margin_tail_integral RNum V cop 3 in
    th3 RNum U1 UI a1 a2 a3 <= th3 RNum U1 UI a1' a2 a3 /\ th3 RNum U1 UI a1 a2 a3 <= th3 RNum U1 UI a1 a2' a3 /\
    th3 RNum U1 UI a1 a2 a3 <= th3 RNum U1 UI a1 a2 a3'.
  Proof.
    intros [Cg [Cinc Cm]] a1 a1' a2 a2' a3 a3' L1 N1' L2 N2' L3 N3'.
    pose proof (lt0_mono _ _ L1 N1') as N1. pose proof (lt0_mono _ _ L2 N2') as N2. pose proof (lt0_mono _ _ L3 N3') as N3.
    pose proof (lt0_ge0 _ N1) as G1. pose proof (lt0_ge0 _ N1') as G1'. pose proof (lt0_ge0 _ N2) as G2. pose proof (lt0_ge0 _ N2') as G2'.
    pose proof (lt0_ge0 _ N3) as G3. pose proof (lt0_ge0 _ N3') as G3'.
    pose proof (tail_order 0%nat _ _ L1 N1') as O1. pose proof (tail_order 1%nat _ _ L2 N2') as O2. pose proof (tail_order 2%nat _ _ L3 N3') as O3.
    assert (g1 : forall u v, cop [Fin 0; u; v] = 0) by (intros; apply Cg).
    assert (g2 : forall u v, cop [u; Fin 0; v] = 0) by (intros; apply Cg).
    assert (g3 : forall u v, cop [u; v; Fin 0] = 0) by (intros; apply Cg).
    unfold th3, theta_3, mass_below. rewrite N1, N1', N2, N2', N3, N3', G1, G1', G2, G2', G3, G3'. cbn.
    set (A1 := U1 0%nat a1) in *. set (A1' := U1 0%nat a1') in *. set (A2 := U1 1%nat a2) in *. set (A2' := U1 1%nat a2') in *.
    set (A3 := U1 2%nat a3) in *. set (A3' := U1 2%nat a3') in *.
    assert (Z := xleb_pinf (Fin 0)).
    assert (B1 := xleb_ninf (Fin A1)). assert (B2 := xleb_ninf (Fin A2)). assert (B3 := xleb_ninf (Fin A3)).
    pose proof (Cinc _ _ _ _ _ _ O1 B2 B3 eq_refl).
    pose proof (Cinc _ _ _ _ _ _ O1 B2 Z eq_refl).
    pose proof (Cinc _ _ _ _ _ _ O1 Z B3 eq_refl).
    pose proof (Cinc _ _ _ _ _ _ O1 Z Z eq_refl).
    pose proof (Cinc _ _ _ _ _ _ B1 O2 B3 eq_refl).
    pose proof (Cinc _ _ _ _ _ _ B1 O2 Z eq_refl).
    pose proof (Cinc _ _ _ _ _ _ B1 B2 O3 eq_refl).
    pose proof (Cinc _ _ _ _ _ _ B1 Z O3 eq_refl).
    pose proof (Cinc _ _ _ _ _ _ Z O2 B3 eq_refl).
    pose proof (Cinc _ _ _ _ _ _ Z O2 Z eq_refl).
    pose proof (Cinc _ _ _ _ _ _ Z B2 O3 eq_refl).
    pose proof (Cinc _ _ _ _ _ _ Z Z O3 eq_refl).
    pose proof (proj1 (Cm A1)). pose proof (proj1 (Cm A1')). pose proof (proj1 (proj2 (Cm A2))). pose proof (proj1 (proj2 (Cm A2'))).
    pose proof (proj2 (proj2 (Cm A3))). pose proof (proj2 (proj2 (Cm A3'))).
    clear Cinc Cm Cg. cbn in *. rewrite ?g1, ?g2, ?g3 in *. repeat split; lra.
  Qed.
End Monotone.

(* ---- the union-mass identities on the modelled family (no hypothesis on UI left) ---------------------------- *)
Section UnionModel.
  Variable V : nat -> ext R -> ext R.
  Variable cop : list (ext R) -> R.
  Hypothesis Vinf : tails_inf V.
  Notation U1 := (tail_val RNum V).
  Theorem theta2_union_model : grounded2 cop -> forall a1 a2, @xlt0 RNum a1 = true -> @xlt0 RNum a2 = true ->
    let UI := margin_tail_integral RNum V cop 2 in
    th2 RNum U1 UI a1 a2 = fast_2d RNum U1 UI [NInf; NInf] [a1; PInf] None + fast_2d RNum U1 UI [a1; NInf] [PInf; a2] None
    /\ th2 RNum U1 UI a1 a2 = fast_2d RNum U1 UI [NInf; NInf] [a1; PInf] None + fast_2d RNum U1 UI [NInf; NInf] [PInf; a2] None
                              - fast_2d RNum U1 UI [NInf; NInf] [a1; a2] None.
  Proof.
    intros G a1 a2 H1 H2 UI. eapply theta2_union with (ok := okI 2);
      first [exact (mti_inf2 V cop Vinf G) | (intros; apply mti_one; lia) | (apply ok2_of; lia) | assumption].
  Qed.
  Theorem theta3_union_model : grounded3 cop -> forall a1 a2 a3, @xlt0 RNum a1 = true -> @xlt0 RNum a2 = true -> @xlt0 RNum a3 = true ->
    let UI := margin_tail_integral RNum V cop 3 in
    let f3 := fast_3d RNum U1 UI in
    th3 RNum U1 UI a1 a2 a3 = f3 [NInf; NInf; NInf] [a1; PInf; PInf] None + f3 [a1; NInf; NInf] [PInf; a2; PInf] None
                               + f3 [a1; a2; NInf] [PInf; PInf; a3] None
    /\ th3 RNum U1 UI a1 a2 a3 =
         f3 [NInf; NInf; NInf] [a1; PInf; PInf] None + f3 [NInf; NInf; NInf] [PInf; a2; PInf] None + f3 [NInf; NInf; NInf] [PInf; PInf; a3] None
         - f3 [NInf; NInf; NInf] [a1; a2; PInf] None - f3 [NInf; NInf; NInf] [a1; PInf; a3] None - f3 [NInf; NInf; NInf] [PInf; a2; a3] None
         + f3 [NInf; NInf; NInf] [a1; a2; a3] None.
  Proof.
    intros G a1 a2 a3 H1 H2 H3 UI f3. eapply theta3_union with (ok := okI 3);
      first [exact (mti_inf3 V cop Vinf G) | (intros; apply mti_one; lia) | (apply ok3_of; lia) | assumption].
  Qed.
End UnionModel.

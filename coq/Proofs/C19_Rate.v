(* C19 -- level-0 credit grid, d = 1: the summed chain rates over the default region equal theta, from C01's tiling.
   Uses builder-grid's model of the chain rates (Model/Chain.v) and its telescoping lemma sum_cells (Proofs/C01_Chain.v):
   `mass a b` is any interval mass that is additive on intervals not containing 0 (C09 for the concrete measures). *)
From Coq Require Import List Arith QArith Lia.
From RV Require Import Base.QB Model.Grid Model.Chain Proofs.C01_Chain.
Import ListNotations.
Open Scope Q_scope.

Section Rate1d.
  Variable mid : Q -> Q -> Q.
  Hypothesis mid_between : forall x y, x < y -> x < mid x y /\ mid x y < y.
  Hypothesis mid_refl : forall x, ~ x == 0 -> mid x x == x.
  Variable mass : Q -> Q -> Q.
  Hypothesis mass_add : forall a b c, a <= b -> b <= c -> (c < 0 \/ 0 < a) -> mass a c == mass a b + mass b c.
  Hypothesis mass_proper : forall a a' b b', a == a' -> b == b' -> mass a b == mass a' b'.

  (* xs: the axis; the m >= 1 states below the threshold are x_0 .. x_{m-1}; `bnd` is the upper boundary of the last of their cells
     (level 0 of the credit grid: bnd == a, C13_credit_admissible; refined grids: bnd < a).  theta of the measure truncated to the
     grid is mass x_0 a (= nu([l, a)) = CFLevyModel._theta of the truncated model). *)
  Theorem rate_equals_theta_1d xs m bnd : incr xs -> ends_ok xs -> (1 <= m)%nat -> (m <= length xs)%nat ->
    (forall k, (k < m)%nat -> cell_hi mid xs k < 0) -> cell_hi mid xs (m - 1) == bnd -> cell_lo mid xs 0 == nthq xs 0 ->
    qsum (map (fun k => mass (cell_lo mid xs k) (cell_hi mid xs k)) (seq 0 m)) == mass (nthq xs 0) bnd.
  Proof.
    intros Hi He Hm Hl Hneg Hb H0.
    rewrite (sum_cells mid mid_between mid_refl mass mass_add mass_proper xs 0 m Hi He Hm); try lia.
    - apply mass_proper; [exact H0 | simpl; exact Hb].
    - left. intros k Hk. apply Hneg. lia.
  Qed.

  (* refined grid: the default-region rate is theta minus the mass of the slab [bnd, a) *)
  Corollary refined_gap_1d xs m bnd a : incr xs -> ends_ok xs -> (1 <= m)%nat -> (m <= length xs)%nat ->
    (forall k, (k < m)%nat -> cell_hi mid xs k < 0) -> cell_hi mid xs (m - 1) == bnd -> cell_lo mid xs 0 == nthq xs 0 ->
    nthq xs 0 <= bnd -> bnd <= a -> a < 0 ->
    qsum (map (fun k => mass (cell_lo mid xs k) (cell_hi mid xs k)) (seq 0 m)) == mass (nthq xs 0) a - mass bnd a.
  Proof.
    intros Hi He Hm Hl Hneg Hb H0 L1 L2 Ha. rewrite (rate_equals_theta_1d xs m bnd); auto.
    rewrite (mass_add (nthq xs 0) bnd a); auto. ring.
  Qed.
End Rate1d.

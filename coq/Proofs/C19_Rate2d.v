(* C19 -- d = 2: the summed rates of the chain's states in the default region equal the mass of the default region
   (disjoint form and inclusion-exclusion form), for ANY rectangle mass additive per coordinate on boxes that avoid the
   origin (C01's hypotheses).  Uses the 2-d chain model of Model/Chain.v (q_entry2: MarkovChainLevyCopula's rates
   model.mass(cell of the state)) and the row/column telescoping lemmas of Proofs/C01_Chain2d.v (read-only). *)
From Coq Require Import ZArith QArith Qabs List Bool Lia Lqa.
From RV Require Import Base.QB Model.Grid Gen.GenC01Trunc Model.Chain Proofs.C13_Grid Proofs.C01_Chain Proofs.C01_Chain2d.
Import ListNotations.
Open Scope Q_scope.

(* the chain's default-region rate: the sum of the rates q_entry2 of all states (x_i, y_j) with x_i < a1 or y_j < a2 *)
Definition default_rate2 (mid : Q -> Q -> Q) (mass2 : Q * Q -> Q * Q -> Q) (xs ys : list Q) (o : nat) (a1 a2 : Q) : Q :=
  qsum (map (fun i => qsum (map (fun j =>
     if Qltb (nthq xs i) a1 || Qltb (nthq ys j) a2 then q_entry2 mid mass2 xs ys o i j else 0) (seq 0 (length ys)))) (seq 0 (length xs))).
(* the same region by indices: the first mx states of axis 1 / the first my states of axis 2 are below the thresholds *)
Definition default_rate2_idx (mid : Q -> Q -> Q) (mass2 : Q * Q -> Q * Q -> Q) (xs ys : list Q) (o mx my : nat) : Q :=
  qsum (map (fun i => qsum (map (fun j =>
     if (i <? mx)%nat || (j <? my)%nat then q_entry2 mid mass2 xs ys o i j else 0) (seq 0 (length ys)))) (seq 0 (length xs))).

Lemma qsum_cons v l : qsum (v :: l) == v + qsum l.
Proof. unfold qsum; simpl; lra. Qed.
Lemma qsum_zero {A} (l : list A) : qsum (map (fun _ => 0) l) == 0.
Proof. induction l as [|x r IH]; [reflexivity|]. cbn [map]. rewrite qsum_cons, IH. lra. Qed.
Lemma seq_split2 n m : (m <= n)%nat -> seq 0 n = seq 0 m ++ seq m (n - m).
Proof. intros H. replace n with (m + (n - m))%nat at 1 by lia. apply seq_app. Qed.

Section Rate2d.
  Variable mid : Q -> Q -> Q.
  Hypothesis mid_between : forall x y, x < y -> x < mid x y /\ mid x y < y.
  Hypothesis mid_refl : forall x, ~ x == 0 -> mid x x == x.
  Hypothesis mid_proper : forall x x' y y', x == x' -> y == y' -> mid x y == mid x' y'.
  Variable mass2 : Q * Q -> Q * Q -> Q.
  Hypothesis mass2_add1 : forall a1 b1 c1 y1 y2, a1 <= b1 -> b1 <= c1 -> avoids (a1, y1) (c1, y2) ->
    mass2 (a1, y1) (c1, y2) == mass2 (a1, y1) (b1, y2) + mass2 (b1, y1) (c1, y2).
  Hypothesis mass2_add2 : forall x1 x2 a2 b2 c2, a2 <= b2 -> b2 <= c2 -> avoids (x1, a2) (x2, c2) ->
    mass2 (x1, a2) (x2, c2) == mass2 (x1, a2) (x2, b2) + mass2 (x1, b2) (x2, c2).
  Hypothesis mass2_proper : forall a1 a2 b1 b2 a1' a2' b1' b2', a1 == a1' -> a2 == a2' -> b1 == b1' -> b2 == b2' ->
    mass2 (a1, a2) (b1, b2) == mass2 (a1', a2') (b1', b2').

  Local Notation clo := (cell_lo mid).
  Local Notation chi := (cell_hi mid).
  Local Notation q2 := (q_entry2 mid mass2).

  (* the default region {i < mx or j < my} with mx, my <= o (all default states lie strictly left of / below the origin):
     the summed rates are the mass of the strip [x_0, bx] x [y_0, y_N] plus the mass of [bx, x_N] x [y_0, by], where bx (by) is
     the upper cell boundary of the last default state of axis 1 (2) *)
  Theorem default_rate2_idx_is_union xs ys o hx hy mx my : admissible xs o hx -> admissible ys o hy ->
    (1 <= mx <= o)%nat -> (1 <= my <= o)%nat ->
    default_rate2_idx mid mass2 xs ys o mx my ==
      mass2 (clo xs 0, clo ys 0) (chi xs (mx - 1), chi ys (length ys - 1))
      + mass2 (clo xs mx, clo ys 0) (chi xs (length xs - 1), chi ys (my - 1)).
  Proof.
    intros Ax Ay Hmx Hmy.
    destruct (axis_facts mid mid_between mid_refl mid_proper xs o hx Ax) as (Xi & Xe & X1 & X2 & XE1 & XE4 & XE2 & XE3 & XN & XP & XS & XC1 & XC2).
    destruct (axis_facts mid mid_between mid_refl mid_proper ys o hy Ay) as (Yi & Ye & Y1 & Y2 & YE1 & YE4 & YE2 & YE3 & YN & YP & YS & YC1 & YC2).
    unfold default_rate2_idx. set (nx := length xs) in *. set (ny := length ys) in *.
    (* rows of the default states of axis 1: every column *)
    assert (RowA : forall i, (i < mx)%nat ->
              qsum (map (fun j => if (i <? mx)%nat || (j <? my)%nat then q2 xs ys o i j else 0) (seq 0 ny))
              == mass2 (clo xs i, clo ys 0) (chi xs i, chi ys (ny - 1))).
    { intros i Hi.
      rewrite (qsum_map_ext_in _ (fun j => mass2 (clo xs i, clo ys j) (chi xs i, chi ys j))).
      2:{ intros j _. destruct (Nat.ltb_spec i mx); [|lia]. cbn [orb]. unfold q_entry2.
          destruct (Nat.eqb_spec i o); [lia|reflexivity]. }
      rewrite (row_sum mid mid_between mid_refl mass2 mass2_add2 ys (clo xs i) (chi xs i) 0 ny Yi Ye) by (try (unfold ny; lia);
        intros k _; unfold avoids; cbn [fst snd]; left; apply (XS i); unfold nx; lia).
      replace (0 + ny - 1)%nat with (ny - 1)%nat by lia. reflexivity. }
    (* the other rows: the columns of the default states of axis 2 *)
    assert (RowB : forall i, (mx <= i)%nat -> (i < nx)%nat ->
              qsum (map (fun j => if (i <? mx)%nat || (j <? my)%nat then q2 xs ys o i j else 0) (seq 0 ny))
              == mass2 (clo xs i, clo ys 0) (chi xs i, chi ys (my - 1))).
    { intros i Hi Hi2.
      rewrite (seq_split2 ny my) by (unfold ny; lia). rewrite map_app, qsum_app.
      rewrite (qsum_map_ext_in _ (fun j => mass2 (clo xs i, clo ys j) (chi xs i, chi ys j)) (seq 0 my)).
      2:{ intros j Hj. apply in_seq in Hj. destruct (Nat.ltb_spec i mx); [lia|]. destruct (Nat.ltb_spec j my); [|lia]. cbn [orb].
          unfold q_entry2. destruct (Nat.eqb_spec j o); [lia|]. rewrite andb_false_r. reflexivity. }
      rewrite (qsum_map_ext_in _ (fun _ => 0) (seq my (ny - my))).
      2:{ intros j Hj. apply in_seq in Hj. destruct (Nat.ltb_spec i mx); [lia|]. destruct (Nat.ltb_spec j my); [lia|]. reflexivity. }
      rewrite qsum_zero.
      rewrite (row_sum mid mid_between mid_refl mass2 mass2_add2 ys (clo xs i) (chi xs i) 0 my Yi Ye) by (try (unfold ny in *; lia);
        intros k Hk; unfold avoids; cbn [fst snd]; right; right; left; apply (YS k); unfold ny in *; lia).
      replace (0 + my - 1)%nat with (my - 1)%nat by lia. lra. }
    rewrite (seq_split2 nx mx) by (unfold nx; lia). rewrite map_app, qsum_app.
    rewrite (qsum_map_ext_in _ (fun i => mass2 (clo xs i, clo ys 0) (chi xs i, chi ys (ny - 1))) (seq 0 mx)).
    2:{ intros i Hi. apply in_seq in Hi. apply RowA. lia. }
    rewrite (qsum_map_ext_in _ (fun i => mass2 (clo xs i, clo ys 0) (chi xs i, chi ys (my - 1))) (seq mx (nx - mx))).
    2:{ intros i Hi. apply in_seq in Hi. apply RowB; lia. }
    rewrite (col_sum mid mid_between mid_refl mass2 mass2_add1 xs (clo ys 0) (chi ys (ny - 1)) 0 mx Xi Xe) by (try (unfold nx in *; lia);
      intros k Hk; unfold avoids; cbn [fst snd]; left; apply (XS k); unfold nx in *; lia).
    rewrite (col_sum mid mid_between mid_refl mass2 mass2_add1 xs (clo ys 0) (chi ys (my - 1)) mx (nx - mx) Xi Xe) by (try (unfold nx in *; lia);
      intros k Hk; unfold avoids; cbn [fst snd]; right; right; left; apply (YS (my - 1)%nat); unfold ny in *; lia).
    replace (0 + mx - 1)%nat with (mx - 1)%nat by lia. replace (mx + (nx - mx) - 1)%nat with (nx - 1)%nat by lia. reflexivity.
  Qed.

  (* with the boundaries named: truncation box [l1, r1] x [l2, r2], cell boundaries b1, b2 next to the thresholds *)
  Theorem default_rate2_idx_boxes xs ys o hx hy mx my b1 b2 : admissible xs o hx -> admissible ys o hy ->
    (1 <= mx <= o)%nat -> (1 <= my <= o)%nat -> chi xs (mx - 1) == b1 -> chi ys (my - 1) == b2 ->
    let l1 := headq xs in let r1 := lastq xs in let l2 := headq ys in let r2 := lastq ys in
    default_rate2_idx mid mass2 xs ys o mx my == mass2 (l1, l2) (b1, r2) + mass2 (b1, l2) (r1, b2)
    /\ default_rate2_idx mid mass2 xs ys o mx my == mass2 (l1, l2) (b1, r2) + mass2 (l1, l2) (r1, b2) - mass2 (l1, l2) (b1, b2).
  Proof.
    intros Ax Ay Hmx Hmy B1 B2 l1 r1 l2 r2.
    pose proof (default_rate2_idx_is_union xs ys o hx hy mx my Ax Ay Hmx Hmy) as U.
    destruct (axis_facts mid mid_between mid_refl mid_proper xs o hx Ax) as (Xi & Xe & X1 & X2 & XE1 & XE4 & XE2 & XE3 & XN & XP & XS & XC1 & XC2).
    destruct (axis_facts mid mid_between mid_refl mid_proper ys o hy Ay) as (Yi & Ye & Y1 & Y2 & YE1 & YE4 & YE2 & YE3 & YN & YP & YS & YC1 & YC2).
    assert (C : clo xs mx == b1) by (rewrite <- B1; rewrite (cell_share mid xs (mx - 1)) by lia; replace (mx - 1 + 1)%nat with mx by lia; reflexivity).
    assert (D : default_rate2_idx mid mass2 xs ys o mx my == mass2 (l1, l2) (b1, r2) + mass2 (b1, l2) (r1, b2)).
    { rewrite U. rewrite (mass2_proper _ _ _ _ _ _ _ _ XE1 YE1 B1 YE4), (mass2_proper _ _ _ _ _ _ _ _ C YE1 XE4 B2). reflexivity. }
    split; [exact D|]. rewrite D.
    (* [l1, r1] x [l2, b2] = [l1, b1] x [l2, b2] + [b1, r1] x [l2, b2]: the strip lies below the origin (b2 < 0) *)
    assert (N2 : b2 < 0) by (rewrite <- B2; apply (YS (my - 1)%nat); lia).
    assert (O1 : l1 <= b1).
    { unfold l1. rewrite <- XE1, <- B1. apply Qle_trans with (clo xs (mx - 1)); [apply (cell_lo_mono mid); try assumption; lia|
        apply (cell_lo_hi mid); try assumption; lia]. }
    assert (O2 : b1 <= r1).
    { unfold r1. rewrite <- XE4, <- B1. apply (cell_hi_mono mid mid_between mid_refl); try assumption; lia. }
    rewrite (mass2_add1 l1 b1 r1 l2 b2 O1 O2) by (unfold avoids; cbn [fst snd]; right; right; left; exact N2). lra.
  Qed.
End Rate2d.

(* ---- the credit axis: the states below the threshold a are exactly the first two, and the cell boundary after them is a ---- *)
Lemma credit_below l a h r sym xs o : credit_axis l a h r sym = Some (xs, o) ->
  forall i, (i < length xs)%nat -> Qltb (nthq xs i) a = (i <? 2)%nat.
Proof.
  unfold credit_axis. destruct (incrb (credit_values l a h r sym)) eqn:E; [|discriminate].
  intros H; injection H as <- <-. apply incrb_incr in E.
  unfold credit_values in *. set (eps := credit_eps l a h) in *.
  intros i Hi. destruct sym; cbn [incr] in E; cbn [length] in Hi;
    (do 9 (destruct i as [|i]; [unfold nthq; cbn [nth]; first [apply Qltb_lt; cbn; lra | apply Qltb_false; cbn; lra]|])); lia.
Qed.

Theorem default_rate2_credit (mass2 : Q * Q -> Q * Q -> Q) l1 a1 r1 l2 a2 r2 h sym xs ys o1 o2 :
  credit_axis l1 a1 h r1 sym = Some (xs, o1) -> credit_axis l2 a2 h r2 sym = Some (ys, o2) ->
  default_rate2 amid mass2 xs ys 4 a1 a2 == default_rate2_idx amid mass2 xs ys 4 2 2.
Proof.
  intros Hx Hy. unfold default_rate2, default_rate2_idx.
  apply qsum_map_ext_in. intros i Hi. apply in_seq in Hi. apply qsum_map_ext_in. intros j Hj. apply in_seq in Hj.
  rewrite (credit_below _ _ _ _ _ _ _ Hx i) by lia. rewrite (credit_below _ _ _ _ _ _ _ Hy j) by lia. reflexivity.
Qed.

Lemma amid_refl' x : ~ x == 0 -> amid x x == x.
Proof. intros _. unfold amid. field. Qed.
Lemma amid_proper x x' y y' : x == x' -> y == y' -> amid x y == amid x' y'.
Proof. intros E1 E2. unfold amid. rewrite E1, E2. reflexivity. Qed.

(* facts about one credit axis: thresholds are negative cell boundaries, the truncation bounds have opposite signs *)
Lemma credit_axis_facts l a h r sym xs o : credit_axis l a h r sym = Some (xs, o) ->
  admissible xs 4 h /\ headq xs = l /\ lastq xs = r /\ cell_hi amid xs (2 - 1) == a /\ a < 0 /\ l < 0 /\ 0 < r.
Proof.
  intros Hx. pose proof (credit_admissible _ _ _ _ _ _ _ Hx) as (Ax & -> & Hl & Hr & Hm).
  assert (Lx : (6 <= length xs)%nat) by (destruct Ax as (_ & ? & ? & _); lia).
  assert (B : cell_hi amid xs (2 - 1) == a).
  { unfold cell_hi, right_point. replace (Nat.min (length xs - 1) (2 - 1 + 1)) with 2%nat by lia. exact Hm. }
  destruct (axis_facts amid amid_between amid_refl' amid_proper xs 4 h Ax) as (Xi & Xe & _ & _ & _ & _ & _ & _ & _ & _ & XS & _).
  destruct Xe as [XL XR]. rewrite <- headq_nth in XL. rewrite <- lastq_nth in XR. rewrite Hl in XL. rewrite Hr in XR.
  assert (A : a < 0) by (rewrite <- B; apply (XS 1%nat); lia).
  split; [exact Ax|]. split; [exact Hl|]. split; [exact Hr|]. split; [exact B|]. split; [exact A|]. split; assumption.
Qed.

(* the chain on a pair of credit axes, ANY rectangle mass additive per coordinate: the summed rates of the default states are the
   mass of the default region inside the truncation box, as a disjoint sum and by inclusion-exclusion *)
Theorem rate_equals_union_credit_2d (mass2 : Q * Q -> Q * Q -> Q) :
  (forall a1 b1 c1 y1 y2, a1 <= b1 -> b1 <= c1 -> avoids (a1, y1) (c1, y2) -> mass2 (a1, y1) (c1, y2) == mass2 (a1, y1) (b1, y2) + mass2 (b1, y1) (c1, y2)) ->
  (forall x1 x2 a2 b2 c2, a2 <= b2 -> b2 <= c2 -> avoids (x1, a2) (x2, c2) -> mass2 (x1, a2) (x2, c2) == mass2 (x1, a2) (x2, b2) + mass2 (x1, b2) (x2, c2)) ->
  (forall a1 a2 b1 b2 a1' a2' b1' b2', a1 == a1' -> a2 == a2' -> b1 == b1' -> b2 == b2' -> mass2 (a1, a2) (b1, b2) == mass2 (a1', a2') (b1', b2')) ->
  forall l1 a1 r1 l2 a2 r2 h sym xs ys o1 o2,
  credit_axis l1 a1 h r1 sym = Some (xs, o1) -> credit_axis l2 a2 h r2 sym = Some (ys, o2) ->
  default_rate2 amid mass2 xs ys 4 a1 a2 == mass2 (l1, l2) (a1, r2) + mass2 (a1, l2) (r1, a2)
  /\ default_rate2 amid mass2 xs ys 4 a1 a2 == mass2 (l1, l2) (a1, r2) + mass2 (l1, l2) (r1, a2) - mass2 (l1, l2) (a1, a2).
Proof.
  intros M1 M2 MP l1 a1 r1 l2 a2 r2 h sym xs ys o1 o2 Hx Hy.
  destruct (credit_axis_facts _ _ _ _ _ _ _ Hx) as (Ax & Hl1 & Hr1 & B1 & _).
  destruct (credit_axis_facts _ _ _ _ _ _ _ Hy) as (Ay & Hl2 & Hr2 & B2 & _).
  rewrite (default_rate2_credit mass2 _ _ _ _ _ _ _ _ _ _ _ _ Hx Hy).
  pose proof (default_rate2_idx_boxes amid amid_between amid_refl' amid_proper mass2 M1 M2 MP xs ys 4 h h 2 2 a1 a2 Ax Ay ltac:(lia) ltac:(lia) B1 B2) as D.
  cbv zeta in D. rewrite Hl1, Hl2, Hr1, Hr2 in D. exact D.
Qed.

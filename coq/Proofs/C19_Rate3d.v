(* C19 -- d = 3: the summed rates of the chain's states in the default region equal the mass of the default region
   (disjoint form and inclusion-exclusion form), for ANY box mass additive per coordinate on boxes that avoid the
   origin (C01's hypotheses; no positivity).  Uses the 3-d chain model of Model/Chain3d.v (q_entry3: MarkovChainLevyCopula's
   rates model.mass(cell of the state), cells = product of the 1-d cells) and the telescoping lemmas run1/run2/run3 of
   Proofs/C01_Chain3d.v (read-only). *)
From Coq Require Import ZArith QArith Qabs List Bool Lia Lqa.
From RV Require Import Base.QB Model.Grid Gen.GenC01Trunc Model.Chain Model.Chain3d Proofs.C13_Grid Proofs.C01_Chain Proofs.C01_Chain2d
  Proofs.C01_Chain3d Proofs.C19_Rate2d.
Import ListNotations.
Open Scope Q_scope.

(* the chain's default-region rate: the sum of the rates q_entry3 of all states (x_i, y_j, z_k) with x_i < a1 or y_j < a2 or z_k < a3 *)
Definition default_rate3 (mid : Q -> Q -> Q) (mass3 : Q3 -> Q3 -> Q) (xs ys zs : list Q) (o : nat) (a1 a2 a3 : Q) : Q :=
  qsum (map (fun i => qsum (map (fun j => qsum (map (fun k =>
     if Qltb (nthq xs i) a1 || Qltb (nthq ys j) a2 || Qltb (nthq zs k) a3 then q_entry3 mid mass3 xs ys zs o i j k else 0)
     (seq 0 (length zs)))) (seq 0 (length ys)))) (seq 0 (length xs))).
(* the same region by indices: the first mx / my / mz states of the axes are below the thresholds *)
Definition default_rate3_idx (mid : Q -> Q -> Q) (mass3 : Q3 -> Q3 -> Q) (xs ys zs : list Q) (o mx my mz : nat) : Q :=
  qsum (map (fun i => qsum (map (fun j => qsum (map (fun k =>
     if (i <? mx)%nat || (j <? my)%nat || (k <? mz)%nat then q_entry3 mid mass3 xs ys zs o i j k else 0)
     (seq 0 (length zs)))) (seq 0 (length ys)))) (seq 0 (length xs))).

Lemma qsum_map_add {A} (f g : A -> Q) (l : list A) : qsum (map (fun x => f x + g x) l) == qsum (map f l) + qsum (map g l).
Proof. induction l as [|x r IH]; [unfold qsum; simpl; lra|]. cbn [map]. rewrite !C19_Rate2d.qsum_cons, IH. lra. Qed.

Section Rate3d.
  Variable mid : Q -> Q -> Q.
  Hypothesis mid_between : forall x y, x < y -> x < mid x y /\ mid x y < y.
  Hypothesis mid_refl : forall x, ~ x == 0 -> mid x x == x.
  Hypothesis mid_proper : forall x x' y y', x == x' -> y == y' -> mid x y == mid x' y'.
  Variable mass3 : Q3 -> Q3 -> Q.
  Hypothesis mass3_add1 : forall a b c y1 y2 z1 z2, a <= b -> b <= c -> avoids3 (a, y1, z1) (c, y2, z2) ->
    mass3 (a, y1, z1) (c, y2, z2) == mass3 (a, y1, z1) (b, y2, z2) + mass3 (b, y1, z1) (c, y2, z2).
  Hypothesis mass3_add2 : forall x1 x2 a b c z1 z2, a <= b -> b <= c -> avoids3 (x1, a, z1) (x2, c, z2) ->
    mass3 (x1, a, z1) (x2, c, z2) == mass3 (x1, a, z1) (x2, b, z2) + mass3 (x1, b, z1) (x2, c, z2).
  Hypothesis mass3_add3 : forall x1 x2 y1 y2 a b c, a <= b -> b <= c -> avoids3 (x1, y1, a) (x2, y2, c) ->
    mass3 (x1, y1, a) (x2, y2, c) == mass3 (x1, y1, a) (x2, y2, b) + mass3 (x1, y1, b) (x2, y2, c).
  Hypothesis mass3_proper : forall a1 a2 a3 b1 b2 b3 a1' a2' a3' b1' b2' b3',
    a1 == a1' -> a2 == a2' -> a3 == a3' -> b1 == b1' -> b2 == b2' -> b3 == b3' ->
    mass3 (a1, a2, a3) (b1, b2, b3) == mass3 (a1', a2', a3') (b1', b2', b3').

  Local Notation clo := (cell_lo mid).
  Local Notation chi := (cell_hi mid).
  Local Notation q3 := (q_entry3 mid mass3).

  (* the default region {i < mx or j < my or k < mz} with mx, my, mz <= o (all default states lie strictly below the origin in
     the coordinate that puts them into the region): the summed rates are the masses of three disjoint boxes
       [x_0, bx] x [y_0, y_N] x [z_0, z_N]  +  [bx, x_N] x [y_0, by] x [z_0, z_N]  +  [bx, x_N] x [by, y_N] x [z_0, bz],
     bx / by / bz the upper cell boundary of the last default state of axis 1 / 2 / 3 *)
  Theorem default_rate3_idx_is_union xs ys zs o hx hy hz mx my mz : admissible xs o hx -> admissible ys o hy -> admissible zs o hz ->
    (1 <= mx <= o)%nat -> (1 <= my <= o)%nat -> (1 <= mz <= o)%nat ->
    default_rate3_idx mid mass3 xs ys zs o mx my mz ==
      mass3 (clo xs 0, clo ys 0, clo zs 0) (chi xs (mx - 1), chi ys (length ys - 1), chi zs (length zs - 1))
      + mass3 (clo xs mx, clo ys 0, clo zs 0) (chi xs (length xs - 1), chi ys (my - 1), chi zs (length zs - 1))
      + mass3 (clo xs mx, clo ys my, clo zs 0) (chi xs (length xs - 1), chi ys (length ys - 1), chi zs (mz - 1)).
  Proof.
    intros Ax Ay Az Hmx Hmy Hmz.
    destruct (axis_facts mid mid_between mid_refl mid_proper xs o hx Ax) as (Xi & Xe & X1 & X2 & XE1 & XE4 & XE2 & XE3 & XN & XP & XS & XC1 & XC2).
    destruct (axis_facts mid mid_between mid_refl mid_proper ys o hy Ay) as (Yi & Ye & Y1 & Y2 & YE1 & YE4 & YE2 & YE3 & YN & YP & YS & YC1 & YC2).
    destruct (axis_facts mid mid_between mid_refl mid_proper zs o hz Az) as (Zi & Ze & Z1 & Z2 & ZE1 & ZE4 & ZE2 & ZE3 & ZN & ZP & ZS & ZC1 & ZC2).
    unfold default_rate3_idx. set (nx := length xs) in *. set (ny := length ys) in *. set (nz := length zs) in *.
    set (F := fun i j k => if (i <? mx)%nat || (j <? my)%nat || (k <? mz)%nat then q3 xs ys zs o i j k else 0).
    match goal with |- ?L == ?R =>
      change (qsum (map (fun i => qsum (map (fun j => qsum (map (fun k => F i j k) (seq 0 nz))) (seq 0 ny))) (seq 0 nx)) == R) end.
    (* innermost sums.  (i, j) with i < mx or j < my: every k *)
    assert (Kfull : forall i j, (i < nx)%nat -> (j < ny)%nat -> (i < mx \/ j < my)%nat ->
              qsum (map (fun k => F i j k) (seq 0 nz)) == mass3 (clo xs i, clo ys j, clo zs 0) (chi xs i, chi ys j, chi zs (nz - 1))).
    { intros i j Hi Hj Hd.
      rewrite (qsum_map_ext_in _ (fun k => mass3 (clo xs i, clo ys j, clo zs k) (chi xs i, chi ys j, chi zs k))).
      2:{ intros k _. unfold F, q_entry3.
          assert (E : (i <? mx)%nat || (j <? my)%nat = true).
          { destruct Hd as [L|L]; [apply Nat.ltb_lt in L; rewrite L; reflexivity|apply Nat.ltb_lt in L; rewrite L; apply orb_true_r]. }
          rewrite E. cbn [orb].
          assert (E2 : Nat.eqb i o && Nat.eqb j o = false).
          { destruct Hd as [L|L]; [destruct (Nat.eqb_spec i o); [lia|reflexivity]|destruct (Nat.eqb_spec j o); [lia|apply andb_false_r]]. }
          rewrite E2. reflexivity. }
      rewrite (run3 mid mid_between mid_refl mass3 mass3_add3 zs (clo xs i) (chi xs i) (clo ys j) (chi ys j) 0 nz Zi Ze);
        [|(unfold nz in *; lia)|(unfold nz in *; lia)|].
      2:{ destruct Hd as [L|L]; [apply av1n, (XS i Hi); lia|apply av2n, (YS j Hj); lia]. }
      replace (0 + nz - 1)%nat with (nz - 1)%nat by lia. reflexivity. }
    (* the other (i, j): only the default states k < mz of axis 3 *)
    assert (Kpart : forall i j, (mx <= i < nx)%nat -> (my <= j < ny)%nat ->
              qsum (map (fun k => F i j k) (seq 0 nz)) == mass3 (clo xs i, clo ys j, clo zs 0) (chi xs i, chi ys j, chi zs (mz - 1))).
    { intros i j Hi Hj.
      rewrite (seq_split2 nz mz) by (unfold nz in *; lia). rewrite map_app, qsum_app.
      rewrite (qsum_map_ext_in _ (fun k => mass3 (clo xs i, clo ys j, clo zs k) (chi xs i, chi ys j, chi zs k)) (seq 0 mz)).
      2:{ intros k Hk. apply in_seq in Hk. unfold F, q_entry3.
          destruct (Nat.ltb_spec i mx); [lia|]. destruct (Nat.ltb_spec j my); [lia|]. destruct (Nat.ltb_spec k mz); [|lia]. cbn [orb].
          destruct (Nat.eqb_spec k o); [lia|]. rewrite andb_false_r. reflexivity. }
      rewrite (qsum_map_ext_in _ (fun _ => 0) (seq mz (nz - mz))).
      2:{ intros k Hk. apply in_seq in Hk. unfold F.
          destruct (Nat.ltb_spec i mx); [lia|]. destruct (Nat.ltb_spec j my); [lia|]. destruct (Nat.ltb_spec k mz); [lia|]. reflexivity. }
      rewrite qsum_zero.
      rewrite (run3 mid mid_between mid_refl mass3 mass3_add3 zs (clo xs i) (chi xs i) (clo ys j) (chi ys j) 0 mz Zi Ze);
        [|(unfold nz in *; lia)|(unfold nz in *; lia)|apply av3n, (ZS (0 + mz - 1)%nat); (unfold nz in *; lia)].
      replace (0 + mz - 1)%nat with (mz - 1)%nat by lia. lra. }
    (* middle sums.  i < mx: every (j, k) *)
    assert (Jfull : forall i, (i < mx)%nat ->
              qsum (map (fun j => qsum (map (fun k => F i j k) (seq 0 nz))) (seq 0 ny))
              == mass3 (clo xs i, clo ys 0, clo zs 0) (chi xs i, chi ys (ny - 1), chi zs (nz - 1))).
    { intros i Hi.
      rewrite (qsum_map_ext_in _ (fun j => mass3 (clo xs i, clo ys j, clo zs 0) (chi xs i, chi ys j, chi zs (nz - 1))))
        by (intros j Hj; apply in_seq in Hj; apply Kfull; unfold nx, ny in *; lia).
      rewrite (run2 mid mid_between mid_refl mass3 mass3_add2 ys (clo xs i) (chi xs i) (clo zs 0) (chi zs (nz - 1)) 0 ny Yi Ye);
        [|(unfold ny in *; lia)|(unfold ny in *; lia)|apply av1n, (XS i); (unfold nx in *; lia)].
      replace (0 + ny - 1)%nat with (ny - 1)%nat by lia. reflexivity. }
    (* i >= mx: the columns j < my completely, of the others the part k < mz *)
    assert (Jpart : forall i, (mx <= i < nx)%nat ->
              qsum (map (fun j => qsum (map (fun k => F i j k) (seq 0 nz))) (seq 0 ny))
              == mass3 (clo xs i, clo ys 0, clo zs 0) (chi xs i, chi ys (my - 1), chi zs (nz - 1))
               + mass3 (clo xs i, clo ys my, clo zs 0) (chi xs i, chi ys (ny - 1), chi zs (mz - 1))).
    { intros i Hi.
      rewrite (seq_split2 ny my) by (unfold ny in *; lia). rewrite map_app, qsum_app.
      rewrite (qsum_map_ext_in _ (fun j => mass3 (clo xs i, clo ys j, clo zs 0) (chi xs i, chi ys j, chi zs (nz - 1))) (seq 0 my))
        by (intros j Hj; apply in_seq in Hj; apply Kfull; unfold nx, ny in *; lia).
      rewrite (qsum_map_ext_in _ (fun j => mass3 (clo xs i, clo ys j, clo zs 0) (chi xs i, chi ys j, chi zs (mz - 1))) (seq my (ny - my)))
        by (intros j Hj; apply in_seq in Hj; apply Kpart; unfold nx, ny in *; lia).
      rewrite (run2 mid mid_between mid_refl mass3 mass3_add2 ys (clo xs i) (chi xs i) (clo zs 0) (chi zs (nz - 1)) 0 my Yi Ye);
        [|(unfold ny in *; lia)|(unfold ny in *; lia)|apply av2n, (YS (0 + my - 1)%nat); (unfold ny in *; lia)].
      rewrite (run2 mid mid_between mid_refl mass3 mass3_add2 ys (clo xs i) (chi xs i) (clo zs 0) (chi zs (mz - 1)) my (ny - my) Yi Ye);
        [|(unfold ny in *; lia)|(unfold ny in *; lia)|apply av3n, (ZS (mz - 1)%nat); (unfold nz in *; lia)].
      replace (0 + my - 1)%nat with (my - 1)%nat by lia. replace (my + (ny - my) - 1)%nat with (ny - 1)%nat by lia. reflexivity. }
    (* outer sum *)
    rewrite (seq_split2 nx mx) by (unfold nx in *; lia). rewrite map_app, qsum_app.
    rewrite (qsum_map_ext_in _ (fun i => mass3 (clo xs i, clo ys 0, clo zs 0) (chi xs i, chi ys (ny - 1), chi zs (nz - 1))) (seq 0 mx))
      by (intros i Hi; apply in_seq in Hi; apply Jfull; lia).
    rewrite (qsum_map_ext_in _ (fun i => mass3 (clo xs i, clo ys 0, clo zs 0) (chi xs i, chi ys (my - 1), chi zs (nz - 1))
                                        + mass3 (clo xs i, clo ys my, clo zs 0) (chi xs i, chi ys (ny - 1), chi zs (mz - 1))) (seq mx (nx - mx)))
      by (intros i Hi; apply in_seq in Hi; apply Jpart; unfold nx in *; lia).
    rewrite qsum_map_add.
    rewrite (run1 mid mid_between mid_refl mass3 mass3_add1 xs (clo ys 0) (chi ys (ny - 1)) (clo zs 0) (chi zs (nz - 1)) 0 mx Xi Xe);
      [|(unfold nx in *; lia)|(unfold nx in *; lia)|apply av1n, (XS (0 + mx - 1)%nat); (unfold nx in *; lia)].
    rewrite (run1 mid mid_between mid_refl mass3 mass3_add1 xs (clo ys 0) (chi ys (my - 1)) (clo zs 0) (chi zs (nz - 1)) mx (nx - mx) Xi Xe);
      [|(unfold nx in *; lia)|(unfold nx in *; lia)|apply av2n, (YS (my - 1)%nat); (unfold ny in *; lia)].
    rewrite (run1 mid mid_between mid_refl mass3 mass3_add1 xs (clo ys my) (chi ys (ny - 1)) (clo zs 0) (chi zs (mz - 1)) mx (nx - mx) Xi Xe);
      [|(unfold nx in *; lia)|(unfold nx in *; lia)|apply av3n, (ZS (mz - 1)%nat); (unfold nz in *; lia)].
    replace (0 + mx - 1)%nat with (mx - 1)%nat by lia. replace (mx + (nx - mx) - 1)%nat with (nx - 1)%nat by lia. lra.
  Qed.

  (* with the boundaries named: truncation box [l1, r1] x [l2, r2] x [l3, r3], cell boundaries b1, b2, b3 next to the thresholds;
     second form: inclusion-exclusion over the three half-spaces {x < b1}, {y < b2}, {z < b3} inside the box *)
  Theorem default_rate3_idx_boxes xs ys zs o hx hy hz mx my mz b1 b2 b3 : admissible xs o hx -> admissible ys o hy -> admissible zs o hz ->
    (1 <= mx <= o)%nat -> (1 <= my <= o)%nat -> (1 <= mz <= o)%nat ->
    chi xs (mx - 1) == b1 -> chi ys (my - 1) == b2 -> chi zs (mz - 1) == b3 ->
    let l1 := headq xs in let r1 := lastq xs in let l2 := headq ys in let r2 := lastq ys in let l3 := headq zs in let r3 := lastq zs in
    default_rate3_idx mid mass3 xs ys zs o mx my mz
      == mass3 (l1, l2, l3) (b1, r2, r3) + mass3 (b1, l2, l3) (r1, b2, r3) + mass3 (b1, b2, l3) (r1, r2, b3)
    /\ default_rate3_idx mid mass3 xs ys zs o mx my mz
      == mass3 (l1, l2, l3) (b1, r2, r3) + mass3 (l1, l2, l3) (r1, b2, r3) + mass3 (l1, l2, l3) (r1, r2, b3)
         - mass3 (l1, l2, l3) (b1, b2, r3) - mass3 (l1, l2, l3) (b1, r2, b3) - mass3 (l1, l2, l3) (r1, b2, b3)
         + mass3 (l1, l2, l3) (b1, b2, b3).
  Proof.
    intros Ax Ay Az Hmx Hmy Hmz B1 B2 B3 l1 r1 l2 r2 l3 r3.
    pose proof (default_rate3_idx_is_union xs ys zs o hx hy hz mx my mz Ax Ay Az Hmx Hmy Hmz) as U.
    destruct (axis_facts mid mid_between mid_refl mid_proper xs o hx Ax) as (Xi & Xe & X1 & X2 & XE1 & XE4 & XE2 & XE3 & XN & XP & XS & XC1 & XC2).
    destruct (axis_facts mid mid_between mid_refl mid_proper ys o hy Ay) as (Yi & Ye & Y1 & Y2 & YE1 & YE4 & YE2 & YE3 & YN & YP & YS & YC1 & YC2).
    destruct (axis_facts mid mid_between mid_refl mid_proper zs o hz Az) as (Zi & Ze & Z1 & Z2 & ZE1 & ZE4 & ZE2 & ZE3 & ZN & ZP & ZS & ZC1 & ZC2).
    assert (C1 : clo xs mx == b1) by (rewrite <- B1; rewrite (cell_share mid xs (mx - 1)) by lia; replace (mx - 1 + 1)%nat with mx by lia; reflexivity).
    assert (C2 : clo ys my == b2) by (rewrite <- B2; rewrite (cell_share mid ys (my - 1)) by lia; replace (my - 1 + 1)%nat with my by lia; reflexivity).
    assert (D : default_rate3_idx mid mass3 xs ys zs o mx my mz
                == mass3 (l1, l2, l3) (b1, r2, r3) + mass3 (b1, l2, l3) (r1, b2, r3) + mass3 (b1, b2, l3) (r1, r2, b3)).
    { rewrite U. rewrite (mass3_proper _ _ _ _ _ _ _ _ _ _ _ _ XE1 YE1 ZE1 B1 YE4 ZE4), (mass3_proper _ _ _ _ _ _ _ _ _ _ _ _ C1 YE1 ZE1 XE4 B2 ZE4),
        (mass3_proper _ _ _ _ _ _ _ _ _ _ _ _ C1 C2 ZE1 XE4 YE4 B3). reflexivity. }
    split; [exact D|]. rewrite D.
    assert (N2 : b2 < 0) by (rewrite <- B2; apply (YS (my - 1)%nat); lia).
    assert (N3 : b3 < 0) by (rewrite <- B3; apply (ZS (mz - 1)%nat); lia).
    assert (O1 : l1 <= b1).
    { unfold l1. rewrite <- XE1, <- B1. apply Qle_trans with (clo xs (mx - 1)); [apply (cell_lo_mono mid); try assumption; lia|
        apply (cell_lo_hi mid); try assumption; lia]. }
    assert (O2 : b1 <= r1).
    { unfold r1. rewrite <- XE4, <- B1. apply (cell_hi_mono mid mid_between mid_refl); try assumption; lia. }
    assert (P1 : l2 <= b2).
    { unfold l2. rewrite <- YE1, <- B2. apply Qle_trans with (clo ys (my - 1)); [apply (cell_lo_mono mid); try assumption; lia|
        apply (cell_lo_hi mid); try assumption; lia]. }
    assert (P2 : b2 <= r2).
    { unfold r2. rewrite <- YE4, <- B2. apply (cell_hi_mono mid mid_between mid_refl); try assumption; lia. }
    rewrite (mass3_add1 l1 b1 r1 l2 b2 l3 r3 O1 O2) by (apply av2n; exact N2).
    rewrite (mass3_add1 l1 b1 r1 l2 r2 l3 b3 O1 O2) by (apply av3n; exact N3).
    rewrite (mass3_add1 l1 b1 r1 l2 b2 l3 b3 O1 O2) by (apply av3n; exact N3).
    rewrite (mass3_add2 b1 r1 l2 b2 r2 l3 b3 P1 P2) by (apply av3n; exact N3).
    lra.
  Qed.
End Rate3d.

(* on a triple of level-0 credit axes the default region defined on the state VALUES is the index region {i < 2 or j < 2 or k < 2} *)
Theorem default_rate3_credit (mass3 : Q3 -> Q3 -> Q) l1 a1 r1 l2 a2 r2 l3 a3 r3 h sym xs ys zs o1 o2 o3 :
  credit_axis l1 a1 h r1 sym = Some (xs, o1) -> credit_axis l2 a2 h r2 sym = Some (ys, o2) -> credit_axis l3 a3 h r3 sym = Some (zs, o3) ->
  default_rate3 amid mass3 xs ys zs 4 a1 a2 a3 == default_rate3_idx amid mass3 xs ys zs 4 2 2 2.
Proof.
  intros Hx Hy Hz. unfold default_rate3, default_rate3_idx.
  apply qsum_map_ext_in. intros i Hi. apply in_seq in Hi. apply qsum_map_ext_in. intros j Hj. apply in_seq in Hj.
  apply qsum_map_ext_in. intros k Hk. apply in_seq in Hk.
  rewrite (credit_below _ _ _ _ _ _ _ Hx i) by lia. rewrite (credit_below _ _ _ _ _ _ _ Hy j) by lia. rewrite (credit_below _ _ _ _ _ _ _ Hz k) by lia.
  reflexivity.
Qed.

(* the chain on a triple of credit axes, ANY box mass additive per coordinate: the summed rates of the default states are the mass of
   the default region inside the truncation box, as a disjoint sum and by inclusion-exclusion *)
Theorem rate_equals_union_credit_3d (mass3 : Q3 -> Q3 -> Q) :
  (forall a b c y1 y2 z1 z2, a <= b -> b <= c -> avoids3 (a, y1, z1) (c, y2, z2) ->
     mass3 (a, y1, z1) (c, y2, z2) == mass3 (a, y1, z1) (b, y2, z2) + mass3 (b, y1, z1) (c, y2, z2)) ->
  (forall x1 x2 a b c z1 z2, a <= b -> b <= c -> avoids3 (x1, a, z1) (x2, c, z2) ->
     mass3 (x1, a, z1) (x2, c, z2) == mass3 (x1, a, z1) (x2, b, z2) + mass3 (x1, b, z1) (x2, c, z2)) ->
  (forall x1 x2 y1 y2 a b c, a <= b -> b <= c -> avoids3 (x1, y1, a) (x2, y2, c) ->
     mass3 (x1, y1, a) (x2, y2, c) == mass3 (x1, y1, a) (x2, y2, b) + mass3 (x1, y1, b) (x2, y2, c)) ->
  (forall a1 a2 a3 b1 b2 b3 a1' a2' a3' b1' b2' b3', a1 == a1' -> a2 == a2' -> a3 == a3' -> b1 == b1' -> b2 == b2' -> b3 == b3' ->
     mass3 (a1, a2, a3) (b1, b2, b3) == mass3 (a1', a2', a3') (b1', b2', b3')) ->
  forall l1 a1 r1 l2 a2 r2 l3 a3 r3 h sym xs ys zs o1 o2 o3,
  credit_axis l1 a1 h r1 sym = Some (xs, o1) -> credit_axis l2 a2 h r2 sym = Some (ys, o2) -> credit_axis l3 a3 h r3 sym = Some (zs, o3) ->
  default_rate3 amid mass3 xs ys zs 4 a1 a2 a3
    == mass3 (l1, l2, l3) (a1, r2, r3) + mass3 (a1, l2, l3) (r1, a2, r3) + mass3 (a1, a2, l3) (r1, r2, a3)
  /\ default_rate3 amid mass3 xs ys zs 4 a1 a2 a3
    == mass3 (l1, l2, l3) (a1, r2, r3) + mass3 (l1, l2, l3) (r1, a2, r3) + mass3 (l1, l2, l3) (r1, r2, a3)
       - mass3 (l1, l2, l3) (a1, a2, r3) - mass3 (l1, l2, l3) (a1, r2, a3) - mass3 (l1, l2, l3) (r1, a2, a3)
       + mass3 (l1, l2, l3) (a1, a2, a3).
Proof.
  intros M1 M2 M3 MP l1 a1 r1 l2 a2 r2 l3 a3 r3 h sym xs ys zs o1 o2 o3 Hx Hy Hz.
  destruct (credit_axis_facts _ _ _ _ _ _ _ Hx) as (Ax & Hl1 & Hr1 & B1 & _).
  destruct (credit_axis_facts _ _ _ _ _ _ _ Hy) as (Ay & Hl2 & Hr2 & B2 & _).
  destruct (credit_axis_facts _ _ _ _ _ _ _ Hz) as (Az & Hl3 & Hr3 & B3 & _).
  rewrite (default_rate3_credit mass3 _ _ _ _ _ _ _ _ _ _ _ _ _ _ _ _ _ Hx Hy Hz).
  pose proof (default_rate3_idx_boxes amid amid_between amid_refl' C19_Rate2d.amid_proper mass3 M1 M2 M3 MP xs ys zs 4 h h h 2 2 2 a1 a2 a3 Ax Ay Az
                ltac:(lia) ltac:(lia) ltac:(lia) B1 B2 B3) as D.
  cbv zeta in D. rewrite Hl1, Hl2, Hl3, Hr1, Hr2, Hr3 in D. exact D.
Qed.

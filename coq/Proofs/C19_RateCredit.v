(* C19 -- d = 1 composition: credit axis (C13) + chain rates (C01) + generated theta (th1). *)
From Coq Require Import List Arith QArith Lia Lqa.
From RV Require Import Base.QB Base.ExtNum Model.Grid Model.Chain Proofs.C13_Grid Proofs.C01_Chain Gen.GenC19Theta Model.Credit Proofs.C19_Rate.
Import ListNotations.
Open Scope Q_scope.

(* composition for d = 1: the credit axis of C13 (credit_axis, level 0), the chain rates of C01 (cells between arithmetic mid-points)
   and the generated theta (th1 = CFLevyModel._theta).  `mass` is the interval mass of the measure truncated to [l, r]; the tail
   integral is U(a) = -mass l a for a < 0 (marginal_tail_integral = sign(a) * integrate( *interval_I(a) ) of the truncated measure). *)
Section Credit1d.
  Variable mass : Q -> Q -> Q.
  Hypothesis mass_add : forall a b c, a <= b -> b <= c -> (c < 0 \/ 0 < a) -> mass a c == mass a b + mass b c.
  Hypothesis mass_proper : forall a a' b b', a == a' -> b == b' -> mass a b == mass a' b'.
  Variable U1 : nat -> ext Q -> Q.

  Lemma amid_refl x : ~ x == 0 -> amid x x == x.
  Proof. intros _. unfold amid. field. Qed.

  Theorem rate_equals_theta_credit_1d l a h r sym xs o : credit_axis l a h r sym = Some (xs, o) -> a < 0 ->
    U1 0%nat (Fin a) == - mass l a ->
    qsum (map (fun k => mass (cell_lo amid xs k) (cell_hi amid xs k)) (seq 0 2)) == th1 QNum U1 (Fin a).
  Proof.
    intros HA Ha HU. pose proof (credit_admissible _ _ _ _ _ _ _ HA) as (Adm & Ho & Hl & Hr & Hmid).
    pose proof Adm as (Hincr & _). pose proof (admissible_ends _ _ _ Adm) as He.
    assert (Hlen : (6 <= length xs)%nat) by (destruct Adm as (_ & ? & ? & _); lia).
    unfold th1, theta_1, mass_below. cbn [xlt0 QNum nltb n0]. rewrite (proj2 (Qltb_lt a 0) Ha). cbn [nopp QNum].
    rewrite (rate_equals_theta_1d amid amid_between amid_refl mass mass_add mass_proper xs 2 a); try assumption; try lia.
    - rewrite HU. assert (E : nthq xs 0 == l) by (rewrite <- Hl; unfold headq, nthq; destruct xs; reflexivity).
      rewrite (mass_proper _ _ _ _ E (Qeq_refl a)). ring.
    - (* both default cells lie left of 0 *)
      intros k Hk. unfold cell_hi, right_point.
      unfold credit_axis in HA. destruct (incrb (credit_values l a h r sym)) eqn:EI; [|discriminate]. injection HA as <- <-.
      apply incrb_incr in EI. unfold credit_values in *. set (eps := credit_eps l a h) in *.
      destruct k as [|[|k]]; try lia; destruct sym; cbn [incr] in EI; unfold nthq, amid in *; cbn [nth length Nat.sub Nat.add Nat.min] in *; lra.
    - unfold cell_hi, right_point. replace (Nat.min (length xs - 1) (2 - 1 + 1)) with 2%nat by lia. exact Hmid.
    - unfold cell_lo, left_point. cbn [Nat.pred]. unfold amid. field.
  Qed.
End Credit1d.

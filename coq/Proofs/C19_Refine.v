(* C19 -- refined credit grids (levels >= 1): where CTMCGrid.refine puts the cell boundary next to the threshold.
   The level-0 credit axis of CTMCCredit is l, a-eps, a+eps, -h, 0, ... (C13's credit_axis); refine inserts the arithmetic mid-point
   of every gap (C13's refine_axis / refine_axis_n, proved equal to the np.insert loop).  After n >= 1 refinements the gap
   [a-eps, a+eps] carries the 2^n + 1 equally spaced states a-eps + j * 2 eps / 2^n: the threshold a itself is the state of index
   3 * 2^(n-1), the states below the threshold are exactly the first 3 * 2^(n-1) ones, the last of them is a - eps / 2^(n-1) and
   the cell boundary after it is   b = a - eps / 2^n  <  a.
   Composed with C19_Rate2d (default_rate2_idx_boxes, until now exercised by nothing) and C19_Theta2d: on refined credit grids the
   summed rates of the states below the thresholds equal the GENERATED theta AT THE CELL BOUNDARIES b_i -- i.e. theta(a) minus the
   mass of the slabs [b_i, a_i). *)
From Coq Require Import ZArith QArith Qabs List Bool Lia Lqa.
From RV Require Import Base.QB Base.ExtNum Model.Grid Gen.GenC01Trunc Model.Chain Model.Copula Gen.GenC12Mass Model.MassNd Gen.GenC19Theta Model.Credit
  Proofs.C13_Grid Proofs.C01_Chain Proofs.C01_Chain2d.
From RV Require Import Proofs.C19_Rate Proofs.C19_Rate2d Proofs.C19_Theta2d.
Import ListNotations.
Open Scope Q_scope.

(* 2^n as a rational, in the form C13_refine_n_admissible uses for the step h / 2^n *)
Definition pw2 (n : nat) : Q := inject_Z (2 ^ Z.of_nat n).
Lemma pw2_S n : pw2 (S n) == 2 * pw2 n.
Proof. unfold pw2. rewrite Nat2Z.inj_succ, Z.pow_succ_r by lia. rewrite inject_Z_mult. reflexivity. Qed.
Lemma pw2_pos n : 0 < pw2 n.
Proof.
  unfold pw2. assert (H : (0 < 2 ^ Z.of_nat n)%Z) by (apply Z.pow_pos_nonneg; lia).
  rewrite (Zlt_Qlt 0) in H. exact H.
Qed.
Lemma pw2_ge1 n : 1 <= pw2 n.
Proof.
  unfold pw2. assert (H : (1 <= 2 ^ Z.of_nat n)%Z) by (assert (0 < 2 ^ Z.of_nat n)%Z by (apply Z.pow_pos_nonneg; lia); lia).
  rewrite (Zle_Qle 1) in H. exact H.
Qed.
Lemma pw2_nat n : inject_Z (Z.of_nat (2 ^ n)) == pw2 n.
Proof. unfold pw2. rewrite Nat2Z.inj_pow. reflexivity. Qed.
Lemma pow2_pos n : (1 <= 2 ^ n)%nat.
Proof. induction n; simpl; lia. Qed.

(* n refinements interpolate every gap of the axis linearly: the 2^n + 1 states over [x_i, x_(i+1)] are equally spaced *)
Lemma refine_n_interp xs i u v : incr xs -> (i + 1 < length xs)%nat -> nthq xs i == u -> nthq xs (i + 1) == v ->
  forall n j, (j <= 2 ^ n)%nat ->
  nthq (refine_axis_n amid n xs) (2 ^ n * i + j) == u + inject_Z (Z.of_nat j) * (v - u) / pw2 n.
Proof.
  intros Hi Hlen Eu Ev. assert (N : xs <> []) by (destruct xs; [simpl in Hlen; lia|congruence]).
  induction n as [|n IH]; intros j Hj.
  - change (refine_axis_n amid 0 xs) with xs. change (pw2 0) with 1. simpl in Hj.
    replace (2 ^ 0 * i + j)%nat with (i + j)%nat by (simpl; lia).
    assert (C : j = 0%nat \/ j = 1%nat) by lia. destruct C as [-> | ->].
    + rewrite Nat.add_0_r, Eu. change (inject_Z (Z.of_nat 0)) with 0. field.
    + rewrite Ev. change (inject_Z (Z.of_nat 1)) with 1. field.
  - destruct (refine_n_nests amid amid_between n xs Hi N) as (_ & L & _).
    pose proof (pw2_pos n) as P. pose proof (pw2_S n) as PS. pose proof (pow2_pos n) as P1.
    assert (B : (2 ^ n * (i + 1) <= 2 ^ n * (length xs - 1))%nat) by (apply Nat.mul_le_mono_l; lia).
    simpl refine_axis_n. rewrite Nat.pow_succ_r' in Hj.
    destruct (Nat.Even_or_Odd j) as [[k ->]|[k ->]].
    + replace (2 ^ S n * i + 2 * k)%nat with (2 * (2 ^ n * i + k))%nat by (rewrite Nat.pow_succ_r'; lia).
      rewrite refine_even by (rewrite L; nia). rewrite IH by lia.
      rewrite Nat2Z.inj_mul, inject_Z_mult. change (inject_Z (Z.of_nat 2)) with 2. rewrite PS. field. lra.
    + replace (2 ^ S n * i + (2 * k + 1))%nat with (2 * (2 ^ n * i + k) + 1)%nat by (rewrite Nat.pow_succ_r'; lia).
      rewrite refine_odd by (rewrite L; nia).
      replace (2 ^ n * i + k + 1)%nat with (2 ^ n * i + (k + 1))%nat by lia.
      rewrite (amid_proper _ _ _ _ (IH k ltac:(lia)) (IH (k + 1)%nat ltac:(lia))).
      rewrite !Nat2Z.inj_add, !Nat2Z.inj_mul, !inject_Z_plus, !inject_Z_mult.
      change (inject_Z (Z.of_nat 2)) with 2. change (inject_Z (Z.of_nat 1)) with 1. rewrite PS. unfold amid. field. lra.
Qed.

(* the level-0 credit axis: its states of index 1 and 2 are a -+ eps, eps > 0 *)
Lemma credit_axis_gap l a h r sym xs o : credit_axis l a h r sym = Some (xs, o) ->
  nthq xs 1 == a - credit_eps l a h /\ nthq xs 2 == a + credit_eps l a h /\ 0 < credit_eps l a h /\ (7 <= length xs)%nat.
Proof.
  unfold credit_axis. destruct (incrb (credit_values l a h r sym)) eqn:E; [|discriminate].
  intros H; injection H as <- <-. apply incrb_incr in E. unfold credit_values in *. set (eps := credit_eps l a h) in *.
  destruct sym; cbn [incr] in E; unfold nthq; cbn [nth length]; (repeat split; try reflexivity; try lia; try lra).
Qed.

(* refine^(n+1) of the credit axis: admissible with origin 2^(n+1) * 4 and step h / 2^(n+1) (C13), same truncation bounds; the threshold is
   the state of index 3 * 2^n, the states below it are exactly the first 3 * 2^n, and the cell boundary after them is a - eps / 2^(n+1) *)
Theorem credit_refined_boundary l a h r sym xs o n : credit_axis l a h r sym = Some (xs, o) ->
  let ys := refine_axis_n amid (S n) xs in let m := (3 * 2 ^ n)%nat in let b := a - credit_eps l a h / pw2 (S n) in
  admissible ys (2 ^ S n * 4) (h / pw2 (S n)) /\ headq ys = l /\ lastq ys = r
  /\ (1 <= m <= 2 ^ S n * 4)%nat /\ (m < length ys)%nat
  /\ nthq ys m == a
  /\ (forall i, (i < length ys)%nat -> Qltb (nthq ys i) a = (i <? m)%nat)
  /\ cell_hi amid ys (m - 1) == b /\ b < a /\ a - credit_eps l a h < b.
Proof.
  intros Hx ys m b. pose proof (credit_admissible _ _ _ _ _ _ _ Hx) as (Ax & -> & Hl & Hr & _).
  destruct (credit_axis_gap _ _ _ _ _ _ _ Hx) as (E1 & E2 & Epos & Len). set (eps := credit_eps l a h) in *.
  pose proof Ax as (Hi & _). assert (N : xs <> []) by (destruct xs; [simpl in Len; lia|congruence]).
  destruct (refine_n_nests amid amid_between (S n) xs Hi N) as (_ & L & Yi & Yh & Yl). fold ys in L, Yi, Yh, Yl.
  pose proof (pw2_pos n) as P. pose proof (pw2_S n) as PS. pose proof (pow2_pos n) as P1.
  assert (P2 : (2 ^ S n = 2 * 2 ^ n)%nat) by apply Nat.pow_succ_r'.
  assert (B6 : (2 ^ n * 6 <= 2 ^ n * (length xs - 1))%nat) by (apply Nat.mul_le_mono_l; lia).
  assert (Lm : (m < length ys)%nat).
  { rewrite L, P2, <- Nat.mul_assoc. unfold m. lia. }
  pose proof (refine_n_interp xs 1 (a - eps) (a + eps) Hi ltac:(lia) E1 E2 (S n)) as I.
  assert (Em : nthq ys m == a).
  { replace m with (2 ^ S n * 1 + 2 ^ n)%nat by (unfold m; lia). unfold ys. rewrite I by lia.
    rewrite pw2_nat, PS. field. lra. }
  assert (Em1 : nthq ys (m - 1) == a - eps / pw2 n).
  { replace (m - 1)%nat with (2 ^ S n * 1 + (2 ^ n - 1))%nat by (unfold m; lia). unfold ys. rewrite I by lia.
    rewrite Nat2Z.inj_sub by lia. unfold Zminus. rewrite inject_Z_plus, inject_Z_opp, pw2_nat, PS.
    change (inject_Z (Z.of_nat 1)) with 1. field. lra. }
  assert (Eb : cell_hi amid ys (m - 1) == b).
  { unfold cell_hi, right_point. replace (Nat.min (length ys - 1) (m - 1 + 1)) with m by (unfold m in *; lia).
    rewrite (amid_proper _ _ _ _ Em1 Em). unfold b, amid. rewrite PS. field. lra. }
  assert (D : 0 < eps / pw2 (S n)) by (apply Qlt_shift_div_l; [apply pw2_pos|lra]).
  assert (D2 : eps / pw2 (S n) < eps).
  { apply Qlt_shift_div_r; [apply pw2_pos|]. rewrite PS. pose proof (pw2_ge1 n) as G.
    assert (0 <= eps * (pw2 n - 1)) by (apply Qmult_le_0_compat; lra). nra. }
  split; [apply (refine_n_admissible amid amid_between amid_left0 amid_right0 (S n) xs 4 h Ax)|].
  split; [rewrite Yh; exact Hl|]. split; [rewrite Yl; exact Hr|]. split; [unfold m; lia|]. split; [exact Lm|]. split; [exact Em|].
  split; [|split; [exact Eb|split; unfold b; lra]].
  intros i Hlt. destruct (Nat.ltb_spec i m) as [C|C].
  - apply Qltb_lt. rewrite <- Em. apply incr_nth_lt; assumption.
  - apply Qltb_false. rewrite <- Em. destruct (Nat.eq_dec i m) as [->|Ne]; [lra|].
    apply Qlt_le_weak. apply incr_nth_lt; try assumption. lia.
Qed.

(* ---- d = 2 on refined credit grids -------------------------------------------------------------------------------------------------- *)
Lemma default_rate2_refined (mass2 : Q * Q -> Q * Q -> Q) l1 a1 r1 l2 a2 r2 h sym xs ys o1 o2 n :
  credit_axis l1 a1 h r1 sym = Some (xs, o1) -> credit_axis l2 a2 h r2 sym = Some (ys, o2) ->
  let xs' := refine_axis_n amid (S n) xs in let ys' := refine_axis_n amid (S n) ys in
  default_rate2 amid mass2 xs' ys' (2 ^ S n * 4) a1 a2 == default_rate2_idx amid mass2 xs' ys' (2 ^ S n * 4) (3 * 2 ^ n) (3 * 2 ^ n).
Proof.
  intros Hx Hy xs' ys'.
  destruct (credit_refined_boundary _ _ _ _ _ _ _ n Hx) as (_ & _ & _ & _ & _ & _ & Bx & _).
  destruct (credit_refined_boundary _ _ _ _ _ _ _ n Hy) as (_ & _ & _ & _ & _ & _ & By & _).
  unfold default_rate2, default_rate2_idx.
  apply qsum_map_ext_in. intros i Hi. apply in_seq in Hi. apply qsum_map_ext_in. intros j Hj. apply in_seq in Hj.
  fold xs' in Bx. fold ys' in By. rewrite (Bx i) by lia. rewrite (By j) by lia. reflexivity.
Qed.

(* any rectangle mass additive per coordinate on boxes avoiding the origin: on refine^(n+1) of a pair of credit axes the summed rates of the
   states below the thresholds are the mass of the region bounded by the cell boundaries b_i = a_i - eps_i / 2^(n+1) *)
Theorem rate_equals_union_refined_2d (mass2 : Q * Q -> Q * Q -> Q) :
  (forall a1 b1 c1 y1 y2, a1 <= b1 -> b1 <= c1 -> avoids (a1, y1) (c1, y2) -> mass2 (a1, y1) (c1, y2) == mass2 (a1, y1) (b1, y2) + mass2 (b1, y1) (c1, y2)) ->
  (forall x1 x2 a2 b2 c2, a2 <= b2 -> b2 <= c2 -> avoids (x1, a2) (x2, c2) -> mass2 (x1, a2) (x2, c2) == mass2 (x1, a2) (x2, b2) + mass2 (x1, b2) (x2, c2)) ->
  (forall a1 a2 b1 b2 a1' a2' b1' b2', a1 == a1' -> a2 == a2' -> b1 == b1' -> b2 == b2' -> mass2 (a1, a2) (b1, b2) == mass2 (a1', a2') (b1', b2')) ->
  forall l1 a1 r1 l2 a2 r2 h sym xs ys o1 o2 n,
  credit_axis l1 a1 h r1 sym = Some (xs, o1) -> credit_axis l2 a2 h r2 sym = Some (ys, o2) ->
  let xs' := refine_axis_n amid (S n) xs in let ys' := refine_axis_n amid (S n) ys in
  let b1 := a1 - credit_eps l1 a1 h / pw2 (S n) in let b2 := a2 - credit_eps l2 a2 h / pw2 (S n) in
  default_rate2 amid mass2 xs' ys' (2 ^ S n * 4) a1 a2 == mass2 (l1, l2) (b1, r2) + mass2 (b1, l2) (r1, b2)
  /\ default_rate2 amid mass2 xs' ys' (2 ^ S n * 4) a1 a2 == mass2 (l1, l2) (b1, r2) + mass2 (l1, l2) (r1, b2) - mass2 (l1, l2) (b1, b2).
Proof.
  intros M1 M2 MP l1 a1 r1 l2 a2 r2 h sym xs ys o1 o2 n Hx Hy. cbv zeta.
  pose proof (default_rate2_refined mass2 _ _ _ _ _ _ _ _ _ _ _ _ n Hx Hy) as R. cbv zeta in R. rewrite R. clear R.
  pose proof (credit_refined_boundary _ _ _ _ _ _ _ n Hx) as Fx. cbv zeta in Fx. destruct Fx as (Ax & Hl1 & Hr1 & Mx & _ & _ & _ & B1 & _).
  pose proof (credit_refined_boundary _ _ _ _ _ _ _ n Hy) as Fy. cbv zeta in Fy. destruct Fy as (Ay & Hl2 & Hr2 & My & _ & _ & _ & B2 & _).
  pose proof (default_rate2_idx_boxes amid amid_between amid_refl' amid_proper mass2 M1 M2 MP _ _ _ _ _ _ _ _ _ Ax Ay Mx My B1 B2) as D.
  cbv zeta in D. rewrite Hl1, Hl2, Hr1, Hr2 in D. exact D.
Qed.

(* the rates are the GENERATED rectangle mass, theta the GENERATED CFLevyCopulaModel._theta of the measure truncated to the grid box:
   on refined credit grids the default-region rate EQUALS theta at the cell boundaries (b1, b2), b_i = a_i - eps_i / 2^(n+1) < a_i *)
Theorem rate_equals_theta_refined_2d (U1 : nat -> ext Q -> Q) (UI : idx -> list (ext Q) -> Q) l1 a1 r1 l2 a2 r2 h sym xs ys o1 o2 n :
  credit_axis l1 a1 h r1 sym = Some (xs, o1) -> credit_axis l2 a2 h r2 sym = Some (ys, o2) ->
  tails_proper2 U1 UI -> truncated2 U1 UI l1 r1 l2 r2 ->
  let xs' := refine_axis_n amid (S n) xs in let ys' := refine_axis_n amid (S n) ys in
  let b1 := a1 - credit_eps l1 a1 h / pw2 (S n) in let b2 := a2 - credit_eps l2 a2 h / pw2 (S n) in
  default_rate2 amid (box_mass2 U1 UI) xs' ys' (2 ^ S n * 4) a1 a2 == th2 QNum U1 UI (Fin b1) (Fin b2) /\ b1 < a1 /\ b2 < a2.
Proof.
  intros Hx Hy TP TR. cbv zeta.
  destruct (credit_axis_facts _ _ _ _ _ _ _ Hx) as (_ & _ & _ & _ & A1 & L1 & R1).
  destruct (credit_axis_facts _ _ _ _ _ _ _ Hy) as (_ & _ & _ & _ & A2 & L2 & R2).
  pose proof (credit_refined_boundary _ _ _ _ _ _ _ n Hx) as Fx. cbv zeta in Fx. destruct Fx as (_ & _ & _ & _ & _ & _ & _ & _ & B1 & _).
  pose proof (credit_refined_boundary _ _ _ _ _ _ _ n Hy) as Fy. cbv zeta in Fy. destruct Fy as (_ & _ & _ & _ & _ & _ & _ & _ & B2 & _).
  pose proof (rate_equals_union_refined_2d (box_mass2 U1 UI) (box_mass2_add1 U1 UI) (box_mass2_add2 U1 UI) (box_mass2_proper U1 UI TP)
             _ _ _ _ _ _ _ _ _ _ _ _ n Hx Hy) as D. cbv zeta in D. destruct D as [D _].
  split; [|split; assumption]. rewrite D. symmetry. apply theta2_is_boxes; try assumption; lra.
Qed.

(* ---- d = 1 on refined credit grids: C19_rate_equals_theta_partial's `bnd` is a - eps / 2^(n+1) ------------------------------------------- *)
Theorem rate_refined_credit_1d (mass : Q -> Q -> Q) :
  (forall a b c, a <= b -> b <= c -> (c < 0 \/ 0 < a) -> mass a c == mass a b + mass b c) ->
  (forall a a' b b', a == a' -> b == b' -> mass a b == mass a' b') ->
  forall l a h r sym xs o n, credit_axis l a h r sym = Some (xs, o) ->
  let ys := refine_axis_n amid (S n) xs in let b := a - credit_eps l a h / pw2 (S n) in
  qsum (map (fun k => mass (cell_lo amid ys k) (cell_hi amid ys k)) (seq 0 (3 * 2 ^ n))) == mass l b
  /\ qsum (map (fun k => mass (cell_lo amid ys k) (cell_hi amid ys k)) (seq 0 (3 * 2 ^ n))) == mass l a - mass b a.
Proof.
  intros MA MP l a h r sym xs o n Hx ys b.
  pose proof (credit_refined_boundary _ _ _ _ _ _ _ n Hx) as F. cbv zeta in F. fold ys in F. fold b in F.
  destruct F as (Ay & Hl & Hr & Mx & Lm & Em & _ & Eb & Bl & Bg).
  destruct (credit_axis_facts _ _ _ _ _ _ _ Hx) as (_ & _ & _ & _ & A & _).
  destruct (credit_axis_gap _ _ _ _ _ _ _ Hx) as (_ & _ & Epos & _).
  destruct (axis_facts amid amid_between amid_refl' amid_proper ys _ _ Ay) as (Yi & Ye & _ & _ & YE1 & _ & _ & _ & _ & _ & YS & _).
  assert (E0 : nthq ys 0 == l) by (rewrite <- headq_nth, Hl; reflexivity).
  assert (Neg : forall k, (k < 3 * 2 ^ n)%nat -> cell_hi amid ys k < 0) by (intros k Hk; apply (YS k); lia).
  assert (C0 : cell_lo amid ys 0 == nthq ys 0) by (rewrite YE1, headq_nth; reflexivity).
  assert (Ll : l <= b).
  { pose proof (credit_admissible _ _ _ _ _ _ _ Hx) as (Ax & _). destruct Ax as (Xi & _).
    destruct (credit_axis_gap _ _ _ _ _ _ _ Hx) as (X1 & _ & _ & Len).
    assert (nthq xs 0 < nthq xs 1) by (apply incr_nth_lt; [exact Xi|lia|lia]).
    pose proof (credit_admissible _ _ _ _ _ _ _ Hx) as (_ & _ & Hl0 & _). rewrite headq_nth in Hl0. rewrite Hl0, X1 in H. lra. }
  split.
  - rewrite (rate_equals_theta_1d amid amid_between amid_refl' mass MA MP ys (3 * 2 ^ n) b Yi Ye ltac:(lia) ltac:(lia) Neg Eb C0).
    apply MP; [exact E0|reflexivity].
  - rewrite (refined_gap_1d amid amid_between amid_refl' mass MA MP ys (3 * 2 ^ n) b a Yi Ye ltac:(lia) ltac:(lia) Neg Eb C0); try lra.
    rewrite (MP _ _ _ _ E0 (Qeq_refl a)). reflexivity.
Qed.

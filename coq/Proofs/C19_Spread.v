(* C19 -- survival probability / par spread / implied spread as functions of theta (generated Gen/GenC19Spread.v). *)
From Coq Require Import Reals Lra.
From RV Require Import Base.RB Gen.GenC19Spread.
Open Scope R_scope.

Lemma one_minus_exp_pos x : 0 < x -> 0 < 1 - exp (- x).
Proof. intros H. assert (exp (- x) < exp 0) by (apply exp_increasing; lra). rewrite exp_0 in H0. lra. Qed.

Section Spread.
  Variable A : Type.
  Variable theta_of : A -> R.

  Lemma survival_eq a t : survival_probability A theta_of a t = exp (- t * theta_of a)
                          /\ ftd_survival_probability A theta_of a t = exp (- t * theta_of a).
  Proof. split; reflexivity. Qed.
  Lemma par_spread_eq a rec : cds_spread A theta_of a rec = (1 - rec) * theta_of a /\ ftd_par_spread A theta_of a rec = (1 - rec) * theta_of a.
  Proof. split; reflexivity. Qed.
End Spread.

Lemma fixed_leg_pos r theta rec T : 0 < r + theta -> 0 < T -> 0 < implied_fun_fixed_leg r theta rec T.
Proof.
  intros H1 H2. unfold implied_fun_fixed_leg. apply Rdiv_lt_0_compat; auto.
  replace (- (r + theta) * T) with (- ((r + theta) * T)) by ring. apply one_minus_exp_pos. apply Rmult_lt_0_compat; auto.
Qed.
Lemma implied_affine r theta pv rec T s :
  implied_fun r theta pv rec T s = implied_fun_default_leg r theta rec T - s * implied_fun_fixed_leg r theta rec T - pv
  /\ ftd_implied_fun r theta pv rec T s = implied_fun r theta pv rec T s.
Proof. split; reflexivity. Qed.
Theorem implied_spread_unique r theta pv rec T : 0 < r + theta -> 0 < T ->
  (forall s1 s2, s1 < s2 -> implied_fun r theta pv rec T s2 < implied_fun r theta pv rec T s1) /\
  (forall s, implied_fun r theta pv rec T s = 0 <-> s = (implied_fun_default_leg r theta rec T - pv) / implied_fun_fixed_leg r theta rec T) /\
  (implied_fun r theta 0 rec T ((1 - rec) * theta) = 0).
Proof.
  intros H1 H2. pose proof (fixed_leg_pos r theta rec T H1 H2) as F.
  split; [|split].
  - intros s1 s2 Hs. rewrite !(proj1 (implied_affine _ _ _ _ _ _)). nra.
  - intros s. rewrite (proj1 (implied_affine _ _ _ _ _ _)). split; intros E.
    + field_simplify_eq; lra.
    + rewrite E. field. lra.
  - rewrite (proj1 (implied_affine _ _ _ _ _ _)). unfold implied_fun_default_leg, implied_fun_fixed_leg. field. lra.
Qed.

(* present-value round trip: the implied spread of the model present value of a CDS with spread s0 is s0 *)
Theorem implied_pv_roundtrip r theta rec T s0 s : 0 < r + theta -> 0 < T ->
  (implied_fun r theta (implied_fun_default_leg r theta rec T - s0 * implied_fun_fixed_leg r theta rec T) rec T s = 0 <-> s = s0).
Proof.
  intros H1 H2. pose proof (fixed_leg_pos r theta rec T H1 H2) as F.
  rewrite (proj1 (implied_affine _ _ _ _ _ _)). split; intros E; [nra | subst; ring].
Qed.

(* implied threshold: the objective cds_spread(a) - target is non-decreasing in a wherever theta is, and a root reproduces the target *)
Section Threshold.
  Variable A : Type.
  Variable theta_of : A -> R.
  Variable le : A -> A -> Prop.
  Hypothesis theta_mono : forall a a', le a a' -> theta_of a <= theta_of a'.
  Theorem implied_threshold_props target rec : rec <= 1 ->
    (forall a a', le a a' -> implied_threshold_fun A theta_of target rec a <= implied_threshold_fun A theta_of target rec a') /\
    (forall a, implied_threshold_fun A theta_of target rec a = 0 <-> cds_spread A theta_of a rec = target) /\
    (forall h0, implied_threshold_fun_bracket h0 = (-10, - h0)).
  Proof.
    intros Hr. split; [|split].
    - intros a a' H. unfold implied_threshold_fun, cds_spread. pose proof (theta_mono a a' H). nra.
    - intros a. unfold implied_threshold_fun. split; lra.
    - reflexivity.
  Qed.
End Threshold.

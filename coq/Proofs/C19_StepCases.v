(* C19 -- the hypotheses of the d = 2 / d = 3 headlines as a DECIDABLE test on the models the exact correspondence runs (audit 4, A6):
   for step margins with the independent or completely dependent copula, tails_proper is a theorem and truncated2 / truncated3 follow
   from the vanishing of the marginal tails at the truncation bounds, which is a boolean (step_truncated2b / step_truncated3b) that the
   correspondence evaluates on every chain2d / chain3d / refined case.  The corollaries below are the headlines with NO Prop hypothesis
   left beside that boolean -- for this class of models ONLY; for any other tail integrals (Clayton, HEM, Merton, CGMY, VG margins)
   tails_proper / truncated stay stated hypotheses that nobody discharges. *)
From Coq Require Import ZArith QArith Qabs List Bool Lia Lqa.
From RV Require Import Base.QB Base.ExtNum Model.Grid Gen.GenC01Trunc Model.Chain Model.Chain3d Model.Copula Gen.GenC12Mass Model.MassNd Gen.GenC19Theta Model.Credit
  Proofs.C13_Grid Proofs.C01_Chain Proofs.C01_Chain2d.
From RV Require Import Proofs.C19_Rate2d Proofs.C19_Theta2d Proofs.C19_StepTails Proofs.C19_Rate3d Proofs.C19_Theta3d Proofs.C19_StepTails3 Proofs.C19_Refine.
Import ListNotations.
Open Scope Q_scope.

Definition tail0 (m : list (Q * Q * Q)) (x : Q) : bool := Qeq_bool (step_tail m (Fin x)) 0.
Definition step_truncated2b (M : list (list (Q * Q * Q))) (l1 r1 l2 r2 : Q) : bool :=
  match M with [m0; m1] => tail0 m0 l1 && tail0 m0 r1 && tail0 m1 l2 && tail0 m1 r2 | _ => false end.
Definition step_truncated3b (M : list (list (Q * Q * Q))) (l1 r1 l2 r2 l3 r3 : Q) : bool :=
  match M with [m0; m1; m2] => tail0 m0 l1 && tail0 m0 r1 && tail0 m1 l2 && tail0 m1 r2 && tail0 m2 l3 && tail0 m2 r3 | _ => false end.

Theorem step_hypotheses2 c M l1 r1 l2 r2 : step_truncated2b M l1 r1 l2 r2 = true ->
  tails_proper2 (step_U1 M) (step_UI c M) /\ truncated2 (step_U1 M) (step_UI c M) l1 r1 l2 r2.
Proof.
  destruct M as [|m0 [|m1 [|? ?]]]; try discriminate. unfold step_truncated2b, tail0. rewrite !andb_true_iff, !Qeq_bool_iff.
  intros (((T1 & T2) & T3) & T4). split; [apply step_tails_proper2|apply step_truncated2; assumption].
Qed.
Theorem step_hypotheses3 c M l1 r1 l2 r2 l3 r3 : step_truncated3b M l1 r1 l2 r2 l3 r3 = true ->
  tails_proper3 (step_U1 M) (step_UI c M) /\ truncated3 (step_U1 M) (step_UI c M) l1 r1 l2 r2 l3 r3.
Proof.
  destruct M as [|m0 [|m1 [|m2 [|? ?]]]]; try discriminate. unfold step_truncated3b, tail0. rewrite !andb_true_iff, !Qeq_bool_iff.
  intros (((((T1 & T2) & T3) & T4) & T5) & T6). split; [apply step_tails_proper3|apply step_truncated3; assumption].
Qed.

(* the headlines on the class of models for which the hypotheses are discharged *)
Theorem rate_equals_theta_step_2d c M l1 a1 r1 l2 a2 r2 h sym xs ys o1 o2 :
  credit_axis l1 a1 h r1 sym = Some (xs, o1) -> credit_axis l2 a2 h r2 sym = Some (ys, o2) -> step_truncated2b M l1 r1 l2 r2 = true ->
  default_rate2 amid (box_mass2 (step_U1 M) (step_UI c M)) xs ys 4 a1 a2 == th2 QNum (step_U1 M) (step_UI c M) (Fin a1) (Fin a2).
Proof. intros Hx Hy B. destruct (step_hypotheses2 c M _ _ _ _ B) as [TP TR]. eapply rate_equals_theta_credit_2d; eassumption. Qed.

Theorem rate_equals_theta_step_refined_2d c M l1 a1 r1 l2 a2 r2 h sym xs ys o1 o2 n :
  credit_axis l1 a1 h r1 sym = Some (xs, o1) -> credit_axis l2 a2 h r2 sym = Some (ys, o2) -> step_truncated2b M l1 r1 l2 r2 = true ->
  default_rate2 amid (box_mass2 (step_U1 M) (step_UI c M)) (refine_axis_n amid (S n) xs) (refine_axis_n amid (S n) ys) (2 ^ S n * 4) a1 a2
  == th2 QNum (step_U1 M) (step_UI c M) (Fin (a1 - credit_eps l1 a1 h / pw2 (S n))) (Fin (a2 - credit_eps l2 a2 h / pw2 (S n))).
Proof.
  intros Hx Hy B. destruct (step_hypotheses2 c M _ _ _ _ B) as [TP TR].
  pose proof (rate_equals_theta_refined_2d _ _ _ _ _ _ _ _ _ _ _ _ _ _ n Hx Hy TP TR) as D. cbv zeta in D. exact (proj1 D).
Qed.

Theorem rate_equals_theta_step_3d c M l1 a1 r1 l2 a2 r2 l3 a3 r3 h sym xs ys zs o1 o2 o3 :
  credit_axis l1 a1 h r1 sym = Some (xs, o1) -> credit_axis l2 a2 h r2 sym = Some (ys, o2) -> credit_axis l3 a3 h r3 sym = Some (zs, o3) ->
  step_truncated3b M l1 r1 l2 r2 l3 r3 = true ->
  default_rate3 amid (box_mass3 (step_U1 M) (step_UI c M)) xs ys zs 4 a1 a2 a3 == th3 QNum (step_U1 M) (step_UI c M) (Fin a1) (Fin a2) (Fin a3).
Proof. intros Hx Hy Hz B. destruct (step_hypotheses3 c M _ _ _ _ _ _ B) as [TP TR]. eapply rate_equals_theta_credit_3d; eassumption. Qed.

(* C19 -- the hypotheses of the d = 2 headline are met by the models the exact correspondence runs: for every pair of step margins
   with the independent or the completely dependent copula the tail integrals are functions of the rational number
   (tails_proper2); on a concrete model truncated to its box the truncation hypothesis (truncated2) is checked by computation. *)
From Coq Require Import ZArith QArith Qabs List Bool Lia Lqa.
From RV Require Import Base.QB Base.ExtNum Model.Grid Gen.GenC01Trunc Model.Chain Model.Copula Gen.GenC12Mass Model.MassNd Gen.GenC19Theta Model.Credit
  Proofs.C13_Grid Proofs.C01_Chain Proofs.C01_Chain2d.
From RV Require Import Proofs.C19_Rate2d Proofs.C19_Theta2d.
Import ListNotations.
Open Scope Q_scope.

Lemma Qmaxb_proper x x' y : x == x' -> Qmaxb x y == Qmaxb x' y.
Proof. intros E. destruct (Qmaxb_spec x y) as [[? ->]|[? ->]]; destruct (Qmaxb_spec x' y) as [[? ->]|[? ->]]; lra. Qed.
Lemma Qminb_proper x x' y : x == x' -> Qminb x y == Qminb x' y.
Proof. intros E. destruct (Qminb_spec x y) as [[? ->]|[? ->]]; destruct (Qminb_spec x' y) as [[? ->]|[? ->]]; lra. Qed.
Lemma Qltb_proper x x' y y' : x == x' -> y == y' -> Qltb x y = Qltb x' y'.
Proof. intros E1 E2. destruct (Qltb_spec x y) as [[? ->]|[? ->]]; destruct (Qltb_spec x' y') as [[? ->]|[? ->]]; try reflexivity; exfalso; lra. Qed.

Lemma pm_tail l l' h h' d : l == l' -> h == h' -> (if Qltb l h then d * (h - l) else 0) == (if Qltb l' h' then d * (h' - l') else 0).
Proof. intros E1 E2. rewrite (Qltb_proper l l' h h' E1 E2). destruct (Qltb l' h'); [rewrite E1, E2|]; reflexivity. Qed.

Lemma piece_mass_proper_lo p x x' b : x == x' -> MassNd.piece_mass p (Fin x) b == MassNd.piece_mass p (Fin x') b.
Proof. destruct p as [[lo hi] d]. intros E. unfold MassNd.piece_mass. apply pm_tail; [apply Qmaxb_proper; exact E|reflexivity]. Qed.
Lemma piece_mass_proper_hi p a x x' : x == x' -> MassNd.piece_mass p a (Fin x) == MassNd.piece_mass p a (Fin x').
Proof. destruct p as [[lo hi] d]. intros E. unfold MassNd.piece_mass. apply pm_tail; [reflexivity|apply Qminb_proper; exact E]. Qed.

Lemma fold_add_proper (f g : Q * Q * Q -> Q) ps : (forall p, f p == g p) -> forall acc acc', acc == acc' ->
  fold_left (fun a p => a + f p) ps acc == fold_left (fun a p => a + g p) ps acc'.
Proof. intros H. induction ps as [|p r IH]; intros acc acc' E; cbn [fold_left]; [exact E|]. apply IH. rewrite E, (H p). reflexivity. Qed.

Lemma step_tail_proper ps x x' : x == x' -> step_tail ps (Fin x) == step_tail ps (Fin x').
Proof.
  intros E. unfold step_tail. rewrite (Qltb_proper x x' 0 0 E (Qeq_refl 0)). destruct (Qltb x' 0); unfold step_integrate.
  - apply Qopp_comp. apply fold_add_proper; [intros p; apply piece_mass_proper_hi; exact E|reflexivity].
  - apply fold_add_proper; [intros p; apply piece_mass_proper_lo; exact E|reflexivity].
Qed.

Lemma dep2_proper u u' v v' : u == u' -> v == v' -> dep QNum [Fin u; Fin v] == dep QNum [Fin u'; Fin v'].
Proof.
  intros E1 E2. unfold dep.
  cbn [forallb xpos xneg fold_left emin emax xleb fin_val length Nat.odd Nat.even QNum nltb nleb n0 nopp T andb].
  qflags; cbn [andb fin_val]; try (exfalso; lra); try lra;
    unfold emin, emax; cbn [xleb QNum nleb Nat.odd Nat.even negb]; qflags; cbn [fin_val]; lra.
Qed.
Lemma indep2_zero u v : indep QNum [Fin u; Fin v] == 0.
Proof. unfold indep. cbn. lra. Qed.

Theorem step_tails_proper2 c m0 m1 : tails_proper2 (step_U1 [m0; m1]) (step_UI c [m0; m1]).
Proof.
  split.
  - intros i x x' E. unfold step_U1. apply step_tail_proper. exact E.
  - intros x x' y y' E1 E2. unfold step_UI, margin_tail_integral.
    cbn [length seq nat_list_eqb Nat.eqb combine forallb fst snd andb map2]. unfold step_V.
    destruct c; cbn [copula_q].
    + rewrite !indep2_zero. reflexivity.
    + apply dep2_proper; unfold step_U1; apply step_tail_proper; assumption.
Qed.

Lemma dep2_zero_l u y : u == 0 -> dep QNum [Fin u; y] == 0.
Proof.
  intros E. unfold dep. cbn [forallb xpos xneg QNum nltb n0 T].
  qflags; cbn [andb]; try (exfalso; lra); reflexivity.
Qed.
Lemma dep2_zero_r x v : v == 0 -> dep QNum [x; Fin v] == 0.
Proof.
  intros E. unfold dep. cbn [forallb xpos xneg QNum nltb n0 T].
  destruct x as [|u|]; cbn [xpos xneg]; qflags; cbn [andb]; rewrite ?andb_false_r; try (exfalso; lra); reflexivity.
Qed.
Lemma indep2_zero_l u y : u == 0 -> indep QNum [Fin u; Fin y] == 0.
Proof. intros _. apply indep2_zero. Qed.

(* a pair of step margins whose marginal tails vanish at the bounds of the box, with the completely dependent copula, is truncated
   to the box in the sense of truncated2 *)
Theorem step_dep_truncated2 m0 m1 l1 r1 l2 r2 :
  step_tail m0 (Fin l1) == 0 -> step_tail m0 (Fin r1) == 0 -> step_tail m1 (Fin l2) == 0 -> step_tail m1 (Fin r2) == 0 ->
  truncated2 (step_U1 [m0; m1]) (step_UI Dep [m0; m1]) l1 r1 l2 r2.
Proof.
  intros T1 T2 T3 T4. split; [|split].
  - unfold step_U1. cbn [nth]. tauto.
  - intros y. unfold step_UI, margin_tail_integral. cbn [length seq nat_list_eqb Nat.eqb combine forallb fst snd andb map2 copula_q]. unfold step_V, step_U1. cbn [nth].
    split; apply dep2_zero_l; assumption.
  - intros x. unfold step_UI, margin_tail_integral. cbn [length seq nat_list_eqb Nat.eqb combine forallb fst snd andb map2 copula_q]. unfold step_V, step_U1. cbn [nth].
    split; apply dep2_zero_r; assumption.
Qed.

(* the same with the independent copula: its pair tail integral of finite marginal tails vanishes identically (the Levy measure of
   independent components lives on the axes) *)
Theorem step_truncated2 c m0 m1 l1 r1 l2 r2 :
  step_tail m0 (Fin l1) == 0 -> step_tail m0 (Fin r1) == 0 -> step_tail m1 (Fin l2) == 0 -> step_tail m1 (Fin r2) == 0 ->
  truncated2 (step_U1 [m0; m1]) (step_UI c [m0; m1]) l1 r1 l2 r2.
Proof.
  destruct c; [|apply step_dep_truncated2].
  intros T1 T2 T3 T4. split; [|split].
  - unfold step_U1. cbn [nth]. tauto.
  - intros y. unfold step_UI, margin_tail_integral. cbn [length seq nat_list_eqb Nat.eqb combine forallb fst snd andb map2 copula_q]. unfold step_V.
    split; apply indep2_zero.
  - intros x. unfold step_UI, margin_tail_integral. cbn [length seq nat_list_eqb Nat.eqb combine forallb fst snd andb map2 copula_q]. unfold step_V.
    split; apply indep2_zero.
Qed.

(* the concrete instance of the Example in Properties/C19.v: margins supported in [-2, 2] and [-1, 1] *)
Definition ex2_margins : list (list (Q * Q * Q)) :=
  [[(-2, -(1#2), 3#4); ((1#2), 2, 3#2)]; [(-1, -(1#4), 3#1); ((1#4), 1, 3#4)]].
Lemma ex2_hypotheses :
  tails_proper2 (step_U1 ex2_margins) (step_UI Dep ex2_margins) /\ truncated2 (step_U1 ex2_margins) (step_UI Dep ex2_margins) (-2) 2 (-1) 1.
Proof.
  split; [apply step_tails_proper2|]. apply step_dep_truncated2; vm_compute; reflexivity.
Qed.

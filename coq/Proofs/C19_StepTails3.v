(* C19 -- the hypotheses of the d = 3 headline are met by the models the exact correspondence runs: for every triple of step margins
   with the independent or the completely dependent copula the tail integrals are functions of the rational number (tails_proper3),
   and if the six marginal tails vanish at the bounds of the box the model is truncated to it (truncated3). *)
From Coq Require Import ZArith QArith Qabs List Bool Lia Lqa.
From RV Require Import Base.QB Base.ExtNum Model.Grid Gen.GenC01Trunc Model.Chain Model.Chain3d Model.Copula Gen.GenC12Mass Model.MassNd Gen.GenC19Theta
  Model.Credit Proofs.C13_Grid Proofs.C01_Chain Proofs.C01_Chain2d Proofs.C01_Chain3d.
From RV Require Import Proofs.C19_Rate2d Proofs.C19_Theta2d Proofs.C19_StepTails Proofs.C19_Rate3d Proofs.C19_Theta3d.
Import ListNotations.
Open Scope Q_scope.

Definition ext_eq (x y : ext Q) : Prop :=
  match x, y with Fin a, Fin b => a == b | NInf, NInf => True | PInf, PInf => True | _, _ => False end.

Lemma xpos_proper x x' : ext_eq x x' -> xpos QNum x = xpos QNum x'.
Proof. destruct x, x'; cbn [ext_eq xpos QNum nltb n0 T]; try contradiction; try reflexivity. intros E. apply Qltb_proper; [reflexivity|exact E]. Qed.
Lemma xneg_proper x x' : ext_eq x x' -> xneg QNum x = xneg QNum x'.
Proof. destruct x, x'; cbn [ext_eq xneg QNum nltb n0 T]; try contradiction; try reflexivity. intros E. apply Qltb_proper; [exact E|reflexivity]. Qed.
Lemma xleb_proper x x' y y' : ext_eq x x' -> ext_eq y y' -> @xleb QNum x y = @xleb QNum x' y'.
Proof.
  destruct x, x'; cbn [ext_eq]; try contradiction; intros E1; destruct y, y'; cbn [ext_eq]; try contradiction; intros E2;
    cbn [xleb QNum nleb T]; try reflexivity. apply Qle_bool_proper; assumption.
Qed.
Lemma emin_proper x x' y y' : ext_eq x x' -> ext_eq y y' -> ext_eq (emin QNum x y) (emin QNum x' y').
Proof. intros E1 E2. unfold emin. rewrite (xleb_proper x x' y y' E1 E2). destruct (@xleb QNum x' y'); assumption. Qed.
Lemma emax_proper x x' y y' : ext_eq x x' -> ext_eq y y' -> ext_eq (emax QNum x y) (emax QNum x' y').
Proof. intros E1 E2. unfold emax. rewrite (xleb_proper x x' y y' E1 E2). destruct (@xleb QNum x' y'); assumption. Qed.
Lemma fold_ext_proper (f : ext Q -> ext Q -> ext Q) : (forall x x' y y', ext_eq x x' -> ext_eq y y' -> ext_eq (f x y) (f x' y')) ->
  forall l l', Forall2 ext_eq l l' -> forall a a', ext_eq a a' -> ext_eq (fold_left f l a) (fold_left f l' a').
Proof. intros Hf l l' H. induction H as [|x x' r r' Hx Hr IH]; intros a a' Ea; cbn [fold_left]; [exact Ea|]. apply IH. apply Hf; assumption. Qed.
Lemma forallb_ext_proper (p : ext Q -> bool) : (forall x x', ext_eq x x' -> p x = p x') -> forall l l', Forall2 ext_eq l l' -> forallb p l = forallb p l'.
Proof. intros Hp l l' H. induction H as [|x x' r r' Hx Hr IH]; cbn [forallb]; [reflexivity|]. rewrite (Hp x x' Hx), IH. reflexivity. Qed.
Lemma fin_val_proper x x' : ext_eq x x' -> fin_val QNum x == fin_val QNum x'.
Proof. destruct x, x'; cbn [ext_eq fin_val QNum n0 T]; try contradiction; intros; try reflexivity; assumption. Qed.
Lemma Forall2_len {A} (R : A -> A -> Prop) l l' : Forall2 R l l' -> length l = length l'.
Proof. intros H. induction H; cbn [length]; congruence. Qed.
Definition dep_sel (bp bn bo : bool) (mn mx : Q) : Q := if bp then mn else if bn then (if bo then mx else - mx) else 0.
(* the completely dependent copula is a function of the NUMBERS it receives, in every dimension *)
Lemma dep_proper us us' : Forall2 ext_eq us us' -> dep QNum us == dep QNum us'.
Proof.
  intros H. destruct H as [|u u' r r' Hu Hr]; [reflexivity|].
  assert (H : Forall2 ext_eq (u :: r) (u' :: r')) by (constructor; assumption).
  assert (Ep : forallb (xpos QNum) (u :: r) = forallb (xpos QNum) (u' :: r')) by (exact (forallb_ext_proper (xpos QNum) xpos_proper _ _ H)).
  assert (En : forallb (xneg QNum) (u :: r) = forallb (xneg QNum) (u' :: r')) by (exact (forallb_ext_proper (xneg QNum) xneg_proper _ _ H)).
  assert (El : length (u :: r) = length (u' :: r')) by (exact (Forall2_len _ _ _ H)).
  change (dep_sel (forallb (xpos QNum) (u :: r)) (forallb (xneg QNum) (u :: r)) (Nat.odd (length (u :: r)))
                  (fin_val QNum (fold_left (emin QNum) r u)) (fin_val QNum (fold_left (emax QNum) r u))
          == dep_sel (forallb (xpos QNum) (u' :: r')) (forallb (xneg QNum) (u' :: r')) (Nat.odd (length (u' :: r')))
                  (fin_val QNum (fold_left (emin QNum) r' u')) (fin_val QNum (fold_left (emax QNum) r' u'))).
  rewrite Ep, En, El.
  assert (M1 : fin_val QNum (fold_left (emin QNum) r u) == fin_val QNum (fold_left (emin QNum) r' u'))
    by (apply fin_val_proper, fold_ext_proper; [exact emin_proper|exact Hr|exact Hu]).
  assert (M2 : fin_val QNum (fold_left (emax QNum) r u) == fin_val QNum (fold_left (emax QNum) r' u'))
    by (apply fin_val_proper, fold_ext_proper; [exact emax_proper|exact Hr|exact Hu]).
  unfold dep_sel. destruct (forallb (xpos QNum) (u' :: r')); [exact M1|]. destruct (forallb (xneg QNum) (u' :: r')); [|reflexivity].
  destruct (Nat.odd (length (u' :: r'))); rewrite M2; reflexivity.
Qed.
Lemma dep3_proper x x' y y' z z' : ext_eq x x' -> ext_eq y y' -> ext_eq z z' -> dep QNum [x; y; z] == dep QNum [x'; y'; z'].
Proof. intros E1 E2 E3. apply dep_proper. repeat constructor; assumption. Qed.
Lemma dep3_zero1 u y z : u == 0 -> dep QNum [Fin u; y; z] == 0.
Proof. intros E. unfold dep. cbn [forallb xpos xneg QNum nltb n0 T]. qflags; cbn [andb]; try (exfalso; lra); reflexivity. Qed.
Lemma dep3_zero2 x u z : u == 0 -> dep QNum [x; Fin u; z] == 0.
Proof.
  intros E. unfold dep. cbn [forallb xpos xneg QNum nltb n0 T].
  destruct x as [|v|]; cbn [xpos xneg]; qflags; cbn [andb]; rewrite ?andb_false_r; try (exfalso; lra); reflexivity.
Qed.
Lemma dep3_zero3 x y u : u == 0 -> dep QNum [x; y; Fin u] == 0.
Proof.
  intros E. unfold dep. cbn [forallb xpos xneg QNum nltb n0 T].
  destruct x as [|v|]; destruct y as [|w|]; cbn [xpos xneg]; qflags; cbn [andb]; rewrite ?andb_false_r; try (exfalso; lra); reflexivity.
Qed.
Lemma indep3_zero12 u v z : indep QNum [Fin u; Fin v; z] == 0.
Proof. unfold indep. destruct z; cbn; lra. Qed.
Lemma indep3_zero13 u y w : indep QNum [Fin u; y; Fin w] == 0.
Proof. unfold indep. destruct y; cbn; lra. Qed.
Lemma indep3_zero23 x v w : indep QNum [x; Fin v; Fin w] == 0.
Proof. unfold indep. destruct x; cbn; lra. Qed.

Ltac ui_open := unfold step_UI, margin_tail_integral, margin, step_V; cbn -[step_U1 dep indep copula_q Qplus Qopp Qeq].

Theorem step_tails_proper3 c m0 m1 m2 : tails_proper3 (step_U1 [m0; m1; m2]) (step_UI c [m0; m1; m2]).
Proof.
  split; [|split; [|split; [|split]]].
  - intros i x x' E. unfold step_U1. apply step_tail_proper. exact E.
  - intros x x' y y' E1 E2. ui_open. destruct c; cbn [copula_q].
    + rewrite !indep3_zero12. reflexivity.
    + rewrite (dep3_proper (Fin (step_U1 [m0; m1; m2] 0 (Fin x))) (Fin (step_U1 [m0; m1; m2] 0 (Fin x'))) (Fin (step_U1 [m0; m1; m2] 1 (Fin y))) (Fin (step_U1 [m0; m1; m2] 1 (Fin y'))) NInf NInf),
              (dep3_proper (Fin (step_U1 [m0; m1; m2] 0 (Fin x))) (Fin (step_U1 [m0; m1; m2] 0 (Fin x'))) (Fin (step_U1 [m0; m1; m2] 1 (Fin y))) (Fin (step_U1 [m0; m1; m2] 1 (Fin y'))) PInf PInf);
        try reflexivity; try exact I; cbn [ext_eq]; unfold step_U1; apply step_tail_proper; assumption.
  - intros x x' y y' E1 E2. ui_open. destruct c; cbn [copula_q].
    + rewrite !indep3_zero13. reflexivity.
    + rewrite (dep3_proper (Fin (step_U1 [m0; m1; m2] 0 (Fin x))) (Fin (step_U1 [m0; m1; m2] 0 (Fin x'))) NInf NInf (Fin (step_U1 [m0; m1; m2] 2 (Fin y))) (Fin (step_U1 [m0; m1; m2] 2 (Fin y')))),
              (dep3_proper (Fin (step_U1 [m0; m1; m2] 0 (Fin x))) (Fin (step_U1 [m0; m1; m2] 0 (Fin x'))) PInf PInf (Fin (step_U1 [m0; m1; m2] 2 (Fin y))) (Fin (step_U1 [m0; m1; m2] 2 (Fin y'))));
        try reflexivity; try exact I; cbn [ext_eq]; unfold step_U1; apply step_tail_proper; assumption.
  - intros x x' y y' E1 E2. ui_open. destruct c; cbn [copula_q].
    + rewrite !indep3_zero23. reflexivity.
    + rewrite (dep3_proper NInf NInf (Fin (step_U1 [m0; m1; m2] 1 (Fin x))) (Fin (step_U1 [m0; m1; m2] 1 (Fin x'))) (Fin (step_U1 [m0; m1; m2] 2 (Fin y))) (Fin (step_U1 [m0; m1; m2] 2 (Fin y')))),
              (dep3_proper PInf PInf (Fin (step_U1 [m0; m1; m2] 1 (Fin x))) (Fin (step_U1 [m0; m1; m2] 1 (Fin x'))) (Fin (step_U1 [m0; m1; m2] 2 (Fin y))) (Fin (step_U1 [m0; m1; m2] 2 (Fin y'))));
        try reflexivity; try exact I; cbn [ext_eq]; unfold step_U1; apply step_tail_proper; assumption.
  - intros x x' y y' z z' E1 E2 E3. ui_open. destruct c; cbn [copula_q].
    + rewrite !indep3_zero12. reflexivity.
    + apply dep3_proper; cbn [ext_eq]; unfold step_U1; apply step_tail_proper; assumption.
Qed.

Theorem step_truncated3 c m0 m1 m2 l1 r1 l2 r2 l3 r3 :
  step_tail m0 (Fin l1) == 0 -> step_tail m0 (Fin r1) == 0 -> step_tail m1 (Fin l2) == 0 -> step_tail m1 (Fin r2) == 0 ->
  step_tail m2 (Fin l3) == 0 -> step_tail m2 (Fin r3) == 0 ->
  truncated3 (step_U1 [m0; m1; m2]) (step_UI c [m0; m1; m2]) l1 r1 l2 r2 l3 r3.
Proof.
  intros T1 T2 T3 T4 T5 T6. split; [|split; [|split; [|split]]].
  - unfold step_U1. cbn [nth]. tauto.
  - repeat split; intros; ui_open; destruct c; cbn [copula_q]; rewrite ?indep3_zero12; try lra; unfold step_U1; cbn [nth];
      rewrite ?dep3_zero1, ?dep3_zero2 by assumption; lra.
  - repeat split; intros; ui_open; destruct c; cbn [copula_q]; rewrite ?indep3_zero13; try lra; unfold step_U1; cbn [nth];
      rewrite ?dep3_zero1, ?dep3_zero3 by assumption; lra.
  - repeat split; intros; ui_open; destruct c; cbn [copula_q]; rewrite ?indep3_zero23; try lra; unfold step_U1; cbn [nth];
      rewrite ?dep3_zero2, ?dep3_zero3 by assumption; lra.
  - cbv zeta. repeat split; intros; ui_open; destruct c; cbn [copula_q]; rewrite ?indep3_zero12; try lra; unfold step_U1; cbn [nth];
      rewrite ?dep3_zero1, ?dep3_zero2, ?dep3_zero3 by assumption; lra.
Qed.

(* the concrete instance of the Example in Properties/C19.v: margins supported in [-2, 2], [-1, 1] and [-3/2, 3/2] *)
Definition ex3_margins : list (list (Q * Q * Q)) :=
  [[(-2, -(1#2), 3#4); ((1#2), 2, 3#2)]; [(-1, -(1#4), 3#1); ((1#4), 1, 3#4)]; [(-(3#2), -(1#4), 1#2); ((1#2), (3#2), 5#4)]].
Lemma ex3_hypotheses :
  tails_proper3 (step_U1 ex3_margins) (step_UI Dep ex3_margins)
  /\ truncated3 (step_U1 ex3_margins) (step_UI Dep ex3_margins) (-2) 2 (-1) 1 (-(3#2)) (3#2).
Proof.
  split; [apply step_tails_proper3|]. apply step_truncated3; vm_compute; reflexivity.
Qed.

(* C19 -- d = 2, composed: the rectangle mass of the chain is the GENERATED LevyCopulaModel.mass fast path (Gen/GenC12Mass.v mass_2d,
   instantiated over Q) on finite boxes; it is additive per coordinate on boxes that avoid the origin BY ALGEBRA (no hypothesis on
   the tail integrals), so the chain theorem of C19_Rate2d applies to it; for tail integrals of a measure truncated to the
   grid's box the two boxes of the default region add up to the GENERATED theta (th2 = CFLevyCopulaModel._theta). *)
From Coq Require Import ZArith QArith Qabs List Bool Lia Lqa.
From RV Require Import Base.QB Base.ExtNum Model.Grid Gen.GenC01Trunc Model.Chain Model.Copula Gen.GenC12Mass Model.MassNd Gen.GenC19Theta Model.Credit
  Proofs.C13_Grid Proofs.C01_Chain Proofs.C01_Chain2d.
From RV Require Import Proofs.C19_Rate2d.
Import ListNotations.
Open Scope Q_scope.

Lemma Qleb_spec x y : (x <= y /\ Qle_bool x y = true) \/ (y < x /\ Qle_bool x y = false).
Proof. destruct (Qle_bool x y) eqn:E; [left; apply Qle_bool_iff in E|right; apply Qle_bool_false in E]; tauto. Qed.

Ltac qflags :=
  repeat match goal with
  | |- context [Qltb ?x ?y] => let H := fresh in let E := fresh in destruct (Qltb_spec x y) as [[H E]|[H E]]; rewrite E in *; clear E
  | |- context [Qle_bool ?x ?y] => let H := fresh in let E := fresh in destruct (Qleb_spec x y) as [[H E]|[H E]]; rewrite E in *; clear E
  end.

Section Box2.
  Variable U1 : nat -> ext Q -> Q.              (* marginal_tail_integral(i, x) of the chain's (truncated) model *)
  Variable UI : idx -> list (ext Q) -> Q.       (* margin_tail_integral(indices, x) *)

  (* LevyCopulaModel.mass(a, b) for finite end points, through the generated fast path *)
  Definition box_mass2 (a b : Q * Q) : Q := fast_2d QNum U1 UI [Fin (fst a); Fin (snd a)] [Fin (fst b); Fin (snd b)] None.

  Lemma box_mass2_add1 a1 b1 c1 y1 y2 : a1 <= b1 -> b1 <= c1 -> avoids (a1, y1) (c1, y2) ->
    box_mass2 (a1, y1) (c1, y2) == box_mass2 (a1, y1) (b1, y2) + box_mass2 (b1, y1) (c1, y2).
  Proof.
    intros H1 H2 AV. unfold avoids in AV. cbn [fst snd] in AV.
    unfold box_mass2, fast_2d, mass_2d, mass_1d.
    cbn [fst snd is_some is_none olen Nat.eqb andb length nth inth xlt0 xge0 QNum nltb nleb n0 nadd nsub T].
    qflags; cbn [andb]; try (exfalso; lra); try ring.
  Qed.
  Lemma box_mass2_add2 x1 x2 a2 b2 c2 : a2 <= b2 -> b2 <= c2 -> avoids (x1, a2) (x2, c2) ->
    box_mass2 (x1, a2) (x2, c2) == box_mass2 (x1, a2) (x2, b2) + box_mass2 (x1, b2) (x2, c2).
  Proof.
    intros H1 H2 AV. unfold avoids in AV. cbn [fst snd] in AV.
    unfold box_mass2, fast_2d, mass_2d, mass_1d.
    cbn [fst snd is_some is_none olen Nat.eqb andb length nth inth xlt0 xge0 QNum nltb nleb n0 nadd nsub T].
    qflags; cbn [andb]; try (exfalso; lra); try ring.
  Qed.

  (* the tail integrals are functions of the rational NUMBER, not of its representation *)
  Definition tails_proper2 : Prop :=
    (forall i x x', x == x' -> U1 i (Fin x) == U1 i (Fin x')) /\
    (forall x x' y y', x == x' -> y == y' -> UI (Some [0; 1]%nat) [Fin x; Fin y] == UI (Some [0; 1]%nat) [Fin x'; Fin y']).

  Lemma box_mass2_proper : tails_proper2 -> forall a1 a2 b1 b2 a1' a2' b1' b2', a1 == a1' -> a2 == a2' -> b1 == b1' -> b2 == b2' ->
    box_mass2 (a1, a2) (b1, b2) == box_mass2 (a1', a2') (b1', b2').
  Proof.
    intros [P1 P2] a1 a2 b1 b2 a1' a2' b1' b2' E1 E2 E3 E4.
    unfold box_mass2, fast_2d, mass_2d, mass_1d.
    cbn [fst snd is_some is_none olen Nat.eqb andb length nth inth xlt0 xge0 QNum nltb nleb n0 nadd nsub T].
    rewrite (P2 a1 a1' a2 a2' E1 E2), (P2 b1 b1' b2 b2' E3 E4), (P2 a1 a1' b2 b2' E1 E4), (P2 b1 b1' a2 a2' E3 E2).
    qflags; cbn [andb]; try (exfalso; lra);
      rewrite ?(P1 0%nat a1 a1' E1), ?(P1 0%nat b1 b1' E3), ?(P1 1%nat a2 a2' E2), ?(P1 1%nat b2 b2' E4); reflexivity.
  Qed.

  (* the measure is truncated to the box [l1, r1] x [l2, r2] (MarkovChainLevyCopula's model_tilde: truncate_levy_measure(grid.truncations)):
     the marginal tails vanish at the truncation bounds, and so does the pair tail integral as soon as one argument is a bound or
     infinite (a grounded copula applied to a vanishing marginal tail) *)
  Variables l1 r1 l2 r2 : Q.
  Definition truncated2 : Prop :=
    (U1 0%nat (Fin l1) == 0 /\ U1 0%nat (Fin r1) == 0 /\ U1 1%nat (Fin l2) == 0 /\ U1 1%nat (Fin r2) == 0) /\
    (forall y, UI (Some [0; 1]%nat) [Fin l1; y] == 0 /\ UI (Some [0; 1]%nat) [Fin r1; y] == 0) /\
    (forall x, UI (Some [0; 1]%nat) [x; Fin l2] == 0 /\ UI (Some [0; 1]%nat) [x; Fin r2] == 0).

  (* theta of the truncated model = mass of {x1 < a1} (full height of the box) + mass of {x1 >= a1, x2 < a2} *)
  Theorem theta2_is_boxes a1 a2 : truncated2 -> l1 < 0 -> 0 < r1 -> l2 < 0 -> 0 < r2 -> a1 < 0 -> a2 < 0 ->
    th2 QNum U1 UI (Fin a1) (Fin a2) == box_mass2 (l1, l2) (a1, r2) + box_mass2 (a1, l2) (r1, a2).
  Proof.
    intros ((T1 & T2 & T3 & T4) & TA & TB) L1 R1 L2 R2 A1 A2.
    unfold th2, theta_2, mass_below, box_mass2, fast_2d, mass_2d, mass_1d.
    cbn [fst snd is_some is_none olen Nat.eqb andb orb length nth inth xlt0 xge0 QNum nltb nleb n0 nadd nsub nopp T].
    qflags; cbn [andb orb]; try (exfalso; lra).
    rewrite (proj1 (TA (Fin l2))), (proj2 (TB (Fin a1))), (proj1 (TA (Fin r2))), (proj1 (TB (Fin a1))), (proj2 (TA (Fin a2))), (proj2 (TA (Fin l2))).
    rewrite T1, T3. ring.
  Qed.
End Box2.

(* ---- the headline, d = 2 ------------------------------------------------------------------------------------------------
   axes built by CTMCCredit (C13's credit_axis), cells between arithmetic mid-points, rates = generated mass of the cell (C01's
   q_entry2), default region = states with a coordinate below its threshold, theta = generated CFLevyCopulaModel._theta of the
   same (truncated) tail integrals *)
Theorem rate_equals_theta_credit_2d (U1 : nat -> ext Q -> Q) (UI : idx -> list (ext Q) -> Q) l1 a1 r1 l2 a2 r2 h sym xs ys o1 o2 :
  credit_axis l1 a1 h r1 sym = Some (xs, o1) -> credit_axis l2 a2 h r2 sym = Some (ys, o2) ->
  tails_proper2 U1 UI -> truncated2 U1 UI l1 r1 l2 r2 ->
  default_rate2 amid (box_mass2 U1 UI) xs ys 4 a1 a2 == th2 QNum U1 UI (Fin a1) (Fin a2).
Proof.
  intros Hx Hy TP TR.
  destruct (credit_axis_facts _ _ _ _ _ _ _ Hx) as (_ & _ & _ & _ & A1 & L1 & R1).
  destruct (credit_axis_facts _ _ _ _ _ _ _ Hy) as (_ & _ & _ & _ & A2 & L2 & R2).
  destruct (rate_equals_union_credit_2d (box_mass2 U1 UI) (box_mass2_add1 U1 UI) (box_mass2_add2 U1 UI) (box_mass2_proper U1 UI TP)
             _ _ _ _ _ _ _ _ _ _ _ _ Hx Hy) as [D _].
  rewrite D. symmetry. apply theta2_is_boxes; assumption.
Qed.

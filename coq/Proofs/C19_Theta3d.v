(* C19 -- d = 3, composed: the box mass of the chain is the GENERATED LevyCopulaModel.mass fast path (Gen/GenC12Mass.v mass_3d,
   instantiated over Q) on finite boxes; it is additive per coordinate on boxes that avoid the origin BY ALGEBRA (no hypothesis on
   the tail integrals), so the chain theorem of C19_Rate3d applies to it; for tail integrals of a measure truncated to the
   grid's box the three boxes of the default region add up to the GENERATED theta (th3 = CFLevyCopulaModel._theta, d = 3). *)
From Coq Require Import ZArith QArith Qabs List Bool Lia Lqa.
From RV Require Import Base.QB Base.ExtNum Model.Grid Gen.GenC01Trunc Model.Chain Model.Chain3d Model.Copula Gen.GenC12Mass Model.MassNd Gen.GenC19Theta
  Model.Credit Proofs.C13_Grid Proofs.C01_Chain Proofs.C01_Chain2d Proofs.C01_Chain3d.
From RV Require Import Proofs.C19_Rate2d Proofs.C19_Theta2d Proofs.C19_Rate3d.
Import ListNotations.
Open Scope Q_scope.

(* "the interval [u, v] straddles 0" as the generated code tests it: u < 0 <= v *)
Lemma strad_spec u v : (u < 0 /\ 0 <= v /\ Qltb u 0 && Qle_bool 0 v = true) \/ ((0 <= u \/ v < 0) /\ Qltb u 0 && Qle_bool 0 v = false).
Proof.
  destruct (Qltb_spec u 0) as [[H E]|[H E]]; destruct (Qleb_spec 0 v) as [[H' E']|[H' E']]; rewrite E, E'; cbn [andb];
    [left; tauto|right; tauto|right; tauto|right; tauto].
Qed.
Ltac sflags :=
  repeat match goal with
  | |- context [Qltb ?u 0 && Qle_bool 0 ?v] =>
      let H := fresh in let H' := fresh in let E := fresh in
      destruct (strad_spec u v) as [(H & H' & E)|(H & E)]; rewrite E in *; clear E
  end.
Lemma Qle_bool_proper x x' y y' : x == x' -> y == y' -> Qle_bool x y = Qle_bool x' y'.
Proof. intros E1 E2. destruct (Qleb_spec x y) as [[? ->]|[? ->]]; destruct (Qleb_spec x' y') as [[? ->]|[? ->]]; try reflexivity; exfalso; lra. Qed.
Lemma Qltb_proper0 x x' : x == x' -> Qltb x 0 = Qltb x' 0.
Proof. intros E. destruct (Qltb_spec x 0) as [[? ->]|[? ->]]; destruct (Qltb_spec x' 0) as [[? ->]|[? ->]]; try reflexivity; exfalso; lra. Qed.

Section Box3.
  Variable U1 : nat -> ext Q -> Q.              (* marginal_tail_integral(i, x) of the chain's (truncated) model *)
  Variable UI : idx -> list (ext Q) -> Q.       (* margin_tail_integral(indices, x) *)

  (* LevyCopulaModel.mass(a, b) for finite end points, d = 3, through the generated fast path *)
  Definition box_mass3 (a b : Q3) : Q :=
    fast_3d QNum U1 UI [Fin (p1 a); Fin (p2 a); Fin (p3 a)] [Fin (p1 b); Fin (p2 b); Fin (p3 b)] None.

  Ltac open_box := unfold box_mass3, fast_3d, mass_3d, mass_2d, mass_1d, p1, p2, p3;
    cbn [fst snd is_some is_none olen Nat.eqb Nat.ltb Nat.leb andb length nth inth xlt0 xge0 QNum nltb nleb n0 nadd nsub T].

  Lemma box_mass3_add1 a b c y1 y2 z1 z2 : a <= b -> b <= c -> avoids3 (a, y1, z1) (c, y2, z2) ->
    box_mass3 (a, y1, z1) (c, y2, z2) == box_mass3 (a, y1, z1) (b, y2, z2) + box_mass3 (b, y1, z1) (c, y2, z2).
  Proof.
    intros H1 H2 AV. unfold avoids3, p1, p2, p3 in AV. cbn [fst snd] in AV. open_box.
    sflags; cbn [andb]; try (exfalso; lra); ring.
  Qed.
  Lemma box_mass3_add2 x1 x2 a b c z1 z2 : a <= b -> b <= c -> avoids3 (x1, a, z1) (x2, c, z2) ->
    box_mass3 (x1, a, z1) (x2, c, z2) == box_mass3 (x1, a, z1) (x2, b, z2) + box_mass3 (x1, b, z1) (x2, c, z2).
  Proof.
    intros H1 H2 AV. unfold avoids3, p1, p2, p3 in AV. cbn [fst snd] in AV. open_box.
    sflags; cbn [andb]; try (exfalso; lra); ring.
  Qed.
  Lemma box_mass3_add3 x1 x2 y1 y2 a b c : a <= b -> b <= c -> avoids3 (x1, y1, a) (x2, y2, c) ->
    box_mass3 (x1, y1, a) (x2, y2, c) == box_mass3 (x1, y1, a) (x2, y2, b) + box_mass3 (x1, y1, b) (x2, y2, c).
  Proof.
    intros H1 H2 AV. unfold avoids3, p1, p2, p3 in AV. cbn [fst snd] in AV. open_box.
    sflags; cbn [andb]; try (exfalso; lra); ring.
  Qed.

  (* the tail integrals are functions of the rational NUMBER, not of its representation *)
  Definition pair_proper (i j : nat) : Prop :=
    forall x x' y y', x == x' -> y == y' -> UI (Some [i; j]) [Fin x; Fin y] == UI (Some [i; j]) [Fin x'; Fin y'].
  Definition tails_proper3 : Prop :=
    (forall i x x', x == x' -> U1 i (Fin x) == U1 i (Fin x')) /\
    pair_proper 0 1 /\ pair_proper 0 2 /\ pair_proper 1 2 /\
    (forall x x' y y' z z', x == x' -> y == y' -> z == z' ->
       UI (Some [0; 1; 2]%nat) [Fin x; Fin y; Fin z] == UI (Some [0; 1; 2]%nat) [Fin x'; Fin y'; Fin z']).

  Lemma box_mass3_proper : tails_proper3 -> forall a1 a2 a3 b1 b2 b3 a1' a2' a3' b1' b2' b3',
    a1 == a1' -> a2 == a2' -> a3 == a3' -> b1 == b1' -> b2 == b2' -> b3 == b3' ->
    box_mass3 (a1, a2, a3) (b1, b2, b3) == box_mass3 (a1', a2', a3') (b1', b2', b3').
  Proof.
    intros (P1 & P01 & P02 & P12 & P3) a1 a2 a3 b1 b2 b3 a1' a2' a3' b1' b2' b3' E1 E2 E3 E4 E5 E6. open_box.
    rewrite (Qltb_proper0 a1 a1' E1), (Qltb_proper0 a2 a2' E2), (Qltb_proper0 a3 a3' E3),
            (Qle_bool_proper 0 0 b1 b1' (Qeq_refl 0) E4), (Qle_bool_proper 0 0 b2 b2' (Qeq_refl 0) E5), (Qle_bool_proper 0 0 b3 b3' (Qeq_refl 0) E6).
    pose proof (P1 0%nat a1 a1' E1). pose proof (P1 0%nat b1 b1' E4). pose proof (P1 1%nat a2 a2' E2). pose proof (P1 1%nat b2 b2' E5).
    pose proof (P1 2%nat a3 a3' E3). pose proof (P1 2%nat b3 b3' E6).
    pose proof (P01 a1 a1' a2 a2' E1 E2). pose proof (P01 a1 a1' b2 b2' E1 E5). pose proof (P01 b1 b1' a2 a2' E4 E2). pose proof (P01 b1 b1' b2 b2' E4 E5).
    pose proof (P02 a1 a1' a3 a3' E1 E3). pose proof (P02 a1 a1' b3 b3' E1 E6). pose proof (P02 b1 b1' a3 a3' E4 E3). pose proof (P02 b1 b1' b3 b3' E4 E6).
    pose proof (P12 a2 a2' a3 a3' E2 E3). pose proof (P12 a2 a2' b3 b3' E2 E6). pose proof (P12 b2 b2' a3 a3' E5 E3). pose proof (P12 b2 b2' b3 b3' E5 E6).
    pose proof (P3 a1 a1' a2 a2' a3 a3' E1 E2 E3). pose proof (P3 a1 a1' a2 a2' b3 b3' E1 E2 E6).
    pose proof (P3 a1 a1' b2 b2' a3 a3' E1 E5 E3). pose proof (P3 a1 a1' b2 b2' b3 b3' E1 E5 E6).
    pose proof (P3 b1 b1' a2 a2' a3 a3' E4 E2 E3). pose proof (P3 b1 b1' a2 a2' b3 b3' E4 E2 E6).
    pose proof (P3 b1 b1' b2 b2' a3 a3' E4 E5 E3). pose proof (P3 b1 b1' b2 b2' b3 b3' E4 E5 E6).
    destruct (Qltb a1' 0 && Qle_bool 0 b1'); destruct (Qltb a2' 0 && Qle_bool 0 b2'); destruct (Qltb a3' 0 && Qle_bool 0 b3'); lra.
  Qed.

  (* the measure is truncated to the box [l1, r1] x [l2, r2] x [l3, r3] (MarkovChainLevyCopula's model_tilde:
     truncate_levy_measure(grid.truncations)): the marginal tails vanish at the truncation bounds, and so do the pair and triple
     tail integrals as soon as one (finite) argument is a truncation bound of its axis (a grounded copula applied to a vanishing
     marginal tail) *)
  Variables l1 r1 l2 r2 l3 r3 : Q.
  Definition pair_truncated (i j : nat) (li ri lj rj : Q) : Prop :=
    (forall y, UI (Some [i; j]) [Fin li; Fin y] == 0) /\ (forall y, UI (Some [i; j]) [Fin ri; Fin y] == 0) /\
    (forall x, UI (Some [i; j]) [Fin x; Fin lj] == 0) /\ (forall x, UI (Some [i; j]) [Fin x; Fin rj] == 0).
  Definition truncated3 : Prop :=
    (U1 0%nat (Fin l1) == 0 /\ U1 0%nat (Fin r1) == 0 /\ U1 1%nat (Fin l2) == 0 /\ U1 1%nat (Fin r2) == 0 /\
     U1 2%nat (Fin l3) == 0 /\ U1 2%nat (Fin r3) == 0) /\
    pair_truncated 0 1 l1 r1 l2 r2 /\ pair_truncated 0 2 l1 r1 l3 r3 /\ pair_truncated 1 2 l2 r2 l3 r3 /\
    (let u := UI (Some [0; 1; 2]%nat) in
     (forall y z, u [Fin l1; Fin y; Fin z] == 0) /\ (forall y z, u [Fin r1; Fin y; Fin z] == 0) /\
     (forall x z, u [Fin x; Fin l2; Fin z] == 0) /\ (forall x z, u [Fin x; Fin r2; Fin z] == 0) /\
     (forall x y, u [Fin x; Fin y; Fin l3] == 0) /\ (forall x y, u [Fin x; Fin y; Fin r3] == 0)).

  (* theta of the truncated model = mass of {x1 < a1} + mass of {x1 >= a1, x2 < a2} + mass of {x1 >= a1, x2 >= a2, x3 < a3},
     each inside the box *)
  Theorem theta3_is_boxes a1 a2 a3 : truncated3 -> l1 < 0 -> 0 < r1 -> l2 < 0 -> 0 < r2 -> l3 < 0 -> 0 < r3 -> a1 < 0 -> a2 < 0 -> a3 < 0 ->
    th3 QNum U1 UI (Fin a1) (Fin a2) (Fin a3)
      == box_mass3 (l1, l2, l3) (a1, r2, r3) + box_mass3 (a1, l2, l3) (r1, a2, r3) + box_mass3 (a1, a2, l3) (r1, r2, a3).
  Proof.
    intros ((T1 & T2 & T3 & T4 & T5 & T6) & (A1 & A2 & A3 & A4) & (B1 & B2 & B3 & B4) & (C1 & C2 & C3 & C4) & D) L1 R1 L2 R2 L3 R3 N1 N2 N3.
    cbv zeta in D. destruct D as (D1 & D2 & D3 & D4 & D5 & D6).
    unfold th3, theta_3, mass_below. open_box. cbn [orb nopp].
    sflags; cbn [andb orb]; try (exfalso; lra).
    qflags; cbn [andb orb]; try (exfalso; lra).
    all: rewrite ?A1, ?A2, ?A3, ?A4, ?B1, ?B2, ?B3, ?B4, ?C1, ?C2, ?C3, ?C4, ?D1, ?D2, ?D3, ?D4, ?D5, ?D6, ?T1, ?T3, ?T5. all: cbn [nopp QNum T]; ring.
  Qed.
End Box3.

(* ---- the headline, d = 3 ------------------------------------------------------------------------------------------------
   axes built by CTMCCredit (C13's credit_axis), cells = products of the 1-d cells between arithmetic mid-points, rates = generated
   mass of the cell (C01's q_entry3), default region = states with a coordinate below its threshold, theta = generated
   CFLevyCopulaModel._theta (d = 3) of the same (truncated) tail integrals *)
Theorem rate_equals_theta_credit_3d (U1 : nat -> ext Q -> Q) (UI : idx -> list (ext Q) -> Q) l1 a1 r1 l2 a2 r2 l3 a3 r3 h sym xs ys zs o1 o2 o3 :
  credit_axis l1 a1 h r1 sym = Some (xs, o1) -> credit_axis l2 a2 h r2 sym = Some (ys, o2) -> credit_axis l3 a3 h r3 sym = Some (zs, o3) ->
  tails_proper3 U1 UI -> truncated3 U1 UI l1 r1 l2 r2 l3 r3 ->
  default_rate3 amid (box_mass3 U1 UI) xs ys zs 4 a1 a2 a3 == th3 QNum U1 UI (Fin a1) (Fin a2) (Fin a3).
Proof.
  intros Hx Hy Hz TP TR.
  destruct (credit_axis_facts _ _ _ _ _ _ _ Hx) as (_ & _ & _ & _ & A1 & L1 & R1).
  destruct (credit_axis_facts _ _ _ _ _ _ _ Hy) as (_ & _ & _ & _ & A2 & L2 & R2).
  destruct (credit_axis_facts _ _ _ _ _ _ _ Hz) as (_ & _ & _ & _ & A3 & L3 & R3).
  destruct (rate_equals_union_credit_3d (box_mass3 U1 UI) (box_mass3_add1 U1 UI) (box_mass3_add2 U1 UI) (box_mass3_add3 U1 UI)
             (box_mass3_proper U1 UI TP) _ _ _ _ _ _ _ _ _ _ _ _ _ _ _ _ _ Hx Hy Hz) as [D _].
  rewrite D. symmetry. apply theta3_is_boxes; assumption.
Qed.

(* C20, calibration helpers of rpylib/model/utils.py.
   Gen/GenC20Calib.v (regenerated from the source on every run by harness/py2coq_c20.py) holds
     - the default_calibration table: dc_<cls>_field / dc_<cls>_lo / dc_<cls>_hi,
     - the bodies of calibrate_model_parameter (+ its inner calibration_fun) and run_default_calibration translated statement
       by statement into a program over the heap operations of Model/ParamsHeap.v: gen_calibration_fun,
       gen_calibrate_model_parameter, gen_run_default_calibration.
   Proved here: the generated program IS the hand-written heap model of Model/Params.v (so every statement of
   C20_calibration_spec_partial holds of the generated definitions), and for every class of the generated table the default
   calibration MUST SUCCEED on a constructed object whenever the root finder stays inside the table's interval, returning
   exactly the object the constructor builds from the final values. *)
From Coq Require Import ZArith QArith Qabs Bool List Lia Lqa.
From RV Require Import Base.QB Gen.GenC20Params Model.Params Model.ParamsHeap Gen.GenC20Calib Proofs.C20_Params.
Import ListNotations.
Open Scope Q_scope.

Section GenEqHand.
  Variable Rec Field : Type.
  Variable set : Rec -> Field -> Q -> Rec * bool.
  Variable initialisation : Rec -> outcome Rec.
  Variable price : Rec -> Q.
  Variable dflt : Rec.
  Notation load := (load Rec dflt).
  Notation store := (store Rec).
  Notation g_fun := (gen_calibration_fun Rec Field set initialisation price dflt).
  Notation g_cal := (gen_calibrate_model_parameter Rec Field set initialisation price dflt).
  Notation g_dfl := (gen_run_default_calibration Rec Field set initialisation price dflt).
  Notation h_fun := (calibration_fun Rec Field set initialisation price dflt).
  Notation h_trials := (run_trials Rec Field set initialisation price dflt).
  Notation h_cal := (calibrate_model_parameter Rec Field set initialisation price dflt).
  Notation h_dfl := (run_default_calibration Rec Field set initialisation price dflt).

  Lemma store_store h : forall q r r', store (store h q r) q r' = store h q r'.
  Proof. induction h as [|x h IH]; intros [|q] r r'; simpl; auto. f_equal. apply IH. Qed.

  (* the translated inner function (setattr; initialisation; model on the same object; price - market) is the model's objective *)
  Lemma gen_calibration_fun_eq q f m st x : (q < length st)%nat -> g_fun q f m st x = h_fun q f m st x.
  Proof.
    intro Hq. unfold gen_calibration_fun, calibration_fun, assign_init, obind, op_setattr, hop_setattr, op_initialisation,
      hop_initialisation, op_price, hop_price.
    destruct (set (load st q) f x) as [r' ok]. destruct ok; [|reflexivity].
    rewrite load_store_same by exact Hq.
    destruct (initialisation r') as [r''| |]; try reflexivity.
    rewrite store_store. rewrite load_store_same by exact Hq. reflexivity.
  Qed.
  Lemma calibration_fun_length q f m st x st' v : h_fun q f m st x = Some (st', v) -> length st' = length st.
  Proof.
    unfold calibration_fun. destruct (assign_init Rec Field set initialisation (load st q) f x); [|discriminate].
    intro H; inversion H; subst. apply length_store.
  Qed.
  Lemma gen_brentq_eq q f m xs : forall st, (q < length st)%nat ->
    op_brentq Rec Field set initialisation price dflt (g_fun q f m) st xs = h_trials q f m st xs.
  Proof.
    unfold op_brentq. induction xs as [|x xs IH]; intros st Hq; simpl; [reflexivity|].
    rewrite gen_calibration_fun_eq by exact Hq.
    destruct (h_fun q f m st x) as [[st' v]|] eqn:E; [|reflexivity].
    apply IH. rewrite (calibration_fun_length _ _ _ _ _ _ _ E). exact Hq.
  Qed.

  (* calibrate_model_parameter as translated = the heap model WITH the deep copy *)
  Lemma gen_calibrate_eq h p f m xs : g_cal h p f m xs = h_cal false h p f m xs.
  Proof.
    unfold gen_calibrate_model_parameter, calibrate_model_parameter, op_deepcopy, hop_deepcopy, deepcopy.
    apply gen_brentq_eq. rewrite app_length. simpl. lia.
  Qed.
  Lemma gen_run_default_eq h p f m xs x : g_dfl h p f m xs x = h_dfl h p f m xs x.
  Proof.
    unfold gen_run_default_calibration, run_default_calibration, obind. rewrite gen_calibrate_eq.
    destruct (h_cal false h p f m xs) as [h1|]; [|reflexivity].
    unfold op_deepcopy, hop_deepcopy, deepcopy, assign_init, op_setattr, hop_setattr, op_initialisation, hop_initialisation.
    assert (Hq : (length h1 < length (h1 ++ [load h1 p]))%nat) by (rewrite app_length; simpl; lia).
    destruct (set (load (h1 ++ [load h1 p]) (length h1)) f x) as [r' ok]. destruct ok; [|reflexivity].
    rewrite load_store_same by exact Hq.
    destruct (initialisation r') as [r''| |]; try reflexivity.
    rewrite store_store. reflexivity.
  Qed.
End GenEqHand.

(* ------------------------------------------------------------------ the generated default table, class by class *)
Section Classes.
Variable fsqrt : Q -> Q.
Variable fgamma : Q -> Q.
Variable fpow : Q -> Q -> Q.

Definition hem_ok (r : HemRec) : Prop := hem_valid r = true /\ hem_defined r = true.
Definition merton_ok (r : MertonRec) : Prop := merton_valid r = true.
Definition vg_ok (r : VgRec) : Prop := vg_valid r = true /\ vg_defined r = true.
Definition cgmy_ok (r : CgmyRec) : Prop := cgmy_valid r = true.

(* every value of the table's interval is accepted by the setter of the table's field and re-initialises, on every constructed object *)
Lemma hem_default_assignable r y : hem_ok r -> dc_hem_lo <= y /\ y <= dc_hem_hi ->
  exists r', assign_init HemRec HemField hem_set hem_initialisation_checked r dc_hem_field y = Some r' /\ hem_ok r'
             /\ hem_construct y (h_p r) (h_eta1 r) (h_eta2 r) (h_intensity r) = Built r'.
Proof.
  intros [V D] [Hlo Hhi]. rewrite hem_assign_spec.
  assert (G : hem_guard dc_hem_field y = true).
  { apply (proj1 (hem_guard_spec y)). unfold dc_hem_lo in Hlo. lra. }
  rewrite G. change (hem_defined (hem_write dc_hem_field y r)) with (hem_defined r). rewrite D. simpl andb. cbv iota.
  pose proof (hem_set_valid r dc_hem_field y V) as V'. unfold hem_set in V'. rewrite G in V'. simpl fst in V'.
  eexists. split; [reflexivity|]. split.
  - split; [exact V'| exact D].
  - pose proof (hem_rebuild_valid (hem_write dc_hem_field y r) V') as E. unfold hem_initialisation_checked in E.
    change (hem_defined (hem_write dc_hem_field y r)) with (hem_defined r) in E. rewrite D in E. exact E.
Qed.
Lemma merton_default_assignable r y : merton_ok r -> dc_merton_lo <= y /\ y <= dc_merton_hi ->
  exists r', assign_init MertonRec MertonField merton_set merton_initialisation_checked r dc_merton_field y = Some r' /\ merton_ok r'
             /\ merton_construct (m_sigma r) y (m_sigma_j r) (m_intensity r) = Built r'.
Proof.
  intros V [Hlo Hhi]. rewrite merton_assign_spec.
  assert (G : merton_guard dc_merton_field y = true).
  { apply (proj1 (proj2 (merton_guard_spec y))). unfold dc_merton_lo in Hlo. lra. }
  rewrite G.
  pose proof (merton_set_valid r dc_merton_field y V) as V'. unfold merton_set in V'. rewrite G in V'. simpl fst in V'.
  eexists. split; [reflexivity|]. split; [exact V'|].
  pose proof (merton_rebuild_valid (merton_write dc_merton_field y r) V') as E. exact E.
Qed.
Lemma vg_default_assignable r y : vg_ok r -> dc_vg_lo <= y /\ y <= dc_vg_hi ->
  exists r', assign_init VgRec VgField vg_set (vg_initialisation_checked fsqrt) r dc_vg_field y = Some r' /\ vg_ok r'
             /\ vg_construct fsqrt y (v_nu r) (v_theta r) = Built r'.
Proof.
  intros [V D] [Hlo Hhi]. rewrite vg_assign_spec.
  assert (G : vg_guard dc_vg_field y = true).
  { apply (proj1 (vg_guard_spec y)). unfold dc_vg_lo in Hlo. lra. }
  assert (D' : vg_defined (vg_write dc_vg_field y r) = true).
  { apply vg_defined_spec. apply vg_defined_spec in D. destruct D as [Dn _]. split; [exact Dn|].
    simpl. unfold dc_vg_lo in Hlo. intro E. rewrite E in Hlo. revert Hlo. vm_compute. intro H; apply H; reflexivity. }
  rewrite G, D'. simpl andb. cbv iota.
  pose proof (vg_set_valid r dc_vg_field y V) as V'. unfold vg_set in V'. rewrite G in V'. simpl fst in V'.
  eexists. split; [reflexivity|]. split.
  - split; [exact V'|]. exact D'.
  - pose proof (vg_rebuild_valid fsqrt (vg_write dc_vg_field y r) V') as E. unfold vg_initialisation_checked in E.
    rewrite D' in E. exact E.
Qed.
Lemma cgmy_default_assignable r y : cgmy_ok r -> dc_cgmy_lo <= y /\ y <= dc_cgmy_hi ->
  exists r', assign_init CgmyRec CgmyField cgmy_set (cgmy_initialisation_checked fgamma fpow) r dc_cgmy_field y = Some r' /\ cgmy_ok r'
             /\ cgmy_construct fgamma fpow y (c_g r) (c_m r) (c_y r) = Built r'.
Proof.
  intros V [Hlo Hhi]. rewrite cgmy_assign_spec.
  assert (G : cgmy_guard dc_cgmy_field y = true).
  { apply (proj1 (cgmy_guard_spec y)). unfold dc_cgmy_lo in Hlo. lra. }
  rewrite G.
  pose proof (cgmy_set_valid r dc_cgmy_field y V) as V'. unfold cgmy_set in V'. rewrite G in V'. simpl fst in V'.
  eexists. split; [reflexivity|]. split; [exact V'|].
  pose proof (cgmy_rebuild_valid fgamma fpow (cgmy_write dc_cgmy_field y r) V') as E. exact E.
Qed.
End Classes.

(* ------------------------------------------------------------------ generic: must succeed / must raise for the GENERATED program *)
Section GenGeneric.
  Variable Rec Field : Type.
  Variable set : Rec -> Field -> Q -> Rec * bool.
  Variable initialisation : Rec -> outcome Rec.
  Variable price : Rec -> Q.
  Variable dflt : Rec.
  Notation load := (load Rec dflt).
  Notation assign_init := (assign_init Rec Field set initialisation).
  Notation g_dfl := (gen_run_default_calibration Rec Field set initialisation price dflt).

  Lemma gen_default_succeeds (Inv : Rec -> Prop) h p f m xs x : (p < length h)%nat -> Inv (load h p) ->
    (forall y r, In y (x :: xs) -> Inv r -> exists r', assign_init r f y = Some r' /\ Inv r') ->
    exists h' q, g_dfl h p f m xs x = Some (h', q)
      /\ (forall p', (p' < length h)%nat -> load h' p' = load h p') /\ (length h <= q)%nat
      /\ assign_init (load h p) f x = Some (load h' q).
  Proof.
    intros Hp HI Hacc.
    destruct (run_default_succeeds Rec Field set initialisation price dflt Inv h p f m xs x Hp HI Hacc) as (h' & q & E).
    exists h', q. rewrite gen_run_default_eq. split; [exact E|].
    exact (run_default_spec Rec Field set initialisation price dflt h p f m xs x h' q Hp E).
  Qed.
  Lemma gen_default_refused h p f m xs x y : (forall r, assign_init r f y = None) -> In y (x :: xs) -> g_dfl h p f m xs x = None.
  Proof.
    intros Hrej [<- | Hin]; rewrite gen_run_default_eq.
    - apply run_default_rejected, Hrej.
    - unfold run_default_calibration. rewrite (calibrate_rejected Rec Field set initialisation price dflt h p f m y xs false Hrej Hin). reflexivity.
  Qed.
End GenGeneric.

Lemma generated_program_all : forall (Rec Field : Type) (set : Rec -> Field -> Q -> Rec * bool) (initialisation : Rec -> outcome Rec)
    (price : Rec -> Q) (dflt : Rec),
  (forall q f market st x, (q < length st)%nat ->
     gen_calibration_fun Rec Field set initialisation price dflt q f market st x = calibration_fun Rec Field set initialisation price dflt q f market st x)
  /\ (forall h p f market xs,
     gen_calibrate_model_parameter Rec Field set initialisation price dflt h p f market xs
     = calibrate_model_parameter Rec Field set initialisation price dflt false h p f market xs)
  /\ (forall h p f market xs x,
     gen_run_default_calibration Rec Field set initialisation price dflt h p f market xs x
     = run_default_calibration Rec Field set initialisation price dflt h p f market xs x).
Proof.
  intros. repeat apply conj.
  - intros. apply gen_calibration_fun_eq. assumption.
  - apply gen_calibrate_eq.
  - apply gen_run_default_eq.
Qed.

Lemma default_calibration_must_succeed_all : forall (fsqrt fgamma : Q -> Q) (fpow : Q -> Q -> Q),
  (forall price dflt h p market xs x, (p < length h)%nat ->
     let r := load HemRec dflt h p in hem_valid r = true /\ hem_defined r = true ->
     (forall y, In y (x :: xs) -> dc_hem_lo <= y /\ y <= dc_hem_hi) ->
     exists h' q, gen_run_default_calibration HemRec HemField hem_set hem_initialisation_checked price dflt h p dc_hem_field market xs x = Some (h', q)
       /\ (forall p', (p' < length h)%nat -> load HemRec dflt h' p' = load HemRec dflt h p') /\ (length h <= q)%nat
       /\ hem_construct x (h_p r) (h_eta1 r) (h_eta2 r) (h_intensity r) = Built (load HemRec dflt h' q))
  /\ (forall price dflt h p market xs x, (p < length h)%nat ->
     let r := load MertonRec dflt h p in merton_valid r = true ->
     (forall y, In y (x :: xs) -> dc_merton_lo <= y /\ y <= dc_merton_hi) ->
     exists h' q, gen_run_default_calibration MertonRec MertonField merton_set merton_initialisation_checked price dflt h p dc_merton_field market xs x = Some (h', q)
       /\ (forall p', (p' < length h)%nat -> load MertonRec dflt h' p' = load MertonRec dflt h p') /\ (length h <= q)%nat
       /\ merton_construct (m_sigma r) x (m_sigma_j r) (m_intensity r) = Built (load MertonRec dflt h' q))
  /\ (forall price dflt h p market xs x, (p < length h)%nat ->
     let r := load VgRec dflt h p in vg_valid r = true /\ vg_defined r = true ->
     (forall y, In y (x :: xs) -> dc_vg_lo <= y /\ y <= dc_vg_hi) ->
     exists h' q, gen_run_default_calibration VgRec VgField vg_set (vg_initialisation_checked fsqrt) price dflt h p dc_vg_field market xs x = Some (h', q)
       /\ (forall p', (p' < length h)%nat -> load VgRec dflt h' p' = load VgRec dflt h p') /\ (length h <= q)%nat
       /\ vg_construct fsqrt x (v_nu r) (v_theta r) = Built (load VgRec dflt h' q))
  /\ (forall price dflt h p market xs x, (p < length h)%nat ->
     let r := load CgmyRec dflt h p in cgmy_valid r = true ->
     (forall y, In y (x :: xs) -> dc_cgmy_lo <= y /\ y <= dc_cgmy_hi) ->
     exists h' q, gen_run_default_calibration CgmyRec CgmyField cgmy_set (cgmy_initialisation_checked fgamma fpow) price dflt h p dc_cgmy_field market xs x = Some (h', q)
       /\ (forall p', (p' < length h)%nat -> load CgmyRec dflt h' p' = load CgmyRec dflt h p') /\ (length h <= q)%nat
       /\ cgmy_construct fgamma fpow x (c_g r) (c_m r) (c_y r) = Built (load CgmyRec dflt h' q)).
Proof.
  intros. repeat apply conj; intros price dflt h p market xs x Hp r HI Hin.
  - destruct (gen_default_succeeds HemRec HemField hem_set hem_initialisation_checked price dflt hem_ok h p dc_hem_field market xs x Hp HI) as (h' & q & E & A & B & C).
    { intros y r1 Hy H1. destruct (hem_default_assignable r1 y H1 (Hin y Hy)) as (r' & E1 & O & _). eauto. }
    exists h', q. repeat split; try assumption.
    destruct (hem_default_assignable r x HI (Hin x (or_introl eq_refl))) as (r' & E1 & _ & K).
    fold r in C. rewrite C in E1. inversion E1; subst. exact K.
  - destruct (gen_default_succeeds MertonRec MertonField merton_set merton_initialisation_checked price dflt merton_ok h p dc_merton_field market xs x Hp HI) as (h' & q & E & A & B & C).
    { intros y r1 Hy H1. destruct (merton_default_assignable r1 y H1 (Hin y Hy)) as (r' & E1 & O & _). eauto. }
    exists h', q. repeat split; try assumption.
    destruct (merton_default_assignable r x HI (Hin x (or_introl eq_refl))) as (r' & E1 & _ & K).
    fold r in C. rewrite C in E1. inversion E1; subst. exact K.
  - destruct (gen_default_succeeds VgRec VgField vg_set (vg_initialisation_checked fsqrt) price dflt vg_ok h p dc_vg_field market xs x Hp HI) as (h' & q & E & A & B & C).
    { intros y r1 Hy H1. destruct (vg_default_assignable fsqrt r1 y H1 (Hin y Hy)) as (r' & E1 & O & _). eauto. }
    exists h', q. repeat split; try assumption.
    destruct (vg_default_assignable fsqrt r x HI (Hin x (or_introl eq_refl))) as (r' & E1 & _ & K).
    fold r in C. rewrite C in E1. inversion E1; subst. exact K.
  - destruct (gen_default_succeeds CgmyRec CgmyField cgmy_set (cgmy_initialisation_checked fgamma fpow) price dflt cgmy_ok h p dc_cgmy_field market xs x Hp HI) as (h' & q & E & A & B & C).
    { intros y r1 Hy H1. destruct (cgmy_default_assignable fgamma fpow r1 y H1 (Hin y Hy)) as (r' & E1 & O & _). eauto. }
    exists h', q. repeat split; try assumption.
    destruct (cgmy_default_assignable fgamma fpow r x HI (Hin x (or_introl eq_refl))) as (r' & E1 & _ & K).
    fold r in C. rewrite C in E1. inversion E1; subst. exact K.
Qed.

(* MUST RAISE: a trial value (or returned value) below the table's field's domain aborts the default calibration -- the lower
   ends of the table's intervals cannot be moved below these values; VG: sigma = 0 is accepted by the setter but the
   re-initialisation divides by zero *)
Lemma default_calibration_must_raise_all : forall (fsqrt fgamma : Q -> Q) (fpow : Q -> Q -> Q),
  (forall price dflt h p market xs x y, y < 0 -> In y (x :: xs) ->
     gen_run_default_calibration HemRec HemField hem_set hem_initialisation_checked price dflt h p dc_hem_field market xs x = None)
  /\ (forall price dflt h p market xs x y, y < 0 -> In y (x :: xs) ->
     gen_run_default_calibration MertonRec MertonField merton_set merton_initialisation_checked price dflt h p dc_merton_field market xs x = None)
  /\ (forall price dflt h p market xs x y, y <= 0 -> In y (x :: xs) ->
     gen_run_default_calibration VgRec VgField vg_set (vg_initialisation_checked fsqrt) price dflt h p dc_vg_field market xs x = None)
  /\ (forall price dflt h p market xs x y, y <= 0 -> In y (x :: xs) ->
     gen_run_default_calibration CgmyRec CgmyField cgmy_set (cgmy_initialisation_checked fgamma fpow) price dflt h p dc_cgmy_field market xs x = None).
Proof.
  intros. repeat apply conj; intros price dflt h p market xs x y Hy Hin; eapply gen_default_refused; try exact Hin; intro r.
  - rewrite hem_assign_spec. destruct (hem_guard dc_hem_field y) eqn:G; [|reflexivity].
    apply (proj1 (hem_guard_spec y)) in G. lra.
  - rewrite merton_assign_spec. destruct (merton_guard dc_merton_field y) eqn:G; [|reflexivity].
    apply (proj1 (proj2 (merton_guard_spec y))) in G. lra.
  - rewrite vg_assign_spec. destruct (vg_guard dc_vg_field y) eqn:G; [|reflexivity].
    apply (proj1 (vg_guard_spec y)) in G. assert (E : y == 0) by lra.
    destruct (vg_defined (vg_write dc_vg_field y r)) eqn:D; [|reflexivity].
    apply vg_defined_spec in D. destruct D as [_ D]. exfalso. apply D. exact E.
  - rewrite cgmy_assign_spec. destruct (cgmy_guard dc_cgmy_field y) eqn:G; [|reflexivity].
    apply (proj1 (cgmy_guard_spec y)) in G. lra.
Qed.

(* non-vacuity: the generated program run on a concrete heap -- a HEM object after a history, three trial values inside the table's
   interval, returned value 1/4: a new object with sigma = 1/4, the input kept; a trial value -1/4 aborts; VG at sigma = 0 aborts *)
Lemma nonvacuous_c20_calib :
  match hem_construct (1#20) (3#5) 20 25 3 with
  | Built r0 =>
      let r := hem_run [(HEta1, 10); (HP, -1); (HP, 1#2)] r0 in
      hem_valid r = true /\ hem_defined r = true
      /\ (match gen_run_default_calibration HemRec HemField hem_set hem_initialisation_checked h_xi r0 [r] 0 dc_hem_field 0 [dc_hem_lo; dc_hem_hi; 1#2] (1#4) with
          | Some (h', q) => Nat.eqb q 2 && Qeq_bool (h_sigma (load HemRec r0 h' 0)) (1#20) && Qeq_bool (h_sigma (load HemRec r0 h' 1)) (1#2)
                            && Qeq_bool (h_sigma (load HemRec r0 h' q)) (1#4) && Qeq_bool (h_eta1 (load HemRec r0 h' q)) 10
          | None => false end = true)
      /\ gen_run_default_calibration HemRec HemField hem_set hem_initialisation_checked h_xi r0 [r] 0 dc_hem_field 0 [dc_hem_lo; -(1#4)] (1#4) = None
  | _ => False
  end
  /\ match vg_construct (fun x => x) (1#10) (1#16) (1#10) with
     | Built v0 => vg_valid v0 = true /\ vg_defined v0 = true
         /\ gen_run_default_calibration VgRec VgField vg_set (vg_initialisation_checked (fun x => x)) v_c v0 [v0] 0 dc_vg_field 0 [0; 1] (1#4) = None
         /\ (match gen_run_default_calibration VgRec VgField vg_set (vg_initialisation_checked (fun x => x)) v_c v0 [v0] 0 dc_vg_field 0 [dc_vg_lo; 1] (1#4) with
             | Some (h', q) => Qeq_bool (v_sigma (load VgRec v0 h' q)) (1#4) | None => false end = true)
     | _ => False
     end.
Proof. vm_compute. repeat split. Qed.

(* C20, calibration helpers of rpylib/model/utils.py.
   Gen/GenC20Calib.v (regenerated from the source on every run by harness/py2coq_c20.py) holds
     - the default_calibration table: dc_<cls>_field / dc_<cls>_lo / dc_<cls>_hi,
     - the bodies of calibrate_model_parameter (+ its inner calibration_fun) and run_default_calibration translated statement
       by statement into a program over the heap operations of Model/ParamsHeap.v: gen_calibration_fun,
       gen_calibrate_model_parameter, gen_run_default_calibration.
   Wave 7 (audit 4, B3): the program now contains the two raises the earlier one could not produce -- the exponential model's
   constructor refusing the parameters (op_model, class component model_ok) and brentq's own ValueError when the objective has the
   same strict sign at both ends (op_brentq_ab: f(a), f(b), zero end, sign test, then the trial values).
   Proved here: the generated program IS the hand-written guarded heap model of Model/ParamsHeap.v (CalibrationG); whenever it returns,
   the unguarded model of Model/Params.v returns the same heap on the trial list brentq evaluated (so every statement of
   C20_calibration_spec_partial holds of what the generated program returns); and for every class of the generated table the default
   calibration of a constructed object RETURNS when none of the modelled raises occurs (hypothesis by hypothesis) and RAISES in each
   of the modelled cases. *)
From Coq Require Import ZArith QArith Qabs Bool List Lia Lqa.
From RV Require Import Base.QB Gen.GenC20Params Model.Params Model.ParamsHeap Gen.GenC20Calib Proofs.C20_Params.
Import ListNotations.
Open Scope Q_scope.

Section GenEqHand.
  Variable Rec Field : Type.
  Variable set : Rec -> Field -> Q -> Rec * bool.
  Variable initialisation : Rec -> outcome Rec.
  Variable price : Rec -> Q.
  Variable dflt : Rec.
  Variable model_ok : Rec -> bool.
  Notation load := (load Rec dflt).
  Notation store := (store Rec).
  Notation assign_init := (assign_init Rec Field set initialisation).
  Notation g_fun := (gen_calibration_fun Rec Field set initialisation price dflt model_ok).
  Notation g_cal := (gen_calibrate_model_parameter Rec Field set initialisation price dflt model_ok).
  Notation g_dfl := (gen_run_default_calibration Rec Field set initialisation price dflt model_ok).
  Notation h_fun := (calibration_fun_g Rec Field set initialisation price dflt model_ok).
  Notation h_trials := (run_trials_g Rec Field set initialisation price dflt model_ok).
  Notation h_cal := (calibrate_model_parameter_g Rec Field set initialisation price dflt model_ok).
  Notation h_dfl := (run_default_calibration_g Rec Field set initialisation price dflt model_ok).
  (* the model of Model/Params.v, which has neither the constructor guard nor brentq's own ValueError *)
  Notation o_fun := (calibration_fun Rec Field set initialisation price dflt).
  Notation o_trials := (run_trials Rec Field set initialisation price dflt).
  Notation o_cal := (calibrate_model_parameter Rec Field set initialisation price dflt).
  Notation o_dfl := (run_default_calibration Rec Field set initialisation price dflt).

  Lemma store_store h : forall q r r', store (store h q r) q r' = store h q r'.
  Proof. induction h as [|x h IH]; intros [|q] r r'; simpl; auto. f_equal. apply IH. Qed.

  (* the translated inner function (setattr; initialisation; model constructor on the same object; price - market) is the model's objective *)
  Lemma gen_calibration_fun_eq q f m st x : (q < length st)%nat -> g_fun q f m st x = h_fun q f m st x.
  Proof.
    intro Hq. unfold gen_calibration_fun, calibration_fun_g, Params.assign_init, obind, op_setattr, hop_setattr, op_initialisation,
      hop_initialisation, op_price, hop_price, op_model, hop_model.
    destruct (set (load st q) f x) as [r' ok]. destruct ok; [|reflexivity].
    rewrite load_store_same by exact Hq.
    destruct (initialisation r') as [r''| |]; try reflexivity.
    rewrite store_store. rewrite load_store_same by exact Hq. destruct (model_ok r''); [|reflexivity].
    rewrite load_store_same by exact Hq. reflexivity.
  Qed.
  Lemma calibration_fun_g_old q f m st x st' v : h_fun q f m st x = Some (st', v) ->
    o_fun q f m st x = Some (st', v) /\ exists r, assign_init (load st q) f x = Some r /\ model_ok r = true /\ st' = store st q r /\ v = price r - m.
  Proof.
    unfold calibration_fun_g, calibration_fun. destruct (assign_init (load st q) f x) as [r|]; [|discriminate].
    destruct (model_ok r) eqn:G; [|discriminate]. intro H; inversion H; subst. split; [reflexivity|]. exists r. auto.
  Qed.
  Lemma calibration_fun_g_length q f m st x st' v : h_fun q f m st x = Some (st', v) -> length st' = length st.
  Proof. intro H. apply calibration_fun_g_old in H. destruct H as (_ & r & _ & _ & -> & _). apply length_store. Qed.
  Lemma gen_brentq_eq q f m xs : forall st, (q < length st)%nat ->
    hop_brentq Rec (g_fun q f m) st xs = h_trials q f m st xs.
  Proof.
    induction xs as [|x xs IH]; intros st Hq; simpl; [reflexivity|].
    rewrite gen_calibration_fun_eq by exact Hq.
    destruct (h_fun q f m st x) as [[st' v]|] eqn:E; [|reflexivity].
    apply IH. rewrite (calibration_fun_g_length _ _ _ _ _ _ _ E). exact Hq.
  Qed.

  (* calibrate_model_parameter as translated = the guarded heap model *)
  Lemma gen_calibrate_eq h p f ab m xs : g_cal h p f ab m xs = h_cal h p f ab m xs.
  Proof.
    unfold gen_calibrate_model_parameter, calibrate_model_parameter_g, op_deepcopy, hop_deepcopy, deepcopy, op_brentq_ab, hop_brentq_ab.
    destruct ab as [a b]. cbn [fst snd].
    assert (H0 : (length h < length (h ++ [load h p]))%nat) by (rewrite app_length; simpl; lia).
    rewrite gen_calibration_fun_eq by exact H0.
    destruct (h_fun (length h) f m (h ++ [load h p]) a) as [[st1 fa]|] eqn:E1; [|reflexivity].
    assert (H1 : (length h < length st1)%nat) by (rewrite (calibration_fun_g_length _ _ _ _ _ _ _ E1); exact H0).
    rewrite gen_calibration_fun_eq by exact H1.
    destruct (h_fun (length h) f m st1 b) as [[st2 fb]|] eqn:E2; [|reflexivity].
    destruct (Qeq_bool fa 0 || Qeq_bool fb 0); [reflexivity|]. destruct (Qle_bool (fa * fb) 0); [|reflexivity].
    apply gen_brentq_eq. rewrite (calibration_fun_g_length _ _ _ _ _ _ _ E2). exact H1.
  Qed.
  Lemma gen_run_default_eq h p f ab m xs x : g_dfl h p f ab m xs x = h_dfl h p f ab m xs x.
  Proof.
    unfold gen_run_default_calibration, run_default_calibration_g, obind. rewrite gen_calibrate_eq.
    destruct (h_cal h p f ab m xs) as [h1|]; [|reflexivity].
    unfold op_deepcopy, hop_deepcopy, deepcopy, Params.assign_init, op_setattr, hop_setattr, op_initialisation, hop_initialisation, op_model, hop_model.
    assert (Hq : (length h1 < length (h1 ++ [load h1 p]))%nat) by (rewrite app_length; simpl; lia).
    destruct (set (load (h1 ++ [load h1 p]) (length h1)) f x) as [r' ok]. destruct ok; [|reflexivity].
    rewrite load_store_same by exact Hq.
    destruct (initialisation r') as [r''| |]; try reflexivity.
    rewrite store_store. rewrite load_store_same by exact Hq. destruct (model_ok r''); reflexivity.
  Qed.

  (* ---- the guarded model against the model of Params.v: whenever it RETURNS, the unguarded model returns the same heap on the
     trial list brentq actually evaluated ([a; b] when an end value is zero, a :: b :: xs otherwise) *)
  Lemma run_trials_g_old q f m xs : forall st st', h_trials q f m st xs = Some st' -> o_trials q f m st xs = Some st'.
  Proof.
    induction xs as [|x xs IH]; intros st st' H; simpl in *; [exact H|].
    destruct (h_fun q f m st x) as [[st1 v]|] eqn:E; [|discriminate].
    apply calibration_fun_g_old in E. destruct E as [E _]. rewrite E. apply IH, H.
  Qed.
  Lemma calibrate_g_old h p f a b m xs h' : h_cal h p f (a, b) m xs = Some h' ->
    exists tl, (tl = [a; b] \/ tl = a :: b :: xs) /\ o_cal false h p f m tl = Some h'.
  Proof.
    unfold calibrate_model_parameter_g, calibrate_model_parameter, deepcopy. cbn [fst snd].
    destruct (h_fun (length h) f m (h ++ [load h p]) a) as [[st1 fa]|] eqn:E1; [|discriminate].
    destruct (h_fun (length h) f m st1 b) as [[st2 fb]|] eqn:E2; [|discriminate].
    apply calibration_fun_g_old in E1. destruct E1 as [E1 _]. apply calibration_fun_g_old in E2. destruct E2 as [E2 _].
    destruct (Qeq_bool fa 0 || Qeq_bool fb 0).
    - intro H; inversion H; subst. exists [a; b]. split; [auto|]. simpl. rewrite E1, E2. reflexivity.
    - destruct (Qle_bool (fa * fb) 0); [|discriminate]. intro H. exists (a :: b :: xs). split; [auto|]. simpl. rewrite E1, E2.
      apply run_trials_g_old, H.
  Qed.
  Lemma run_default_g_old h p f a b m xs x h' q : h_dfl h p f (a, b) m xs x = Some (h', q) ->
    exists tl, (tl = [a; b] \/ tl = a :: b :: xs) /\ o_dfl h p f m tl x = Some (h', q) /\ model_ok (load h' q) = true.
  Proof.
    unfold run_default_calibration_g, run_default_calibration.
    destruct (h_cal h p f (a, b) m xs) as [h1|] eqn:E; [|discriminate].
    apply calibrate_g_old in E. destruct E as (tl & Htl & E). intro H. exists tl. split; [exact Htl|]. rewrite E.
    unfold deepcopy in *. destruct (assign_init (load (h1 ++ [load h1 p]) (length h1)) f x) as [r|]; [|discriminate].
    destruct (model_ok r) eqn:G; [|discriminate]. inversion H; subst. split; [reflexivity|].
    rewrite load_store_same by (rewrite app_length; simpl; lia). exact G.
  Qed.

  (* ---- when it RAISES.  The objective values at the two ends, on the working copy *)
  Lemma calibrate_g_first h p f a b m xs :
    h_cal h p f (a, b) m xs =
    match assign_init (load h p) f a with
    | None => None
    | Some ra => if model_ok ra then
        match assign_init ra f b with
        | None => None
        | Some rb => if model_ok rb then
            let st2 := store (store (h ++ [load h p]) (length h) ra) (length h) rb in
            if Qeq_bool (price ra - m) 0 || Qeq_bool (price rb - m) 0 then Some st2
            else if Qle_bool ((price ra - m) * (price rb - m)) 0 then h_trials (length h) f m st2 xs else None
          else None
        end else None
    end.
  Proof.
    unfold calibrate_model_parameter_g, deepcopy, calibration_fun_g. cbn [fst snd]. rewrite load_app_new.
    destruct (assign_init (load h p) f a) as [ra|]; [|reflexivity]. destruct (model_ok ra); [|reflexivity].
    rewrite load_store_same by (rewrite app_length; simpl; lia).
    destruct (assign_init ra f b) as [rb|]; [|reflexivity]. destruct (model_ok rb); reflexivity.
  Qed.
  (* brentq's own ValueError: both end values non-zero with the same sign *)
  Lemma calibrate_g_sign_error h p f a b m xs ra rb : assign_init (load h p) f a = Some ra -> assign_init ra f b = Some rb ->
    0 < (price ra - m) * (price rb - m) -> h_cal h p f (a, b) m xs = None.
  Proof.
    intros Ea Eb Hs. rewrite calibrate_g_first, Ea, Eb. destruct (model_ok ra); [|reflexivity]. destruct (model_ok rb); [|reflexivity]. cbv zeta.
    assert (Na : Qeq_bool (price ra - m) 0 = false).
    { destruct (Qeq_bool (price ra - m) 0) eqn:Z; [|reflexivity]. apply Qeq_bool_iff in Z. rewrite Z in Hs. exfalso. lra. }
    assert (Nb : Qeq_bool (price rb - m) 0 = false).
    { destruct (Qeq_bool (price rb - m) 0) eqn:Z; [|reflexivity]. apply Qeq_bool_iff in Z. rewrite Z in Hs. exfalso. lra. }
    rewrite Na, Nb. simpl orb. cbv iota.
    destruct (Qle_bool ((price ra - m) * (price rb - m)) 0) eqn:L; [|reflexivity]. apply Qle_bool_iff in L. exfalso. lra.
  Qed.
  (* the exponential model's constructor refuses the parameters at an end of the interval *)
  Lemma calibrate_g_guard_a h p f a b m xs ra : assign_init (load h p) f a = Some ra -> model_ok ra = false -> h_cal h p f (a, b) m xs = None.
  Proof. intros Ea G. rewrite calibrate_g_first, Ea, G. reflexivity. Qed.
  Lemma calibrate_g_guard_b h p f a b m xs ra rb : assign_init (load h p) f a = Some ra -> assign_init ra f b = Some rb -> model_ok rb = false ->
    h_cal h p f (a, b) m xs = None.
  Proof. intros Ea Eb G. rewrite calibrate_g_first, Ea, Eb, G. destruct (model_ok ra); reflexivity. Qed.
  Lemma run_default_g_none h p f ab m xs x : h_cal h p f ab m xs = None -> h_dfl h p f ab m xs x = None.
  Proof. intro E. unfold run_default_calibration_g. rewrite E. reflexivity. Qed.
  (* ... or at the returned value *)
  Lemma run_default_g_guard_x h p f a b m xs x rx : (p < length h)%nat -> assign_init (load h p) f x = Some rx -> model_ok rx = false ->
    h_dfl h p f (a, b) m xs x = None.
  Proof.
    intros Hp Ex G. unfold run_default_calibration_g. destruct (h_cal h p f (a, b) m xs) as [h1|] eqn:E; [|reflexivity].
    apply calibrate_g_old in E. destruct E as (tl & _ & E). apply calibrate_input_untouched in E. destruct E as [_ F].
    unfold deepcopy. rewrite load_app_new, (F p Hp), Ex, G. reflexivity.
  Qed.
  (* a value the setter / the re-initialisation refuses, at an end or as the returned value *)
  Lemma run_default_g_rejected h p f a b m xs x y : (forall r, assign_init r f y = None) -> y = a \/ y = b \/ y = x ->
    h_dfl h p f (a, b) m xs x = None.
  Proof.
    intros Hrej Hy. unfold run_default_calibration_g.
    destruct (h_cal h p f (a, b) m xs) as [h1|] eqn:E.
    - destruct Hy as [-> | [-> | ->]].
      + rewrite calibrate_g_first, Hrej in E. discriminate.
      + rewrite calibrate_g_first in E. destruct (assign_init (load h p) f a) as [ra|]; [|discriminate].
        destruct (model_ok ra); [|discriminate]. rewrite Hrej in E. discriminate.
      + unfold deepcopy. rewrite Hrej. reflexivity.
    - reflexivity.
  Qed.

  (* ---- NOTHING RAISES => it returns: every evaluated value assignable and accepted by the model constructor on the records that can
     occur (invariant Inv), and the two end values do not have the same strict sign *)
  Lemma run_trials_g_succeeds (Inv : Rec -> Prop) q f m xs :
    (forall y r, In y xs -> Inv r -> exists r', assign_init r f y = Some r' /\ Inv r' /\ model_ok r' = true) ->
    forall st, (q < length st)%nat -> Inv (load st q) -> exists st', h_trials q f m st xs = Some st'.
  Proof.
    induction xs as [|x xs IH]; intros Hacc st Hq HI; simpl; [eauto|].
    unfold calibration_fun_g. destruct (Hacc x (load st q) (or_introl eq_refl) HI) as (r' & E & HI' & G). rewrite E, G.
    apply (IH (fun y r Hy => Hacc y r (or_intror Hy))).
    - rewrite length_store. exact Hq.
    - rewrite load_store_same by exact Hq. exact HI'.
  Qed.
  Lemma run_default_g_succeeds (Inv : Rec -> Prop) h p f a b m xs x : (p < length h)%nat -> Inv (load h p) ->
    (forall y r, In y (a :: b :: x :: xs) -> Inv r -> exists r', assign_init r f y = Some r' /\ Inv r' /\ model_ok r' = true) ->
    (forall ra rb, assign_init (load h p) f a = Some ra -> assign_init ra f b = Some rb -> (price ra - m) * (price rb - m) <= 0) ->
    exists h' q, h_dfl h p f (a, b) m xs x = Some (h', q).
  Proof.
    intros Hp HI Hacc Hsign.
    assert (Hc : exists h1, h_cal h p f (a, b) m xs = Some h1).
    { rewrite calibrate_g_first.
      destruct (Hacc a (load h p) (or_introl eq_refl) HI) as (ra & Ea & Ia & Ga). rewrite Ea, Ga.
      destruct (Hacc b ra (or_intror (or_introl eq_refl)) Ia) as (rb & Eb & Ib & Gb). rewrite Eb, Gb. cbv zeta.
      destruct (Qeq_bool (price ra - m) 0 || Qeq_bool (price rb - m) 0); [eauto|].
      pose proof (Hsign ra rb Ea Eb) as L. apply Qle_bool_iff in L. rewrite L.
      apply (run_trials_g_succeeds Inv).
      - intros y r Hy. apply Hacc. right. right. right. exact Hy.
      - rewrite !length_store, app_length. simpl. lia.
      - rewrite load_store_same by (rewrite length_store, app_length; simpl; lia). exact Ib. }
    destruct Hc as [h1 E]. unfold run_default_calibration_g. rewrite E.
    pose proof E as E'. apply calibrate_g_old in E'. destruct E' as (tl & _ & E'). apply calibrate_input_untouched in E'. destruct E' as [_ F].
    unfold deepcopy. rewrite load_app_new, (F p Hp).
    destruct (Hacc x (load h p) (or_intror (or_intror (or_introl eq_refl))) HI) as (rx & Ex & _ & Gx). rewrite Ex, Gx. eauto.
  Qed.
End GenEqHand.

(* ------------------------------------------------------------------ the generated default table, class by class *)
Section Classes.
Variable fsqrt : Q -> Q.
Variable fgamma : Q -> Q.
Variable fpow : Q -> Q -> Q.

Definition hem_ok (r : HemRec) : Prop := hem_valid r = true /\ hem_defined r = true.
Definition merton_ok (r : MertonRec) : Prop := merton_valid r = true.
Definition vg_ok (r : VgRec) : Prop := vg_valid r = true /\ vg_defined r = true.
Definition cgmy_ok (r : CgmyRec) : Prop := cgmy_valid r = true.

(* every value of the table's interval is accepted by the setter of the table's field and re-initialises, on every constructed object *)
Lemma hem_default_assignable r y : hem_ok r -> dc_hem_lo <= y /\ y <= dc_hem_hi ->
  exists r', assign_init HemRec HemField hem_set hem_initialisation_checked r dc_hem_field y = Some r' /\ hem_ok r'
             /\ hem_construct y (h_p r) (h_eta1 r) (h_eta2 r) (h_intensity r) = Built r'.
Proof.
  intros [V D] [Hlo Hhi]. rewrite hem_assign_spec.
  assert (G : hem_guard dc_hem_field y = true).
  { apply (proj1 (hem_guard_spec y)). unfold dc_hem_lo in Hlo. lra. }
  rewrite G. change (hem_defined (hem_write dc_hem_field y r)) with (hem_defined r). rewrite D. simpl andb. cbv iota.
  pose proof (hem_set_valid r dc_hem_field y V) as V'. unfold hem_set in V'. rewrite G in V'. simpl fst in V'.
  eexists. split; [reflexivity|]. split.
  - split; [exact V'| exact D].
  - pose proof (hem_rebuild_valid (hem_write dc_hem_field y r) V') as E. unfold hem_initialisation_checked in E.
    change (hem_defined (hem_write dc_hem_field y r)) with (hem_defined r) in E. rewrite D in E. exact E.
Qed.
Lemma merton_default_assignable r y : merton_ok r -> dc_merton_lo <= y /\ y <= dc_merton_hi ->
  exists r', assign_init MertonRec MertonField merton_set merton_initialisation_checked r dc_merton_field y = Some r' /\ merton_ok r'
             /\ merton_construct (m_sigma r) y (m_sigma_j r) (m_intensity r) = Built r'.
Proof.
  intros V [Hlo Hhi]. rewrite merton_assign_spec.
  assert (G : merton_guard dc_merton_field y = true).
  { apply (proj1 (proj2 (merton_guard_spec y))). unfold dc_merton_lo in Hlo. lra. }
  rewrite G.
  pose proof (merton_set_valid r dc_merton_field y V) as V'. unfold merton_set in V'. rewrite G in V'. simpl fst in V'.
  eexists. split; [reflexivity|]. split; [exact V'|].
  pose proof (merton_rebuild_valid (merton_write dc_merton_field y r) V') as E. exact E.
Qed.
Lemma vg_default_assignable r y : vg_ok r -> dc_vg_lo <= y /\ y <= dc_vg_hi ->
  exists r', assign_init VgRec VgField vg_set (vg_initialisation_checked fsqrt) r dc_vg_field y = Some r' /\ vg_ok r'
             /\ vg_construct fsqrt y (v_nu r) (v_theta r) = Built r'.
Proof.
  intros [V D] [Hlo Hhi]. rewrite vg_assign_spec.
  assert (G : vg_guard dc_vg_field y = true).
  { apply (proj1 (vg_guard_spec y)). unfold dc_vg_lo in Hlo. lra. }
  assert (D' : vg_defined (vg_write dc_vg_field y r) = true).
  { apply vg_defined_spec. apply vg_defined_spec in D. destruct D as [Dn _]. split; [exact Dn|].
    simpl. unfold dc_vg_lo in Hlo. intro E. rewrite E in Hlo. revert Hlo. vm_compute. intro H; apply H; reflexivity. }
  rewrite G, D'. simpl andb. cbv iota.
  pose proof (vg_set_valid r dc_vg_field y V) as V'. unfold vg_set in V'. rewrite G in V'. simpl fst in V'.
  eexists. split; [reflexivity|]. split.
  - split; [exact V'|]. exact D'.
  - pose proof (vg_rebuild_valid fsqrt (vg_write dc_vg_field y r) V') as E. unfold vg_initialisation_checked in E.
    rewrite D' in E. exact E.
Qed.
Lemma cgmy_default_assignable r y : cgmy_ok r -> dc_cgmy_lo <= y /\ y <= dc_cgmy_hi ->
  exists r', assign_init CgmyRec CgmyField cgmy_set (cgmy_initialisation_checked fgamma fpow) r dc_cgmy_field y = Some r' /\ cgmy_ok r'
             /\ cgmy_construct fgamma fpow y (c_g r) (c_m r) (c_y r) = Built r'.
Proof.
  intros V [Hlo Hhi]. rewrite cgmy_assign_spec.
  assert (G : cgmy_guard dc_cgmy_field y = true).
  { apply (proj1 (cgmy_guard_spec y)). unfold dc_cgmy_lo in Hlo. lra. }
  rewrite G.
  pose proof (cgmy_set_valid r dc_cgmy_field y V) as V'. unfold cgmy_set in V'. rewrite G in V'. simpl fst in V'.
  eexists. split; [reflexivity|]. split; [exact V'|].
  pose proof (cgmy_rebuild_valid fgamma fpow (cgmy_write dc_cgmy_field y r) V') as E. exact E.
Qed.
End Classes.

(* ------------------------------------------------------------------ generic: returns / raises for the GENERATED program on one table entry *)
Section GenGeneric.
  Variable Rec Field : Type.
  Variable set : Rec -> Field -> Q -> Rec * bool.
  Variable initialisation : Rec -> outcome Rec.
  Variable price : Rec -> Q.
  Variable dflt : Rec.
  Variable model_ok : Rec -> bool.
  Notation load := (load Rec dflt).
  Notation assign_init := (assign_init Rec Field set initialisation).
  Notation g_dfl := (gen_run_default_calibration Rec Field set initialisation price dflt model_ok).
  (* one entry of the default table: field f, interval [lo, hi]; ok = "constructed object"; ctor r y = the parameter constructor applied
     to the fields of r with f := y *)
  Variable ok : Rec -> Prop.
  Variable f : Field.
  Variable lo hi : Q.
  Variable ctor : Rec -> Q -> outcome Rec.
  Hypothesis H_assign : forall r y, ok r -> lo <= y /\ y <= hi -> exists r', assign_init r f y = Some r' /\ ok r' /\ ctor r y = Built r'.
  Hypothesis H_absorb : forall r x y r1, assign_init r f y = Some r1 -> assign_init r1 f x = assign_init r f x.
  Hypothesis H_lohi : lo <= hi.

  Lemma assign_is_ctor r y r' : ok r -> lo <= y /\ y <= hi -> (assign_init r f y = Some r' <-> ctor r y = Built r').
  Proof.
    intros Hr Hy. destruct (H_assign r y Hr Hy) as (r1 & E & _ & K). rewrite E, K. split; intro H; inversion H; reflexivity.
  Qed.

  Lemma gen_default_returns h p m xs x : (p < length h)%nat -> let r := load h p in ok r ->
    (forall y, In y (lo :: hi :: x :: xs) -> lo <= y /\ y <= hi) ->
    (forall y r', In y (lo :: hi :: x :: xs) -> ctor r y = Built r' -> model_ok r' = true) ->
    (forall ra rb, ctor r lo = Built ra -> ctor r hi = Built rb -> (price ra - m) * (price rb - m) <= 0) ->
    exists h' q, g_dfl h p f (lo, hi) m xs x = Some (h', q)
      /\ (forall p', (p' < length h)%nat -> load h' p' = load h p') /\ (length h <= q)%nat
      /\ ctor r x = Built (load h' q) /\ model_ok (load h' q) = true.
  Proof.
    intros Hp r Hr Hin Hok Hsign.
    set (Inv := fun rk => ok rk /\ forall y, assign_init rk f y = assign_init r f y).
    destruct (run_default_g_succeeds Rec Field set initialisation price dflt model_ok Inv h p f lo hi m xs x Hp) as (h' & q & E).
    - split; [exact Hr|reflexivity].
    - intros y rk Hy [Ok Eq]. destruct (H_assign rk y Ok (Hin y Hy)) as (r' & E & Ok' & _). exists r'. split; [exact E|]. split.
      + split; [exact Ok'|]. intro z. rewrite (H_absorb rk z y r' E). apply Eq.
      + apply (Hok y r' Hy). apply (assign_is_ctor r y r' Hr (Hin y Hy)). rewrite <- Eq. exact E.
    - intros ra rb Ea Eb. apply Hsign.
      + apply (assign_is_ctor r lo ra Hr); [apply Hin; simpl; auto|exact Ea].
      + apply (assign_is_ctor r hi rb Hr); [apply Hin; simpl; auto|]. rewrite <- (H_absorb r hi lo ra Ea). exact Eb.
    - exists h', q. rewrite gen_run_default_eq. split; [exact E|].
      apply run_default_g_old in E. destruct E as (tl & _ & E & G).
      destruct (run_default_spec Rec Field set initialisation price dflt h p f m tl x h' q Hp E) as (A & B & C).
      repeat split; try assumption.
      apply (assign_is_ctor r x _ Hr); [apply Hin; simpl; auto|exact C].
  Qed.
  (* brentq's own ValueError *)
  Lemma gen_default_sign_error h p m xs x ra rb : let r := load h p in ok r -> ctor r lo = Built ra -> ctor r hi = Built rb ->
    0 < (price ra - m) * (price rb - m) -> g_dfl h p f (lo, hi) m xs x = None.
  Proof.
    intros r Hr Ka Kb Hs. rewrite gen_run_default_eq. apply run_default_g_none.
    apply (calibrate_g_sign_error Rec Field set initialisation price dflt model_ok h p f lo hi m xs ra rb); [| |exact Hs].
    - apply (assign_is_ctor r lo ra Hr); [lra|exact Ka].
    - assert (Ea : assign_init r f lo = Some ra) by (apply (assign_is_ctor r lo ra Hr); [lra|exact Ka]).
      rewrite (H_absorb r hi lo ra Ea). apply (assign_is_ctor r hi rb Hr); [lra|exact Kb].
  Qed.
  (* the exponential model's constructor refuses the parameters built at an end of the interval, or at the returned value *)
  Lemma gen_default_guard_error h p m xs x y ry : (p < length h)%nat -> let r := load h p in ok r ->
    y = lo \/ y = hi \/ (y = x /\ lo <= x /\ x <= hi) -> ctor r y = Built ry -> model_ok ry = false -> g_dfl h p f (lo, hi) m xs x = None.
  Proof.
    intros Hp r Hr Hy K G. rewrite gen_run_default_eq.
    assert (Ea : exists ra, assign_init r f lo = Some ra).
    { destruct (H_assign r lo Hr) as (ra & E & _); [lra|eauto]. }
    destruct Ea as [ra Ea].
    destruct Hy as [-> | [-> | (-> & Hx)]].
    - apply run_default_g_none. apply (assign_is_ctor r lo ry Hr) in K; [|lra].
      apply (calibrate_g_guard_a Rec Field set initialisation price dflt model_ok h p f lo hi m xs ry K G).
    - apply run_default_g_none. apply (assign_is_ctor r hi ry Hr) in K; [|lra].
      apply (calibrate_g_guard_b Rec Field set initialisation price dflt model_ok h p f lo hi m xs ra ry Ea); [|exact G].
      rewrite (H_absorb r hi lo ra Ea). exact K.
    - apply (assign_is_ctor r x ry Hr Hx) in K.
      apply (run_default_g_guard_x Rec Field set initialisation price dflt model_ok h p f lo hi m xs x ry Hp K G).
  Qed.
  Lemma gen_default_refused h p a b m xs x y : (forall r, assign_init r f y = None) -> y = a \/ y = b \/ y = x -> g_dfl h p f (a, b) m xs x = None.
  Proof. intros Hrej Hy. rewrite gen_run_default_eq. apply (run_default_g_rejected Rec Field set initialisation price dflt model_ok h p f a b m xs x y Hrej Hy). Qed.
End GenGeneric.

Lemma generated_program_all : forall (Rec Field : Type) (set : Rec -> Field -> Q -> Rec * bool) (initialisation : Rec -> outcome Rec)
    (price : Rec -> Q) (dflt : Rec) (model_ok : Rec -> bool),
  (forall q f market st x, (q < length st)%nat ->
     gen_calibration_fun Rec Field set initialisation price dflt model_ok q f market st x
     = calibration_fun_g Rec Field set initialisation price dflt model_ok q f market st x)
  /\ (forall h p f ab market xs,
     gen_calibrate_model_parameter Rec Field set initialisation price dflt model_ok h p f ab market xs
     = calibrate_model_parameter_g Rec Field set initialisation price dflt model_ok h p f ab market xs)
  /\ (forall h p f ab market xs x,
     gen_run_default_calibration Rec Field set initialisation price dflt model_ok h p f ab market xs x
     = run_default_calibration_g Rec Field set initialisation price dflt model_ok h p f ab market xs x)
  (* whenever the generated program returns, the model of Params.v (no constructor guard, no sign test) returns the same heap on the
     trial list brentq evaluated: every clause of C20_calibration_spec_partial applies to what is returned *)
  /\ (forall h p f a b market xs h',
     gen_calibrate_model_parameter Rec Field set initialisation price dflt model_ok h p f (a, b) market xs = Some h' ->
     exists tl, (tl = [a; b] \/ tl = a :: b :: xs) /\ calibrate_model_parameter Rec Field set initialisation price dflt false h p f market tl = Some h')
  /\ (forall h p f a b market xs x h' q,
     gen_run_default_calibration Rec Field set initialisation price dflt model_ok h p f (a, b) market xs x = Some (h', q) ->
     exists tl, (tl = [a; b] \/ tl = a :: b :: xs) /\ run_default_calibration Rec Field set initialisation price dflt h p f market tl x = Some (h', q)
                /\ model_ok (load Rec dflt h' q) = true).
Proof.
  intros. repeat apply conj.
  - intros. apply gen_calibration_fun_eq. assumption.
  - apply gen_calibrate_eq.
  - apply gen_run_default_eq.
  - intros h p f a b market xs h'. rewrite gen_calibrate_eq. apply calibrate_g_old.
  - intros h p f a b market xs x h' q. rewrite gen_run_default_eq. apply run_default_g_old.
Qed.

Section ClassesG.
Variable fsqrt : Q -> Q.
Variable fgamma : Q -> Q.
Variable fpow : Q -> Q -> Q.
Definition hem_ctor_with (r : HemRec) (y : Q) := hem_construct y (h_p r) (h_eta1 r) (h_eta2 r) (h_intensity r).
Definition merton_ctor_with (r : MertonRec) (y : Q) := merton_construct (m_sigma r) y (m_sigma_j r) (m_intensity r).
Definition vg_ctor_with (r : VgRec) (y : Q) := vg_construct fsqrt y (v_nu r) (v_theta r).
Definition cgmy_ctor_with (r : CgmyRec) (y : Q) := cgmy_construct fgamma fpow y (c_g r) (c_m r) (c_y r).
Lemma hem_entry : (forall r y, hem_ok r -> dc_hem_lo <= y /\ y <= dc_hem_hi ->
    exists r', assign_init HemRec HemField hem_set hem_initialisation_checked r dc_hem_field y = Some r' /\ hem_ok r' /\ hem_ctor_with r y = Built r')
  /\ dc_hem_lo <= dc_hem_hi.
Proof. split; [intros; apply hem_default_assignable; assumption|]. vm_compute. discriminate. Qed.
Lemma merton_entry : (forall r y, merton_ok r -> dc_merton_lo <= y /\ y <= dc_merton_hi ->
    exists r', assign_init MertonRec MertonField merton_set merton_initialisation_checked r dc_merton_field y = Some r' /\ merton_ok r' /\ merton_ctor_with r y = Built r')
  /\ dc_merton_lo <= dc_merton_hi.
Proof. split; [intros; apply merton_default_assignable; assumption|]. vm_compute. discriminate. Qed.
Lemma vg_entry : (forall r y, vg_ok r -> dc_vg_lo <= y /\ y <= dc_vg_hi ->
    exists r', assign_init VgRec VgField vg_set (vg_initialisation_checked fsqrt) r dc_vg_field y = Some r' /\ vg_ok r' /\ vg_ctor_with r y = Built r')
  /\ dc_vg_lo <= dc_vg_hi.
Proof. split; [intros; apply vg_default_assignable; assumption|]. vm_compute. discriminate. Qed.
Lemma cgmy_entry : (forall r y, cgmy_ok r -> dc_cgmy_lo <= y /\ y <= dc_cgmy_hi ->
    exists r', assign_init CgmyRec CgmyField cgmy_set (cgmy_initialisation_checked fgamma fpow) r dc_cgmy_field y = Some r' /\ cgmy_ok r' /\ cgmy_ctor_with r y = Built r')
  /\ dc_cgmy_lo <= dc_cgmy_hi.
Proof. split; [intros; apply cgmy_default_assignable; assumption|]. vm_compute. discriminate. Qed.
End ClassesG.

(* NOTHING RAISES => RETURNS, class by class on the GENERATED table and the GENERATED program.  The hypotheses are, one by one, the
   absence of each raise the program can produce: setter ValueError / ZeroDivisionError of the re-initialisation (values in the table's
   interval on a constructed object), ValueError of the exponential model's constructor (model_ok on the parameters built with each
   evaluated value), brentq's ValueError (the two end values do not have the same strict sign). *)
Lemma default_calibration_returns_all : forall (fsqrt fgamma : Q -> Q) (fpow : Q -> Q -> Q),
  (forall price model_ok dflt h p market xs x, (p < length h)%nat ->
     let r := load HemRec dflt h p in hem_valid r = true /\ hem_defined r = true ->
     (forall y, In y (x :: xs) -> dc_hem_lo <= y /\ y <= dc_hem_hi) ->
     (forall y r', In y (dc_hem_lo :: dc_hem_hi :: x :: xs) -> hem_construct y (h_p r) (h_eta1 r) (h_eta2 r) (h_intensity r) = Built r' -> model_ok r' = true) ->
     (forall ra rb, hem_construct dc_hem_lo (h_p r) (h_eta1 r) (h_eta2 r) (h_intensity r) = Built ra -> hem_construct dc_hem_hi (h_p r) (h_eta1 r) (h_eta2 r) (h_intensity r) = Built rb -> (price ra - market) * (price rb - market) <= 0) ->
     exists h' q, gen_run_default_calibration HemRec HemField hem_set hem_initialisation_checked price dflt model_ok h p dc_hem_field (dc_hem_lo, dc_hem_hi) market xs x = Some (h', q)
       /\ (forall p', (p' < length h)%nat -> load HemRec dflt h' p' = load HemRec dflt h p') /\ (length h <= q)%nat
       /\ hem_construct x (h_p r) (h_eta1 r) (h_eta2 r) (h_intensity r) = Built (load HemRec dflt h' q) /\ model_ok (load HemRec dflt h' q) = true)
  /\ (forall price model_ok dflt h p market xs x, (p < length h)%nat ->
     let r := load MertonRec dflt h p in merton_valid r = true ->
     (forall y, In y (x :: xs) -> dc_merton_lo <= y /\ y <= dc_merton_hi) ->
     (forall y r', In y (dc_merton_lo :: dc_merton_hi :: x :: xs) -> merton_construct (m_sigma r) y (m_sigma_j r) (m_intensity r) = Built r' -> model_ok r' = true) ->
     (forall ra rb, merton_construct (m_sigma r) dc_merton_lo (m_sigma_j r) (m_intensity r) = Built ra -> merton_construct (m_sigma r) dc_merton_hi (m_sigma_j r) (m_intensity r) = Built rb -> (price ra - market) * (price rb - market) <= 0) ->
     exists h' q, gen_run_default_calibration MertonRec MertonField merton_set merton_initialisation_checked price dflt model_ok h p dc_merton_field (dc_merton_lo, dc_merton_hi) market xs x = Some (h', q)
       /\ (forall p', (p' < length h)%nat -> load MertonRec dflt h' p' = load MertonRec dflt h p') /\ (length h <= q)%nat
       /\ merton_construct (m_sigma r) x (m_sigma_j r) (m_intensity r) = Built (load MertonRec dflt h' q) /\ model_ok (load MertonRec dflt h' q) = true)
  /\ (forall price model_ok dflt h p market xs x, (p < length h)%nat ->
     let r := load VgRec dflt h p in vg_valid r = true /\ vg_defined r = true ->
     (forall y, In y (x :: xs) -> dc_vg_lo <= y /\ y <= dc_vg_hi) ->
     (forall y r', In y (dc_vg_lo :: dc_vg_hi :: x :: xs) -> vg_construct fsqrt y (v_nu r) (v_theta r) = Built r' -> model_ok r' = true) ->
     (forall ra rb, vg_construct fsqrt dc_vg_lo (v_nu r) (v_theta r) = Built ra -> vg_construct fsqrt dc_vg_hi (v_nu r) (v_theta r) = Built rb -> (price ra - market) * (price rb - market) <= 0) ->
     exists h' q, gen_run_default_calibration VgRec VgField vg_set (vg_initialisation_checked fsqrt) price dflt model_ok h p dc_vg_field (dc_vg_lo, dc_vg_hi) market xs x = Some (h', q)
       /\ (forall p', (p' < length h)%nat -> load VgRec dflt h' p' = load VgRec dflt h p') /\ (length h <= q)%nat
       /\ vg_construct fsqrt x (v_nu r) (v_theta r) = Built (load VgRec dflt h' q) /\ model_ok (load VgRec dflt h' q) = true)
  /\ (forall price model_ok dflt h p market xs x, (p < length h)%nat ->
     let r := load CgmyRec dflt h p in cgmy_valid r = true ->
     (forall y, In y (x :: xs) -> dc_cgmy_lo <= y /\ y <= dc_cgmy_hi) ->
     (forall y r', In y (dc_cgmy_lo :: dc_cgmy_hi :: x :: xs) -> cgmy_construct fgamma fpow y (c_g r) (c_m r) (c_y r) = Built r' -> model_ok r' = true) ->
     (forall ra rb, cgmy_construct fgamma fpow dc_cgmy_lo (c_g r) (c_m r) (c_y r) = Built ra -> cgmy_construct fgamma fpow dc_cgmy_hi (c_g r) (c_m r) (c_y r) = Built rb -> (price ra - market) * (price rb - market) <= 0) ->
     exists h' q, gen_run_default_calibration CgmyRec CgmyField cgmy_set (cgmy_initialisation_checked fgamma fpow) price dflt model_ok h p dc_cgmy_field (dc_cgmy_lo, dc_cgmy_hi) market xs x = Some (h', q)
       /\ (forall p', (p' < length h)%nat -> load CgmyRec dflt h' p' = load CgmyRec dflt h p') /\ (length h <= q)%nat
       /\ cgmy_construct fgamma fpow x (c_g r) (c_m r) (c_y r) = Built (load CgmyRec dflt h' q) /\ model_ok (load CgmyRec dflt h' q) = true).
Proof.
  intros. repeat apply conj; intros price model_ok dflt h p market xs x Hp r HI Hin Hok Hsign.
  - apply (gen_default_returns HemRec HemField hem_set hem_initialisation_checked price dflt model_ok hem_ok dc_hem_field dc_hem_lo dc_hem_hi (hem_ctor_with) (proj1 (hem_entry)) (fun r x y r1 => hem_assign_absorbs r dc_hem_field x y r1) h p market xs x Hp HI); [|exact Hok|exact Hsign].
    pose proof (proj2 (hem_entry)) as L. intros y [<-|[<-|Hy]]; [lra|lra|apply Hin, Hy].
  - apply (gen_default_returns MertonRec MertonField merton_set merton_initialisation_checked price dflt model_ok merton_ok dc_merton_field dc_merton_lo dc_merton_hi (merton_ctor_with) (proj1 (merton_entry)) (fun r x y r1 => merton_assign_absorbs r dc_merton_field x y r1) h p market xs x Hp HI); [|exact Hok|exact Hsign].
    pose proof (proj2 (merton_entry)) as L. intros y [<-|[<-|Hy]]; [lra|lra|apply Hin, Hy].
  - apply (gen_default_returns VgRec VgField vg_set (vg_initialisation_checked fsqrt) price dflt model_ok vg_ok dc_vg_field dc_vg_lo dc_vg_hi (vg_ctor_with fsqrt) (proj1 (vg_entry fsqrt)) (fun r x y r1 => vg_assign_absorbs fsqrt r dc_vg_field x y r1) h p market xs x Hp HI); [|exact Hok|exact Hsign].
    pose proof (proj2 (vg_entry fsqrt)) as L. intros y [<-|[<-|Hy]]; [lra|lra|apply Hin, Hy].
  - apply (gen_default_returns CgmyRec CgmyField cgmy_set (cgmy_initialisation_checked fgamma fpow) price dflt model_ok cgmy_ok dc_cgmy_field dc_cgmy_lo dc_cgmy_hi (cgmy_ctor_with fgamma fpow) (proj1 (cgmy_entry fgamma fpow)) (fun r x y r1 => cgmy_assign_absorbs fgamma fpow r dc_cgmy_field x y r1) h p market xs x Hp HI); [|exact Hok|exact Hsign].
    pose proof (proj2 (cgmy_entry fgamma fpow)) as L. intros y [<-|[<-|Hy]]; [lra|lra|apply Hin, Hy].
Qed.

(* MUST RAISE, class by class: (1) brentq's own ValueError -- the objective has the same strict sign at both ends of the table's interval
   (e.g. the default HEM model with bs_sigma = 0.10: its jump volatility alone exceeds the target); (2) the exponential model's constructor
   refuses the parameters built at an end of the interval or at the returned value (e.g. VG(nu = 1.5, theta = 0.3) at sigma = 1.0);
   (3) a value below the field's domain at an end of ANY interval or as the returned value (setter ValueError; VG sigma = 0: division by zero). *)
Lemma default_calibration_must_raise_all : forall (fsqrt fgamma : Q -> Q) (fpow : Q -> Q -> Q),
  ((forall price model_ok dflt h p market xs x ra rb,
     let r := load HemRec dflt h p in hem_valid r = true /\ hem_defined r = true ->
     hem_construct dc_hem_lo (h_p r) (h_eta1 r) (h_eta2 r) (h_intensity r) = Built ra -> hem_construct dc_hem_hi (h_p r) (h_eta1 r) (h_eta2 r) (h_intensity r) = Built rb -> 0 < (price ra - market) * (price rb - market) ->
     gen_run_default_calibration HemRec HemField hem_set hem_initialisation_checked price dflt model_ok h p dc_hem_field (dc_hem_lo, dc_hem_hi) market xs x = None)
  /\ (forall price model_ok dflt h p market xs x ra rb,
     let r := load MertonRec dflt h p in merton_valid r = true ->
     merton_construct (m_sigma r) dc_merton_lo (m_sigma_j r) (m_intensity r) = Built ra -> merton_construct (m_sigma r) dc_merton_hi (m_sigma_j r) (m_intensity r) = Built rb -> 0 < (price ra - market) * (price rb - market) ->
     gen_run_default_calibration MertonRec MertonField merton_set merton_initialisation_checked price dflt model_ok h p dc_merton_field (dc_merton_lo, dc_merton_hi) market xs x = None)
  /\ (forall price model_ok dflt h p market xs x ra rb,
     let r := load VgRec dflt h p in vg_valid r = true /\ vg_defined r = true ->
     vg_construct fsqrt dc_vg_lo (v_nu r) (v_theta r) = Built ra -> vg_construct fsqrt dc_vg_hi (v_nu r) (v_theta r) = Built rb -> 0 < (price ra - market) * (price rb - market) ->
     gen_run_default_calibration VgRec VgField vg_set (vg_initialisation_checked fsqrt) price dflt model_ok h p dc_vg_field (dc_vg_lo, dc_vg_hi) market xs x = None)
  /\ (forall price model_ok dflt h p market xs x ra rb,
     let r := load CgmyRec dflt h p in cgmy_valid r = true ->
     cgmy_construct fgamma fpow dc_cgmy_lo (c_g r) (c_m r) (c_y r) = Built ra -> cgmy_construct fgamma fpow dc_cgmy_hi (c_g r) (c_m r) (c_y r) = Built rb -> 0 < (price ra - market) * (price rb - market) ->
     gen_run_default_calibration CgmyRec CgmyField cgmy_set (cgmy_initialisation_checked fgamma fpow) price dflt model_ok h p dc_cgmy_field (dc_cgmy_lo, dc_cgmy_hi) market xs x = None))
  /\ ((forall price model_ok dflt h p market xs x y ry, (p < length h)%nat ->
     let r := load HemRec dflt h p in hem_valid r = true /\ hem_defined r = true ->
     y = dc_hem_lo \/ y = dc_hem_hi \/ (y = x /\ dc_hem_lo <= x /\ x <= dc_hem_hi) -> hem_construct y (h_p r) (h_eta1 r) (h_eta2 r) (h_intensity r) = Built ry -> model_ok ry = false ->
     gen_run_default_calibration HemRec HemField hem_set hem_initialisation_checked price dflt model_ok h p dc_hem_field (dc_hem_lo, dc_hem_hi) market xs x = None)
  /\ (forall price model_ok dflt h p market xs x y ry, (p < length h)%nat ->
     let r := load MertonRec dflt h p in merton_valid r = true ->
     y = dc_merton_lo \/ y = dc_merton_hi \/ (y = x /\ dc_merton_lo <= x /\ x <= dc_merton_hi) -> merton_construct (m_sigma r) y (m_sigma_j r) (m_intensity r) = Built ry -> model_ok ry = false ->
     gen_run_default_calibration MertonRec MertonField merton_set merton_initialisation_checked price dflt model_ok h p dc_merton_field (dc_merton_lo, dc_merton_hi) market xs x = None)
  /\ (forall price model_ok dflt h p market xs x y ry, (p < length h)%nat ->
     let r := load VgRec dflt h p in vg_valid r = true /\ vg_defined r = true ->
     y = dc_vg_lo \/ y = dc_vg_hi \/ (y = x /\ dc_vg_lo <= x /\ x <= dc_vg_hi) -> vg_construct fsqrt y (v_nu r) (v_theta r) = Built ry -> model_ok ry = false ->
     gen_run_default_calibration VgRec VgField vg_set (vg_initialisation_checked fsqrt) price dflt model_ok h p dc_vg_field (dc_vg_lo, dc_vg_hi) market xs x = None)
  /\ (forall price model_ok dflt h p market xs x y ry, (p < length h)%nat ->
     let r := load CgmyRec dflt h p in cgmy_valid r = true ->
     y = dc_cgmy_lo \/ y = dc_cgmy_hi \/ (y = x /\ dc_cgmy_lo <= x /\ x <= dc_cgmy_hi) -> cgmy_construct fgamma fpow y (c_g r) (c_m r) (c_y r) = Built ry -> model_ok ry = false ->
     gen_run_default_calibration CgmyRec CgmyField cgmy_set (cgmy_initialisation_checked fgamma fpow) price dflt model_ok h p dc_cgmy_field (dc_cgmy_lo, dc_cgmy_hi) market xs x = None))
  /\ ((forall price model_ok dflt h p a b market xs x y, y < 0 -> y = a \/ y = b \/ y = x ->
     gen_run_default_calibration HemRec HemField hem_set hem_initialisation_checked price dflt model_ok h p dc_hem_field (a, b) market xs x = None)
  /\ (forall price model_ok dflt h p a b market xs x y, y < 0 -> y = a \/ y = b \/ y = x ->
     gen_run_default_calibration MertonRec MertonField merton_set merton_initialisation_checked price dflt model_ok h p dc_merton_field (a, b) market xs x = None)
  /\ (forall price model_ok dflt h p a b market xs x y, y <= 0 -> y = a \/ y = b \/ y = x ->
     gen_run_default_calibration VgRec VgField vg_set (vg_initialisation_checked fsqrt) price dflt model_ok h p dc_vg_field (a, b) market xs x = None)
  /\ (forall price model_ok dflt h p a b market xs x y, y <= 0 -> y = a \/ y = b \/ y = x ->
     gen_run_default_calibration CgmyRec CgmyField cgmy_set (cgmy_initialisation_checked fgamma fpow) price dflt model_ok h p dc_cgmy_field (a, b) market xs x = None)).
Proof.
  intros. split; [|split].
  - repeat apply conj; intros price model_ok dflt h p market xs x ra rb r HI Ka Kb Hs.
    + exact (gen_default_sign_error HemRec HemField hem_set hem_initialisation_checked price dflt model_ok hem_ok dc_hem_field dc_hem_lo dc_hem_hi (hem_ctor_with) (proj1 (hem_entry)) (fun r x y r1 => hem_assign_absorbs r dc_hem_field x y r1) (proj2 (hem_entry)) h p market xs x ra rb HI Ka Kb Hs).
    + exact (gen_default_sign_error MertonRec MertonField merton_set merton_initialisation_checked price dflt model_ok merton_ok dc_merton_field dc_merton_lo dc_merton_hi (merton_ctor_with) (proj1 (merton_entry)) (fun r x y r1 => merton_assign_absorbs r dc_merton_field x y r1) (proj2 (merton_entry)) h p market xs x ra rb HI Ka Kb Hs).
    + exact (gen_default_sign_error VgRec VgField vg_set (vg_initialisation_checked fsqrt) price dflt model_ok vg_ok dc_vg_field dc_vg_lo dc_vg_hi (vg_ctor_with fsqrt) (proj1 (vg_entry fsqrt)) (fun r x y r1 => vg_assign_absorbs fsqrt r dc_vg_field x y r1) (proj2 (vg_entry fsqrt)) h p market xs x ra rb HI Ka Kb Hs).
    + exact (gen_default_sign_error CgmyRec CgmyField cgmy_set (cgmy_initialisation_checked fgamma fpow) price dflt model_ok cgmy_ok dc_cgmy_field dc_cgmy_lo dc_cgmy_hi (cgmy_ctor_with fgamma fpow) (proj1 (cgmy_entry fgamma fpow)) (fun r x y r1 => cgmy_assign_absorbs fgamma fpow r dc_cgmy_field x y r1) (proj2 (cgmy_entry fgamma fpow)) h p market xs x ra rb HI Ka Kb Hs).
  - repeat apply conj; intros price model_ok dflt h p market xs x y ry Hp r HI Hy K G.
    + exact (gen_default_guard_error HemRec HemField hem_set hem_initialisation_checked price dflt model_ok hem_ok dc_hem_field dc_hem_lo dc_hem_hi (hem_ctor_with) (proj1 (hem_entry)) (fun r x y r1 => hem_assign_absorbs r dc_hem_field x y r1) (proj2 (hem_entry)) h p market xs x y ry Hp HI Hy K G).
    + exact (gen_default_guard_error MertonRec MertonField merton_set merton_initialisation_checked price dflt model_ok merton_ok dc_merton_field dc_merton_lo dc_merton_hi (merton_ctor_with) (proj1 (merton_entry)) (fun r x y r1 => merton_assign_absorbs r dc_merton_field x y r1) (proj2 (merton_entry)) h p market xs x y ry Hp HI Hy K G).
    + exact (gen_default_guard_error VgRec VgField vg_set (vg_initialisation_checked fsqrt) price dflt model_ok vg_ok dc_vg_field dc_vg_lo dc_vg_hi (vg_ctor_with fsqrt) (proj1 (vg_entry fsqrt)) (fun r x y r1 => vg_assign_absorbs fsqrt r dc_vg_field x y r1) (proj2 (vg_entry fsqrt)) h p market xs x y ry Hp HI Hy K G).
    + exact (gen_default_guard_error CgmyRec CgmyField cgmy_set (cgmy_initialisation_checked fgamma fpow) price dflt model_ok cgmy_ok dc_cgmy_field dc_cgmy_lo dc_cgmy_hi (cgmy_ctor_with fgamma fpow) (proj1 (cgmy_entry fgamma fpow)) (fun r x y r1 => cgmy_assign_absorbs fgamma fpow r dc_cgmy_field x y r1) (proj2 (cgmy_entry fgamma fpow)) h p market xs x y ry Hp HI Hy K G).
  - repeat apply conj; intros price model_ok dflt h p a b market xs x y Hy Hin; eapply gen_default_refused; try exact Hin; intro r.
    + rewrite hem_assign_spec. destruct (hem_guard dc_hem_field y) eqn:G; [|reflexivity].
      apply (proj1 (hem_guard_spec y)) in G. lra.
    + rewrite merton_assign_spec. destruct (merton_guard dc_merton_field y) eqn:G; [|reflexivity].
      apply (proj1 (proj2 (merton_guard_spec y))) in G. lra.
    + rewrite vg_assign_spec. destruct (vg_guard dc_vg_field y) eqn:G; [|reflexivity].
      apply (proj1 (vg_guard_spec y)) in G. assert (E : y == 0) by lra.
      destruct (vg_defined (vg_write dc_vg_field y r)) eqn:D; [|reflexivity].
      apply vg_defined_spec in D. destruct D as [_ D]. exfalso. apply D. exact E.
    + rewrite cgmy_assign_spec. destruct (cgmy_guard dc_cgmy_field y) eqn:G; [|reflexivity].
      apply (proj1 (cgmy_guard_spec y)) in G. lra.
Qed.

(* non-vacuity: the generated program run on concrete heaps.  price := sigma (so the objective is sigma - market), HEM object after a history.
   market 1/2: end values -1/2 and 1/2, sign change, trial 1/2, returned 1/4: a new object with sigma = 1/4, input kept, working copy at 1/2;
   market 2: end values -2 and -1: brentq's ValueError; a constructor refusing sigma > 1/2: raises at the upper end; market 0: the lower end
   is a zero, brentq returns without evaluating further trial values (a refused one in xs is never assigned); an interval starting below
   the domain raises; VG: an interval starting at sigma = 0 divides by zero, the table's interval does not *)
Lemma nonvacuous_c20_calib :
  match hem_construct (1#20) (3#5) 20 25 3 with
  | Built r0 =>
      let r := hem_run [(HEta1, 10); (HP, -1); (HP, 1#2)] r0 in
      let run := gen_run_default_calibration HemRec HemField hem_set hem_initialisation_checked h_sigma r0 in
      hem_valid r = true /\ hem_defined r = true
      /\ (match run (fun _ => true) [r] 0%nat dc_hem_field (dc_hem_lo, dc_hem_hi) (1#2) [1#2] (1#4) with
          | Some (h', q) => Nat.eqb q 2 && Qeq_bool (h_sigma (load HemRec r0 h' 0)) (1#20) && Qeq_bool (h_sigma (load HemRec r0 h' 1)) (1#2)
                            && Qeq_bool (h_sigma (load HemRec r0 h' q)) (1#4) && Qeq_bool (h_eta1 (load HemRec r0 h' q)) 10
          | None => false end = true)
      /\ run (fun _ => true) [r] 0%nat dc_hem_field (dc_hem_lo, dc_hem_hi) 2 [1#2] (1#4) = None
      /\ run (fun r' => Qle_bool (h_sigma r') (1#2)) [r] 0%nat dc_hem_field (dc_hem_lo, dc_hem_hi) (1#2) [1#2] (1#4) = None
      /\ (match run (fun _ => true) [r] 0%nat dc_hem_field (dc_hem_lo, dc_hem_hi) 0 [-(1#4)] 0 with
          | Some (h', q) => Nat.eqb q 2 && Qeq_bool (h_sigma (load HemRec r0 h' 1)) 1 && Qeq_bool (h_sigma (load HemRec r0 h' q)) 0
          | None => false end = true)
      /\ run (fun _ => true) [r] 0%nat dc_hem_field (dc_hem_lo, dc_hem_hi) (1#2) [-(1#4)] (1#4) = None
      /\ run (fun _ => true) [r] 0%nat dc_hem_field (-(1#4), dc_hem_hi) (1#2) [] (1#4) = None
  | _ => False
  end
  /\ match vg_construct (fun x => x) (1#10) (1#16) (1#10) with
     | Built v0 => vg_valid v0 = true /\ vg_defined v0 = true
         /\ gen_run_default_calibration VgRec VgField vg_set (vg_initialisation_checked (fun x => x)) v_sigma v0 (fun _ => true) [v0] 0%nat dc_vg_field (0, 1) (1#2) [] (1#4) = None
         /\ (match gen_run_default_calibration VgRec VgField vg_set (vg_initialisation_checked (fun x => x)) v_sigma v0 (fun _ => true) [v0] 0%nat dc_vg_field (dc_vg_lo, dc_vg_hi) (1#2) [1#2] (1#4) with
             | Some (h', q) => Qeq_bool (v_sigma (load VgRec v0 h' q)) (1#4) | None => false end = true)
     | _ => False
     end.
Proof. vm_compute. repeat split. Qed.

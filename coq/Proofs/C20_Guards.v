(* C20, wave 8b (audit 5b, top-10 #10): the constructor test `model_ok` of the generated heap program (Gen/GenC20Calib.v) INSTANTIATED with
   the guards of the exponential models' constructors as they are written in /repo.
   Gen/GenC20Params.v now holds hem_exp_raises_q / cgmy_exp_raises_q, regenerated on every run from the `if <test>: raise ValueError` line of
   ExponentialOfHEMModel.__init__ (hem.py) / ExponentialOfCGMYModel.__init__ (cgmy.py) -- the same lines GenC18Cos.hem_exp_raises /
   cgmy_exp_raises come from (there over R, here over Q).  The constructor of the class then calls ExponentialOfLevyModel.__init__, whose own
   guard tests the complex float levy_exponent(-1j) (finite, imaginary part below 1e-12 relative): that value is outside the rational record
   model, so it stays a class component `generic : Rec -> bool` (any interpretation; the correspondence feeds the implementation's verdict,
   obtained WITHOUT the class guard).  model_ok := not (class guard raises) AND generic.
   Proved: what the instantiated test is (in terms of eta1 / m, y: an edit of the source line -- e.g. `<= 1` into `< 1` -- changes the
   generated definition and breaks these proofs); that the calibration helpers MUST RAISE on a HEM object with eta1 <= 1 / a CGMY object with
   m < 1 or (m = 1 and y <= 0) whatever the prices, the market, the generic test and the root finder's trial values, and on ANY interval for
   eta1 whose lower end is <= 1; and the "nothing raises => returns" statements with the class guard DISCHARGED (1 < eta1, resp. 1 < m or
   m = 1 and 0 < y, on the input object) so that the remaining constructor hypothesis is about `generic` only. *)
From Coq Require Import ZArith QArith Qabs Bool List Lia Lqa.
From RV Require Import Base.QB Gen.GenC20Params Model.Params Model.ParamsHeap Gen.GenC20Calib Proofs.C20_Params Proofs.C20_Calib.
Import ListNotations.
Open Scope Q_scope.

Definition hem_model_ok (generic : HemRec -> bool) (r : HemRec) : bool := negb (hem_exp_raises_q (h_eta1 r)) && generic r.
Definition cgmy_model_ok (generic : CgmyRec -> bool) (r : CgmyRec) : bool := negb (cgmy_exp_raises_q (c_m r) (c_y r)) && generic r.

Lemma hem_exp_raises_q_spec eta1 : hem_exp_raises_q eta1 = false <-> 1 < eta1.
Proof.
  unfold hem_exp_raises_q. split; intro H.
  - destruct (Qlt_le_dec 1 eta1) as [L|L]; [exact L|]. apply Qle_bool_iff in L. rewrite L in H. discriminate.
  - destruct (Qle_bool eta1 1) eqn:E; [|reflexivity]. apply Qle_bool_iff in E. exfalso. lra.
Qed.
Lemma cgmy_exp_raises_q_spec m y : cgmy_exp_raises_q m y = false <-> 1 < m \/ (m == 1 /\ 0 < y).
Proof.
  unfold cgmy_exp_raises_q. rewrite orb_false_iff, andb_false_iff, Qltb_false. split.
  - intros [Hm [E|L]].
    + left. destruct (Qeq_dec m 1) as [Q|Q]; [apply Qeq_bool_iff in Q; rewrite Q in E; discriminate|].
      destruct (Qlt_le_dec 1 m) as [G|G]; [exact G|]. exfalso. apply Q. lra.
    + destruct (Qlt_le_dec 1 m) as [G|G]; [left; exact G|]. right. split; [lra|].
      destruct (Qlt_le_dec 0 y) as [Y|Y]; [exact Y|]. apply Qle_bool_iff in Y. rewrite Y in L. discriminate.
  - intros [G|[E Y]].
    + split; [lra|]. left. destruct (Qeq_bool m 1) eqn:Q; [|reflexivity]. apply Qeq_bool_iff in Q. exfalso. lra.
    + split; [lra|]. right. destruct (Qle_bool y 0) eqn:L; [|reflexivity]. apply Qle_bool_iff in L. exfalso. lra.
Qed.
Lemma hem_model_ok_spec generic r : hem_model_ok generic r = true <-> 1 < h_eta1 r /\ generic r = true.
Proof. unfold hem_model_ok. rewrite andb_true_iff, negb_true_iff, hem_exp_raises_q_spec. tauto. Qed.
Lemma cgmy_model_ok_spec generic r : cgmy_model_ok generic r = true <-> (1 < c_m r \/ (c_m r == 1 /\ 0 < c_y r)) /\ generic r = true.
Proof. unfold cgmy_model_ok. rewrite andb_true_iff, negb_true_iff, cgmy_exp_raises_q_spec. tauto. Qed.

(* the parameter constructors keep the guarded fields *)
Lemma hem_construct_eta1 s p e1 e2 i r' : hem_construct s p e1 e2 i = Built r' -> h_eta1 r' = e1.
Proof. unfold hem_construct. destruct (hem_valid _); [destruct (hem_defined _)|]; intro H; inversion H; reflexivity. Qed.

Section WithFloats.
Variable fsqrt : Q -> Q.
Variable fgamma : Q -> Q.
Variable fpow : Q -> Q -> Q.

Lemma cgmy_construct_my c g m y r' : cgmy_construct fgamma fpow c g m y = Built r' -> c_m r' = m /\ c_y r' = y.
Proof. unfold cgmy_construct. destruct (cgmy_valid _); [destruct (cgmy_defined _)|]; intro H; inversion H; split; reflexivity. Qed.

(* ---- MUST RAISE by the class guard, default calibration (the table's field is sigma, resp. c: the guarded fields are the input's) *)
Lemma hem_default_raises_eta1 price generic dflt h p market xs x : (p < length h)%nat ->
  let r := load HemRec dflt h p in hem_valid r = true /\ hem_defined r = true -> h_eta1 r <= 1 ->
  gen_run_default_calibration HemRec HemField hem_set hem_initialisation_checked price dflt (hem_model_ok generic) h p dc_hem_field (dc_hem_lo, dc_hem_hi) market xs x = None.
Proof.
  intros Hp r HI He.
  destruct (hem_default_assignable r dc_hem_lo HI) as (ry & _ & _ & K).
  { pose proof (proj2 hem_entry). lra. }
  apply (proj1 (proj1 (proj2 (default_calibration_must_raise_all fsqrt fgamma fpow))) price (hem_model_ok generic) dflt h p market xs x dc_hem_lo ry Hp HI (or_introl eq_refl) K).
  destruct (hem_model_ok generic ry) eqn:G; [|reflexivity]. apply hem_model_ok_spec in G. destruct G as [G _].
  rewrite (hem_construct_eta1 _ _ _ _ _ _ K) in G. exfalso. fold r in G. lra.
Qed.
Lemma cgmy_default_raises_my price generic dflt h p market xs x : (p < length h)%nat ->
  let r := load CgmyRec dflt h p in cgmy_valid r = true -> c_m r < 1 \/ (c_m r == 1 /\ c_y r <= 0) ->
  gen_run_default_calibration CgmyRec CgmyField cgmy_set (cgmy_initialisation_checked fgamma fpow) price dflt (cgmy_model_ok generic) h p dc_cgmy_field (dc_cgmy_lo, dc_cgmy_hi) market xs x = None.
Proof.
  intros Hp r HI He.
  destruct (cgmy_default_assignable fgamma fpow r dc_cgmy_lo HI) as (ry & _ & _ & K).
  { pose proof (proj2 (cgmy_entry fgamma fpow)). lra. }
  apply (proj2 (proj2 (proj2 (proj1 (proj2 (default_calibration_must_raise_all fsqrt fgamma fpow))))) price (cgmy_model_ok generic) dflt h p market xs x dc_cgmy_lo ry Hp HI (or_introl eq_refl) K).
  destruct (cgmy_model_ok generic ry) eqn:G; [|reflexivity]. apply cgmy_model_ok_spec in G. destruct G as [G _].
  destruct (cgmy_construct_my _ _ _ _ _ K) as [Em Ey]. rewrite Em, Ey in G. fold r in G. exfalso.
  destruct G as [G|[G1 G2]]; destruct He as [H|[H1 H2]]; lra.
Qed.

(* ---- MUST RAISE, calibrate_model_parameter on eta1 over ANY interval whose lower end is <= 1, on ANY object: a <= 0 is refused by the setter
   (ValueError), a = 1 divides by zero in the re-initialisation (ZeroDivisionError, NOT re-wrapped by utils.py), 0 < a < 1 is refused by
   the class guard of ExponentialOfHEMModel (ValueError): brentq evaluates f(a) first *)
Lemma hem_calibrate_eta1_low_end price generic dflt h p a b market xs : a <= 1 ->
  gen_calibrate_model_parameter HemRec HemField hem_set hem_initialisation_checked price dflt (hem_model_ok generic) h p HEta1 (a, b) market xs = None.
Proof.
  intro Ha. rewrite gen_calibrate_eq, calibrate_g_first, hem_assign_spec.
  destruct (hem_guard HEta1 a && hem_defined (hem_write HEta1 a (load HemRec dflt h p))); [|reflexivity].
  replace (hem_model_ok generic (hem_initialisation (hem_write HEta1 a (load HemRec dflt h p)))) with false; [reflexivity|].
  symmetry. unfold hem_model_ok. simpl h_eta1.
  destruct (hem_exp_raises_q a) eqn:E; [reflexivity|]. apply hem_exp_raises_q_spec in E. exfalso. lra.
Qed.

(* ---- NOTHING RAISES => RETURNS with the class guard discharged: the constructor hypothesis that remains is about `generic` only *)
Lemma hem_default_returns_real_guard price generic dflt h p market xs x : (p < length h)%nat ->
  let r := load HemRec dflt h p in hem_valid r = true /\ hem_defined r = true -> 1 < h_eta1 r ->
  (forall y, In y (x :: xs) -> dc_hem_lo <= y /\ y <= dc_hem_hi) ->
  (forall y r', In y (dc_hem_lo :: dc_hem_hi :: x :: xs) -> hem_construct y (h_p r) (h_eta1 r) (h_eta2 r) (h_intensity r) = Built r' -> generic r' = true) ->
  (forall ra rb, hem_construct dc_hem_lo (h_p r) (h_eta1 r) (h_eta2 r) (h_intensity r) = Built ra -> hem_construct dc_hem_hi (h_p r) (h_eta1 r) (h_eta2 r) (h_intensity r) = Built rb -> (price ra - market) * (price rb - market) <= 0) ->
  exists h' q, gen_run_default_calibration HemRec HemField hem_set hem_initialisation_checked price dflt (hem_model_ok generic) h p dc_hem_field (dc_hem_lo, dc_hem_hi) market xs x = Some (h', q)
    /\ (forall p', (p' < length h)%nat -> load HemRec dflt h' p' = load HemRec dflt h p') /\ (length h <= q)%nat
    /\ hem_construct x (h_p r) (h_eta1 r) (h_eta2 r) (h_intensity r) = Built (load HemRec dflt h' q)
    /\ 1 < h_eta1 (load HemRec dflt h' q) /\ generic (load HemRec dflt h' q) = true.
Proof.
  intros Hp r HI He Hin Hgen Hsign.
  destruct (proj1 (default_calibration_returns_all fsqrt fgamma fpow) price (hem_model_ok generic) dflt h p market xs x Hp HI Hin) as (h' & q & E & A & B & C & D).
  - intros y r' Hy K. apply hem_model_ok_spec. split; [rewrite (hem_construct_eta1 _ _ _ _ _ _ K); exact He|exact (Hgen y r' Hy K)].
  - exact Hsign.
  - exists h', q. apply hem_model_ok_spec in D. repeat split; try assumption; apply D.
Qed.
Lemma cgmy_default_returns_real_guard price generic dflt h p market xs x : (p < length h)%nat ->
  let r := load CgmyRec dflt h p in cgmy_valid r = true -> 1 < c_m r \/ (c_m r == 1 /\ 0 < c_y r) ->
  (forall y, In y (x :: xs) -> dc_cgmy_lo <= y /\ y <= dc_cgmy_hi) ->
  (forall y r', In y (dc_cgmy_lo :: dc_cgmy_hi :: x :: xs) -> cgmy_construct fgamma fpow y (c_g r) (c_m r) (c_y r) = Built r' -> generic r' = true) ->
  (forall ra rb, cgmy_construct fgamma fpow dc_cgmy_lo (c_g r) (c_m r) (c_y r) = Built ra -> cgmy_construct fgamma fpow dc_cgmy_hi (c_g r) (c_m r) (c_y r) = Built rb -> (price ra - market) * (price rb - market) <= 0) ->
  exists h' q, gen_run_default_calibration CgmyRec CgmyField cgmy_set (cgmy_initialisation_checked fgamma fpow) price dflt (cgmy_model_ok generic) h p dc_cgmy_field (dc_cgmy_lo, dc_cgmy_hi) market xs x = Some (h', q)
    /\ (forall p', (p' < length h)%nat -> load CgmyRec dflt h' p' = load CgmyRec dflt h p') /\ (length h <= q)%nat
    /\ cgmy_construct fgamma fpow x (c_g r) (c_m r) (c_y r) = Built (load CgmyRec dflt h' q)
    /\ generic (load CgmyRec dflt h' q) = true.
Proof.
  intros Hp r HI He Hin Hgen Hsign.
  destruct (proj2 (proj2 (proj2 (default_calibration_returns_all fsqrt fgamma fpow))) price (cgmy_model_ok generic) dflt h p market xs x Hp HI Hin) as (h' & q & E & A & B & C & D).
  - intros y r' Hy K. apply cgmy_model_ok_spec. split; [|exact (Hgen y r' Hy K)].
    destruct (cgmy_construct_my _ _ _ _ _ K) as [Em Ey]. rewrite Em, Ey. exact He.
  - exact Hsign.
  - exists h', q. apply cgmy_model_ok_spec in D. repeat split; try assumption; apply D.
Qed.
End WithFloats.

Lemma real_guards_all : forall (fsqrt fgamma : Q -> Q) (fpow : Q -> Q -> Q),
  (* what the instantiated constructor test is *)
  ((forall generic r, hem_model_ok generic r = true <-> 1 < h_eta1 r /\ generic r = true)
   /\ (forall generic r, cgmy_model_ok generic r = true <-> (1 < c_m r \/ (c_m r == 1 /\ 0 < c_y r)) /\ generic r = true))
  (* must raise *)
  /\ ((forall price generic dflt h p market xs x, (p < length h)%nat ->
        let r := load HemRec dflt h p in hem_valid r = true /\ hem_defined r = true -> h_eta1 r <= 1 ->
        gen_run_default_calibration HemRec HemField hem_set hem_initialisation_checked price dflt (hem_model_ok generic) h p dc_hem_field (dc_hem_lo, dc_hem_hi) market xs x = None)
   /\ (forall price generic dflt h p market xs x, (p < length h)%nat ->
        let r := load CgmyRec dflt h p in cgmy_valid r = true -> c_m r < 1 \/ (c_m r == 1 /\ c_y r <= 0) ->
        gen_run_default_calibration CgmyRec CgmyField cgmy_set (cgmy_initialisation_checked fgamma fpow) price dflt (cgmy_model_ok generic) h p dc_cgmy_field (dc_cgmy_lo, dc_cgmy_hi) market xs x = None)
   /\ (forall price generic dflt h p a b market xs, a <= 1 ->
        gen_calibrate_model_parameter HemRec HemField hem_set hem_initialisation_checked price dflt (hem_model_ok generic) h p HEta1 (a, b) market xs = None)).
Proof.
  intros. split; [split; [exact hem_model_ok_spec|exact cgmy_model_ok_spec]|]. split; [|split].
  - exact (hem_default_raises_eta1 fsqrt fgamma fpow).
  - exact (cgmy_default_raises_my fsqrt fgamma fpow).
  - exact hem_calibrate_eta1_low_end.
Qed.

Lemma real_guards_returns_all : forall (fsqrt fgamma : Q -> Q) (fpow : Q -> Q -> Q),
  (forall price generic dflt h p market xs x, (p < length h)%nat ->
     let r := load HemRec dflt h p in hem_valid r = true /\ hem_defined r = true -> 1 < h_eta1 r ->
     (forall y, In y (x :: xs) -> dc_hem_lo <= y /\ y <= dc_hem_hi) ->
     (forall y r', In y (dc_hem_lo :: dc_hem_hi :: x :: xs) -> hem_construct y (h_p r) (h_eta1 r) (h_eta2 r) (h_intensity r) = Built r' -> generic r' = true) ->
     (forall ra rb, hem_construct dc_hem_lo (h_p r) (h_eta1 r) (h_eta2 r) (h_intensity r) = Built ra -> hem_construct dc_hem_hi (h_p r) (h_eta1 r) (h_eta2 r) (h_intensity r) = Built rb -> (price ra - market) * (price rb - market) <= 0) ->
     exists h' q, gen_run_default_calibration HemRec HemField hem_set hem_initialisation_checked price dflt (hem_model_ok generic) h p dc_hem_field (dc_hem_lo, dc_hem_hi) market xs x = Some (h', q)
       /\ (forall p', (p' < length h)%nat -> load HemRec dflt h' p' = load HemRec dflt h p') /\ (length h <= q)%nat
       /\ hem_construct x (h_p r) (h_eta1 r) (h_eta2 r) (h_intensity r) = Built (load HemRec dflt h' q)
       /\ 1 < h_eta1 (load HemRec dflt h' q) /\ generic (load HemRec dflt h' q) = true)
  /\ (forall price generic dflt h p market xs x, (p < length h)%nat ->
     let r := load CgmyRec dflt h p in cgmy_valid r = true -> 1 < c_m r \/ (c_m r == 1 /\ 0 < c_y r) ->
     (forall y, In y (x :: xs) -> dc_cgmy_lo <= y /\ y <= dc_cgmy_hi) ->
     (forall y r', In y (dc_cgmy_lo :: dc_cgmy_hi :: x :: xs) -> cgmy_construct fgamma fpow y (c_g r) (c_m r) (c_y r) = Built r' -> generic r' = true) ->
     (forall ra rb, cgmy_construct fgamma fpow dc_cgmy_lo (c_g r) (c_m r) (c_y r) = Built ra -> cgmy_construct fgamma fpow dc_cgmy_hi (c_g r) (c_m r) (c_y r) = Built rb -> (price ra - market) * (price rb - market) <= 0) ->
     exists h' q, gen_run_default_calibration CgmyRec CgmyField cgmy_set (cgmy_initialisation_checked fgamma fpow) price dflt (cgmy_model_ok generic) h p dc_cgmy_field (dc_cgmy_lo, dc_cgmy_hi) market xs x = Some (h', q)
       /\ (forall p', (p' < length h)%nat -> load CgmyRec dflt h' p' = load CgmyRec dflt h p') /\ (length h <= q)%nat
       /\ cgmy_construct fgamma fpow x (c_g r) (c_m r) (c_y r) = Built (load CgmyRec dflt h' q)
       /\ generic (load CgmyRec dflt h' q) = true).
Proof.
  intros. split.
  - exact (hem_default_returns_real_guard fsqrt fgamma fpow).
  - exact (cgmy_default_returns_real_guard fsqrt fgamma fpow).
Qed.

(* non-vacuity, by vm_compute on the generated program with the generated guard, price := sigma, generic := accept:
   a HEM object with eta1 = 10 (history) calibrates (market 1/2 -> new object with sigma = 1/4, eta1 = 10 > 1);
   the same object after `eta1 = 1/2; initialisation()` (valid, defined, eta1 <= 1): the default calibration raises although the objective
   changes sign; calibrating eta1 over (1/2, 30) and over (1, 30) raises, over (2, 30) with a sign change it returns;
   CGMY (fgamma = fpow = constant 1): m = 20 returns, m = 1/2 raises *)
Lemma nonvacuous_c20_guards :
  match hem_construct (1#20) (3#5) 20 25 3 with
  | Built r0 =>
      let r := hem_run [(HEta1, 10); (HP, 1#2)] r0 in
      let rlow := hem_initialisation (hem_run [(HEta1, 1#2)] r0) in
      let run := gen_run_default_calibration HemRec HemField hem_set hem_initialisation_checked h_sigma r0 (hem_model_ok (fun _ => true)) in
      let cal := gen_calibrate_model_parameter HemRec HemField hem_set hem_initialisation_checked h_eta1 r0 (hem_model_ok (fun _ => true)) in
      hem_valid r = true /\ hem_defined r = true /\ Qle_bool (h_eta1 r) 1 = false
      /\ (match run [r] 0%nat dc_hem_field (dc_hem_lo, dc_hem_hi) (1#2) [1#2] (1#4) with
          | Some (h', q) => Qeq_bool (h_sigma (load HemRec r0 h' q)) (1#4) && Qeq_bool (h_eta1 (load HemRec r0 h' q)) 10 | None => false end = true)
      /\ hem_valid rlow = true /\ hem_defined rlow = true /\ Qle_bool (h_eta1 rlow) 1 = true
      /\ run [rlow] 0%nat dc_hem_field (dc_hem_lo, dc_hem_hi) (1#2) [1#2] (1#4) = None
      /\ cal [r] 0%nat HEta1 (1#2, 30) 5 [] = None
      /\ cal [r] 0%nat HEta1 (1, 30) 5 [] = None
      /\ (match cal [r] 0%nat HEta1 (2, 30) 5 [5] with Some h' => Qeq_bool (h_eta1 (load HemRec r0 h' 1)) 5 && Qeq_bool (h_eta1 (load HemRec r0 h' 0)) 10 | None => false end = true)
  | _ => False
  end
  /\ match cgmy_construct (fun _ => 1) (fun _ _ => 1) 1 15 20 (1#2), cgmy_construct (fun _ => 1) (fun _ _ => 1) 1 15 (1#2) (1#2) with
     | Built c0, Built c1 =>
         let run := gen_run_default_calibration CgmyRec CgmyField cgmy_set (cgmy_initialisation_checked (fun _ => 1) (fun _ _ => 1)) c_c c0 (cgmy_model_ok (fun _ => true)) in
         (match run [c0] 0%nat dc_cgmy_field (dc_cgmy_lo, dc_cgmy_hi) 3 [3] 3 with Some (h', q) => Qeq_bool (c_c (load CgmyRec c0 h' q)) 3 | None => false end = true)
         /\ cgmy_valid c1 = true /\ run [c1] 0%nat dc_cgmy_field (dc_cgmy_lo, dc_cgmy_hi) 3 [3] 3 = None
     | _, _ => False
     end.
Proof. vm_compute. repeat split. Qed.

(* FINDING F-C20-4 (audit 5b, D8): VGParameters declares a constraint for sigma only.  nu < 0 -- outside the domain nu > 0 of the Variance
   Gamma model -- is accepted by the constructor (an object is built; on /repo its cached _lambda_p / _lambda_m are nan) and by the setter on
   every object.  The model follows the code (C20_constraints: vg_guard VNu v = true for every v). *)
Lemma vg_nu_unconstrained : forall fsqrt : Q -> Q,
  exists sigma nu theta r, nu < 0 /\ vg_construct fsqrt sigma nu theta = Built r /\ v_nu r = nu
    /\ (forall r0, vg_set r0 VNu nu = (vg_write VNu nu r0, true))
    /\ (forall r0, vg_valid r0 = true /\ vg_defined r0 = true ->
          exists r1, assign_init VgRec VgField vg_set (vg_initialisation_checked fsqrt) r0 VNu nu = Some r1 /\ v_nu r1 = nu).
Proof.
  intro fsqrt. exists (1#10), (-(1)), (1#10), (vg_build fsqrt (1#10) (-(1)) (1#10)).
  split; [reflexivity|]. split; [reflexivity|]. split; [reflexivity|]. split.
  - intro r0. apply vg_set_accepts. apply (proj1 (proj2 (vg_guard_spec (-(1))))).
  - intros r0 [V D]. rewrite vg_assign_spec. rewrite (proj1 (proj2 (vg_guard_spec (-(1))))).
    assert (D' : vg_defined (vg_write VNu (-(1)) r0) = true).
    { apply vg_defined_spec. apply vg_defined_spec in D. destruct D as [_ Ds]. split; [simpl; intro H; discriminate H|exact Ds]. }
    rewrite D'. simpl andb. cbv iota. eexists. split; reflexivity.
Qed.

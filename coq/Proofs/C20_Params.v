(* C20: derived parameters stay in sync with updates; constraints are enforced on every assignment;
   specification-level statement about the calibration.  Definitions: Model/Params.v and the
   generated Gen/GenC20Params.v (constraint predicates, class-level guards, derived-field
   expressions translated twice: from __init__ and from initialisation()). *)
From Coq Require Import ZArith QArith Qabs Bool List Lia.
From RV Require Import Base.QB Gen.GenC20Params Model.Params.
Import ListNotations.
Open Scope Q_scope.

(* ---------- the constraint predicates mean what their names say ---------- *)
Lemma cond_positive_spec x : cond_positive x = true <-> 0 <= x.
Proof. unfold cond_positive. apply Qle_bool_iff. Qed.
Lemma cond_negative_spec x : cond_negative x = true <-> x <= 0.
Proof. unfold cond_negative. apply Qle_bool_iff. Qed.
Lemma cond_strictly_positive_spec x : cond_strictly_positive x = true <-> 0 < x.
Proof. unfold cond_strictly_positive. apply Qltb_lt. Qed.
Lemma cond_strictly_negative_spec x : cond_strictly_negative x = true <-> x < 0.
Proof. unfold cond_strictly_negative. apply Qltb_lt. Qed.
Lemma cond_greater_than_spec a x : cond_greater_than a x = true <-> a <= x.
Proof. unfold cond_greater_than. apply Qle_bool_iff. Qed.
Lemma cond_strictly_greater_than_spec a x : cond_strictly_greater_than a x = true <-> a < x.
Proof. unfold cond_strictly_greater_than. apply Qltb_lt. Qed.
Lemma cond_less_than_spec a x : cond_less_than a x = true <-> x <= a.
Proof. unfold cond_less_than. apply Qle_bool_iff. Qed.
Lemma cond_strictly_less_than_spec a x : cond_strictly_less_than a x = true <-> x < a.
Proof. unfold cond_strictly_less_than. apply Qltb_lt. Qed.
Lemma cond_between_spec a b x : cond_between a b x = true <-> a <= x /\ x <= b.
Proof. unfold cond_between. rewrite andb_true_iff, !Qle_bool_iff. tauto. Qed.
Lemma cond_strictly_between_spec a b x : cond_strictly_between a b x = true <-> a < x /\ x < b.
Proof. unfold cond_strictly_between. rewrite andb_true_iff, !Qltb_lt. tauto. Qed.

Ltac split_valid H :=
  repeat match type of H with (_ && _ = true) => let H' := fresh "Hv" in apply andb_prop in H; destruct H as [H H'] end.
Ltac close_valid := repeat (apply andb_true_intro; split); assumption.

Section P.
Variable fsqrt : Q -> Q.
Variable fgamma : Q -> Q.
Variable fpow : Q -> Q -> Q.

(* ================================================================== HEM *)
Lemma hem_init_eq_reinit sigma p eta1 eta2 intensity :
  hem_init_xi sigma p eta1 eta2 intensity = hem_reinit_xi sigma p eta1 eta2 intensity.
Proof. reflexivity. Qed.

Lemma hem_initialisation_is_build r :
  hem_initialisation r = hem_build (h_sigma r) (h_p r) (h_eta1 r) (h_eta2 r) (h_intensity r).
Proof. unfold hem_initialisation, hem_build. f_equal; try (symmetry; apply hem_init_eq_reinit). Qed.

Lemma hem_set_valid r f v : hem_valid r = true -> hem_valid (fst (hem_set r f v)) = true.
Proof.
  intro H. unfold hem_set. destruct (hem_guard f v) eqn:E; [|exact H].
  unfold hem_valid in *. split_valid H. destruct f; simpl in *; close_valid.
Qed.
Lemma hem_run_valid ops : forall r, hem_valid r = true -> hem_valid (hem_run ops r) = true.
Proof. induction ops as [|op ops IH]; intros r H; simpl; [exact H|]. apply IH, hem_set_valid, H. Qed.
Lemma hem_valid_initialisation r : hem_valid (hem_initialisation r) = hem_valid r.
Proof. reflexivity. Qed.
Lemma hem_construct_valid sigma p eta1 eta2 intensity r :
  hem_construct sigma p eta1 eta2 intensity = Some r -> hem_valid r = true /\ r = hem_build sigma p eta1 eta2 intensity.
Proof. unfold hem_construct. destruct (hem_valid _) eqn:E; intro H; inversion H; subst; auto. Qed.
Lemma hem_rebuild_valid r : hem_valid r = true -> hem_rebuild r = Some (hem_initialisation r).
Proof.
  intro H. unfold hem_rebuild, hem_construct. rewrite <- hem_initialisation_is_build.
  rewrite hem_valid_initialisation, H. reflexivity.
Qed.
Lemma hem_sync ops r0 : hem_valid r0 = true ->
  hem_rebuild (hem_run ops r0) = Some (hem_initialisation (hem_run ops r0)).
Proof. intro H. apply hem_rebuild_valid, hem_run_valid, H. Qed.

Lemma hem_set_rejects r f v : hem_guard f v = false -> hem_set r f v = (r, false).
Proof. intro H. unfold hem_set. rewrite H. reflexivity. Qed.
Lemma hem_set_accepts r f v : hem_guard f v = true -> hem_set r f v = (hem_write f v r, true).
Proof. intro H. unfold hem_set. rewrite H. reflexivity. Qed.
Lemma hem_guard_spec v :
  (hem_guard HSigma v = true <-> 0 <= v) /\ (hem_guard HP v = true <-> 0 < v) /\ (hem_guard HEta1 v = true <-> 0 < v)
  /\ (hem_guard HEta2 v = true <-> 0 < v) /\ (hem_guard HIntensity v = true <-> 0 <= v) /\ hem_guard HXi v = true.
Proof.
  simpl. unfold hem_guard_sigma, hem_guard_p, hem_guard_eta1, hem_guard_eta2, hem_guard_intensity.
  repeat split; try apply cond_positive_spec; try apply cond_strictly_positive_spec.
Qed.

(* ================================================================== Merton *)
Lemma merton_set_valid r f v : merton_valid r = true -> merton_valid (fst (merton_set r f v)) = true.
Proof.
  intro H. unfold merton_set. destruct (merton_guard f v) eqn:E; [|exact H].
  unfold merton_valid in *. split_valid H. destruct f; simpl in *; close_valid.
Qed.
Lemma merton_run_valid ops : forall r, merton_valid r = true -> merton_valid (merton_run ops r) = true.
Proof. induction ops as [|op ops IH]; intros r H; simpl; [exact H|]. apply IH, merton_set_valid, H. Qed.
Lemma merton_construct_valid sigma mu_j sigma_j intensity r :
  merton_construct sigma mu_j sigma_j intensity = Some r -> merton_valid r = true /\ r = merton_build sigma mu_j sigma_j intensity.
Proof. unfold merton_construct. destruct (merton_valid _) eqn:E; intro H; inversion H; subst; auto. Qed.
Lemma merton_rebuild_valid r : merton_valid r = true -> merton_rebuild r = Some (merton_initialisation r).
Proof.
  intro H. unfold merton_rebuild, merton_construct, merton_initialisation.
  replace (merton_build (m_sigma r) (m_mu_j r) (m_sigma_j r) (m_intensity r)) with r by (destruct r; reflexivity).
  rewrite H. reflexivity.
Qed.
Lemma merton_sync ops r0 : merton_valid r0 = true ->
  merton_rebuild (merton_run ops r0) = Some (merton_initialisation (merton_run ops r0)).
Proof. intro H. apply merton_rebuild_valid, merton_run_valid, H. Qed.
Lemma merton_set_rejects r f v : merton_guard f v = false -> merton_set r f v = (r, false).
Proof. intro H. unfold merton_set. rewrite H. reflexivity. Qed.
Lemma merton_set_accepts r f v : merton_guard f v = true -> merton_set r f v = (merton_write f v r, true).
Proof. intro H. unfold merton_set. rewrite H. reflexivity. Qed.
Lemma merton_guard_spec v :
  (merton_guard MSigma v = true <-> 0 <= v) /\ (merton_guard MMuJ v = true <-> 0 <= v)
  /\ (merton_guard MSigmaJ v = true <-> 0 < v) /\ (merton_guard MIntensity v = true <-> 0 <= v).
Proof.
  simpl. unfold merton_guard_sigma, merton_guard_mu_j, merton_guard_sigma_j, merton_guard_intensity.
  repeat split; try apply cond_positive_spec; try apply cond_strictly_positive_spec.
Qed.

(* ================================================================== Variance Gamma *)
Lemma vg_init_eq_reinit sigma nu theta :
  vg_init_c fsqrt sigma nu theta = vg_reinit_c fsqrt sigma nu theta
  /\ vg_init_lambda_p fsqrt sigma nu theta = vg_reinit_lambda_p fsqrt sigma nu theta
  /\ vg_init_lambda_m fsqrt sigma nu theta = vg_reinit_lambda_m fsqrt sigma nu theta.
Proof. repeat split; reflexivity. Qed.
Lemma vg_initialisation_is_build r :
  vg_initialisation fsqrt r = vg_build fsqrt (v_sigma r) (v_nu r) (v_theta r).
Proof.
  unfold vg_initialisation, vg_build.
  destruct (vg_init_eq_reinit (v_sigma r) (v_nu r) (v_theta r)) as (E1 & E2 & E3). f_equal; try (symmetry; assumption).
Qed.
Lemma vg_set_valid r f v : vg_valid r = true -> vg_valid (fst (vg_set r f v)) = true.
Proof.
  intro H. unfold vg_set. destruct (vg_guard f v) eqn:E; [|exact H].
  unfold vg_valid in *. split_valid H. destruct f; simpl in *; close_valid.
Qed.
Lemma vg_run_valid ops : forall r, vg_valid r = true -> vg_valid (vg_run ops r) = true.
Proof. induction ops as [|op ops IH]; intros r H; simpl; [exact H|]. apply IH, vg_set_valid, H. Qed.
Lemma vg_construct_valid sigma nu theta r :
  vg_construct fsqrt sigma nu theta = Some r -> vg_valid r = true /\ r = vg_build fsqrt sigma nu theta.
Proof. unfold vg_construct. destruct (vg_valid _) eqn:E; intro H; inversion H; subst; auto. Qed.
Lemma vg_rebuild_valid r : vg_valid r = true -> vg_rebuild fsqrt r = Some (vg_initialisation fsqrt r).
Proof.
  intro H. unfold vg_rebuild, vg_construct. rewrite <- vg_initialisation_is_build.
  change (vg_valid (vg_initialisation fsqrt r)) with (vg_valid r). rewrite H. reflexivity.
Qed.
Lemma vg_sync ops r0 : vg_valid r0 = true ->
  vg_rebuild fsqrt (vg_run ops r0) = Some (vg_initialisation fsqrt (vg_run ops r0)).
Proof. intro H. apply vg_rebuild_valid, vg_run_valid, H. Qed.
Lemma vg_set_rejects r f v : vg_guard f v = false -> vg_set r f v = (r, false).
Proof. intro H. unfold vg_set. rewrite H. reflexivity. Qed.
Lemma vg_set_accepts r f v : vg_guard f v = true -> vg_set r f v = (vg_write f v r, true).
Proof. intro H. unfold vg_set. rewrite H. reflexivity. Qed.
(* only sigma is constrained in the code: nu and theta are plain attributes *)
Lemma vg_guard_spec v :
  (vg_guard VSigma v = true <-> 0 <= v) /\ vg_guard VNu v = true /\ vg_guard VTheta v = true
  /\ vg_guard VC v = true /\ vg_guard VLambdaP v = true /\ vg_guard VLambdaM v = true.
Proof. simpl. unfold vg_guard_sigma, vg_guard_nu, vg_guard_theta. repeat split; apply cond_positive_spec. Qed.

(* ================================================================== CGMY *)
Lemma cgmy_init_eq_reinit c g m y :
  cgmy_init_CGammamY fgamma fpow c g m y = cgmy_reinit_CGammamY fgamma fpow c g m y
  /\ cgmy_init_MpowerY fgamma fpow c g m y = cgmy_reinit_MpowerY fgamma fpow c g m y
  /\ cgmy_init_GpowerY fgamma fpow c g m y = cgmy_reinit_GpowerY fgamma fpow c g m y.
Proof. repeat split; reflexivity. Qed.
Lemma cgmy_initialisation_is_build r :
  cgmy_initialisation fgamma fpow r = cgmy_build fgamma fpow (c_c r) (c_g r) (c_m r) (c_y r).
Proof.
  unfold cgmy_initialisation, cgmy_build.
  destruct (cgmy_init_eq_reinit (c_c r) (c_g r) (c_m r) (c_y r)) as (E1 & E2 & E3). f_equal; try (symmetry; assumption).
Qed.
Lemma cgmy_set_valid r f v : cgmy_valid r = true -> cgmy_valid (fst (cgmy_set r f v)) = true.
Proof.
  intro H. unfold cgmy_set. destruct (cgmy_guard f v) eqn:E; [|exact H].
  unfold cgmy_valid in *. split_valid H. destruct f; simpl in *; close_valid.
Qed.
Lemma cgmy_run_valid ops : forall r, cgmy_valid r = true -> cgmy_valid (cgmy_run ops r) = true.
Proof. induction ops as [|op ops IH]; intros r H; simpl; [exact H|]. apply IH, cgmy_set_valid, H. Qed.
Lemma cgmy_construct_valid c g m y r :
  cgmy_construct fgamma fpow c g m y = Some r -> cgmy_valid r = true /\ r = cgmy_build fgamma fpow c g m y.
Proof. unfold cgmy_construct. destruct (cgmy_valid _) eqn:E; intro H; inversion H; subst; auto. Qed.
Lemma cgmy_rebuild_valid r : cgmy_valid r = true -> cgmy_rebuild fgamma fpow r = Some (cgmy_initialisation fgamma fpow r).
Proof.
  intro H. unfold cgmy_rebuild, cgmy_construct. rewrite <- cgmy_initialisation_is_build.
  change (cgmy_valid (cgmy_initialisation fgamma fpow r)) with (cgmy_valid r). rewrite H. reflexivity.
Qed.
Lemma cgmy_sync ops r0 : cgmy_valid r0 = true ->
  cgmy_rebuild fgamma fpow (cgmy_run ops r0) = Some (cgmy_initialisation fgamma fpow (cgmy_run ops r0)).
Proof. intro H. apply cgmy_rebuild_valid, cgmy_run_valid, H. Qed.
Lemma cgmy_set_rejects r f v : cgmy_guard f v = false -> cgmy_set r f v = (r, false).
Proof. intro H. unfold cgmy_set. rewrite H. reflexivity. Qed.
Lemma cgmy_set_accepts r f v : cgmy_guard f v = true -> cgmy_set r f v = (cgmy_write f v r, true).
Proof. intro H. unfold cgmy_set. rewrite H. reflexivity. Qed.
Lemma cgmy_guard_spec v :
  (cgmy_guard CC v = true <-> 0 < v) /\ (cgmy_guard CG v = true <-> 0 <= v) /\ (cgmy_guard CM v = true <-> 0 <= v)
  /\ (cgmy_guard CY v = true <-> v < 2) /\ cgmy_guard CCGammamY v = true /\ cgmy_guard CMpowerY v = true /\ cgmy_guard CGpowerY v = true.
Proof.
  simpl. unfold cgmy_guard_c, cgmy_guard_g, cgmy_guard_m, cgmy_guard_y.
  repeat split; try apply cond_positive_spec; try apply cond_strictly_positive_spec; try apply cond_strictly_less_than_spec.
Qed.

End P.

(* ================================================================== calibration: specification level
   Full statement of the property (NOT proved here): "calibrate_model_parameter returns a value inside the
   admissible interval for which the model reprices the target within the root-finder tolerance, or raises".
   Existence of a root and convergence of scipy.optimize.brentq are hypotheses (`Root`), not conclusions. *)
Section CalibSpec.
  Variable Rec Field : Type.
  Variable set : Rec -> Field -> Q -> Rec * bool.
  Variable initialisation : Rec -> Rec.
  Variable rebuild : Rec -> option Rec.
  Variable valid : Rec -> bool.
  Variable price : Rec -> Q.
  Hypothesis sync1 : forall r f v, valid r = true -> rebuild (fst (set r f v)) = Some (initialisation (fst (set r f v))).

  Lemma calibration_spec r0 f market a b tol x :
    valid r0 = true -> Root Rec Field set initialisation price r0 f market a b tol x ->
    let out := run_default_calibration_model Rec Field set initialisation r0 f x in
    fst out = r0                                             (* the input model's parameters are untouched *)
    /\ (a <= x /\ x <= b)                                    (* the calibrated value lies in the admissible interval *)
    /\ rebuild (fst (set r0 f x)) = Some (snd out)           (* the returned parameters = direct construction with the final values *)
    /\ Qabs (price (snd out) - market) <= tol.               (* and reprice the target within the tolerance *)
  Proof.
    intros Hv (Ha & Hb & Hr). unfold run_default_calibration_model, calib_params; simpl.
    repeat split; auto.
  Qed.
End CalibSpec.

Section CalibInst.
Variable fsqrt : Q -> Q.
Variable fgamma : Q -> Q.
Variable fpow : Q -> Q -> Q.
Lemma hem_sync1 r f v : hem_valid r = true -> hem_rebuild (fst (hem_set r f v)) = Some (hem_initialisation (fst (hem_set r f v))).
Proof. intro H. exact (hem_sync [(f, v)] r H). Qed.
Lemma merton_sync1 r f v : merton_valid r = true -> merton_rebuild (fst (merton_set r f v)) = Some (merton_initialisation (fst (merton_set r f v))).
Proof. intro H. exact (merton_sync [(f, v)] r H). Qed.
Lemma vg_sync1 r f v : vg_valid r = true -> vg_rebuild fsqrt (fst (vg_set r f v)) = Some (vg_initialisation fsqrt (fst (vg_set r f v))).
Proof. intro H. exact (vg_sync fsqrt [(f, v)] r H). Qed.
Lemma cgmy_sync1 r f v : cgmy_valid r = true ->
  cgmy_rebuild fgamma fpow (fst (cgmy_set r f v)) = Some (cgmy_initialisation fgamma fpow (fst (cgmy_set r f v))).
Proof. intro H. exact (cgmy_sync fgamma fpow [(f, v)] r H). Qed.
End CalibInst.

(* ------------------------------------------------------------------ statements as they appear in Properties/C20.v *)
Lemma init_eq_reinit_all : forall (fsqrt fgamma : Q -> Q) (fpow : Q -> Q -> Q),
  (forall sigma p eta1 eta2 intensity, hem_init_xi sigma p eta1 eta2 intensity = hem_reinit_xi sigma p eta1 eta2 intensity)
  /\ (forall sigma nu theta,
        vg_init_c fsqrt sigma nu theta = vg_reinit_c fsqrt sigma nu theta
        /\ vg_init_lambda_p fsqrt sigma nu theta = vg_reinit_lambda_p fsqrt sigma nu theta
        /\ vg_init_lambda_m fsqrt sigma nu theta = vg_reinit_lambda_m fsqrt sigma nu theta)
  /\ (forall c g m y,
        cgmy_init_CGammamY fgamma fpow c g m y = cgmy_reinit_CGammamY fgamma fpow c g m y
        /\ cgmy_init_MpowerY fgamma fpow c g m y = cgmy_reinit_MpowerY fgamma fpow c g m y
        /\ cgmy_init_GpowerY fgamma fpow c g m y = cgmy_reinit_GpowerY fgamma fpow c g m y).
Proof. intros. split; [exact hem_init_eq_reinit | split; [exact (vg_init_eq_reinit fsqrt) | exact (cgmy_init_eq_reinit fgamma fpow)]]. Qed.

Lemma sync_after_any_history_all : forall (fsqrt fgamma : Q -> Q) (fpow : Q -> Q -> Q),
  (forall sigma p eta1 eta2 intensity r0 ops, hem_construct sigma p eta1 eta2 intensity = Some r0 ->
     hem_rebuild (hem_run ops r0) = Some (hem_initialisation (hem_run ops r0)))
  /\ (forall sigma mu_j sigma_j intensity r0 ops, merton_construct sigma mu_j sigma_j intensity = Some r0 ->
     merton_rebuild (merton_run ops r0) = Some (merton_initialisation (merton_run ops r0)))
  /\ (forall sigma nu theta r0 ops, vg_construct fsqrt sigma nu theta = Some r0 ->
     vg_rebuild fsqrt (vg_run ops r0) = Some (vg_initialisation fsqrt (vg_run ops r0)))
  /\ (forall c g m y r0 ops, cgmy_construct fgamma fpow c g m y = Some r0 ->
     cgmy_rebuild fgamma fpow (cgmy_run ops r0) = Some (cgmy_initialisation fgamma fpow (cgmy_run ops r0))).
Proof.
  intros. repeat split; intros.
  - apply hem_sync. eapply hem_construct_valid; eassumption.
  - apply merton_sync. eapply merton_construct_valid; eassumption.
  - apply vg_sync. eapply vg_construct_valid; eassumption.
  - apply cgmy_sync. eapply cgmy_construct_valid; eassumption.
Qed.

Lemma constraints_all :
  (forall r f v, hem_guard f v = false -> hem_set r f v = (r, false))
  /\ (forall r f v, hem_guard f v = true -> hem_set r f v = (hem_write f v r, true))
  /\ (forall v, (hem_guard HSigma v = true <-> 0 <= v) /\ (hem_guard HP v = true <-> 0 < v) /\ (hem_guard HEta1 v = true <-> 0 < v)
        /\ (hem_guard HEta2 v = true <-> 0 < v) /\ (hem_guard HIntensity v = true <-> 0 <= v) /\ hem_guard HXi v = true)
  /\ (forall r f v, merton_guard f v = false -> merton_set r f v = (r, false))
  /\ (forall r f v, merton_guard f v = true -> merton_set r f v = (merton_write f v r, true))
  /\ (forall v, (merton_guard MSigma v = true <-> 0 <= v) /\ (merton_guard MMuJ v = true <-> 0 <= v)
        /\ (merton_guard MSigmaJ v = true <-> 0 < v) /\ (merton_guard MIntensity v = true <-> 0 <= v))
  /\ (forall r f v, vg_guard f v = false -> vg_set r f v = (r, false))
  /\ (forall r f v, vg_guard f v = true -> vg_set r f v = (vg_write f v r, true))
  /\ (forall v, (vg_guard VSigma v = true <-> 0 <= v) /\ vg_guard VNu v = true /\ vg_guard VTheta v = true
        /\ vg_guard VC v = true /\ vg_guard VLambdaP v = true /\ vg_guard VLambdaM v = true)
  /\ (forall r f v, cgmy_guard f v = false -> cgmy_set r f v = (r, false))
  /\ (forall r f v, cgmy_guard f v = true -> cgmy_set r f v = (cgmy_write f v r, true))
  /\ (forall v, (cgmy_guard CC v = true <-> 0 < v) /\ (cgmy_guard CG v = true <-> 0 <= v) /\ (cgmy_guard CM v = true <-> 0 <= v)
        /\ (cgmy_guard CY v = true <-> v < 2) /\ cgmy_guard CCGammamY v = true /\ cgmy_guard CMpowerY v = true /\ cgmy_guard CGpowerY v = true).
Proof.
  repeat apply conj.
  - exact hem_set_rejects. - exact hem_set_accepts. - exact hem_guard_spec.
  - exact merton_set_rejects. - exact merton_set_accepts. - exact merton_guard_spec.
  - exact vg_set_rejects. - exact vg_set_accepts. - exact vg_guard_spec.
  - exact cgmy_set_rejects. - exact cgmy_set_accepts. - exact cgmy_guard_spec.
Qed.

Lemma calibration_spec_all : forall (fsqrt fgamma : Q -> Q) (fpow : Q -> Q -> Q),
  (forall price r0 f market a b tol x, hem_valid r0 = true ->
     Root HemRec HemField hem_set hem_initialisation price r0 f market a b tol x ->
     let out := run_default_calibration_model HemRec HemField hem_set hem_initialisation r0 f x in
     fst out = r0 /\ (a <= x /\ x <= b) /\ hem_rebuild (fst (hem_set r0 f x)) = Some (snd out) /\ Qabs (price (snd out) - market) <= tol)
  /\ (forall price r0 f market a b tol x, merton_valid r0 = true ->
     Root MertonRec MertonField merton_set merton_initialisation price r0 f market a b tol x ->
     let out := run_default_calibration_model MertonRec MertonField merton_set merton_initialisation r0 f x in
     fst out = r0 /\ (a <= x /\ x <= b) /\ merton_rebuild (fst (merton_set r0 f x)) = Some (snd out) /\ Qabs (price (snd out) - market) <= tol)
  /\ (forall price r0 f market a b tol x, vg_valid r0 = true ->
     Root VgRec VgField vg_set (vg_initialisation fsqrt) price r0 f market a b tol x ->
     let out := run_default_calibration_model VgRec VgField vg_set (vg_initialisation fsqrt) r0 f x in
     fst out = r0 /\ (a <= x /\ x <= b) /\ vg_rebuild fsqrt (fst (vg_set r0 f x)) = Some (snd out) /\ Qabs (price (snd out) - market) <= tol)
  /\ (forall price r0 f market a b tol x, cgmy_valid r0 = true ->
     Root CgmyRec CgmyField cgmy_set (cgmy_initialisation fgamma fpow) price r0 f market a b tol x ->
     let out := run_default_calibration_model CgmyRec CgmyField cgmy_set (cgmy_initialisation fgamma fpow) r0 f x in
     fst out = r0 /\ (a <= x /\ x <= b) /\ cgmy_rebuild fgamma fpow (fst (cgmy_set r0 f x)) = Some (snd out)
     /\ Qabs (price (snd out) - market) <= tol).
Proof.
  intros. repeat apply conj; intros price r0 f market a b tol x Hv HR.
  - exact (calibration_spec _ _ _ _ _ hem_valid price hem_sync1 r0 f market a b tol x Hv HR).
  - exact (calibration_spec _ _ _ _ _ merton_valid price merton_sync1 r0 f market a b tol x Hv HR).
  - exact (calibration_spec _ _ _ _ _ vg_valid price (vg_sync1 fsqrt) r0 f market a b tol x Hv HR).
  - exact (calibration_spec _ _ _ _ _ cgmy_valid price (cgmy_sync1 fgamma fpow) r0 f market a b tol x Hv HR).
Qed.

Lemma nonvacuous_c20 :
  match hem_construct (1#20) (3#5) 20 25 3 with
  | Some r0 =>
      let r := hem_run [(HEta1, 10); (HP, -1); (HXi, 7); (HP, 1#2)] r0 in
      snd (hem_set r0 HP (-1)) = false /\ h_p r = 1#2 /\ h_xi r = 7
      /\ Qeq_bool (h_xi (hem_initialisation r)) ((5#9) + (25#52) - 1) = true
      /\ hem_rebuild r = Some (hem_initialisation r)
  | None => False
  end
  /\ hem_construct (1#20) (-1) 20 25 3 = None
  /\ cgmy_construct (fun x => x) (fun x y => x) 1 15 20 2 = None.
Proof. vm_compute. repeat split. Qed.
